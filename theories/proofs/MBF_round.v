(* MBF_round.v - Float._normalise on an already normalised mantissa (rounding of the 8 carry bits),
   Double.to_single / from_single, subtraction of one from a negative integer (Float.isub as used by
   ifloor) and Float.ifloor (INT). *)
From Coq Require Import ZArith List Bool Lia ZifyBool.
From PCB Require Import lib.Result lib.PyInt lib.Harness lib.MBFPrims gen.Gen_mbf model.MBF
  proofs.MBF_base proofs.MBF_compare proofs.MBF_convert.
Import ListNotations.
Open Scope Z_scope.
Ltac Zify.zify_post_hook ::= Z.to_euclidean_division_equations.

(* ------------------------------------------------------------------------------------------------ *)
(* bit facts *)

Lemma land_pow2_testbit a n : 0 <= n -> Z.land a (2 ^ n) = if Z.testbit a n then 2 ^ n else 0.
Proof.
  intros Hn. apply Z.bits_inj'. intros k Hk. rewrite Z.land_spec, Z.pow2_bits_eqb by lia.
  destruct (Z.testbit a n) eqn:E.
  - rewrite Z.pow2_bits_eqb by lia. destruct (Z.eqb_spec n k) as [->|]; [rewrite E; reflexivity | apply andb_false_r].
  - rewrite Z.bits_0. destruct (Z.eqb_spec n k) as [->|]; [rewrite E; reflexivity | apply andb_false_r].
Qed.

Lemma land256 a : Z.land a 256 = if Z.odd (a / 256) then 256 else 0.
Proof.
  change 256 with (2 ^ 8) at 1. rewrite land_pow2_testbit by lia.
  replace (Z.testbit a 8) with (Z.odd (a / 256)); [reflexivity|].
  rewrite <- Z.bit0_odd. change 256 with (2 ^ 8). rewrite <- Z.shiftr_div_pow2 by lia.
  rewrite Z.shiftr_spec by lia. reflexivity.
Qed.

(* man & carrymask clears the low 8 bits *)
Lemma land_carrymask man n : 0 <= n -> 0 <= man < 2 ^ (n + 8) ->
  Z.land man (2 ^ (n + 8) - 256) = 256 * (man / 256).
Proof.
  intros Hn Hman.
  replace (2 ^ (n + 8) - 256) with (Z.shiftl (Z.ones n) 8).
  2:{ rewrite Z.shiftl_mul_pow2, Z.ones_equiv by lia. rewrite pow2_split by lia. change (2 ^ 8) with 256. lia. }
  replace (256 * (man / 256)) with (Z.shiftl (Z.shiftr man 8) 8).
  2:{ rewrite Z.shiftl_mul_pow2, Z.shiftr_div_pow2 by lia. change (2 ^ 8) with 256. lia. }
  apply Z.bits_inj'. intros k Hk. rewrite Z.land_spec.
  destruct (Z.lt_ge_cases k 8) as [Hlt|Hge].
  - rewrite !Z.shiftl_spec_low by lia. apply andb_false_r.
  - rewrite !Z.shiftl_spec by lia. rewrite Z.shiftr_spec by lia. replace (k - 8 + 8) with k by lia.
    destruct (Z.lt_ge_cases (k - 8) n) as [Hlo|Hhi].
    + rewrite Z.ones_spec_low by lia. apply andb_true_r.
    + rewrite Z.ones_spec_high by lia. rewrite andb_false_r.
      rewrite <- (Z.mod_small man (2 ^ (n + 8))) by lia.
      rewrite Z.mod_pow2_bits_high by lia. reflexivity.
Qed.

(* ------------------------------------------------------------------------------------------------ *)
(* _normalise on den_mask <= man < den_upper *)

Lemma round_even8_range man P : 0 < P -> 256 * P <= man < 512 * P ->
  P <= round_even8 man <= 2 * P /\ man / 256 <= round_even8 man <= man / 256 + 1.
Proof.
  intros HP Hman. unfold round_even8.
  assert (P <= man / 256 < 2 * P) by lia.
  destruct ((128 <? man mod 256) || ((man mod 256 =? 128) && Z.odd (man / 256))); lia.
Qed.

(* (exponent, mantissa) after rounding, with the carry into the next exponent *)
Definition norm_result (C : fconst) (exp man : Z) : Z * Z :=
  let r := round_even8 man in
  if r =? 2 ^ mbits C then (exp + 1, 2 ^ (mbits C - 1)) else (exp, r).

Lemma loop3_exit f C buf neg exp man : c_den_mask C - 1 <= man ->
  mbf_normalise_loop_3 (S f) C buf neg exp man = Ok (exp, man).
Proof.
  intros H. cbn [mbf_normalise_loop_3]. destruct (Z.ltb_spec man (c_den_mask C - 1)); [lia|reflexivity].
Qed.

Lemma normalise_norm_spec C buf exp man (neg : bool) : fmt_ok C -> zlen buf = c_size C -> 0 < exp ->
  c_den_mask C <= man < c_den_upper C ->
  mbf_normalise C buf exp man neg =
    let '(e', m') := norm_result C exp man in
    if e' >? 255 then Host 5 else Ok (f_encode C neg e' m').
Proof.
  intros HC Hlen Hexp Hman. pose proof (mbits_ge C HC) as Hg.
  rewrite (ok_den_mask C HC), (ok_den_upper C HC) in Hman.
  set (P := 2 ^ (mbits C - 1)) in *. assert (HP : 0 < P) by (apply pow2_pos; lia).
  assert (H2P : 2 ^ mbits C = 2 * P) by (apply pow2_pred; lia).
  assert (H256P : 2 ^ (mbits C + 7) = 256 * P).
  { unfold P. replace (mbits C + 7) with (8 + (mbits C - 1)) by lia. rewrite pow2_split by lia. reflexivity. }
  assert (H512P : 2 ^ (mbits C + 8) = 512 * P).
  { unfold P. replace (mbits C + 8) with (9 + (mbits C - 1)) by lia. rewrite pow2_split by lia. reflexivity. }
  rewrite H256P, H512P in Hman.
  unfold mbf_normalise.
  destruct (Z.eqb_spec man 0); [lia|]. destruct (Z.leb_spec exp 0); [lia|]. cbn [orb].
  rewrite (loop3_exit 999) by (rewrite (ok_den_mask C HC), H256P; lia). cbn [bind]. cbv beta iota.
  rewrite land255, land256, (ok_carrymask C HC), (ok_den_upper C HC).
  rewrite land_carrymask by (rewrite ?H512P; lia). rewrite H512P.
  unfold norm_result, round_even8. rewrite H2P. fold P.
  set (hi := man / 256) in *. set (low := man mod 256) in *.
  assert (Hhi : P <= hi < 2 * P) by (unfold hi; lia).
  assert (Hlow : 0 <= low < 256) by (unfold low; lia).
  (* the Python round_up flag is the flag of round_even8 *)
  replace ((low >? 128) || ((low =? 128) && ((if Z.odd hi then 256 else 0) =? 256)))
    with ((128 <? low) || ((low =? 128) && Z.odd hi)).
  2:{ f_equal; [lia|]. f_equal. destruct (Z.odd hi); reflexivity. }
  set (up := (128 <? low) || ((low =? 128) && Z.odd hi)).
  assert (Hb2z : b2z up = if up then 1 else 0) by reflexivity. rewrite Hb2z.
  destruct up.
  - (* round up *)
    destruct (Z.eqb_spec (hi + 1) (2 * P)) as [Hcarry|Hnc].
    + destruct (Z.geb_spec (256 * hi + 256 * 1) (512 * P)); [|lia]. cbn [bind]. cbv beta iota.
      replace (256 * hi + 256 * 1) with (512 * P) by lia.
      rewrite !Z.shiftr_div_pow2 by lia. change (2 ^ 1) with 2. change (2 ^ 8) with 256.
      replace (512 * P / 2 / 256) with P by lia.
      destruct (Z.gtb_spec (exp + 1) 255) as [Hov|Hin].
      * rewrite land_mask_spec by (try assumption; fold P; lia). fold P.
        rewrite pack_spec by (try assumption; fold P; rewrite ?H2P; destruct neg; lia).
        cbn [bind]. rewrite check_limits_overflow by lia. reflexivity.
      * pose proof (store_spec C buf neg (exp + 1) P HC Hlen ltac:(unfold byte_ok; lia) ltac:(fold P; lia)) as Hst.
        destruct (pack_into_le (c_intsize C) buf (Z.land P (if neg then c_mask C else c_posmask C))) as [b1|e1|x1|];
          cbn [bind] in *; try discriminate.
        rewrite check_limits_ok by lia. cbn [bind]. cbv beta iota.
        destruct (set_byte b1 (-1) (exp + 1)); cbn [bind] in *; try discriminate. exact Hst.
    + destruct (Z.geb_spec (256 * hi + 256 * 1) (512 * P)); [lia|]. cbn [bind]. cbv beta iota.
      rewrite !Z.shiftr_div_pow2 by lia. change (2 ^ 8) with 256.
      replace ((256 * hi + 256 * 1) / 256) with (hi + 1) by lia.
      destruct (Z.gtb_spec exp 255) as [Hov|Hin].
      * rewrite land_mask_spec by (try assumption; fold P; lia). fold P.
        rewrite pack_spec by (try assumption; fold P; rewrite ?H2P; destruct neg; lia).
        cbn [bind]. rewrite check_limits_overflow by lia. reflexivity.
      * pose proof (store_spec C buf neg exp (hi + 1) HC Hlen ltac:(unfold byte_ok; lia) ltac:(fold P; lia)) as Hst.
        destruct (pack_into_le (c_intsize C) buf (Z.land (hi + 1) (if neg then c_mask C else c_posmask C))) as [b1|e1|x1|];
          cbn [bind] in *; try discriminate.
        rewrite check_limits_ok by lia. cbn [bind]. cbv beta iota.
        destruct (set_byte b1 (-1) exp); cbn [bind] in *; try discriminate. exact Hst.
  - rewrite Z.mul_0_r, !Z.add_0_r.
    destruct (Z.eqb_spec hi (2 * P)); [lia|].
    destruct (Z.geb_spec (256 * hi) (512 * P)); [lia|]. cbn [bind]. cbv beta iota.
    rewrite !Z.shiftr_div_pow2 by lia. change (2 ^ 8) with 256.
    replace (256 * hi / 256) with hi by lia.
    destruct (Z.gtb_spec exp 255) as [Hov|Hin].
    + rewrite land_mask_spec by (try assumption; fold P; lia). fold P.
      rewrite pack_spec by (try assumption; fold P; rewrite ?H2P; destruct neg; lia).
      cbn [bind]. rewrite check_limits_overflow by lia. reflexivity.
    + pose proof (store_spec C buf neg exp hi HC Hlen ltac:(unfold byte_ok; lia) ltac:(fold P; lia)) as Hst.
      destruct (pack_into_le (c_intsize C) buf (Z.land hi (if neg then c_mask C else c_posmask C))) as [b1|e1|x1|];
        cbn [bind] in *; try discriminate.
      rewrite check_limits_ok by lia. cbn [bind]. cbv beta iota.
      destruct (set_byte b1 (-1) exp); cbn [bind] in *; try discriminate. exact Hst.
Qed.

(* ------------------------------------------------------------------------------------------------ *)
(* Double.from_single (widening) and Double.to_single (narrowing) *)

Lemma buf4 s : buf_ok Single_consts s -> exists s0 s1 s2 s3, s = [s0; s1; s2; s3] /\
  byte_ok s0 /\ byte_ok s1 /\ byte_ok s2 /\ byte_ok s3.
Proof.
  intros [Hl Hb]. change (c_size Single_consts) with 4 in Hl.
  destruct s as [|s0 [|s1 [|s2 [|s3 [|x r]]]]]; try (exfalso; unfold zlen in Hl; cbn [length] in Hl; lia).
  inversion Hb as [|? ? H0 Hb1]; subst. inversion Hb1 as [|? ? H1 Hb2]; subst.
  inversion Hb2 as [|? ? H2 Hb3]; subst. inversion Hb3 as [|? ? H3 _]; subst.
  exists s0, s1, s2, s3. auto.
Qed.

Lemma buf8 d : buf_ok Double_consts d -> exists d0 d1 d2 d3 d4 d5 d6 d7, d = [d0; d1; d2; d3; d4; d5; d6; d7] /\
  byte_ok d0 /\ byte_ok d1 /\ byte_ok d2 /\ byte_ok d3 /\ byte_ok d4 /\ byte_ok d5 /\ byte_ok d6 /\ byte_ok d7.
Proof.
  intros [Hl Hb]. change (c_size Double_consts) with 8 in Hl.
  destruct d as [|d0 [|d1 [|d2 [|d3 [|d4 [|d5 [|d6 [|d7 [|x r]]]]]]]]];
    try (exfalso; unfold zlen in Hl; cbn [length] in Hl; lia).
  inversion Hb as [|? ? H0 Hb1]; subst. inversion Hb1 as [|? ? H1 Hb2]; subst.
  inversion Hb2 as [|? ? H2 Hb3]; subst. inversion Hb3 as [|? ? H3 Hb4]; subst.
  inversion Hb4 as [|? ? H4 Hb5]; subst. inversion Hb5 as [|? ? H5 Hb6]; subst.
  inversion Hb6 as [|? ? H6 Hb7]; subst. inversion Hb7 as [|? ? H7 _]; subst.
  exists d0, d1, d2, d3, d4, d5, d6, d7. split; [reflexivity|]. repeat (split; [assumption|]). assumption.
Qed.

(* fields of a double in terms of the single formed by its high four bytes *)
Lemma double_fields d0 d1 d2 d3 s0 s1 s2 s3 :
  byte_ok d0 -> byte_ok d1 -> byte_ok d2 -> byte_ok d3 -> byte_ok s0 -> byte_ok s1 -> byte_ok s2 -> byte_ok s3 ->
  let d := [d0; d1; d2; d3; s0; s1; s2; s3] in let s := [s0; s1; s2; s3] in
  f_exp d = f_exp s /\ f_neg Double_consts d = f_neg Single_consts s /\
  f_man Double_consts d = 2 ^ 32 * f_man Single_consts s + (d0 + 256 * d1 + 65536 * d2 + 16777216 * d3).
Proof.
  intros H0 H1 H2 H3 H4 H5 H6 H7. cbv zeta.
  set (d := [d0; d1; d2; d3; s0; s1; s2; s3]). set (s := [s0; s1; s2; s3]). unfold byte_ok in *.
  assert (Hrs : f_raw s = s0 + 256 * s1 + 65536 * s2) by (unfold f_raw, s; cbn [removelast le_decode]; lia).
  assert (Hrd : f_raw d = (d0 + 256 * d1 + 65536 * d2 + 16777216 * d3) + 2 ^ 32 * f_raw s).
  { rewrite Hrs. unfold f_raw, d. cbn [removelast le_decode]. change (2 ^ 32) with 4294967296. lia. }
  split; [reflexivity|]. unfold f_neg, f_man. rewrite Hrd, mbits_Double, mbits_Single.
  set (t := d0 + 256 * d1 + 65536 * d2 + 16777216 * d3). assert (Ht : 0 <= t < 2 ^ 32) by (change (2 ^ 32) with 4294967296; lia).
  change (2 ^ (56 - 1)) with (2 ^ 32 * 2 ^ 23). change (2 ^ (24 - 1)) with (2 ^ 23).
  assert (Hr : 0 <= f_raw s < 2 ^ 24) by (rewrite Hrs; change (2 ^ 24) with 16777216; lia).
  change (2 ^ 32) with 4294967296 in *. change (2 ^ 23) with 8388608 in *. change (2 ^ 24) with 16777216 in *.
  split.
  - apply eq_true_iff_eq. rewrite !Z.leb_le. lia.
  - lia.
Qed.

Theorem from_single_spec s : buf_ok Single_consts s ->
  buf_ok Double_consts (d_from_single s) /\
  f_sval Double_consts (d_from_single s) = f_sval Single_consts s * 2 ^ 32.
Proof.
  intros Hs. destruct (buf4 s Hs) as (s0 & s1 & s2 & s3 & -> & H0 & H1 & H2 & H3).
  unfold d_from_single. cbn [app].
  assert (Hz : byte_ok 0) by (unfold byte_ok; lia).
  destruct (double_fields 0 0 0 0 s0 s1 s2 s3 Hz Hz Hz Hz H0 H1 H2 H3) as (He & Hn & Hm).
  split.
  - split; [reflexivity|]. repeat (constructor; [assumption|]). constructor.
  - unfold f_sval, f_zero. rewrite He, Hn, Hm. destruct (f_exp [s0; s1; s2; s3] =? 0); [reflexivity|].
    destruct (f_neg Single_consts [s0; s1; s2; s3]); lia.
Qed.

(* Double.to_single in terms of the double's own fields *)
Theorem to_single_spec d : buf_ok Double_consts d ->
  d_to_single d =
    if f_exp d =? 0 then Ok (zeros 4) else
    let '(e', m') := norm_result Single_consts (f_exp d) (f_man Double_consts d / 2 ^ 24) in
    if e' >? 255 then Host 5 else Ok (f_encode Single_consts (f_neg Double_consts d) e' m').
Proof.
  intros Hd. destruct (buf8 d Hd) as (d0 & d1 & d2 & d3 & d4 & d5 & d6 & d7 & -> & H0 & H1 & H2 & H3 & H4 & H5 & H6 & H7).
  unfold d_to_single.
  change (py_slice [d0; d1; d2; d3; d4; d5; d6; d7] (Some 4) None) with [d4; d5; d6; d7].
  change (py_nth 0 [d0; d1; d2; d3; d4; d5; d6; d7] 3) with d3.
  assert (Hs : buf_ok Single_consts [d4; d5; d6; d7]).
  { split; [reflexivity|]. repeat (constructor; [assumption|]). constructor. }
  rewrite (denormalise_spec Single_consts _ Single_ok Hs).
  destruct (double_fields d0 d1 d2 d3 d4 d5 d6 d7 H0 H1 H2 H3 H4 H5 H6 H7) as (He & Hn & Hm).
  cbv zeta in He, Hn, Hm. rewrite He, Hn, Hm.
  pose proof (f_man_bound Single_consts [d4; d5; d6; d7] Single_ok) as Hmb. rewrite mbits_Single in Hmb.
  change (2 ^ (24 - 1)) with 8388608 in Hmb. change (2 ^ 24) with 16777216 in *. change (2 ^ 32) with 4294967296.
  pose proof (f_exp_bound Single_consts _ Single_ok Hs) as Heb.
  set (ms := f_man Single_consts [d4; d5; d6; d7]) in *. set (e := f_exp [d4; d5; d6; d7]) in *.
  unfold byte_ok in *.
  replace ((4294967296 * ms + (d0 + 256 * d1 + 65536 * d2 + 16777216 * d3)) / 16777216) with (256 * ms + d3) by lia.
  destruct (Z.eqb_spec e 0) as [E0|E0].
  - unfold mbf_normalise. rewrite E0. rewrite orb_true_r. reflexivity.
  - rewrite normalise_norm_spec; [reflexivity | exact Single_ok | reflexivity | lia |].
    change (c_den_mask Single_consts) with 2147483648. change (c_den_upper Single_consts) with 4294967296. lia.
Qed.

(* ------------------------------------------------------------------------------------------------ *)
(* subtracting one from a non-positive integer-valued float (the isub of Float.ifloor) *)

Lemma one_encode C : fmt_ok C -> c_one C = f_encode C false 129 (2 ^ (mbits C - 1)).
Proof.
  intros HC. rewrite (ok_one C HC). unfold f_encode.
  replace (2 ^ (mbits C - 1) - 2 ^ (mbits C - 1) + 0) with 0 by lia. reflexivity.
Qed.

Lemma round_even8_exact x : round_even8 (256 * x) = x.
Proof.
  unfold round_even8. replace (256 * x / 256) with x by lia. replace ((256 * x) mod 256) with 0 by lia.
  cbn. lia.
Qed.

Lemma add_den_one C e1 m1 j : fmt_ok C ->
  2 ^ (mbits C - 1) <= m1 < 2 ^ mbits C -> 1 <= j -> e1 + j = c_bias C -> 129 <= e1 -> m1 mod 2 ^ j = 0 ->
  exists e' m', mbf_add_den C (e1, 256 * m1, true) (129, 256 * 2 ^ (mbits C - 1), true) = (e', 256 * m', true) /\
    2 ^ (mbits C - 1) <= m' < 2 ^ mbits C /\ m' * 2 ^ e' = (m1 + 2 ^ j) * 2 ^ e1 /\ e1 <= e' <= e1 + 1.
Proof.
  intros HC Hm1 Hj Hej He1 Hdiv. pose proof (mbits_ge C HC) as Hg.
  assert (Hbias : c_bias C = 128 + mbits C) by apply (ok_bias C HC).
  set (P := 2 ^ (mbits C - 1)) in *. assert (HP : 0 < P) by (apply pow2_pos; lia).
  assert (H2P : 2 ^ mbits C = 2 * P) by (apply pow2_pred; lia). rewrite H2P in Hm1.
  set (k := e1 - 129). assert (Hk : 0 <= k) by lia.
  assert (Hjk : j + k = mbits C - 1) by lia.
  assert (HPjk : P = 2 ^ j * 2 ^ k) by (unfold P; rewrite <- Hjk; apply pow2_split; lia).
  assert (H2j : 0 < 2 ^ j) by (apply pow2_pos; lia). assert (H2k : 0 < 2 ^ k) by (apply pow2_pos; lia).
  (* m1 + 2^j <= 2P because both m1 and 2P are multiples of 2^j *)
  assert (Hsum : m1 + 2 ^ j <= 2 * P).
  { assert (Em : m1 = 2 ^ j * (m1 / 2 ^ j)) by (pose proof (Z.div_mod m1 (2 ^ j)); lia).
    set (q := m1 / 2 ^ j) in *. assert (q < 2 * 2 ^ k) by nia. nia. }
  unfold mbf_add_den. cbv beta iota. change (129 =? 0) with false. cbv iota.
  destruct (Z.eqb_spec e1 0); [lia|].
  assert (Hsw : (if (e1 >? 129) || (e1 =? 129) && (256 * m1 >? 256 * P)
                 then (129, 256 * P, true, e1, 256 * m1, true)
                 else (e1, 256 * m1, true, 129, 256 * P, true)) = (129, 256 * P, true, e1, 256 * m1, true)).
  { destruct ((e1 >? 129) || (e1 =? 129) && (256 * m1 >? 256 * P)) eqn:E; [reflexivity|].
    assert (e1 = 129) by lia. assert (m1 = P) by lia. subst e1 m1. reflexivity. }
  rewrite Hsw. cbv beta iota. cbn [eqb negb]. rewrite andb_false_r. cbv iota. fold k.
  rewrite Z.shiftr_div_pow2 by lia.
  assert (Hsh : 256 * P / 2 ^ k = 256 * 2 ^ j).
  { rewrite HPjk. replace (256 * (2 ^ j * 2 ^ k)) with (256 * 2 ^ j * 2 ^ k) by lia. apply Z.div_mul. lia. }
  rewrite Hsh.
  assert (Hzf : (Z.land (256 * P) (Z.shiftl 1 k - 1) =? 0) = true).
  { apply Z.eqb_eq. rewrite Z.shiftl_mul_pow2, Z.mul_1_l by lia. rewrite land_ones_mod by lia.
    rewrite HPjk. replace (256 * (2 ^ j * 2 ^ k)) with (256 * 2 ^ j * 2 ^ k) by lia. apply Z.mod_mul. lia. }
  rewrite Hzf. cbn [negb andb].
  rewrite (ok_den_upper C HC).
  assert (H512P : 2 ^ (mbits C + 8) = 512 * P).
  { unfold P. replace (mbits C + 8) with (9 + (mbits C - 1)) by lia. rewrite pow2_split by lia. reflexivity. }
  rewrite H512P.
  destruct (Z.geb_spec (256 * 2 ^ j + 256 * m1) (512 * P)) as [Hov|Hin].
  - (* carry into the next exponent *)
    assert (m1 + 2 ^ j = 2 * P) by lia.
    exists (e1 + 1), P. rewrite Z.shiftr_div_pow2 by lia. change (2 ^ 1) with 2.
    replace ((256 * 2 ^ j + 256 * m1) / 2) with (256 * P) by lia.
    split; [reflexivity|]. split; [lia|]. split; [|lia].
    rewrite pow2_S by lia. nia.
  - exists e1, (m1 + 2 ^ j).
    replace (256 * 2 ^ j + 256 * m1) with (256 * (m1 + 2 ^ j)) by lia.
    split; [reflexivity|]. split; [lia|]. split; lia.
Qed.

Lemma isub_one_spec C b1 q : fmt_ok C -> buf_ok C b1 ->
  f_sval C b1 = - q * 2 ^ c_bias C -> 0 <= q < 2 ^ (mbits C - 1) ->
  exists b', mbf_isub C b1 (c_one C) = Ok b' /\ buf_ok C b' /\ f_sval C b' = f_sval C b1 - 2 ^ c_bias C.
Proof.
  intros HC Hb Hv Hq. pose proof (mbits_ge C HC) as Hg. pose proof (mbits_le C HC) as Hl.
  assert (Hbias : c_bias C = 128 + mbits C) by apply (ok_bias C HC).
  set (P := 2 ^ (mbits C - 1)) in *. assert (HP : 0 < P) by (apply pow2_pos; lia).
  assert (H2P : 2 ^ mbits C = 2 * P) by (apply pow2_pred; lia).
  assert (HQ : 0 < 2 ^ c_bias C) by (apply pow2_pos; lia).
  assert (Hone_ok : buf_ok C (c_one C)).
  { rewrite one_encode by assumption. apply f_encode_ok; [assumption | unfold byte_ok; lia | fold P; lia]. }
  assert (Hone : mbf_denormalise C (c_one C) = (129, 256 * P, false)).
  { rewrite denormalise_spec by assumption. rewrite one_encode by assumption.
    destruct (f_encode_fields C false 129 P HC ltac:(unfold byte_ok; lia) ltac:(fold P; lia)) as (E1 & E2 & E3).
    fold P. rewrite E1, E2, E3. reflexivity. }
  assert (HPb : P * 2 ^ 129 = 2 ^ c_bias C).
  { unfold P. rewrite <- pow2_split by lia. f_equal. lia. }
  unfold mbf_isub. rewrite Hone. rewrite denormalise_spec by assumption. cbn [negb].
  destruct (f_zero b1) eqn:Ez.
  - (* b1 is a zero: the result is minus one *)
    assert (Hs0 : f_sval C b1 = 0) by (unfold f_sval; rewrite Ez; reflexivity).
    unfold f_zero in Ez. apply Z.eqb_eq in Ez. rewrite Ez.
    unfold mbf_add_den. cbv beta iota. change (129 =? 0) with false. change (0 =? 0) with true. cbv iota.
    rewrite normalise_norm_spec; [| assumption | apply Hb | lia |].
    2:{ rewrite (ok_den_mask C HC), (ok_den_upper C HC).
        replace (mbits C + 7) with (8 + (mbits C - 1)) by lia. replace (mbits C + 8) with (9 + (mbits C - 1)) by lia.
        rewrite !pow2_split by lia. fold P. change (2 ^ 8) with 256. change (2 ^ 9) with 512. lia. }
    unfold norm_result. rewrite round_even8_exact, H2P. fold P.
    destruct (Z.eqb_spec P (2 * P)); [lia|]. change (129 >? 255) with false. cbv iota. cbn [bind].
    exists (f_encode C true 129 P). split; [reflexivity|].
    split; [apply f_encode_ok; [assumption | unfold byte_ok; lia | fold P; lia]|].
    rewrite f_encode_sval by (try assumption; try (fold P); lia). lia.
  - (* b1 is a negative integer -q, 1 <= q < P *)
    pose proof (f_mag_pos C b1 HC Hb Ez) as Hmp. rewrite f_sval_mag in Hv.
    assert (Hneg : f_neg C b1 = true) by (destruct (f_neg C b1); [reflexivity | exfalso; nia]).
    rewrite Hneg in *. assert (Hmag : f_mag C b1 = q * 2 ^ c_bias C) by lia.
    unfold f_mag in Hmag. rewrite Ez in Hmag.
    pose proof (f_man_bound C b1 HC) as Hman. fold P in Hman. rewrite H2P in Hman.
    pose proof (f_exp_bound C b1 HC Hb) as He.
    set (m1 := f_man C b1) in *. set (e1 := f_exp b1) in *.
    assert (He0 : e1 <> 0) by (unfold f_zero in Ez; fold e1 in Ez; lia).
    assert (Hq1 : 1 <= q) by nia.
    (* the exponent is below the bias: the value has fraction bits available *)
    assert (Hlt : e1 < c_bias C).
    { destruct (Z.lt_ge_cases e1 (c_bias C)) as [|Hge]; [assumption|exfalso].
      assert (0 < 2 ^ (e1 - c_bias C)) by (apply pow2_pos; lia).
      assert (E : 2 ^ e1 = 2 ^ (e1 - c_bias C) * 2 ^ c_bias C) by (rewrite <- pow2_split by lia; f_equal; lia).
      rewrite E in Hmag. nia. }
    set (j := c_bias C - e1). assert (Hj : 1 <= j) by lia.
    assert (Hm1 : m1 = q * 2 ^ j).
    { replace (c_bias C) with (j + e1) in Hmag by lia. rewrite pow2_split in Hmag by lia.
      assert (0 < 2 ^ e1) by (apply pow2_pos; lia). nia. }
    assert (Hj2 : j < mbits C).
    { destruct (Z.lt_ge_cases j (mbits C)) as [|Hge]; [assumption|exfalso].
      assert (2 ^ mbits C <= 2 ^ j) by (apply pow2_le; lia). nia. }
    destruct (add_den_one C e1 m1 j HC ltac:(fold P; lia) Hj ltac:(lia) ltac:(lia))
      as (e' & m' & Hadd & Hm' & Hval & He').
    { rewrite Hm1. apply Z.mod_mul. apply Z.pow_nonzero; lia. }
    fold P in Hadd, Hm'. rewrite Hadd.
    rewrite normalise_norm_spec; [| assumption | apply Hb | lia |].
    2:{ rewrite (ok_den_mask C HC), (ok_den_upper C HC).
        replace (mbits C + 7) with (8 + (mbits C - 1)) by lia. replace (mbits C + 8) with (9 + (mbits C - 1)) by lia.
        rewrite !pow2_split by lia. fold P. change (2 ^ 8) with 256. change (2 ^ 9) with 512. lia. }
    unfold norm_result. rewrite round_even8_exact.
    destruct (Z.eqb_spec m' (2 ^ mbits C)); [lia|].
    destruct (Z.gtb_spec e' 255); [lia|]. cbn [bind].
    exists (f_encode C true e' m'). split; [reflexivity|].
    split; [apply f_encode_ok; [assumption | unfold byte_ok; lia | lia]|].
    rewrite f_encode_sval by (try assumption; lia).
    rewrite f_sval_mag, Hneg. unfold f_mag. rewrite Ez. fold m1 e1.
    replace (c_bias C) with (j + e1) by lia. rewrite (pow2_split j e1) by lia. lia.
Qed.

(* ------------------------------------------------------------------------------------------------ *)
(* Float.ifloor (INT) *)

Theorem ifloor_spec C b : fmt_ok C -> buf_ok C b ->
  exists b', f_ifloor C b = Ok b' /\ buf_ok C b' /\
    f_sval C b' = (f_sval C b / 2 ^ c_bias C) * 2 ^ c_bias C.
Proof.
  intros HC Hb. pose proof (mbits_ge C HC) as Hg. pose proof (mbits_le C HC) as Hl.
  assert (Hbias : c_bias C = 128 + mbits C) by apply (ok_bias C HC).
  set (Q := 2 ^ c_bias C). assert (HQ : 0 < Q) by (apply pow2_pos; lia).
  destruct (itrunc_spec C b HC Hb) as (b1 & Ht & Hok1 & Hv1). fold Q in Hv1.
  unfold f_ifloor. rewrite Ht. cbn [bind].
  rewrite mbf_eq_spec, is_negative_spec by assumption.
  set (v := f_sval C b) in *.
  destruct (Z.eqb_spec (f_sval C b1) v) as [Heq|Hne]; cbn [negb andb].
  - (* already an integer *)
    exists b1. split; [reflexivity|]. split; [assumption|].
    rewrite Hv1. rewrite Hv1 in Heq.
    assert (E : v / Q = Z.quot v Q) by (symmetry; apply (Z.div_unique v Q _ 0); lia).
    rewrite E. reflexivity.
  - destruct (f_neg C b) eqn:Hneg.
    + (* negative non-integer: truncate and subtract one *)
      assert (Hvneg : v < 0).
      { unfold v. rewrite f_sval_mag, Hneg. pose proof (f_mag_nonneg C b HC Hb).
        destruct (Z.eq_dec (f_mag C b) 0) as [E|E]; [|lia]. exfalso. apply Hne. rewrite Hv1.
        unfold v. rewrite f_sval_mag, Hneg, E. cbn. reflexivity. }
      pose proof (Z.quot_rem' v Q) as Hqr. pose proof (Z.rem_bound_pos_neg v Q ltac:(lia) ltac:(lia)) as Hrb.
      assert (Hrem : Z.rem v Q <> 0) by (intro E; apply Hne; rewrite Hv1; lia).
      set (q := - Z.quot v Q) in *.
      assert (Hq0 : 0 <= q) by (unfold q; nia).
      (* |v| < 2^mbits * 2^e with fraction bits, so q < 2^(mbits-1) *)
      assert (Hqb : q < 2 ^ (mbits C - 1)).
      { pose proof (f_man_bound C b HC) as Hman. pose proof (f_exp_bound C b HC Hb) as He.
        assert (Hmag : f_mag C b = - v) by (unfold v; rewrite f_sval_mag, Hneg; lia).
        unfold f_mag in Hmag. destruct (f_zero b) eqn:Ez; [lia|].
        destruct (Z.lt_ge_cases (f_exp b) (c_bias C)) as [Hlt|Hge].
        - (* value magnitude < 2^mbits * 2^(bias-1) / 2^bias *)
          assert (- v < 2 ^ (mbits C - 1) * Q).
          { rewrite <- Hmag. unfold Q.
            assert (2 ^ f_exp b <= 2 ^ (c_bias C - 1)) by (apply pow2_le; lia).
            rewrite (pow2_pred (c_bias C)) by lia. rewrite (pow2_pred (mbits C)) in Hman by lia.
            assert (0 < 2 ^ (c_bias C - 1)) by (apply pow2_pos; lia).
            assert (0 < 2 ^ (mbits C - 1)) by (apply pow2_pos; lia). nia. }
          unfold q. nia.
        - (* exponent >= bias: the value is an integer, contradiction *)
          exfalso. apply Hrem.
          assert (Hdiv : (Q | v)).
          { exists (- (f_man C b * 2 ^ (f_exp b - c_bias C))).
            replace v with (- (f_man C b * 2 ^ f_exp b)) by lia.
            replace (f_exp b) with ((f_exp b - c_bias C) + c_bias C) at 1 by lia.
            rewrite pow2_split by lia. fold Q. lia. }
          apply Z.rem_divide; [lia | assumption]. }
      destruct (isub_one_spec C b1 q HC Hok1 ltac:(rewrite Hv1; fold Q; unfold q; lia) ltac:(lia))
        as (b' & Hs & Hok' & Hv').
      exists b'. split; [exact Hs|]. split; [exact Hok'|].
      rewrite Hv', Hv1. fold Q.
      assert (v / Q = Z.quot v Q - 1).
      { symmetry. apply (Z.div_unique v Q _ (Z.rem v Q + Q)); lia. }
      nia.
    + (* positive: truncation is the floor *)
      exists b1. split; [reflexivity|]. split; [assumption|]. rewrite Hv1.
      assert (0 <= v) by (unfold v; rewrite f_sval_mag, Hneg; apply f_mag_nonneg; assumption).
      rewrite Z.quot_div_nonneg by lia. reflexivity.
Qed.
