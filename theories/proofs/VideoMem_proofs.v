(* C34: assembly: what PEEK returns, what POKE changes, POKE-then-PEEK, disjoint coverage, block = bytewise. *)
From Coq Require Import ZArith List Bool Lia ZifyBool.
From PCB Require Import lib.Result lib.PyInt gen.Gen_vmem model.VideoMem
  proofs.VideoMem_arith proofs.VideoMem_bits proofs.VideoMem_walk proofs.VideoMem_get proofs.VideoMem_set
  proofs.VideoMem_block.
Import ListNotations.
Open Scope Z_scope.
Ltac Zify.zify_post_hook ::= Z.to_euclidean_division_equations.

Definition state_eq (a b : vstate) : Prop :=
  seq_eq (vs_px a) (vs_px b) /\ seq_eq (vs_ch a) (vs_ch b) /\ seq_eq (vs_at a) (vs_at b) /\
  vs_plane a = vs_plane b /\ vs_mask a = vs_mask b.

(* ---------------------------------------------------------------- graphics: set_memory on the pixel buffer *)
Definition gset (m : vmode) (st : vstate) (s : screen) (a : Z) (bs : list Z) : screen :=
  if vm_kind m =? 0 then cga_set m s a bs
  else if vm_kind m =? 1 then ega_set m s (vs_mask st) a bs
  else tandy_set m s a bs.

Lemma set_memory_g m st a bs : vm_kind m <> 3 -> (vm_kind m = 0 \/ vm_kind m = 1 \/ vm_kind m = 2) ->
  set_memory m st a bs = with_px st (gset m st (vs_px st) a bs).
Proof.
  intros _ [K | [K | K]]; unfold set_memory, gset; rewrite K; reflexivity.
Qed.

Lemma pokes_g m : (vm_kind m = 0 \/ vm_kind m = 1 \/ vm_kind m = 2) -> forall bs st addr,
  pokes m st addr bs = with_px st (px_pokes (fun s a b => gset m st s a [b]) (vs_px st) addr bs).
Proof.
  intros HK. induction bs as [|b r IH]; intros st addr.
  - destruct st; reflexivity.
  - cbn [pokes px_pokes]. unfold poke. rewrite set_memory_g by lia. rewrite IH. reflexivity.
Qed.

Lemma gset_block m st s addr bs : wf_gmode m = true ->
  seq_eq (gset m st s addr bs) (px_pokes (fun s a b => gset m st s a [b]) s addr bs).
Proof.
  intros W. destruct (wf_kind m W) as [K | [K | K]]; unfold gset; rewrite K; cbn [Z.eqb Pos.eqb].
  - apply cga_block_pokes; assumption.
  - apply ega_block_pokes; assumption.
  - apply tandy_block_pokes; assumption.
Qed.

(* ---------------------------------------------------------------- text: set_memory is the byte loop itself *)
Lemma text_set1_shift m ca rel i b : text_set1 m ca rel i b = text_set1 m ca (rel + i) 0 b.
Proof. unfold text_set1, vmem_text_set_split. rewrite !Z.add_0_r. reflexivity. Qed.

Definition with_cells (st : vstate) (ca : cells * cells) : vstate :=
  mk_vstate (vs_px st) (fst ca) (snd ca) (vs_plane st) (vs_mask st).

Lemma set_memory_text m st a bs : vm_kind m = 3 ->
  set_memory m st a bs = with_cells st (text_set m (vs_ch st, vs_at st) a bs).
Proof.
  intros K. unfold set_memory. rewrite K. cbn [Z.eqb Pos.eqb].
  destruct (text_set m (vs_ch st, vs_at st) a bs) as [ch at_]. reflexivity.
Qed.

Lemma pokes_text m : vm_kind m = 3 -> forall bs st a rel i, a - vm_seg m * 16 = rel + i ->
  pokes m st a bs = with_cells st (text_set_from m (vs_ch st, vs_at st) rel i bs).
Proof.
  intros K. induction bs as [|b r IH]; intros st a rel i Ha.
  - destruct st; reflexivity.
  - cbn [pokes text_set_from]. unfold poke. rewrite set_memory_text by exact K.
    unfold text_set. cbn [text_set_from]. rewrite Ha, <- text_set1_shift.
    rewrite (IH _ (a + 1) rel (i + 1)) by lia.
    unfold with_cells. cbn [vs_ch vs_at vs_px vs_plane vs_mask fst snd].
    destruct (text_set1 m (vs_ch st, vs_at st) rel i b) as [ch at_]. reflexivity.
Qed.

Lemma state_eq_refl st : state_eq st st.
Proof. repeat split; try apply seq_eq_refl. Qed.

(* block write = POKEs of the same bytes at addr, addr+1, .., for every start address and length *)
Theorem set_memory_pokes m st addr bs : wf_mode m = true ->
  state_eq (set_memory m st addr bs) (pokes m st addr bs).
Proof.
  intros W. destruct (wf_mode_cases m W) as [[K W3] | [Wg HK]].
  - rewrite (pokes_text m K bs st addr (addr - vm_seg m * 16) 0) by lia.
    rewrite set_memory_text by exact K. apply state_eq_refl.
  - rewrite set_memory_g by lia. rewrite pokes_g by exact HK.
    unfold state_eq, with_px. cbn [vs_px vs_ch vs_at vs_plane vs_mask].
    repeat split; try apply seq_eq_refl. apply gset_block. exact Wg.
Qed.

(* ---------------------------------------------------------------- graphics: one POKE *)
Definition writer (m : vmode) (st : vstate) (a : Z) : Z -> Z -> Z -> Z :=
  if vm_kind m =? 0 then cga_wr m
  else if vm_kind m =? 1 then ega_wr (ega_mask m (vs_mask st))
  else tandy_wr (a mod 2).

Lemma ega_wr_0 b i old : ega_wr 0 b i old = old.
Proof.
  unfold ega_wr. rewrite Z.land_0_r, Z.lor_0_l. change (Z.lnot 0) with (-1). apply Z.land_m1_r.
Qed.

Lemma item_write_id wr m s a b : (forall c i old, wr c i old = old) -> seq_eq (item_write wr m s a b) s.
Proof.
  intros H. unfold item_write. destruct (vmem_get_coords m a) as [[p x] y].
  destruct (vmem_coord_ok m p x y); [|apply seq_eq_refl].
  intros p' y' x'. unfold set_run. destruct (_ && _); [apply H | reflexivity].
Qed.

Theorem poke_px_spec m st a b : wf_gmode m = true ->
  seq_eq (vs_px (poke m st a b)) (item_write (writer m st a) m (vs_px st) a b) /\
  vs_plane (poke m st a b) = vs_plane st /\ vs_mask (poke m st a b) = vs_mask st.
Proof.
  intros W. pose proof (wf_kind m W) as HK. unfold poke. rewrite set_memory_g by lia.
  split; [|split; reflexivity].
  cbn [with_px vs_px]. unfold gset, writer.
  destruct HK as [K | [K | K]]; rewrite K; cbn [Z.eqb Pos.eqb].
  - apply cga_poke_item; assumption.
  - destruct (Z.eq_dec (ega_mask m (vs_mask st)) 0) as [E|E].
    + rewrite E. apply seq_eq_sym. unfold ega_set. cbv zeta. rewrite E. cbn [Z.eqb].
      apply item_write_id. intros c i old. apply ega_wr_0.
    + apply ega_poke_item; assumption.
  - apply tandy_poke_item; assumption.
Qed.

(* the pixels an address covers *)
Definition covers (m : vmode) (a p y x : Z) : Prop :=
  let '(p0, x0, y0) := vmem_get_coords m a in
  vmem_coord_ok m p0 x0 y0 = true /\ p = p0 /\ y = y0 /\ x0 <= x < x0 + peff m.

Theorem poke_outside m st a b p y x : wf_gmode m = true -> ~ covers m a p y x ->
  vs_px (poke m st a b) p y x = vs_px st p y x.
Proof.
  intros W Hn. destruct (poke_px_spec m st a b W) as [Hs _]. rewrite Hs.
  unfold item_write, covers in *. destruct (vmem_get_coords m a) as [[p0 x0] y0].
  destruct (vmem_coord_ok m p0 x0 y0); [|reflexivity].
  unfold set_run. destruct ((p =? p0) && (y =? y0) && (x0 <=? x) && (x <? x0 + peff m)) eqn:E; [|reflexivity].
  exfalso. apply Hn. lia.
Qed.

Theorem poke_inside m st a b p0 x0 y0 k : wf_gmode m = true ->
  vmem_get_coords m a = (p0, x0, y0) -> vmem_coord_ok m p0 x0 y0 = true -> 0 <= k < peff m ->
  vs_px (poke m st a b) p0 y0 (x0 + k) = writer m st a b k (vs_px st p0 y0 (x0 + k)).
Proof.
  intros W Hc Hok Hk. destruct (poke_px_spec m st a b W) as [Hs _]. rewrite Hs.
  unfold item_write. rewrite Hc, Hok. unfold set_run.
  replace ((p0 =? p0) && (y0 =? y0) && (x0 <=? x0 + k) && (x0 + k <? x0 + peff m)) with true by lia.
  replace (x0 + k - x0) with k by lia. reflexivity.
Qed.

(* a plane that POKE can change and PEEK reads back *)
Definition writable (m : vmode) (st : vstate) : bool :=
  if vm_kind m =? 1
  then memZ (ega_plane m (vs_plane st)) (vm_planes_used m) &&
       Z.testbit (ega_mask m (vs_mask st)) (ega_plane m (vs_plane st))
  else true.

Lemma list_max_nonneg l : 0 <= list_max l.
Proof. induction l as [|a l IH]; cbn [list_max fold_right]; [lia|]. unfold list_max in IH. lia. Qed.

Theorem poke_peek m st a b : wf_gmode m = true -> 0 <= b < 256 ->
  (let '(p, x, y) := vmem_get_coords m a in vmem_coord_ok m p x y = true) ->
  writable m st = true ->
  peek m (poke m st a b) a = b.
Proof.
  intros W Hb Hin Hw.
  assert (Wm : wf_mode m = true).
  { unfold wf_mode. destruct (wf_kind m W) as [K | [K | K]]; rewrite K; exact W. }
  pose proof (wf_kind m W) as HK.
  rewrite peek_spec; [|exact Wm|lia].
  unfold byte_spec. replace (vm_kind m =? 3) with false by lia.
  destruct (vmem_get_coords m a) as [[p x] y] eqn:Ec. rewrite Hin.
  destruct (poke_px_spec m st a b W) as (_ & Hpl & _).
  assert (Hpix : forall k, 0 <= k < peff m ->
            vs_px (poke m st a b) p y (x + k) = writer m st a b k (vs_px st p y (x + k))).
  { intros k Hk. apply poke_inside; assumption. }
  unfold reader, writer, writable in *. rewrite Hpl.
  destruct HK as [K | [K | K]]; rewrite K in *; cbn [Z.eqb Pos.eqb] in *.
  - assert (P : peff m = vm_ppb m) by (unfold peff; rewrite fac_not_tandy by lia; lia).
    assert (Hi : In (vm_ppb m) ipbs).
    { unfold wf_gmode in W. rewrite K in W. cbn [Z.eqb Pos.eqb] in W.
      apply divisor8 with (a := vm_bpp m); lia. }
    unfold cga_rd. transitivity (pack_byte (vm_ppb m) (unpack_byte (vm_ppb m) b)); [|apply pack_unpack; assumption].
    apply pack_byte_ext. intros k Hk. rewrite Hpix by lia. reflexivity.
  - apply andb_true_iff in Hw. destruct Hw as [Hu Ht]. rewrite Hu.
    destruct (ega_peff m W K) as [P _].
    assert (Hp0 : 0 <= ega_plane m (vs_plane st)).
    { unfold ega_plane. apply Z.mod_pos_bound. pose proof (list_max_nonneg (vm_planes_used m)). lia. }
    unfold ega_rd. transitivity (pack_byte 8 (unpack_byte 8 b)); [|apply pack_unpack; [cbn; tauto | exact Hb]].
    apply pack_byte_ext_mask. intros k Hk. change (pk_mask 8) with 1.
    rewrite Hpix by lia. rewrite ega_wr_plane by exact Hp0. rewrite Ht.
    symmetry. apply (unpack_masked 8 b k).
  - assert (P : peff m = 8).
    { unfold peff, fac. rewrite K. cbn [Z.eqb Pos.eqb]. unfold wf_gmode in W. rewrite K in W.
      cbn [Z.eqb Pos.eqb] in W. lia. }
    unfold tandy_rd. transitivity (pack_byte 8 (unpack_byte 8 b)); [|apply pack_unpack; [cbn; tauto | exact Hb]].
    apply pack_byte_ext_mask. intros k Hk. change (pk_mask 8) with 1.
    rewrite Hpix by lia. rewrite tandy_wr_plane by (apply Z.mod_pos_bound; lia).
    rewrite Z.eqb_refl. rewrite <- (unpack_masked 8 b k) at 1. reflexivity.
Qed.

(* ---------------------------------------------------------------- distinct addresses, disjoint coverage *)
(* the colour plane class of an address: its parity in Tandy mode 6, nothing otherwise *)
Definition plane_class (m : vmode) (a : Z) : Z := (a - vm_seg m * 16) mod fac m.

Theorem cell_injective m a1 a2 : wf_gmode m = true ->
  vmem_get_coords m a1 = vmem_get_coords m a2 -> plane_class m a1 = plane_class m a2 -> a1 = a2.
Proof.
  intros W Hc Hp. rewrite !coords_norm in Hc by exact W. apply lay_inj in Hc; [|exact W].
  unfold itemno, plane_class in *.
  pose proof (wf_pos m W) as (_ & _ & _ & _ & _ & Hf).
  assert (Hf0 : fac m <> 0) by lia.
  pose proof (Z.div_mod (a1 - vm_seg m * 16) (fac m) Hf0) as D1.
  pose proof (Z.div_mod (a2 - vm_seg m * 16) (fac m) Hf0) as D2.
  rewrite Hc, Hp in D1. rewrite <- D2 in D1. clear - D1.
  assert (a1 - vm_seg m * 16 = a2 - vm_seg m * 16) by exact D1. lia.
Qed.

Lemma mult_window P c1 c2 x1 x2 x : 0 < P -> x1 = c1 * P -> x2 = c2 * P ->
  x1 <= x < x1 + P -> x2 <= x < x2 + P -> x1 = x2.
Proof. intros HP -> -> H1 H2. assert (c1 = c2) by nia. subst. reflexivity. Qed.

Theorem covers_disjoint m a1 a2 p y x : wf_gmode m = true -> a1 <> a2 ->
  plane_class m a1 = plane_class m a2 -> covers m a1 p y x -> covers m a2 p y x -> False.
Proof.
  intros W Hne Hp H1 H2. apply Hne. apply (cell_injective m a1 a2 W); [|exact Hp].
  unfold covers in *. rewrite !coords_norm in * by exact W.
  pose proof (lay_x m (itemno m a1) W) as X1. pose proof (lay_x m (itemno m a2) W) as X2.
  destruct (lay m (itemno m a1)) as [[p1 x1] y1]. destruct (lay m (itemno m a2)) as [[p2 x2] y2].
  destruct H1 as (_ & -> & -> & Hx1). destruct H2 as (_ & E1 & E2 & Hx2). subst p2 y2.
  destruct X1 as (Ex1 & _). destruct X2 as (Ex2 & _).
  pose proof (wf_pos m W) as (_ & _ & _ & HP & _).
  assert (Hxx : x1 = x2) by (eapply mult_window; eassumption). rewrite Hxx. reflexivity.
Qed.

(* ---------------------------------------------------------------- text: one byte *)
Definition text_cell (m : vmode) (a : Z) : Z * Z * Z * Z :=
  let rel := a - vm_seg m * 16 in
  let '(page, offset) := vmem_text_get_split m rel 0 in
  let '(row, col) := vmem_text_get_cell m offset in
  (page, row, col, rel mod 2).

Definition text_in_range (m : vmode) (a : Z) : bool :=
  let '(page, row, col, par) := text_cell m a in
  negb (vmem_text_get_skip page) && text_cell_ok m page row.

Theorem text_peek m st a : vm_kind m = 3 -> cells_nonneg st ->
  peek m st a =
  let '(page, row, col, par) := text_cell m a in
  if text_in_range m a then (if par =? 0 then vs_ch st page row col else vs_at st page row col) else 0.
Proof.
  intros K Hc.
  assert (Hb : 0 <= byte_spec m st a).
  { unfold byte_spec. rewrite K. cbn [Z.eqb Pos.eqb]. unfold text_get1.
    destruct (vmem_text_get_split m (a - vm_seg m * 16) 0) as [page offset].
    destruct (vmem_text_get_skip page); [lia|].
    destruct (vmem_text_get_cell m offset) as [row col].
    destruct (text_cell_ok m page row); [|lia]. destruct (z2b _); apply Hc. }
  unfold peek, get_memory. rewrite K. cbn [Z.eqb Pos.eqb]. unfold text_get. rewrite zseq_0_1. cbn [map hd].
  unfold byte_spec in Hb. rewrite K in Hb. cbn [Z.eqb Pos.eqb] in Hb.
  rewrite Z.max_r by exact Hb.
  unfold text_in_range, text_cell, text_get1. cbv zeta.
  destruct (vmem_text_get_split m (a - vm_seg m * 16) 0) as [page offset].
  destruct (vmem_text_get_cell m offset) as [row col].
  rewrite Z.add_0_r.
  destruct (vmem_text_get_skip page); cbn [negb andb]; [reflexivity|].
  destruct (text_cell_ok m page row); [|reflexivity].
  unfold z2b. destruct ((a - vm_seg m * 16) mod 2 =? 0); reflexivity.
Qed.

Theorem text_poke m st a b : vm_kind m = 3 ->
  let '(page, row, col, par) := text_cell m a in
  poke m st a b =
  if text_in_range m a
  then (if par =? 0
        then mk_vstate (vs_px st) (upd (vs_ch st) page row col b) (vs_at st) (vs_plane st) (vs_mask st)
        else mk_vstate (vs_px st) (vs_ch st) (upd (vs_at st) page row col b) (vs_plane st) (vs_mask st))
  else mk_vstate (vs_px st) (vs_ch st) (vs_at st) (vs_plane st) (vs_mask st).
Proof.
  intros K. unfold poke. rewrite set_memory_text by exact K.
  unfold text_set. cbn [text_set_from]. unfold text_in_range, text_cell, text_set1, with_cells. cbv zeta.
  change (vmem_text_set_split m) with (vmem_text_get_split m).
  change (vmem_text_set_cell m) with (vmem_text_get_cell m).
  change vmem_text_set_skip with vmem_text_get_skip.
  destruct (vmem_text_get_split m (a - vm_seg m * 16) 0) as [page offset].
  destruct (vmem_text_get_cell m offset) as [row col].
  rewrite Z.add_0_r.
  destruct (vmem_text_get_skip page); cbn [negb andb fst snd]; [reflexivity|].
  destruct (text_cell_ok m page row); [|reflexivity].
  unfold z2b. destruct ((a - vm_seg m * 16) mod 2 =? 0); reflexivity.
Qed.

Theorem text_cell_injective m a1 a2 : wf_text m = true -> text_cell m a1 = text_cell m a2 -> a1 = a2.
Proof.
  unfold wf_text. intros W E.
  unfold text_cell, vmem_text_get_split, vmem_text_get_cell in E. cbv zeta in E. rewrite !Z.add_0_r in E.
  set (r1 := a1 - vm_seg m * 16) in *. set (r2 := a2 - vm_seg m * 16) in *.
  set (PS := vm_page_size m) in *. set (w2 := vm_width m * 2) in *.
  assert (HPS : 0 < PS) by lia. assert (Hw : 0 < w2) by lia.
  assert (E1 : r1 / PS = r2 / PS) by congruence.
  assert (E2 : (r1 mod PS) / w2 = (r2 mod PS) / w2) by congruence.
  assert (E3 : (r1 mod PS) mod w2 / 2 = (r2 mod PS) mod w2 / 2) by congruence.
  assert (E4 : r1 mod 2 = r2 mod 2) by congruence.
  (* parity of the offset in the row = parity of the address: page size and row size are even *)
  assert (Hpar : forall r, ((r mod PS) mod w2) mod 2 = r mod 2).
  { intros r. assert (Hev : PS mod 2 = 0) by lia.
    unfold w2. rewrite (Z.mul_comm (vm_width m) 2), mod_mul_mod by lia.
    pose proof (even_half PS Hev) as EP. rewrite EP. apply mod_mul_mod; lia. }
  assert (E5 : (r1 mod PS) mod w2 = (r2 mod PS) mod w2).
  { rewrite (Z.div_mod ((r1 mod PS) mod w2) 2), (Z.div_mod ((r2 mod PS) mod w2) 2) by lia.
    rewrite !Hpar. congruence. }
  assert (E6 : r1 mod PS = r2 mod PS).
  { rewrite (Z.div_mod (r1 mod PS) w2), (Z.div_mod (r2 mod PS) w2) by lia. congruence. }
  assert (E7 : r1 = r2).
  { rewrite (Z.div_mod r1 PS), (Z.div_mod r2 PS) by lia. congruence. }
  unfold r1, r2 in E7. lia.
Qed.

Lemma upd_same c page row col v : upd c page row col v page row col = v.
Proof. unfold upd. rewrite !Z.eqb_refl. reflexivity. Qed.

Lemma upd_other c page row col v p r k : (p, r, k) <> (page, row, col) -> upd c page row col v p r k = c p r k.
Proof.
  intros H. unfold upd. destruct ((p =? page) && (r =? row) && (k =? col)) eqn:E; [|reflexivity].
  exfalso. apply H. f_equal; [f_equal|]; lia.
Qed.

Theorem text_poke_peek m st a b : vm_kind m = 3 -> cells_nonneg st -> 0 <= b ->
  text_in_range m a = true -> peek m (poke m st a b) a = b.
Proof.
  intros K Hc Hb Hin.
  pose proof (text_poke m st a b K) as HP.
  assert (Hc' : cells_nonneg (poke m st a b)).
  { destruct (text_cell m a) as [[[page row] col] par]. rewrite HP, Hin.
    intros p r c. destruct (par =? 0); cbn [vs_ch vs_at]; split; try apply Hc;
      unfold upd; destruct (_ && _); try lia; apply Hc. }
  rewrite (text_peek m (poke m st a b) a K Hc').
  destruct (text_cell m a) as [[[page row] col] par]. rewrite HP, Hin.
  destruct (par =? 0); cbn [vs_ch vs_at]; apply upd_same.
Qed.

(* text: cells other than the one of the address keep character and attribute *)
Theorem text_poke_other m st a b p r c : vm_kind m = 3 ->
  (let '(page, row, col, par) := text_cell m a in (p, r, c) <> (page, row, col)) ->
  vs_ch (poke m st a b) p r c = vs_ch st p r c /\ vs_at (poke m st a b) p r c = vs_at st p r c.
Proof.
  intros K Hne. pose proof (text_poke m st a b K) as HP.
  destruct (text_cell m a) as [[[page row] col] par]. rewrite HP.
  destruct (text_in_range m a); [|split; reflexivity].
  destruct (par =? 0); cbn [vs_ch vs_at]; split; try reflexivity; apply upd_other; exact Hne.
Qed.

(* ---------------------------------------------------------------- graphics statements and PCOPY *)
Lemma wf_gmode_mode m : wf_gmode m = true -> wf_mode m = true /\ vm_kind m <> 3.
Proof.
  intros W. unfold wf_mode. destruct (wf_kind m W) as [K | [K | K]]; rewrite K; split; try exact W; discriminate.
Qed.

(* the reader of an address only looks at the pixels the address covers *)
Lemma byte_spec_ext m st1 st2 a : wf_gmode m = true ->
  vs_plane st1 = vs_plane st2 ->
  (forall p y x, covers m a p y x -> vs_px st1 p y x = vs_px st2 p y x) ->
  byte_spec m st1 a = byte_spec m st2 a.
Proof.
  intros W Hpl Hpx. destruct (wf_gmode_mode m W) as [_ K3].
  unfold byte_spec. replace (vm_kind m =? 3) with false by lia.
  unfold covers in Hpx.
  destruct (vmem_get_coords m a) as [[p x] y]. destruct (vmem_coord_ok m p x y) eqn:Ok; [|reflexivity].
  assert (Hk : forall k, 0 <= k < peff m -> vs_px st1 p y (x + k) = vs_px st2 p y (x + k)).
  { intros k Hk. apply Hpx. repeat split; try reflexivity; lia. }
  unfold reader. rewrite Hpl.
  destruct (wf_kind m W) as [K | [K | K]]; rewrite K; cbn [Z.eqb Pos.eqb].
  - assert (P : peff m = vm_ppb m) by (unfold peff; rewrite fac_not_tandy by lia; lia).
    unfold cga_rd. apply pack_byte_ext. intros k Hk0. apply Hk. lia.
  - destruct (memZ _ _); [|reflexivity]. destruct (ega_peff m W K) as [P _].
    unfold ega_rd. apply pack_byte_ext. intros k Hk0. rewrite Hk by lia. reflexivity.
  - assert (P : peff m = 8).
    { unfold peff, fac. rewrite K. cbn [Z.eqb Pos.eqb]. unfold wf_gmode in W. rewrite K in W.
      cbn [Z.eqb Pos.eqb] in W. lia. }
    unfold tandy_rd. apply pack_byte_ext. intros k Hk0. rewrite Hk by lia. reflexivity.
Qed.

(* drawing (PSET, LINE) outside the pixels an address covers does not change what PEEK returns there *)
Theorem draw_peek_outside m st a page y x w c : wf_gmode m = true ->
  (forall k, 0 <= k < w -> ~ covers m a page y (x + k)) ->
  peek m (draw_run st page y x w c) a = peek m st a.
Proof.
  intros W Hn. destruct (wf_gmode_mode m W) as [Wm K3].
  rewrite !peek_spec by (try exact Wm; intros K; contradiction).
  apply byte_spec_ext; [exact W | reflexivity |].
  intros p y' x' Hc. unfold draw_run, with_px, set_run. cbn [vs_px].
  destruct ((p =? page) && (y' =? y) && (x <=? x') && (x' <? x + w)) eqn:E; [|reflexivity].
  exfalso. apply (Hn (x' - x)); [lia|].
  replace (x + (x' - x)) with x' by lia.
  assert (p = page /\ y' = y) as [-> ->] by lia. exact Hc.
Qed.

(* the pixels drawn are the ones PEEK packs (with C34_peek) *)
Theorem draw_pixels st page y x w c k : 0 <= k < w ->
  vs_px (draw_run st page y x w c) page y (x + k) = c.
Proof.
  intros Hk. unfold draw_run, with_px, set_run. cbn [vs_px].
  replace ((page =? page) && (y =? y) && (x <=? x + k) && (x + k <? x + w)) with true by lia. reflexivity.
Qed.

(* PCOPY: the memory of the destination page then reads like the memory of the source page did *)
Lemma coords_page_shift m a k : wf_gmode m = true ->
  vmem_get_coords m (a + k * vm_page_size m) =
  let '(p, x, y) := vmem_get_coords m a in (p + k, x, y).
Proof.
  intros W. pose proof (wf_pos m W) as (HB & HI & HR & HP & _ & Hf).
  rewrite !coords_norm by exact W.
  assert (HPS : vm_page_size m = fac m * (vm_interleave m * bsz m)).
  { unfold wf_gmode in W. unfold bsz, fac in *.
    destruct (wf_kind m W) as [K | [K | K]]; rewrite K in *; cbn [Z.eqb Pos.eqb] in *.
    - rewrite Z.div_1_r. lia.
    - rewrite Z.div_1_r. lia.
    - assert (E : vm_bank_size m mod 2 = 0) by lia. pose proof (even_half _ E). lia. }
  assert (Hq : itemno m (a + k * vm_page_size m) = itemno m a + k * vm_interleave m * bsz m).
  { unfold itemno. rewrite HPS.
    replace (a + k * (fac m * (vm_interleave m * bsz m)) - vm_seg m * 16)
      with (a - vm_seg m * 16 + (k * vm_interleave m * bsz m) * fac m) by lia.
    rewrite Z.div_add by lia. reflexivity. }
  rewrite Hq. unfold lay, layN.
  rewrite Z.div_add, Z.mod_add by lia.
  rewrite Z.div_add, Z.mod_add by lia. reflexivity.
Qed.

Theorem pcopy_peek_other m st src dst a : wf_gmode m = true ->
  (let '(p, x, y) := vmem_get_coords m a in p <> dst) ->
  peek m (pcopy st src dst) a = peek m st a.
Proof.
  intros W Hp. destruct (wf_gmode_mode m W) as [Wm K3].
  rewrite !peek_spec by (try exact Wm; intros K; contradiction).
  apply byte_spec_ext; [exact W | reflexivity |].
  intros p y x Hc. unfold covers in Hc. destruct (vmem_get_coords m a) as [[p0 x0] y0].
  destruct Hc as (_ & -> & _). cbv beta iota in Hp. unfold pcopy, copy_page. cbn [vs_px].
  replace (p0 =? dst) with false by lia. reflexivity.
Qed.

Theorem pcopy_peek m st src dst a x y : wf_gmode m = true ->
  vmem_get_coords m a = (dst, x, y) ->
  0 <= src < vmem_num_pages m -> 0 <= dst < vmem_num_pages m ->
  peek m (pcopy st src dst) a = peek m st (a + (src - dst) * vm_page_size m).
Proof.
  intros W Hc Hs Hd. destruct (wf_gmode_mode m W) as [Wm K3].
  rewrite !peek_spec by (try exact Wm; intros K; contradiction).
  unfold byte_spec. replace (vm_kind m =? 3) with false by lia.
  rewrite coords_page_shift by exact W. rewrite Hc.
  replace (dst + (src - dst)) with src by lia.
  assert (Ok : vmem_coord_ok m src x y = vmem_coord_ok m dst x y).
  { unfold vmem_coord_ok. replace (src >=? 0) with true by lia. replace (dst >=? 0) with true by lia.
    replace (src <? vmem_num_pages m) with true by lia. replace (dst <? vmem_num_pages m) with true by lia.
    reflexivity. }
  rewrite Ok. destruct (vmem_coord_ok m dst x y); [|reflexivity].
  unfold reader, pcopy. cbn [vs_px vs_plane].
  destruct (wf_kind m W) as [K | [K | K]]; rewrite K; cbn [Z.eqb Pos.eqb].
  - unfold cga_rd. apply pack_byte_ext. intros k Hk. unfold copy_page. rewrite Z.eqb_refl. reflexivity.
  - destruct (memZ _ _); [|reflexivity]. unfold ega_rd. apply pack_byte_ext. intros k Hk.
    unfold copy_page. rewrite Z.eqb_refl. reflexivity.
  - assert (Hpar : (a + (src - dst) * vm_page_size m) mod 2 = a mod 2).
    { unfold wf_gmode in W. rewrite K in W. cbn [Z.eqb Pos.eqb] in W.
      assert (HPS : vm_page_size m = 2 * (2 * vm_bank_size m)) by lia.
      rewrite HPS. replace ((src - dst) * (2 * (2 * vm_bank_size m)))
        with (((src - dst) * 2 * vm_bank_size m) * 2) by lia.
      apply Z.mod_add. lia. }
    rewrite Hpar. unfold tandy_rd. apply pack_byte_ext. intros k Hk. unfold copy_page. rewrite Z.eqb_refl. reflexivity.
Qed.
