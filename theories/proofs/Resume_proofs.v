(* C40: resuming a suspended session continues with exactly the remaining statements (position model) *)
From Coq Require Import ZArith List Bool Lia.
From PCB Require Import lib.Result lib.PyInt gen.Gen_state model.Resume.
Import ListNotations.
Open Scope Z_scope.

(* ================= the parse-loop machine ================= *)
Section Machine.
  Variable S : Type.
  Variable exec : S -> nat -> option (S * nat).

  Notation istate := (istate S).
  Notation run := (run S exec).

  Lemma run_boundary n s : in_stmt S s = false -> redo_flag S s = false ->
    in_stmt S (snd (run n s)) = false /\ redo_flag S (snd (run n s)) = false.
  Proof.
    revert s; induction n as [|n IH]; intros s Hb Hr; [simpl; auto|].
    cbn [Resume.run]. destruct (exec (st S s) (ptr S s)) as [[s' p']|]; [|simpl; auto].
    specialize (IH (IS S s' p' (ptr S s) false false) eq_refl eq_refl).
    destruct (run n (IS S s' p' (ptr S s) false false)) as [t f]. exact IH.
  Qed.

  (* running k+m statements = running k, then m more *)
  Lemma run_split k : forall m s,
    run (k + m) s =
    (let (t1, sk) := run k s in let (t2, sf) := run m sk in (t1 ++ t2, sf)).
  Proof.
    induction k as [|k IH]; intros m s.
    - cbn [Nat.add Resume.run]. destruct (run m s); reflexivity.
    - cbn [Nat.add Resume.run]. destruct (exec (st S s) (ptr S s)) as [[s' p']|] eqn:E.
      + rewrite IH. destruct (run k (IS S s' p' (ptr S s) false false)) as [t1 sk].
        destruct (run m sk) as [t2 sf]. reflexivity.
      + (* the program has ended: further statements do nothing *)
        destruct m as [|m]; [reflexivity|]. cbn [Resume.run st ptr]. rewrite E. reflexivity.
  Qed.

  (* a session suspended between statements is unpickled unchanged *)
  Lemma resume_boundary code s : in_stmt S s = false -> resume S code s = s.
  Proof. intros Hb. destruct s as [a p c i r]. simpl in Hb. subst i. reflexivity. Qed.

  (* suspend after any k statements (at the statement boundary), resume, run m more:
     the same statements are executed in the same order with the same final state as in k+m uninterrupted *)
  Theorem resume_point code k m s : in_stmt S s = false -> redo_flag S s = false ->
    run (k + m) s =
    (let (t1, sk) := run k s in let (t2, sf) := run m (resume S code sk) in (t1 ++ t2, sf)).
  Proof.
    intros Hb Hr. rewrite run_split.
    pose proof (run_boundary k s Hb Hr) as [Hk _].
    destruct (run k s) as [t1 sk]. simpl in Hk. rewrite resume_boundary by exact Hk. reflexivity.
  Qed.
End Machine.

(* ================= skip_to(END_STATEMENT) over well-formed statement bodies ================= *)
Lemma quote_facts : (ch_quote =? state_tk_REM) = false /\ (ch_quote =? 0) = false /\
  is_end ch_quote = false /\ plus_bytes ch_quote = O.
Proof. repeat split; reflexivity. Qed.

Lemma rem_not_quote : (state_tk_REM =? ch_quote) = false.
Proof. reflexivity. Qed.

Lemma skip_end e X : is_end e = true -> skip_es (e :: X) false false O = O.
Proof.
  unfold is_end. intros H. apply orb_true_iff in H as [H|H]; apply Z.eqb_eq in H; subst e; reflexivity.
Qed.

Lemma skip_blind pay : forall X l r, skip_es (pay ++ X) l r (length pay) = (length pay + skip_es X l r O)%nat.
Proof.
  induction pay as [|c pay IH]; intros X l r; [reflexivity|].
  cbn [app length skip_es Nat.add]. rewrite IH. reflexivity.
Qed.

Lemma skip_plain b X : plainb b = true ->
  skip_es (b :: X) false false O = Datatypes.S (skip_es X false false O).
Proof.
  unfold plainb. intros H.
  apply andb_true_iff in H as [H H5]. apply andb_true_iff in H as [H H4].
  apply andb_true_iff in H as [H H3]. apply andb_true_iff in H as [H1 H2].
  apply negb_true_iff in H1, H2, H3, H4. apply Nat.eqb_eq in H5.
  cbn [skip_es]. unfold is_end. rewrite H1, H2, H3, H4, H5. reflexivity.
Qed.

Lemma skip_multi lead pay X :
  wf_tok (TMulti lead pay) = true ->
  skip_es (lead :: pay ++ X) false false O = Datatypes.S (length pay + skip_es X false false O).
Proof.
  cbn [wf_tok]. intros H.
  apply andb_true_iff in H as [H H4]. apply andb_true_iff in H as [H H3].
  apply andb_true_iff in H as [H1 H2].
  apply negb_true_iff in H1, H2, H3. apply Nat.eqb_eq in H4.
  assert (H0 : (lead =? 0) = false).
  { unfold is_end in H1. apply orb_false_iff in H1 as [H1 _]. exact H1. }
  cbn [skip_es]. rewrite H2, H3, H0, H1. cbn [orb]. rewrite H4, skip_blind. reflexivity.
Qed.

Lemma skip_literal s : forall Y, forallb strb s = true ->
  skip_es (s ++ Y) true false O = (length s + skip_es Y true false O)%nat.
Proof.
  induction s as [|c s IH]; intros Y H; [reflexivity|].
  cbn [forallb] in H. apply andb_true_iff in H as [Hc Hs]. unfold strb in Hc.
  apply andb_true_iff in Hc as [H1 H2].
  apply negb_true_iff in H1, H2.
  cbn [app skip_es length Nat.add]. rewrite H1, H2. cbn [negb]. rewrite andb_false_r.
  destruct (c =? state_tk_REM); cbn [orb]; rewrite IH by exact Hs; reflexivity.
Qed.

Lemma skip_str s X : forallb strb s = true ->
  skip_es (ch_quote :: s ++ [ch_quote] ++ X) false false O
  = Datatypes.S (length s + Datatypes.S (skip_es X false false O)).
Proof.
  intros H. destruct quote_facts as (Q1 & Q2 & Q3 & Q4).
  cbn [skip_es]. rewrite Z.eqb_refl. cbn [negb orb].
  rewrite skip_literal by exact H. cbn [app skip_es]. rewrite Z.eqb_refl. cbn [negb orb].
  rewrite Q3, Q4. reflexivity.
Qed.

Lemma skip_remark r : forall lit X, forallb (fun c => negb (c =? 0)) r = true ->
  skip_es (r ++ 0 :: X) lit true O = length r.
Proof.
  induction r as [|c r IH]; intros lit X H.
  - cbn [app length]. destruct lit; reflexivity.
  - cbn [forallb] in H. apply andb_true_iff in H as [Hc Hr]. apply negb_true_iff in Hc.
    cbn [app skip_es length].
    assert (R1 : (if c =? ch_quote then true else if (c =? state_tk_REM) && negb lit then true
                  else if c =? 0 then false else true) = true).
    { destruct (c =? ch_quote); [reflexivity|]. destruct ((c =? state_tk_REM) && negb lit); [reflexivity|].
      rewrite Hc. reflexivity. }
    rewrite R1, orb_true_r. rewrite IH by exact Hr. reflexivity.
Qed.

Lemma skip_rem_start r X : forallb (fun c => negb (c =? 0)) r = true ->
  skip_es (state_tk_REM :: r ++ 0 :: X) false false O = Datatypes.S (length r).
Proof.
  intros H. cbn [skip_es]. rewrite rem_not_quote, Z.eqb_refl. cbn [orb].
  rewrite skip_remark by exact H. reflexivity.
Qed.

Lemma skip_toks toks : forall Y, forallb wf_tok toks = true ->
  skip_es (flat_map tok_bytes toks ++ Y) false false O
  = (length (flat_map tok_bytes toks) + skip_es Y false false O)%nat.
Proof.
  induction toks as [|t toks IH]; intros Y H; [reflexivity|].
  cbn [forallb] in H. apply andb_true_iff in H as [Ht Hts].
  cbn [flat_map]. rewrite <- app_assoc, app_length.
  destruct t as [b|lead pay|s]; cbn [tok_bytes].
  - cbn [app length]. rewrite skip_plain by exact Ht. rewrite IH by exact Hts. reflexivity.
  - cbn [app length]. rewrite skip_multi by exact Ht.
    rewrite IH by exact Hts. lia.
  - cbn [wf_tok] in Ht.
    replace ((ch_quote :: s ++ [ch_quote]) ++ flat_map tok_bytes toks ++ Y)
      with (ch_quote :: s ++ [ch_quote] ++ (flat_map tok_bytes toks ++ Y))
      by (cbn [app]; rewrite <- app_assoc; reflexivity).
    rewrite skip_str by exact Ht. rewrite IH by exact Hts.
    cbn [length]. rewrite app_length. cbn [length]. lia.
Qed.

(* the body of one statement is skipped exactly, whatever follows, as long as the next byte is a statement
   separator (NUL after a remark) *)
Lemma skip_body g e X : wf_seg g = true -> is_end e = true ->
  (match s_rem g with Some _ => e = 0 | None => True end) ->
  skip_es (seg_body g ++ e :: X) false false O = length (seg_body g).
Proof.
  unfold wf_seg, seg_body. intros H He Hrem.
  apply andb_true_iff in H as [H Hr]. apply andb_true_iff in H as [_ Ht].
  rewrite <- app_assoc, skip_toks by exact Ht. rewrite app_length.
  destruct (s_rem g) as [r|].
  - subst e. rewrite <- app_comm_cons. rewrite skip_rem_start by exact Hr. reflexivity.
  - cbn [app length]. rewrite skip_end by exact He. reflexivity.
Qed.

(* ================= statement boundaries of rendered programs ================= *)
Lemma wf_sep_cases sep : wf_sep sep = true ->
  (exists h, sep = 0 :: h /\ length h = 4%nat) \/ sep = [ch_colon].
Proof.
  unfold wf_sep, is_line_sep. intros H. apply orb_true_iff in H as [H|H].
  - destruct sep as [|c h]; [discriminate|]. destruct c; try discriminate.
    apply Nat.eqb_eq in H. left. exists h. auto.
  - destruct sep as [|c [|c' r]]; try discriminate. apply Z.eqb_eq in H. subst. right. reflexivity.
Qed.

Definition tail (r : list seg) : list Z := flat_map seg_bytes r ++ terminator.

Lemma wf_segs_cons g r : wf_segs (g :: r) = true ->
  wf_seg g = true /\ wf_segs r = true /\
  (match s_rem g, r with Some _, g' :: _ => is_line_sep (s_sep g') = true | _, _ => True end).
Proof.
  cbn [wf_segs]. intros H. apply andb_true_iff in H as [H H3]. apply andb_true_iff in H as [H1 H2].
  repeat split; try assumption. destruct (s_rem g); [|exact I]. destruct r; [exact I|exact H3].
Qed.

Lemma wf_segs_app l1 : forall g r, wf_segs (l1 ++ g :: r) = true -> wf_segs (g :: r) = true.
Proof.
  induction l1 as [|a l1 IH]; intros g r H; [exact H|].
  cbn [app] in H. apply wf_segs_cons in H as (_ & H & _). apply IH, H.
Qed.

Lemma tail_head g r : wf_segs (g :: r) = true ->
  exists e X, tail r = e :: X /\ is_end e = true /\
              (match s_rem g with Some _ => e = 0 | None => True end).
Proof.
  intros H. apply wf_segs_cons in H as (_ & Hr & Hl).
  destruct r as [|g' r'].
  - exists 0, [0; 0]. repeat split. destruct (s_rem g); auto.
  - apply wf_segs_cons in Hr as (Hg' & _ & _).
    unfold wf_seg in Hg'. apply andb_true_iff in Hg' as [Hg' _]. apply andb_true_iff in Hg' as [Hsep _].
    unfold tail. cbn [flat_map]. unfold seg_bytes at 1.
    destruct (wf_sep_cases _ Hsep) as [(h & E & Hh)|E].
    + rewrite E. exists 0. eexists. rewrite <- !app_assoc, <- !app_comm_cons. repeat split.
      destruct (s_rem g); auto.
    + rewrite E. exists ch_colon. eexists. rewrite <- !app_assoc. cbn [app]. repeat split.
      destruct (s_rem g); [|exact I]. rewrite E in Hl. discriminate.
Qed.

Lemma after_marker_sep pre sep rest : wf_sep sep = true ->
  after_marker (pre ++ sep ++ rest) (length pre) = length (pre ++ sep).
Proof.
  intros H. unfold after_marker.
  destruct (wf_sep_cases _ H) as [(h & E & Hh)|E]; subst sep.
  - rewrite nth_error_app2 by lia. rewrite Nat.sub_diag. cbn [app nth_error]. rewrite Z.eqb_refl.
    rewrite !app_length. cbn [length]. rewrite app_length. lia.
  - rewrite nth_error_app2 by lia. rewrite Nat.sub_diag. cbn [app nth_error].
    change (ch_colon =? 0) with false. cbv iota. rewrite app_length. cbn [length]. lia.
Qed.

(* interrupted while executing statement g (not redo): the pointer lands on the separator of the next one *)
Lemma reposition_seg l1 g r : wf_segs (l1 ++ g :: r) = true ->
  reposition (render (l1 ++ g :: r)) false (length (flat_map seg_bytes l1))
  = length (flat_map seg_bytes (l1 ++ [g])).
Proof.
  intros H. apply wf_segs_app in H.
  destruct (tail_head g r H) as (e & X & Et & He & Hrem).
  apply wf_segs_cons in H as (Hg & _ & _).
  assert (Hsep : wf_sep (s_sep g) = true).
  { unfold wf_seg in Hg. apply andb_true_iff in Hg as [Hg _]. apply andb_true_iff in Hg as [Hg _]. exact Hg. }
  unfold render. rewrite flat_map_app. cbn [flat_map]. rewrite <- !app_assoc.
  fold (tail r). rewrite Et. change (seg_bytes g) with (s_sep g ++ seg_body g). rewrite <- app_assoc.
  set (pre := flat_map seg_bytes l1).
  unfold reposition. cbv zeta.
  rewrite after_marker_sep by exact Hsep.
  rewrite (app_assoc pre (s_sep g)).
  rewrite skipn_app, Nat.sub_diag, skipn_all2 by lia. cbn [skipn app].
  rewrite skip_body by assumption.
  rewrite flat_map_app. cbn [flat_map]. rewrite app_nil_r.
  change (seg_bytes g) with (s_sep g ++ seg_body g). fold pre.
  rewrite !app_length. lia.
Qed.

Lemma start_app_l l1 r : start (l1 ++ r) (length l1) = length (flat_map seg_bytes l1).
Proof. unfold start. rewrite firstn_app, Nat.sub_diag, firstn_O, app_nil_r, firstn_all. reflexivity. Qed.

Lemma split_at {A} k (l : list A) : (k < length l)%nat ->
  exists l1 g r, l = l1 ++ g :: r /\ length l1 = k.
Proof.
  revert l; induction k as [|k IH]; intros [|a l] H; simpl in H; try lia.
  - exists [], a, l. auto.
  - destruct (IH l ltac:(lia)) as (l1 & g & r & E & Hl). exists (a :: l1), g, r. subst. auto.
Qed.

(* indexed form: statement k of any well-formed program *)
Theorem resume_mid_statement segs k anyptr : wf_segs segs = true -> (k < length segs)%nat ->
  setstate_pos (render segs) true false (start segs k) anyptr = start segs (Datatypes.S k) /\
  setstate_pos (render segs) true true (start segs k) anyptr = start segs k.
Proof.
  intros Hwf Hk. destruct (split_at k segs Hk) as (l1 & g & r & E & Hl). subst segs.
  split; [|reflexivity].
  unfold setstate_pos. rewrite <- Hl at 1. rewrite start_app_l.
  rewrite reposition_seg by exact Hwf.
  replace (l1 ++ g :: r) with ((l1 ++ [g]) ++ r) by (rewrite <- app_assoc; reflexivity).
  replace (Datatypes.S k) with (length (l1 ++ [g])) by (rewrite app_length; simpl; lia).
  rewrite start_app_l. reflexivity.
Qed.

Theorem resume_between_statements code redo cur p : setstate_pos code false redo cur p = p.
Proof. reflexivity. Qed.

(* statement starts are strictly increasing: consecutive boundaries are different statements *)
Lemma start_lt segs k : wf_segs segs = true -> (k < length segs)%nat ->
  (start segs k < start segs (Datatypes.S k))%nat.
Proof.
  intros Hwf Hk. destruct (split_at k segs Hk) as (l1 & g & r & E & Hl). subst segs k.
  rewrite start_app_l.
  replace (l1 ++ g :: r) with ((l1 ++ [g]) ++ r) by (rewrite <- app_assoc; reflexivity).
  replace (Datatypes.S (length l1)) with (length (l1 ++ [g])) by (rewrite app_length; simpl; lia).
  rewrite start_app_l, flat_map_app, app_length. cbn [flat_map]. rewrite app_nil_r.
  apply wf_segs_app, wf_segs_cons in Hwf as (Hg & _ & _).
  unfold wf_seg in Hg. apply andb_true_iff in Hg as [Hg _]. apply andb_true_iff in Hg as [Hsep _].
  unfold seg_bytes. rewrite app_length.
  destruct (wf_sep_cases _ Hsep) as [(h & E & Hh)|E]; rewrite E; simpl; lia.
Qed.
