(* C10: the invariant in index-free form (Good), its equivalence with the root-list form (Inv) used for the
   collector, and preservation by the primitive operations of the string-space model. *)
From Coq Require Import ZArith List Bool Lia.
From PCB Require Import lib.Result lib.PyInt model.StrSpace proofs.StrSpace_base proofs.StrSpace_gc.
Import ListNotations.
Open Scope Z_scope.

Definition obj_ok (c : cfg) (st : state) (o : obj) : Prop :=
  match o with
  | OVar n => is_strname n = true /\ exists p, lookup n (scal st) = Some (SStr p)
  | OArr n i => 0 <= i /\ exists d els, lookup n (arrs st) = Some (d, els) /\ (Z.to_nat i < length els)%nat
  | OStr p => ptr_ok c st p
  | OSaveS n p => is_strname n = true /\ ptr_ok c st p /\ Jp c st p
  | OSaveN n _ => is_strname n = false
  | _ => True
  end.

Record Good (c : cfg) (st : state) : Prop := mkGood {
  g_chain : chain (cur st + 1) (strs st) (top st + 1);
  g_low : 0 <= scur st /\ 0 <= acur st /\ (strs st = [] \/ var_start c + scur st + acur st <= cur st);
  g_j1 : match tmp st with Some t => strs st = [] \/ cur st <= t | None => True end;
  g_nd_scal : NoDup (map fst (scal st));
  g_nd_arrs : NoDup (map fst (arrs st));
  g_scal : forall n v, lookup n (scal st) = Some v -> is_strname n = true ->
                       exists p, v = SStr p /\ ptr_ok c st p /\ Jp c st p;
  g_scal_num : forall n v, lookup n (scal st) = Some v -> is_strname n = false -> exists z, v = SNum z;
  g_arrs : forall n d els, lookup n (arrs st) = Some (d, els) ->
                           is_strname n = true /\ forall p, In p els -> ptr_ok c st p /\ Jp c st p;
  g_arrlen : forall n d els, lookup n (arrs st) = Some (d, els) -> 0 <= d /\ length els = Z.to_nat (d + 1);
  g_acur : acur st = fold_right Z.add 0 (map (fun '(n, (d, _)) => array_mem d) (arrs st));
  g_stack : forall fr o, In fr (stack st) -> In o fr -> obj_ok c st o;
  g_tvals : forall o, In o (tvals st) -> obj_ok c st o;
  g_cfg : code_start c <= var_start c
}.

(* ---------- membership in the root list ---------- *)
Lemma In_lookup_nodup {A} k (v : A) l : NoDup (map fst l) -> In (k, v) l -> lookup k l = Some v.
Proof.
  induction l as [|[k' v'] l IH]; simpl; intros Hnd Hin; [contradiction|].
  inversion Hnd as [|? ? Hni Hnd']; subst. destruct Hin as [Hin|Hin].
  - inversion Hin; subst. rewrite Z.eqb_refl. reflexivity.
  - destruct (k =? k') eqn:E.
    + apply Z.eqb_eq in E; subst. exfalso. apply Hni. apply in_map_iff. exists (k', v). auto.
    + apply IH; assumption.
Qed.

Lemma in_scalar_roots st l : In l (scalar_roots st) <-> exists n v, l = LScal n /\ In (n, v) (scal st) /\ is_strname n = true.
Proof.
  unfold scalar_roots. rewrite in_flat_map. split.
  - intros ([n v] & Hin & Hl). destruct (is_strname n) eqn:E; [|contradiction].
    destruct Hl as [<-|[]]. exists n, v. auto.
  - intros (n & v & -> & Hin & E). exists (n, v). split; [exact Hin|]. rewrite E. left; reflexivity.
Qed.

Lemma in_seq_nat i s len : In i (seq_nat s len) <-> (s <= i < s + len)%nat.
Proof. revert s. induction len; intros s; simpl; [lia|]. rewrite IHlen. lia. Qed.

Lemma in_array_roots st l :
  In l (array_roots st) <-> exists n d els i, l = LArr n i /\ In (n, (d, els)) (arrs st) /\ is_strname n = true /\ (i < length els)%nat.
Proof.
  unfold array_roots. rewrite in_flat_map. split.
  - intros ([n [d els]] & Hin & Hl). destruct (is_strname n) eqn:E; [|contradiction].
    apply in_map_iff in Hl as (i & <- & Hi). apply in_seq_nat in Hi. exists n, d, els, i. repeat split; auto. lia.
  - intros (n & d & els & i & -> & Hin & E & Hi). exists (n, (d, els)). split; [exact Hin|]. rewrite E.
    apply in_map. apply in_seq_nat. lia.
Qed.

Lemma in_objs_roots own k0 os l :
  In l (objs_roots own k0 os) <-> exists k o, nth_error os k = Some o /\ In l (obj_root own (k0 + k)%nat o).
Proof.
  revert k0. induction os as [|o os IH]; intros k0; simpl.
  - split; [contradiction|]. intros (k & o & H & _). destruct k; discriminate.
  - rewrite in_app_iff, IH. split.
    + intros [H|(k & o' & Hn & Hin)].
      * exists 0%nat, o. rewrite Nat.add_0_r. auto.
      * exists (S k), o'. simpl. replace (k0 + S k)%nat with (S k0 + k)%nat by lia. auto.
    + intros ([|k] & o' & Hn & Hin); simpl in Hn.
      * inversion Hn; subst. rewrite Nat.add_0_r in Hin. left; exact Hin.
      * right. exists k, o'. replace (S k0 + k)%nat with (k0 + S k)%nat by lia. auto.
Qed.

Lemma in_frames_roots f0 frs l :
  In l (frames_roots f0 frs) <-> exists f fr k o, nth_error frs f = Some fr /\ nth_error fr k = Some o /\
                                                  In l (obj_root (LStk (f0 + f)) k o).
Proof.
  revert f0. induction frs as [|fr frs IH]; intros f0; simpl.
  - split; [contradiction|]. intros (f & fr & k & o & H & _). destruct f; discriminate.
  - rewrite in_app_iff, IH. unfold frame_roots. rewrite <- in_rev, in_objs_roots. split.
    + intros [(f & fr' & k & o & Hf & Hk & Hin)|(k & o & Hk & Hin)].
      * exists (S f), fr', k, o. simpl. replace (f0 + S f)%nat with (S f0 + f)%nat by lia. auto.
      * exists 0%nat, fr, k, o. rewrite Nat.add_0_r. simpl in Hin. auto.
    + intros ([|f] & fr' & k & o & Hf & Hk & Hin); simpl in Hf.
      * inversion Hf; subst. rewrite Nat.add_0_r in Hin. right. exists k, o. auto.
      * left. exists f, fr', k, o. replace (S f0 + f)%nat with (f0 + S f)%nat by lia. auto.
Qed.

Lemma in_stack_roots st l :
  In l (stack_roots st) <-> exists f fr k o, nth_error (stack st) f = Some fr /\ nth_error fr k = Some o /\
                                             In l (obj_root (LStk f) k o).
Proof. unfold stack_roots. rewrite in_frames_roots. reflexivity. Qed.

Lemma in_temp_roots st l :
  In l (temp_roots st) <-> exists k o, nth_error (tvals st) k = Some o /\ In l (obj_root LTmp k o).
Proof. unfold temp_roots. rewrite <- in_rev, in_objs_roots. reflexivity. Qed.

Lemma nth_error_nth_nil {A} (l : list (list A)) f fr : nth_error l f = Some fr -> nth f l [] = fr.
Proof. apply nth_error_nth'. Qed.

(* ---------- Good -> Inv ---------- *)
Lemma Jp_of_tmp c st p t : tmp st = Some t -> Jp c st p -> 0 < fst p -> var_start c <= snd p -> t < snd p.
Proof. unfold Jp. intros ->. auto. Qed.

Lemma Good_Inv c st : Good c st -> Inv c st.
Proof.
  intros G.
  (* facts about every root *)
  assert (Hroot : forall l, In l (roots st) ->
            valid_loc st l /\ ptr_ok c st (get_loc st l) /\ (jclass st l -> Jp c st (get_loc st l))).
  { intros l Hl. unfold roots in Hl. rewrite !in_app_iff in Hl.
    assert (HS : forall n, is_strname n = true -> (exists p, lookup n (scal st) = Some (SStr p)) ->
                 valid_loc st (LScal n) /\ ptr_ok c st (get_loc st (LScal n)) /\ (jclass st (LScal n) -> Jp c st (get_loc st (LScal n)))).
    { intros n Hs (p & Hp). destruct (g_scal _ _ G n _ Hp Hs) as (p' & Hv & Hok & HJ). inversion Hv; subst p'.
      simpl. unfold scal_ptr. rewrite Hp. split; [eauto|]. split; [exact Hok|]. intros _; exact HJ. }
    assert (HA : forall n i d els, lookup n (arrs st) = Some (d, els) -> (i < length els)%nat ->
                 valid_loc st (LArr n i) /\ ptr_ok c st (get_loc st (LArr n i)) /\ (jclass st (LArr n i) -> Jp c st (get_loc st (LArr n i)))).
    { intros n i d els Hlk Hi. destruct (g_arrs _ _ G n d els Hlk) as (_ & Hall).
      simpl. unfold arr_ptr. rewrite Hlk. split; [eauto|].
      destruct (Hall (nth i els (0, 0)) (nth_In _ _ Hi)) as [H1 H2]. split; [exact H1|]. intros _; exact H2. }
    assert (HO : forall own k o, obj_ok c st o ->
                 (valid_loc st (own k) /\ get_loc st (own k) = obj_own_ptr o /\ (jclass st (own k) -> exists n p, o = OSaveS n p) \/ is_own o = false) ->
                 forall l, In l (obj_root own k o) ->
                 valid_loc st l /\ ptr_ok c st (get_loc st l) /\ (jclass st l -> Jp c st (get_loc st l))).
    { intros own k o Hok Hown l0 Hin. destruct o; simpl in *; try contradiction.
      - destruct Hin as [<-|[]]. destruct Hok as [Hs He]. apply HS; assumption.
      - destruct Hin as [<-|[]]. destruct Hok as (Hi0 & d & els & Hlk & Hi). eapply HA; eassumption.
      - destruct Hin as [<-|[]]. destruct Hown as [(Hv & Hg & Hj)|Hf]; [|discriminate].
        split; [exact Hv|]. rewrite Hg. simpl. split; [exact Hok|]. intros Hjc. destruct (Hj Hjc) as (? & ? & Hx); discriminate.
      - destruct Hin as [<-|[]]. destruct Hown as [(Hv & Hg & Hj)|Hf]; [|discriminate].
        split; [exact Hv|]. rewrite Hg. simpl. destruct Hok as (H0 & H1 & H2). split; [exact H1|]. intros _; exact H2. }
    destruct Hl as [Hl|[Hl|[Hl|Hl]]].
    - apply in_scalar_roots in Hl as (n & v & -> & Hin & Hs).
      pose proof (In_lookup_nodup _ _ _ (g_nd_scal _ _ G) Hin) as Hlk.
      destruct (g_scal _ _ G n v Hlk Hs) as (p & -> & _). apply HS; eauto.
    - apply in_array_roots in Hl as (n & d & els & i & -> & Hin & Hs & Hi).
      pose proof (In_lookup_nodup _ _ _ (g_nd_arrs _ _ G) Hin) as Hlk. eapply HA; eassumption.
    - apply in_stack_roots in Hl as (f & fr & k & o & Hf & Hk & Hin).
      apply (HO (LStk f) k o); [|.. |exact Hin].
      + apply (g_stack _ _ G fr o); [eapply nth_error_In; eassumption|eapply nth_error_In; eassumption].
      + destruct (is_own o) eqn:Eo; [left|right; reflexivity]. simpl.
        rewrite (nth_error_nth_nil _ _ _ Hf). rewrite (nth_error_nth' _ _ (ONum 0 0) _ Hk).
        split; [exists fr, o; auto|]. split; [reflexivity|]. rewrite Hk. intros (n & p & Hx). inversion Hx. eauto.
    - apply in_temp_roots in Hl as (k & o & Hk & Hin).
      apply (HO LTmp k o); [|.. |exact Hin].
      + apply (g_tvals _ _ G o). eapply nth_error_In; eassumption.
      + destruct (is_own o) eqn:Eo; [left|right; reflexivity]. simpl.
        rewrite (nth_error_nth' _ _ (ONum 0 0) _ Hk).
        split; [exists o; auto|]. split; [reflexivity|]. rewrite Hk. intros (n & p & Hx). inversion Hx. eauto. }
  constructor.
  - exact (g_chain _ _ G).
  - intros l Hl. apply Hroot, Hl.
  - intros l Hl. apply Hroot, Hl.
  - exact (g_low _ _ G).
  - unfold Jinv. pose proof (g_j1 _ _ G) as H1. destruct (tmp st) as [t|] eqn:Et; [|exact I].
    split; [exact H1|]. intros l Hl Hj Hp Hv. destruct (Hroot l Hl) as (_ & _ & HJ).
    eapply Jp_of_tmp; eauto.
  - exact (g_cfg _ _ G).
Qed.

(* ---------- Inv -> Good, given the shape of a Good state ---------- *)
Lemma lookup_map_val {A B} (f : A -> B) k (l : list (Z * A)) :
  lookup k (map (fun '(n, v) => (n, f v)) l) = option_map f (lookup k l).
Proof.
  induction l as [|[k' v'] l IH]; simpl; [reflexivity|]. destruct (k =? k'); [reflexivity|exact IH].
Qed.

Lemma map_fst_map_val {A B} (f : A -> B) (l : list (Z * A)) : map fst (map (fun '(n, v) => (n, f v)) l) = map fst l.
Proof. induction l as [|[k v] l IH]; simpl; [reflexivity|]. rewrite IH. reflexivity. Qed.

Lemma lookup_In_key {A} k (l : list (Z * A)) : In k (map fst l) -> exists v, lookup k l = Some v.
Proof.
  induction l as [|[k' v'] l IH]; simpl; [contradiction|]. intros [H|H].
  - subst. rewrite Z.eqb_refl. eauto.
  - destruct (k =? k'); eauto.
Qed.

Lemma Inv_Good c st0 st : Good c st0 -> shape st = shape st0 -> Inv c st -> Good c st.
Proof.
  intros G0 Hsh HI. unfold shape in Hsh.
  injection Hsh as Hscal Harrs Hstack Htv Hfns Hact Htot Hstk Hscur Hac.
  assert (Hnd_s : NoDup (map fst (scal st))).
  { rewrite <- (map_fst_map_val skind), Hscal, map_fst_map_val. exact (g_nd_scal _ _ G0). }
  assert (Hnd_a : NoDup (map fst (arrs st))).
  { assert (E : forall l : list (Z * (Z * list ptr)), map fst (map (fun '(n, (d, els)) => (n, (d, length els))) l) = map fst l).
    { induction l as [|[k [d els]] l IH]; simpl; [reflexivity|]. rewrite IH. reflexivity. }
    rewrite <- E, Harrs, E. exact (g_nd_arrs _ _ G0). }
  assert (HJl : forall l, In l (roots st) -> jclass st l -> Jp c st (get_loc st l)).
  { intros l Hl Hj. unfold Jp. pose proof (inv_J _ _ HI) as HJ. unfold Jinv in HJ.
    destruct (tmp st) as [t|]; [|exact I]. destruct HJ as [_ HJ]. intros; apply HJ; auto. }
  (* objects: same kind as in st0 *)
  assert (Hobj : forall own k o o0, okind o = okind o0 -> obj_ok c st0 o0 ->
                 (forall l, In l (obj_root own k o) -> In l (roots st)) ->
                 (is_own o = true -> get_loc st (own k) = obj_own_ptr o /\ (forall n p, o = OSaveS n p -> jclass st (own k))) ->
                 obj_ok c st o).
  { intros own k o o0 Hk Hok0 Hr Hown.
    destruct o; destruct o0; simpl in Hk; try discriminate; simpl in *; auto.
    - inversion Hk; subst. destruct Hok0 as [Hs _]. split; [exact Hs|].
      exact (inv_valid _ _ HI _ (Hr _ (or_introl eq_refl))).
    - inversion Hk; subst. destruct Hok0 as [Hi0 _]. split; [exact Hi0|].
      exact (inv_valid _ _ HI _ (Hr _ (or_introl eq_refl))).
    - destruct (Hown eq_refl) as [Hg _]. rewrite <- Hg. apply (inv_roots _ _ HI), Hr. left; reflexivity.
    - inversion Hk; subst. destruct Hok0 as [Hn0 _]. split; [exact Hn0|].
      destruct (Hown eq_refl) as [Hg Hj]. rewrite <- Hg. split.
      + apply (inv_roots _ _ HI), Hr. left; reflexivity.
      + apply HJl; [apply Hr; left; reflexivity|]. eapply Hj; reflexivity.
    - inversion Hk; subst. exact Hok0. }
  constructor.
  - exact (inv_chain _ _ HI).
  - exact (inv_low _ _ HI).
  - pose proof (inv_J _ _ HI) as HJ. unfold Jinv in HJ. destruct (tmp st); [apply HJ|exact I].
  - exact Hnd_s.
  - exact Hnd_a.
  - intros n v Hlk Hs.
    assert (Hin : In (LScal n) (roots st)).
    { unfold roots. apply in_or_app. left. apply in_scalar_roots. exists n, v. split; [reflexivity|]. split; [apply lookup_In, Hlk|exact Hs]. }
    destruct (inv_valid _ _ HI _ Hin) as (p & Hp). simpl in Hp. rewrite Hlk in Hp. inversion Hp; subst v.
    exists p. split; [reflexivity|].
    pose proof (inv_roots _ _ HI _ Hin) as Hok. pose proof (HJl _ Hin I) as HJ.
    simpl in Hok, HJ. unfold scal_ptr in Hok, HJ. rewrite Hlk in Hok, HJ. auto.
  - intros n v Hlk Hs.
    assert (Hk : lookup n (map (fun '(n, v) => (n, skind v)) (scal st)) = Some (skind v)) by (rewrite lookup_map_val, Hlk; reflexivity).
    rewrite Hscal, lookup_map_val in Hk. destruct (lookup n (scal st0)) as [v0|] eqn:E0; [|discriminate].
    destruct (g_scal_num _ _ G0 n v0 E0 Hs) as (z & ->). simpl in Hk. destruct v; simpl in Hk; inversion Hk. eauto.
  - intros n d els Hlk.
    assert (Hs : is_strname n = true).
    { assert (Hl0 : lookup n (map (fun '(n, (d, els)) => (n, (d, length els))) (arrs st)) = Some (d, length els)).
      { clear - Hlk. induction (arrs st) as [|[k [d' els']] l IH]; simpl in *; [discriminate|].
        destruct (n =? k); [inversion Hlk; reflexivity|auto]. }
      rewrite Harrs in Hl0.
      assert (exists els0, lookup n (arrs st0) = Some (d, els0)) as (els0 & Hl00).
      { clear - Hl0. induction (arrs st0) as [|[k [d' els']] l IH]; simpl in *; [discriminate|].
        destruct (n =? k); [inversion Hl0; eauto|auto]. }
      apply (g_arrs _ _ G0 _ _ _ Hl00). }
    split; [exact Hs|]. intros p Hp. apply In_nth with (d := (0, 0)) in Hp as (i & Hi & Hnth).
    assert (Hin : In (LArr n i) (roots st)).
    { unfold roots. apply in_or_app. right. apply in_or_app. left. apply in_array_roots.
      exists n, d, els, i. split; [reflexivity|]. split; [apply lookup_In, Hlk|]. split; assumption. }
    pose proof (inv_roots _ _ HI _ Hin) as Hok. pose proof (HJl _ Hin I) as HJ.
    simpl in Hok, HJ. unfold arr_ptr in Hok, HJ. rewrite Hlk, Hnth in Hok, HJ. auto.
  - intros n d els Hlk.
    assert (Hl0 : lookup n (map (fun '(n, (d, els)) => (n, (d, length els))) (arrs st)) = Some (d, length els)).
    { clear - Hlk. induction (arrs st) as [|[k [d' els']] l IH]; simpl in *; [discriminate|].
      destruct (n =? k); [inversion Hlk; reflexivity|auto]. }
    rewrite Harrs in Hl0.
    assert (exists els0, lookup n (arrs st0) = Some (d, els0) /\ length els0 = length els) as (els0 & Hl00 & Hlen).
    { clear - Hl0. induction (arrs st0) as [|[k [d' els']] l IH]; simpl in *; [discriminate|].
      destruct (n =? k); [inversion Hl0; eauto|auto]. }
    destruct (g_arrlen _ _ G0 _ _ _ Hl00). split; [assumption|congruence].
  - rewrite Hac, (g_acur _ _ G0).
    assert (E : forall l : list (Z * (Z * list ptr)),
               map (fun '(n, (d, _)) => array_mem d) l
               = map (fun '(n, (d, _)) => array_mem d) (map (fun '(n, (d, els)) => (n, (d, length els))) l)).
    { induction l as [|[k [d els]] l IH]; simpl; [reflexivity|]. rewrite IH. reflexivity. }
    rewrite (E (arrs st)), (E (arrs st0)), Harrs. reflexivity.
  - intros fr o Hfr Ho.
    apply In_nth_error in Hfr as (f & Hf). apply In_nth_error in Ho as (k & Hk).
    (* the corresponding object of st0 *)
    assert (Hf0 : nth_error (map (map okind) (stack st)) f = Some (map okind fr)) by (rewrite nth_error_map, Hf; reflexivity).
    rewrite Hstack in Hf0. rewrite nth_error_map in Hf0.
    destruct (nth_error (stack st0) f) as [fr0|] eqn:Ef0; [|discriminate]. simpl in Hf0. inversion Hf0 as [Hfr0].
    assert (Hk0 : nth_error (map okind fr) k = Some (okind o)) by (rewrite nth_error_map, Hk; reflexivity).
    rewrite <- Hfr0 in Hk0. rewrite nth_error_map in Hk0.
    destruct (nth_error fr0 k) as [o0|] eqn:Ek0; [|discriminate]. simpl in Hk0. inversion Hk0 as [Hko].
    apply (Hobj (LStk f) k o o0); [symmetry; exact Hko| | |].
    + apply (g_stack _ _ G0 fr0 o0); eapply nth_error_In; eassumption.
    + intros l Hl. unfold roots. apply in_or_app. right. apply in_or_app. right. apply in_or_app. left.
      apply in_stack_roots. exists f, fr, k, o. auto.
    + intros _. simpl. rewrite (nth_error_nth_nil _ _ _ Hf). rewrite (nth_error_nth' _ _ (ONum 0 0) _ Hk).
      split; [reflexivity|]. intros n p ->. rewrite Hk. eauto.
  - intros o Ho. apply In_nth_error in Ho as (k & Hk).
    assert (Hk0 : nth_error (map okind (tvals st)) k = Some (okind o)) by (rewrite nth_error_map, Hk; reflexivity).
    rewrite Htv in Hk0. rewrite nth_error_map in Hk0.
    destruct (nth_error (tvals st0) k) as [o0|] eqn:Ek0; [|discriminate]. simpl in Hk0. inversion Hk0 as [Hko].
    apply (Hobj LTmp k o o0); [symmetry; exact Hko| | |].
    + apply (g_tvals _ _ G0 o0). eapply nth_error_In; eassumption.
    + intros l Hl. unfold roots. apply in_or_app. right. apply in_or_app. right. apply in_or_app. right.
      apply in_temp_roots. exists k, o. auto.
    + intros _. simpl. rewrite (nth_error_nth' _ _ (ONum 0 0) _ Hk).
      split; [reflexivity|]. intros n p ->. rewrite Hk. eauto.
  - exact (inv_cfg _ _ HI).
Qed.

(* ---------- pointwise relation between two states whose pointers may have been relocated ---------- *)
Definition RP (c : cfg) (st st' : state) (p p' : ptr) : Prop :=
  fst p' = fst p /\ deref c st' p' = deref c st p /\ (Jp c st p -> Jp c st' p').

Definition RO (c : cfg) (st st' : state) (o o' : obj) : Prop :=
  match o, o' with
  | OStr p, OStr p' => RP c st st' p p'
  | OSaveS n p, OSaveS n' p' => n = n' /\ RP c st st' p p'
  | _, _ => o = o'
  end.

Definition zero_sval (v : sval) : Prop := match v with SStr p => fst p = 0 | SNum z => z = 0 end.

(* X: the scalars that are exempt (parameters of a function being evaluated) *)
Record RelX (c : cfg) (X : Z -> Prop) (st st' : state) : Prop := mkRel {
  r_scal : forall n p, ~ X n -> lookup n (scal st) = Some (SStr p) ->
                       exists p', lookup n (scal st') = Some (SStr p') /\ RP c st st' p p';
  r_num : forall n z, ~ X n -> lookup n (scal st) = Some (SNum z) -> lookup n (scal st') = Some (SNum z);
  r_new : forall n, ~ X n -> lookup n (scal st) = None ->
                    lookup n (scal st') = None \/ exists v, lookup n (scal st') = Some v /\ zero_sval v;
  r_arrs : forall n d els, lookup n (arrs st) = Some (d, els) ->
                           exists els', lookup n (arrs st') = Some (d, els') /\ Forall2 (RP c st st') els els';
  r_newarr : forall n, lookup n (arrs st) = None ->
                       lookup n (arrs st') = None \/
                       exists d els, lookup n (arrs st') = Some (d, els) /\ forall p, In p els -> fst p = 0;
  r_stack : Forall2 (Forall2 (RO c st st')) (stack st) (stack st');
  r_tvals : Forall2 (RO c st st') (tvals st) (tvals st');
  r_misc : fns st' = fns st /\ totmem st' = totmem st /\ stksz st' = stksz st
}.
Definition Rel (c : cfg) := RelX c (fun _ => False).

Lemma Forall2_refl {A} (R : A -> A -> Prop) l : (forall x, R x x) -> Forall2 R l l.
Proof. intros H. induction l; constructor; auto. Qed.

Lemma Forall2_trans_gen {A} (R1 R2 R3 : A -> A -> Prop) l1 l2 l3 :
  (forall x y z, R1 x y -> R2 y z -> R3 x z) -> Forall2 R1 l1 l2 -> Forall2 R2 l2 l3 -> Forall2 R3 l1 l3.
Proof.
  intros H H1. revert l3. induction H1; intros l3 H2; inversion H2; subst; constructor; eauto.
Qed.

Lemma Forall2_nth_error {A} (R : A -> A -> Prop) l l' :
  length l = length l' ->
  (forall k a b, nth_error l k = Some a -> nth_error l' k = Some b -> R a b) -> Forall2 R l l'.
Proof.
  revert l'. induction l as [|x l IH]; intros [|y l'] Hlen H; simpl in Hlen; try discriminate; constructor.
  - apply (H 0%nat); reflexivity.
  - apply IH; [lia|]. intros k a b Ha Hb. apply (H (S k)); assumption.
Qed.

Lemma RP_refl c st p : RP c st st p p.
Proof. unfold RP. auto. Qed.

Lemma RO_refl c st o : RO c st st o o.
Proof. destruct o; simpl; auto using RP_refl. Qed.

Lemma RelX_refl c X st : RelX c X st st.
Proof.
  constructor.
  - intros n p _ H. exists p. split; [exact H|apply RP_refl].
  - auto.
  - auto.
  - intros n d els H. exists els. split; [exact H|]. apply Forall2_refl. apply RP_refl.
  - auto.
  - apply Forall2_refl. intros fr. apply Forall2_refl. apply RO_refl.
  - apply Forall2_refl. apply RO_refl.
  - auto.
Qed.
Lemma Rel_refl c st : Rel c st st.
Proof. apply RelX_refl. Qed.

Lemma RP_trans c s1 s2 s3 p q r : RP c s1 s2 p q -> RP c s2 s3 q r -> RP c s1 s3 p r.
Proof. unfold RP. intros (A1 & A2 & A3) (B1 & B2 & B3). repeat split; try congruence. auto. Qed.

Lemma RO_trans c s1 s2 s3 o p q : RO c s1 s2 o p -> RO c s2 s3 p q -> RO c s1 s3 o q.
Proof.
  destruct o, p; simpl; intros H1; try discriminate; try (inversion H1; fail);
    destruct q; simpl; intros H2; try discriminate; try (inversion H2; fail); try congruence.
  - eapply RP_trans; eassumption.
  - destruct H1 as [-> H1], H2 as [-> H2]. split; [reflexivity|]. eapply RP_trans; eassumption.
Qed.

Lemma Forall2_In_r {A B} (R : A -> B -> Prop) l l' y : Forall2 R l l' -> In y l' -> exists x, In x l /\ R x y.
Proof.
  induction 1; intros Hin; [contradiction|]. destruct Hin as [<-|Hin]; [exists x; split; [left; reflexivity|assumption]|].
  destruct (IHForall2 Hin) as (x0 & H1 & H2). exists x0. split; [right; assumption|assumption].
Qed.

Lemma RelX_trans c X s1 s2 s3 : RelX c X s1 s2 -> RelX c X s2 s3 -> RelX c X s1 s3.
Proof.
  intros A B. constructor.
  - intros n p HX H. destruct (r_scal _ _ _ _ A n p HX H) as (p' & H' & R1).
    destruct (r_scal _ _ _ _ B n p' HX H') as (p'' & H'' & R2). exists p''. split; [exact H''|]. eapply RP_trans; eassumption.
  - intros n z HX H. apply (r_num _ _ _ _ B), (r_num _ _ _ _ A), H; assumption.
  - intros n HX H. destruct (r_new _ _ _ _ A n HX H) as [H1|(v & H1 & Hz)].
    + apply (r_new _ _ _ _ B n HX H1).
    + right. destruct v as [p|z]; simpl in Hz.
      * destruct (r_scal _ _ _ _ B n _ HX H1) as (p' & H' & (Hf & _)). exists (SStr p'). split; [exact H'|]. simpl. congruence.
      * subst z. exists (SNum 0). split; [apply (r_num _ _ _ _ B n 0 HX H1)|reflexivity].
  - intros n d els H. destruct (r_arrs _ _ _ _ A n d els H) as (e' & H' & R1).
    destruct (r_arrs _ _ _ _ B n d e' H') as (e'' & H'' & R2). exists e''. split; [exact H''|].
    eapply Forall2_trans_gen; [|exact R1|exact R2]. intros; eapply RP_trans; eassumption.
  - intros n H. destruct (r_newarr _ _ _ _ A n H) as [H1|(d & els & H1 & Hz)].
    + apply (r_newarr _ _ _ _ B n H1).
    + right. destruct (r_arrs _ _ _ _ B n d els H1) as (els' & H' & R2). exists d, els'. split; [exact H'|].
      intros p Hp. destruct (Forall2_In_r _ _ _ _ R2 Hp) as (q & Hq & (Hf & _)). rewrite Hf. apply Hz, Hq.
  - eapply Forall2_trans_gen; [|exact (r_stack _ _ _ _ A)|exact (r_stack _ _ _ _ B)].
    intros x y z H1 H2. eapply Forall2_trans_gen; [|exact H1|exact H2]. intros; eapply RO_trans; eassumption.
  - eapply Forall2_trans_gen; [|exact (r_tvals _ _ _ _ A)|exact (r_tvals _ _ _ _ B)]. intros; eapply RO_trans; eassumption.
  - destruct (r_misc _ _ _ _ A) as (a1 & a2 & a3), (r_misc _ _ _ _ B) as (b1 & b2 & b3). repeat split; congruence.
Qed.

Lemma Rel_trans c s1 s2 s3 : Rel c s1 s2 -> Rel c s2 s3 -> Rel c s1 s3.
Proof. apply RelX_trans. Qed.

Lemma RelX_weaken c (X Y : Z -> Prop) st st' : (forall n, X n -> Y n) -> RelX c X st st' -> RelX c Y st st'.
Proof.
  intros H A. constructor.
  - intros n p HY. apply (r_scal _ _ _ _ A). auto.
  - intros n z HY. apply (r_num _ _ _ _ A). auto.
  - intros n HY. apply (r_new _ _ _ _ A). auto.
  - exact (r_arrs _ _ _ _ A).
  - exact (r_newarr _ _ _ _ A).
  - exact (r_stack _ _ _ _ A).
  - exact (r_tvals _ _ _ _ A).
  - exact (r_misc _ _ _ _ A).
Qed.

Lemma deref_ext c st st' p :
  ptr_ok c st p -> (forall a bs, lookup a (strs st) = Some bs -> lookup a (strs st') = Some bs) ->
  deref c st' p = deref c st p.
Proof.
  destruct p as [l a]. unfold ptr_ok, deref. simpl. intros Hok Hext.
  destruct (l =? 0) eqn:El; [reflexivity|]. destruct (var_start c <=? a) eqn:Ea; [|reflexivity].
  apply Z.leb_le in Ea. apply Z.eqb_neq in El. destruct (proj1 Hok Ea) as [H|(bs & Hl & _)]; [contradiction|].
  rewrite Hl, (Hext _ _ Hl). reflexivity.
Qed.

Lemma ptr_ok_ext c st st' p :
  ptr_ok c st p -> (forall a bs, lookup a (strs st) = Some bs -> lookup a (strs st') = Some bs) -> ptr_ok c st' p.
Proof.
  unfold ptr_ok. intros [Hok Hf] Hext. split; [|exact Hf]. intros Hv. destruct (Hok Hv) as [H|(bs & Hl & Hz)]; [left; exact H|right; eauto].
Qed.

(* ---------- the collector on Good states ---------- *)
Theorem collect_good c st : Good c st ->
  exists st', collect c st = Ok st' /\ Good c st' /\ Jt st' /\ Rel c st st' /\ shape st' = shape st /\
              cur st <= cur st' /\ top st' = top st.
Proof.
  intros G. pose proof (Good_Inv _ _ G) as HI.
  destruct (collect_spec c st HI) as (es & st' & m & Hg & Hc & HI' & Hsh & Hr & Hmono & Hlow & Hhigh & Hcur & Hle & Htop & HJt & HJp).
  assert (G' : Good c st') by (eapply Inv_Good; eassumption).
  exists st'. split; [exact Hc|]. split; [exact G'|]. split; [exact HJt|]. split; [|auto].
  (* relation on root locations *)
  assert (HRP : forall l, In l (roots st) -> RP c st st' (get_loc st l) (get_loc st' l)).
  { intros l Hl. unfold RP. split; [|split; [|apply HJp, Hl]].
    - destruct (Z.lt_ge_cases (snd (get_loc st l)) (var_start c)) as [Hc'|Hc'].
      + rewrite (Hlow l Hl Hc'). reflexivity.
      + apply (Hhigh l Hl Hc').
    - destruct (Z.lt_ge_cases (snd (get_loc st l)) (var_start c)) as [Hc'|Hc'].
      + rewrite (Hlow l Hl Hc'). destruct (get_loc st l) as [len a]. simpl in Hc'. unfold deref.
        destruct (len =? 0); [reflexivity|]. assert (E : (var_start c <=? a) = false) by (apply Z.leb_gt; lia).
        rewrite E. reflexivity.
      + destruct (Hhigh l Hl Hc') as [Hf Hb].
        destruct (get_loc st l) as [len a] eqn:E0. destruct (get_loc st' l) as [len' a'] eqn:E1. simpl in *.
        subst len'. unfold deref. destruct (len =? 0) eqn:El; [reflexivity|]. apply Z.eqb_neq in El.
        assert (Hp : 0 < len).
        { pose proof (inv_roots _ _ HI l Hl) as Hok. rewrite E0 in Hok. destruct (proj1 Hok Hc') as [H0|(bs & Hl0 & Hz0)]; [simpl in H0; contradiction|].
          apply (chain_lookup _ _ _ _ _ (inv_chain _ _ HI)) in Hl0. simpl in *. lia. }
        destruct (Hb Hp) as (bs & Hl0 & _ & Hl1).
        destruct (Inv_bound_ge _ _ _ _ HI' Hl1) as [Hv' _].
        assert (E2 : (var_start c <=? a') = true) by (apply Z.leb_le; exact Hv').
        assert (E3 : (var_start c <=? a) = true) by (apply Z.leb_le; exact Hc').
        rewrite E2, E3, Hl0, Hl1. reflexivity. }
  unfold shape in Hsh. injection Hsh as Hscal Harrs Hstack Htv Hfns Hact Htot Hstk Hscur Hacur.
  assert (HRO : forall own k o o', okind o' = okind o -> (forall l, In l (obj_root own k o) -> In l (roots st)) ->
                  (is_own o = true -> get_loc st (own k) = obj_own_ptr o /\ get_loc st' (own k) = obj_own_ptr o') ->
                  RO c st st' o o').
  { intros own k o o' Hk Hin Hown. destruct o, o'; simpl in Hk; try discriminate; simpl; try congruence.
    - destruct (Hown eq_refl) as [H1 H2]. simpl in H1, H2. rewrite <- H1, <- H2. apply HRP, Hin. left; reflexivity.
    - inversion Hk; subst. split; [reflexivity|].
      destruct (Hown eq_refl) as [H1 H2]. simpl in H1, H2. rewrite <- H1, <- H2. apply HRP, Hin. left; reflexivity. }
  assert (Hmapnth : forall (A B : Type) (f : A -> B) (l l' : list A) k a b,
             map f l' = map f l -> nth_error l k = Some a -> nth_error l' k = Some b -> f b = f a).
  { intros A B f l l' k a b Hm Ha Hb.
    assert (H1 : nth_error (map f l) k = Some (f a)) by (rewrite nth_error_map, Ha; reflexivity).
    assert (H2 : nth_error (map f l') k = Some (f b)) by (rewrite nth_error_map, Hb; reflexivity).
    rewrite Hm in H2. congruence. }
  assert (Hmaplen : forall (A B : Type) (f : A -> B) (l l' : list A), map f l' = map f l -> length l = length l').
  { intros A B f l l' Hm. rewrite <- (map_length f l), <- (map_length f l'), Hm. reflexivity. }
  constructor.
  - intros n p _ Hlk.
    assert (Hk : lookup n (map (fun '(n, v) => (n, skind v)) (scal st')) = Some (SStr (0, 0))).
    { rewrite Hscal, lookup_map_val, Hlk. reflexivity. }
    rewrite lookup_map_val in Hk. destruct (lookup n (scal st')) as [[p'|z]|] eqn:E'; try discriminate.
    exists p'. split; [reflexivity|].
    destruct (is_strname n) eqn:Es.
    + assert (Hin : In (LScal n) (roots st)).
      { unfold roots. apply in_or_app. left. apply in_scalar_roots. exists n, (SStr p). split; [reflexivity|]. split; [apply lookup_In, Hlk|exact Es]. }
      specialize (HRP _ Hin). simpl in HRP. unfold scal_ptr in HRP. rewrite Hlk, E' in HRP. exact HRP.
    + destruct (g_scal_num _ _ G n _ Hlk Es) as (z & Hz). discriminate.
  - intros n z _ Hlk.
    assert (Hk : lookup n (map (fun '(n, v) => (n, skind v)) (scal st')) = Some (SNum z)).
    { rewrite Hscal, lookup_map_val, Hlk. reflexivity. }
    rewrite lookup_map_val in Hk. destruct (lookup n (scal st')) as [[p'|z']|] eqn:E'; simpl in Hk; try discriminate. exact Hk.
  - intros n _ Hlk. left.
    assert (Hk : lookup n (map (fun '(n, v) => (n, skind v)) (scal st')) = None).
    { rewrite Hscal, lookup_map_val, Hlk. reflexivity. }
    rewrite lookup_map_val in Hk. destruct (lookup n (scal st')); [discriminate|reflexivity].
  - intros n d els Hlk.
    assert (Hk : lookup n (map (fun '(n, (d, els)) => (n, (d, length els))) (arrs st')) = Some (d, length els)).
    { rewrite Harrs. clear - Hlk. induction (arrs st) as [|[k [d' els']] l IH]; simpl in *; [discriminate|].
      destruct (n =? k); [inversion Hlk; reflexivity|auto]. }
    assert (exists els', lookup n (arrs st') = Some (d, els') /\ length els' = length els) as (els' & Hlk' & Hlen).
    { clear - Hk. induction (arrs st') as [|[k [d' els']] l IH]; simpl in *; [discriminate|].
      destruct (n =? k); [inversion Hk; subst; eauto|auto]. }
    exists els'. split; [exact Hlk'|]. apply Forall2_nth_error; [lia|].
    intros i a b Ha Hb. destruct (g_arrs _ _ G n d els Hlk) as [Hs _].
    assert (Hi : (i < length els)%nat) by (apply nth_error_Some; congruence).
    assert (Hin : In (LArr n i) (roots st)).
    { unfold roots. apply in_or_app. right. apply in_or_app. left. apply in_array_roots.
      exists n, d, els, i. split; [reflexivity|]. split; [apply lookup_In, Hlk|]. split; assumption. }
    assert (E1 : get_loc st (LArr n i) = a) by (simpl; unfold arr_ptr; rewrite Hlk; apply nth_error_nth', Ha).
    assert (E2 : get_loc st' (LArr n i) = b) by (simpl; unfold arr_ptr; rewrite Hlk'; apply nth_error_nth', Hb).
    specialize (HRP _ Hin). rewrite E1, E2 in HRP. exact HRP.
  - intros n Hlk. left.
    assert (Hk : lookup n (map (fun '(n, (d, els)) => (n, (d, length els))) (arrs st')) = None).
    { rewrite Harrs. clear - Hlk. induction (arrs st) as [|[k [d' els']] l IH]; simpl in *; [reflexivity|].
      destruct (n =? k); [discriminate|auto]. }
    clear - Hk. induction (arrs st') as [|[k [d' els']] l IH]; simpl in *; [reflexivity|].
    destruct (n =? k); [discriminate|auto].
  - apply Forall2_nth_error; [eapply Hmaplen; exact Hstack|].
    intros f fr fr' Hf Hf'.
    assert (Hfr : map okind fr' = map okind fr) by (eapply (Hmapnth _ _ (map okind)); eassumption).
    apply Forall2_nth_error; [eapply Hmaplen; exact Hfr|].
    intros k o o' Hk Hk'. apply (HRO (LStk f) k).
    + eapply (Hmapnth _ _ okind); eassumption.
    + intros l Hl. unfold roots. apply in_or_app. right. apply in_or_app. right. apply in_or_app. left.
      apply in_stack_roots. exists f, fr, k, o. auto.
    + intros _. simpl. rewrite (nth_error_nth_nil _ _ _ Hf), (nth_error_nth_nil _ _ _ Hf').
      rewrite (nth_error_nth' _ _ (ONum 0 0) _ Hk), (nth_error_nth' _ _ (ONum 0 0) _ Hk'). auto.
  - apply Forall2_nth_error; [eapply Hmaplen; exact Htv|].
    intros k o o' Hk Hk'. apply (HRO LTmp k).
    + eapply (Hmapnth _ _ okind); eassumption.
    + intros l Hl. unfold roots. apply in_or_app. right. apply in_or_app. right. apply in_or_app. right.
      apply in_temp_roots. exists k, o. auto.
    + intros _. simpl. rewrite (nth_error_nth' _ _ (ONum 0 0) _ Hk), (nth_error_nth' _ _ (ONum 0 0) _ Hk'). auto.
  - auto.
Qed.
