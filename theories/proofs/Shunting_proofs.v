(* C18: proofs about the shunting-yard model (model/Shunting.v).
   Main result: for every expression tree e, of any depth, the parser run on the printed tree (minimal
   parentheses, plus any explicit redundant ones) evaluates exactly like the tree, including which error is
   raised first; for every value domain, every operator semantics and every table satisfying tables_ok. *)
From Coq Require Import ZArith List Bool Lia.
From PCB Require Import lib.Result lib.PyInt gen.Gen_prec model.Shunting.
Import ListNotations.
Open Scope Z_scope.

Lemma bind_assoc {A B C} (r : res A) (f : A -> res B) (g : B -> res C) :
  bind (bind r f) g = bind r (fun a => bind (f a) g).
Proof. destruct r; reflexivity. Qed.

Lemma bind_ext {A B} (r : res A) (f g : A -> res B) :
  (forall a, f a = g a) -> bind r f = bind r g.
Proof. intros H; destruct r; simpl; auto. Qed.

Lemma uop_of_uid o : uop_of_id (uid o) = Some o.
Proof. destruct o; reflexivity. Qed.
Lemma bop_of_bid o : bop_of_id (bid o) = Some o.
Proof. destruct o; reflexivity. Qed.
Lemma bprec_pos o : 0 < bprec o.
Proof. destruct o; reflexivity. Qed.
Lemma uprec_pos o : 0 < uprec o.
Proof. destruct o; reflexivity. Qed.

Section Proofs.
Variable V : Type.
Variable unop : uop -> V -> res V.
Variable binop : bop -> V -> V -> res V.
Variable T : tables.
Variable utok : uop -> Z.
Variable bspell : bop -> bool -> spelling.
Variable alt : bop -> bool.

Hypothesis TOK : tables_ok T utok bspell.
(* Python's `except IndexError` around the final drain would also catch an IndexError escaping from an
   operator callback; the operator functions are assumed not to raise IndexError themselves *)
Hypothesis unop_noidx : forall o a, unop o a <> Host host_IndexError.
Hypothesis binop_noidx : forall o a b, binop o a b <> Host host_IndexError.

Notation token := (token V).
Notation frame := (frame V).
Notation expr := (expr V).
Notation run := (run V unop binop T).
Notation drain := (drain V unop binop).
Notation finish := (finish V unop binop T).
Notation close_with := (close_with V unop binop T).
Notation op_step := (op_step V unop binop T).
Notation eval := (eval V unop binop).
Notation pr := (pr V utok bspell alt).
Notation btoks := (btoks V bspell alt).
Notation paren := (paren V).
Notation need_operand := (need_operand V).
Notation redge_ge := (redge_ge V).
Notation need_left := (need_left V).
Notation sy_parse := (sy_parse V unop binop T).
Notation sy_eval := (sy_eval V unop binop T).
Notation R := (R V).

(* ---- drain *)
Lemma drain_nil q us : drain q us [] = Ok (us, []).
Proof. reflexivity. Qed.

Lemma drain_stop q us f p ops : p < q -> drain q us ((f, p) :: ops) = Ok (us, (f, p) :: ops).
Proof. intros H. simpl. destruct (q >? p) eqn:E; [reflexivity | lia]. Qed.

Lemma drain_un q us o p a ops : q <= p ->
  drain q (a :: us) ((OUn o, p) :: ops) = do r <- unop o a; drain q (r :: us) ops.
Proof.
  intros H. cbn [Shunting.drain]. destruct (q >? p) eqn:E; [lia|].
  cbn [apply_op]. rewrite bind_assoc. reflexivity.
Qed.

Lemma drain_bin q us o p a b ops : q <= p ->
  drain q (b :: a :: us) ((OBin o, p) :: ops) = do r <- binop o a b; drain q (r :: us) ops.
Proof.
  intros H. cbn [Shunting.drain]. destruct (q >? p) eqn:E; [lia|].
  cbn [apply_op]. rewrite bind_assoc. reflexivity.
Qed.

(* ---- finish *)
Lemma finish_one final v : finish final [v] [] = Ok v.
Proof. reflexivity. Qed.

Lemma finish_un final us o p a ops : 0 <= p ->
  finish final (a :: us) ((OUn o, p) :: ops) = do r <- unop o a; finish final (r :: us) ops.
Proof.
  intros H. unfold Shunting.finish. rewrite drain_un by assumption. rewrite bind_assoc.
  destruct (unop o a) as [r|e|x|] eqn:E; try reflexivity.
  cbn [bind]. destruct (x =? host_IndexError) eqn:X; [|reflexivity].
  apply Z.eqb_eq in X. subst x. exfalso. exact (unop_noidx o a E).
Qed.

Lemma finish_bin final us o p a b ops : 0 <= p ->
  finish final (b :: a :: us) ((OBin o, p) :: ops) = do r <- binop o a b; finish final (r :: us) ops.
Proof.
  intros H. unfold Shunting.finish. rewrite drain_bin by assumption. rewrite bind_assoc.
  destruct (binop o a b) as [r|e|x|] eqn:E; try reflexivity.
  cbn [bind]. destruct (x =? host_IndexError) eqn:X; [|reflexivity].
  apply Z.eqb_eq in X. subst x. exfalso. exact (binop_noidx o a b E).
Qed.

(* ---- the loop, token by token *)
Lemma run_unit r rest fs us ops :
  run (TUnit r :: rest) fs us ops true = do v <- r; run rest fs (v :: us) ops false.
Proof. reflexivity. Qed.

Lemma run_lparen rest fs us ops :
  run (TLParen :: rest) fs us ops true = run rest ({| f_units := us; f_ops := ops |} :: fs) [] [] true.
Proof. reflexivity. Qed.

(* tokens that end an expression when an operator is expected *)
Definition is_ender (t : token) : bool :=
  match t with
  | TOp k => negb (memZ k (t_operators T)) || (k =? t_not T)
  | _ => true
  end.
Definition ender (rest : list token) : Prop :=
  match rest with [] => True | t :: _ => is_ender t = true end.
Definition is_rparen (rest : list token) : bool :=
  match rest with TRParen :: _ => true | _ => false end.
Definition resume_of (rest : list token) : frame -> list frame -> V -> R :=
  match rest with
  | TRParen :: rest' => fun fr fs' v => run rest' fs' (v :: f_units fr) (f_ops fr) false
  | _ => fun _ _ _ => Err (t_stx T)
  end.

Lemma run_ender rest fs us ops : ender rest ->
  run rest fs us ops false = close_with true (is_rparen rest) rest fs us ops (resume_of rest).
Proof.
  destruct rest as [|t rest]; intros H; [reflexivity|].
  destruct t; try reflexivity.
  cbn [ender is_ender] in H. cbn [Shunting.run].
  destruct (memZ k (t_operators T)) eqn:M.
  - cbn [negb orb] in H. rewrite H. reflexivity.
  - reflexivity.
Qed.

(* a unary operator where an operand is expected *)
Lemma op_step_unary o us ops k :
  op_step (utok o) true us ops k = k us ((OUn o, uprec o) :: ops) true.
Proof.
  destruct TOK as [TU _]. destruct (TU o) as (M & _ & LU & LP).
  unfold Shunting.op_step. cbn [orb]. rewrite LU, LP, uop_of_uid, M. reflexivity.
Qed.

Lemma run_utok o rest fs us ops :
  run (TOp (utok o) :: rest) fs us ops true = run rest fs us ((OUn o, uprec o) :: ops) true.
Proof.
  destruct TOK as [TU _]. destruct (TU o) as (M & C & _).
  cbn [Shunting.run]. rewrite M, C. cbn [negb andb]. rewrite andb_false_r.
  destruct rest as [|[] rest]; cbn [andb]; rewrite op_step_unary; reflexivity.
Qed.

(* the next token cannot be merged into a preceding relational token *)
Definition starts_operand (rest : list token) : Prop :=
  match rest with TOp n :: _ => memZ n (t_combinable T) = false | _ => True end.

Lemma op_step_binary o d us ops k :
  (d =? t_not T) = false -> memZ d (t_operators T) = true ->
  lookupZ d (t_binary T) = Some (bid o) -> lookup_prec d 2 (t_prec T) = Some (bprec o) ->
  op_step d false us ops k =
  do uo <- drain (bprec o) us ops; k (fst uo) ((OBin o, bprec o) :: snd uo) true.
Proof.
  intros N M LB LP. unfold Shunting.op_step. cbn [orb]. rewrite N, LB, LP, bop_of_bid, M. reflexivity.
Qed.

Lemma run_btoks o rest fs us ops : starts_operand rest ->
  run (btoks o ++ rest) fs us ops false =
  do uo <- drain (bprec o) us ops; run rest fs (fst uo) ((OBin o, bprec o) :: snd uo) true.
Proof.
  intros S. destruct TOK as [_ TB]. specialize (TB o (alt o)).
  unfold Shunting.btoks. destruct (bspell o (alt o)) as [k|k1 k2]; cbn [spelling_ok] in TB.
  - destruct TB as (M & N & LB & LP).
    cbn [spelling_toks map app Shunting.run]. rewrite M, N. cbn [andb negb].
    destruct rest as [|[] rest]; try (apply op_step_binary; assumption).
    cbn [starts_operand] in S. rewrite S, andb_false_r. apply op_step_binary; assumption.
  - destruct TB as (M1 & N1 & C1 & C2 & M & N & LB & LP).
    cbn [spelling_toks map app Shunting.run]. rewrite M1, N1, C1, C2. cbn [andb negb].
    apply op_step_binary; assumption.
Qed.

(* ---- closers: what may follow a complete operand, and with which drain precedence *)
Definition closes (q : Z) (rest : list token) : Prop :=
  (forall fs us ops o p a, q <= p ->
     run rest fs (a :: us) ((OUn o, p) :: ops) false = do r <- unop o a; run rest fs (r :: us) ops false)
  /\
  (forall fs us ops o p a b, q <= p ->
     run rest fs (b :: a :: us) ((OBin o, p) :: ops) false
     = do r <- binop o a b; run rest fs (r :: us) ops false).

Lemma closes_ender rest : ender rest -> closes 0 rest.
Proof.
  intros E. split; intros.
  - rewrite run_ender by assumption. unfold Shunting.close_with.
    rewrite finish_un by assumption. rewrite bind_assoc. apply bind_ext. intros r.
    rewrite run_ender by assumption. reflexivity.
  - rewrite run_ender by assumption. unfold Shunting.close_with.
    rewrite finish_bin by assumption. rewrite bind_assoc. apply bind_ext. intros r.
    rewrite run_ender by assumption. reflexivity.
Qed.

Lemma closes_binop o rest : starts_operand rest -> closes (bprec o) (btoks o ++ rest).
Proof.
  intros S. split; intros.
  - rewrite run_btoks by assumption. rewrite drain_un by assumption. rewrite bind_assoc.
    apply bind_ext. intros r. rewrite run_btoks by assumption. reflexivity.
  - rewrite run_btoks by assumption. rewrite drain_bin by assumption. rewrite bind_assoc.
    apply bind_ext. intros r. rewrite run_btoks by assumption. reflexivity.
Qed.

(* ---- the printer *)
Lemma paren_app b ts rest :
  paren b ts ++ rest = if b then TLParen :: ts ++ TRParen :: rest else ts ++ rest.
Proof. destruct b; [|reflexivity]. unfold Shunting.paren. cbn [app]. rewrite <- app_assoc. reflexivity. Qed.

Lemma pr_starts_operand e b rest : starts_operand (paren b (pr e) ++ rest).
Proof.
  rewrite paren_app. destruct b; [exact I|]. revert rest.
  induction e as [r| e1 IH | o e1 IH | o l IHl r IHr]; intros rest.
  - exact I.
  - exact I.
  - cbn [Shunting.pr app starts_operand]. destruct TOK as [TU _]. destruct (TU o) as (_ & C & _). exact C.
  - cbn [Shunting.pr]. rewrite <- app_assoc. rewrite paren_app.
    destruct (need_left (bprec o) l); [exact I | apply IHl].
Qed.

Lemma redge_ge_0 e : redge_ge 0 e = true.
Proof.
  induction e as [r| e1 IH | o e1 IH | o l IHl r IHr]; cbn [Shunting.redge_ge]; try reflexivity.
  - rewrite IH, orb_true_r, andb_true_r. pose proof (uprec_pos o). apply Z.leb_le. lia.
  - rewrite IHr, orb_true_r, andb_true_r. pose proof (bprec_pos o). apply Z.leb_le. lia.
Qed.

(* the operator on top of the stack binds looser than the root of e (or the stack is empty) *)
Definition ctx_ok (ops : list entry) (e : expr) : Prop :=
  match e with
  | Bin o _ _ => match ops with (_, p) :: _ => p < bprec o | [] => True end
  | _ => True
  end.

Definition run_pr_stmt (e : expr) : Prop :=
  forall q rest fs us ops,
    closes q rest -> redge_ge q e = true -> ctx_ok ops e ->
    run (pr e ++ rest) fs us ops true = do v <- eval e; run rest fs (v :: us) ops false.

Lemma run_paren e : run_pr_stmt e ->
  forall b q rest fs us ops,
    (b = true \/ (closes q rest /\ redge_ge q e = true /\ ctx_ok ops e)) ->
    run (paren b (pr e) ++ rest) fs us ops true = do v <- eval e; run rest fs (v :: us) ops false.
Proof.
  intros IH b q rest fs us ops H. rewrite paren_app. destruct b.
  - rewrite run_lparen.
    rewrite (IH 0 (TRParen :: rest)); [| apply closes_ender; reflexivity | apply redge_ge_0 | ].
    + apply bind_ext. intros v. rewrite run_ender by reflexivity.
      unfold Shunting.close_with. rewrite finish_one. reflexivity.
    + destruct e; exact I.
  - destruct H as [H | (H1 & H2 & H3)]; [discriminate|]. apply (IH q); assumption.
Qed.

Lemma drain_ctx o l r us ops : ctx_ok ops (Bin o l r) -> drain (bprec o) us ops = Ok (us, ops).
Proof.
  destruct ops as [|[f p] ops]; cbn [ctx_ok]; intros H; [reflexivity | apply drain_stop; exact H].
Qed.

Theorem run_pr e : run_pr_stmt e.
Proof.
  induction e as [r| e1 IH | o e1 IH | o l IHl r IHr]; intros q rest fs us ops CL RE CX.
  - cbn [Shunting.pr app Shunting.eval]. apply run_unit.
  - cbn [Shunting.pr Shunting.eval]. apply (run_paren e1 IH true q). left; reflexivity.
  - cbn [Shunting.pr Shunting.eval app]. rewrite run_utok.
    cbn [Shunting.redge_ge] in RE. apply andb_true_iff in RE as [RE1 RE2]. apply Z.leb_le in RE1.
    rewrite (run_paren e1 IH (need_operand (uprec o) e1) q).
    + rewrite bind_assoc. apply bind_ext. intros a. apply (proj1 CL). exact RE1.
    + destruct (need_operand (uprec o) e1) eqn:NO; [left; reflexivity | right].
      cbn [orb] in RE2. split; [exact CL | split; [exact RE2|]].
      destruct e1; try exact I. cbn [ctx_ok]. cbn [Shunting.need_operand] in NO.
      apply Z.leb_gt in NO. exact NO.
  - cbn [Shunting.pr Shunting.eval]. rewrite <- !app_assoc.
    cbn [Shunting.redge_ge] in RE. apply andb_true_iff in RE as [RE1 RE2]. apply Z.leb_le in RE1.
    rewrite (run_paren l IHl (need_left (bprec o) l) (bprec o)).
    + rewrite bind_assoc. apply bind_ext. intros a.
      rewrite run_btoks by apply pr_starts_operand.
      rewrite (drain_ctx o l r) by exact CX. cbn [bind fst snd].
      rewrite (run_paren r IHr (need_operand (bprec o) r) q).
      * rewrite bind_assoc. apply bind_ext. intros b. apply (proj2 CL). exact RE1.
      * destruct (need_operand (bprec o) r) eqn:NO; [left; reflexivity | right].
        cbn [orb] in RE2. split; [exact CL | split; [exact RE2|]].
        destruct r; try exact I. cbn [ctx_ok]. cbn [Shunting.need_operand] in NO.
        apply Z.leb_gt in NO. exact NO.
    + destruct (need_left (bprec o) l) eqn:NL; [left; reflexivity | right].
      unfold Shunting.need_left in NL. apply negb_false_iff in NL.
      split; [apply closes_binop, pr_starts_operand | split; [exact NL|]].
      destruct l as [| | |o1 l1 r1]; try exact I.
      cbn [Shunting.redge_ge] in NL. apply andb_true_iff in NL as [NL1 _]. apply Z.leb_le in NL1.
      cbn [ctx_ok] in *. destruct ops as [|[f p] ops]; [exact I | lia].
Qed.

(* ---- top level *)
Theorem parse_pr e rest : ender rest ->
  sy_parse (pr e ++ rest) = do v <- eval e; Ok (v, rest).
Proof.
  intros E. unfold Shunting.sy_parse.
  rewrite (run_pr e 0 rest); [| apply closes_ender; exact E | apply redge_ge_0 | destruct e; exact I].
  apply bind_ext. intros v. rewrite run_ender by exact E.
  unfold Shunting.close_with. rewrite finish_one. reflexivity.
Qed.

Theorem eval_pr e : sy_eval (pr e) = eval e.
Proof.
  unfold Shunting.sy_eval. rewrite <- (app_nil_r (pr e)). rewrite parse_pr by exact I.
  unfold rmap. rewrite bind_assoc. destruct (eval e); reflexivity.
Qed.

Lemma eval_par_all e : eval (par_all V e) = eval e.
Proof.
  induction e as [r| e1 IH | o e1 IH | o l IHl r IHr]; simpl; rewrite ?IH, ?IHl, ?IHr; reflexivity.
Qed.

Lemma eval_strip e : eval (strip V e) = eval e.
Proof.
  induction e as [r| e1 IH | o e1 IH | o l IHl r IHr]; simpl; rewrite ?IH, ?IHl, ?IHr; reflexivity.
Qed.

Theorem eval_pr_full e : sy_eval (pr_full V utok bspell alt e) = eval e.
Proof. unfold pr_full. rewrite eval_pr. apply eval_par_all. Qed.

(* ---- corollaries on concrete shapes *)
(* a o1 b o2 c  groups to the left when o2 does not bind tighter than o1 (in particular at equal precedence) *)
Theorem left_assoc a o1 b o2 c : bprec o2 <= bprec o1 ->
  sy_eval (TUnit a :: btoks o1 ++ TUnit b :: btoks o2 ++ [TUnit c])
  = eval (Bin o2 (Bin o1 (Leaf a) (Leaf b)) (Leaf c)).
Proof.
  intros H. rewrite <- eval_pr. f_equal.
  cbn [Shunting.pr]. unfold Shunting.need_left. cbn [Shunting.redge_ge Shunting.need_operand orb].
  replace (bprec o2 <=? bprec o1) with true by (symmetry; apply Z.leb_le; exact H).
  cbn [andb negb Shunting.paren app]. rewrite <- app_assoc. reflexivity.
Qed.

(* ... and to the right when o2 binds tighter *)
Theorem tighter_right a o1 b o2 c : bprec o1 < bprec o2 ->
  sy_eval (TUnit a :: btoks o1 ++ TUnit b :: btoks o2 ++ [TUnit c])
  = eval (Bin o1 (Leaf a) (Bin o2 (Leaf b) (Leaf c))).
Proof.
  intros H. rewrite <- eval_pr. f_equal.
  cbn [Shunting.pr]. unfold Shunting.need_left. cbn [Shunting.redge_ge Shunting.need_operand orb].
  replace (bprec o2 <=? bprec o1) with false by (symmetry; apply Z.leb_gt; exact H).
  cbn [andb negb Shunting.paren app]. reflexivity.
Qed.

(* a unary operator directly after a binary one is accepted whatever the two precedences are, and takes as
   its operand everything the printer puts there: 2 ^ - 3 ,  a * NOT b + c = a * (NOT (b + c)) *)
Theorem unary_after_binary a o u x : need_operand (uprec u) x = false ->
  sy_eval (TUnit a :: btoks o ++ TOp (utok u) :: pr x) = eval (Bin o (Leaf a) (Un u x)).
Proof.
  intros H. rewrite <- eval_pr. f_equal.
  cbn [Shunting.pr]. unfold Shunting.need_left. cbn [Shunting.redge_ge Shunting.need_operand]. rewrite H.
  cbn [negb Shunting.paren app]. reflexivity.
Qed.

(* ---- ill-formed expressions: the IndexError handler *)
Lemma finish_missing final v o p : 0 <= p ->
  finish final [v] [(OBin o, p)] = Err (if final then t_missing T else t_stx T).
Proof.
  intros H. unfold Shunting.finish. cbn [Shunting.drain]. destruct (0 >? p) eqn:E; [lia|]. reflexivity.
Qed.

Lemma finish_empty final : finish final [] [] = Err (if final then t_missing T else t_stx T).
Proof. reflexivity. Qed.

(* e o <rest> : the complete operand e, a binary operator, and then no operand *)
Lemma run_trailing_op e o rest fs us ops :
  redge_ge (bprec o) e = true -> ctx_ok ops e -> starts_operand rest ->
  run (pr e ++ btoks o ++ rest) fs us ops true =
  do v <- eval e; do uo <- drain (bprec o) (v :: us) ops;
  run rest fs (fst uo) ((OBin o, bprec o) :: snd uo) true.
Proof.
  intros RE CX S. rewrite (run_pr e (bprec o)); [| apply closes_binop; exact S | exact RE | exact CX].
  apply bind_ext. intros v. apply run_btoks. exact S.
Qed.

(* tokens after which the loop stops when an operand is still expected, and the `final` flag then *)
Definition stops_final (rest : list token) : option bool :=
  match rest with
  | [] | TEndStmt :: _ => Some true
  | TEndExpr :: _ | TRParen :: _ => Some false
  | _ => None
  end.

Theorem parse_trailing_op e o rest final :
  redge_ge (bprec o) e = true -> stops_final rest = Some final ->
  sy_parse (pr e ++ btoks o ++ rest) =
  do _ <- eval e; Err (if final then t_missing T else t_stx T).
Proof.
  intros RE SF. unfold Shunting.sy_parse.
  rewrite run_trailing_op;
    [| exact RE | destruct e; exact I | destruct rest as [|[] ?]; try exact I; discriminate].
  apply bind_ext. intros v. cbn [Shunting.drain bind fst snd].
  pose proof (bprec_pos o) as P.
  destruct rest as [|[] rest]; try discriminate; injection SF as <-;
    cbn [Shunting.run negb]; unfold Shunting.close_with; rewrite finish_missing by lia; reflexivity.
Qed.

(* ( e o )  : the same inside parentheses is a Syntax error *)
Theorem parse_trailing_op_paren e o rest :
  redge_ge (bprec o) e = true ->
  sy_parse (TLParen :: pr e ++ btoks o ++ TRParen :: rest) = do _ <- eval e; Err (t_stx T).
Proof.
  intros RE. unfold Shunting.sy_parse. rewrite run_lparen.
  rewrite run_trailing_op; [| exact RE | destruct e; exact I | exact I].
  apply bind_ext. intros v. cbn [Shunting.drain bind fst snd].
  pose proof (bprec_pos o) as P.
  cbn [Shunting.run negb]. unfold Shunting.close_with. rewrite finish_missing by lia. reflexivity.
Qed.

(* ( e   without the closing parenthesis *)
Theorem parse_unclosed e rest : ender rest -> is_rparen rest = false ->
  sy_parse (TLParen :: pr e ++ rest) = do _ <- eval e; Err (t_stx T).
Proof.
  intros E NR. unfold Shunting.sy_parse. rewrite run_lparen.
  rewrite (run_pr e 0 rest); [| apply closes_ender; exact E | apply redge_ge_0 | destruct e; exact I].
  apply bind_ext. intros v. rewrite run_ender by exact E. unfold Shunting.close_with.
  rewrite finish_one, NR. reflexivity.
Qed.

Theorem parse_empty rest final : stops_final rest = Some final ->
  sy_parse rest = Err (if final then t_missing T else t_stx T).
Proof.
  intros SF. destruct rest as [|[] rest]; try discriminate; injection SF as <-; reflexivity.
Qed.

Theorem parse_empty_parens rest : sy_parse (TLParen :: TRParen :: rest) = Err (t_stx T).
Proof. reflexivity. Qed.

End Proofs.

(* ------------------------------------------------------------------------------------------------ *)
(* For EVERY token stream: the IndexError of an empty units stack never escapes from parse().  The only
   drain that is not inside the try/except - the one done when a binary operator is read - always finds
   enough units; every other underflow is turned into Missing operand / Syntax error by the handler. *)
Section NoIndexError.
Variable V : Type.
Variable unop : uop -> V -> res V.
Variable binop : bop -> V -> V -> res V.
Variable T : tables.
Hypothesis unop_noidx : forall o a, unop o a <> Host host_IndexError.
Hypothesis binop_noidx : forall o a b, binop o a b <> Host host_IndexError.
(* OPERATORS holds every token that is a key of PRECEDENCE (it is defined from it in operators.py) *)
Definition ops_closed : bool :=
  forallb (fun kv => memZ (fst (fst kv)) (t_operators T)) (t_prec T).
Hypothesis OPS_CLOSED : ops_closed = true.

Notation token := (token V).
Notation frame := (frame V).
Notation run := (run V unop binop T).
Notation drain := (drain V unop binop).
Notation finish := (finish V unop binop T).
Notation close_with := (close_with V unop binop T).
Notation op_step := (op_step V unop binop T).

Fixpoint nbin (ops : list entry) : nat :=
  match ops with
  | [] => O
  | (OBin _, _) :: r => S (nbin r)
  | (OUn _, _) :: r => nbin r
  end.
Definition bal (us : list V) (ops : list entry) (opnd : bool) : Prop :=
  (nbin ops + (if opnd then 0 else 1) <= length us)%nat.
Definition frames_ok (fs : list frame) : Prop :=
  Forall (fun fr => (nbin (f_ops fr) <= length (f_units fr))%nat) fs.
Definition unit_ok (t : token) : Prop :=
  match t with TUnit (Host x) => x <> host_IndexError | _ => True end.
Definition not_idx {A} (r : res A) : Prop := r <> Host host_IndexError.

Lemma lookup_prec_mem d n p : lookup_prec d n (t_prec T) = Some p -> memZ d (t_operators T) = true.
Proof.
  unfold lookup_prec. destruct (find _ (t_prec T)) as [kv|] eqn:F; [|discriminate]. intros _.
  apply find_some in F as [IN E]. apply andb_true_iff in E as [E _]. apply Z.eqb_eq in E. subst d.
  unfold ops_closed in OPS_CLOSED. rewrite forallb_forall in OPS_CLOSED. exact (OPS_CLOSED _ IN).
Qed.

Lemma drain_ok q ops : forall us, (nbin ops + 1 <= length us)%nat ->
  match drain q us ops with
  | Ok uo => (nbin (snd uo) + 1 <= length (fst uo))%nat
  | Host x => x <> host_IndexError
  | _ => True
  end.
Proof.
  induction ops as [|[f p] ops IH]; intros us H; cbn [Shunting.drain].
  - exact H.
  - destruct (q >? p); [exact H|]. destruct f as [o|o].
    + destruct us as [|a us]; [simpl in H; lia|]. cbn [apply_op].
      destruct (unop o a) as [r| | x |] eqn:E; cbn [bind]; try exact I.
      * apply IH. simpl in *. lia.
      * intros ->. exact (unop_noidx o a E).
    + destruct us as [|b [|a us]]; try (simpl in H; lia). cbn [apply_op].
      destruct (binop o a b) as [r| | x |] eqn:E; cbn [bind]; try exact I.
      * apply IH. simpl in *. lia.
      * intros ->. exact (binop_noidx o a b E).
Qed.

Lemma finish_no_idx final us ops : not_idx (finish final us ops).
Proof.
  unfold not_idx, Shunting.finish.
  destruct (bind (drain 0 us ops) _) as [v|e|x|]; try discriminate.
  destruct (x =? host_IndexError) eqn:X; [discriminate|].
  intros [= ->]. rewrite Z.eqb_refl in X. discriminate.
Qed.

Lemma close_ok final isrp toks fs us ops resume :
  (forall fr fs' v, fs = fr :: fs' -> not_idx (resume fr fs' v)) ->
  not_idx (close_with final isrp toks fs us ops resume).
Proof.
  intros H. unfold not_idx, Shunting.close_with.
  destruct (finish final us ops) as [v|e|x|] eqn:F; cbn [bind]; try discriminate.
  - destruct fs as [|fr fs']; [discriminate|]. destruct isrp; [apply H; reflexivity | discriminate].
  - intros [= ->]. exact (finish_no_idx _ _ _ F).
Qed.

Lemma op_step_ok d opnd us ops k : bal us ops opnd ->
  (forall us' ops' o', bal us' ops' o' -> not_idx (k us' ops' o')) ->
  not_idx (op_step d opnd us ops k).
Proof.
  intros B K. unfold Shunting.op_step. destruct (opnd || (d =? t_not T)) eqn:OP.
  - destruct (lookupZ d (t_unary T)); [|discriminate].
    destruct (lookup_prec d 1 (t_prec T)) eqn:LP; [|discriminate].
    destruct (uop_of_id z); [|discriminate].
    apply K. rewrite (lookup_prec_mem _ _ _ LP). unfold bal in *. cbn [nbin]. destruct opnd; lia.
  - apply orb_false_iff in OP as [-> _].
    destruct (lookupZ d (t_binary T)); [|discriminate].
    destruct (lookup_prec d 2 (t_prec T)) eqn:LP; [|discriminate].
    destruct (bop_of_id z); [|discriminate].
    unfold bal in B. pose proof (drain_ok z0 ops us B) as D.
    destruct (drain z0 us ops) as [uo| | x |]; cbn [bind]; try discriminate.
    + apply K. rewrite (lookup_prec_mem _ _ _ LP). unfold bal. cbn [nbin]. lia.
    + intros [= ->]. apply D. reflexivity.
Qed.

Definition run_ok_stmt (toks : list token) : Prop :=
  forall fs us ops opnd, Forall unit_ok toks -> bal us ops opnd -> frames_ok fs ->
                         not_idx (run toks fs us ops opnd).

Lemma run_ok n : forall toks, (length toks <= n)%nat -> run_ok_stmt toks.
Proof.
  induction n as [|n IH]; intros toks L fs us ops opnd U B F.
  - destruct toks; [|simpl in L; lia]. apply close_ok. discriminate.
  - destruct toks as [|t rest]; [apply close_ok; discriminate|].
    assert (IHrest : run_ok_stmt rest) by (apply IH; simpl in L; lia).
    inversion U as [|? ? Ut Urest]; subst.
    destruct t; cbn [Shunting.run].
    + destruct opnd; [|apply close_ok; discriminate].
      destruct r as [v|e|x|]; cbn [bind]; try discriminate.
      * apply IHrest; [exact Urest | unfold bal in *; simpl; lia | exact F].
      * cbn [unit_ok] in Ut. intros [= ->]. apply Ut. reflexivity.
    + destruct (memZ k (t_operators T)).
      * destruct ((k =? t_not T) && negb opnd); [apply close_ok; discriminate|].
        destruct rest as [|t2 rest'].
        { apply op_step_ok; [exact B|]. intros. apply IHrest; assumption. }
        destruct t2; try (apply op_step_ok; [exact B|]; intros; apply IHrest; assumption).
        destruct (memZ k (t_combinable T) && memZ k0 (t_combinable T)).
        { apply op_step_ok; [exact B|]. intros. apply IH; [simpl in L; lia | | assumption | exact F].
          inversion Urest; assumption. }
        { apply op_step_ok; [exact B|]. intros. apply IHrest; assumption. }
      * destruct opnd; [discriminate | apply close_ok; discriminate].
    + destruct opnd; [|apply close_ok; discriminate].
      apply IHrest; [exact Urest | unfold bal; simpl; lia |].
      constructor; [cbn [f_units f_ops]; unfold bal in B; lia | exact F].
    + apply close_ok. intros fr fs' v ->. inversion F as [|? ? Ffr Ffs]; subst.
      apply IHrest; [exact Urest | unfold bal; simpl; lia | exact Ffs].
    + apply close_ok. discriminate.
    + apply close_ok. discriminate.
    + destruct opnd; [discriminate | apply close_ok; discriminate].
Qed.

Theorem parse_no_index_error toks :
  Forall unit_ok toks -> sy_parse V unop binop T toks <> Host host_IndexError.
Proof.
  intros U. unfold sy_parse. apply (run_ok (length toks) toks (le_n _)); [exact U | | constructor].
  unfold bal. simpl. lia.
Qed.

End NoIndexError.
