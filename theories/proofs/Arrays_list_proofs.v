(* C12 / C11: list-level facts used by the array model: byte slices, name lookup *)
From Coq Require Import ZArith List Bool Lia.
From PCB Require Import lib.Result lib.PyInt lib.Harness lib.ArraysLib gen.Gen_arrays model.Arrays.
Import ListNotations.
Open Scope Z_scope.

(* ---------- nth of firstn / skipn / repeat ---------- *)

Lemma nth_firstn_lt {A} (d : A) : forall n l i, (i < n)%nat -> nth i (firstn n l) d = nth i l d.
Proof.
  induction n as [|n IH]; intros l i H; [lia|].
  destruct l as [|x l]; [destruct i; reflexivity|].
  destruct i as [|i]; [reflexivity|]. simpl. apply IH. lia.
Qed.

Lemma nth_skipn_add {A} (d : A) : forall n l i, nth i (skipn n l) d = nth (n + i) l d.
Proof.
  induction n as [|n IH]; intros l i; [reflexivity|].
  destruct l as [|x l]; [destruct i; reflexivity|]. simpl. apply IH.
Qed.

Lemma nth_repeat_same {A} (x : A) : forall n i, nth i (repeat x n) x = x.
Proof. induction n as [|n IH]; intros [|i]; simpl; auto. Qed.

(* ---------- slices on nat positions ---------- *)

Definition nslice (l : list Z) (a n : nat) : list Z := firstn n (skipn a l).
Definition nset (l : list Z) (a : nat) (v : list Z) : list Z :=
  firstn a l ++ v ++ skipn (a + length v) l.

Lemma slice_nslice l lo hi : slice l lo hi = nslice l (Z.to_nat lo) (Z.to_nat (hi - lo)).
Proof. reflexivity. Qed.
Lemma set_slice_nset l lo v : set_slice l lo v = nset l (Z.to_nat lo) v.
Proof. reflexivity. Qed.

Lemma nslice_length l a n : (a + n <= length l)%nat -> length (nslice l a n) = n.
Proof. intros H. unfold nslice. rewrite firstn_length, skipn_length. lia. Qed.

Lemma nth_nslice l a n i d : (i < n)%nat -> nth i (nslice l a n) d = nth (a + i) l d.
Proof. intros H. unfold nslice. rewrite nth_firstn_lt by assumption. apply nth_skipn_add. Qed.

Lemma nset_length l a v : (a + length v <= length l)%nat -> length (nset l a v) = length l.
Proof.
  intros H. unfold nset. rewrite !app_length, firstn_length, skipn_length. lia.
Qed.

Lemma nth_nset l a v i d : (a + length v <= length l)%nat ->
  nth i (nset l a v) d =
  if (i <? a)%nat then nth i l d
  else if (i <? a + length v)%nat then nth (i - a) v d else nth i l d.
Proof.
  intros H. unfold nset.
  assert (La : length (firstn a l) = a) by (rewrite firstn_length; lia).
  destruct (Nat.ltb_spec i a) as [E1|E1].
  - rewrite app_nth1 by lia. apply nth_firstn_lt, E1.
  - rewrite app_nth2 by lia. rewrite La.
    destruct (Nat.ltb_spec i (a + length v)) as [E2|E2].
    + rewrite app_nth1 by lia. reflexivity.
    + rewrite app_nth2 by lia. rewrite nth_skipn_add. f_equal. lia.
Qed.

Lemma nslice_nset_same l a v : (a + length v <= length l)%nat ->
  nslice (nset l a v) a (length v) = v.
Proof.
  intros H. apply (nth_ext _ _ 0 0).
  - apply nslice_length. rewrite nset_length; lia.
  - intros i Hi. rewrite nslice_length in Hi by (rewrite nset_length; lia).
    rewrite nth_nslice by assumption. rewrite nth_nset by assumption.
    destruct (Nat.ltb_spec (a + i) a); [lia|].
    destruct (Nat.ltb_spec (a + i) (a + length v)); [|lia]. f_equal. lia.
Qed.

Lemma nslice_nset_other l a v a' n : (a + length v <= length l)%nat -> (a' + n <= length l)%nat ->
  (a' + n <= a \/ a + length v <= a')%nat ->
  nslice (nset l a v) a' n = nslice l a' n.
Proof.
  intros H H' D. apply (nth_ext _ _ 0 0).
  - rewrite !nslice_length; [reflexivity | lia | rewrite nset_length; lia].
  - intros i Hi. rewrite nslice_length in Hi by (rewrite nset_length; lia).
    rewrite !nth_nslice by assumption. rewrite nth_nset by assumption.
    destruct (Nat.ltb_spec (a' + i) a); [reflexivity|].
    destruct (Nat.ltb_spec (a' + i) (a + length v)); [lia | reflexivity].
Qed.

Lemma nslice_repeat0 N a n : (a + n <= N)%nat -> nslice (repeat 0 N) a n = repeat 0 n.
Proof.
  intros H. apply (nth_ext _ _ 0 0).
  - rewrite nslice_length by (rewrite repeat_length; lia). rewrite repeat_length. reflexivity.
  - intros i Hi. rewrite nslice_length in Hi by (rewrite repeat_length; lia).
    rewrite nth_nslice by assumption. rewrite !nth_repeat_same. reflexivity.
Qed.

(* ---------- Z-level statements for element slices [k*sz, (k+1)*sz) ---------- *)

Lemma elem_nat k sz : 0 <= k -> 0 <= sz ->
  Z.to_nat ((k + 1) * sz - k * sz) = Z.to_nat sz /\
  Z.to_nat (k * sz) = (Z.to_nat k * Z.to_nat sz)%nat.
Proof. intros Hk Hs. split; [f_equal; lia | apply Z2Nat.inj_mul; assumption]. Qed.

Lemma elem_fits k n sz : 0 <= k < n -> 0 <= sz ->
  (Z.to_nat k * Z.to_nat sz + Z.to_nat sz <= Z.to_nat (n * sz))%nat.
Proof.
  intros Hk Hs. rewrite <- Z2Nat.inj_mul, <- Z2Nat.inj_add by nia.
  apply Z2Nat.inj_le; nia.
Qed.

Lemma elem_slice_length l k n sz : 0 <= k < n -> 0 <= sz -> length l = Z.to_nat (n * sz) ->
  length (slice l (k * sz) ((k + 1) * sz)) = Z.to_nat sz.
Proof.
  intros Hk Hs Hl. rewrite slice_nslice. destruct (elem_nat k sz) as [E1 E2]; [lia | lia |].
  rewrite E1, E2. apply nslice_length. rewrite Hl. apply elem_fits; assumption.
Qed.

Lemma elem_set_length l k n sz v : 0 <= k < n -> 0 <= sz -> length l = Z.to_nat (n * sz) ->
  length v = Z.to_nat sz -> length (set_slice l (k * sz) v) = length l.
Proof.
  intros Hk Hs Hl Hv. rewrite set_slice_nset. destruct (elem_nat k sz) as [E1 E2]; [lia | lia |].
  rewrite E2. apply nset_length. rewrite Hl, Hv. apply elem_fits; assumption.
Qed.

Lemma elem_get_set_same l k n sz v : 0 <= k < n -> 0 <= sz -> length l = Z.to_nat (n * sz) ->
  length v = Z.to_nat sz ->
  slice (set_slice l (k * sz) v) (k * sz) ((k + 1) * sz) = v.
Proof.
  intros Hk Hs Hl Hv. rewrite slice_nslice, set_slice_nset.
  destruct (elem_nat k sz) as [E1 E2]; [lia | lia |]. rewrite E1, E2, <- Hv.
  apply nslice_nset_same. rewrite Hl, Hv. apply elem_fits; assumption.
Qed.

Lemma elem_get_set_other l k k' n sz v : 0 <= k < n -> 0 <= k' < n -> k <> k' -> 0 <= sz ->
  length l = Z.to_nat (n * sz) -> length v = Z.to_nat sz ->
  slice (set_slice l (k * sz) v) (k' * sz) ((k' + 1) * sz) = slice l (k' * sz) ((k' + 1) * sz).
Proof.
  intros Hk Hk' Hne Hs Hl Hv. rewrite !slice_nslice, set_slice_nset.
  destruct (elem_nat k sz) as [E1 E2]; [lia | lia |].
  destruct (elem_nat k' sz) as [E1' E2']; [lia | lia |]. rewrite E1', E2', E2.
  apply nslice_nset_other.
  - rewrite Hl, Hv. apply elem_fits; assumption.
  - rewrite Hl. apply elem_fits; assumption.
  - rewrite Hv. assert (k' < k \/ k < k') as [C|C] by lia; [left | right].
    + replace (Z.to_nat k' * Z.to_nat sz + Z.to_nat sz)%nat with ((Z.to_nat k' + 1) * Z.to_nat sz)%nat by lia.
      apply Nat.mul_le_mono_r. lia.
    + replace (Z.to_nat k * Z.to_nat sz + Z.to_nat sz)%nat with ((Z.to_nat k + 1) * Z.to_nat sz)%nat by lia.
      apply Nat.mul_le_mono_r. lia.
Qed.

Lemma elem_slice_zeros k n sz : 0 <= k < n -> 0 <= sz ->
  slice (zeros (n * sz)) (k * sz) ((k + 1) * sz) = zeros sz.
Proof.
  intros Hk Hs. unfold zeros. rewrite slice_nslice.
  destruct (elem_nat k sz) as [E1 E2]; [lia | lia |]. rewrite E1, E2.
  apply nslice_repeat0. apply elem_fits; assumption.
Qed.

(* byte i of element k is byte k*sz + i of the buffer *)
Lemma elem_slice_nth l k n sz i : 0 <= k < n -> 0 <= i < sz -> length l = Z.to_nat (n * sz) ->
  nth (Z.to_nat i) (slice l (k * sz) ((k + 1) * sz)) 0 = nth (Z.to_nat (k * sz + i)) l 0.
Proof.
  intros Hk Hi Hl. rewrite slice_nslice. destruct (elem_nat k sz) as [E1 E2]; [lia | lia |].
  rewrite E1. rewrite nth_nslice by lia. f_equal. lia.
Qed.

(* ---------- names ---------- *)

Lemma lookup_some l n a : lookup l n = Some a -> In a l /\ a_name a = n.
Proof.
  induction l as [|x l IH]; simpl; [discriminate|].
  destruct (list_Z_eqb (a_name x) n) eqn:E; intros H.
  - inversion H; subst. apply list_Z_eqb_eq in E. auto.
  - destruct (IH H). auto.
Qed.

Lemma lookup_none l n : lookup l n = None <-> ~ In n (map a_name l).
Proof.
  induction l as [|x l IH]; simpl; [tauto|].
  destruct (list_Z_eqb (a_name x) n) eqn:E.
  - apply list_Z_eqb_eq in E. split; [discriminate | intros H; exfalso; auto].
  - assert (a_name x <> n) by (intros C; apply list_Z_eqb_eq in C; congruence). tauto.
Qed.

Lemma list_Z_eqb_refl l : list_Z_eqb l l = true.
Proof. apply list_Z_eqb_eq. reflexivity. Qed.

Lemma list_Z_eqb_neq a b : a <> b -> list_Z_eqb a b = false.
Proof. intros H. destruct (list_Z_eqb a b) eqn:E; [apply list_Z_eqb_eq in E; contradiction | reflexivity]. Qed.

Lemma in_lookup l a : NoDup (map a_name l) -> In a l -> lookup l (a_name a) = Some a.
Proof.
  induction l as [|x l IH]; simpl; intros ND H; [contradiction|].
  inversion ND as [|? ? Hx ND']; subst. destruct H as [H|H].
  - subst. rewrite list_Z_eqb_refl. reflexivity.
  - rewrite list_Z_eqb_neq; [apply IH; assumption|].
    intros C. apply Hx. rewrite C. apply in_map, H.
Qed.

Lemma lookup_app l r n : lookup (l ++ r) n = match lookup l n with Some a => Some a | None => lookup r n end.
Proof.
  induction l as [|x l IH]; simpl; [reflexivity|].
  destruct (list_Z_eqb (a_name x) n); [reflexivity | apply IH].
Qed.

(* the unique occurrence splits the list *)
Lemma lookup_split l n a : lookup l n = Some a ->
  exists l1 l2, l = l1 ++ a :: l2 /\ remove_arr l n = l1 ++ l2 /\ lookup l1 n = None.
Proof.
  induction l as [|x l IH]; simpl; [discriminate|].
  destruct (list_Z_eqb (a_name x) n) eqn:E; intros H.
  - inversion H; subst. exists [], l. auto.
  - destruct (IH H) as (l1 & l2 & E1 & E2 & E3). exists (x :: l1), l2. simpl.
    rewrite E, E1 at 1. rewrite E2. auto.
Qed.

Lemma update_buf_names l n buf : map a_name (update_buf l n buf) = map a_name l.
Proof.
  induction l as [|x l IH]; simpl; [reflexivity|].
  destruct (list_Z_eqb (a_name x) n); simpl; [reflexivity | rewrite IH; reflexivity].
Qed.

Lemma update_buf_lookup_same l n buf a : lookup l n = Some a ->
  lookup (update_buf l n buf) n = Some (mkArr (a_name a) (a_dims a) buf (a_nptr a) (a_aptr a)).
Proof.
  induction l as [|x l IH]; simpl; [discriminate|].
  destruct (list_Z_eqb (a_name x) n) eqn:E; intros H.
  - inversion H; subst. simpl. rewrite E. reflexivity.
  - simpl. rewrite E. apply IH, H.
Qed.

Lemma update_buf_lookup_other l n buf n' : n' <> n ->
  lookup (update_buf l n buf) n' = lookup l n'.
Proof.
  intros Hn. induction l as [|x l IH]; simpl; [reflexivity|].
  destruct (list_Z_eqb (a_name x) n) eqn:E; simpl.
  - apply list_Z_eqb_eq in E. rewrite list_Z_eqb_neq by congruence. reflexivity.
  - destruct (list_Z_eqb (a_name x) n'); [reflexivity | apply IH].
Qed.

Lemma update_buf_in l n buf a' : NoDup (map a_name l) -> In a' (update_buf l n buf) ->
  (In a' l /\ a_name a' <> n) \/
  (exists a, In a l /\ a_name a = n /\ a' = mkArr (a_name a) (a_dims a) buf (a_nptr a) (a_aptr a)).
Proof.
  induction l as [|x l IH]; simpl; [tauto|]. intros ND. inversion ND as [|? ? Hx ND']; subst.
  destruct (list_Z_eqb (a_name x) n) eqn:E; simpl; intros [H|H].
  - right. exists x. apply list_Z_eqb_eq in E. auto.
  - left. split; [auto|]. apply list_Z_eqb_eq in E. intros C. apply Hx. rewrite E, <- C. apply in_map, H.
  - left. subst. split; [auto|]. intros C. apply list_Z_eqb_eq in C. congruence.
  - destruct (IH ND' H) as [[H1 H2]|(a & H1 & H2 & H3)]; [left; auto | right; exists a; auto].
Qed.

Lemma remove_arr_in l n x : In x (remove_arr l n) -> In x l.
Proof.
  induction l as [|y l IH]; simpl; [tauto|].
  destruct (list_Z_eqb (a_name y) n); simpl; [auto | intros [H|H]; auto].
Qed.
