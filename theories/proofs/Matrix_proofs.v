(* Facts about model/Matrix.v: which cells a ByteMatrix.__setitem__ can change (C30, C31). *)
From Coq Require Import ZArith List Bool Lia ZifyBool Arith.
From PCB Require Import lib.Result lib.PyInt lib.GfxPrims model.Matrix.
Import ListNotations.
Open Scope Z_scope.

(* ---------- rows *)

Lemma nth_error_upd_rows : forall m skip fs y,
  nth_error (upd_rows m skip fs) y =
  match nth_error m y with
  | None => None
  | Some r => if ((skip <=? y) && (y <? skip + length fs))%nat
              then Some (nth (y - skip) fs (fun r => r) r) else Some r
  end.
Proof.
  induction m as [|r rs IH]; intros skip fs y.
  - destruct y; reflexivity.
  - destruct skip as [|k].
    + destruct fs as [|f fs'].
      * cbn [upd_rows]. destruct (nth_error (r :: rs) y); [|reflexivity].
        replace ((0 <=? y)%nat && (y <? 0 + length (@nil (list Z -> list Z)))%nat) with false; [reflexivity|].
        cbn [length]. symmetry. apply andb_false_iff. right. apply Nat.ltb_ge. lia.
      * cbn [upd_rows]. destruct y as [|y'].
        -- cbn. reflexivity.
        -- cbn [nth_error]. rewrite IH. destruct (nth_error rs y') as [r'|]; [|reflexivity].
           cbn [length].
           replace ((0 <=? S y')%nat && (S y' <? 0 + S (length fs'))%nat)
             with ((0 <=? y')%nat && (y' <? 0 + length fs')%nat).
           2:{ destruct (y' <? 0 + length fs')%nat eqn:E1; destruct (S y' <? 0 + S (length fs'))%nat eqn:E2;
               cbn; try reflexivity; lia. }
           destruct ((0 <=? y')%nat && (y' <? 0 + length fs')%nat); [|reflexivity].
           replace (S y' - 0)%nat with (S (y' - 0))%nat by lia. reflexivity.
    + cbn [upd_rows]. destruct y as [|y'].
      * cbn. reflexivity.
      * cbn [nth_error]. rewrite IH. destruct (nth_error rs y') as [r'|]; [|reflexivity].
        replace ((S k <=? S y')%nat && (S y' <? S k + length fs)%nat)
          with ((k <=? y')%nat && (y' <? k + length fs)%nat).
        2:{ destruct (k <=? y')%nat eqn:E1; destruct (S k <=? S y')%nat eqn:E2;
            destruct (y' <? k + length fs)%nat eqn:E3; destruct (S y' <? S k + length fs)%nat eqn:E4;
            cbn; try reflexivity; lia. }
        replace (S y' - S k)%nat with (y' - k)%nat by lia. reflexivity.
Qed.

Lemma length_upd_rows : forall m skip fs, length (upd_rows m skip fs) = length m.
Proof.
  induction m as [|r rs IH]; intros skip fs; [reflexivity|].
  destruct skip; cbn [upd_rows].
  - destruct fs; cbn [length]; [reflexivity | now rewrite IH].
  - cbn [length]. now rewrite IH.
Qed.

Lemma nth_error_skipn' : forall {A} (l : list A) n k, nth_error (skipn n l) k = nth_error l (n + k).
Proof.
  intros A l. induction l as [|a l IH]; intros n k.
  - rewrite skipn_nil. destruct k; destruct (n + _)%nat; reflexivity.
  - destruct n; [reflexivity|]. cbn [skipn]. rewrite IH. reflexivity.
Qed.

Lemma nth_error_firstn' : forall {A} (l : list A) n k, (k < n)%nat -> nth_error (firstn n l) k = nth_error l k.
Proof.
  intros A l. induction l as [|a l IH]; intros n k Hk.
  - rewrite firstn_nil. reflexivity.
  - destruct n; [lia|]. destruct k; [reflexivity|]. cbn [firstn nth_error]. apply IH. lia.
Qed.

Lemma firstn_In' : forall {A} (l : list A) n x, In x (firstn n l) -> In x l.
Proof.
  intros A l. induction l as [|a l IH]; intros n x H.
  - rewrite firstn_nil in H. exact H.
  - destruct n; [destruct H|]. cbn [firstn] in H. destruct H as [H|H]; [left; exact H | right; eapply IH; eauto].
Qed.

(* replacing the segment [a, b) of a row by data of the same length *)
Lemma nth_error_replace : forall (row data : list Z) (a b x : nat),
  (a <= b)%nat -> (b <= length row)%nat -> length data = (b - a)%nat ->
  nth_error (firstn a row ++ data ++ skipn b row) x =
  if ((a <=? x) && (x <? b))%nat then nth_error data (x - a) else nth_error row x.
Proof.
  intros row data a b x Hab Hb Hd.
  assert (Hfa : length (firstn a row) = a) by (rewrite firstn_length; lia).
  destruct (a <=? x)%nat eqn:E1; cbn [andb].
  - destruct (x <? b)%nat eqn:E2.
    + rewrite nth_error_app2 by lia. rewrite Hfa. rewrite nth_error_app1 by lia. reflexivity.
    + rewrite nth_error_app2 by lia. rewrite Hfa. rewrite nth_error_app2 by lia.
      rewrite Hd. rewrite nth_error_skipn'. f_equal. lia.
  - rewrite nth_error_app1 by lia. apply nth_error_firstn'. lia.
Qed.

Lemma length_replace : forall (row data : list Z) (a b : nat),
  (a <= b)%nat -> (b <= length row)%nat -> length data = (b - a)%nat ->
  length (firstn a row ++ data ++ skipn b row) = length row.
Proof.
  intros row data a b Hab Hb Hd. rewrite !app_length, firstn_length, skipn_length. lia.
Qed.

Lemma slice_bounds_le : forall len lo hi a b, 0 <= len ->
  slice_bounds len lo hi = (a, b) -> (a <= b)%nat /\ (Z.of_nat b <= len).
Proof.
  intros len lo hi a b Hlen H. unfold slice_bounds, norm_bound in H.
  injection H as Ha Hb. subst a b.
  destruct lo as [s|]; destruct hi as [t|];
    repeat match goal with |- context [if ?c then _ else _] => destruct c eqn:? end; lia.
Qed.

(* both bounds present and non-negative: no wrap-around *)
Lemma slice_bounds_nonneg : forall len s t, 0 <= len -> 0 <= s -> 0 <= t ->
  slice_bounds len (Some s) (Some t) = (Z.to_nat (Z.min s len), Z.to_nat (Z.max (Z.min s len) (Z.min t len))).
Proof.
  intros len s t Hl Hs Ht. unfold slice_bounds, norm_bound.
  destruct (s <? 0) eqn:E1; [lia|]. destruct (t <? 0) eqn:E2; [lia|]. reflexivity.
Qed.

Lemma nth_error_set_nth : forall l n v x,
  nth_error (set_nth l n v) x = if (x =? n)%nat then (if (n <? length l)%nat then Some v else None) else nth_error l x.
Proof.
  induction l as [|a l IH]; intros n v x.
  - cbn. destruct (x =? n)%nat; destruct x; reflexivity.
  - destruct n as [|n']; destruct x as [|x']; cbn [set_nth nth_error length]; try reflexivity.
    rewrite IH. cbn [Nat.eqb]. destruct (x' =? n')%nat; [|reflexivity].
    destruct (n' <? length l)%nat eqn:E1; destruct (S n' <? S (length l))%nat eqn:E2; try reflexivity; lia.
Qed.

Lemma length_set_nth : forall l n v, length (set_nth l n v) = length l.
Proof. induction l as [|a l IH]; intros [|n] v; cbn; auto. Qed.

(* ---------- row operations change only the slice *)

Lemma row_fill_spec : forall row lo hi v a b,
  slice_bounds (zlen row) lo hi = (a, b) ->
  length (row_fill row lo hi v) = length row /\
  forall x, nth_error (row_fill row lo hi v) x <> nth_error row x -> (a <= x < b)%nat.
Proof.
  intros row lo hi v a b Hs. unfold row_fill. rewrite Hs.
  destruct (slice_bounds_le (zlen row) lo hi a b) as [Hab Hb]; [unfold zlen; lia | exact Hs |].
  unfold zlen in Hb.
  split.
  - apply length_replace; [lia | lia | apply repeat_length].
  - intros x Hx. rewrite nth_error_replace in Hx; [| lia | lia | apply repeat_length].
    destruct ((a <=? x)%nat && (x <? b)%nat) eqn:E; [lia | congruence].
Qed.

Lemma row_setslice_spec : forall row lo hi data a b,
  slice_bounds (zlen row) lo hi = (a, b) -> length data = (b - a)%nat ->
  length (row_setslice row lo hi data) = length row /\
  forall x, nth_error (row_setslice row lo hi data) x <> nth_error row x -> (a <= x < b)%nat.
Proof.
  intros row lo hi data a b Hs Hd. unfold row_setslice. rewrite Hs.
  destruct (slice_bounds_le (zlen row) lo hi a b) as [Hab Hb]; [unfold zlen; lia | exact Hs |].
  unfold zlen in Hb.
  split.
  - apply length_replace; [lia | lia | exact Hd].
  - intros x Hx. rewrite nth_error_replace in Hx; [| lia | lia | exact Hd].
    destruct ((a <=? x)%nat && (x <? b)%nat) eqn:E; [lia | congruence].
Qed.

(* ---------- the matrix *)

Definition width_is (w : Z) (m : matrix) : Prop := Forall (fun r => zlen r = w) m.

Lemma width_nth_error : forall w m y r, width_is w m -> nth_error m y = Some r -> zlen r = w.
Proof.
  intros w m y r Hw Hn. unfold width_is in Hw. rewrite Forall_forall in Hw.
  apply Hw. eapply nth_error_In; eauto.
Qed.

Lemma width_upd_rows : forall w m skip fs,
  width_is w m -> (forall f r, In f fs -> zlen r = w -> zlen (f r) = w) -> width_is w (upd_rows m skip fs).
Proof.
  intros w m. induction m as [|r rs IH]; intros skip fs Hw Hf; [constructor|].
  pose proof (Forall_inv Hw) as Hr. pose proof (Forall_inv_tail Hw) as Hrs. cbv beta in Hr.
  destruct skip; cbn [upd_rows].
  - destruct fs as [|f fs']; [exact Hw|].
    constructor; [apply Hf; [left; reflexivity | exact Hr] |].
    apply IH; [exact Hrs | intros g r' Hg; apply Hf; right; exact Hg].
  - constructor; [exact Hr | apply IH; assumption].
Qed.

(* a cell of the updated matrix that differs lies in an updated row and differs inside that row *)
Lemma cell_upd_rows_changed : forall m skip fs y x,
  cell (upd_rows m skip fs) y x <> cell m y x ->
  (skip <= y < skip + length fs)%nat /\
  exists r, nth_error m y = Some r /\ nth_error (nth (y - skip) fs (fun r => r) r) x <> nth_error r x.
Proof.
  intros m skip fs y x H. unfold cell in H. rewrite nth_error_upd_rows in H.
  destruct (nth_error m y) as [r|] eqn:Er; [|congruence].
  destruct ((skip <=? y)%nat && (y <? skip + length fs)%nat) eqn:E; [|congruence].
  split; [lia|]. exists r. split; [reflexivity | exact H].
Qed.

(* single pixel, non-negative indices: only that cell can change *)
Lemma mat_setitem_pixel : forall m y x v m' cy cx,
  0 <= y -> 0 <= x ->
  mat_setitem m (IInt y) (IInt x) (Fill v) = Ok m' ->
  cell m' cy cx <> cell m cy cx -> cy = Z.to_nat y /\ cx = Z.to_nat x.
Proof.
  intros m y x v m' cy cx Hy Hx H Hc. cbn [mat_setitem] in H.
  unfold py_index in H.
  destruct (y <? 0) eqn:E1; [lia|].
  destruct (y <? zlen m) eqn:E2; [|discriminate].
  destruct (x <? 0) eqn:E3; [lia|].
  destruct (x <? zlen (nth (Z.to_nat y) m [])) eqn:E4; [|discriminate].
  assert (Hm : m' = upd_rows m (Z.to_nat y) [fun r => set_nth r (Z.to_nat x) v]) by congruence.
  subst m'.
  apply cell_upd_rows_changed in Hc. destruct Hc as [Hr [r [Hnr Hne]]].
  cbn [length] in Hr. assert (cy = Z.to_nat y) by lia. subst cy.
  split; [reflexivity|].
  replace (Z.to_nat y - Z.to_nat y)%nat with 0%nat in Hne by lia. cbn [nth] in Hne.
  rewrite nth_error_set_nth in Hne.
  destruct (cx =? Z.to_nat x)%nat eqn:E5; [lia | congruence].
Qed.

Lemma mat_setitem_pixel_shape : forall m y x v m' w,
  mat_setitem m (IInt y) (IInt x) (Fill v) = Ok m' -> width_is w m ->
  length m' = length m /\ width_is w m'.
Proof.
  intros m y x v m' w H Hw. cbn [mat_setitem] in H.
  destruct (py_index (zlen m) y) as [yn|]; [|discriminate].
  destruct (py_index (zlen (nth yn m [])) x) as [xn|]; [|discriminate].
  assert (Hm : m' = upd_rows m yn [fun r => set_nth r xn v]) by congruence. subst m'.
  split; [apply length_upd_rows|].
  apply width_upd_rows; [exact Hw|].
  intros f r [Hf|[]] Hr. subst f. unfold zlen in *. rewrite length_set_nth. exact Hr.
Qed.

(* the pixel write succeeds inside a matrix of the right shape *)
Lemma mat_setitem_pixel_ok : forall m y x v h w,
  zlen m = h -> width_is w m -> 0 <= y < h -> 0 <= x < w ->
  exists m', mat_setitem m (IInt y) (IInt x) (Fill v) = Ok m'.
Proof.
  intros m y x v h w Hh Hw Hy Hx. cbn [mat_setitem]. unfold py_index.
  destruct (y <? 0) eqn:E1; [lia|]. destruct (y <? zlen m) eqn:E2; [|lia].
  assert (Hr : zlen (nth (Z.to_nat y) m []) = w).
  { destruct (nth_error m (Z.to_nat y)) as [r|] eqn:En.
    - rewrite (nth_error_nth _ _ _ En). eapply width_nth_error; eauto.
    - apply nth_error_None in En. unfold zlen in *. lia. }
  rewrite Hr. destruct (x <? 0) eqn:E3; [lia|]. destruct (x <? w) eqn:E4; [|lia].
  eexists; reflexivity.
Qed.

(* rectangle fill / block with non-negative bounds *)
Lemma nth_repeat_in : forall {A} (a d : A) n k, (k < n)%nat -> nth k (repeat a n) d = a.
Proof. intros A a d n. induction n; intros k Hk; [lia|]. destruct k; cbn; [reflexivity | apply IHn; lia]. Qed.

Lemma mat_setitem_rect : forall m y0 y1 x0 x1 d m' w cy cx,
  0 <= y0 -> 0 <= y1 -> 0 <= x0 -> 0 <= x1 -> 0 <= w -> width_is w m ->
  (match d with
   | Fill _ => True
   | Block src => let '(a, b) := slice_bounds w (Some x0) (Some x1) in Forall (fun s => length s = (b - a)%nat) src
   end) ->
  mat_setitem m (ISlice (Some y0) (Some y1)) (ISlice (Some x0) (Some x1)) d = Ok m' ->
  (length m' = length m /\ width_is w m') /\
  (cell m' cy cx <> cell m cy cx -> y0 <= Z.of_nat cy < y1 /\ x0 <= Z.of_nat cx < x1).
Proof.
  intros m y0 y1 x0 x1 d m' w cy cx Hy0 Hy1 Hx0 Hx1 Hw0 Hw Hfit H.
  cbn [mat_setitem] in H.
  assert (Hlen : 0 <= zlen m) by (unfold zlen; lia).
  rewrite (slice_bounds_nonneg (zlen m) y0 y1 Hlen Hy0 Hy1) in H.
  set (ra := Z.to_nat (Z.min y0 (zlen m))) in *.
  set (rb := Z.to_nat (Z.max (Z.min y0 (zlen m)) (Z.min y1 (zlen m)))) in *.
  pose proof (slice_bounds_nonneg w x0 x1 Hw0 Hx0 Hx1) as Hsb.
  set (ca := Z.to_nat (Z.min x0 w)) in *.
  set (cb := Z.to_nat (Z.max (Z.min x0 w) (Z.min x1 w))) in *.
  (* every row transformer preserves width and changes only [ca, cb) *)
  assert (Hrows : forall fs, m' = upd_rows m ra fs -> (length fs <= rb - ra)%nat ->
            (forall f r, In f fs -> zlen r = w ->
                zlen (f r) = w /\ forall x, nth_error (f r) x <> nth_error r x -> (ca <= x < cb)%nat) ->
            (length m' = length m /\ width_is w m') /\
            (cell m' cy cx <> cell m cy cx -> y0 <= Z.of_nat cy < y1 /\ x0 <= Z.of_nat cx < x1)).
  { intros fs Hm' Hlf Hf. subst m'. split.
    - split; [apply length_upd_rows|]. apply width_upd_rows; [exact Hw|].
      intros f r Hin Hr. apply (Hf f r Hin Hr).
    - intros Hc. apply cell_upd_rows_changed in Hc. destruct Hc as [Hr [r [Hnr Hne]]].
      assert (Hrw : zlen r = w) by (eapply width_nth_error; eauto).
      assert (Hcyl : (cy < length m)%nat) by (apply nth_error_Some; congruence).
      assert (Hin : In (nth (cy - ra) fs (fun r => r)) fs) by (apply nth_In; lia).
      destruct (Hf _ r Hin Hrw) as [_ Hch]. specialize (Hch cx Hne).
      unfold zlen in *. subst ra rb ca cb. lia. }
  destruct d as [v|src].
  - assert (Hm : m' = upd_rows m ra (repeat (fun r => row_fill r (Some x0) (Some x1) v) (rb - ra))) by congruence.
    apply (Hrows _ Hm); [rewrite repeat_length; lia|].
    intros f r Hin Hr. apply repeat_spec in Hin. subst f.
    rewrite <- Hr in Hsb.
    destruct (row_fill_spec r (Some x0) (Some x1) v _ _ Hsb) as [Hl Hch].
    split; [unfold zlen in *; lia|].
    intros x Hx. exact (Hch x Hx).
  - assert (Hm : m' = upd_rows m ra (map (fun s r => row_setslice r (Some x0) (Some x1) s) (firstn (rb - ra) src)))
      by congruence.
    apply (Hrows _ Hm); [rewrite map_length, firstn_length; lia|].
    intros f r Hin Hr. apply in_map_iff in Hin. destruct Hin as [s [Hf Hs]]. subst f.
    rewrite Hsb in Hfit. rewrite Forall_forall in Hfit.
    assert (Hsl : length s = (cb - ca)%nat) by (apply Hfit; eapply firstn_In'; eauto).
    rewrite <- Hr in Hsb.
    destruct (row_setslice_spec r (Some x0) (Some x1) s _ _ Hsb) as [Hl Hch].
    { exact Hsl. }
    split; [unfold zlen in *; lia|].
    intros x Hx. exact (Hch x Hx).
Qed.

(* cellZ versions *)
Lemma cellZ_cell : forall m y x, 0 <= y -> 0 <= x -> cellZ m y x = cell m (Z.to_nat y) (Z.to_nat x).
Proof.
  intros m y x Hy Hx. unfold cellZ.
  destruct (y <? 0) eqn:E1; [lia|]. destruct (x <? 0) eqn:E2; [lia|]. reflexivity.
Qed.

Lemma cellZ_neg : forall m m' y x, cellZ m' y x <> cellZ m y x -> 0 <= y /\ 0 <= x.
Proof.
  intros m m' y x H. unfold cellZ in H.
  destruct (y <? 0) eqn:E1; cbn [orb] in H; [congruence|].
  destruct (x <? 0) eqn:E2; cbn [orb] in H; [congruence|]. lia.
Qed.
