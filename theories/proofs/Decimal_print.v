(* Decimal_print.v - the byte-string assembly of Float.to_str (model/Decimal.v): decimal digit strings,
   the number of significant digits shown, and the exact form of printed integers. *)
From Coq Require Import ZArith List Bool Lia ZifyBool.
From PCB Require Import lib.Result lib.PyInt lib.Harness lib.MBFPrims gen.Gen_mbf gen.Gen_dec model.MBF
  model.Decimal proofs.MBF_base proofs.MBF_digits.
Import ListNotations.
Open Scope Z_scope.
Ltac Zify.zify_post_hook ::= Z.to_euclidean_division_equations.

(* ------------------------------------------------------------------------------------------------ *)
(* takewhile / dropwhile / filter *)

Lemma takewhile_app_all {A} (p : A -> bool) l r : forallb p l = true -> takewhile p (l ++ r) = l ++ takewhile p r.
Proof. induction l as [|x l IH]; cbn; [reflexivity|]. intros H. apply andb_prop in H as [Hx Hl]. rewrite Hx, IH by exact Hl. reflexivity. Qed.

Lemma takewhile_all {A} (p : A -> bool) l : forallb p l = true -> takewhile p l = l.
Proof. intros H. rewrite <- (app_nil_r l) at 1. rewrite takewhile_app_all by exact H. cbn. apply app_nil_r. Qed.

Lemma dropwhile_app_all {A} (p : A -> bool) l r : forallb p l = true -> dropwhile p (l ++ r) = dropwhile p r.
Proof. induction l as [|x l IH]; cbn; [reflexivity|]. intros H. apply andb_prop in H as [Hx Hl]. rewrite Hx. apply IH, Hl. Qed.

Lemma dropwhile_length {A} (p : A -> bool) l : (length (dropwhile p l) <= length l)%nat.
Proof. induction l as [|x l IH]; cbn; [lia|]. destruct (p x); cbn; lia. Qed.

Lemma filter_all {A} (p : A -> bool) l : forallb p l = true -> filter p l = l.
Proof. induction l as [|x l IH]; cbn; [reflexivity|]. intros H. apply andb_prop in H as [Hx Hl]. rewrite Hx, IH by exact Hl. reflexivity. Qed.

Lemma filter_none {A} (p : A -> bool) l : forallb (fun x => negb (p x)) l = true -> filter p l = [].
Proof. induction l as [|x l IH]; cbn; [reflexivity|]. intros H. apply andb_prop in H as [Hx Hl]. destruct (p x); [discriminate|]. apply IH, Hl. Qed.

Lemma forallb_repeat {A} (p : A -> bool) x n : p x = true -> forallb p (repeat x n) = true.
Proof. intros H. induction n; cbn; [reflexivity|]. rewrite H, IHn. reflexivity. Qed.

Lemma forallb_firstn {A} (p : A -> bool) n l : forallb p l = true -> forallb p (firstn n l) = true.
Proof. revert l. induction n; intros [|x l]; cbn; try reflexivity. intros H. apply andb_prop in H as [Hx Hl]. rewrite Hx. apply IHn, Hl. Qed.

Lemma forallb_skipn {A} (p : A -> bool) n l : forallb p l = true -> forallb p (skipn n l) = true.
Proof. revert l. induction n; intros [|x l]; cbn; try reflexivity; try tauto. intros H. apply andb_prop in H as [Hx Hl]. apply IHn, Hl. Qed.

Lemma forallb_rev {A} (p : A -> bool) l : forallb p (rev l) = forallb p l.
Proof. induction l as [|x l IH]; cbn; [reflexivity|]. rewrite forallb_app, IH. cbn. rewrite andb_true_r. apply andb_comm. Qed.

Lemma forallb_dropwhile {A} (p q : A -> bool) l : forallb p l = true -> forallb p (dropwhile q l) = true.
Proof. induction l as [|x l IH]; cbn; [reflexivity|]. intros H. destruct (q x); [apply IH; apply andb_prop in H; tauto | exact H]. Qed.

Lemma forallb_imp {A} (p q : A -> bool) l : (forall x, p x = true -> q x = true) -> forallb p l = true -> forallb q l = true.
Proof. intros Hpq. induction l as [|x l IH]; cbn; [reflexivity|]. intros H. apply andb_prop in H as [Hx Hl]. rewrite (Hpq x Hx), IH by exact Hl. reflexivity. Qed.

(* ------------------------------------------------------------------------------------------------ *)
(* decimal digit strings *)

Lemma to_digits_rev_length : forall (fuel : nat) (k : nat) n, 0 <= n < 10 ^ Z.of_nat k ->
  (length (to_digits_rev fuel 10 n) <= Nat.max k 1)%nat.
Proof.
  induction fuel as [|f IH]; intros k n Hn; cbn [to_digits_rev]; [cbn [length]; lia|].
  destruct (Z.ltb_spec n 10) as [Hs|Hs]; [cbn [length]; lia|].
  destruct k as [|k]; [change (10 ^ Z.of_nat 0) with 1 in Hn; lia|].
  assert (Hk : 10 ^ Z.of_nat (S k) = 10 * 10 ^ Z.of_nat k).
  { rewrite Nat2Z.inj_succ. unfold Z.succ. rewrite Z.pow_add_r by lia. lia. }
  rewrite Hk in Hn. clear Hk.
  assert (Hq : 0 <= n / 10 < 10 ^ Z.of_nat k) by lia.
  specialize (IH k (n / 10) Hq). cbn [length].
  destruct k as [|k']; [change (10 ^ Z.of_nat 0) with 1 in Hq; lia | lia].
Qed.

Lemma dec_str_length n d : 0 <= d -> 0 <= n < 10 ^ d -> zlen (dec_str n) <= Z.max d 1.
Proof.
  intros Hd Hn. unfold dec_str, fmt_base, to_digits, zlen. rewrite map_length, rev_length.
  pose proof (to_digits_rev_length (S (Z.to_nat (Z.log2 n))) (Z.to_nat d) n) as H.
  rewrite Z2Nat.id in H by lia. specialize (H Hn). lia.
Qed.

Lemma dec_str_digits n : 0 <= n -> forallb is_digit (dec_str n) = true.
Proof.
  intros Hn. unfold dec_str, fmt_base. pose proof (to_digits_range 10 n ltac:(lia) Hn) as H.
  induction H as [|x l Hx _ IH]; cbn; [reflexivity|]. rewrite IH, andb_true_r.
  unfold digit_char, is_digit. destruct (Z.ltb_spec x 10); lia.
Qed.

Lemma dec_str_nonempty n : dec_str n <> [].
Proof. apply fmt_base_nonempty. Qed.

Lemma get_digits_spec num d : 0 <= d -> Z.abs num < 10 ^ d -> 1 <= d ->
  zlen (get_digits num d) = d /\ forallb is_digit (get_digits num d) = true.
Proof.
  intros Hd Hn H1. unfold get_digits. pose proof (dec_str_length (Z.abs num) d Hd ltac:(lia)) as Hl.
  split.
  - unfold zlen in *. rewrite app_length, repeat_length. lia.
  - rewrite forallb_app, forallb_repeat by reflexivity. apply dec_str_digits. lia.
Qed.

Lemma rstrip0_spec s : forallb is_digit s = true ->
  zlen (rstrip0 s) <= zlen s /\ forallb is_digit (rstrip0 s) = true.
Proof.
  intros H. unfold rstrip0, zlen. rewrite rev_length. split.
  - pose proof (dropwhile_length (Z.eqb 48) (rev s)). rewrite rev_length in *. lia.
  - rewrite forallb_rev. apply forallb_dropwhile. rewrite forallb_rev. exact H.
Qed.

(* ------------------------------------------------------------------------------------------------ *)
(* significant digits of a printed number *)

Definition letter (c : Z) : bool := (c =? 69) || (c =? 68).
Definition plain (c : Z) : bool := negb (is_digit c) && negb (letter c).

(* what the printing code needs of the class constants *)
Record fmt_str_ok (F : dfmt) : Prop := {
  fs_sigil : forallb plain (d_sigil F) = true;
  fs_exp : exists c, d_exp_sign F = [c] /\ letter c = true;
  fs_digits : 1 <= c_digits (d_C F) }.

Lemma Single_str_ok : fmt_str_ok Single_fmt.
Proof. constructor; [reflexivity | exists 69; split; reflexivity | cbn; lia]. Qed.
Lemma Double_str_ok : fmt_str_ok Double_fmt.
Proof. constructor; [reflexivity | exists 68; split; reflexivity | cbn; lia]. Qed.

Lemma is_mant_not_letter c : is_mant c = true -> negb (letter c) = true.
Proof. unfold is_mant, is_digit, letter. lia. Qed.
Lemma plain_not_letter c : plain c = true -> negb (letter c) = true.
Proof. unfold plain. intros H. apply andb_prop in H. tauto. Qed.
Lemma plain_not_digit c : plain c = true -> negb (is_digit c) = true.
Proof. unfold plain. intros H. apply andb_prop in H. tauto. Qed.

Lemma printed_mantissa_eq s : printed_mantissa s = takewhile (fun c => negb (letter c)) s.
Proof. reflexivity. Qed.

Lemma psd_general pre B tl : forallb plain pre = true -> forallb is_mant B = true ->
  (forallb plain tl = true \/ exists c r, tl = c :: r /\ letter c = true) ->
  printed_sig_digits (pre ++ B ++ tl) = zlen (dropwhile (Z.eqb 48) (filter is_digit B)).
Proof.
  intros Hpre HB Htl. unfold printed_sig_digits. rewrite printed_mantissa_eq.
  assert (Hpre' : forallb (fun c => negb (letter c)) pre = true) by (eapply forallb_imp; [apply plain_not_letter | exact Hpre]).
  assert (HB' : forallb (fun c => negb (letter c)) B = true) by (eapply forallb_imp; [apply is_mant_not_letter | exact HB]).
  assert (Hpd : filter is_digit pre = []) by (apply filter_none; eapply forallb_imp; [apply plain_not_digit | exact Hpre]).
  rewrite takewhile_app_all by exact Hpre'. rewrite takewhile_app_all by exact HB'.
  destruct Htl as [Hp|(c & r & -> & Hc)].
  - assert (Htl' : forallb (fun c => negb (letter c)) tl = true) by (eapply forallb_imp; [apply plain_not_letter | exact Hp]).
    rewrite takewhile_all by exact Htl'.
    assert (Htd : filter is_digit tl = []) by (apply filter_none; eapply forallb_imp; [apply plain_not_digit | exact Hp]).
    rewrite !filter_app, Hpd, Htd, app_nil_r. reflexivity.
  - cbn [takewhile]. rewrite Hc. cbn [negb]. rewrite !filter_app, Hpd. cbn [filter app]. rewrite app_nil_r. reflexivity.
Qed.

Lemma digits_are_mant l : forallb is_digit l = true -> forallb is_mant l = true.
Proof. apply forallb_imp. intros x H. unfold is_mant. rewrite H. reflexivity. Qed.

Lemma zlen_app' {A} (a b : list A) : zlen (a ++ b) = zlen a + zlen b.
Proof. unfold zlen. rewrite app_length. lia. Qed.

Lemma dropwhile_zlen {A} (p : A -> bool) l : zlen (dropwhile p l) <= zlen l.
Proof. unfold zlen. pose proof (dropwhile_length p l). lia. Qed.

(* the digit string with a point inserted after k digits shows the same digits *)
Lemma filter_point k ds : forallb is_digit ds = true ->
  filter is_digit (firstn k ds ++ [46] ++ skipn k ds) = ds.
Proof.
  intros H. rewrite !filter_app. cbn [filter is_digit]. change (is_digit 46) with false. cbv iota.
  rewrite filter_all by (apply forallb_firstn, H). rewrite filter_all by (apply forallb_skipn, H).
  cbn [app]. apply firstn_skipn.
Qed.

(* Float.to_str shows at most `digits` significant digits *)
Theorem str_of_decimal_sig F pre num e10 ts : fmt_str_ok F -> forallb plain pre = true ->
  Z.abs num < 10 ^ c_digits (d_C F) ->
  printed_sig_digits (pre ++ str_of_decimal F num e10 ts) <= c_digits (d_C F).
Proof.
  intros HF Hpre Hnum. destruct HF as [Hsig (c & Hexp & Hc) Hd].
  set (d := c_digits (d_C F)) in *.
  destruct (get_digits_spec num d ltac:(lia) Hnum Hd) as [Hlen Hdig].
  destruct (rstrip0_spec _ Hdig) as [Hlen' Hdig'].
  unfold str_of_decimal. fold d. set (ds := rstrip0 (get_digits num d)) in *.
  destruct ((e10 + (d - 1) >? d - 1) || (zlen ds - (e10 + (d - 1)) >? d + 1)) eqn:Hsci.
  - (* scientific notation *)
    unfold scientific_notation. rewrite Hexp.
    set (B := if zlen ds >? 1 then firstn 1 ds ++ [46] ++ skipn 1 ds else firstn 1 ds).
    assert (HB : forallb is_mant B = true).
    { unfold B. destruct (zlen ds >? 1); rewrite ?forallb_app; cbn [forallb];
        rewrite ?(digits_are_mant _ (forallb_firstn _ _ _ Hdig')), ?(digits_are_mant _ (forallb_skipn _ _ _ Hdig')); reflexivity. }
    assert (HfB : filter is_digit B = ds).
    { unfold B. destruct (Z.gtb_spec (zlen ds) 1) as [Hl|Hl]; [apply filter_point, Hdig'|].
      rewrite filter_all by (apply forallb_firstn, Hdig'). apply firstn_all2. unfold zlen in Hl. lia. }
    match goal with |- context [B ++ [c] ++ ?x] => set (tl := [c] ++ x) end.
    assert (Htl : forallb plain tl = true \/ exists c' r, tl = c' :: r /\ letter c' = true).
    { right. eexists _, _. split; [reflexivity | exact Hc]. }
    rewrite (psd_general pre B tl Hpre HB Htl).
    rewrite HfB. pose proof (dropwhile_zlen (Z.eqb 48) ds). lia.
  - (* decimal notation *)
    apply orb_false_elim in Hsci as [Hs1 Hs2].
    unfold decimal_notation. set (x := e10 + (d - 1) + 1).
    set (tsign := if ts then d_sigil F else []).
    assert (Htsign : forallb plain tsign = true) by (unfold tsign; destruct ts; [exact Hsig | reflexivity]).
    set (B := if x >=? zlen ds then ds ++ repeat 48 (Z.to_nat (x - zlen ds))
              else if x >? 0 then firstn (Z.to_nat x) ds ++ [46] ++ skipn (Z.to_nat x) ds
              else [46] ++ repeat 48 (Z.to_nat (- x)) ++ ds).
    assert (HB : forallb is_mant B = true /\ zlen (dropwhile (Z.eqb 48) (filter is_digit B)) <= d).
    { unfold B. destruct (Z.geb_spec x (zlen ds)) as [Hx|Hx]; [|destruct (Z.gtb_spec x 0) as [Hx0|Hx0]].
      - split.
        + rewrite forallb_app, (digits_are_mant _ Hdig'). apply forallb_repeat. reflexivity.
        + rewrite filter_all by (rewrite forallb_app, Hdig'; apply forallb_repeat; reflexivity).
          pose proof (dropwhile_zlen (Z.eqb 48) (ds ++ repeat 48 (Z.to_nat (x - zlen ds)))) as Hle.
          rewrite zlen_app' in Hle.
          assert (Hr : zlen (repeat 48 (Z.to_nat (x - zlen ds))) = x - zlen ds) by (unfold zlen at 1; rewrite repeat_length; lia).
          rewrite Hr in Hle. unfold x in *. lia.
      - split.
        + rewrite !forallb_app. cbn [forallb].
          rewrite (digits_are_mant _ (forallb_firstn _ _ _ Hdig')), (digits_are_mant _ (forallb_skipn _ _ _ Hdig')). reflexivity.
        + rewrite filter_point by exact Hdig'. pose proof (dropwhile_zlen (Z.eqb 48) ds). lia.
      - split.
        + cbn [app forallb]. rewrite forallb_app, (digits_are_mant _ Hdig'), forallb_repeat by reflexivity. reflexivity.
        + cbn [app filter]. change (is_digit 46) with false. cbv iota. rewrite filter_app.
          rewrite filter_all by (apply forallb_repeat; reflexivity). rewrite filter_all by exact Hdig'.
          rewrite dropwhile_app_all by (apply forallb_repeat; reflexivity).
          pose proof (dropwhile_zlen (Z.eqb 48) ds). lia. }
    destruct HB as [HB1 HB2]. fold B.
    destruct (negb (mem 46 B) || list_Z_eqb tsign [35]).
    + rewrite (psd_general pre B tsign Hpre HB1 (or_introl Htsign)). exact HB2.
    + rewrite <- (app_nil_r B). rewrite (psd_general pre B [] Hpre HB1 (or_introl eq_refl)). exact HB2.
Qed.

(* ------------------------------------------------------------------------------------------------ *)
(* digits of n * 10^j, exact length of a digit string, trailing zeros *)

Lemma pow10_succ (k : nat) : 10 ^ Z.of_nat (S k) = 10 * 10 ^ Z.of_nat k.
Proof. rewrite Nat2Z.inj_succ. unfold Z.succ. rewrite Z.pow_add_r by lia. lia. Qed.

(* the fuel of to_digits_rev does not matter once it is enough *)
Lemma tdr_fuel : forall (f f' : nat) n, 0 <= n < 10 ^ Z.of_nat (S f) -> n < 10 ^ Z.of_nat (S f') ->
  to_digits_rev (S f) 10 n = to_digits_rev (S f') 10 n.
Proof.
  induction f as [|f IH]; intros f' n Hn Hn'.
  - change (10 ^ Z.of_nat 1) with 10 in Hn. cbn [to_digits_rev].
    destruct (Z.ltb_spec n 10); [reflexivity | lia].
  - rewrite (pow10_succ (S f)) in Hn.
    change (to_digits_rev (S (S f)) 10 n) with (if n <? 10 then [n] else n mod 10 :: to_digits_rev (S f) 10 (n / 10)).
    change (to_digits_rev (S f') 10 n) with (if n <? 10 then [n] else n mod 10 :: to_digits_rev f' 10 (n / 10)).
    destruct (Z.ltb_spec n 10); [reflexivity|]. f_equal.
    destruct f' as [|f']; [change (10 ^ Z.of_nat 1) with 10 in Hn'; lia|].
    rewrite (pow10_succ (S f')) in Hn'. apply IH; lia.
Qed.

Lemma log2_fuel n : 0 <= n -> n < 10 ^ Z.of_nat (S (Z.to_nat (Z.log2 n))).
Proof. intros. apply fuel_enough; lia. Qed.

Lemma to_digits_mul10 n : 0 < n -> to_digits 10 (10 * n) = to_digits 10 n ++ [0].
Proof.
  intros Hn. unfold to_digits.
  set (F := Z.to_nat (Z.log2 (10 * n))). cbn [to_digits_rev].
  destruct (Z.ltb_spec (10 * n) 10); [lia|].
  replace (10 * n mod 10) with 0 by lia. replace (10 * n / 10) with n by lia.
  cbn [rev]. f_equal. f_equal.
  pose proof (log2_fuel (10 * n) ltac:(lia)) as H1. fold F in H1. rewrite pow10_succ in H1.
  assert (HF : (1 <= F)%nat).
  { unfold F. assert (1 <= Z.log2 (10 * n)); [|lia]. apply Z.log2_le_pow2; lia. }
  destruct F as [|F']; [lia|].
  apply tdr_fuel; [lia | apply log2_fuel; lia].
Qed.

Lemma repeat_snoc {A} (x : A) n : repeat x (S n) = repeat x n ++ [x].
Proof. induction n; [reflexivity|]. cbn [repeat app] in *. rewrite <- IHn. reflexivity. Qed.

Lemma dec_str_pow10 n (j : nat) : 0 < n -> dec_str (n * 10 ^ Z.of_nat j) = dec_str n ++ repeat 48 j.
Proof.
  intros Hn. induction j as [|j IH].
  - change (10 ^ Z.of_nat 0) with 1. rewrite Z.mul_1_r. cbn [repeat]. rewrite app_nil_r. reflexivity.
  - rewrite pow10_succ. replace (n * (10 * 10 ^ Z.of_nat j)) with (10 * (n * 10 ^ Z.of_nat j)) by lia.
    assert (Hp : 0 < n * 10 ^ Z.of_nat j) by (apply Z.mul_pos_pos; [lia | apply Z.pow_pos_nonneg; lia]).
    unfold dec_str, fmt_base in *. rewrite to_digits_mul10 by exact Hp. rewrite map_app, IH, repeat_snoc.
    rewrite app_assoc. reflexivity.
Qed.

Lemma of_digits_lt l : Forall (fun d => 0 <= d < 10) l -> 0 <= of_digits 10 l < 10 ^ zlen l.
Proof.
  induction l as [|x l IH] using rev_ind; intros H.
  - cbn. lia.
  - apply Forall_app in H as [Hl Hx]. inversion Hx as [|? ? Hx' _]; subst.
    unfold of_digits in *. rewrite fold_left_app. cbn [fold_left]. specialize (IH Hl).
    unfold zlen in *. rewrite app_length. cbn [length].
    replace (Z.of_nat (length l + 1)) with (Z.of_nat (length l) + 1) by lia.
    rewrite Z.pow_add_r by lia. lia.
Qed.

Lemma dec_str_len_exact n k : 1 <= k -> 10 ^ (k - 1) <= n < 10 ^ k -> zlen (dec_str n) = k.
Proof.
  intros Hk Hn. assert (0 < 10 ^ (k - 1)) by (apply Z.pow_pos_nonneg; lia).
  pose proof (dec_str_length n k ltac:(lia) ltac:(lia)) as Hup.
  pose proof (of_digits_lt (to_digits 10 n) (to_digits_range 10 n ltac:(lia) ltac:(lia))) as Hlt.
  rewrite digits_roundtrip in Hlt by lia.
  assert (Hl : zlen (dec_str n) = zlen (to_digits 10 n)) by (unfold dec_str, fmt_base, zlen; rewrite map_length; reflexivity).
  rewrite Hl in *. destruct (Z.lt_ge_cases (zlen (to_digits 10 n)) k) as [Hs|Hs]; [|lia].
  assert (10 ^ zlen (to_digits 10 n) <= 10 ^ (k - 1)) by (apply Z.pow_le_mono_r; unfold zlen in *; lia). lia.
Qed.

Lemma rev_repeat {A} (x : A) n : rev (repeat x n) = repeat x n.
Proof. induction n; [reflexivity|]. rewrite repeat_snoc at 2. cbn [repeat rev]. rewrite IHn. reflexivity. Qed.

Lemma rstrip0_zeros l j : rstrip0 (l ++ repeat 48 j) = rstrip0 l.
Proof.
  unfold rstrip0. rewrite rev_app_distr, rev_repeat.
  rewrite dropwhile_app_all by (apply forallb_repeat; reflexivity). reflexivity.
Qed.

Lemma dropwhile_48_repeat l :
  l = repeat 48 (length l - length (dropwhile (Z.eqb 48) l)) ++ dropwhile (Z.eqb 48) l.
Proof.
  induction l as [|x l IH]; [reflexivity|]. cbn [dropwhile].
  destruct (Z.eqb_spec 48 x) as [<-|Hx].
  - pose proof (dropwhile_length (Z.eqb 48) l). cbn [length].
    replace (S (length l) - length (dropwhile (Z.eqb 48) l))%nat with (S (length l - length (dropwhile (Z.eqb 48) l))) by lia.
    cbn [repeat app]. f_equal. exact IH.
  - cbn [length]. rewrite Nat.sub_diag. reflexivity.
Qed.

Lemma rstrip0_pad l : rstrip0 l ++ repeat 48 (length l - length (rstrip0 l)) = l.
Proof.
  unfold rstrip0. rewrite rev_length. pose proof (dropwhile_48_repeat (rev l)) as H.
  rewrite rev_length in H. apply (f_equal (@rev Z)) in H. rewrite rev_involutive, rev_app_distr, rev_repeat in H.
  symmetry. exact H.
Qed.

(* ------------------------------------------------------------------------------------------------ *)
(* an integer mantissa n * 10^j with exponent -j prints as the digits of n *)

Lemma zlen_repeat {A} (x : A) n : zlen (repeat x n) = Z.of_nat n.
Proof. unfold zlen. rewrite repeat_length. reflexivity. Qed.

Lemma mem_digits l : forallb is_digit l = true -> mem 46 l = false.
Proof.
  induction l as [|x l IH]; [reflexivity|]. cbn [forallb mem existsb]. intros H. apply andb_prop in H as [Hx Hl].
  fold (mem 46 l). rewrite (IH Hl). unfold is_digit in Hx. destruct (Z.eqb_spec 46 x); [lia | reflexivity].
Qed.

Theorem str_of_decimal_int F n j ts : fmt_str_ok F -> n <> 0 -> 0 <= j ->
  10 ^ (c_digits (d_C F) - 1) <= Z.abs n * 10 ^ j < 10 ^ c_digits (d_C F) ->
  str_of_decimal F (n * 10 ^ j) (- j) ts = dec_str (Z.abs n) ++ (if ts then d_sigil F else []).
Proof.
  intros HF Hn0 Hj Hrange. destruct HF as [Hsig _ Hd]. set (d := c_digits (d_C F)) in *.
  set (V := Z.abs n) in *. assert (HV : 0 < V) by (unfold V; lia).
  assert (Hpj : 0 < 10 ^ j) by (apply Z.pow_pos_nonneg; lia).
  unfold str_of_decimal. fold d.
  (* the digit string *)
  assert (Habs : Z.abs (n * 10 ^ j) = V * 10 ^ j) by (unfold V; rewrite Z.abs_mul; lia).
  assert (Hlen : zlen (dec_str (V * 10 ^ j)) = d) by (apply dec_str_len_exact; lia).
  assert (Hpow : dec_str (V * 10 ^ j) = dec_str V ++ repeat 48 (Z.to_nat j)).
  { rewrite <- (Z2Nat.id j Hj) at 1. apply dec_str_pow10, HV. }
  assert (Hgd : get_digits (n * 10 ^ j) d = dec_str V ++ repeat 48 (Z.to_nat j)).
  { unfold get_digits. rewrite Habs, Hlen, Z.sub_diag. cbn [Z.to_nat repeat app]. exact Hpow. }
  rewrite Hgd, rstrip0_zeros.
  assert (Hs : zlen (dec_str V) = d - j).
  { rewrite Hpow, zlen_app', zlen_repeat, Z2Nat.id in Hlen by lia. lia. }
  set (s := dec_str V) in *. set (r := rstrip0 s).
  assert (Hsd : forallb is_digit s = true) by (apply dec_str_digits; lia).
  destruct (rstrip0_spec s Hsd) as [Hrl Hrd]. fold r in Hrl, Hrd.
  destruct (Z.gtb_spec (- j + (d - 1)) (d - 1)) as [|_]; [lia|].
  destruct (Z.gtb_spec (zlen r - (- j + (d - 1))) (d + 1)) as [|_]; [lia|]. cbn [orb].
  (* decimal notation, no point *)
  unfold decimal_notation.
  destruct (Z.geb_spec (- j + (d - 1) + 1) (zlen r)) as [_|]; [|lia].
  assert (Hpad : r ++ repeat 48 (Z.to_nat (- j + (d - 1) + 1 - zlen r)) = s).
  { pose proof (rstrip0_pad s) as Hp. fold r in Hp.
    replace (Z.to_nat (- j + (d - 1) + 1 - zlen r)) with (length s - length r)%nat by (unfold zlen in *; lia).
    exact Hp. }
  rewrite Hpad, (mem_digits s Hsd). cbn [negb orb]. reflexivity.
Qed.

(* sign or leading blank of Float.to_str *)
Definition sign_str (neg leading_space : bool) : list Z :=
  if neg then [45] else if leading_space then [32] else [].

Lemma sign_plain neg ls : forallb plain (sign_str neg ls) = true.
Proof. destruct neg, ls; reflexivity. Qed.
