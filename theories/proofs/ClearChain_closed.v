(* C23 - proofs, part 2: closed form of the regenerated chain_ table, for arbitrary hand-modelled parts *)
From Coq Require Import ZArith List Bool String Lia Permutation.
From RecordUpdate Require Import RecordSet.
From PCB Require Import lib.Result lib.PyInt lib.Harness lib.ClearTable gen.Gen_clear model.ClearChain.
Import ListNotations RecordSetNotations.
Open Scope Z_scope.

(* ------------------------------------------------------------------------------------------------ *)
(* Part 2: CHAIN.  The execution of the regenerated chain_ table (with _clear_all, hold_garbage, rebuild ...)
   is first brought into closed form, for arbitrary hand-modelled parts h. *)

Definition nonempty {A} (l : list A) : bool := match l with [] => false | _ => true end.

(* after _clear_all(preserve_functions=ALL, preserve_base=kb, preserve_deftype=MERGE) *)
Definition chain_cleared (a : chain_args) (kb : bool) (s : state) : state :=
  s <| deftype := if c_merge a then deftype s else repeat 33 26 |>
    <| sc_vars := [] |> <| sc_mem := [] |> <| sc_current := 0 |>
    <| ar_dims := [] |> <| ar_bufs := [] |> <| ar_mem := [] |> <| ar_current := 0 |>
    <| ss_strs := [] |> <| ss_current := stack_start s |>
    <| ar_base := if kb then ar_base s else None |>
    <| ar_base_by_dim := if kb then ar_base_by_dim s else false |>
    <| functions := if c_all a then functions s else [] |>
    <| stick_on := false |> <| seed := 5228370 |>
    <| err_num := 0 |> <| err_pos := 0 |> <| err_handle := false |> <| err_resume := false |>
    <| on_error := None |>
    <| ev_enabled := [] |> <| ev_gosub := [] |> <| ev_stopped := [] |> <| ev_suspend := false |>
    <| gosub_stack := [] |> <| for_stack := [] |> <| while_stack := [] |>
    <| stop_pos := None |> <| data_pos := 0 |> <| math_raise := false |>.

(* ... the new program loaded / merged, stacks and pointers cleared *)
Definition chain_loaded (a : chain_args) (kb : bool) (s : state) : state :=
  (chain_cleared a kb s) <| m_prog_size := c_new_prog_size a |> <| run_mode := false |>.

Definition gc_on (s : state) : state := s <| m_allow_collect := true |>.

Definition chain_spec (h : handlers) (a : chain_args) (s : state) : out :=
  if c_delete a && c_to_line_missing a then Raised err_IFC s
  else if c_merge a && c_protected a then Raised err_IFC s
  else
    match h_gather h (deftype s) 0 (c_decls a) with
    | Ok gs =>
      match h_gather h (deftype s) 1 (c_decls a) with
      | Ok ga =>
        if h_setok h gs (c_cs_order a) && h_setok h ga (c_ca_order a) then
          let kb := c_all a || (nonempty (c_cs_order a) || nonempty (c_ca_order a)) in
          let cs' := if c_all a then map fst (sc_vars s) else c_cs_order a in
          let ca' := if c_all a then map fst (ar_dims s) else c_ca_order a in
          let s1 := s <| m_allow_collect := false |> in
          match h_migrate h cs' ca' s1 with
          | Ok sv =>
              if c_file_missing a then Raised err_FILE_NOT_FOUND (gc_on (chain_cleared a kb s1))
              else
                let s3 := chain_loaded a kb s1 in
                if (match c_jumpnum a with Some _ => c_jump_missing a | None => false end)
                then Raised err_IFC (gc_on s3)
                else
                  let s4 := s3 <| run_mode := true |> in
                  match h_sizes h sv s4 with
                  | Ok sz =>
                      if st_cur (sv_store sv) <=? var_start s4 + sz then Raised err_OUT_OF_MEMORY (gc_on s4)
                      else
                        let s5 := s4 <| ss_strs := st_strs (sv_store sv) ++ [] |>
                                     <| ss_current := st_cur (sv_store sv) |> in
                        match h_restore h sv s5 with
                        | Done s6 => Done (gc_on s6)
                        | Raised n s6 => Raised n (gc_on s6)
                        | Crashed n s6 => Crashed n (gc_on s6)
                        | Unsupported w => Unsupported w
                        | NoFuel => NoFuel
                        end
                  | Err n => Raised n (gc_on s4)
                  | Host n => Crashed n (gc_on s4)
                  | OutOfFuel => Unsupported "sizes"
                  end
          | Err n => Raised n (gc_on s1)
          | Host n => Crashed n (gc_on s1)
          | OutOfFuel => Unsupported "migrate"
          end
        else Unsupported "set order"
      | Host x => Crashed x s
      | _ => Unsupported "gather"
      end
    | Host x => Crashed x s
    | _ => Unsupported "gather"
    end.

(* both sides are brought to normal form by the VM (abstract handlers and state stay neutral); the kernel
   then only has to re-check `original goal = normal form`, which is cheap for coqc and for coqchk *)
Ltac closed_case := vm_compute; match goal with |- ?l = _ => exact_no_check (eq_refl l) end.

Lemma chain_closed_form h a s : cmd_chain_gen h a s = chain_spec h a s.
Proof.
  (* case split only as far as the execution needs it (coqchk re-checks every case by lazy conversion) *)
  destruct a as [merge all jumpnum jm del tlm prot fm nps decls cs ca].
  destruct del; [destruct tlm; [closed_case|]|];
  (destruct merge; [destruct prot; [closed_case|]|]);
  (destruct all; [|destruct cs as [|c0 cs], ca as [|c1 ca]]);
  destruct fm; (destruct jumpnum as [j|]; [destruct jm|]);
  closed_case.
Qed.

