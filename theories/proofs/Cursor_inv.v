(* C36: the invariant of the cursor model: geometry, cursor inside the screen, and the character grid as the
   replay of the history of buffer primitives ("last character written", scrolling as re-indexing). *)
From Coq Require Import ZArith List Bool Lia ZifyBool Arith.
From PCB Require Import lib.Result lib.PyInt model.Cursor proofs.Cursor_lists.
Import ListNotations.
Open Scope Z_scope.

(* the character last written at cell (r, c) according to a history (most recent event first) *)
Fixpoint lastw (h : list event) (r c : Z) : Z :=
  match h with
  | [] => 32
  | EPut r' c' ch :: t => if (r =? r') && (c =? c') then ch else lastw t r c
  | EScrollUp a b :: t =>
      if (a <=? r) && (r <? b) then lastw t (r + 1) c else if r =? b then 32 else lastw t r c
  | EScrollDown a b :: t =>
      if (a <? r) && (r <=? b) then lastw t (r - 1) c else if r =? a then 32 else lastw t r c
  | EClear a b :: t => if in_rows a b r then 32 else lastw t r c
  | EReset :: _ => 32
  end.

Definition geom_okc (h w t b : Z) (a : bool) : Prop :=
  25 <= h /\ 2 <= w /\ 1 <= t /\ t <= b /\ b < h /\ (a = false -> t = 1 /\ b = h - 1).
Definition in_screenc (r c h w : Z) : Prop := 1 <= r <= h /\ 1 <= c <= w.
Definition grid_okc (cs : list (list Z)) (ws : list bool) (hs : list event) (h w : Z) : Prop :=
  shape cs h w /\ length ws = zn h /\
  forall r c, 1 <= r <= h -> 1 <= c <= w -> get_cell cs r c = lastw hs r c.

Definition geom_ok (s : st) := geom_okc (height s) (width s) (top s) (bot s) (act s).
Definition in_screen (s : st) := in_screenc (row s) (col s) (height s) (width s).
Definition grid_ok (s : st) := grid_okc (cells s) (wraps s) (hist s) (height s) (width s).
Definition GG (s : st) := geom_ok s /\ grid_ok s.
Definition INV (s : st) := GG s /\ in_screen s.

Ltac unf := unfold GG, INV, geom_ok, in_screen, grid_ok in *.
Ltac setters := unfold unset_area in *; unfold set_row, set_col, set_rc, set_ovf, set_bra, set_area, set_wraps,
  set_buf, set_barvis, set_mode_fields in *.
Ltac proj := cbn [row col ovf bra top bot act width height cells wraps barvis modenr csw vga hist] in *.
Ltac dif := match goal with |- context [if ?b then _ else _] => let E := fresh "E" in destruct b eqn:E end.

(* ---- buffer primitives keep the grid *)
Lemma grid_put cs ws hs h w r c ch : grid_okc cs ws hs h w -> 1 <= r <= h -> 1 <= c <= w ->
  grid_okc (put_l cs r c ch) ws (EPut r c ch :: hs) h w.
Proof.
  intros (Hs & Hw & Hg) Hr Hc. split; [apply shape_put; auto|]. split; auto.
  intros R C HR HC. rewrite (get_put cs h w) by auto. simpl. rewrite Hg by auto. reflexivity.
Qed.

Lemma grid_scroll_up cs ws hs h w a b ws' : grid_okc cs ws hs h w -> 1 <= a <= b -> b <= h ->
  length ws' = zn h -> grid_okc (scroll_up_l w cs a b) ws' (EScrollUp a b :: hs) h w.
Proof.
  intros (Hs & Hw & Hg) Ha Hb Hw'. split; [apply shape_scroll_up; auto|]. split; auto.
  intros R C HR HC. destruct Hs as [Hl Hrw]. rewrite (get_scroll_up cs h w) by auto. simpl.
  destruct ((a <=? R) && (R <? b)) eqn:E1; [apply Hg; lia|].
  destruct (R =? b); auto.
Qed.

Lemma grid_scroll_down cs ws hs h w a b ws' : grid_okc cs ws hs h w -> 1 <= a <= b -> b <= h ->
  length ws' = zn h -> grid_okc (scroll_down_l w cs a b) ws' (EScrollDown a b :: hs) h w.
Proof.
  intros (Hs & Hw & Hg) Ha Hb Hw'. split; [apply shape_scroll_down; auto|]. split; auto.
  intros R C HR HC. destruct Hs as [Hl Hrw]. rewrite (get_scroll_down cs h w) by auto. simpl.
  destruct ((a <? R) && (R <=? b)) eqn:E1; [apply Hg; lia|].
  destruct (R =? a); auto.
Qed.

Lemma grid_clear cs ws hs h w a b ws' : grid_okc cs ws hs h w -> length ws' = zn h ->
  grid_okc (clear_l w cs a b) ws' (EClear a b :: hs) h w.
Proof.
  intros (Hs & Hw & Hg) Hw'. split; [apply shape_clear; auto|]. split; auto.
  intros R C HR HC. destruct Hs as [Hl Hrw]. rewrite (get_clear cs h w) by auto. simpl.
  destruct (in_rows a b R); auto.
Qed.

Lemma grid_new hs h w : 0 <= h ->
  grid_okc (repeat (blank_row w) (zn h)) (repeat false (zn h)) (EReset :: hs) h w.
Proof.
  intros Hh. split; [apply shape_new; auto|]. split; [apply repeat_length|].
  intros R C HR HC. simpl. apply get_new; auto.
Qed.

Lemma grid_wraps cs ws ws' hs h w : grid_okc cs ws hs h w -> length ws' = length ws -> grid_okc cs ws' hs h w.
Proof. intros (Hs & Hw & Hg) Hl. split; auto. split; auto. congruence. Qed.

(* wrap flag lists of the scroll operations keep their length *)
Lemma scroll_up_wraps_length (ws : list bool) h a b : length ws = zn h -> 1 <= a <= b -> b <= h ->
  length (let w1 := insert_at (zn b) false ws in
          let i := zn (pyidx (a - 2) (length w1)) in
          let w2 := if nth i w1 false then upd i (nth (zn (a - 1)) w1 false) w1 else w1 in
          delete_at (zn (a - 1)) w2) = zn h.
Proof.
  intros Hl Ha Hb. cbv zeta.
  assert (Hi : length (insert_at (zn b) false ws) = S (zn h))
    by (rewrite insert_at_length; unfold zn in *; lia).
  destruct (nth _ (insert_at (zn b) false ws) false).
  - rewrite delete_at_length; rewrite upd_length; rewrite Hi; unfold zn in *; lia.
  - rewrite delete_at_length; rewrite Hi; unfold zn in *; lia.
Qed.

Lemma scroll_down_wraps_length (ws : list bool) h a b : length ws = zn h -> 1 <= a <= b -> b <= h ->
  length (let w1 := delete_at (zn b) (insert_at (zn (a - 1)) false ws) in
          let i := zn (pyidx (a - 2) (length w1)) in
          if nth i w1 false then upd (zn (a - 1)) true w1 else w1) = zn h.
Proof.
  intros Hl Ha Hb. cbv zeta.
  assert (Hi : length (delete_at (zn b) (insert_at (zn (a - 1)) false ws)) = zn h)
    by (rewrite delete_at_length; rewrite insert_at_length; unfold zn in *; lia).
  destruct (nth _ _ false); [rewrite upd_length|]; exact Hi.
Qed.

Lemma mapi_wraps_length (ws : list bool) f : length (mapi_from 1 f ws) = length ws.
Proof. apply mapi_from_length. Qed.

(* ---- state-level: primitives *)
Lemma GG_put s r c ch : GG s -> 1 <= r <= height s -> 1 <= c <= width s -> GG (b_put s r c ch).
Proof. unf. intros [Hg Hc] Hr Hcc. unfold b_put. setters. proj. split; auto. apply grid_put; auto. Qed.

Lemma GG_scroll_up s a b : GG s -> 1 <= a <= b -> b <= height s -> GG (b_scroll_up s a b).
Proof.
  unf. intros [Hg Hc] Ha Hb. unfold b_scroll_up. setters. proj. split; auto.
  apply (grid_scroll_up (cells s) (wraps s) (hist s) (height s) (width s) a b); auto.
  apply scroll_up_wraps_length; auto. apply Hc.
Qed.

Lemma GG_scroll_down s a b : GG s -> 1 <= a <= b -> b <= height s -> GG (b_scroll_down s a b).
Proof.
  unf. intros [Hg Hc] Ha Hb. unfold b_scroll_down. setters. proj. split; auto.
  apply (grid_scroll_down (cells s) (wraps s) (hist s) (height s) (width s) a b); auto.
  apply scroll_down_wraps_length; auto. apply Hc.
Qed.

Lemma GG_clear s a b k : GG s -> GG (b_clear s a b k).
Proof.
  unf. intros [Hg Hc]. unfold b_clear. setters. proj. split; auto.
  apply (grid_clear (cells s) (wraps s) (hist s) (height s) (width s) a b); auto.
  destruct k; [|rewrite mapi_wraps_length]; apply Hc.
Qed.

Lemma GG_set_wrap s r b : GG s -> GG (set_wrap s r b).
Proof.
  unf. intros [Hg Hc]. unfold set_wrap. setters. proj. split; auto.
  eapply grid_wraps; eauto. apply upd_length.
Qed.

(* ---- scroll, scroll_down *)
Lemma GG_scroll s : GG s -> GG (scroll s).
Proof.
  intros H. unfold scroll.
  assert (H1 : GG (b_scroll_up s (top s) (bot s))).
  { apply GG_scroll_up; auto; destruct H as [(?&?&?&?&?&?) _]; lia. }
  dif; auto.
Qed.

Lemma scroll_ctl s : col (scroll s) = col s /\ ovf (scroll s) = ovf s /\ bra (scroll s) = bra s /\
  width (scroll s) = width s /\ height (scroll s) = height s /\ top (scroll s) = top s /\
  bot (scroll s) = bot s /\ act (scroll s) = act s /\ barvis (scroll s) = barvis s /\
  modenr (scroll s) = modenr s /\ csw (scroll s) = csw s.
Proof. unfold scroll, b_scroll_up. setters. proj. dif; proj; repeat split; reflexivity. Qed.

Lemma GG_scroll_down_ts s from : GG s -> 1 <= from <= bot s -> GG (scroll_down s from).
Proof.
  intros H Hf. unfold scroll_down.
  assert (H1 : GG (b_scroll_down s from (bot s))).
  { apply GG_scroll_down; auto; destruct H as [(?&?&?&?&?&?) _]; lia. }
  dif; auto.
Qed.

(* ---- _wrap_around_and_scroll_as_needed *)
Lemma wrap_scroll_INV ok s : GG s -> 0 <= col s <= width s + 1 -> INV (wrap_scroll ok s).
Proof.
  intros H Hc. pose proof H as [(G1&G2&G3&G4&G5&G6) Hgr].
  unfold wrap_scroll. destruct (bra s && (row s =? height s)) eqn:E0.
  - split.
    + revert H. unf. setters. proj. auto.
    + unf. unfold in_screenc. setters. proj. dif; lia.
  - set (s1 := set_bra s false).
    assert (H1 : GG s1) by (revert H; unf; unfold s1; setters; proj; auto).
    set (s2 := if col s1 >? width s1 then
                 if (row s1 <? bot s1) || ok then set_rc s1 (row s1 + 1) (col s1 - width s1)
                 else set_col s1 (width s1)
               else if col s1 <? 1 then
                 if row s1 >? top s1 then set_rc s1 (row s1 - 1) (col s1 + width s1) else set_col s1 1
               else s1).
    assert (H2 : GG s2 /\ 1 <= col s2 <= width s2 /\ width s2 = width s /\ height s2 = height s
                 /\ top s2 = top s /\ bot s2 = bot s).
    { unfold s2, s1. setters. proj. repeat dif; proj; (split; [revert H; unf; proj; auto | lia]). }
    destruct H2 as (H2 & Hc2 & Hw2 & Hh2 & Ht2 & Hb2).
    destruct (row s2 >? bot s2) eqn:E1.
    + assert (H3 : GG (if ok then scroll s2 else s2)) by (destruct ok; [apply GG_scroll|]; auto).
      assert (Hctl : col (if ok then scroll s2 else s2) = col s2 /\ width (if ok then scroll s2 else s2) = width s2
                     /\ height (if ok then scroll s2 else s2) = height s2 /\ top (if ok then scroll s2 else s2) = top s2
                     /\ bot (if ok then scroll s2 else s2) = bot s2).
      { destruct ok; [|repeat split; reflexivity]. pose proof (scroll_ctl s2) as (?&?&?&?&?&?&?&?). repeat split; auto. }
      destruct Hctl as (K1 & K2 & K3 & K4 & K5).
      set (s3 := if ok then scroll s2 else s2) in *.
      split.
      * revert H3. unf. setters. proj. auto.
      * unf. unfold in_screenc. setters. proj. lia.
    + destruct (row s2 <? top s2) eqn:E2.
      * split; [revert H2; unf; setters; proj; auto|]. unf. unfold in_screenc. setters. proj. lia.
      * split; auto. unf. unfold in_screenc. lia.
Qed.

Definition same_env (s s' : st) : Prop :=
  width s' = width s /\ height s' = height s /\ top s' = top s /\ bot s' = bot s /\ act s' = act s /\
  barvis s' = barvis s /\ modenr s' = modenr s /\ csw s' = csw s.

Lemma same_env_refl s : same_env s s.
Proof. repeat split; reflexivity. Qed.
Lemma same_env_trans s1 s2 s3 : same_env s1 s2 -> same_env s2 s3 -> same_env s1 s3.
Proof. unfold same_env. intros (?&?&?&?&?&?&?&?) (?&?&?&?&?&?&?&?). repeat split; congruence. Qed.

Lemma scroll_env s : same_env s (scroll s) /\ ovf (scroll s) = ovf s.
Proof. pose proof (scroll_ctl s) as (?&?&?&?&?&?&?&?&?&?&?). repeat split; auto. Qed.

Lemma wrap_scroll_env ok s : same_env s (wrap_scroll ok s) /\ ovf (wrap_scroll ok s) = ovf s.
Proof.
  unfold wrap_scroll. destruct (bra s && (row s =? height s)).
  - setters. proj. repeat split; reflexivity.
  - cbv zeta.
    match goal with |- context [row ?x >? bot ?x] => set (s2 := x) end.
    assert (H2 : same_env s s2 /\ ovf s2 = ovf s).
    { unfold s2. setters. proj. repeat dif; proj; repeat split; reflexivity. }
    destruct H2 as [H2 O2].
    destruct (row s2 >? bot s2).
    + destruct ok.
      * destruct (scroll_env s2) as [H3 O3]. split.
        -- eapply same_env_trans; [exact H2|]. eapply same_env_trans; [exact H3|].
           setters. proj. repeat split; reflexivity.
        -- setters. proj. congruence.
      * split; [eapply same_env_trans; [exact H2|]|]; setters; proj; auto. repeat split; reflexivity.
    + destruct (row s2 <? top s2); [|auto].
      split; [eapply same_env_trans; [exact H2|]|]; setters; proj; auto. repeat split; reflexivity.
Qed.

Lemma set_pos_INV s r c ok : GG s -> 0 <= c <= width s + 1 -> INV (set_pos s r c ok).
Proof.
  intros H Hc. unfold set_pos. apply wrap_scroll_INV.
  - revert H. unf. setters. dif; proj; auto.
  - setters. dif; proj; lia.
Qed.

Lemma set_pos_env s r c ok : same_env s (set_pos s r c ok).
Proof.
  unfold set_pos. eapply same_env_trans; [|apply wrap_scroll_env].
  setters. destruct (c <? width s); proj; repeat split; reflexivity.
Qed.

(* ---- write_char *)
Lemma consume_overflow_INV d s : INV s -> INV (consume_overflow d s).
Proof.
  intros [H Hs]. pose proof H as [(G1&G2&G3&G4&G5&G6) Hgr]. destruct Hs as [Hr Hc].
  unfold consume_overflow.
  set (s1 := if ovf s then set_ovf (set_col s (col s + 1)) false else s).
  assert (H1 : GG s1 /\ 1 <= col s1 <= width s + 1 /\ row s1 = row s /\ width s1 = width s /\ height s1 = height s
               /\ top s1 = top s /\ bot s1 = bot s).
  { unfold s1. setters. dif; proj; (split; [revert H; unf; proj; auto | lia]). }
  destruct H1 as (H1 & Hc1 & Hr1 & Hw1 & Hh1 & Ht1 & Hb1).
  destruct (col s1 >? width s1) eqn:E1.
  - destruct (row s1 <? height s1) eqn:E2.
    + set (s2 := if negb (wraps_at s1 (row s1)) then
                   set_wrap (if d && (row s1 <? bot s1) then scroll_down s1 (row s1 + 1) else s1)
                     (row (if d && (row s1 <? bot s1) then scroll_down s1 (row s1 + 1) else s1)) true
                 else s1).
      assert (H2 : GG s2 /\ row s2 = row s1 /\ width s2 = width s1 /\ height s2 = height s1).
      { unfold s2. destruct (negb (wraps_at s1 (row s1))); [|auto].
        destruct (d && (row s1 <? bot s1)) eqn:E3.
        - split.
          + apply GG_set_wrap. apply GG_scroll_down_ts; auto. lia.
          + unfold set_wrap, scroll_down, b_scroll_down. setters. proj. dif; proj; lia.
        - split; [apply GG_set_wrap; auto|]. unfold set_wrap. setters. proj. auto. }
      destruct H2 as (H2 & Hr2 & Hw2 & Hh2).
      split.
      * revert H2. unf. setters. proj. auto.
      * unf. unfold in_screenc. setters. proj. lia.
    + split.
      * revert H1. unf. setters. proj. auto.
      * unf. unfold in_screenc. setters. proj. lia.
  - split; auto. unf. unfold in_screenc. lia.
Qed.

Lemma write_char_INV d s ch : INV s -> INV (write_char d s ch).
Proof.
  intros H. unfold write_char.
  assert (H1 : INV (consume_overflow d s)) by (apply consume_overflow_INV; auto).
  set (s1 := consume_overflow d s) in *.
  assert (H2 : INV (wrap_scroll true s1)).
  { destruct H1 as [H1 [_ Hc]]. apply wrap_scroll_INV; auto. lia. }
  set (s2 := wrap_scroll true s1) in *.
  destruct H2 as [H2 [Hr2 Hc2]].
  assert (H3 : GG (b_put s2 (row s2) (col s2) ch)) by (apply GG_put; auto).
  set (s3 := b_put s2 (row s2) (col s2) ch) in *.
  assert (K : row s3 = row s2 /\ col s3 = col s2 /\ width s3 = width s2 /\ height s3 = height s2)
    by (unfold s3, b_put; setters; proj; auto).
  destruct K as (K1 & K2 & K3 & K4).
  apply wrap_scroll_INV.
  - repeat dif; revert H3; unf; setters; proj; auto.
  - repeat dif; setters; proj; lia.
Qed.

Lemma write_chars_INV d str : forall s, INV s -> INV (write_chars d s str).
Proof.
  induction str as [|ch t IH]; intros s H; [exact H|].
  apply (IH (write_char d s ch)). apply write_char_INV. exact H.
Qed.

Lemma write_spaces_INV n : forall s, INV s -> INV (write_spaces s n).
Proof.
  induction n as [|n IH]; intros s H; [exact H|].
  apply (IH (write_char false s 32)). apply write_char_INV. exact H.
Qed.

Lemma INV_set_wrap s r b : INV s -> INV (set_wrap s r b).
Proof. intros [H Hs]. split; [apply GG_set_wrap; auto|]. revert Hs. unf. unfold set_wrap. setters. proj. auto. Qed.

Lemma newline_INV s w : INV s -> INV (newline s w).
Proof.
  intros H. unfold newline. apply set_pos_INV.
  - apply INV_set_wrap; auto.
  - destruct H as [[(?&?&?) _] _]. unfold set_wrap. setters. proj. lia.
Qed.

Lemma clear_view_INV s : GG s -> INV (clear_view s).
Proof.
  intros H. unfold clear_view. apply set_pos_INV.
  - apply GG_clear; auto.
  - destruct H as [(?&?&?) _]. unfold b_clear. setters. proj. lia.
Qed.

Lemma clear_all_INV s : GG s -> INV (clear_all s).
Proof.
  intros H. unfold clear_all. apply set_pos_INV.
  - apply GG_clear; auto.
  - destruct H as [(?&?&?) _]. unfold b_clear. setters. proj. lia.
Qed.

(* ---- Console.write *)
Lemma console_char_INV s c : INV s -> INV (console_char s c).
Proof.
  intros H. pose proof H as [[(G1&G2&G3) Hgr] [Hr Hc]]. unfold console_char.
  repeat dif; try (apply set_pos_INV; [apply H | lia]); auto.
  - apply write_spaces_INV; auto.
  - apply newline_INV; auto.
  - apply clear_view_INV; apply H.
  - apply write_char_INV; auto.
Qed.

Lemma fold_console_INV str : forall s, INV s -> INV (fold_left console_char str s).
Proof.
  induction str as [|c t IH]; intros s H; [exact H|].
  apply (IH (console_char s c)). apply console_char_INV. exact H.
Qed.

Lemma console_write_INV s str : INV s -> INV (console_write s str).
Proof.
  intros H. unfold console_write. destruct str; auto. apply fold_console_INV. apply INV_set_wrap; auto.
Qed.

Lemma start_line_INV s : INV s -> INV (start_line s).
Proof.
  intros H. unfold start_line. apply INV_set_wrap. dif; auto.
  apply set_pos_INV; [apply H|]. destruct H as [[(?&?&?) _] _]. lia.
Qed.

Lemma report_error_INV s e : INV s -> INV (report_error s e).
Proof. intros H. unfold report_error. repeat apply console_write_INV. apply start_line_INV; auto. Qed.

(* ---- SCRN: file and PRINT *)
Lemma scrn_loop_INV str : forall s out, INV s -> INV (scrn_loop s out str).
Proof.
  induction str as [|c t IH]; intros s out H; cbn [scrn_loop].
  - apply console_write_INV; auto.
  - destruct (col s >? width s); cbn [fst snd]; dif; apply IH; repeat apply console_write_INV; auto.
Qed.

Lemma scrn_write_INV s str cb : INV s -> INV (scrn_write s str cb).
Proof.
  intros H. unfold scrn_write. destruct str; auto. apply scrn_loop_INV. dif; auto. apply console_write_INV; auto.
Qed.

Lemma scrn_write_line_INV s str : INV s -> INV (scrn_write_line s str).
Proof. intros H. unfold scrn_write_line. apply console_write_INV. apply scrn_write_INV; auto. Qed.

Lemma print_comma_INV s : INV s -> INV (print_comma s).
Proof. intros H. unfold print_comma. dif; [apply scrn_write_line_INV | apply scrn_write_INV]; auto. Qed.

Lemma print_items_INV items : forall s nl, INV s -> INV (fst (print_items s items nl)).
Proof.
  induction items as [|it t IH]; intros s nl H; cbn [print_items fst]; auto.
  destruct it; apply IH; auto. - apply scrn_write_INV; auto. - apply print_comma_INV; auto.
Qed.

Lemma print_stmt_INV s items : INV s -> INV (print_stmt s items).
Proof.
  intros H. unfold print_stmt. pose proof (print_items_INV items s true H) as H1.
  destruct (snd (print_items s items true)); auto.
  apply scrn_write_line_INV. dif; auto. apply scrn_write_line_INV; auto.
Qed.

(* ---- bottom bar, mode changes *)
Lemma put_bar_GG n : forall s c l, GG s -> 1 <= c -> c + Z.of_nat n <= width s + 1 ->
  GG (put_bar s c l n) /\ width (put_bar s c l n) = width s /\ height (put_bar s c l n) = height s
  /\ top (put_bar s c l n) = top s /\ bot (put_bar s c l n) = bot s /\ act (put_bar s c l n) = act s
  /\ row (put_bar s c l n) = row s /\ col (put_bar s c l n) = col s /\ barvis (put_bar s c l n) = barvis s
  /\ ovf (put_bar s c l n) = ovf s /\ bra (put_bar s c l n) = bra s.
Proof.
  induction n as [|n IH]; intros s c l H Hc Hn.
  - destruct l; cbn [put_bar]; (split; [exact H | repeat split; reflexivity]).
  - destruct l as [|ch t]; cbn [put_bar]; [split; [exact H | repeat split; reflexivity]|].
    assert (H1 : GG (b_put s (height s) c ch)).
    { apply GG_put; auto; destruct H as [(?&?&?) _]; lia. }
    destruct (IH (b_put s (height s) c ch) (c + 1) t H1) as (I1&I2&I3&I4&I5&I6&I7&I8&I9&I10&I11);
      [lia | unfold b_put; setters; proj; lia |].
    revert I2 I3 I4 I5 I6 I7 I8 I9 I10 I11. unfold b_put at 2 4 6 8 10 12 14 16 18 20. setters. proj.
    intros. split; [exact I1 | repeat split; assumption].
Qed.

Lemma redraw_bar_GG s : GG s ->
  GG (redraw_bar s) /\ width (redraw_bar s) = width s /\ height (redraw_bar s) = height s
  /\ top (redraw_bar s) = top s /\ bot (redraw_bar s) = bot s /\ act (redraw_bar s) = act s
  /\ row (redraw_bar s) = row s /\ col (redraw_bar s) = col s /\ barvis (redraw_bar s) = barvis s
  /\ ovf (redraw_bar s) = ovf s /\ bra (redraw_bar s) = bra s.
Proof.
  intros H. unfold redraw_bar.
  assert (H1 : GG (b_clear s (height s) (height s) false)) by (apply GG_clear; auto).
  set (s1 := b_clear s (height s) (height s) false) in *.
  assert (K : width s1 = width s /\ height s1 = height s /\ top s1 = top s /\ bot s1 = bot s /\ act s1 = act s
              /\ row s1 = row s /\ col s1 = col s /\ barvis s1 = barvis s /\ ovf s1 = ovf s /\ bra s1 = bra s)
    by (unfold s1, b_clear; setters; proj; repeat split; reflexivity).
  destruct K as (K1&K2&K3&K4&K5&K6&K7&K8&K9&K10).
  destruct (barvis s1) eqn:EB.
  - destruct (put_bar_GG (zn (width s1 / 8 * 8)) s1 1 default_bar H1) as (I1&I2&I3&I4&I5&I6&I7&I8&I9&I10&I11).
    + lia.
    + assert (0 <= width s1) by (destruct H1 as [(?&?&?) _]; lia).
      assert (width s1 / 8 * 8 <= width s1) by (rewrite Z.mul_comm; apply Z.mul_div_le; lia).
      assert (0 <= width s1 / 8) by (apply Z.div_pos; lia).
      unfold zn. lia.
    + split; [exact I1 | repeat split; congruence].
  - split; [exact H1 | repeat split; congruence].
Qed.

Lemma init_mode_INV s : GG s -> INV (init_mode s) /\ width (init_mode s) = width s /\ height (init_mode s) = height s
  /\ barvis (init_mode s) = barvis s.
Proof.
  intros H. unfold init_mode.
  set (s2 := if bot s =? height s then set_area s 1 (height s) true else unset_area s).
  assert (H2 : GG s2 /\ width s2 = width s /\ height s2 = height s /\ barvis s2 = barvis s /\ top s2 = 1).
  { unfold s2. pose proof H as [(G1&G2&G3&G4&G5&G6) Hgr]. dif.
    - exfalso. lia.
    - split; [|setters; proj; auto]. split; [|revert Hgr; unf; setters; proj; auto].
      unf. unfold geom_okc. setters. proj. repeat split; try lia. }
  destruct H2 as (H2 & K1 & K2 & K3 & K4).
  pose proof (set_pos_env s2 (top s2) 1 true) as (P1&P2&P3&P4&P5&P6&P7&P8).
  assert (H3 : INV (set_pos s2 (top s2) 1 true)).
  { clearbody s2. apply set_pos_INV; [exact H2|]. destruct H2 as [(_&Hw2&_) _]. clear - Hw2. lia. }
  set (s3 := set_pos s2 (top s2) 1 true) in *.
  destruct H3 as [H3 [Hr3 Hc3]].
  destruct (redraw_bar_GG s3 H3) as (I1&I2&I3&I4&I5&I6&I7&I8&I9&I10&I11).
  clearbody s3 s2.
  split; [split; [exact I1|]|].
  - unf. unfold in_screenc in *. rewrite I2, I3, I7, I8. split; assumption.
  - repeat split; congruence.
Qed.

Lemma set_mode_INV s nr w : GG s -> 2 <= w ->
  INV (set_mode s nr w) /\ width (set_mode s nr w) = w /\ height (set_mode s nr w) = height s.
Proof.
  intros H Hw. unfold set_mode.
  assert (H1 : GG (b_reset (set_mode_fields s nr w false))).
  { destruct H as [(G1&G2&G3&G4&G5&G6) Hgr]. unfold b_reset. setters. proj. split.
    - unf. unfold geom_okc. proj. repeat split; auto; apply G6; auto.
    - unf. proj. apply grid_new. lia. }
  destruct (init_mode_INV _ H1) as (I1 & I2 & I3 & I4).
  split; auto.
Qed.

(* ---- statements *)
Lemma locate_INV s r c cur : INV s -> INV (fst (locate s r c cur)).
Proof.
  intros H. pose proof H as [HG [Hr Hc]]. unfold locate.
  destruct (negb (oint16 r && oint16 c && oint16 cur)); [exact H|].
  set (r' := match r with Some z => z | None => row s end).
  set (c' := match c with Some z => z | None => col s end).
  destruct ((r' =? height s) && barvis s); [exact H|].
  destruct (negb (if act s then rng (top s) (bot s) r' else rng 1 (height s) r')); [exact H|].
  destruct (negb (rng 1 (width s) c')) eqn:E; [exact H|].
  match goal with |- INV (fst (match cur with Some _ => if _ then (?x, _) else _ | None => _ end)) =>
    assert (H0 : INV x) end.
  { apply set_pos_INV.
    - destruct c; destruct (r' =? height s); exact HG.
    - unfold rng in E. destruct c; destruct (r' =? height s); setters; proj; lia. }
  destruct cur as [v|]; [destruct (rng 0 1 v)|]; exact H0.
Qed.

Lemma view_print_INV s ab : INV s -> INV (fst (view_print s ab)).
Proof.
  intros H. pose proof H as [[(G1&G2&G3&G4&G5&G6) Hgr] [Hr Hc]]. unfold view_print.
  destruct ab as [[a b]|]; cbn [fst].
  - repeat (dif; cbn [fst]; auto). unfold rng in *. split; [split|].
    + unf. unfold geom_okc. setters. proj. repeat split; try lia; congruence.
    + revert Hgr. unf. setters. proj. auto.
    + unf. unfold in_screenc. setters. proj. lia.
  - split; [split|].
    + unf. unfold geom_okc. setters. proj. repeat split; try lia.
    + revert Hgr. unf. setters. proj. auto.
    + unf. unfold in_screenc. setters. proj. lia.
Qed.

Lemma show_bar_INV s on : INV s -> INV (fst (show_bar s on)).
Proof.
  intros H. unfold show_bar. repeat (dif; cbn [fst]; auto).
  assert (H1 : GG (set_barvis s on)) by (destruct H as [H _]; revert H; unf; setters; proj; auto).
  destruct (redraw_bar_GG _ H1) as (I1&I2&I3&I4&I5&I6&I7&I8&I9&I10&I11).
  split; auto. destruct H as [_ Hs]. revert Hs I2 I3 I7 I8. unf. setters. proj. intros. congruence.
Qed.

Lemma gfx_width_cases v nr : gfx_width v nr = 0 \/ gfx_width v nr = 40 \/ gfx_width v nr = 80.
Proof. unfold gfx_width. repeat dif; auto. Qed.

Lemma screen_stmt_INV s nr : INV s -> INV (fst (screen_stmt s nr)).
Proof.
  intros H. unfold screen_stmt.
  destruct (negb (int16 nr)); [exact H|]. destruct (negb (rng 0 255 nr)); [exact H|].
  destruct (negb (nr =? 0) && (gfx_width (vga s) nr =? 0)) eqn:E; [exact H|].
  dif; cbn [fst]; [|exact H]. apply set_mode_INV; [apply H|].
  destruct H as [[(?&?&?) _] _].
  destruct (gfx_width_cases (vga s) nr) as [G|[G|G]]; rewrite G in *; repeat dif; lia.
Qed.

Lemma width_stmt_INV s w : INV s -> INV (fst (width_stmt s w)).
Proof.
  intros H. unfold width_stmt. repeat (dif; cbn [fst]; auto).
  all: apply set_mode_INV; [apply H|]; lia.
Qed.

Lemma cls_INV s v : INV s -> INV (fst (cls s v)).
Proof.
  intros H. pose proof H as [HG _]. unfold cls. repeat (dif; cbn [fst]; auto).
  - assert (H1 : GG (b_clear s 1 (height s) true)) by (apply GG_clear; auto).
    destruct (redraw_bar_GG _ H1) as (I1&I2&I3). apply set_pos_INV; [exact I1|].
    destruct I1 as [(_&Hw2&_) _]. clear - Hw2. lia.
  - pose proof (clear_all_INV s HG) as [H1 Hs].
    destruct (redraw_bar_GG _ H1) as (I1&I2&I3&I4&I5&I6&I7&I8&I9).
    split; auto. revert Hs. unf. intros. congruence.
  - apply clear_view_INV; auto.
  - apply clear_view_INV; auto.
Qed.

Lemma edit_key_INV s k : INV s -> INV (edit_key s k).
Proof.
  intros H. pose proof H as [[(G1&G2&G3) Hgr] [Hr Hc]]. unfold edit_key.
  repeat dif; auto; try (apply set_pos_INV; [apply H | lia]).
  - apply set_pos_INV; [apply H | setters; proj; lia].
  - apply clear_view_INV; apply H.
Qed.

Lemma finish_INV sr : INV (fst sr) -> INV (fst (finish sr)).
Proof.
  intros H. unfold finish. destruct (snd sr); cbn [fst]; auto. apply report_error_INV; auto.
Qed.

Lemma step_INV s x : INV s -> INV (step s x).
Proof.
  intros H. unfold step, run_stmt. destruct x; cbn [fst].
  - apply print_stmt_INV; auto.
  - apply finish_INV. apply locate_INV; auto.
  - apply finish_INV. apply cls_INV; auto.
  - apply finish_INV. apply view_print_INV; auto.
  - apply finish_INV. apply width_stmt_INV; auto.
  - apply finish_INV. apply show_bar_INV; auto.
  - apply finish_INV. apply screen_stmt_INV; auto.
  - destruct (screen_fn s r c); cbn [fst]; auto. apply report_error_INV; auto.
  - apply write_chars_INV; auto.
  - apply edit_key_INV; auto.
Qed.

Lemma run_INV l : forall s, INV s -> INV (run s l).
Proof.
  induction l as [|x t IH]; intros s H; [exact H|].
  apply (IH (step s x)). apply step_INV. exact H.
Qed.

Lemma init_INV : INV init_st.
Proof.
  split; [split|].
  - unfold geom_ok, geom_okc, init_st, init_with. proj. repeat split; try lia; auto.
  - unfold grid_ok, init_st, init_with. proj. apply (grid_new [] 25 80). lia.
  - unfold in_screen, in_screenc, init_st, init_with. proj. lia.
Qed.

Theorem reachable_INV l : INV (run init_st l).
Proof. apply run_INV. apply init_INV. Qed.

(* the same from any start width >= 2 and either adapter (text_width option, video=cga/vga) *)
Lemma init_with_INV w v : 2 <= w -> INV (init_with w v).
Proof.
  intros Hw. split; [split|].
  - unfold geom_ok, geom_okc, init_with. proj. repeat split; try lia; auto.
  - unfold grid_ok, init_with. proj. apply (grid_new [] 25 w). lia.
  - unfold in_screen, in_screenc, init_with. proj. lia.
Qed.

Theorem reachable_INV_with w v l : 2 <= w -> INV (run (init_with w v) l).
Proof. intros Hw. apply run_INV. apply init_with_INV. exact Hw. Qed.
