(* C34: reading video memory: get_memory (any length, any start) = the bytes that the single addresses encode *)
From Coq Require Import ZArith List Bool Lia ZifyBool.
From PCB Require Import lib.Result lib.PyInt gen.Gen_vmem model.VideoMem
  proofs.VideoMem_arith proofs.VideoMem_bits proofs.VideoMem_walk.
Import ListNotations.
Open Scope Z_scope.
Ltac Zify.zify_post_hook ::= Z.to_euclidean_division_equations.

(* ---------------------------------------------------------------- modes *)
Definition wf_text (m : vmode) : bool :=
  (vm_kind m =? 3) && (0 <? vm_page_size m) && (vm_page_size m mod 2 =? 0) && (0 <? vm_width m).
Definition wf_mode (m : vmode) : bool := if vm_kind m =? 3 then wf_text m else wf_gmode m.

Lemma wf_kind m : wf_gmode m = true -> vm_kind m = 0 \/ vm_kind m = 1 \/ vm_kind m = 2.
Proof.
  unfold wf_gmode. intros W.
  destruct (vm_kind m =? 0) eqn:K0; [lia|].
  destruct (vm_kind m =? 1) eqn:K1; [lia|].
  destruct (vm_kind m =? 2) eqn:K2; [lia|].
  rewrite andb_false_r in W. discriminate.
Qed.

(* ---------------------------------------------------------------- the byte a single address encodes *)
(* the colour plane an address of a graphics mode reads: all of the packed pixel (None is not needed: the
   reader is chosen by mapper class) *)
Definition reader (m : vmode) (st : vstate) (a : Z) : Z -> Z -> Z -> Z :=
  if vm_kind m =? 0 then cga_rd m (vs_px st)
  else if vm_kind m =? 1 then
    (if memZ (ega_plane m (vs_plane st)) (vm_planes_used m)
     then ega_rd (ega_plane m (vs_plane st)) (vs_px st) else fun _ _ _ => 0)
  else tandy_rd (a mod 2) (vs_px st).

Definition byte_spec (m : vmode) (st : vstate) (a : Z) : Z :=
  if vm_kind m =? 3 then text_get1 m (vs_ch st) (vs_at st) (a - vm_seg m * 16) 0
  else let '(p, x, y) := vmem_get_coords m a in
       if vmem_coord_ok m p x y then reader m st a p y x else 0.

(* ---------------------------------------------------------------- CGA and EGA *)
Lemma fac_not_tandy m : vm_kind m <> 2 -> fac m = 1.
Proof. unfold fac. intros H. destruct (vm_kind m =? 2) eqn:E; [lia|reflexivity]. Qed.

Lemma cga_get_spec m st addr n i : wf_gmode m = true -> vm_kind m = 0 -> 0 <= i < n ->
  cga_get_fn m (vs_px st) addr n i = byte_spec m st (addr + i).
Proof.
  intros W K Hi. unfold cga_get_fn, byte_spec, reader. rewrite K. cbn [Z.eqb].
  assert (F : fac m = 1) by (apply fac_not_tandy; lia).
  assert (P : vm_ppb m = peff m) by (unfold peff; lia).
  rewrite P at 1. rewrite <- F at 1.
  rewrite get_spans_walk by assumption. unfold item_read. rewrite F, Z.mul_1_r. reflexivity.
Qed.

Lemma ega_get_spec m st addr n i : wf_gmode m = true -> vm_kind m = 1 -> 0 <= i < n ->
  ega_get_fn m (vs_px st) (vs_plane st) addr n i = byte_spec m st (addr + i).
Proof.
  intros W K Hi. unfold ega_get_fn, byte_spec, reader. rewrite K. cbn [Z.eqb Pos.eqb].
  assert (F : fac m = 1) by (apply fac_not_tandy; lia).
  assert (P : 8 = peff m).
  { unfold peff. rewrite F. unfold wf_gmode in W. rewrite K in W. cbn [Z.eqb Pos.eqb] in W. lia. }
  cbv zeta.
  destruct (memZ (ega_plane m (vs_plane st)) (vm_planes_used m)).
  - rewrite P at 1. rewrite <- F at 1.
    rewrite get_spans_walk by assumption. unfold item_read. rewrite F, Z.mul_1_r. reflexivity.
  - destruct (vmem_get_coords m (addr + i)) as [[p x] y]. destruct (vmem_coord_ok m p x y); reflexivity.
Qed.

(* ---------------------------------------------------------------- Tandy mode 6 *)
Lemma get_spans_ext rd p l : forall a1 a2, (forall i, a1 i = a2 i) ->
  forall i, get_spans rd p l a1 i = get_spans rd p l a2 i.
Proof.
  induction l as [|sp l IH]; intros a1 a2 H i; [apply H|].
  destruct sp as [[[[page x] y] ofs] len]. rewrite !get_spans_cons. apply IH.
  intros k. unfold put_run. rewrite H. reflexivity.
Qed.

Definition put2_spans (rd : Z -> Z -> Z -> Z) (first : Z) (spans : list span) (acc0 : Z -> Z) : Z -> Z :=
  fold_left (fun acc (sp : span) => let '(page, x, y, ofs, len) := sp in
               put_run2 acc first ofs len (fun j => rd page y (x + j * 8))) spans acc0.

Lemma put2_spans_cons rd first page x y ofs len l acc :
  put2_spans rd first ((page, x, y, ofs, len) :: l) acc
  = put2_spans rd first l (put_run2 acc first ofs len (fun j => rd page y (x + j * 8))).
Proof. reflexivity. Qed.

Lemma put2_spans_spec rd first l : forall acc,
  (forall t, put2_spans rd first l acc (first + 2 * t) = get_spans rd 8 l (fun t => acc (first + 2 * t)) t) /\
  (forall i, (i - first) mod 2 <> 0 -> put2_spans rd first l acc i = acc i).
Proof.
  induction l as [|sp l IH]; intros acc; [split; reflexivity|].
  destruct sp as [[[[page x] y] ofs] len].
  rewrite put2_spans_cons, get_spans_cons.
  destruct (IH (put_run2 acc first ofs len (fun j => rd page y (x + j * 8)))) as [IH1 IH2].
  split.
  - intros t. rewrite IH1. apply get_spans_ext. intros k. unfold put_run2, put_run.
    replace (first + 2 * k - first) with (k * 2) by lia.
    rewrite Z.mod_mul, Z.div_mul by lia. cbn [Z.eqb]. rewrite andb_true_r.
    replace (first + 2 * ofs <=? first + 2 * k) with (ofs <=? k) by lia.
    replace (first + 2 * k <? first + 2 * (ofs + len)) with (k <? ofs + len) by lia.
    reflexivity.
  - intros i Hi. rewrite IH2 by exact Hi. unfold put_run2.
    replace ((i - first) mod 2 =? 0) with false by lia. rewrite andb_false_r. reflexivity.
Qed.

Lemma tandy_get_plane_eq m s addr n plane acc :
  tandy_get_plane m s addr n plane acc =
  put2_spans (tandy_rd plane s) (vmem_tandy6_first plane addr)
             (walk m (addr + vmem_tandy6_first plane addr)
                   (vmem_tandy6_half_len n (vmem_tandy6_first plane addr)) 2) acc.
Proof. reflexivity. Qed.

Lemma tandy_pass_other m s addr n plane acc i : (addr + i) mod 2 <> plane -> (plane = 0 \/ plane = 1) ->
  tandy_get_plane m s addr n plane acc i = acc i.
Proof.
  intros E Hpl. rewrite tandy_get_plane_eq.
  unfold vmem_tandy6_first, vmem_tandy6_half_len. cbv zeta.
  set (first := (plane - addr) mod 2).
  destruct (put2_spans_spec (tandy_rd plane s) first
              (walk m (addr + first) ((n - first + 1) / 2) 2) acc) as [_ S2].
  apply S2. unfold first. lia.
Qed.

Lemma tandy_pass_own m s addr n plane acc i : wf_gmode m = true -> vm_kind m = 2 ->
  (plane = 0 \/ plane = 1) -> 0 <= i < n -> (addr + i) mod 2 = plane ->
  (forall t, acc ((plane - addr) mod 2 + 2 * t) = 0) ->
  tandy_get_plane m s addr n plane acc i =
  item_read (tandy_rd plane s) m (addr + (plane - addr) mod 2) ((i - (plane - addr) mod 2) / 2).
Proof.
  intros W K Hpl Hi E Hacc. rewrite tandy_get_plane_eq.
  unfold vmem_tandy6_first, vmem_tandy6_half_len. cbv zeta.
  set (first := (plane - addr) mod 2) in *.
  assert (Hf : 0 <= first < 2) by (apply Z.mod_pos_bound; lia).
  destruct (put2_spans_spec (tandy_rd plane s) first
              (walk m (addr + first) ((n - first + 1) / 2) 2) acc) as [S1 _].
  assert (Ei : i = first + 2 * ((i - first) / 2)) by (unfold first in *; lia).
  rewrite Ei at 1. rewrite S1.
  assert (F : fac m = 2) by (unfold fac; rewrite K; reflexivity).
  assert (P : 8 = peff m).
  { unfold peff. rewrite F. unfold wf_gmode in W. rewrite K in W. cbn [Z.eqb Pos.eqb] in W. lia. }
  rewrite (get_spans_ext _ _ _ _ (fun _ => 0)) by (intros k; apply Hacc).
  rewrite P at 1.
  replace (walk m (addr + first) ((n - first + 1) / 2) 2)
    with (walk m (addr + first) ((n - first + 1) / 2) (fac m)) by (rewrite F; reflexivity).
  apply get_spans_walk; [exact W|]. unfold first in *. lia.
Qed.

Lemma tandy_get_spec m st addr n i : wf_gmode m = true -> vm_kind m = 2 -> 0 <= i < n ->
  tandy_get_fn m (vs_px st) addr n i = byte_spec m st (addr + i).
Proof.
  intros W K Hi. unfold tandy_get_fn.
  assert (F : fac m = 2) by (unfold fac; rewrite K; reflexivity).
  assert (Hitem : forall plane, (addr + i) mod 2 = plane ->
            item_read (tandy_rd plane (vs_px st)) m (addr + (plane - addr) mod 2) ((i - (plane - addr) mod 2) / 2)
            = byte_spec m st (addr + i)).
  { intros plane Hp. unfold item_read, byte_spec, reader. rewrite K, F. cbn [Z.eqb Pos.eqb].
    replace (addr + (plane - addr) mod 2 + (i - (plane - addr) mod 2) / 2 * 2) with (addr + i) by lia.
    rewrite Hp. reflexivity. }
  destruct (Z.eq_dec ((addr + i) mod 2) 1) as [E1|E1].
  - rewrite tandy_pass_own; try assumption; [apply Hitem; exact E1 | right; reflexivity |].
    intros t. rewrite tandy_pass_other; [reflexivity | lia | left; reflexivity].
  - rewrite tandy_pass_other; [| lia | right; reflexivity].
    rewrite tandy_pass_own; try assumption; [apply Hitem; lia | left; reflexivity | lia | reflexivity].
Qed.

(* ---------------------------------------------------------------- text *)
Lemma text_get1_shift m ch at_ rel i : text_get1 m ch at_ rel i = text_get1 m ch at_ (rel + i) 0.
Proof. unfold text_get1, vmem_text_get_split. rewrite !Z.add_0_r. reflexivity. Qed.

(* ---------------------------------------------------------------- all mappers *)
Lemma wf_mode_cases m : wf_mode m = true ->
  (vm_kind m = 3 /\ wf_text m = true) \/ (wf_gmode m = true /\ (vm_kind m = 0 \/ vm_kind m = 1 \/ vm_kind m = 2)).
Proof.
  unfold wf_mode. destruct (vm_kind m =? 3) eqn:K3; intros W.
  - left. split; [lia | exact W].
  - right. split; [exact W | apply wf_kind; exact W].
Qed.

Theorem get_memory_spec m st addr n : wf_mode m = true ->
  get_memory m st addr n = map (fun i => byte_spec m st (addr + i)) (zseq 0 n).
Proof.
  intros W. unfold get_memory.
  destruct (wf_mode_cases m W) as [[K W3] | [Wg [K | [K | K]]]]; rewrite K; cbn [Z.eqb Pos.eqb].
  - unfold text_get. apply map_ext. intros i. unfold byte_spec. rewrite K. cbn [Z.eqb Pos.eqb].
    rewrite text_get1_shift. f_equal. lia.
  - apply map_ext_in. intros i Hi. apply in_zseq in Hi. apply cga_get_spec; [assumption | assumption | lia].
  - apply map_ext_in. intros i Hi. apply in_zseq in Hi. apply ega_get_spec; [assumption | assumption | lia].
  - apply map_ext_in. intros i Hi. apply in_zseq in Hi. apply tandy_get_spec; [assumption | assumption | lia].
Qed.

(* the buffers of a text page hold bytes *)
Definition cells_nonneg (st : vstate) : Prop := forall p r c, 0 <= vs_ch st p r c /\ 0 <= vs_at st p r c.

Lemma byte_spec_nonneg m st a : wf_mode m = true -> (vm_kind m = 3 -> cells_nonneg st) -> 0 <= byte_spec m st a.
Proof.
  intros W Hc. unfold byte_spec.
  destruct (wf_mode_cases m W) as [[K W3] | [Wg HK]].
  - rewrite K. cbn [Z.eqb Pos.eqb]. specialize (Hc K). unfold text_get1.
    destruct (vmem_text_get_split m (a - vm_seg m * 16) 0) as [page offset].
    destruct (vmem_text_get_skip page); [lia|].
    destruct (vmem_text_get_cell m offset) as [row col].
    destruct (text_cell_ok m page row); [|lia].
    destruct (z2b _); apply Hc.
  - replace (vm_kind m =? 3) with false by lia.
    destruct (vmem_get_coords m a) as [[p x] y]. destruct (vmem_coord_ok m p x y); [|lia].
    unfold reader. destruct HK as [K | [K | K]]; rewrite K; cbn [Z.eqb Pos.eqb].
    + unfold cga_rd. apply pack_byte_nonneg. apply mask_ipbs.
      unfold wf_gmode in Wg. rewrite K in Wg. cbn [Z.eqb Pos.eqb] in Wg.
      apply divisor8 with (a := vm_bpp m); lia.
    + destruct (memZ _ _); [|lia]. unfold ega_rd. apply pack_byte_nonneg. vm_compute. discriminate.
    + unfold tandy_rd. apply pack_byte_nonneg. vm_compute. discriminate.
Qed.

Lemma zseq_0_1 : zseq 0 1 = [0].
Proof. reflexivity. Qed.

Theorem peek_spec m st a : wf_mode m = true -> (vm_kind m = 3 -> cells_nonneg st) ->
  peek m st a = byte_spec m st a.
Proof.
  intros W Hc. unfold peek. rewrite get_memory_spec by exact W. rewrite zseq_0_1. cbn [map hd].
  rewrite Z.add_0_r. pose proof (byte_spec_nonneg m st a W Hc). lia.
Qed.

(* block read = byte reads, for every start address and length *)
Theorem get_memory_peeks m st addr n : wf_mode m = true -> (vm_kind m = 3 -> cells_nonneg st) ->
  get_memory m st addr n = peeks m st addr n.
Proof.
  intros W Hc. rewrite get_memory_spec by exact W. unfold peeks. apply map_ext. intros i.
  rewrite peek_spec by assumption. reflexivity.
Qed.
