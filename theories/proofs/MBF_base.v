(* MBF_base.v - basic facts for the MBF proofs: the generated class constants have the expected shape,
   byte-level bit operations, little-endian decoding, buffer decomposition, and the decoding lemmas that
   connect the generated accessors (mbf_denormalise, mbf_is_zero, mbf_is_negative) with the layout
   functions of model/MBF.v (f_exp, f_raw, f_neg, f_man, f_sval). *)
From Coq Require Import ZArith List Bool Lia ZifyBool.
From PCB Require Import lib.Result lib.PyInt lib.Harness lib.MBFPrims gen.Gen_mbf model.MBF.
Import ListNotations.
Open Scope Z_scope.
Ltac Zify.zify_post_hook ::= Z.to_euclidean_division_equations.

(* ------------------------------------------------------------------------------------------------ *)
(* the regenerated constants *)

Lemma Single_ok : fmt_ok Single_consts.
Proof. constructor; [cbn; lia | vm_compute; reflexivity ..]. Qed.
Lemma Double_ok : fmt_ok Double_consts.
Proof. constructor; [cbn; lia | vm_compute; reflexivity ..]. Qed.

Lemma mbits_Single : mbits Single_consts = 24. Proof. reflexivity. Qed.
Lemma mbits_Double : mbits Double_consts = 56. Proof. reflexivity. Qed.

(* ------------------------------------------------------------------------------------------------ *)
(* powers of two *)

Lemma pow2_pos n : 0 <= n -> 0 < 2 ^ n.
Proof. intros. apply Z.pow_pos_nonneg; lia. Qed.

Lemma pow2_split a b : 0 <= a -> 0 <= b -> 2 ^ (a + b) = 2 ^ a * 2 ^ b.
Proof. intros. apply Z.pow_add_r; lia. Qed.

Lemma pow2_S n : 0 <= n -> 2 ^ (n + 1) = 2 * 2 ^ n.
Proof. intros. rewrite Z.pow_add_r by lia. lia. Qed.

Lemma pow2_le a b : 0 <= a <= b -> 2 ^ a <= 2 ^ b.
Proof. intros. apply Z.pow_le_mono_r; lia. Qed.

Lemma pow2_lt a b : 0 <= a < b -> 2 ^ a < 2 ^ b.
Proof. intros. apply Z.pow_lt_mono_r; lia. Qed.

Lemma pow256 n : 0 <= n -> 256 ^ n = 2 ^ (8 * n).
Proof. intros. change 256 with (2 ^ 8). rewrite <- Z.pow_mul_r by lia. reflexivity. Qed.

(* ------------------------------------------------------------------------------------------------ *)
(* bit operations through arithmetic *)

Lemma land_ones_mod x n : 0 <= n -> Z.land x (2 ^ n - 1) = x mod 2 ^ n.
Proof. intros. replace (2 ^ n - 1) with (Z.ones n) by (rewrite Z.ones_equiv; lia). apply Z.land_ones; lia. Qed.

Lemma land_pow2_small y n : 0 <= n -> 0 <= y < 2 ^ n -> Z.land y (2 ^ n) = 0.
Proof.
  intros Hn Hy. apply Z.bits_inj'. intros k Hk.
  rewrite Z.land_spec, Z.bits_0, Z.pow2_bits_eqb by lia.
  destruct (Z.eqb_spec n k) as [->|Hne]; [|apply andb_false_r].
  rewrite <- (Z.mod_small y (2 ^ k)) by lia.
  rewrite Z.mod_pow2_bits_high by lia. reflexivity.
Qed.

(* x | 2^n for 0 <= x < 2^(n+1): sets bit n *)
Lemma lor_pow2 x n : 0 <= n -> 0 <= x < 2 ^ (n + 1) ->
  Z.lor x (2 ^ n) = x mod 2 ^ n + 2 ^ n.
Proof.
  intros Hn Hx. rewrite pow2_S in Hx by lia.
  assert (Hp := pow2_pos n Hn).
  assert (Hy : 0 <= x mod 2 ^ n < 2 ^ n) by (apply Z.mod_pos_bound; lia).
  assert (Hl := land_pow2_small _ _ Hn Hy).
  assert (Hadd : x mod 2 ^ n + 2 ^ n = Z.lor (x mod 2 ^ n) (2 ^ n)) by (rewrite Z.add_nocarry_lxor by exact Hl; apply Z.lxor_lor; exact Hl).
  assert (Hc : x / 2 ^ n = 0 \/ x / 2 ^ n = 1).
  { assert (0 <= x / 2 ^ n < 2); [|lia]. split; [apply Z.div_pos; lia | apply Z.div_lt_upper_bound; lia]. }
  pose proof (Z.div_mod x (2 ^ n)) as Hdm.
  destruct Hc as [Hc|Hc]; rewrite Hc in Hdm.
  - replace x with (x mod 2 ^ n) at 1 by lia. lia.
  - replace x with (x mod 2 ^ n + 2 ^ n) at 1 by lia.
    rewrite Hadd at 1. rewrite <- Z.lor_assoc, Z.lor_diag. lia.
Qed.

(* ------------------------------------------------------------------------------------------------ *)
(* sweeping over all bytes *)

Definition all_bytes : list Z := map Z.of_nat (seq 0 256).

Lemma all_bytes_in x : byte_ok x -> In x all_bytes.
Proof.
  intros [H0 H1]. unfold all_bytes. apply in_map_iff. exists (Z.to_nat x). split.
  - apply Z2Nat.id; lia.
  - apply in_seq. lia.
Qed.

Lemma byte_sweep (P : Z -> bool) : forallb P all_bytes = true -> forall x, byte_ok x -> P x = true.
Proof. intros H x Hx. rewrite forallb_forall in H. apply H, all_bytes_in, Hx. Qed.

Lemma byte_land128 x : byte_ok x -> Z.land x 128 = if x <? 128 then 0 else 128.
Proof.
  intros Hx. apply Z.eqb_eq.
  apply (byte_sweep (fun x => Z.land x 128 =? (if x <? 128 then 0 else 128))); [vm_compute; reflexivity | exact Hx].
Qed.

Lemma byte_lor127 x : byte_ok x -> Z.lor x 127 = if x <? 128 then 127 else 255.
Proof.
  intros Hx. apply Z.eqb_eq.
  apply (byte_sweep (fun x => Z.lor x 127 =? (if x <? 128 then 127 else 255))); [vm_compute; reflexivity | exact Hx].
Qed.

Lemma byte_lxor128 x : byte_ok x -> Z.lxor x 128 = if x <? 128 then x + 128 else x - 128.
Proof.
  intros Hx. apply Z.eqb_eq.
  apply (byte_sweep (fun x => Z.lxor x 128 =? (if x <? 128 then x + 128 else x - 128))); [vm_compute; reflexivity | exact Hx].
Qed.

Lemma land127 x : Z.land x 127 = x mod 128.
Proof. apply (land_ones_mod x 7). lia. Qed.
Lemma land255 x : Z.land x 255 = x mod 256.
Proof. apply (land_ones_mod x 8). lia. Qed.

(* ------------------------------------------------------------------------------------------------ *)
(* lists, little-endian decoding *)

Lemma zlen_app {A} (a b : list A) : zlen (a ++ b) = zlen a + zlen b.
Proof. unfold zlen. rewrite app_length. lia. Qed.

Lemma zlen_nonneg {A} (l : list A) : 0 <= zlen l.
Proof. unfold zlen. lia. Qed.

Lemma zlen_cons {A} (x : A) l : zlen (x :: l) = 1 + zlen l.
Proof. unfold zlen. cbn [length]. lia. Qed.

Lemma bytes_ok_app a b : bytes_ok (a ++ b) <-> bytes_ok a /\ bytes_ok b.
Proof. unfold bytes_ok. apply Forall_app. Qed.

Lemma le_decode_app a b : le_decode (a ++ b) = le_decode a + 256 ^ zlen a * le_decode b.
Proof.
  induction a as [|x a IH]; cbn [app le_decode].
  - change (zlen (@nil Z)) with 0. lia.
  - rewrite IH, zlen_cons, Z.pow_add_r by (try lia; apply zlen_nonneg). lia.
Qed.

Lemma le_decode_bound l : bytes_ok l -> 0 <= le_decode l < 256 ^ zlen l.
Proof.
  induction 1 as [|x l Hx Hl IH]; cbn [le_decode].
  - change (zlen (@nil Z)) with 0. lia.
  - rewrite zlen_cons, Z.pow_add_r by (try lia; apply zlen_nonneg). unfold byte_ok in Hx. lia.
Qed.

Lemma le_decode_inj a b : bytes_ok a -> bytes_ok b -> length a = length b ->
  le_decode a = le_decode b -> a = b.
Proof.
  intros Ha. revert b. induction Ha as [|x a Hx Ha IH]; intros [|y b] Hb Hlen Heq; try discriminate; auto.
  inversion Hb as [|? ? Hy Hb']; subst. cbn [le_decode] in Heq. unfold byte_ok in *.
  assert (x = y /\ le_decode a = le_decode b) as [-> He] by lia.
  f_equal. apply IH; auto.
Qed.

Lemma le_encode_decode l : bytes_ok l -> le_encode (length l) (le_decode l) = l.
Proof.
  induction 1 as [|x l Hx Hl IH]; cbn [le_decode le_encode length]; auto.
  unfold byte_ok in Hx.
  replace ((x + 256 * le_decode l) mod 256) with x.
  2:{ pose proof (le_decode_bound l Hl). lia. }
  replace ((x + 256 * le_decode l) / 256) with (le_decode l).
  2:{ pose proof (le_decode_bound l Hl). lia. }
  rewrite IH. reflexivity.
Qed.

Lemma le_encode_snoc n x : 0 <= x < 256 ^ Z.of_nat n -> le_encode (S n) x = le_encode n x ++ [0].
Proof.
  revert x. induction n as [|n IH]; intros x Hx.
  - cbn in *. assert (x = 0) by lia. subst. reflexivity.
  - change (le_encode (S (S n)) x) with ((x mod 256) :: le_encode (S n) (x / 256)).
    rewrite IH.
    + reflexivity.
    + rewrite Nat2Z.inj_succ, Z.pow_succ_r in Hx by lia.
      split; [apply Z.div_pos; lia | apply Z.div_lt_upper_bound; lia].
Qed.

Lemma zlen_le_encode n x : zlen (le_encode n x) = Z.of_nat n.
Proof. unfold zlen. rewrite le_encode_length. reflexivity. Qed.

(* Python indexing / slicing on buffers ending in [m; e] *)
Lemma py_nth_m1 lo m e : py_nth 0 (lo ++ [m; e]) (-1) = e.
Proof.
  unfold py_nth. change (-1 <? 0) with true. cbv iota.
  rewrite zlen_app. change (zlen [m; e]) with 2.
  replace (Z.to_nat (zlen lo + 2 + -1)) with (length lo + 1)%nat by (unfold zlen; lia).
  rewrite app_nth2_plus. reflexivity.
Qed.

Lemma py_nth_m2 lo m e : py_nth 0 (lo ++ [m; e]) (-2) = m.
Proof.
  unfold py_nth. change (-2 <? 0) with true. cbv iota.
  rewrite zlen_app. change (zlen [m; e]) with 2.
  replace (Z.to_nat (zlen lo + 2 + -2)) with (length lo + 0)%nat by (unfold zlen; lia).
  rewrite app_nth2_plus. reflexivity.
Qed.

Lemma removelast_2 (lo : list Z) m e : removelast (lo ++ [m; e]) = lo ++ [m].
Proof.
  change [m; e] with ([m] ++ [e]). rewrite app_assoc. apply removelast_last.
Qed.

Lemma py_slice_init b : py_slice b None (Some (-1)) = removelast b.
Proof.
  unfold py_slice, norm_index. change (-1 <? 0) with true. cbv iota.
  rewrite Z.sub_0_r. change (Z.to_nat 0) with O. cbn [skipn].
  destruct b as [|x b'] eqn:Eb.
  - reflexivity.
  - rewrite <- Eb. assert (Hl : 0 < zlen b) by (subst b; rewrite zlen_cons; pose proof (zlen_nonneg b'); lia).
    rewrite Z.max_r by lia.
    replace (Z.to_nat (zlen b + -1)) with (Init.Nat.pred (length b)) by (unfold zlen in *; lia).
    symmetry. apply removelast_firstn_len.
Qed.

Lemma list_set_m1 lo m e x : list_set (lo ++ [m; e]) (-1) x = lo ++ [m; x].
Proof.
  unfold list_set. change (-1 <? 0) with true. cbv iota.
  rewrite zlen_app. change (zlen [m; e]) with 2.
  replace (Z.to_nat (zlen lo + 2 + -1)) with (S (length lo)) by (unfold zlen; lia).
  induction lo as [|y lo IH]; cbn [app length list_set_nat]; [reflexivity | f_equal; exact IH].
Qed.

Lemma list_set_m2 lo m e x : list_set (lo ++ [m; e]) (-2) x = lo ++ [x; e].
Proof.
  unfold list_set. change (-2 <? 0) with true. cbv iota.
  rewrite zlen_app. change (zlen [m; e]) with 2.
  replace (Z.to_nat (zlen lo + 2 + -2)) with (length lo) by (unfold zlen; lia).
  induction lo as [|y lo IH]; cbn [app length list_set_nat]; [reflexivity | f_equal; exact IH].
Qed.

(* every well-formed buffer is lo ++ [m; e] *)
Lemma buf_split C b : fmt_ok C -> buf_ok C b ->
  exists lo m e, b = lo ++ [m; e] /\ zlen lo = c_size C - 2 /\ bytes_ok lo /\ byte_ok m /\ byte_ok e.
Proof.
  intros HC [Hlen Hb]. pose proof (ok_size C HC) as Hs.
  assert (Hl : (2 <= length b)%nat) by (unfold zlen in Hlen; lia).
  destruct (exists_last (l := b)) as [b1 [e ->]]; [intro; subst; cbn in Hl; lia|].
  rewrite app_length in Hl. cbn [length] in Hl.
  destruct (exists_last (l := b1)) as [lo [m ->]]; [intro; subst; cbn in Hl; lia|].
  exists lo, m, e. rewrite <- app_assoc. cbn [app].
  rewrite <- app_assoc in Hb. cbn [app] in Hb. apply bytes_ok_app in Hb as [Hlo Hme].
  inversion Hme as [|? ? Hm He']; subst. inversion He' as [|? ? He _]; subst.
  rewrite <- app_assoc, zlen_app in Hlen. change (zlen ([m] ++ [e])) with 2 in Hlen.
  split; [reflexivity|]. split; [lia|]. split; [exact Hlo|]. split; assumption.
Qed.

(* ------------------------------------------------------------------------------------------------ *)
(* layout of a well-formed float buffer *)

Lemma mbits_ge C : fmt_ok C -> 16 <= mbits C.
Proof. intros HC. pose proof (ok_size C HC). unfold mbits. lia. Qed.
Lemma mbits_le C : fmt_ok C -> mbits C <= 64.
Proof. intros HC. pose proof (ok_size C HC). unfold mbits. lia. Qed.

Lemma buf_view C b : fmt_ok C -> buf_ok C b ->
  exists lo m e, b = lo ++ [m; e] /\ bytes_ok lo /\ byte_ok m /\ byte_ok e /\ zlen lo = c_size C - 2 /\
    f_exp b = e /\ f_raw b = le_decode lo + 2 ^ (mbits C - 8) * m /\
    0 <= le_decode lo < 2 ^ (mbits C - 8).
Proof.
  intros HC Hb. destruct (buf_split C b HC Hb) as (lo & m & e & -> & Hlen & Hlo & Hm & He).
  exists lo, m, e. pose proof (ok_size C HC) as Hs.
  assert (H256 : 256 ^ zlen lo = 2 ^ (mbits C - 8)).
  { rewrite pow256 by lia. f_equal. unfold mbits. lia. }
  split; [reflexivity|]. split; [exact Hlo|]. split; [exact Hm|]. split; [exact He|]. split; [exact Hlen|].
  split; [apply py_nth_m1|]. split.
  - unfold f_raw. rewrite removelast_2, le_decode_app, H256. cbn [le_decode]. lia.
  - apply le_decode_bound in Hlo. rewrite H256 in Hlo. exact Hlo.
Qed.

Lemma mod_hi P x : 0 < P -> P <= x < 2 * P -> x mod P = x - P.
Proof.
  intros HP Hx. replace x with ((x - P) + 1 * P) at 1 by lia.
  rewrite Z.mod_add by lia. apply Z.mod_small. lia.
Qed.

Lemma pow2_pred n : 1 <= n -> 2 ^ n = 2 * 2 ^ (n - 1).
Proof. intros. replace n with ((n - 1) + 1) at 1 by lia. apply pow2_S. lia. Qed.

Lemma f_raw_bound C b : fmt_ok C -> buf_ok C b -> 0 <= f_raw b < 2 ^ mbits C.
Proof.
  intros HC Hb. destruct (buf_view C b HC Hb) as (lo & m & e & -> & Hlo & Hm & He & Hlen & _ & -> & Hd).
  pose proof (mbits_ge C HC).
  assert (Hp : 2 ^ mbits C = 2 ^ (mbits C - 8) * 256).
  { replace (mbits C) with ((mbits C - 8) + 8) at 1 by lia. rewrite pow2_split by lia. reflexivity. }
  rewrite Hp. unfold byte_ok in Hm. nia.
Qed.

Lemma f_exp_bound C b : fmt_ok C -> buf_ok C b -> 0 <= f_exp b < 256.
Proof.
  intros HC Hb. destruct (buf_view C b HC Hb) as (lo & m & e & -> & Hlo & Hm & He & Hlen & -> & _).
  exact He.
Qed.

Lemma f_man_bound C b : fmt_ok C -> 2 ^ (mbits C - 1) <= f_man C b < 2 ^ mbits C.
Proof.
  intros HC. pose proof (mbits_ge C HC). unfold f_man.
  assert (0 < 2 ^ (mbits C - 1)) by (apply pow2_pos; lia).
  rewrite (pow2_pred (mbits C)) by lia.
  pose proof (Z.mod_pos_bound (f_raw b) (2 ^ (mbits C - 1))). lia.
Qed.

Lemma is_negative_spec C b : fmt_ok C -> buf_ok C b -> mbf_is_negative C b = f_neg C b.
Proof.
  intros HC Hb. destruct (buf_view C b HC Hb) as (lo & m & e & -> & Hlo & Hm & He & Hlen & _ & Hraw & Hd).
  unfold mbf_is_negative, f_neg. rewrite Hraw. change (- 2) with (-2). rewrite py_nth_m2.
  pose proof (mbits_ge C HC).
  replace (mbits C - 1) with ((mbits C - 8) + 7) by lia. rewrite pow2_split by lia.
  change (2 ^ 7) with 128. assert (0 < 2 ^ (mbits C - 8)) by (apply pow2_pos; lia).
  unfold byte_ok in Hm. apply eq_true_iff_eq. rewrite Z.geb_le, Z.leb_le. nia.
Qed.

Lemma is_zero_spec C b : mbf_is_zero C b = f_zero b.
Proof. reflexivity. Qed.

(* _denormalise: (exponent byte, mantissa with hidden bit shifted left by the 8 carry bits, sign) *)
Lemma denormalise_spec C b : fmt_ok C -> buf_ok C b ->
  mbf_denormalise C b = (f_exp b, 256 * f_man C b, f_neg C b).
Proof.
  intros HC Hb. unfold mbf_denormalise. rewrite is_negative_spec by assumption.
  f_equal. f_equal.
  rewrite py_slice_init. unfold unpack_le. cbn [app le_decode]. fold (f_raw b).
  rewrite Z.add_0_l, (ok_den_mask C HC).
  pose proof (mbits_ge C HC). pose proof (f_raw_bound C b HC Hb) as Hr.
  rewrite lor_pow2.
  - unfold f_man. replace (mbits C + 7) with (8 + (mbits C - 1)) by lia.
    rewrite pow2_split by lia. change (2 ^ 8) with 256.
    rewrite Z.mul_mod_distr_l by (try lia; apply Z.pow_nonzero; lia). lia.
  - lia.
  - replace (mbits C + 7 + 1) with (8 + mbits C) by lia. rewrite pow2_split by lia.
    change (2 ^ 8) with 256. lia.
Qed.

(* the value of the encoding built from sign, exponent and mantissa *)
Lemma f_encode_ok C neg e m : fmt_ok C -> byte_ok e -> 2 ^ (mbits C - 1) <= m < 2 ^ mbits C ->
  buf_ok C (f_encode C neg e m).
Proof.
  intros HC He Hm. pose proof (ok_size C HC). unfold f_encode, buf_ok. split.
  - rewrite zlen_app, zlen_le_encode. change (zlen [e]) with 1. lia.
  - apply bytes_ok_app. split; [apply le_encode_bytes | repeat constructor; apply He].
Qed.

Lemma f_encode_fields C neg e m : fmt_ok C -> byte_ok e -> 2 ^ (mbits C - 1) <= m < 2 ^ mbits C ->
  f_exp (f_encode C neg e m) = e /\ f_neg C (f_encode C neg e m) = neg /\ f_man C (f_encode C neg e m) = m.
Proof.
  intros HC He Hm. pose proof (ok_size C HC) as Hs. pose proof (mbits_ge C HC) as Hb.
  set (P := 2 ^ (mbits C - 1)) in *.
  assert (HP : 0 < P) by (apply pow2_pos; lia).
  assert (H2P : 2 ^ mbits C = 2 * P) by (unfold P; apply pow2_pred; lia).
  set (raw := m - P + (if neg then P else 0)).
  assert (Hraw : 0 <= raw < 256 ^ Z.of_nat (Z.to_nat (c_size C - 1))).
  { rewrite Z2Nat.id by lia. rewrite pow256 by lia. fold (mbits C). unfold raw. destruct neg; lia. }
  assert (Hfr : f_raw (f_encode C neg e m) = raw).
  { unfold f_raw, f_encode. fold P. fold raw. rewrite removelast_last. apply le_decode_encode. exact Hraw. }
  split; [|split].
  - unfold f_exp, f_encode. fold P. fold raw.
    assert (Hn : (1 <= Z.to_nat (c_size C - 1))%nat) by lia.
    destruct (le_encode (Z.to_nat (c_size C - 1)) raw) as [|x l] eqn:E.
    + apply (f_equal (@length Z)) in E. rewrite le_encode_length in E. cbn in E. lia.
    + destruct (exists_last (l := x :: l)) as [l' [y Ey]]; [discriminate|].
      rewrite Ey. rewrite <- app_assoc. cbn [app]. apply py_nth_m1.
  - unfold f_neg. rewrite Hfr. fold P. unfold raw. destruct neg; lia.
  - unfold f_man. rewrite Hfr. fold P. unfold raw. destruct neg.
    + replace (m - P + P) with (m - P + 1 * P) by lia. rewrite Z.mod_add by lia.
      rewrite Z.mod_small by lia. lia.
    + rewrite Z.add_0_r, Z.mod_small by lia. lia.
Qed.

Lemma f_encode_sval C neg e m : fmt_ok C -> 1 <= e < 256 -> 2 ^ (mbits C - 1) <= m < 2 ^ mbits C ->
  f_sval C (f_encode C neg e m) = (if neg then -1 else 1) * m * 2 ^ e.
Proof.
  intros HC He Hm. destruct (f_encode_fields C neg e m HC) as (H1 & H2 & H3); [unfold byte_ok; lia | exact Hm |].
  unfold f_sval, f_zero. rewrite H1, H2, H3. destruct (Z.eqb_spec e 0); [lia | reflexivity].
Qed.
