(* C29, bit layer of CAS images: reading the bits written for a tape gives back the tape. *)
From Coq Require Import ZArith List Bool Lia ZifyBool.
From PCB Require Import lib.Result lib.PyInt lib.Harness gen.Gen_cassette model.Cassette model.CassetteBits
  proofs.Cassette_proofs.
Import ListNotations.
Open Scope Z_scope.
Ltac Zify.zify_post_hook ::= Z.to_euclidean_division_equations.

Definition block_ok (b : block) : Prop := length b = 256%nat /\ bytes_ok b.

(* ------------------------------------------------------------------------------------------------ bytes *)

Definition zrange (n : nat) : list Z := map Z.of_nat (seq 0 n).
Lemma zrange_in n z : 0 <= z < Z.of_nat n -> In z (zrange n).
Proof.
  intros H. unfold zrange. apply in_map_iff. exists (Z.to_nat z). split; [lia|]. apply in_seq. lia.
Qed.

Lemma byte_sweep : forallb (fun b => dec_bits (enc_byte b) 0 =? b) (zrange 256) = true.
Proof. vm_compute. reflexivity. Qed.

Lemma dec_enc_byte b : byte_ok b -> dec_bits (enc_byte b) 0 = b.
Proof.
  intros H. pose proof byte_sweep as S. rewrite forallb_forall in S.
  specialize (S b (zrange_in 256 b ltac:(unfold byte_ok in H; lia))). lia.
Qed.

Lemma read_byte_enc b s : byte_ok b -> read_byte (enc_byte b ++ s) = Some (b, s).
Proof.
  intros H. unfold read_byte, enc_byte. cbn [map app length firstn skipn Nat.leb].
  f_equal. f_equal. exact (dec_enc_byte b H).
Qed.

Lemma read_bytes_enc : forall l s, bytes_ok l -> read_bytes (length l) (enc_bytes l ++ s) = Some (l, s).
Proof.
  induction l as [|b l IH]; intros s H; [reflexivity|]. inversion H; subst.
  unfold enc_bytes. cbn [flat_map length read_bytes]. rewrite <- app_assoc, read_byte_enc by assumption.
  fold (enc_bytes l). rewrite IH by assumption. reflexivity.
Qed.

(* ------------------------------------------------------------------------------------------------ CRC: only its range (two bytes) and determinism are used *)

Lemma crc_bit_range r : 0 <= cas_crc_bit r < 65536.
Proof.
  unfold cas_crc_bit. change 65535 with (Z.ones 16). rewrite Z.land_ones by lia.
  apply Z.mod_pos_bound. reflexivity.
Qed.

Lemma iter8_range : forall n r, 0 <= r < 65536 -> 0 <= iter8 n r < 65536.
Proof. induction n as [|n IH]; intros r H; [exact H|]. cbn [iter8]. apply IH, crc_bit_range. Qed.

Lemma crc_byte_range r d : 0 <= crc_byte r d < 65536.
Proof. unfold crc_byte. cbn [iter8]. apply (iter8_range 7), crc_bit_range. Qed.

Lemma fold_crc_range : forall data r, 0 <= r < 65536 -> 0 <= fold_left crc_byte data r < 65536.
Proof. induction data as [|d data IH]; intros r H; [exact H|]. cbn [fold_left]. apply IH, crc_byte_range. Qed.

Lemma lxor_range16 a b : 0 <= a < 65536 -> 0 <= b < 65536 -> 0 <= Z.lxor a b < 65536.
Proof.
  intros Ha Hb. assert (H0 : 0 <= Z.lxor a b) by (apply Z.lxor_nonneg; lia). split; [exact H0|].
  destruct (Z.eq_dec (Z.lxor a b) 0) as [E|E]; [lia|].
  change 65536 with (2 ^ 16). apply Z.log2_lt_pow2; [lia|].
  pose proof (Z.log2_lxor a b ltac:(lia) ltac:(lia)) as Hl.
  assert (La : Z.log2 a < 16).
  { destruct (Z.eq_dec a 0) as [->|Na]; [reflexivity|]. apply Z.log2_lt_pow2; lia. }
  assert (Lb : Z.log2 b < 16).
  { destruct (Z.eq_dec b 0) as [->|Nb]; [reflexivity|]. apply Z.log2_lt_pow2; lia. }
  lia.
Qed.

Lemma crc_range data : 0 <= crc data < 65536.
Proof.
  unfold crc. apply lxor_range16; [apply fold_crc_range; unfold cas_crc_init; lia|unfold cas_crc_final; lia].
Qed.

(* ------------------------------------------------------------------------------------------------ blocks *)

Lemma read_block_enc b s : block_ok b -> read_block (enc_block b ++ s) = BOk b s.
Proof.
  intros [Hl Hb]. pose proof (crc_range b) as Hc. unfold read_block, enc_block. rewrite block_spec, <- Hl.
  rewrite <- app_assoc, read_bytes_enc by exact Hb.
  cbn [read_bytes]. rewrite <- app_assoc, read_byte_enc by (unfold byte_ok; lia).
  rewrite read_byte_enc by (unfold byte_ok; lia).
  destruct (crc b / 256 * 256 + crc b mod 256 =? crc b) eqn:E; [reflexivity|lia].
Qed.

Lemma read_blocks_enc : forall bs s, Forall block_ok bs ->
  read_blocks (length bs) (flat_map enc_block bs ++ s) = BOk bs s.
Proof.
  induction bs as [|b bs IH]; intros s H; [reflexivity|]. inversion H; subst.
  cbn [flat_map length read_blocks]. rewrite <- app_assoc, read_block_enc by assumption.
  rewrite IH by assumption. reflexivity.
Qed.

(* ------------------------------------------------------------------------------------------------ leader and trailer *)

Lemma enc_bytes_ff n : enc_bytes (repeat 255 n) = repeat true (8 * n).
Proof.
  induction n as [|n IH]; [reflexivity|]. unfold enc_bytes in *. cbn [repeat flat_map]. rewrite IH.
  replace (8 * S n)%nat with (8 + 8 * n)%nat by lia. reflexivity.
Qed.

Lemma count_ones_run : forall k s n, count_ones (repeat true k ++ false :: s) n = Some (n + Z.of_nat k, s).
Proof.
  induction k as [|k IH]; intros s n.
  - cbn. f_equal. f_equal. lia.
  - cbn [repeat app count_ones]. rewrite IH. f_equal. f_equal. lia.
Qed.

Lemma read_leader_run k s fuel : cas_min_leader_bits <= Z.of_nat k ->
  read_leader (S fuel) (repeat true (S k) ++ false :: enc_byte cas_sync_byte ++ s) = Some s.
Proof.
  intros Hk. cbn [repeat app read_leader skip_to_one]. rewrite count_ones_run.
  destruct (cas_min_leader_bits <=? 0 + Z.of_nat k) eqn:E; [|lia].
  rewrite read_byte_enc by (unfold byte_ok, cas_sync_byte; lia). rewrite Z.eqb_refl. reflexivity.
Qed.

Lemma read_leader_enc s fuel : read_leader (S fuel) (enc_leader ++ s) = Some s.
Proof.
  replace (enc_leader ++ s) with (repeat true (S 2047) ++ false :: enc_byte cas_sync_byte ++ s).
  - apply read_leader_run. unfold cas_min_leader_bits. lia.
  - unfold enc_leader. rewrite enc_bytes_ff, <- app_assoc. reflexivity.
Qed.

Lemma read_trailer_run : forall k s, read_trailer (repeat true k ++ false :: s) = s.
Proof. induction k as [|k IH]; intros s; [reflexivity|]. cbn [repeat app read_trailer]. apply IH. Qed.

(* ------------------------------------------------------------------------------------------------ records and tapes *)

Theorem read_record_enc r s : Forall block_ok r -> read_record (length r) (enc_record r ++ s) = BOk r s.
Proof.
  intros H. unfold read_record, enc_record. rewrite <- app_assoc, read_leader_enc.
  rewrite <- app_assoc, read_blocks_enc by exact H.
  unfold enc_trailer. rewrite <- app_assoc. cbn [app]. rewrite read_trailer_run. reflexivity.
Qed.

Theorem read_records_enc : forall t s, Forall (Forall block_ok) t ->
  read_records (map (@length block) t) (enc_tape t ++ s) = BOk t s.
Proof.
  induction t as [|r t IH]; intros s H; [reflexivity|]. inversion H; subst.
  unfold enc_tape in *. cbn [flat_map map read_records]. rewrite <- app_assoc, read_record_enc by assumption.
  rewrite IH by assumption. reflexivity.
Qed.

(* a corrupted check word is rejected (the only integrity statement made: the stored CRC is compared) *)
Lemma read_block_bad_crc b c s : block_ok b -> 0 <= c < 65536 -> c <> crc b ->
  read_block (enc_bytes b ++ enc_byte (c / 256) ++ enc_byte (c mod 256) ++ s) = BCrc.
Proof.
  intros [Hl Hb] Hc Hne. unfold read_block. rewrite block_spec, <- Hl, read_bytes_enc by exact Hb.
  cbn [read_bytes]. rewrite read_byte_enc by (unfold byte_ok; lia).
  rewrite read_byte_enc by (unfold byte_ok; lia).
  destruct (c / 256 * 256 + c mod 256 =? crc b) eqn:E; [lia|reflexivity].
Qed.

(* ------------------------------------------------------------------------------------------------ the records the record-level writer produces are made of proper blocks *)

Lemma last_byte_ok d : bytes_ok d -> byte_ok (last d 0).
Proof.
  induction 1 as [|c l Hc Hl IH]; [unfold byte_ok; cbn; lia|].
  destruct l; [exact Hc|exact IH].
Qed.

Lemma pad_block_ok d : bytes_ok d -> (0 < length d <= 256)%nat -> block_ok (pad_block d).
Proof.
  intros Hb Hl. split; [apply pad_block_length; exact Hl|].
  unfold pad_block. apply Forall_app. split; [exact Hb|].
  apply Forall_forall. intros x Hx. apply repeat_spec in Hx. subst. apply last_byte_ok, Hb.
Qed.

Lemma blocks_of_ok : forall fuel d, bytes_ok d -> Forall block_ok (blocks_of fuel d).
Proof.
  induction fuel as [|fuel IH]; intros d Hb; [constructor|].
  destruct d as [|z d'] eqn:Ed; [constructor|]. rewrite <- Ed in *.
  replace (blocks_of (S fuel) d) with (pad_block (firstn nblock d) :: blocks_of fuel (skipn nblock d))
    by (rewrite Ed; reflexivity).
  constructor.
  - apply pad_block_ok.
    + unfold bytes_ok in *. rewrite <- (firstn_skipn nblock d) in Hb. apply Forall_app in Hb. apply Hb.
    + rewrite firstn_length, block_spec, Ed. cbn [length]. lia.
  - apply IH. unfold bytes_ok in *. rewrite <- (firstn_skipn nblock d) in Hb. apply Forall_app in Hb. apply Hb.
Qed.

Lemma mk_record_ok d : bytes_ok d -> Forall block_ok (mk_record d).
Proof. apply blocks_of_ok. Qed.

(* ------------------------------------------------------------------------------------------------ whole tapes written by the record-level writer *)

Definition file_bytes_ok (f : wfile) : Prop := bytes_ok (wf_name f) /\ bytes_ok (wf_data f).

Lemma bytes_ok_app l1 l2 : bytes_ok l1 -> bytes_ok l2 -> bytes_ok (l1 ++ l2).
Proof. intros H1 H2. apply Forall_app. split; assumption. Qed.

Lemma bytes_ok_firstn n l : bytes_ok l -> bytes_ok (firstn n l).
Proof. intros H. unfold bytes_ok in *. rewrite <- (firstn_skipn n l) in H. apply Forall_app in H. apply H. Qed.

Lemma bytes_ok_skipn n l : bytes_ok l -> bytes_ok (skipn n l).
Proof. intros H. unfold bytes_ok in *. rewrite <- (firstn_skipn n l) in H. apply Forall_app in H. apply H. Qed.

Lemma bytes_ok_repeat c k : byte_ok c -> bytes_ok (repeat c k).
Proof. intros H. apply Forall_forall. intros x Hx. apply repeat_spec in Hx. subst. exact H. Qed.

Lemma le2_ok z : u16 z -> bytes_ok (le2 z).
Proof. unfold u16, le2. intros H. repeat constructor; unfold byte_ok; lia. Qed.

Lemma token_ok t : ftype_ok t -> byte_ok (token_of t).
Proof. intros [H|[H|[H|[H|H]]]]; subst; unfold byte_ok; cbn; lia. Qed.

Lemma header_bytes_ok name t len seg offs : bytes_ok name -> ftype_ok t -> u16 len -> u16 seg -> u16 offs ->
  bytes_ok (header_bytes name (token_of t) len seg offs).
Proof.
  intros Hn Ht Hl Hs Ho. unfold header_bytes. rewrite magic_spec, header_tail_spec.
  constructor; [unfold byte_ok; lia|]. unfold pad_name.
  repeat apply bytes_ok_app; try (apply le2_ok; assumption).
  - apply bytes_ok_firstn, Hn.
  - apply bytes_ok_repeat. unfold byte_ok. lia.
  - constructor; [apply token_ok, Ht|constructor].
  - repeat constructor; unfold byte_ok; lia.
Qed.

Lemma flush_aux_ok : forall fuel d rs b, bytes_ok d -> flush_aux fuel d = (rs, b) ->
  Forall (Forall block_ok) rs /\ bytes_ok b.
Proof.
  induction fuel as [|fuel IH]; intros d rs b Hd H.
  - cbn in H. inversion H; subst. split; [constructor|exact Hd].
  - cbn [flush_aux] in H. rewrite flush_stop_spec in H. destruct (zlen d <=? 255).
    + inversion H; subst. split; [constructor|exact Hd].
    + destruct (flush_aux fuel (skipn nchunk d)) as [rs' b'] eqn:F. inversion H; subst.
      destruct (IH _ _ _ (bytes_ok_skipn nchunk d Hd) F) as [H1 H2]. split; [|exact H2].
      constructor; [|exact H1]. apply mk_record_ok. rewrite full_prefix_spec. cbn [app].
      constructor; [unfold byte_ok; lia|apply bytes_ok_firstn, Hd].
Qed.

Lemma body_records_ok f : bytes_ok (wf_data f) -> Forall (Forall block_ok) (body_records f).
Proof.
  intros Hd. unfold body_records. destruct (is_binary (wf_type f)).
  - unfold binary_records. constructor; [apply mk_record_ok, Hd|constructor].
  - destruct (text_records_eq (wf_chunks f)) as (rs & b & F & Hb & E). rewrite E.
    assert (Hd' : bytes_ok (concat (wf_chunks f) ++ [0])).
    { apply bytes_ok_app; [exact Hd|]. repeat constructor; unfold byte_ok; lia. }
    destruct (flush_aux_ok _ _ _ _ Hd' F) as [H1 H2]. apply Forall_app. split; [exact H1|].
    constructor; [|constructor]. apply mk_record_ok. rewrite final_count_spec.
    constructor; [unfold byte_ok, zlen; lia|exact H2].
Qed.

Lemma files_records_ok : forall fs last, Forall file_ok fs -> Forall file_bytes_ok fs -> last_ok last ->
  Forall (Forall block_ok) (files_records last fs).
Proof.
  induction fs as [|f r IH]; intros last Hf Hb Hl; [constructor|].
  inversion Hf as [|? ? Hf1 Hfr]; inversion Hb as [|? ? [Hn Hd] Hbr]; subst.
  cbn [files_records]. apply Forall_app. split.
  - pose proof (hdr_fields_ok _ _ Hf1 Hl) as Hl'. unfold file_records.
    destruct (hdr_fields last f) as [[seg offs] len]. destruct Hl' as (H1 & H2 & H3).
    constructor; [|apply body_records_ok, Hd].
    apply mk_record_ok, header_bytes_ok; try assumption. apply Hf1.
  - apply IH; try assumption. apply hdr_fields_ok; assumption.
Qed.

(* the bits written for any tape of acceptable files read back as exactly its records *)
Theorem bits_tape_roundtrip fs : Forall file_ok fs -> Forall file_bytes_ok fs ->
  read_records (map (@length block) (write_tape fs)) (enc_tape (write_tape fs)) = BOk (write_tape fs) [].
Proof.
  intros Hf Hb. rewrite <- (app_nil_r (enc_tape (write_tape fs))). apply read_records_enc.
  rewrite write_tape_records by exact Hf. apply files_records_ok; try assumption.
  unfold last_ok, u16. lia.
Qed.
