(* C13 (extension): RENUM, SAVE/LOAD and MERGE inside edit histories keep the invariant WF *)
From Coq Require Import ZArith List Bool Lia Sorting.Sorted.
From PCB Require Import lib.Result lib.PyInt gen.Gen_program model.Program model.ProgramSpec model.Renum
  model.RenumSpec model.Edit proofs.Program_proofs proofs.Renum_proofs.
Import ListNotations.
Open Scope Z_scope.

(* the invariant of extended histories: WF, line numbers below 65535, no 0E byte right behind the terminator *)
Definition inv (c : cfg) (s : prog) : Prop :=
  exists ls tail, abs_ok c s ls tail /\ Forall (fun l : line => fst l < 65535) ls /\ tail_ok tail.

(* what the tokeniser / parser hand over *)
Definition store_ok (lb : list Z) : Prop := exists n b, lb = mk_linebuf n b /\ 0 <= n <= 65534 /\ wf_body b = true.
Definition dflt (o : option Z) (d : Z) : Z := match o with Some x => x | None => d end.
Definition xop_ok (c : cfg) (s : prog) (o : xop) : Prop :=
  match o with
  | XBase (OStore lb) => store_ok lb
  | XBase b => op_ok b
  | XRenum n st sp => 0 <= dflt n 10 /\ 0 <= dflt st 0 <= 65535
  | XSaveLoad => True
  | XMerge lbs | XLoadAscii lbs => Forall store_ok lbs
  end.

Lemma abs_ok_set_last c s ls tail l : abs_ok c s ls tail -> abs_ok c (set_last s l) ls tail.
Proof. intros [H1 H2 H3 H4 H5 H6 H7]. constructor; assumption. Qed.

Lemma store_ok_op lb : store_ok lb -> op_ok (OStore lb).
Proof. intros [n [b [E [Hn Hb]]]]. exists n, b. split; [exact E|]. split; [lia | exact Hb]. Qed.

Lemma spec_step_nums c tail ls o : Forall (fun l : line => fst l < 65535) ls ->
  (match o with OStore lb => store_ok lb | _ => True end) ->
  Forall (fun l : line => fst l < 65535) (spec_step c tail ls o).
Proof.
  intros H Ho. destruct o as [lb|fo to| |]; cbn [spec_step].
  - destruct Ho as [n [b [-> [Hn Hb]]]]. unfold mk_linebuf, le2. cbn [app]. rewrite unpack_le2.
    destruct (blank_body b); [apply Forall_filter; exact H|].
    destruct (cs c + size (spec_store n b ls) + 3 + zlen tail >? limit c); [exact H|].
    unfold spec_store. apply Forall_app. split; [apply Forall_filter; exact H|].
    constructor; [cbn [fst]; lia | apply Forall_filter; exact H].
  - apply Forall_filter. exact H.
  - constructor.
  - exact H.
Qed.

Lemma tail_ok_step tail o : tail_ok tail -> tail_ok (tail_step tail o).
Proof. destruct o; cbn; auto. Qed.

Lemma base_inv c s b : cfg_ok c -> inv c s -> xop_ok c s (XBase b) -> inv c (step_keep c s b).
Proof.
  intros Hc [ls [tail [Ha [Hn Ht]]]] Ho.
  assert (Hop : op_ok b) by (destruct b; [apply store_ok_op; exact Ho | exact Ho | exact Ho | exact Ho]).
  exists (spec_step c tail ls b), (tail_step tail b). split; [apply step_ok; assumption|].
  split; [apply spec_step_nums; [exact Hn | destruct b; [exact Ho | exact I | exact I | exact I]] | apply tail_ok_step; exact Ht].
Qed.

Lemma renum_cmd_defaults s tr n st sp :
  renum_cmd s tr n st sp = renum_cmd s tr (Some (dflt n 10)) (Some (dflt st 0)) (Some (dflt sp 10)).
Proof. destruct n, st, sp; reflexivity. Qed.

Lemma accepted_news ls new start step x : accepted ls new start step ->
  In x (seqz new step (length (rn_part start ls))) -> new <= x <= 65529.
Proof.
  intros [Hs [_ Hg]] Hx. destruct Hg as [Hg|Hg]; [rewrite Hg in Hx; contradiction|].
  apply (seqz_bounds step ltac:(lia)) in Hx. lia.
Qed.

Lemma renum_inv c s n st sp : cfg_ok c -> inv c s -> xop_ok c s (XRenum n st sp) ->
  inv c (fst (xstep c s (XRenum n st sp))).
Proof.
  intros Hc [ls [tail [Ha [Hn Ht]]]] [Hnew Hst]. cbn [xstep]. rewrite renum_cmd_defaults.
  destruct (renum_cmd s {| on_error := None; gosubs := [] |} (Some (dflt n 10)) (Some (dflt st 0)) (Some (dflt sp 10)))
    as [[r tr']|e|h|] eqn:E; cbn [fst].
  - pose proof (renum_cmd_accepts_only c s ls tail _ _ _ _ _ Ha Hn Hst E) as Hacc.
    destruct (renum_cmd_ok c s ls tail {| on_error := None; gosubs := [] |} _ _ _ Hc Ha Ht Hn Hnew Hst Hacc)
      as [r0 [H0 [_ [Habs _]]]].
    rewrite H0 in E. inversion E; subst r0.
    exists (fst (renum_lines c s ls (dflt n 10) (dflt st 0) (dflt sp 10))), tail. split; [exact Habs|]. split; [|exact Ht].
    destruct (renum_lines_shape c s ls (dflt n 10) (dflt st 0) (dflt sp 10) (a_sorted _ _ _ _ Ha) (a_bodies _ _ _ _ Ha)) as [Hnums _].
    apply Forall_forall. intros l Hl.
    assert (Hin : In (fst l) (nums (fst (renum_lines c s ls (dflt n 10) (dflt st 0) (dflt sp 10))))) by (unfold nums; apply in_map; exact Hl).
    rewrite Hnums in Hin. apply in_app_iff in Hin as [Hin|Hin].
    + unfold nums in Hin. apply in_map_iff in Hin as [l0 [E0 Hl0]]. apply in_keep in Hl0 as [Hl0 _].
      rewrite Forall_forall in Hn. specialize (Hn l0 Hl0). lia.
    + apply (accepted_news ls _ _ _ _ Hacc) in Hin. lia.
  - exists ls, tail. split; [apply abs_ok_set_last; exact Ha | split; assumption].
  - exists ls, tail. auto.
  - exists ls, tail. auto.
Qed.

Lemma rebuild_irrel c s1 s2 : code s1 = code s2 -> last_stored s1 = last_stored s2 ->
  rebuild_line_dict c s1 = rebuild_line_dict c s2.
Proof. intros H1 H2. unfold rebuild_line_dict. rewrite H1, H2. reflexivity. Qed.

Lemma tail_ok_snoc tail x : tail_ok tail -> (x =? tk_T_UINT) = false -> tail_ok (tail ++ [x]).
Proof. destruct tail; cbn; auto. Qed.

Lemma load_ok c s ls tail : cfg_ok c -> abs_ok c s ls tail -> cs c + zlen (code s) + 1 <= limit c ->
  abs_ok c (fst (xstep c s XSaveLoad)) ls (tail ++ [26]).
Proof.
  intros Hc Ha Hfit. cbn [xstep].
  assert (Hz : zlen (tl (code s) ++ [26]) = zlen (code s)).
  { rewrite (a_code _ _ _ _ Ha). unfold image. rewrite (img_cons (cs c) 0 ls tail). cbn [tl].
    rewrite zlen_app, !zlen_cons. change (zlen (@nil Z)) with 0. lia. }
  destruct (cs c + 1 + zlen (tl (code s) ++ [26]) >? limit c) eqn:Eo; [rewrite Z.gtb_ltb in Eo; lia|]. clear Hz Eo.
  pose proof Ha as [Hs Hnn Hb Hcode Hnd Hlines Hfit0].
  set (s0 := {| code := image (cs c) ls (tail ++ [26]); lines := index ls; last_stored := 0 |}).
  assert (Hlen : zlen (code s) = size ls + 3 + zlen tail).
  { rewrite Hcode. unfold image. rewrite zlen_app, zlen_lay, !zlen_cons. lia. }
  assert (Ha0 : abs_ok c s0 ls (tail ++ [26])).
  { constructor; cbn [code lines]; try assumption.
    - reflexivity.
    - apply index_NoDup; assumption.
    - intros k v. reflexivity.
    - rewrite zlen_app, zlen_cons. change (zlen (@nil Z)) with 0. lia. }
  assert (Hbytes : write_at 1 (tl (code s) ++ [26]) (code erase) = code s0).
  { cbn [s0 code]. rewrite Hcode. unfold image. rewrite (img_cons (cs c) 0 ls tail). cbn [tl].
    unfold write_at. cbn [erase code]. 
    assert (Hz : 2 <= zlen (img_tl (cs c) 0 ls tail ++ [26])).
    { rewrite zlen_app, zlen_cons. change (zlen (@nil Z)) with 0. pose proof (zlen_nonneg (img_tl (cs c) 0 ls tail)).
      assert (zlen (0 :: img_tl (cs c) 0 ls tail) = size ls + 3 + zlen tail).
      { rewrite <- (img_cons (cs c) 0 ls tail). rewrite zlen_app, zlen_lay, !zlen_cons. lia. }
      rewrite zlen_cons in H0. pose proof (size_nonneg ls). pose proof (zlen_nonneg tail). lia. }
    cbn [ztake]. change (1 <=? 0) with false. cbv iota. change (1 - 1) with 0. cbn [ztake]. change (0 <=? 0) with true. cbv iota.
    replace (zdrop (1 + zlen (img_tl (cs c) 0 ls tail ++ [26])) [0; 0; 0]) with (@nil Z).
    2:{ cbn [zdrop]. destruct (1 + zlen (img_tl (cs c) 0 ls tail ++ [26]) <=? 0) eqn:E1; [lia|].
        destruct (1 + zlen (img_tl (cs c) 0 ls tail ++ [26]) - 1 <=? 0) eqn:E2; [lia|].
        destruct (1 + zlen (img_tl (cs c) 0 ls tail ++ [26]) - 1 - 1 <=? 0) eqn:E3; [lia|]. reflexivity. }
    rewrite app_nil_r. cbn [app].
    change (0 :: img_tl (cs c) 0 ls tail ++ [26]) with ((0 :: img_tl (cs c) 0 ls tail) ++ [26]).
    rewrite <- (img_cons (cs c) 0 ls tail). rewrite <- app_assoc. reflexivity. }
  unfold load_image.
  rewrite (rebuild_irrel c {| code := write_at 1 (tl (code s) ++ [26]) (code erase); lines := lines erase; last_stored := 0 |} s0 Hbytes eq_refl).
  destruct (rebuild_ok c s0 ls (tail ++ [26]) Hc Ha0) as [s' [Hr [_ [_ [_ Habs']]]]].
  rewrite Hr. cbn [fst]. exact Habs'.
Qed.

Lemma erase_inv c : cfg_ok c -> inv c erase.
Proof. intros Hc. exists [], []. split; [apply erase_ok; exact Hc | split; [constructor | exact I]]. Qed.

Lemma load_inv c s : cfg_ok c -> inv c s -> xop_ok c s XSaveLoad -> inv c (fst (xstep c s XSaveLoad)).
Proof.
  intros Hc [ls [tail [Ha [Hn Ht]]]] _.
  assert (Hz : zlen (tl (code s) ++ [26]) = zlen (code s)).
  { rewrite (a_code _ _ _ _ Ha). unfold image. rewrite (img_cons (cs c) 0 ls tail). cbn [tl].
    rewrite zlen_app, !zlen_cons. change (zlen (@nil Z)) with 0. lia. }
  destruct (cs c + 1 + zlen (tl (code s) ++ [26]) >? limit c) eqn:Eo.
  - cbn [xstep]. rewrite Eo. cbn [fst]. apply erase_inv. exact Hc.
  - exists ls, (tail ++ [26]). rewrite Z.gtb_ltb in Eo.
    split; [apply load_ok; [exact Hc | exact Ha | lia]|]. split; [exact Hn|]. apply tail_ok_snoc; [exact Ht | reflexivity].
Qed.

Lemma merge_inv c lbs : cfg_ok c -> forall s, inv c s -> Forall store_ok lbs -> inv c (fst (merge_from c s lbs)).
Proof.
  intros Hc. induction lbs as [|lb r IH]; intros s Hi Hl; [exact Hi|].
  pose proof (Forall_inv Hl) as H1. pose proof (Forall_inv_tail Hl) as H2.
  cbn [merge_from]. pose proof (base_inv c s (OStore lb) Hc Hi H1) as Hb. unfold step_keep, step in Hb.
  destruct (store_line c s lb) as [s'| | |]; [apply IH; assumption | exact Hi | exact Hi | exact Hi].
Qed.

Lemma xstep_inv c s o : cfg_ok c -> inv c s -> xop_ok c s o -> inv c (fst (xstep c s o)).
Proof.
  intros Hc Hi Ho. destruct o as [b|n st sp| |lbs|lbs].
  - cbn [xstep fst]. apply base_inv; assumption.
  - apply renum_inv; assumption.
  - apply load_inv; assumption.
  - cbn [xstep]. apply merge_inv; assumption.
  - cbn [xstep]. apply merge_inv; [exact Hc | apply erase_inv; exact Hc | exact Ho].
Qed.

(* the side conditions along a history (they refer to the state reached so far) *)
Fixpoint xhist_ok (c : cfg) (s : prog) (ops : list xop) : Prop :=
  match ops with
  | [] => True
  | o :: r => xop_ok c s o /\ xhist_ok c (fst (xstep c s o)) r
  end.

Lemma xtrace_inv c ops : cfg_ok c -> forall s, inv c s -> xhist_ok c s ops -> inv c (snd (xtrace_from c s ops)).
Proof.
  intros Hc. induction ops as [|o r IH]; intros s Hi Hh; [exact Hi|].
  destruct Hh as [Ho Hr]. cbn [xtrace_from]. pose proof (xstep_inv c s o Hc Hi Ho) as Hi'.
  destruct (200 <=? snd (xstep c s o)); cbn [snd]; [exact Hi' | apply IH; assumption].
Qed.

Theorem xrun_inv c ops : cfg_ok c -> xhist_ok c erase ops -> inv c (xrun c ops).
Proof.
  intros Hc Hh. apply xtrace_inv; [exact Hc | | exact Hh].
  apply erase_inv. exact Hc.
Qed.
