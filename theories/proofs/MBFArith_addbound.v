(* MBFArith_addbound.v - Float.iadd / isub (C04): |result - exact sum| <= 2 ulp (in fact < 1 ulp; the bound
   of the property text is proved), Overflow only beyond the largest number, zero only for an exact zero or
   below the smallest number.  The alignment shift with its zero flag, the carry, the `man |= 1` tie breaker,
   the subtraction shortcut and the GW-BASIC rounding quirk `man &= carrymask + 0x7f` are all accounted for. *)
From Coq Require Import ZArith List Bool Lia ZifyBool.
From PCB Require Import lib.Result lib.PyInt lib.Harness lib.MBFPrims gen.Gen_mbf model.MBF
  proofs.MBF_base proofs.MBF_compare proofs.MBF_convert proofs.MBF_round proofs.MBFArith_norm
  proofs.MBFArith_mul proofs.MBFArith_add.
Import ListNotations.
Open Scope Z_scope.
Ltac Zify.zify_post_hook ::= Z.to_euclidean_division_equations.

(* ------------------------------------------------------------------------------------------------ *)
(* bit facts *)

Lemma lor1 x : 0 <= x -> Z.lor x 1 = if Z.odd x then x else x + 1.
Proof.
  intros Hx. apply Z.bits_inj'. intros n Hn. rewrite Z.lor_spec.
  destruct (Z.eq_dec n 0) as [->|Hn0].
  - rewrite Z.bit0_odd. change (Z.testbit 1 0) with true. rewrite orb_true_r.
    destruct (Z.odd x) eqn:E; rewrite Z.bit0_odd; [exact (eq_sym E)|].
    rewrite Z.odd_add. rewrite E. reflexivity.
  - assert (E1 : Z.testbit 1 n = false) by (apply Z.bits_above_log2; cbn; lia).
    rewrite E1, orb_false_r.
    destruct (Z.odd x) eqn:E; [reflexivity|].
    (* x even: x + 1 = 2 * (x / 2) + 1 and x = 2 * (x / 2) *)
    assert (Ex : x = 2 * (x / 2)).
    { rewrite <- Z.negb_even in E. apply negb_false_iff in E. apply Z.even_spec in E. destruct E as [k ->].
      rewrite Z.mul_comm, Z.div_mul by lia. lia. }
    rewrite Ex at 2. replace n with (Z.succ (n - 1)) by lia.
    rewrite Z.testbit_odd_succ by lia. rewrite Ex at 1. rewrite Z.testbit_even_succ by lia. reflexivity.
Qed.

Lemma land_low x d : 0 <= d -> Z.land x (Z.shiftl 1 d - 1) = x mod 2 ^ d.
Proof. intros Hd. rewrite Z.shiftl_mul_pow2, Z.mul_1_l by lia. apply land_ones_mod. lia. Qed.

Definition all_512 : list Z := map Z.of_nat (seq 0 512).
Lemma all_512_in x : 0 <= x < 512 -> In x all_512.
Proof.
  intros H. unfold all_512. apply in_map_iff. exists (Z.to_nat x). split; [apply Z2Nat.id; lia|].
  apply in_seq. lia.
Qed.

(* the quirk condition of _add_den: bits 8..6 are 0 1 0 and one of bits 4..0 is set *)
Lemma quirk_cond x : 0 <= x ->
  (Z.land x 448 =? 128) && negb (Z.land x 479 =? 128) = true ->
  128 <= x mod 256 /\ x mod 32 <> 0.
Proof.
  intros Hx Hc.
  assert (E448 : Z.land x 448 = Z.land (x mod 512) 448).
  { change 512 with (2 ^ 9). rewrite <- (land_ones_mod x 9) by lia. rewrite <- Z.land_assoc. reflexivity. }
  assert (E479 : Z.land x 479 = Z.land (x mod 512) 479).
  { change 512 with (2 ^ 9). rewrite <- (land_ones_mod x 9) by lia. rewrite <- Z.land_assoc. reflexivity. }
  rewrite E448, E479 in Hc.
  assert (Hsweep : forallb (fun r => negb ((Z.land r 448 =? 128) && negb (Z.land r 479 =? 128))
                                     || ((128 <=? r mod 256) && negb (r mod 32 =? 0))) all_512 = true)
    by (vm_compute; reflexivity).
  rewrite forallb_forall in Hsweep. assert (Hr : 0 <= x mod 512 < 512) by lia.
  specialize (Hsweep (x mod 512) (all_512_in _ Hr)).
  rewrite Hc in Hsweep. cbn [negb orb] in Hsweep.
  replace ((x mod 512) mod 256) with (x mod 256) in Hsweep by lia.
  replace ((x mod 512) mod 32) with (x mod 32) in Hsweep by lia.
  apply andb_true_iff in Hsweep as [H1 H2]. split; [lia|]. destruct (Z.eqb_spec (x mod 32) 0); [discriminate|assumption].
Qed.

(* disjoint bit patterns add up *)
Lemma lor_disjoint a b n : 0 <= n -> 0 <= b < 2 ^ n -> Z.lor (2 ^ n * a) b = 2 ^ n * a + b.
Proof.
  intros Hn Hb.
  assert (Hl : Z.land (2 ^ n * a) b = 0).
  { apply Z.bits_inj'. intros k Hk. rewrite Z.land_spec, Z.bits_0.
    destruct (Z.lt_ge_cases k n) as [Hlt|Hge].
    - rewrite Z.mul_comm, Z.mul_pow2_bits_low by lia. reflexivity.
    - rewrite <- (Z.mod_small b (2 ^ n)) by lia. rewrite Z.mod_pow2_bits_high by lia. apply andb_false_r. }
  rewrite Z.add_nocarry_lxor by exact Hl. symmetry. apply Z.lxor_lor. exact Hl.
Qed.

(* man & (carrymask + 0x7f): clear bit 7 *)
Lemma land_clear7 man n : 0 <= n -> 0 <= man < 2 ^ (n + 8) ->
  Z.land man (2 ^ (n + 8) - 256 + 127) = if 128 <=? man mod 256 then man - 128 else man.
Proof.
  intros Hn Hman.
  assert (Em : 2 ^ (n + 8) - 256 + 127 = Z.lor (2 ^ 8 * (2 ^ n - 1)) 127).
  { rewrite lor_disjoint by lia. rewrite (Z.add_comm n 8), pow2_split by lia. change (2 ^ 8) with 256. lia. }
  rewrite Em, Z.land_lor_distr_r.
  replace (2 ^ 8 * (2 ^ n - 1)) with (2 ^ (n + 8) - 256) by (rewrite (Z.add_comm n 8), pow2_split by lia; change (2 ^ 8) with 256; lia).
  rewrite land_carrymask by lia. rewrite land127.
  replace (256 * (man / 256)) with (2 ^ 8 * (man / 256)) by reflexivity.
  rewrite lor_disjoint by lia. change (2 ^ 8) with 256.
  destruct (Z.leb_spec 128 (man mod 256)); lia.
Qed.

(* ------------------------------------------------------------------------------------------------ *)
(* common setting: two non-zero operands, the left one not larger in magnitude *)

Lemma norm_no_overflow C neg o exp man r : 0 <= o -> norm_post C neg o exp man r -> exp <= 255 ->
  man < 2 ^ (mbits C + 8) - 128 -> r <> Host 5.
Proof.
  intros Ho (k & Hk & Hrange & Hk0 & Hpost) He Hm Er. cbv zeta in Hpost.
  destruct Hpost as [(_ & H255 & Hc)|[(b & E & _)|(b & E & _)]]; [|congruence|congruence].
  assert (k = 0) by lia. subst k. rewrite Z.pow_0_r, Z.mul_1_r in Hc. lia.
Qed.

(* exact alignment: Ml = 2^d * (Ml / 2^d) + Ml mod 2^d, and powers *)
Lemma align_facts Ml el er o : 0 <= el <= er -> 0 <= o -> 0 <= Ml ->
  let d := er - el in
  Ml = 2 ^ d * (Ml / 2 ^ d) + Ml mod 2 ^ d /\ 0 <= Ml mod 2 ^ d < 2 ^ d /\
  2 ^ (er + o) = 2 ^ d * 2 ^ (el + o) /\ 0 < 2 ^ d /\ 0 < 2 ^ (el + o) /\ 0 <= Ml / 2 ^ d.
Proof.
  intros He Ho HM d. assert (Hd : 0 < 2 ^ d) by (apply pow2_pos; unfold d; lia).
  split; [apply Z.div_mod; lia|]. split; [apply Z.mod_pos_bound; lia|].
  split; [rewrite <- pow2_split by (unfold d; lia); f_equal; unfold d; lia|].
  split; [exact Hd|]. split; [apply pow2_pos; lia|]. apply Z.div_pos; lia.
Qed.

Lemma carry_bounds man0 h q t : 0 < q -> 0 <= t < q -> 2 * h <= man0 <= 2 * h + 1 ->
  (h * (2 * q) <= man0 * q + t < (h + 1) * (2 * q)) /\ (0 < t -> h * (2 * q) < man0 * q + t).
Proof. intros Hq Ht Hh. split; [split|intros]; nia. Qed.

(* ------------------------------------------------------------------------------------------------ *)
(* equal signs: true addition *)

Lemma add_core_same C buf el ml er mr (n : bool) : fmt_ok C -> zlen buf = c_size C ->
  1 <= el <= 255 -> 1 <= er <= 255 -> el <= er ->
  2 ^ (mbits C - 1) <= ml < 2 ^ mbits C -> 2 ^ (mbits C - 1) <= mr < 2 ^ mbits C ->
  (exists e' man, add_core C el (256 * ml) n er (256 * mr) n = (e', man, n)) /\
  mag_post C false 2 1 (ml * 2 ^ el + mr * 2 ^ er) 1 n (norm3 C buf (add_core C el (256 * ml) n er (256 * mr) n)).
Proof.
  intros HC Hlen Hel Her Hle Hml Hmr. pose proof (mbits_ge C HC) as Hg.
  set (P := 2 ^ (mbits C - 1)) in *. assert (HP : 0 < P) by (apply pow2_pos; lia).
  assert (H2P : 2 ^ mbits C = 2 * P) by (apply pow2_pred; lia). rewrite H2P in Hml, Hmr.
  assert (E7 : 2 ^ (mbits C + 7) = 256 * P).
  { unfold P. replace (mbits C + 7) with (8 + (mbits C - 1)) by lia. rewrite pow2_split by lia. reflexivity. }
  assert (E8 : 2 ^ (mbits C + 8) = 512 * P).
  { unfold P. replace (mbits C + 8) with (9 + (mbits C - 1)) by lia. rewrite pow2_split by lia. reflexivity. }
  set (o := OFF). assert (Ho : 0 <= o) by (unfold o, OFF; lia).
  destruct (align_facts (256 * ml) el er o ltac:(lia) Ho ltac:(lia)) as (Hdm & Hrem & Hpw & Hpd & Hpel & Hq0).
  cbv zeta in *. set (d := er - el) in *. set (Ml' := 256 * ml / 2 ^ d) in *. set (rem := (256 * ml) mod 2 ^ d) in *.
  (* the aligned left mantissa is at most the right magnitude class *)
  assert (HMl' : Ml' < 512 * P) by (clear - Hdm Hrem Hpd Hml HP; nia).
  unfold add_core. cbv zeta. rewrite eqb_reflx. cbn [negb andb]. rewrite andb_false_r. cbv iota.
  rewrite land_low by (unfold d; lia). fold d. fold rem.
  rewrite Z.shiftr_div_pow2 by (unfold d; lia). fold d. fold Ml'.
  rewrite (ok_den_upper C HC), E8.
  set (man0 := Ml' + 256 * mr).
  assert (Hman0 : 256 * P <= man0 < 1024 * P) by (unfold man0; lia).
  (* exact sum on the offset scale *)
  set (Nm := ml * 2 ^ el + mr * 2 ^ er).
  set (S := 2 ^ (o + 8)). assert (HS : 0 < S) by (apply pow2_pos; lia).
  assert (Ho8 : S = 256 * 2 ^ o) by (unfold S; rewrite Z.add_comm, pow2_split by lia; reflexivity).
  assert (Hpo : 0 < 2 ^ o) by (apply pow2_pos; lia).
  assert (Eel : 2 ^ (el + o) = 2 ^ el * 2 ^ o) by (apply pow2_split; lia).
  assert (Eer : 2 ^ (er + o) = 2 ^ er * 2 ^ o) by (apply pow2_split; lia).
  assert (HNS : Nm * S = man0 * 2 ^ (er + o) + rem * 2 ^ (el + o)).
  { unfold Nm, man0. rewrite Ho8. rewrite Hpw at 1.
    replace ((Ml' + 256 * mr) * (2 ^ d * 2 ^ (el + o))) with (2 ^ d * Ml' * 2 ^ (el + o) + 256 * mr * (2 ^ d * 2 ^ (el + o))) by lia.
    rewrite <- Hpw. replace (2 ^ d * Ml') with (256 * ml - rem) by lia. rewrite Eel, Eer. lia. }
  assert (Hremlt : rem * 2 ^ (el + o) < 2 ^ (er + o)) by (rewrite Hpw; apply Z.mul_lt_mono_pos_r; lia).
  (* the two branches of the carry give (e', man1) with  man1 * 2^(e'+o) <= Nm S < (man1 + 1) * 2^(e'+o)  *)
  assert (Hcarry : exists e' man1, (if man0 >=? 512 * P then (er + 1, Z.shiftr man0 1) else (er, man0)) = (e', man1) /\
            er <= e' <= er + 1 /\ 256 * P <= man1 < 512 * P /\
            man1 * 2 ^ (e' + o) <= Nm * S < (man1 + 1) * 2 ^ (e' + o) /\
            (rem = 0 -> man1 * 2 ^ (e' + o) <= Nm * S < man1 * 2 ^ (e' + o) + 2 ^ (e' + o)) /\
            (rem <> 0 -> man1 * 2 ^ (e' + o) < Nm * S)).
  { assert (Ht0 : 0 <= rem * 2 ^ (el + o)) by (apply Z.mul_nonneg_nonneg; lia).
    assert (Htp : rem <> 0 -> 0 < rem * 2 ^ (el + o)) by (intros; apply Z.mul_pos_pos; lia).
    assert (Hq : 0 < 2 ^ (er + o)) by (apply pow2_pos; lia).
    destruct (Z.geb_spec man0 (512 * P)) as [Hc|Hc].
    - exists (er + 1), (man0 / 2). rewrite Z.shiftr_div_pow2 by lia. change (2 ^ 1) with 2.
      split; [reflexivity|]. split; [lia|]. split; [lia|].
      replace (er + 1 + o) with (er + o + 1) by lia. rewrite pow2_S by lia. rewrite HNS.
      assert (Hh : 2 * (man0 / 2) <= man0 <= 2 * (man0 / 2) + 1) by lia.
      destruct (carry_bounds man0 (man0 / 2) (2 ^ (er + o)) (rem * 2 ^ (el + o)) Hq ltac:(lia) Hh) as (B1 & B2).
      split; [exact B1|]. split; [intros _; lia|]. intros Hr. apply B2. apply Htp. exact Hr.
    - exists er, man0. split; [reflexivity|]. split; [lia|]. split; [lia|]. rewrite HNS.
      split; [lia|]. split; [intros _; lia|]. intros Hr. specialize (Htp Hr). lia. }
  destruct Hcarry as (e' & man1 & Ecar & He' & Hm1 & Hbr & Hbr0 & Hbr1).
  destruct (if man0 >=? 512 * P then (er + 1, Z.shiftr man0 1) else (er, man0)) as [e'' man1'] eqn:Eif.
  injection Ecar as -> ->.
  (* the tie breaker *)
  set (man := if negb (rem =? 0) then Z.lor man1 1 else man1).
  assert (Hman : 256 * P <= man < 512 * P /\ Z.abs (Nm * S - man * 2 ^ (e' + o)) < 2 ^ (e' + o)).
  { unfold man. set (q := 2 ^ (e' + o)) in *. assert (0 < q) by (unfold q; apply pow2_pos; lia).
    destruct (Z.eqb_spec rem 0) as [Er|Er]; cbn [negb].
    - split; [lia|]. specialize (Hbr0 Er). lia.
    - rewrite lor1 by lia. specialize (Hbr1 Er). destruct (Z.odd man1) eqn:Eo.
      + split; [lia|]. lia.
      + assert (man1 <> 512 * P - 1).
        { intro E. rewrite E in Eo. replace (512 * P - 1) with (1 + 2 * (256 * P - 1)) in Eo by lia.
          rewrite Z.odd_add_mul_2 in Eo. discriminate. }
        split; [lia|]. lia. }
  destruct Hman as [Hmr' Herr].
  rewrite andb_true_r. fold man.
  split; [exists e', man; reflexivity|].
  unfold norm3.
  assert (Hm0 : 0 < man < c_den_upper C) by (rewrite (ok_den_upper C HC), E8; lia).
  pose proof (normalise_val C buf e' man n o HC Hlen Hm0 ltac:(lia) Ho) as Hnp.
  set (r := mbf_normalise C buf e' man n) in *.
  assert (HSD : S * 1 = 2 ^ (o + 8) * 1) by reflexivity.
  assert (Hk0 : forall k, (2 ^ (mbits C + 7) - 1 <= man -> k = 0) -> k = 0) by (intros k H; apply H; rewrite E7; lia).
  assert (HA := norm_partA C false 2 1 Nm 1 n o e' man r S 1 HC Ho HS ltac:(lia) ltac:(lia) HSD ltac:(lia) ltac:(lia) Hnp).
  assert (HBC := norm_partBC C Nm 1 n o e' man r S 1 HC Ho HS ltac:(lia) ltac:(lia) HSD ltac:(lia) Hnp).
  assert (HA' : forall b0, r = Ok b0 -> buf_ok C b0 /\
            (if f_zero b0 then Nm < 2 ^ mbits C * 1
             else f_neg C b0 = n /\ err_ok false (1 * Z.abs (f_mag C b0 * 1 - Nm)) (2 * 2 ^ f_exp b0 * 1))).
  { apply HA.
    - intros k _ _ Hk _. rewrite (Hk0 k Hk). rewrite Z.sub_0_r, !Z.mul_1_r. cbn [err_ok].
      assert (0 < 2 ^ (e' + o)) by (apply pow2_pos; lia). lia.
    - intros k _ _ Hk Hek. rewrite (Hk0 k Hk) in Hek. lia. }
  assert (HBC' : (match r return Prop with
                  | Host x => x = 5 /\ (2 ^ mbits C - 1) * 2 ^ 255 * 1 < Nm
                  | Ok _ => True
                  | _ => False
                  end) /\ (2 ^ mbits C * 2 ^ 255 * 1 <= Nm -> r = Host 5)).
  { apply HBC.
    - intros k _ _ Hk. rewrite (Hk0 k Hk). rewrite Z.pow_0_r, !Z.mul_1_r.
      assert (0 < 2 ^ (e' + o)) by (apply pow2_pos; lia). lia.
    - intros k _ _ Hk. rewrite (Hk0 k Hk). rewrite Z.pow_0_r, !Z.mul_1_r.
      assert (0 < 2 ^ (e' + o)) by (apply pow2_pos; lia). lia. }
  destruct HBC' as [HB HCv]. split; [|exact HCv].
  destruct r as [b0|e0|x0|]; try contradiction.
  - specialize (HA' b0 eq_refl). destruct HA' as [Hok Hrest]. split; [exact Hok|].
    destruct (f_zero b0); [exact Hrest|]. exact Hrest.
  - exact HB.
Qed.

(* the same with the sharper bound that really holds for true additions: less than one unit in the last place *)
Lemma add_core_same_strict C buf el ml er mr (n : bool) : fmt_ok C -> zlen buf = c_size C ->
  1 <= el <= 255 -> 1 <= er <= 255 -> el <= er ->
  2 ^ (mbits C - 1) <= ml < 2 ^ mbits C -> 2 ^ (mbits C - 1) <= mr < 2 ^ mbits C ->
  (exists e' man, add_core C el (256 * ml) n er (256 * mr) n = (e', man, n)) /\
  mag_post C true 1 1 (ml * 2 ^ el + mr * 2 ^ er) 1 n (norm3 C buf (add_core C el (256 * ml) n er (256 * mr) n)).
Proof.
  intros HC Hlen Hel Her Hle Hml Hmr. pose proof (mbits_ge C HC) as Hg.
  set (P := 2 ^ (mbits C - 1)) in *. assert (HP : 0 < P) by (apply pow2_pos; lia).
  assert (H2P : 2 ^ mbits C = 2 * P) by (apply pow2_pred; lia). rewrite H2P in Hml, Hmr.
  assert (E7 : 2 ^ (mbits C + 7) = 256 * P).
  { unfold P. replace (mbits C + 7) with (8 + (mbits C - 1)) by lia. rewrite pow2_split by lia. reflexivity. }
  assert (E8 : 2 ^ (mbits C + 8) = 512 * P).
  { unfold P. replace (mbits C + 8) with (9 + (mbits C - 1)) by lia. rewrite pow2_split by lia. reflexivity. }
  set (o := OFF). assert (Ho : 0 <= o) by (unfold o, OFF; lia).
  destruct (align_facts (256 * ml) el er o ltac:(lia) Ho ltac:(lia)) as (Hdm & Hrem & Hpw & Hpd & Hpel & Hq0).
  cbv zeta in *. set (d := er - el) in *. set (Ml' := 256 * ml / 2 ^ d) in *. set (rem := (256 * ml) mod 2 ^ d) in *.
  (* the aligned left mantissa is at most the right magnitude class *)
  assert (HMl' : Ml' < 512 * P) by (clear - Hdm Hrem Hpd Hml HP; nia).
  unfold add_core. cbv zeta. rewrite eqb_reflx. cbn [negb andb]. rewrite andb_false_r. cbv iota.
  rewrite land_low by (unfold d; lia). fold d. fold rem.
  rewrite Z.shiftr_div_pow2 by (unfold d; lia). fold d. fold Ml'.
  rewrite (ok_den_upper C HC), E8.
  set (man0 := Ml' + 256 * mr).
  assert (Hman0 : 256 * P <= man0 < 1024 * P) by (unfold man0; lia).
  (* exact sum on the offset scale *)
  set (Nm := ml * 2 ^ el + mr * 2 ^ er).
  set (S := 2 ^ (o + 8)). assert (HS : 0 < S) by (apply pow2_pos; lia).
  assert (Ho8 : S = 256 * 2 ^ o) by (unfold S; rewrite Z.add_comm, pow2_split by lia; reflexivity).
  assert (Hpo : 0 < 2 ^ o) by (apply pow2_pos; lia).
  assert (Eel : 2 ^ (el + o) = 2 ^ el * 2 ^ o) by (apply pow2_split; lia).
  assert (Eer : 2 ^ (er + o) = 2 ^ er * 2 ^ o) by (apply pow2_split; lia).
  assert (HNS : Nm * S = man0 * 2 ^ (er + o) + rem * 2 ^ (el + o)).
  { unfold Nm, man0. rewrite Ho8. rewrite Hpw at 1.
    replace ((Ml' + 256 * mr) * (2 ^ d * 2 ^ (el + o))) with (2 ^ d * Ml' * 2 ^ (el + o) + 256 * mr * (2 ^ d * 2 ^ (el + o))) by lia.
    rewrite <- Hpw. replace (2 ^ d * Ml') with (256 * ml - rem) by lia. rewrite Eel, Eer. lia. }
  assert (Hremlt : rem * 2 ^ (el + o) < 2 ^ (er + o)) by (rewrite Hpw; apply Z.mul_lt_mono_pos_r; lia).
  (* the two branches of the carry give (e', man1) with  man1 * 2^(e'+o) <= Nm S < (man1 + 1) * 2^(e'+o)  *)
  assert (Hcarry : exists e' man1, (if man0 >=? 512 * P then (er + 1, Z.shiftr man0 1) else (er, man0)) = (e', man1) /\
            er <= e' <= er + 1 /\ 256 * P <= man1 < 512 * P /\
            man1 * 2 ^ (e' + o) <= Nm * S < (man1 + 1) * 2 ^ (e' + o) /\
            (rem = 0 -> man1 * 2 ^ (e' + o) <= Nm * S < man1 * 2 ^ (e' + o) + 2 ^ (e' + o)) /\
            (rem <> 0 -> man1 * 2 ^ (e' + o) < Nm * S)).
  { assert (Ht0 : 0 <= rem * 2 ^ (el + o)) by (apply Z.mul_nonneg_nonneg; lia).
    assert (Htp : rem <> 0 -> 0 < rem * 2 ^ (el + o)) by (intros; apply Z.mul_pos_pos; lia).
    assert (Hq : 0 < 2 ^ (er + o)) by (apply pow2_pos; lia).
    destruct (Z.geb_spec man0 (512 * P)) as [Hc|Hc].
    - exists (er + 1), (man0 / 2). rewrite Z.shiftr_div_pow2 by lia. change (2 ^ 1) with 2.
      split; [reflexivity|]. split; [lia|]. split; [lia|].
      replace (er + 1 + o) with (er + o + 1) by lia. rewrite pow2_S by lia. rewrite HNS.
      assert (Hh : 2 * (man0 / 2) <= man0 <= 2 * (man0 / 2) + 1) by lia.
      destruct (carry_bounds man0 (man0 / 2) (2 ^ (er + o)) (rem * 2 ^ (el + o)) Hq ltac:(lia) Hh) as (B1 & B2).
      split; [exact B1|]. split; [intros _; lia|]. intros Hr. apply B2. apply Htp. exact Hr.
    - exists er, man0. split; [reflexivity|]. split; [lia|]. split; [lia|]. rewrite HNS.
      split; [lia|]. split; [intros _; lia|]. intros Hr. specialize (Htp Hr). lia. }
  destruct Hcarry as (e' & man1 & Ecar & He' & Hm1 & Hbr & Hbr0 & Hbr1).
  destruct (if man0 >=? 512 * P then (er + 1, Z.shiftr man0 1) else (er, man0)) as [e'' man1'] eqn:Eif.
  injection Ecar as -> ->.
  (* the tie breaker *)
  set (man := if negb (rem =? 0) then Z.lor man1 1 else man1).
  assert (Hman : 256 * P <= man < 512 * P /\ Z.abs (Nm * S - man * 2 ^ (e' + o)) < 2 ^ (e' + o)).
  { unfold man. set (q := 2 ^ (e' + o)) in *. assert (0 < q) by (unfold q; apply pow2_pos; lia).
    destruct (Z.eqb_spec rem 0) as [Er|Er]; cbn [negb].
    - split; [lia|]. specialize (Hbr0 Er). lia.
    - rewrite lor1 by lia. specialize (Hbr1 Er). destruct (Z.odd man1) eqn:Eo.
      + split; [lia|]. lia.
      + assert (man1 <> 512 * P - 1).
        { intro E. rewrite E in Eo. replace (512 * P - 1) with (1 + 2 * (256 * P - 1)) in Eo by lia.
          rewrite Z.odd_add_mul_2 in Eo. discriminate. }
        split; [lia|]. lia. }
  destruct Hman as [Hmr' Herr].
  rewrite andb_true_r. fold man.
  split; [exists e', man; reflexivity|].
  unfold norm3.
  assert (Hm0 : 0 < man < c_den_upper C) by (rewrite (ok_den_upper C HC), E8; lia).
  pose proof (normalise_val C buf e' man n o HC Hlen Hm0 ltac:(lia) Ho) as Hnp.
  set (r := mbf_normalise C buf e' man n) in *.
  assert (HSD : S * 1 = 2 ^ (o + 8) * 1) by reflexivity.
  assert (Hk0 : forall k, (2 ^ (mbits C + 7) - 1 <= man -> k = 0) -> k = 0) by (intros k H; apply H; rewrite E7; lia).
  assert (HA := norm_partA C true 1 1 Nm 1 n o e' man r S 1 HC Ho HS ltac:(lia) ltac:(lia) HSD ltac:(lia) ltac:(lia) Hnp).
  assert (HBC := norm_partBC C Nm 1 n o e' man r S 1 HC Ho HS ltac:(lia) ltac:(lia) HSD ltac:(lia) Hnp).
  assert (HA' : forall b0, r = Ok b0 -> buf_ok C b0 /\
            (if f_zero b0 then Nm < 2 ^ mbits C * 1
             else f_neg C b0 = n /\ err_ok true (1 * Z.abs (f_mag C b0 * 1 - Nm)) (1 * 2 ^ f_exp b0 * 1))).
  { apply HA.
    - intros k _ _ Hk _. rewrite (Hk0 k Hk). rewrite Z.sub_0_r, !Z.mul_1_r. cbn [err_ok].
      assert (0 < 2 ^ (e' + o)) by (apply pow2_pos; lia). lia.
    - intros k _ _ Hk Hek. rewrite (Hk0 k Hk) in Hek. lia. }
  assert (HBC' : (match r return Prop with
                  | Host x => x = 5 /\ (2 ^ mbits C - 1) * 2 ^ 255 * 1 < Nm
                  | Ok _ => True
                  | _ => False
                  end) /\ (2 ^ mbits C * 2 ^ 255 * 1 <= Nm -> r = Host 5)).
  { apply HBC.
    - intros k _ _ Hk. rewrite (Hk0 k Hk). rewrite Z.pow_0_r, !Z.mul_1_r.
      assert (0 < 2 ^ (e' + o)) by (apply pow2_pos; lia). lia.
    - intros k _ _ Hk. rewrite (Hk0 k Hk). rewrite Z.pow_0_r, !Z.mul_1_r.
      assert (0 < 2 ^ (e' + o)) by (apply pow2_pos; lia). lia. }
  destruct HBC' as [HB HCv]. split; [|exact HCv].
  destruct r as [b0|e0|x0|]; try contradiction.
  - specialize (HA' b0 eq_refl). destruct HA' as [Hok Hrest]. split; [exact Hok|].
    destruct (f_zero b0); [exact Hrest|]. exact Hrest.
  - exact HB.
Qed.

Lemma k0_of_big man k P : 0 < P -> 256 * P <= man -> 0 <= k -> man * 2 ^ k < 512 * P -> k = 0.
Proof.
  intros HP Hm Hk Hlt. destruct (Z.eq_dec k 0); [assumption|exfalso].
  assert (2 <= 2 ^ k) by (change 2 with (2 ^ 1) at 1; apply pow2_le; lia).
  assert (man * 2 <= man * 2 ^ k) by (apply Z.mul_le_mono_nonneg_l; lia). lia.
Qed.

Lemma k_le1 man k P : 0 < P -> 128 * P <= man -> 0 <= k -> man * 2 ^ k < 512 * P -> k <= 1 /\ 2 ^ k <= 2.
Proof.
  intros HP Hm Hk Hlt.
  assert (k <= 1).
  { destruct (Z.le_gt_cases k 1) as [|Hgt1]; [assumption|exfalso].
    assert (2 ^ 2 <= 2 ^ k) by (apply pow2_le; lia). change (2 ^ 2) with 4 in *.
    assert (man * 4 <= man * 2 ^ k) by (apply Z.mul_le_mono_nonneg_l; lia). lia. }
  split; [assumption|]. change 2 with (2 ^ 1) at 2. apply pow2_le. lia.
Qed.

(* ------------------------------------------------------------------------------------------------ *)
(* opposite signs: subtraction of the smaller magnitude from the larger *)

Lemma mag_post_nooverflow C strict w den Nm Dn neg r :
  Nm < 2 ^ mbits C * 2 ^ 255 * Dn -> r <> Host 5 ->
  (forall x, r = Host x -> x = 5) -> r <> OutOfFuel -> (forall e, r <> Err e) ->
  (forall b, r = Ok b -> buf_ok C b /\
     if f_zero b then Nm < 2 ^ mbits C * Dn
     else f_neg C b = neg /\ err_ok strict (den * Z.abs (f_mag C b * Dn - Nm)) (w * 2 ^ f_exp b * Dn)) ->
  mag_post C strict w den Nm Dn neg r.
Proof.
  intros Hsmall Hno Hhost Hfuel Herr Hok. split; [|intros; lia].
  destruct r as [b|e|x|].
  - apply Hok. reflexivity.
  - exfalso. apply (Herr e). reflexivity.
  - exfalso. apply Hno. rewrite (Hhost x eq_refl). reflexivity.
  - exfalso. apply Hfuel. reflexivity.
Qed.

Lemma norm_post_shape C neg o exp man r : norm_post C neg o exp man r ->
  (forall x, r = Host x -> x = 5) /\ r <> OutOfFuel /\ (forall e, r <> Err e).
Proof.
  intros (k & _ & _ & _ & Hpost). cbv zeta in Hpost.
  destruct Hpost as [(E & _)|[(b & E & _)|(b & E & _)]]; subst r; repeat split; try congruence.
Qed.

Lemma add_core_opp C buf el ml (nl : bool) er mr (nr : bool) : fmt_ok C -> zlen buf = c_size C ->
  1 <= el <= 255 -> 1 <= er <= 255 ->
  2 ^ (mbits C - 1) <= ml < 2 ^ mbits C -> 2 ^ (mbits C - 1) <= mr < 2 ^ mbits C ->
  Bool.eqb nl nr = false -> (el < er \/ (el = er /\ ml <= mr)) ->
  mag_post C false 2 1 (mr * 2 ^ er - ml * 2 ^ el) 1 nr (norm3 C buf (add_core C el (256 * ml) nl er (256 * mr) nr))
  /\ norm3 C buf (add_core C el (256 * ml) nl er (256 * mr) nr) <> Host 5.
Proof.
  intros HC Hlen Hel Her Hml Hmr Eb Hord. pose proof (mbits_ge C HC) as Hg.
  set (P := 2 ^ (mbits C - 1)) in *. assert (HP : 0 < P) by (apply pow2_pos; lia).
  assert (HP15 : 32768 <= P) by (unfold P; change 32768 with (2 ^ 15); apply pow2_le; lia).
  assert (H2P : 2 ^ mbits C = 2 * P) by (apply pow2_pred; lia). rewrite H2P in Hml, Hmr.
  assert (E7 : 2 ^ (mbits C + 7) = 256 * P).
  { unfold P. replace (mbits C + 7) with (8 + (mbits C - 1)) by lia. rewrite pow2_split by lia. reflexivity. }
  assert (E8 : 2 ^ (mbits C + 8) = 512 * P).
  { unfold P. replace (mbits C + 8) with (9 + (mbits C - 1)) by lia. rewrite pow2_split by lia. reflexivity. }
  set (o := OFF). assert (Ho : 0 <= o) by (unfold o, OFF; lia).
  destruct (align_facts (256 * ml) el er o ltac:(lia) Ho ltac:(lia)) as (Hdm & Hrem & Hpw & Hpd & Hpel & Hq0).
  cbv zeta in *. set (d := er - el) in *. set (Ml' := 256 * ml / 2 ^ d) in *. set (rem := (256 * ml) mod 2 ^ d) in *.
  assert (Hd0 : 0 <= d) by (unfold d; lia).
  (* the aligned left mantissa does not exceed the right one *)
  assert (HMl'le : Ml' <= 256 * mr).
  { destruct Hord as [Hlt|[Heq Hle]].
    - assert (2 <= 2 ^ d) by (change 2 with (2 ^ 1) at 1; apply pow2_le; unfold d; lia).
      clear - Hdm Hrem H Hml Hmr HP. nia.
    - assert (Ed : d = 0) by (unfold d; lia). unfold Ml'. rewrite Ed. change (2 ^ 0) with 1. rewrite Z.div_1_r. lia. }
  set (Nm := mr * 2 ^ er - ml * 2 ^ el).
  set (S := 2 ^ (o + 8)). assert (HS : 0 < S) by (apply pow2_pos; lia).
  assert (Ho8 : S = 256 * 2 ^ o) by (unfold S; rewrite Z.add_comm, pow2_split by lia; reflexivity).
  assert (Hpo : 0 < 2 ^ o) by (apply pow2_pos; lia).
  assert (Eel : 2 ^ (el + o) = 2 ^ el * 2 ^ o) by (apply pow2_split; lia).
  assert (Eer : 2 ^ (er + o) = 2 ^ er * 2 ^ o) by (apply pow2_split; lia).
  assert (Hper : 0 < 2 ^ (er + o)) by (apply pow2_pos; lia).
  set (man0 := 256 * mr - Ml').
  assert (HNS : Nm * S = man0 * 2 ^ (er + o) - rem * 2 ^ (el + o)).
  { unfold Nm, man0. rewrite Ho8. rewrite Hpw at 1.
    replace ((256 * mr - Ml') * (2 ^ d * 2 ^ (el + o))) with (256 * mr * (2 ^ d * 2 ^ (el + o)) - 2 ^ d * Ml' * 2 ^ (el + o)) by lia.
    rewrite <- Hpw. replace (2 ^ d * Ml') with (256 * ml - rem) by lia. rewrite Eel, Eer. lia. }
  assert (Ht0 : 0 <= rem * 2 ^ (el + o)) by (apply Z.mul_nonneg_nonneg; lia).
  assert (Hremlt : rem * 2 ^ (el + o) < 2 ^ (er + o)) by (rewrite Hpw; apply Z.mul_lt_mono_pos_r; lia).
  (* the exact difference is non-negative and below the largest number *)
  assert (HNm0 : 0 <= Nm).
  { assert (0 <= Nm * S); [|clear - H HS; nia]. rewrite HNS.
    destruct (Z.eq_dec man0 0) as [E0|E0].
    - (* equal mantissas after alignment: then d = 0 and the remainder is 0 *)
      assert (Ed : d = 0).
      { destruct (Z.eq_dec d 0) as [|Hd]; [assumption|exfalso].
        assert (2 <= 2 ^ d) by (change 2 with (2 ^ 1) at 1; apply pow2_le; lia).
        unfold man0 in E0. clear - Hdm Hrem H Hml Hmr HP E0. nia. }
      assert (rem = 0) by (unfold rem; rewrite Ed; change (2 ^ 0) with 1; apply Z.mod_1_r). subst rem. lia.
    - assert (1 <= man0) by (unfold man0 in *; lia).
      assert (1 * 2 ^ (er + o) <= man0 * 2 ^ (er + o)) by (apply Z.mul_le_mono_nonneg_r; lia). lia. }
  assert (HNmlt : Nm < 2 ^ mbits C * 2 ^ 255 * 1).
  { rewrite H2P, Z.mul_1_r. unfold Nm.
    assert (2 ^ er <= 2 ^ 255) by (apply pow2_le; lia). assert (0 < 2 ^ er) by (apply pow2_pos; lia).
    assert (0 < 2 ^ el) by (apply pow2_pos; lia).
    assert (mr * 2 ^ er <= mr * 2 ^ 255) by (apply Z.mul_le_mono_nonneg_l; lia).
    assert (mr * 2 ^ 255 < 2 * P * 2 ^ 255) by (apply Z.mul_lt_mono_pos_r; lia).
    assert (0 <= ml * 2 ^ el) by (apply Z.mul_nonneg_nonneg; lia). lia. }
  assert (HSD : S * 1 = 2 ^ (o + 8) * 1) by reflexivity.
  (* common tail: _normalise of (er, man, nr) with man close to the exact difference *)
  assert (Htail : forall man, 0 <= man < 512 * P - 128 ->
            (man = 0 -> Nm = 0) ->
            (forall k, 0 <= k -> man * 2 ^ k < 512 * P -> 0 <= er - k + o ->
               Z.abs (Nm * S - man * 2 ^ (er + o)) + 128 * 2 ^ (er - k + o) <= 512 * 2 ^ (er - k + o)) ->
            (forall k, 0 <= k -> 256 * P - 1 <= man * 2 ^ k < 512 * P -> er - k <= 0 ->
               man * 2 ^ (er + o) < 512 * P * 2 ^ o -> Nm * S < 512 * P * 2 ^ o) ->
            mag_post C false 2 1 Nm 1 nr (mbf_normalise C buf er man nr) /\ mbf_normalise C buf er man nr <> Host 5).
  { intros man Hman Hman0 Hclose Hzero.
    destruct (Z.eq_dec man 0) as [E0|E0].
    { subst man. rewrite normalise_man0. split; [|discriminate].
      apply mag_post_zeros; [assumption | lia |]. rewrite (Hman0 eq_refl). rewrite H2P. lia. }
    assert (Hm0 : 0 < man < c_den_upper C) by (rewrite (ok_den_upper C HC), E8; lia).
    pose proof (normalise_val C buf er man nr o HC Hlen Hm0 ltac:(lia) Ho) as Hnp.
    set (r := mbf_normalise C buf er man nr) in *.
    assert (Hno : r <> Host 5) by (apply (norm_no_overflow C nr o er man r Ho Hnp ltac:(lia)); rewrite E8; lia).
    split; [|exact Hno].
    destruct (norm_post_shape _ _ _ _ _ _ Hnp) as (Hh & Hf & He).
    apply mag_post_nooverflow; try assumption.
    assert (HA := norm_partA C false 2 1 Nm 1 nr o er man r S 1 HC Ho HS ltac:(lia) ltac:(lia) HSD ltac:(lia) ltac:(lia) Hnp).
    intros b0 Eb0.
    assert (H1 : forall k : Z, 0 <= k -> 2 ^ (mbits C + 7) - 1 <= man * 2 ^ k < 2 ^ (mbits C + 8) ->
      (2 ^ (mbits C + 7) - 1 <= man -> k = 0) -> 0 <= er - k + o ->
      err_ok false (1 * (Z.abs (Nm * S - man * 2 ^ (er + o) * 1) + 128 * 2 ^ (er - k + o) * 1)) (2 * 256 * 2 ^ (er - k + o) * 1)).
    { intros k Hk Hr' _ Hpos. rewrite E8 in Hr'. rewrite !Z.mul_1_r. cbn [err_ok].
      specialize (Hclose k Hk (proj2 Hr') Hpos). lia. }
    assert (H2 : forall k : Z, 0 <= k -> 2 ^ (mbits C + 7) - 1 <= man * 2 ^ k < 2 ^ (mbits C + 8) ->
      (2 ^ (mbits C + 7) - 1 <= man -> k = 0) -> er - k <= 0 ->
      man * 2 ^ (er + o) < 2 ^ (mbits C + 8) * 2 ^ o -> Nm * S < 2 ^ (mbits C + 8) * 2 ^ o * 1).
    { intros k Hk Hr' _ Hek HV. rewrite E7, E8 in *. rewrite Z.mul_1_r. apply (Hzero k Hk Hr' Hek HV). }
    destruct (HA H1 H2 b0 Eb0) as [Hok Hrest]. split; [exact Hok|]. destruct (f_zero b0); exact Hrest. }
  unfold add_core. cbv zeta. rewrite Eb. cbn [negb andb].
  rewrite land_low by lia. fold d. fold rem.
  rewrite Z.shiftr_div_pow2 by lia. fold d. fold Ml'. rewrite !andb_true_r.
  destruct ((Ml' <? 128) || (Ml' =? 128) && (rem =? 0)) eqn:Esh.
  - (* shortcut: the right operand is returned; the left one is at most half a unit of its last place *)
    unfold norm3.
    assert (Hsmall : 2 ^ d * Ml' + rem <= 128 * 2 ^ d).
    { apply orb_true_iff in Esh as [H1|H1].
      - apply Z.ltb_lt in H1. assert (2 ^ d * Ml' <= 2 ^ d * 127) by (apply Z.mul_le_mono_nonneg_l; lia). lia.
      - apply andb_true_iff in H1 as [H1 H2]. apply Z.eqb_eq in H1, H2. rewrite H1, H2. lia. }
    assert (HV : 0 <= 256 * mr * 2 ^ (er + o) - Nm * S <= 128 * 2 ^ (er + o)).
    { rewrite HNS. unfold man0.
      replace (256 * mr * 2 ^ (er + o) - ((256 * mr - Ml') * 2 ^ (er + o) - rem * 2 ^ (el + o)))
        with (Ml' * 2 ^ (er + o) + rem * 2 ^ (el + o)) by lia.
      rewrite Hpw. replace (Ml' * (2 ^ d * 2 ^ (el + o)) + rem * 2 ^ (el + o)) with ((2 ^ d * Ml' + rem) * 2 ^ (el + o)) by lia.
      split; [apply Z.mul_nonneg_nonneg; lia|].
      replace (128 * (2 ^ d * 2 ^ (el + o))) with (128 * 2 ^ d * 2 ^ (el + o)) by lia.
      apply Z.mul_le_mono_nonneg_r; lia. }
    apply (Htail (256 * mr)); [lia | lia | |].
    + intros k Hk Hlt Hpos.
      assert (Ek : k = 0) by (apply (k0_of_big (256 * mr) k P); lia).
      subst k. rewrite Z.sub_0_r. lia.
    + intros k Hk Hr' Hek. assert (k = 0) by (apply (k0_of_big (256 * mr) k P); lia). lia.
  - (* true subtraction *)
    apply orb_false_iff in Esh as [Hs1 Hs2]. apply Z.ltb_ge in Hs1.
    rewrite !andb_false_r. cbv iota. fold man0.
    set (qc := (Z.land man0 448 =? 128) && negb (Z.land man0 479 =? 128)).
    set (manq := if qc then Z.land man0 (c_carrymask C + 127) else man0).
    assert (Hman0 : 0 <= man0 <= 512 * P - 256 - 128) by (unfold man0; lia).
    (* facts about the alignment distance *)
    assert (HD1 : d <= 1 -> rem = 0 /\ man0 mod 128 = 0).
    { intros Hd1. assert (Ed : d = 0 \/ d = 1) by lia. unfold rem, man0, Ml'.
      destruct Ed as [-> | ->]; [change (2 ^ 0) with 1 | change (2 ^ 1) with 2]; split; lia. }
    assert (Hq : manq = man0 \/ (qc = true /\ manq = man0 - 128 /\ man0 mod 32 <> 0 /\ 128 <= man0)).
    { unfold manq. destruct qc eqn:Eq; [right|left; reflexivity].
      destruct (quirk_cond man0 ltac:(lia) Eq) as [Q1 Q2].
      rewrite (ok_carrymask C HC). rewrite land_clear7 by (rewrite ?E8; lia).
      destruct (Z.leb_spec 128 (man0 mod 256)); [|lia]. repeat split; try assumption; lia. }
    assert (HqD : qc = true -> 4 <= d).
    { intros Eq. destruct Hq as [E|(_ & _ & Hm32 & _)].
      - (* manq = man0 although the quirk fired is impossible to tell apart: use the condition directly *)
        destruct (quirk_cond man0 ltac:(lia) Eq) as [_ Q2].
        destruct (Z.le_gt_cases 4 d) as [|Hlt]; [assumption|exfalso]. apply Q2.
        assert (Ed : d = 0 \/ d = 1 \/ d = 2 \/ d = 3) by lia. unfold man0, Ml'.
        destruct Ed as [-> | [-> | [-> | ->]]]; [change (2 ^ 0) with 1 | change (2 ^ 1) with 2 | change (2 ^ 2) with 4 | change (2 ^ 3) with 8]; lia.
      - destruct (Z.le_gt_cases 4 d) as [|Hlt]; [assumption|exfalso]. apply Hm32.
        assert (Ed : d = 0 \/ d = 1 \/ d = 2 \/ d = 3) by lia. unfold man0, Ml'.
        destruct Ed as [-> | [-> | [-> | ->]]]; [change (2 ^ 0) with 1 | change (2 ^ 1) with 2 | change (2 ^ 2) with 4 | change (2 ^ 3) with 8]; lia. }
    assert (HD2 : 2 <= d -> 128 * P <= manq).
    { intros Hd2. destruct Hq as [E|(Eq & E & _ & _)].
      - rewrite E. assert (4 <= 2 ^ d) by (change 4 with (2 ^ 2); apply pow2_le; lia).
        unfold man0. clear - Hdm Hrem H Hml Hmr HP. nia.
      - rewrite E. specialize (HqD Eq). assert (16 <= 2 ^ d) by (change 16 with (2 ^ 4); apply pow2_le; lia).
        unfold man0. clear - Hdm Hrem H Hml Hmr HP HP15. nia. }
    assert (Hmq : man0 - 128 <= manq <= man0 /\ 0 <= manq) by (destruct Hq as [E|(_ & E & _ & ?)]; lia).
    unfold norm3. fold qc. fold manq.
    apply (Htail manq); [lia | | |].
    + (* a zero mantissa only for equal operands *)
      intros E0. assert (Em0 : man0 = 0).
      { destruct Hq as [E|(_ & E & Hm32 & _)]; [lia|]. exfalso. apply Hm32. replace man0 with 128 by lia. reflexivity. }
      assert (0 <= Nm * S <= 0); [|nia]. rewrite HNS, Em0. 
      assert (Ed : d = 0).
      { destruct (Z.eq_dec d 0) as [|Hd]; [assumption|exfalso].
        assert (2 <= 2 ^ d) by (change 2 with (2 ^ 1) at 1; apply pow2_le; lia).
        unfold man0 in Em0. clear - Hdm Hrem H Hml Hmr HP Em0. nia. }
      destruct (HD1 ltac:(lia)) as [Er _]. rewrite Er. lia.
    + intros k Hk Hlt Hpos.
      destruct (Z.le_gt_cases d 1) as [Hd1|Hd2].
      * destruct (HD1 Hd1) as [Er Hm128].
        assert (manq = man0).
        { destruct Hq as [E|(_ & _ & Hm32 & _)]; [assumption|exfalso]. apply Hm32. lia. }
        rewrite HNS, Er, H. rewrite Z.mul_0_l, Z.sub_0_r, Z.sub_diag. cbn [Z.abs].
        assert (0 < 2 ^ (er - k + o)) by (apply pow2_pos; lia). lia.
      * specialize (HD2 ltac:(lia)).
        assert (Hk1 : 2 ^ k <= 2) by (apply (k_le1 manq k P); lia).
        set (u := 2 ^ (er - k + o)) in *. assert (Hu : 0 < u) by (apply pow2_pos; lia).
        assert (Eu : 2 ^ (er + o) = 2 ^ k * u) by (unfold u; rewrite <- pow2_split by lia; f_equal; lia).
        assert (Habs : Z.abs (Nm * S - manq * 2 ^ (er + o)) <= 128 * 2 ^ (er + o)).
        { rewrite HNS. replace (man0 * 2 ^ (er + o) - rem * 2 ^ (el + o) - manq * 2 ^ (er + o))
            with ((man0 - manq) * 2 ^ (er + o) - rem * 2 ^ (el + o)) by lia.
          assert (0 <= (man0 - manq) * 2 ^ (er + o) <= 128 * 2 ^ (er + o)).
          { split; [apply Z.mul_nonneg_nonneg; lia | apply Z.mul_le_mono_nonneg_r; lia]. }
          lia. }
        rewrite Eu in Habs. assert (0 < 2 ^ k) by (apply pow2_pos; lia).
        assert (128 * (2 ^ k * u) <= 256 * u).
        { replace (128 * (2 ^ k * u)) with (128 * 2 ^ k * u) by lia. apply Z.mul_le_mono_nonneg_r; lia. }
        lia.
    + intros k Hk Hr' Hek HV.
      destruct (Z.le_gt_cases d 1) as [Hd1|Hd2].
      * destruct (HD1 Hd1) as [Er Hm128].
        assert (manq = man0).
        { destruct Hq as [E|(_ & _ & Hm32 & _)]; [assumption|exfalso]. apply Hm32. lia. }
        rewrite HNS, Er, Z.mul_0_l, Z.sub_0_r, <- H. exact HV.
      * exfalso. specialize (HD2 ltac:(lia)).
        assert (k <= 1) by (apply (k_le1 manq k P); lia).
        unfold d in Hd2. lia.
Qed.

(* ------------------------------------------------------------------------------------------------ *)
(* _add_den followed by _normalise, for any two operands given as (exponent byte, mantissa, sign) *)

Definition sv (e m : Z) (n : bool) : Z := if e =? 0 then 0 else (if n then -1 else 1) * m * 2 ^ e.

Definition sval_post' (C : fconst) (N : Z) (r : res (list Z)) : Prop :=
  (match r return Prop with
   | Host x => x = 5 /\ (2 ^ mbits C - 1) * 2 ^ 255 * 1 < Z.abs N
   | Ok b => buf_ok C b /\
             (if f_zero b then Z.abs N < 2 ^ mbits C * 1
              else err_ok false (1 * Z.abs (f_sval C b * 1 - N)) (2 * 2 ^ f_exp b * 1))
   | _ => False
   end) /\ (2 ^ mbits C * 2 ^ 255 * 1 <= Z.abs N -> r = Host 5).

Lemma mag_to_sval' C Nm (neg : bool) N r : 0 <= Nm -> N = (if neg then - Nm else Nm) ->
  mag_post C false 2 1 Nm 1 neg r -> sval_post' C N r.
Proof.
  intros HNm HN [H1 H2].
  assert (Habs : Z.abs N = Nm) by (destruct neg; lia).
  split; [|rewrite Habs; exact H2].
  destruct r as [b|e|x|]; try exact H1.
  - destruct H1 as [Hok Hrest]. split; [exact Hok|].
    destruct (f_zero b); [rewrite Habs; exact Hrest|].
    destruct Hrest as [Hn Herr]. rewrite f_sval_mag, Hn.
    replace (Z.abs ((if neg then - f_mag C b else f_mag C b) * 1 - N)) with (Z.abs (f_mag C b * 1 - Nm))
      by (destruct neg; lia).
    exact Herr.
  - rewrite Habs. exact H1.
Qed.

(* a triple that is already a normalised float: _normalise reproduces it exactly *)
Lemma norm3_exact C buf e m (n : bool) : fmt_ok C -> zlen buf = c_size C -> 0 <= e <= 255 ->
  2 ^ (mbits C - 1) <= m < 2 ^ mbits C ->
  sval_post' C (sv e m n) (mbf_normalise C buf e (256 * m) n).
Proof.
  intros HC Hlen He Hm. pose proof (mbits_ge C HC) as Hg.
  set (P := 2 ^ (mbits C - 1)) in *. assert (HP : 0 < P) by (apply pow2_pos; lia).
  assert (H2P : 2 ^ mbits C = 2 * P) by (apply pow2_pred; lia).
  unfold sv. destruct (Z.eqb_spec e 0) as [E0|E0].
  - subst e. rewrite normalise_exp0 by lia. destruct (zeros_ok C HC) as [Hok Hv]. split.
    + split; [exact Hok|].
      assert (Hz : f_zero (zeros (c_size C)) = true).
      { destruct (f_zero (zeros (c_size C))) eqn:E; [reflexivity|].
        pose proof (f_mag_pos C _ HC Hok E) as Hp. rewrite f_sval_mag in Hv. destruct (f_neg C (zeros (c_size C))); lia. }
      rewrite Hz. cbn [Z.abs]. rewrite H2P. lia.
    + intros Hbig. exfalso. cbn [Z.abs] in Hbig. assert (0 < 2 ^ 255) by (apply pow2_pos; lia). rewrite H2P in Hbig. nia.
  - rewrite normalise_norm_spec; [| assumption | assumption | lia |].
    2:{ rewrite (ok_den_mask C HC), (ok_den_upper C HC).
        replace (mbits C + 7) with (8 + (mbits C - 1)) by lia. replace (mbits C + 8) with (9 + (mbits C - 1)) by lia.
        rewrite !pow2_split by lia. fold P. change (2 ^ 8) with 256. change (2 ^ 9) with 512. rewrite H2P in Hm. lia. }
    unfold norm_result. rewrite round_even8_exact.
    destruct (Z.eqb_spec m (2 ^ mbits C)); [lia|]. destruct (Z.gtb_spec e 255); [lia|].
    destruct (f_encode_fields C n e m HC ltac:(unfold byte_ok; lia) Hm) as (F1 & F2 & F3).
    pose proof (f_encode_ok C n e m HC ltac:(unfold byte_ok; lia) Hm) as Hok.
    assert (Hsv : f_sval C (f_encode C n e m) = (if n then -1 else 1) * m * 2 ^ e) by (apply f_encode_sval; [assumption|lia|assumption]).
    split.
    + split; [exact Hok|]. unfold f_zero. rewrite F1. destruct (Z.eqb_spec e 0); [lia|].
      rewrite Hsv. cbn [err_ok]. rewrite Z.mul_1_r, Z.sub_diag. cbn [Z.abs].
      assert (0 < 2 ^ e) by (apply pow2_pos; lia). lia.
    + intros Hbig. exfalso.
      assert (Habs : Z.abs ((if n then -1 else 1) * m * 2 ^ e) = m * 2 ^ e).
      { assert (0 < 2 ^ e) by (apply pow2_pos; lia). assert (0 < m * 2 ^ e) by nia. destruct n; lia. }
      rewrite Habs, H2P in Hbig. rewrite H2P in Hm.
      assert (2 ^ e <= 2 ^ 255) by (apply pow2_le; lia). assert (0 < 2 ^ e) by (apply pow2_pos; lia).
      assert (m * 2 ^ e <= m * 2 ^ 255) by (apply Z.mul_le_mono_nonneg_l; lia).
      assert (m * 2 ^ 255 < 2 * P * 2 ^ 255) by (apply Z.mul_lt_mono_pos_r; lia). lia.
Qed.

Lemma norm3_exact_noov C buf e m (n : bool) : fmt_ok C -> zlen buf = c_size C -> 0 <= e <= 255 ->
  2 ^ (mbits C - 1) <= m < 2 ^ mbits C -> mbf_normalise C buf e (256 * m) n <> Host 5.
Proof.
  intros HC Hlen He Hm E. destruct (norm3_exact C buf e m n HC Hlen He Hm) as [H1 _]. rewrite E in H1.
  destruct H1 as [_ Hlt]. pose proof (mbits_ge C HC) as Hg.
  set (P := 2 ^ (mbits C - 1)) in *. assert (HP : 0 < P) by (apply pow2_pos; lia).
  assert (H2P : 2 ^ mbits C = 2 * P) by (apply pow2_pred; lia). rewrite H2P in *.
  unfold sv in Hlt. destruct (Z.eqb_spec e 0) as [E0|E0].
  - cbn [Z.abs] in Hlt. assert (0 < 2 ^ 255) by (apply pow2_pos; lia). nia.
  - assert (Habs : Z.abs ((if n then -1 else 1) * m * 2 ^ e) = m * 2 ^ e).
    { assert (0 < 2 ^ e) by (apply pow2_pos; lia). assert (0 < m * 2 ^ e) by nia. destruct n; lia. }
    rewrite Habs in Hlt.
    assert (2 ^ e <= 2 ^ 255) by (apply pow2_le; lia). assert (0 < 2 ^ e) by (apply pow2_pos; lia).
    assert (m * 2 ^ e <= m * 2 ^ 255) by (apply Z.mul_le_mono_nonneg_l; lia).
    assert (m * 2 ^ 255 <= (2 * P - 1) * 2 ^ 255) by (apply Z.mul_le_mono_nonneg_r; lia). lia.
Qed.

(* ordered pair of non-zero operands *)
Lemma add_core_sval C buf el ml (nl : bool) er mr (nr : bool) : fmt_ok C -> zlen buf = c_size C ->
  1 <= el <= 255 -> 1 <= er <= 255 ->
  2 ^ (mbits C - 1) <= ml < 2 ^ mbits C -> 2 ^ (mbits C - 1) <= mr < 2 ^ mbits C ->
  (el < er \/ (el = er /\ ml <= mr)) ->
  let t := add_core C el (256 * ml) nl er (256 * mr) nr in
  sval_post' C (sv el ml nl + sv er mr nr) (norm3 C buf t) /\
  (norm3 C buf t = Host 5 -> (let '(_, _, n) := t in n) = (sv el ml nl + sv er mr nr <? 0)).
Proof.
  intros HC Hlen Hel Her Hml Hmr Hord t. pose proof (mbits_ge C HC) as Hg.
  assert (HP : 0 < 2 ^ (mbits C - 1)) by (apply pow2_pos; lia).
  assert (Hpl : 0 < 2 ^ el) by (apply pow2_pos; lia). assert (Hpr : 0 < 2 ^ er) by (apply pow2_pos; lia).
  assert (HA : 0 < ml * 2 ^ el) by nia. assert (HB : 0 < mr * 2 ^ er) by nia.
  unfold sv. destruct (Z.eqb_spec el 0); [lia|]. destruct (Z.eqb_spec er 0); [lia|].
  destruct (Bool.eqb nl nr) eqn:Eb.
  - apply eqb_prop in Eb. subst nr.
    destruct (add_core_same C buf el ml er mr nl HC Hlen Hel Her ltac:(lia) Hml Hmr) as [(e' & man & Et) Hpost].
    fold t in Et, Hpost. split.
    + apply (mag_to_sval' C (ml * 2 ^ el + mr * 2 ^ er) nl); [lia | destruct nl; lia | exact Hpost].
    + intros _. rewrite Et. destruct nl; symmetry; [apply Z.ltb_lt | apply Z.ltb_ge]; lia.
  - destruct (add_core_opp C buf el ml nl er mr nr HC Hlen Hel Her Hml Hmr Eb Hord) as [Hpost Hno].
    fold t in Hpost, Hno. split; [|intros E; contradiction].
    assert (Hle : ml * 2 ^ el <= mr * 2 ^ er).
    { destruct Hord as [Hlt|[-> Hle]]; [|apply Z.mul_le_mono_nonneg_r; lia].
      assert (2 * 2 ^ el <= 2 ^ er) by (rewrite <- pow2_S by lia; apply pow2_le; lia).
      rewrite (pow2_pred (mbits C)) in Hml, Hmr by lia.
      assert (ml * 2 ^ el <= 2 * 2 ^ (mbits C - 1) * 2 ^ el) by (apply Z.mul_le_mono_nonneg_r; lia).
      assert (2 ^ (mbits C - 1) * (2 * 2 ^ el) <= mr * 2 ^ er) by (apply Z.mul_le_mono_nonneg; lia). lia. }
    apply (mag_to_sval' C (mr * 2 ^ er - ml * 2 ^ el) nr); [lia | | exact Hpost].
    destruct nl, nr; try discriminate; lia.
Qed.

Theorem add_den_sval C buf ea ma (na : bool) eb mb (nb : bool) : fmt_ok C -> zlen buf = c_size C ->
  0 <= ea <= 255 -> 0 <= eb <= 255 ->
  2 ^ (mbits C - 1) <= ma < 2 ^ mbits C -> 2 ^ (mbits C - 1) <= mb < 2 ^ mbits C ->
  let t := mbf_add_den C (ea, 256 * ma, na) (eb, 256 * mb, nb) in
  sval_post' C (sv ea ma na + sv eb mb nb) (norm3 C buf t) /\
  (norm3 C buf t = Host 5 -> (let '(_, _, n) := t in n) = (sv ea ma na + sv eb mb nb <? 0)).
Proof.
  intros HC Hlen Hea Heb Hma Hmb t. unfold t. rewrite add_den_unfold.
  destruct (Z.eqb_spec eb 0) as [Eb0|Eb0].
  - replace (sv eb mb nb) with 0 by (unfold sv; subst eb; reflexivity). rewrite Z.add_0_r. unfold norm3. split.
    + apply norm3_exact; assumption.
    + intros E. exfalso. apply (norm3_exact_noov C buf ea ma na HC Hlen Hea Hma E).
  - destruct (Z.eqb_spec ea 0) as [Ea0|Ea0].
    + replace (sv ea ma na) with 0 by (unfold sv; subst ea; reflexivity). rewrite Z.add_0_l. unfold norm3. split.
      * apply norm3_exact; assumption.
      * intros E. exfalso. apply (norm3_exact_noov C buf eb mb nb HC Hlen Heb Hmb E).
    + destruct ((ea >? eb) || (ea =? eb) && (256 * ma >? 256 * mb)) eqn:Esw.
      * rewrite (Z.add_comm (sv ea ma na)).
        apply add_core_sval; try assumption; lia.
      * apply add_core_sval; try assumption; lia.
Qed.

(* iadd / isub on buffers *)
Lemma sv_sval C b : sv (f_exp b) (f_man C b) (f_neg C b) = f_sval C b.
Proof. unfold sv, f_sval, f_zero. destruct (f_exp b =? 0); reflexivity. Qed.

Lemma sv_sval_neg C b : sv (f_exp b) (f_man C b) (negb (f_neg C b)) = - f_sval C b.
Proof. unfold sv, f_sval, f_zero. destruct (f_exp b =? 0), (f_neg C b); cbn [negb]; lia. Qed.

Theorem iadd_sval C a b : fmt_ok C -> buf_ok C a -> buf_ok C b ->
  sval_post' C (f_sval C a + f_sval C b) (mbf_iadd C a b) /\
  (mbf_iadd C a b = Host 5 ->
   (let '(_, _, n) := mbf_add_den C (mbf_denormalise C a) (mbf_denormalise C b) in n) = (f_sval C a + f_sval C b <? 0)).
Proof.
  intros HC Ha Hb. rewrite iadd_norm3, !denormalise_spec by assumption.
  rewrite <- (sv_sval C a), <- (sv_sval C b).
  apply add_den_sval; try assumption; try apply Ha; try apply f_man_bound; try assumption.
  - pose proof (f_exp_bound C a HC Ha). lia.
  - pose proof (f_exp_bound C b HC Hb). lia.
Qed.

Theorem isub_sval C a b : fmt_ok C -> buf_ok C a -> buf_ok C b ->
  sval_post' C (f_sval C a - f_sval C b) (mbf_isub C a b) /\
  (mbf_isub C a b = Host 5 ->
   (let '(_, _, n) := mbf_add_den C (mbf_denormalise C a) (let '(e, m, n) := mbf_denormalise C b in (e, m, negb n)) in n)
   = (f_sval C a - f_sval C b <? 0)).
Proof.
  intros HC Ha Hb. rewrite isub_norm3, !denormalise_spec by assumption.
  replace (f_sval C a - f_sval C b) with (f_sval C a + - f_sval C b) by lia.
  rewrite <- (sv_sval C a), <- (sv_sval_neg C b).
  apply add_den_sval; try assumption; try apply Ha; try apply f_man_bound; try assumption.
  - pose proof (f_exp_bound C a HC Ha). lia.
  - pose proof (f_exp_bound C b HC Hb). lia.
Qed.

(* ------------------------------------------------------------------------------------------------ *)
(* the rounding band above the largest number *)

Lemma band_pos m e M Dn N : 0 < Dn -> 1 <= M -> 1 <= e <= 255 -> 0 <= m <= M ->
  Z.abs (m * 2 ^ e * Dn - N) < 2 ^ e * Dn -> M * 2 ^ 255 * Dn < N -> m * 2 ^ e = M * 2 ^ 255.
Proof.
  intros HDn HM He Hm Herr Hbig.
  assert (Hpe : 0 < 2 ^ e) by (apply pow2_pos; lia).
  assert (Hlt : (M * 2 ^ 255 - 2 ^ e) * Dn < m * 2 ^ e * Dn) by lia.
  assert (Hs : M * 2 ^ 255 - 2 ^ e < m * 2 ^ e) by (apply (Z.mul_lt_mono_pos_r Dn); assumption).
  destruct (Z.eq_dec e 255) as [->|Hne].
  - assert ((M - 1) * 2 ^ 255 < m * 2 ^ 255) by lia.
    assert (M - 1 < m) by (apply (Z.mul_lt_mono_pos_r (2 ^ 255)); assumption).
    replace m with M by lia. reflexivity.
  - exfalso. assert (H2 : 2 * 2 ^ e <= 2 ^ 255).
    { rewrite <- pow2_S by lia. apply pow2_le. lia. }
    assert (m * 2 ^ e <= M * 2 ^ e) by (apply Z.mul_le_mono_nonneg_r; lia).
    assert (M * (2 * 2 ^ e) <= M * 2 ^ 255) by (apply Z.mul_le_mono_nonneg_l; lia).
    assert (2 ^ e <= M * 2 ^ e) by nia. lia.
Qed.

Lemma band_bytes C b N Dn : fmt_ok C -> buf_ok C b -> 0 < Dn -> f_zero b = false ->
  Z.abs (f_sval C b * Dn - N) < 2 ^ f_exp b * Dn -> (2 ^ mbits C - 1) * 2 ^ 255 * Dn < Z.abs N ->
  f_sval C b = (if N <? 0 then -1 else 1) * ((2 ^ mbits C - 1) * 2 ^ 255).
Proof.
  intros HC Hb HDn Hz Herr Hbig. pose proof (mbits_ge C HC) as Hg.
  pose proof (f_man_bound C b HC) as Hm. pose proof (f_exp_bound C b HC Hb) as He.
  assert (He1 : 1 <= f_exp b) by (unfold f_zero in Hz; lia).
  assert (HM : 1 <= 2 ^ mbits C - 1).
  { assert (2 <= 2 ^ mbits C) by (change 2 with (2 ^ 1) at 1; apply pow2_le; lia). lia. }
  assert (HP : 0 < 2 ^ (mbits C - 1)) by (apply pow2_pos; lia).
  assert (Hpe : 0 < 2 ^ f_exp b) by (apply pow2_pos; lia).
  assert (Hp255 : 0 < 2 ^ 255) by (apply pow2_pos; lia).
  set (M := 2 ^ mbits C - 1) in *. set (mm := f_man C b) in *. set (e := f_exp b) in *.
  assert (Hmag : f_mag C b = mm * 2 ^ e) by (unfold f_mag; rewrite Hz; reflexivity).
  assert (Hmpos : 0 < mm * 2 ^ e) by (apply Z.mul_pos_pos; lia).
  assert (HMD : 0 < M * 2 ^ 255 * Dn) by (apply Z.mul_pos_pos; [apply Z.mul_pos_pos; lia | lia]).
  rewrite f_sval_mag, Hmag in *.
  destruct (Z.ltb_spec N 0) as [Hneg|Hpos].
  - (* negative exact result *)
    destruct (f_neg C b).
    + rewrite <- (band_pos mm e M Dn (- N) HDn HM ltac:(lia) ltac:(lia)); [lia | | lia].
      replace (mm * 2 ^ e * Dn - - N) with (- (- (mm * 2 ^ e) * Dn - N)) by lia. rewrite Z.abs_opp. exact Herr.
    + exfalso. assert (0 < mm * 2 ^ e * Dn) by (apply Z.mul_pos_pos; lia).
      assert (2 ^ e * Dn <= 2 ^ 255 * Dn) by (apply Z.mul_le_mono_nonneg_r; [lia | apply pow2_le; lia]).
      assert (2 ^ 255 * Dn <= M * 2 ^ 255 * Dn) by nia. lia.
  - destruct (f_neg C b).
    + exfalso. assert (0 < mm * 2 ^ e * Dn) by (apply Z.mul_pos_pos; lia).
      assert (2 ^ e * Dn <= 2 ^ 255 * Dn) by (apply Z.mul_le_mono_nonneg_r; [lia | apply pow2_le; lia]).
      assert (2 ^ 255 * Dn <= M * 2 ^ 255 * Dn) by nia. lia.
    + rewrite (band_pos mm e M Dn N HDn HM ltac:(lia) ltac:(lia) Herr ltac:(lia)). lia.
Qed.


Lemma sv_bound C e m (n : bool) : fmt_ok C -> 0 <= e <= 255 -> 2 ^ (mbits C - 1) <= m < 2 ^ mbits C ->
  Z.abs (sv e m n) <= (2 ^ mbits C - 1) * 2 ^ 255 /\ (sv e m n < 0 -> n = true) /\ (0 < sv e m n -> n = false).
Proof.
  intros HC He Hm. pose proof (mbits_ge C HC). assert (0 < 2 ^ (mbits C - 1)) by (apply pow2_pos; lia).
  assert (0 < 2 ^ 255) by (apply pow2_pos; lia).
  unfold sv. destruct (Z.eqb_spec e 0).
  - split; [cbn [Z.abs]; nia|]. split; lia.
  - assert (0 < 2 ^ e) by (apply pow2_pos; lia). assert (2 ^ e <= 2 ^ 255) by (apply pow2_le; lia).
    assert (0 < m * 2 ^ e) by (apply Z.mul_pos_pos; lia).
    assert (m * 2 ^ e <= m * 2 ^ 255) by (apply Z.mul_le_mono_nonneg_l; lia).
    assert (m * 2 ^ 255 <= (2 ^ mbits C - 1) * 2 ^ 255) by (apply Z.mul_le_mono_nonneg_r; lia).
    destruct n; (split; [lia|]); split; intros; try reflexivity; lia.
Qed.

Lemma add_core_band C buf el ml (nl : bool) er mr (nr : bool) : fmt_ok C -> zlen buf = c_size C ->
  1 <= el <= 255 -> 1 <= er <= 255 ->
  2 ^ (mbits C - 1) <= ml < 2 ^ mbits C -> 2 ^ (mbits C - 1) <= mr < 2 ^ mbits C ->
  el <= er ->
  let N := sv el ml nl + sv er mr nr in
  forall b0, norm3 C buf (add_core C el (256 * ml) nl er (256 * mr) nr) = Ok b0 ->
  (2 ^ mbits C - 1) * 2 ^ 255 * 1 < Z.abs N ->
  f_sval C b0 = (if N <? 0 then -1 else 1) * ((2 ^ mbits C - 1) * 2 ^ 255).
Proof.
  intros HC Hlen Hel Her Hml Hmr Hle N b0 Eb Hbig.
  destruct (sv_bound C el ml nl HC ltac:(lia) Hml) as (Bl & Ll & Pl).
  destruct (sv_bound C er mr nr HC ltac:(lia) Hmr) as (Br & Lr & Pr).
  destruct (Bool.eqb nl nr) eqn:En.
  - apply eqb_prop in En. subst nr.
    destruct (add_core_same_strict C buf el ml er mr nl HC Hlen Hel Her Hle Hml Hmr) as [_ [Hpost _]].
    rewrite Eb in Hpost. destruct Hpost as [Hok Hrest].
    assert (Hpl : 0 < 2 ^ el) by (apply pow2_pos; lia). assert (Hpr : 0 < 2 ^ er) by (apply pow2_pos; lia).
    assert (HP : 0 < 2 ^ (mbits C - 1)) by (pose proof (mbits_ge C HC); apply pow2_pos; lia).
    assert (HA : 0 < ml * 2 ^ el) by (apply Z.mul_pos_pos; lia). assert (HB : 0 < mr * 2 ^ er) by (apply Z.mul_pos_pos; lia).
    assert (HN : N = if nl then - (ml * 2 ^ el + mr * 2 ^ er) else ml * 2 ^ el + mr * 2 ^ er).
    { unfold N, sv. destruct (Z.eqb_spec el 0); [lia|]. destruct (Z.eqb_spec er 0); [lia|]. destruct nl; lia. }
    assert (Habs : Z.abs N = ml * 2 ^ el + mr * 2 ^ er) by (rewrite HN; destruct nl; lia).
    destruct (f_zero b0) eqn:Hz.
    + exfalso. rewrite Habs in Hbig. assert (0 < 2 ^ 255) by (apply pow2_pos; lia).
      assert (2 ^ mbits C * 1 <= (2 ^ mbits C - 1) * 2 ^ 255 * 1 + 2 ^ 255); [nia|]. 
      assert (2 <= 2 ^ 255) by (change 2 with (2 ^ 1) at 1; apply pow2_le; lia).
      assert (1 <= 2 ^ mbits C - 1) by (pose proof (mbits_ge C HC); assert (2 <= 2 ^ mbits C) by (change 2 with (2 ^ 1) at 1; apply pow2_le; lia); lia).
      nia.
    + destruct Hrest as [Hn Herr]. cbn [err_ok] in Herr. rewrite !Z.mul_1_l in Herr.
      apply (band_bytes C b0 N 1 HC Hok ltac:(lia) Hz); [|exact Hbig].
      rewrite f_sval_mag, Hn, HN. destruct nl.
      * replace (- f_mag C b0 * 1 - - (ml * 2 ^ el + mr * 2 ^ er)) with (- (f_mag C b0 * 1 - (ml * 2 ^ el + mr * 2 ^ er))) by lia.
        rewrite Z.abs_opp. exact Herr.
      * exact Herr.
  - exfalso. assert (nl <> nr) by (intro; subst; rewrite eqb_reflx in En; discriminate).
    unfold N in Hbig.
    assert (Hopp : (sv el ml nl <= 0 /\ 0 <= sv er mr nr) \/ (0 <= sv el ml nl /\ sv er mr nr <= 0)).
    { destruct nl, nr; try congruence.
      - left. split; [destruct (Z.le_gt_cases (sv el ml true) 0); [assumption|specialize (Pl ltac:(lia)); discriminate] |
                      destruct (Z.le_gt_cases 0 (sv er mr false)); [assumption|specialize (Lr ltac:(lia)); discriminate]].
      - right. split; [destruct (Z.le_gt_cases 0 (sv el ml false)); [assumption|specialize (Ll ltac:(lia)); discriminate] |
                       destruct (Z.le_gt_cases (sv er mr true) 0); [assumption|specialize (Pr ltac:(lia)); discriminate]]. }
    lia.
Qed.

Theorem add_den_band C buf ea ma (na : bool) eb mb (nb : bool) : fmt_ok C -> zlen buf = c_size C ->
  0 <= ea <= 255 -> 0 <= eb <= 255 ->
  2 ^ (mbits C - 1) <= ma < 2 ^ mbits C -> 2 ^ (mbits C - 1) <= mb < 2 ^ mbits C ->
  let N := sv ea ma na + sv eb mb nb in
  forall b0, norm3 C buf (mbf_add_den C (ea, 256 * ma, na) (eb, 256 * mb, nb)) = Ok b0 ->
  (2 ^ mbits C - 1) * 2 ^ 255 * 1 < Z.abs N ->
  f_sval C b0 = (if N <? 0 then -1 else 1) * ((2 ^ mbits C - 1) * 2 ^ 255).
Proof.
  intros HC Hlen Hea Heb Hma Hmb N b0. rewrite add_den_unfold.
  destruct (sv_bound C ea ma na HC Hea Hma) as (Ba & _). destruct (sv_bound C eb mb nb HC Heb Hmb) as (Bb & _).
  destruct (Z.eqb_spec eb 0) as [Eb0|Eb0].
  - intros _ Hbig. exfalso. unfold N in Hbig. replace (sv eb mb nb) with 0 in Hbig by (unfold sv; subst eb; reflexivity). lia.
  - destruct (Z.eqb_spec ea 0) as [Ea0|Ea0].
    + intros _ Hbig. exfalso. unfold N in Hbig. replace (sv ea ma na) with 0 in Hbig by (unfold sv; subst ea; reflexivity). lia.
    + destruct ((ea >? eb) || (ea =? eb) && (256 * ma >? 256 * mb)) eqn:Esw.
      * unfold N. rewrite (Z.add_comm (sv ea ma na)). apply add_core_band; try assumption; lia.
      * apply add_core_band; try assumption; lia.
Qed.

Theorem iadd_band C a b b0 : fmt_ok C -> buf_ok C a -> buf_ok C b -> mbf_iadd C a b = Ok b0 ->
  (2 ^ mbits C - 1) * 2 ^ 255 * 1 < Z.abs (f_sval C a + f_sval C b) ->
  f_sval C b0 = (if f_sval C a + f_sval C b <? 0 then -1 else 1) * ((2 ^ mbits C - 1) * 2 ^ 255).
Proof.
  intros HC Ha Hb. rewrite iadd_norm3, !denormalise_spec by assumption.
  rewrite <- (sv_sval C a), <- (sv_sval C b).
  apply add_den_band; try assumption; try apply Ha; try apply f_man_bound; try assumption.
  - pose proof (f_exp_bound C a HC Ha). lia.
  - pose proof (f_exp_bound C b HC Hb). lia.
Qed.

Theorem isub_band C a b b0 : fmt_ok C -> buf_ok C a -> buf_ok C b -> mbf_isub C a b = Ok b0 ->
  (2 ^ mbits C - 1) * 2 ^ 255 * 1 < Z.abs (f_sval C a - f_sval C b) ->
  f_sval C b0 = (if f_sval C a - f_sval C b <? 0 then -1 else 1) * ((2 ^ mbits C - 1) * 2 ^ 255).
Proof.
  intros HC Ha Hb. rewrite isub_norm3, !denormalise_spec by assumption.
  replace (f_sval C a - f_sval C b) with (f_sval C a + - f_sval C b) by lia.
  rewrite <- (sv_sval C a), <- (sv_sval_neg C b).
  apply add_den_band; try assumption; try apply Ha; try apply f_man_bound; try assumption.
  - pose proof (f_exp_bound C a HC Ha). lia.
  - pose proof (f_exp_bound C b HC Hb). lia.
Qed.
