(* MBFArith_addbound.v - Float.iadd / isub (C04): |result - exact sum| <= 2 ulp (in fact < 1 ulp; the bound
   of the property text is proved), Overflow only beyond the largest number, zero only for an exact zero or
   below the smallest number.  The alignment shift with its zero flag, the carry, the `man |= 1` tie breaker,
   the subtraction shortcut and the GW-BASIC rounding quirk `man &= carrymask + 0x7f` are all accounted for. *)
From Coq Require Import ZArith List Bool Lia ZifyBool.
From PCB Require Import lib.Result lib.PyInt lib.Harness lib.MBFPrims gen.Gen_mbf model.MBF
  proofs.MBF_base proofs.MBF_compare proofs.MBF_convert proofs.MBF_round proofs.MBFArith_norm
  proofs.MBFArith_mul proofs.MBFArith_add.
Import ListNotations.
Open Scope Z_scope.
Ltac Zify.zify_post_hook ::= Z.to_euclidean_division_equations.

(* ------------------------------------------------------------------------------------------------ *)
(* bit facts *)

Lemma lor1 x : 0 <= x -> Z.lor x 1 = if Z.odd x then x else x + 1.
Proof.
  intros Hx. apply Z.bits_inj'. intros n Hn. rewrite Z.lor_spec.
  destruct (Z.eq_dec n 0) as [->|Hn0].
  - rewrite Z.bit0_odd. change (Z.testbit 1 0) with true. rewrite orb_true_r.
    destruct (Z.odd x) eqn:E; rewrite Z.bit0_odd; [exact (eq_sym E)|].
    rewrite Z.odd_add. rewrite E. reflexivity.
  - assert (E1 : Z.testbit 1 n = false) by (apply Z.bits_above_log2; cbn; lia).
    rewrite E1, orb_false_r.
    destruct (Z.odd x) eqn:E; [reflexivity|].
    (* x even: x + 1 = 2 * (x / 2) + 1 and x = 2 * (x / 2) *)
    assert (Ex : x = 2 * (x / 2)).
    { rewrite <- Z.negb_even in E. apply negb_false_iff in E. apply Z.even_spec in E. destruct E as [k ->].
      rewrite Z.mul_comm, Z.div_mul by lia. lia. }
    rewrite Ex at 2. replace n with (Z.succ (n - 1)) by lia.
    rewrite Z.testbit_odd_succ by lia. rewrite Ex at 1. rewrite Z.testbit_even_succ by lia. reflexivity.
Qed.

Lemma land_low x d : 0 <= d -> Z.land x (Z.shiftl 1 d - 1) = x mod 2 ^ d.
Proof. intros Hd. rewrite Z.shiftl_mul_pow2, Z.mul_1_l by lia. apply land_ones_mod. lia. Qed.

Definition all_512 : list Z := map Z.of_nat (seq 0 512).
Lemma all_512_in x : 0 <= x < 512 -> In x all_512.
Proof.
  intros H. unfold all_512. apply in_map_iff. exists (Z.to_nat x). split; [apply Z2Nat.id; lia|].
  apply in_seq. lia.
Qed.

(* the quirk condition of _add_den: bits 8..6 are 0 1 0 and one of bits 4..0 is set *)
Lemma quirk_cond x : 0 <= x ->
  (Z.land x 448 =? 128) && negb (Z.land x 479 =? 128) = true ->
  128 <= x mod 256 /\ x mod 32 <> 0.
Proof.
  intros Hx Hc.
  assert (E448 : Z.land x 448 = Z.land (x mod 512) 448).
  { change 512 with (2 ^ 9). rewrite <- (land_ones_mod x 9) by lia. rewrite <- Z.land_assoc. reflexivity. }
  assert (E479 : Z.land x 479 = Z.land (x mod 512) 479).
  { change 512 with (2 ^ 9). rewrite <- (land_ones_mod x 9) by lia. rewrite <- Z.land_assoc. reflexivity. }
  rewrite E448, E479 in Hc.
  assert (Hsweep : forallb (fun r => negb ((Z.land r 448 =? 128) && negb (Z.land r 479 =? 128))
                                     || ((128 <=? r mod 256) && negb (r mod 32 =? 0))) all_512 = true)
    by (vm_compute; reflexivity).
  rewrite forallb_forall in Hsweep. assert (Hr : 0 <= x mod 512 < 512) by lia.
  specialize (Hsweep (x mod 512) (all_512_in _ Hr)).
  rewrite Hc in Hsweep. cbn [negb orb] in Hsweep.
  replace ((x mod 512) mod 256) with (x mod 256) in Hsweep by lia.
  replace ((x mod 512) mod 32) with (x mod 32) in Hsweep by lia.
  apply andb_true_iff in Hsweep as [H1 H2]. split; [lia|]. destruct (Z.eqb_spec (x mod 32) 0); [discriminate|assumption].
Qed.

(* disjoint bit patterns add up *)
Lemma lor_disjoint a b n : 0 <= n -> 0 <= b < 2 ^ n -> Z.lor (2 ^ n * a) b = 2 ^ n * a + b.
Proof.
  intros Hn Hb.
  assert (Hl : Z.land (2 ^ n * a) b = 0).
  { apply Z.bits_inj'. intros k Hk. rewrite Z.land_spec, Z.bits_0.
    destruct (Z.lt_ge_cases k n) as [Hlt|Hge].
    - rewrite Z.mul_comm, Z.mul_pow2_bits_low by lia. reflexivity.
    - rewrite <- (Z.mod_small b (2 ^ n)) by lia. rewrite Z.mod_pow2_bits_high by lia. apply andb_false_r. }
  rewrite Z.add_nocarry_lxor by exact Hl. symmetry. apply Z.lxor_lor. exact Hl.
Qed.

(* man & (carrymask + 0x7f): clear bit 7 *)
Lemma land_clear7 man n : 0 <= n -> 0 <= man < 2 ^ (n + 8) ->
  Z.land man (2 ^ (n + 8) - 256 + 127) = if 128 <=? man mod 256 then man - 128 else man.
Proof.
  intros Hn Hman.
  assert (Em : 2 ^ (n + 8) - 256 + 127 = Z.lor (2 ^ 8 * (2 ^ n - 1)) 127).
  { rewrite lor_disjoint by lia. rewrite (Z.add_comm n 8), pow2_split by lia. change (2 ^ 8) with 256. lia. }
  rewrite Em, Z.land_lor_distr_r.
  replace (2 ^ 8 * (2 ^ n - 1)) with (2 ^ (n + 8) - 256) by (rewrite (Z.add_comm n 8), pow2_split by lia; change (2 ^ 8) with 256; lia).
  rewrite land_carrymask by lia. rewrite land127.
  replace (256 * (man / 256)) with (2 ^ 8 * (man / 256)) by reflexivity.
  rewrite lor_disjoint by lia. change (2 ^ 8) with 256.
  destruct (Z.leb_spec 128 (man mod 256)); lia.
Qed.

(* ------------------------------------------------------------------------------------------------ *)
(* common setting: two non-zero operands, the left one not larger in magnitude *)

Lemma norm_no_overflow C neg o exp man r : 0 <= o -> norm_post C neg o exp man r -> exp <= 255 ->
  man < 2 ^ (mbits C + 8) - 128 -> r <> Host 5.
Proof.
  intros Ho (k & Hk & Hrange & Hk0 & Hpost) He Hm Er. cbv zeta in Hpost.
  destruct Hpost as [(_ & H255 & Hc)|[(b & E & _)|(b & E & _)]]; [|congruence|congruence].
  assert (k = 0) by lia. subst k. rewrite Z.pow_0_r, Z.mul_1_r in Hc. lia.
Qed.

(* exact alignment: Ml = 2^d * (Ml / 2^d) + Ml mod 2^d, and powers *)
Lemma align_facts Ml el er o : 0 <= el <= er -> 0 <= o -> 0 <= Ml ->
  let d := er - el in
  Ml = 2 ^ d * (Ml / 2 ^ d) + Ml mod 2 ^ d /\ 0 <= Ml mod 2 ^ d < 2 ^ d /\
  2 ^ (er + o) = 2 ^ d * 2 ^ (el + o) /\ 0 < 2 ^ d /\ 0 < 2 ^ (el + o) /\ 0 <= Ml / 2 ^ d.
Proof.
  intros He Ho HM d. assert (Hd : 0 < 2 ^ d) by (apply pow2_pos; unfold d; lia).
  split; [apply Z.div_mod; lia|]. split; [apply Z.mod_pos_bound; lia|].
  split; [rewrite <- pow2_split by (unfold d; lia); f_equal; unfold d; lia|].
  split; [exact Hd|]. split; [apply pow2_pos; lia|]. apply Z.div_pos; lia.
Qed.

Lemma carry_bounds man0 h q t : 0 < q -> 0 <= t < q -> 2 * h <= man0 <= 2 * h + 1 ->
  (h * (2 * q) <= man0 * q + t < (h + 1) * (2 * q)) /\ (0 < t -> h * (2 * q) < man0 * q + t).
Proof. intros Hq Ht Hh. split; [split|intros]; nia. Qed.

(* ------------------------------------------------------------------------------------------------ *)
(* equal signs: true addition *)

Lemma add_core_same C buf el ml er mr (n : bool) : fmt_ok C -> zlen buf = c_size C ->
  1 <= el <= 255 -> 1 <= er <= 255 -> el <= er ->
  2 ^ (mbits C - 1) <= ml < 2 ^ mbits C -> 2 ^ (mbits C - 1) <= mr < 2 ^ mbits C ->
  (exists e' man, add_core C el (256 * ml) n er (256 * mr) n = (e', man, n)) /\
  mag_post C false 2 1 (ml * 2 ^ el + mr * 2 ^ er) 1 n (norm3 C buf (add_core C el (256 * ml) n er (256 * mr) n)).
Proof.
  intros HC Hlen Hel Her Hle Hml Hmr. pose proof (mbits_ge C HC) as Hg.
  set (P := 2 ^ (mbits C - 1)) in *. assert (HP : 0 < P) by (apply pow2_pos; lia).
  assert (H2P : 2 ^ mbits C = 2 * P) by (apply pow2_pred; lia). rewrite H2P in Hml, Hmr.
  assert (E7 : 2 ^ (mbits C + 7) = 256 * P).
  { unfold P. replace (mbits C + 7) with (8 + (mbits C - 1)) by lia. rewrite pow2_split by lia. reflexivity. }
  assert (E8 : 2 ^ (mbits C + 8) = 512 * P).
  { unfold P. replace (mbits C + 8) with (9 + (mbits C - 1)) by lia. rewrite pow2_split by lia. reflexivity. }
  set (o := OFF). assert (Ho : 0 <= o) by (unfold o, OFF; lia).
  destruct (align_facts (256 * ml) el er o ltac:(lia) Ho ltac:(lia)) as (Hdm & Hrem & Hpw & Hpd & Hpel & Hq0).
  cbv zeta in *. set (d := er - el) in *. set (Ml' := 256 * ml / 2 ^ d) in *. set (rem := (256 * ml) mod 2 ^ d) in *.
  (* the aligned left mantissa is at most the right magnitude class *)
  assert (HMl' : Ml' < 512 * P) by (clear - Hdm Hrem Hpd Hml HP; nia).
  unfold add_core. cbv zeta. rewrite eqb_reflx. cbn [negb andb]. rewrite andb_false_r. cbv iota.
  rewrite land_low by (unfold d; lia). fold d. fold rem.
  rewrite Z.shiftr_div_pow2 by (unfold d; lia). fold d. fold Ml'.
  rewrite (ok_den_upper C HC), E8.
  set (man0 := Ml' + 256 * mr).
  assert (Hman0 : 256 * P <= man0 < 1024 * P) by (unfold man0; lia).
  (* exact sum on the offset scale *)
  set (Nm := ml * 2 ^ el + mr * 2 ^ er).
  set (S := 2 ^ (o + 8)). assert (HS : 0 < S) by (apply pow2_pos; lia).
  assert (Ho8 : S = 256 * 2 ^ o) by (unfold S; rewrite Z.add_comm, pow2_split by lia; reflexivity).
  assert (Hpo : 0 < 2 ^ o) by (apply pow2_pos; lia).
  assert (Eel : 2 ^ (el + o) = 2 ^ el * 2 ^ o) by (apply pow2_split; lia).
  assert (Eer : 2 ^ (er + o) = 2 ^ er * 2 ^ o) by (apply pow2_split; lia).
  assert (HNS : Nm * S = man0 * 2 ^ (er + o) + rem * 2 ^ (el + o)).
  { unfold Nm, man0. rewrite Ho8. rewrite Hpw at 1.
    replace ((Ml' + 256 * mr) * (2 ^ d * 2 ^ (el + o))) with (2 ^ d * Ml' * 2 ^ (el + o) + 256 * mr * (2 ^ d * 2 ^ (el + o))) by lia.
    rewrite <- Hpw. replace (2 ^ d * Ml') with (256 * ml - rem) by lia. rewrite Eel, Eer. lia. }
  assert (Hremlt : rem * 2 ^ (el + o) < 2 ^ (er + o)) by (rewrite Hpw; apply Z.mul_lt_mono_pos_r; lia).
  (* the two branches of the carry give (e', man1) with  man1 * 2^(e'+o) <= Nm S < (man1 + 1) * 2^(e'+o)  *)
  assert (Hcarry : exists e' man1, (if man0 >=? 512 * P then (er + 1, Z.shiftr man0 1) else (er, man0)) = (e', man1) /\
            er <= e' <= er + 1 /\ 256 * P <= man1 < 512 * P /\
            man1 * 2 ^ (e' + o) <= Nm * S < (man1 + 1) * 2 ^ (e' + o) /\
            (rem = 0 -> man1 * 2 ^ (e' + o) <= Nm * S < man1 * 2 ^ (e' + o) + 2 ^ (e' + o)) /\
            (rem <> 0 -> man1 * 2 ^ (e' + o) < Nm * S)).
  { assert (Ht0 : 0 <= rem * 2 ^ (el + o)) by (apply Z.mul_nonneg_nonneg; lia).
    assert (Htp : rem <> 0 -> 0 < rem * 2 ^ (el + o)) by (intros; apply Z.mul_pos_pos; lia).
    assert (Hq : 0 < 2 ^ (er + o)) by (apply pow2_pos; lia).
    destruct (Z.geb_spec man0 (512 * P)) as [Hc|Hc].
    - exists (er + 1), (man0 / 2). rewrite Z.shiftr_div_pow2 by lia. change (2 ^ 1) with 2.
      split; [reflexivity|]. split; [lia|]. split; [lia|].
      replace (er + 1 + o) with (er + o + 1) by lia. rewrite pow2_S by lia. rewrite HNS.
      assert (Hh : 2 * (man0 / 2) <= man0 <= 2 * (man0 / 2) + 1) by lia.
      destruct (carry_bounds man0 (man0 / 2) (2 ^ (er + o)) (rem * 2 ^ (el + o)) Hq ltac:(lia) Hh) as (B1 & B2).
      split; [exact B1|]. split; [intros _; lia|]. intros Hr. apply B2. apply Htp. exact Hr.
    - exists er, man0. split; [reflexivity|]. split; [lia|]. split; [lia|]. rewrite HNS.
      split; [lia|]. split; [intros _; lia|]. intros Hr. specialize (Htp Hr). lia. }
  destruct Hcarry as (e' & man1 & Ecar & He' & Hm1 & Hbr & Hbr0 & Hbr1).
  destruct (if man0 >=? 512 * P then (er + 1, Z.shiftr man0 1) else (er, man0)) as [e'' man1'] eqn:Eif.
  injection Ecar as -> ->.
  (* the tie breaker *)
  set (man := if negb (rem =? 0) then Z.lor man1 1 else man1).
  assert (Hman : 256 * P <= man < 512 * P /\ Z.abs (Nm * S - man * 2 ^ (e' + o)) < 2 ^ (e' + o)).
  { unfold man. set (q := 2 ^ (e' + o)) in *. assert (0 < q) by (unfold q; apply pow2_pos; lia).
    destruct (Z.eqb_spec rem 0) as [Er|Er]; cbn [negb].
    - split; [lia|]. specialize (Hbr0 Er). lia.
    - rewrite lor1 by lia. specialize (Hbr1 Er). destruct (Z.odd man1) eqn:Eo.
      + split; [lia|]. lia.
      + assert (man1 <> 512 * P - 1).
        { intro E. rewrite E in Eo. replace (512 * P - 1) with (1 + 2 * (256 * P - 1)) in Eo by lia.
          rewrite Z.odd_add_mul_2 in Eo. discriminate. }
        split; [lia|]. lia. }
  destruct Hman as [Hmr' Herr].
  rewrite andb_true_r. fold man.
  split; [exists e', man; reflexivity|].
  unfold norm3.
  assert (Hm0 : 0 < man < c_den_upper C) by (rewrite (ok_den_upper C HC), E8; lia).
  pose proof (normalise_val C buf e' man n o HC Hlen Hm0 ltac:(lia) Ho) as Hnp.
  set (r := mbf_normalise C buf e' man n) in *.
  assert (HSD : S * 1 = 2 ^ (o + 8) * 1) by reflexivity.
  assert (Hk0 : forall k, (2 ^ (mbits C + 7) - 1 <= man -> k = 0) -> k = 0) by (intros k H; apply H; rewrite E7; lia).
  assert (HA := norm_partA C false 2 1 Nm 1 n o e' man r S 1 HC Ho HS ltac:(lia) ltac:(lia) HSD ltac:(lia) ltac:(lia) Hnp).
  assert (HBC := norm_partBC C Nm 1 n o e' man r S 1 HC Ho HS ltac:(lia) ltac:(lia) HSD ltac:(lia) Hnp).
  assert (HA' : forall b0, r = Ok b0 -> buf_ok C b0 /\
            (if f_zero b0 then Nm < 2 ^ mbits C * 1
             else f_neg C b0 = n /\ err_ok false (1 * Z.abs (f_mag C b0 * 1 - Nm)) (2 * 2 ^ f_exp b0 * 1))).
  { apply HA.
    - intros k _ _ Hk _. rewrite (Hk0 k Hk). rewrite Z.sub_0_r, !Z.mul_1_r. cbn [err_ok].
      assert (0 < 2 ^ (e' + o)) by (apply pow2_pos; lia). lia.
    - intros k _ _ Hk Hek. rewrite (Hk0 k Hk) in Hek. lia. }
  assert (HBC' : (match r return Prop with
                  | Host x => x = 5 /\ (2 ^ mbits C - 1) * 2 ^ 255 * 1 < Nm
                  | Ok _ => True
                  | _ => False
                  end) /\ (2 ^ mbits C * 2 ^ 255 * 1 <= Nm -> r = Host 5)).
  { apply HBC.
    - intros k _ _ Hk. rewrite (Hk0 k Hk). rewrite Z.pow_0_r, !Z.mul_1_r.
      assert (0 < 2 ^ (e' + o)) by (apply pow2_pos; lia). lia.
    - intros k _ _ Hk. rewrite (Hk0 k Hk). rewrite Z.pow_0_r, !Z.mul_1_r.
      assert (0 < 2 ^ (e' + o)) by (apply pow2_pos; lia). lia. }
  destruct HBC' as [HB HCv]. split; [|exact HCv].
  destruct r as [b0|e0|x0|]; try contradiction.
  - specialize (HA' b0 eq_refl). destruct HA' as [Hok Hrest]. split; [exact Hok|].
    destruct (f_zero b0); [exact Hrest|]. exact Hrest.
  - exact HB.
Qed.
