(* C25: proofs about model/RandomFile.v over the regenerated pointer arithmetic of gen/Gen_locks.v *)
From Coq Require Import ZArith List Bool Lia ZifyBool.
From PCB Require Import lib.Result lib.PyInt gen.Gen_locks model.Locks model.RandomFile.
Import ListNotations.
Open Scope Z_scope.

(* ------------------------------------------------------------------------------------------------
   1. what the regenerated arithmetic of RandomFile is (these fail on the code before the fix of D7) *)

Lemma gen_setpos L p : rf_setpos_seek L p = (p - 1) * L /\ rf_setpos_recpos p = p - 1.
Proof. unfold rf_setpos_seek, rf_setpos_recpos. split; lia. Qed.
Lemma gen_eof r L lof : rf_eof r L lof = (lof <? r * L).
Proof. unfold rf_eof. lia. Qed.
Lemma gen_next r : rf_get_next r = r + 1 /\ rf_put_next r = r + 1.
Proof. unfold rf_get_next, rf_put_next. split; lia. Qed.
Lemma gen_put_gap r L lof : rf_put_gap r L lof = (lof <? r * L).
Proof. unfold rf_put_gap. cbv zeta. lia. Qed.
Lemma gen_put_pad r L lof : rf_put_pad r L lof = r * L - lof.
Proof. unfold rf_put_pad. cbv zeta. lia. Qed.
Lemma gen_put_seek r L fpos : rf_put_seek r L fpos = r * L.
Proof. unfold rf_put_seek. cbv zeta. lia. Qed.
(* D25a: get seeks to the record before reading, put flushes after writing *)
Lemma gen_get_seek r L fpos : rf_get_seek r L fpos = r * L.
Proof. unfold rf_get_seek. cbv zeta. lia. Qed.
Lemma gen_put_flushes : rf_put_flushes = true.
Proof. reflexivity. Qed.

(* ------------------------------------------------------------------------------------------------
   2. lists indexed by Z, default 0 (a byte beyond the end reads as zero) *)

Definition znth (i : Z) (l : list Z) : Z := nth (Z.to_nat i) l 0.

Lemma zlen_nonneg {A} (l : list A) : 0 <= zlen l.
Proof. unfold zlen. lia. Qed.
Lemma zlen_app {A} (a b : list A) : zlen (a ++ b) = zlen a + zlen b.
Proof. unfold zlen. rewrite app_length. lia. Qed.
Lemma zlen_repeat (x : Z) n : zlen (repeat x n) = Z.of_nat n.
Proof. unfold zlen. rewrite repeat_length. reflexivity. Qed.
Lemma zlen_zeros n : zlen (zeros n) = Z.max 0 n.
Proof. unfold zeros. rewrite zlen_repeat. lia. Qed.
Lemma zlen_spaces n : zlen (spaces n) = Z.max 0 n.
Proof. unfold spaces. rewrite zlen_repeat. lia. Qed.
Lemma zlen_ztake n (l : list Z) : zlen (ztake n l) = Z.min (Z.max 0 n) (zlen l).
Proof. unfold zlen, ztake. rewrite firstn_length. lia. Qed.
Lemma zlen_zdrop n (l : list Z) : zlen (zdrop n l) = Z.max 0 (zlen l - Z.max 0 n).
Proof. unfold zlen, zdrop. rewrite skipn_length. lia. Qed.

Lemma ztake_all n (l : list Z) : zlen l <= n -> ztake n l = l.
Proof. unfold zlen, ztake. intro H. apply firstn_all2. lia. Qed.
Lemma zdrop_all n (l : list Z) : zlen l <= n -> zdrop n l = [].
Proof. unfold zlen, zdrop. intro H. apply skipn_all2. lia. Qed.
Lemma ztake_app_exact (a b : list Z) : ztake (zlen a) (a ++ b) = a.
Proof.
  unfold ztake, zlen. rewrite Nat2Z.id. rewrite firstn_app, Nat.sub_diag, firstn_all. simpl. apply app_nil_r.
Qed.
Lemma zdrop_app_exact (a b : list Z) : zdrop (zlen a) (a ++ b) = b.
Proof.
  unfold zdrop, zlen. rewrite Nat2Z.id. rewrite skipn_app, Nat.sub_diag, skipn_all. reflexivity.
Qed.

Lemma nth_firstn_0 : forall (l : list Z) n i, nth i (firstn n l) 0 = if (i <? n)%nat then nth i l 0 else 0.
Proof.
  induction l as [|x l IH]; intros n i.
  - rewrite firstn_nil. destruct i; destruct (_ <? _)%nat; reflexivity.
  - destruct n as [|n]; simpl.
    + destruct i; reflexivity.
    + destruct i as [|i]; [reflexivity|]. rewrite IH.
      change (S i <? S n)%nat with (i <? n)%nat. reflexivity.
Qed.
Lemma nth_skipn_0 : forall (l : list Z) n i, nth i (skipn n l) 0 = nth (n + i) l 0.
Proof.
  induction l as [|x l IH]; intros n i.
  - rewrite skipn_nil. destruct i, n; reflexivity.
  - destruct n as [|n]; simpl; [reflexivity | apply IH].
Qed.

Lemma znth_app i (a b : list Z) : 0 <= i ->
  znth i (a ++ b) = if i <? zlen a then znth i a else znth (i - zlen a) b.
Proof.
  intro Hi. unfold znth, zlen. destruct (i <? Z.of_nat (length a)) eqn:E.
  - apply app_nth1. lia.
  - rewrite app_nth2 by lia. f_equal. lia.
Qed.
Lemma znth_zeros i n : znth i (zeros n) = 0.
Proof. unfold znth, zeros. apply nth_repeat. Qed.
Lemma znth_ztake i n (l : list Z) : 0 <= i -> znth i (ztake n l) = if i <? n then znth i l else 0.
Proof.
  intro Hi. unfold znth, ztake. rewrite nth_firstn_0.
  destruct (i <? n) eqn:E; destruct (Z.to_nat i <? Z.to_nat n)%nat eqn:F; try reflexivity;
    apply Nat.ltb_lt in F || apply Nat.ltb_ge in F; lia.
Qed.
Lemma znth_zdrop i n (l : list Z) : 0 <= i -> 0 <= n -> znth i (zdrop n l) = znth (n + i) l.
Proof. intros Hi Hn. unfold znth, zdrop. rewrite nth_skipn_0. f_equal. lia. Qed.
Lemma znth_beyond i (l : list Z) : zlen l <= i -> znth i l = 0.
Proof. intro H. unfold znth. apply nth_overflow. unfold zlen in H. lia. Qed.

Lemma znth_ext (a b : list Z) :
  zlen a = zlen b -> (forall i, 0 <= i < zlen a -> znth i a = znth i b) -> a = b.
Proof.
  intros Hl H. apply (nth_ext a b 0 0).
  - unfold zlen in Hl. lia.
  - intros n Hn. specialize (H (Z.of_nat n)). unfold znth in H. rewrite Nat2Z.id in H. apply H.
    unfold zlen. lia.
Qed.

(* ------------------------------------------------------------------------------------------------
   3. the host stream: what a write does to every byte *)

Lemma write_len d b p : 0 <= p ->
  zlen (s_bytes (s_write d (mkStream b p))) = Z.max (zlen b) (p + zlen d).
Proof.
  intro Hp. unfold s_write. simpl. destruct (zlen b <? p) eqn:E.
  - rewrite !zlen_app, zlen_zeros. pose proof (zlen_nonneg d). lia.
  - rewrite !zlen_app, zlen_ztake, zlen_zdrop. pose proof (zlen_nonneg d). pose proof (zlen_nonneg b). lia.
Qed.

Lemma write_znth d b p i : 0 <= p -> 0 <= i ->
  znth i (s_bytes (s_write d (mkStream b p))) =
    if (p <=? i) && (i <? p + zlen d) then znth (i - p) d else znth i b.
Proof.
  intros Hp Hi. unfold s_write. simpl. pose proof (zlen_nonneg d) as Hd. pose proof (zlen_nonneg b) as Hb.
  destruct (zlen b <? p) eqn:E.
  - rewrite znth_app by assumption. destruct (i <? zlen b) eqn:E1.
    + replace ((p <=? i) && (i <? p + zlen d)) with false by lia. reflexivity.
    + rewrite znth_app by lia. rewrite zlen_zeros. destruct (i - zlen b <? Z.max 0 (p - zlen b)) eqn:E2.
      * replace ((p <=? i) && (i <? p + zlen d)) with false by lia.
        rewrite znth_zeros. symmetry. apply znth_beyond. lia.
      * destruct ((p <=? i) && (i <? p + zlen d)) eqn:E3.
        -- f_equal. lia.
        -- rewrite znth_beyond by lia. symmetry. apply znth_beyond. lia.
  - rewrite znth_app by assumption. rewrite zlen_ztake. destruct (i <? Z.min (Z.max 0 p) (zlen b)) eqn:E1.
    + replace ((p <=? i) && (i <? p + zlen d)) with false by lia.
      rewrite znth_ztake by assumption. replace (i <? p) with true by lia. reflexivity.
    + rewrite znth_app by lia. destruct (i - Z.min (Z.max 0 p) (zlen b) <? zlen d) eqn:E2.
      * replace ((p <=? i) && (i <? p + zlen d)) with true by lia. f_equal. lia.
      * replace ((p <=? i) && (i <? p + zlen d)) with false by lia.
        rewrite znth_zdrop by lia. f_equal. lia.
Qed.

(* ------------------------------------------------------------------------------------------------
   4. the record view of a byte string *)

(* record k (1-based) of length L: the bytes that are there, padded with zero bytes *)
Definition view (b : list Z) (L k : Z) : list Z :=
  let d := ztake L (zdrop ((k - 1) * L) b) in d ++ zeros (L - zlen d).

Lemma view_len b L k : 0 <= L -> zlen (view b L k) = L.
Proof.
  intro HL. unfold view. rewrite zlen_app, zlen_zeros, zlen_ztake.
  pose proof (zlen_nonneg (zdrop ((k - 1) * L) b)). lia.
Qed.

Lemma view_znth b L k i : 0 <= L -> 1 <= k -> 0 <= i < L ->
  znth i (view b L k) = znth ((k - 1) * L + i) b.
Proof.
  intros HL Hk Hi. unfold view. assert (Hoff : 0 <= (k - 1) * L) by nia.
  set (off := (k - 1) * L) in *. rewrite znth_app by lia. rewrite zlen_ztake, zlen_zdrop.
  pose proof (zlen_nonneg b) as Hb.
  destruct (i <? Z.min (Z.max 0 L) (Z.max 0 (zlen b - Z.max 0 off))) eqn:E.
  - rewrite znth_ztake by lia. replace (i <? L) with true by lia. apply znth_zdrop; lia.
  - rewrite znth_zeros. symmetry. apply znth_beyond. lia.
Qed.

Lemma view_beyond b L k : 0 <= L -> zlen b <= (k - 1) * L -> view b L k = zeros L.
Proof.
  intros HL H. unfold view. rewrite zdrop_all by assumption. unfold ztake. rewrite firstn_nil. simpl.
  f_equal. unfold zlen. simpl. lia.
Qed.

(* PUT of record k = a write of L bytes at (k-1)*L: record k becomes the data, every other record keeps its
   view, the length becomes max(len, k*L) *)
Lemma write_view_same d b L k : 0 <= L -> 1 <= k -> zlen d = L ->
  view (s_bytes (s_write d (mkStream b ((k - 1) * L)))) L k = d.
Proof.
  intros HL Hk Hd. assert (Hoff : 0 <= (k - 1) * L) by nia.
  apply znth_ext; [rewrite view_len; lia|]. intros i Hi. rewrite view_len in Hi by assumption.
  rewrite view_znth by lia. rewrite write_znth by lia.
  replace (((k - 1) * L <=? (k - 1) * L + i) && ((k - 1) * L + i <? (k - 1) * L + zlen d)) with true by lia.
  f_equal. lia.
Qed.

Lemma write_view_other d b L k j : 0 <= L -> 1 <= k -> 1 <= j -> j <> k -> zlen d = L ->
  view (s_bytes (s_write d (mkStream b ((k - 1) * L)))) L j = view b L j.
Proof.
  intros HL Hk Hj Hne Hd. assert (Hoff : 0 <= (k - 1) * L) by nia.
  apply znth_ext; [rewrite !view_len; lia|]. intros i Hi. rewrite view_len in Hi by assumption.
  rewrite !view_znth by lia. rewrite write_znth by nia.
  replace (((k - 1) * L <=? (j - 1) * L + i) && ((j - 1) * L + i <? (k - 1) * L + zlen d)) with false;
    [reflexivity|].
  symmetry. apply andb_false_iff. destruct (Z_lt_ge_dec j k) as [H|H].
  - left. apply Z.leb_gt. nia.
  - right. apply Z.ltb_ge. nia.
Qed.

(* ------------------------------------------------------------------------------------------------
   5. RandomFile.put / get on the stream, in terms of one write / the view *)

(* the stream position is where the record pointer says, whenever that is inside the file *)
Definition pos_ok (f : rfile) : Prop :=
  rf_recpos f * rf_reclen f <= rf_lof f -> s_pos (rf_stream f) = rf_recpos f * rf_reclen f.

Lemma setpos_facts pos f :
  let f1 := set_record_pos pos f in
  s_bytes (rf_stream f1) = s_bytes (rf_stream f) /\ rf_reclen f1 = rf_reclen f /\
  rf_recpos f1 = target pos (rf_recpos f) - 1 /\ (pos_ok f -> pos_ok f1).
Proof.
  destruct pos as [p|]; simpl.
  - destruct (gen_setpos (rf_reclen f) p) as [E1 E2]. rewrite E1, E2.
    split; [reflexivity|]. split; [reflexivity|]. split; [reflexivity | intros _ _; reflexivity].
  - split; [reflexivity|]. split; [reflexivity|]. split; [lia | exact (fun H => H)].
Qed.

Lemma put_spec pos f buf :
  let L := rf_reclen f in
  let k := target pos (rf_recpos f) in
  let d := ztake L buf in
  0 <= L -> 1 <= k ->
  let f' := rf_put pos f buf in
  s_bytes (rf_stream f') = s_bytes (s_write d (mkStream (s_bytes (rf_stream f)) ((k - 1) * L))) /\
  s_pos (rf_stream f') = (k - 1) * L + zlen d /\ rf_recpos f' = k /\ rf_reclen f' = L.
Proof.
  intros L k d HL Hk f'. subst f'. unfold rf_put.
  destruct (setpos_facts pos f) as [Hb [Hl [Hr _]]]. cbv zeta in Hb, Hl, Hr.
  set (f1 := set_record_pos pos f) in *. fold k in Hr. cbv zeta.
  rewrite Hl. fold L. fold d. rewrite Hr. unfold rf_lof, s_len. rewrite Hb.
  set (b := s_bytes (rf_stream f)) in *.
  rewrite gen_put_gap, gen_put_pad, gen_put_seek. destruct (gen_next (k - 1)) as [_ En]. rewrite En.
  assert (Hoff : 0 <= (k - 1) * L) by nia. set (off := (k - 1) * L) in *.
  pose proof (zlen_nonneg b) as Hlb.
  destruct (zlen b <? off) eqn:E.
  - (* gap: pad from the end, then write *)
    unfold s_seek_end, s_len. rewrite Hb. fold b. unfold s_write at 2. simpl s_bytes. simpl s_pos.
    replace (zlen b <? zlen b) with false by lia.
    rewrite ztake_all by lia. rewrite (zdrop_all (zlen b + zlen (zeros (off - zlen b))) b)
      by (pose proof (zlen_nonneg (zeros (off - zlen b))); lia).
    rewrite app_nil_r. rewrite zlen_zeros. replace (zlen b + Z.max 0 (off - zlen b)) with off by lia.
    unfold s_write. simpl. rewrite zlen_app, zlen_zeros.
    replace (zlen b + Z.max 0 (off - zlen b) <? off) with false by lia. rewrite E.
    replace off with (zlen (b ++ zeros (off - zlen b))) at 1 by (rewrite zlen_app, zlen_zeros; lia).
    rewrite ztake_all by lia.
    rewrite (zdrop_all _ (b ++ zeros (off - zlen b)))
      by (rewrite zlen_app, zlen_zeros; pose proof (zlen_nonneg d); lia).
    rewrite app_nil_r, <- app_assoc. repeat split; try reflexivity; lia.
  - (* no gap: seek to the record, then write *)
    unfold s_seek. rewrite Hb. fold b. simpl. repeat split; try reflexivity; lia.
Qed.

Lemma get_spec pos f buf :
  let L := rf_reclen f in
  let k := target pos (rf_recpos f) in
  0 <= L -> 1 <= k -> L <= zlen buf ->
  let '(f', buf') := rf_get pos f buf in
  s_bytes (rf_stream f') = s_bytes (rf_stream f) /\ rf_recpos f' = k /\ rf_reclen f' = L /\ pos_ok f' /\
  buf' = view (s_bytes (rf_stream f)) L k ++ zdrop L buf.
Proof.
  intros L k HL Hk Hbuf. unfold rf_get.
  destruct (setpos_facts pos f) as [Hb [Hl [Hr Hp]]]. cbv zeta in Hb, Hl, Hr, Hp.
  set (f1 := set_record_pos pos f) in *. fold k in Hr. cbv zeta. rewrite Hl. fold L. rewrite Hr.
  unfold rf_lof, s_len. rewrite gen_eof. destruct (gen_next (k - 1)) as [En _]. rewrite En.
  assert (Hoff : 0 <= (k - 1) * L) by nia.
  pose proof (zlen_nonneg (s_bytes (rf_stream f))) as Hlb.
  destruct (zlen (s_bytes (rf_stream f1)) <? (k - 1) * L) eqn:E; rewrite Hb in E.
  - (* past the end: zero record, stream untouched *)
    simpl. split; [exact Hb|]. split; [lia|]. split; [reflexivity|]. split.
    + unfold pos_ok, rf_lof, s_len. cbn [rf_stream rf_recpos rf_reclen]. rewrite Hb. nia.
    + unfold set_buffer. rewrite zlen_zeros. replace (L - Z.max 0 L) with 0 by lia.
      rewrite view_beyond by lia. change (zeros 0) with (@nil Z). reflexivity.
  - (* read at the stream position, which is the record *)
    rewrite gen_get_seek. unfold s_read, s_seek. cbn [s_bytes s_pos]. rewrite Hb.
    simpl. split; [reflexivity|]. split; [lia|]. split; [reflexivity|]. split.
    + unfold pos_ok. simpl. unfold rf_lof, s_len. simpl. intro Hle.
      rewrite zlen_ztake, zlen_zdrop. nia.
    + unfold set_buffer, view. rewrite <- app_assoc. reflexivity.
Qed.

(* ------------------------------------------------------------------------------------------------
   6. refinement: the implementation model against the record map *)

Definition op_ok (o : rop) : Prop :=
  match o with
  | RSet off w _ _ => 0 <= off /\ 0 <= w /\ off + w <= field_size
  | RPut (Some k) => 1 <= k
  | RGet (Some k) => 1 <= k
  | _ => True
  end.

Definition R (L : Z) (s : istate) (sp : sstate) : Prop :=
  rf_reclen (i_file s) = L /\ i_buf s = sp_buf sp /\ rf_recpos (i_file s) = sp_loc sp /\
  0 <= sp_loc sp /\ 0 <= sp_hw sp /\
  zlen (s_bytes (rf_stream (i_file s))) = L * sp_hw sp /\
  (forall k, 1 <= k -> view (s_bytes (rf_stream (i_file s))) L k = sp_rec L (sp_map sp) k) /\
  pos_ok (i_file s) /\ zlen (i_buf s) = field_size.

Lemma zlen_justify rj w d : 0 <= w -> zlen (justify rj w d) = w.
Proof.
  intro Hw. unfold justify. pose proof (zlen_nonneg d).
  destruct rj; rewrite zlen_app, zlen_spaces, zlen_ztake; lia.
Qed.

Lemma zlen_buf_set off w rj d buf : 0 <= off -> 0 <= w -> off + w <= zlen buf ->
  zlen (buf_set off w rj d buf) = zlen buf.
Proof.
  intros Ho Hw Hl. unfold buf_set. rewrite !zlen_app, zlen_justify, zlen_ztake, zlen_zdrop by assumption. lia.
Qed.

Lemma ztake_app_len n (a b : list Z) : zlen a = n -> ztake n (a ++ b) = a.
Proof. intro H. subst n. apply ztake_app_exact. Qed.

Lemma target_pos pos loc : 0 <= loc -> op_ok (RPut pos) -> 1 <= target pos loc.
Proof. destruct pos; simpl; lia. Qed.

Lemma sp_rec_cons L k d m j : sp_rec L ((k, d) :: m) j = if k =? j then d else sp_rec L m j.
Proof. unfold sp_rec. simpl. destruct (k =? j); reflexivity. Qed.

Lemma step_refines L s sp o : 1 <= L <= field_size -> R L s sp -> op_ok o ->
  snd (istep s o) = snd (sstep L sp o) /\ R L (fst (istep s o)) (fst (sstep L sp o)).
Proof.
  intros HL [Hrl [Hbuf [Hrp [Hloc [Hhw [Hlen [Hview [Hpos Hbl]]]]]]]] Hok.
  unfold field_size in *.
  destruct o as [off w rj d|pos|pos| |].
  - (* LSET / RSET *)
    simpl. split; [reflexivity|]. destruct Hok as [H1 [H2 H3]]. unfold field_size in H3.
    unfold R, field_size. simpl. rewrite Hbuf. repeat split; try assumption.
    rewrite <- Hbuf. rewrite zlen_buf_set; unfold field_size; lia.
  - (* PUT *)
    cbn [istep sstep fst snd]. split; [reflexivity|].
    assert (Hk : 1 <= target pos (rf_recpos (i_file s))) by (rewrite Hrp; apply target_pos; assumption).
    destruct (put_spec pos (i_file s) (i_buf s)) as [Pb [Pp [Pr Pl]]]; [lia | exact Hk |].
    rewrite Hrl in *. rewrite Hrp in *. set (k := target pos (sp_loc sp)) in *.
    set (d := ztake L (i_buf s)) in *.
    assert (Hd : zlen d = L) by (unfold d; rewrite zlen_ztake; lia).
    assert (Hoff : 0 <= (k - 1) * L) by nia.
    unfold R, field_size. cbn [i_file i_buf sp_map sp_hw sp_loc sp_buf]. rewrite Pb. rewrite <- Hbuf. fold d. repeat split; try assumption; try lia.
    + rewrite write_len by assumption. rewrite Hlen, Hd. destruct (Z.max_spec (sp_hw sp) k) as [[A B]|[A B]];
        rewrite B; nia.
    + intros j Hj. rewrite sp_rec_cons. destruct (k =? j) eqn:E.
      * apply Z.eqb_eq in E. subst j. apply write_view_same; lia.
      * apply Z.eqb_neq in E. rewrite write_view_other by lia. apply Hview. assumption.
    + unfold pos_ok. rewrite Pp, Pr, Pl, Hd. intros _. lia.
  - (* GET *)
    assert (Hk : 1 <= target pos (rf_recpos (i_file s))).
    { rewrite Hrp. destruct pos; simpl in *; lia. }
    pose proof (get_spec pos (i_file s) (i_buf s)) as G. cbv zeta in G.
    simpl. destruct (rf_get pos (i_file s) (i_buf s)) as [f' buf'] eqn:Eg.
    destruct G as [Gb [Gr [Gl [Gp Gbuf]]]]; try lia; try assumption.
    rewrite Hrl in *. rewrite Hrp in *. set (k := target pos (sp_loc sp)) in *.
    assert (Hv : view (s_bytes (rf_stream (i_file s))) L k = sp_rec L (sp_map sp) k) by (apply Hview; lia).
    simpl. split.
    + rewrite Gbuf. rewrite <- Hv. apply ztake_app_len. apply view_len. lia.
    + unfold R, field_size. simpl. rewrite Gb, Gbuf, <- Hv, <- Hbuf. repeat split; try assumption; try lia.
      rewrite zlen_app, view_len, zlen_zdrop by lia. lia.
  - (* LOF, LOC, EOF *)
    simpl. split.
    + unfold rf_lof, s_len, rf_loc, rf_iseof, rf_lof, s_len. rewrite gen_eof, Hlen, Hrp, Hrl. reflexivity.
    + unfold R, field_size. repeat split; assumption.
  - (* CLOSE, OPEN *)
    simpl. split; [reflexivity|]. unfold R, field_size. simpl. repeat split; try assumption; try lia.
Qed.

Definition ops_ok (ops : list rop) : Prop := Forall op_ok ops.

Lemma run_refines L ops : 1 <= L <= field_size -> forall s sp, R L s sp -> ops_ok ops ->
  fst (irun s ops) = fst (srun L sp ops) /\ R L (snd (irun s ops)) (snd (srun L sp ops)).
Proof.
  intro HL. induction ops as [|o r IH]; intros s sp HR Hok; simpl.
  - split; [reflexivity | exact HR].
  - inversion Hok as [|? ? Ho Hr]; subst.
    destruct (step_refines L s sp o HL HR Ho) as [E1 E2].
    destruct (istep s o) as [s' out]. destruct (sstep L sp o) as [sp' out']. simpl in E1, E2.
    destruct (IH s' sp' E2 Hr) as [F1 F2].
    destruct (irun s' r) as [outs s'']. destruct (srun L sp' r) as [outs' sp'']. simpl in *.
    subst. split; [reflexivity | exact F2].
Qed.

Lemma R_init L buf : 1 <= L -> zlen buf = field_size -> R L (i_init L buf) (s_init buf).
Proof.
  intros HL Hb. unfold R, i_init, s_init. cbn [i_file i_buf rf_reclen rf_recpos rf_stream s_bytes sp_buf sp_loc
    sp_hw sp_map].
  split; [reflexivity|]. split; [reflexivity|]. split; [reflexivity|]. split; [lia|]. split; [lia|].
  split; [unfold zlen; simpl; lia|]. split; [|split; [|assumption]].
  - intros k Hk. unfold sp_rec. simpl. apply view_beyond; [lia|]. unfold zlen. simpl. nia.
  - unfold pos_ok. simpl. intros _. lia.
Qed.

(* every PUT/GET history on a fresh file: same observations as the record map; LOF = L * highest record *)
Theorem refinement L buf ops : 1 <= L <= field_size -> zlen buf = field_size -> ops_ok ops ->
  fst (irun (i_init L buf) ops) = fst (srun L (s_init buf) ops) /\
  R L (snd (irun (i_init L buf) ops)) (snd (srun L (s_init buf) ops)).
Proof. intros HL Hb Hok. apply run_refines; [assumption | apply R_init; lia | assumption]. Qed.

(* the same two facts for arbitrary bytes already in the file (other record length before, foreign file) *)
Theorem put_get_any_file pos f buf : let L := rf_reclen f in let k := target pos (rf_recpos f) in
  1 <= L -> 1 <= k -> L <= zlen buf ->
  let b := s_bytes (rf_stream f) in
  let b' := s_bytes (rf_stream (rf_put pos f buf)) in
  view b' L k = ztake L buf /\ (forall j, 1 <= j -> j <> k -> view b' L j = view b L j) /\
  zlen b' = Z.max (zlen b) (k * L) /\ rf_recpos (rf_put pos f buf) = k.
Proof.
  intros L k HL Hk Hbuf b b'.
  destruct (put_spec pos f buf) as [Pb [Pp [Pr Pl]]]; [fold L; lia | exact Hk |]. fold L k in Pb, Pp, Pr, Pl.
  subst b'. rewrite Pb. fold b.
  assert (Hd : zlen (ztake L buf) = L) by (rewrite zlen_ztake; lia).
  assert (Hoff : 0 <= (k - 1) * L) by nia.
  split; [apply write_view_same; lia|]. split; [intros j Hj Hne; apply write_view_other; lia|].
  split; [|exact Pr]. rewrite write_len by assumption. rewrite Hd. f_equal. lia.
Qed.

(* ------------------------------------------------------------------------------------------------
   7. statement level *)

Lemma check_pos_range v : check_pos (Some v) =
  if (single_round v <? files_pos_min) || (files_pos_max <? single_round v)
  then Err locks_err_BAD_RECORD_NUMBER else Ok (Some (single_round v)).
Proof. reflexivity. Qed.

Lemma pos_limits : files_pos_min = 1 /\ files_pos_max = 2 ^ 25.
Proof. split; reflexivity. Qed.

Theorem bad_record_number w n v (put : bool) :
  ~ (1 <= single_round v <= 2 ^ 25) ->
  forall x f, wget n w = Some x -> fs_open x = Some f ->
  wstep w (if put then WPut n (Some v) else WGet n (Some v)) = (w, Err locks_err_BAD_RECORD_NUMBER).
Proof.
  intros Hv x f Hx Hf. destruct pos_limits as [Pmin Pmax].
  assert (Hc : check_pos (Some v) = Err locks_err_BAD_RECORD_NUMBER).
  { rewrite check_pos_range, Pmin, Pmax.
    replace ((single_round v <? 1) || (2 ^ 25 <? single_round v)) with true by lia. reflexivity. }
  destruct put; cbn [wstep]; rewrite Hx, Hf, Hc; reflexivity.
Qed.

Theorem good_record_number w n v x f :
  1 <= single_round v <= 2 ^ 25 -> wget n w = Some x -> fs_open x = Some f ->
  snd (wstep w (WPut n (Some v))) = Ok [] /\ exists l, snd (wstep w (WGet n (Some v))) = Ok l.
Proof.
  intros Hv Hx Hf. destruct pos_limits as [Pmin Pmax].
  assert (Hc : check_pos (Some v) = Ok (Some (single_round v))).
  { rewrite check_pos_range, Pmin, Pmax.
    replace ((single_round v <? 1) || (2 ^ 25 <? single_round v)) with false by lia. reflexivity. }
  split; cbn [wstep]; rewrite Hx, Hf, Hc.
  - reflexivity.
  - destruct (rf_get (Some (single_round v)) f (fs_buf x)) as [f' buf']. simpl. eauto.
Qed.

(* LOF() and LOC() are BASIC single-precision numbers *)
Definition as_singles (l : list Z) : list Z :=
  match l with
  | [lof; loc; eof] => [single_trunc lof; single_trunc loc; eof]
  | _ => l
  end.

Lemma single_trunc_small x : Z.abs x < 2 ^ 24 -> single_trunc x = x.
Proof.
  intro H. unfold single_trunc. cbv zeta.
  assert (Hl : Z.log2 (Z.abs x) - 23 <= 0).
  { destruct (Z.eq_dec (Z.abs x) 0) as [E|E]; [rewrite E; simpl; lia|].
    assert (Z.log2 (Z.abs x) < 24) by (apply Z.log2_lt_pow2; lia). lia. }
  replace (Z.log2 (Z.abs x) - 23 <=? 0) with true by lia. reflexivity.
Qed.

(* the statement-level model runs exactly the single-file operations of the refinement theorem *)
Theorem wstep_runs_istep w n x f :
  wget n w = Some x -> fs_open x = Some f ->
  (forall pos p, check_pos pos = Ok p ->
     wstep w (WPut n pos) =
       (wset n (mkFS (fs_disk x) (Some (i_file (fst (istep (mkI f (fs_buf x)) (RPut p))))) (fs_buf x)) w, Ok [])) /\
  (forall pos p, check_pos pos = Ok p ->
     let r := istep (mkI f (fs_buf x)) (RGet p) in
     wstep w (WGet n pos) = (wset n (mkFS (fs_disk x) (Some (i_file (fst r))) (i_buf (fst r))) w, Ok (snd r))) /\
  wstep w (WQuery n) = (w, Ok (as_singles (snd (istep (mkI f (fs_buf x)) RQuery)))) /\
  (forall off wd rj d, 0 <= off -> 0 <= wd -> off + wd <= field_size ->
     wstep w (WField n off wd rj d) =
       (wset n (mkFS (fs_disk x) (Some f) (i_buf (fst (istep (mkI f (fs_buf x)) (RSet off wd rj d))))) w, Ok [])).
Proof.
  intros Hx Hf. repeat split.
  - intros pos p Hc. cbn [wstep]. rewrite Hx, Hf, Hc. reflexivity.
  - intros pos p Hc. cbn [wstep istep i_file i_buf]. rewrite Hx, Hf, Hc.
    destruct (rf_get p f (fs_buf x)) as [f' buf']. reflexivity.
  - cbn [wstep]. rewrite Hx, Hf. reflexivity.
  - intros off wd rj d H1 H2 H3. cbn [wstep]. rewrite Hx, Hf. unfold field_size in *.
    replace ((off <? 0) || (255 <? off) || (wd <? 0) || (255 <? wd)) with false by lia.
    replace ((128 <? off) || (128 <? off + wd)) with false by lia. reflexivity.
Qed.
