(* C43: arrays set from nested lists read back as the same lists.
   from_list writes leaf (i1..ir) of the nested list to subscript (i1+base .. ir+base); to_list reads every
   subscript base..d_k in lexicographic order; the flat position is the regenerated arrays_index, which is
   injective on in-bounds subscripts (C12, proofs/Arrays_index_proofs.v).  Any rank, any sizes, any base >= 0. *)
From Coq Require Import ZArith List Bool Lia ZifyBool.
From PCB Require Import lib.Result lib.PyInt lib.Harness lib.ArraysLib gen.Gen_arrays model.Api.
From PCB Require Import proofs.Api_proofs proofs.Arrays_index_proofs.
Import ListNotations.
Open Scope Z_scope.

(* ------------------------------------------------------------------------------------------------ *)
(* list helpers                                                                                     *)

Lemma replace_nth_length {A} (v : A) : forall k l, length (replace_nth k v l) = length l.
Proof. induction k as [|k IH]; intros [|x l]; simpl; auto. Qed.

Lemma nth_replace_same {A} (v d : A) : forall k l, (k < length l)%nat -> nth k (replace_nth k v l) d = v.
Proof.
  induction k as [|k IH]; intros [|x l] H; simpl in *; try lia; [reflexivity | apply IH; lia].
Qed.

Lemma nth_replace_other {A} (v d : A) : forall k j l, j <> k -> nth j (replace_nth k v l) d = nth j l d.
Proof.
  induction k as [|k IH]; intros j [|x l] H; simpl; try reflexivity.
  - destruct j; [contradiction | reflexivity].
  - destruct j; [reflexivity | apply IH; congruence].
Qed.

Lemma zrange_cons lo n : zrange lo (lo + Z.of_nat (S n)) = lo :: zrange (lo + 1) (lo + 1 + Z.of_nat n).
Proof.
  unfold zrange. replace (Z.to_nat (lo + Z.of_nat (S n) - lo)) with (S n) by lia.
  replace (Z.to_nat (lo + 1 + Z.of_nat n - (lo + 1))) with n by lia.
  cbn [seq map]. f_equal; [lia|]. rewrite <- seq_shift, map_map. apply map_ext. intros k. lia.
Qed.

Lemma zrange_nil lo : zrange lo (lo + Z.of_nat 0) = [].
Proof. unfold zrange. replace (Z.to_nat (lo + Z.of_nat 0 - lo)) with O by lia. reflexivity. Qed.

Lemma in_zrange i lo hi : In i (zrange lo hi) -> lo <= i < hi.
Proof.
  unfold zrange. rewrite in_map_iff. intros (k & E & Hk). apply in_seq in Hk. lia.
Qed.

Lemma mapM_ext_in {A B} (f g : A -> res B) l : (forall x, In x l -> f x = g x) -> mapM f l = mapM g l.
Proof.
  induction l as [|x l IH]; intros H; simpl; [reflexivity|].
  rewrite (H x (or_introl eq_refl)). rewrite IH by (intros y Hy; apply H; right; exact Hy). reflexivity.
Qed.

Lemma mapM_zrange_nth {B} (f : Z -> res B) (dy : B) : forall (ys : list B) lo,
  (forall j, (j < length ys)%nat -> f (lo + Z.of_nat j) = Ok (nth j ys dy)) ->
  mapM f (zrange lo (lo + Z.of_nat (length ys))) = Ok ys.
Proof.
  induction ys as [|y ys IH]; intros lo H.
  - cbn [length]. rewrite zrange_nil. reflexivity.
  - cbn [length]. rewrite zrange_cons. cbn [mapM].
    pose proof (H O ltac:(simpl; lia)) as H0. replace (lo + Z.of_nat 0) with lo in H0 by lia. rewrite H0. cbn [bind nth].
    rewrite IH; [reflexivity|]. intros j Hj. pose proof (H (S j) ltac:(simpl; lia)) as Hs.
    replace (lo + 1 + Z.of_nat j) with (lo + Z.of_nat (S j)) by lia. exact Hs.
Qed.

(* subscript tuples that start with a given prefix *)
Definition extends (p idx : list Z) : Prop := exists s, idx = p ++ s.

Lemma extends_snoc p x idx : extends (p ++ [x]) idx -> extends p idx.
Proof. intros [s ->]. exists (x :: s). rewrite <- app_assoc. reflexivity. Qed.

Lemma extends_diff p x y idx : extends (p ++ [x]) idx -> extends (p ++ [y]) idx -> x = y.
Proof.
  intros [s1 ->] [s2 E]. rewrite <- !app_assoc in E. apply app_inv_head in E. simpl in E. congruence.
Qed.

Lemma extends_refl p : extends p p.
Proof. exists []. rewrite app_nil_r. reflexivity. Qed.

Lemma in_bounds_app b d1 d2 i1 i2 : in_bounds b d1 i1 -> in_bounds b d2 i2 -> in_bounds b (d1 ++ d2) (i1 ++ i2).
Proof. unfold in_bounds. intros. apply Forall2_app; assumption. Qed.

Lemma in_bounds_one b d i : b <= i <= d -> in_bounds b [d] [i].
Proof. intros. constructor; [assumption | constructor]. Qed.

(* ------------------------------------------------------------------------------------------------ *)
(* one array of a session                                                                           *)

Section OneArray.
  Variable E : env.
  Variable n : list Z.          (* the array's (upper-case) name, e.g. "A%" *)
  Variable b : Z.               (* OPTION BASE *)
  Variable dims : list Z.
  Hypothesis Hb : 0 <= b.

  Let sg := sigil_of n.
  Let dflt := sval_default (sigil_of n).

  (* the session knows the array with these bounds, base set *)
  Definition WF (st : state) : Prop :=
    s_base st = Some b /\
    exists elems, alookup (s_arrays st) n = Some (mkArr dims elems) /\
                  Z.of_nat (length elems) = radix_prod b dims.

  Definition rd (st : state) (idx : list Z) : res sval := snd (elem_get st n idx).

  Lemma base_or0_wf st : WF st -> base_or0 st = b.
  Proof. intros [H _]. unfold base_or0. rewrite H. reflexivity. Qed.

  Lemma check_dim_wf st idx : WF st -> in_bounds b dims idx -> check_dim st n idx = (st, Ok dims).
  Proof.
    intros [HB (elems & HL & _)] Hin. unfold check_dim. rewrite HL. cbn [bindS a_dims]. rewrite HL, HB.
    rewrite (proj2 (check_subscripts_ok b idx dims Hb) Hin). reflexivity.
  Qed.

  Lemma elem_get_wf st idx elems : WF st -> alookup (s_arrays st) n = Some (mkArr dims elems) ->
    in_bounds b dims idx ->
    elem_get st n idx = (st, Ok (nth (Z.to_nat (index_spec b idx dims)) elems dflt)).
  Proof.
    intros W HL Hin. unfold elem_get. rewrite check_dim_wf by assumption. cbn [bindS]. rewrite HL.
    rewrite base_or0_wf by exact W. rewrite arrays_index_spec by (apply in_bounds_length with (b := b); exact Hin).
    reflexivity.
  Qed.

  Lemma get_ok st idx : WF st -> in_bounds b dims idx -> exists x, rd st idx = Ok x.
  Proof.
    intros W Hin. destruct W as [HB (elems & HL & Hlen)] eqn:EW.
    assert (W' : WF st) by (split; [exact HB | exists elems; split; assumption]).
    unfold rd. rewrite (elem_get_wf st idx elems W' HL Hin). eexists. reflexivity.
  Qed.

  (* a write succeeds, keeps the array well formed, is read back, and changes no other element *)
  Lemma set_ok st idx v : WF st -> in_bounds b dims idx ->
    exists st', elem_set st n idx v = (st', Ok tt) /\ WF st' /\ rd st' idx = Ok v /\
                (forall idx', in_bounds b dims idx' -> idx' <> idx -> rd st' idx' = rd st idx').
  Proof.
    intros W Hin. destruct W as [HB (elems & HL & Hlen)].
    assert (W : WF st) by (split; [exact HB | exists elems; split; assumption]).
    pose proof (index_spec_range b dims idx Hin) as Hr.
    set (k := Z.to_nat (index_spec b idx dims)).
    set (st' := mkSt (s_base st) (s_scalars st)
                     (aupdate (s_arrays st) n (mkArr dims (replace_nth k v elems)))).
    assert (Hset : elem_set st n idx v = (st', Ok tt)).
    { unfold elem_set. rewrite check_dim_wf by assumption. cbn [bindS]. rewrite HL.
      rewrite base_or0_wf by exact W.
      rewrite arrays_index_spec by (apply in_bounds_length with (b := b); exact Hin). cbn [bindS a_dims a_elems].
      reflexivity. }
    assert (HL' : alookup (s_arrays st') n = Some (mkArr dims (replace_nth k v elems))).
    { unfold st'. cbn [s_arrays]. apply alookup_aupdate_same. }
    assert (W' : WF st').
    { split; [exact HB|]. exists (replace_nth k v elems). split; [exact HL'|]. rewrite replace_nth_length. exact Hlen. }
    exists st'. split; [exact Hset|]. split; [exact W'|]. split.
    - unfold rd. rewrite (elem_get_wf st' idx _ W' HL' Hin). cbn [snd]. f_equal. apply nth_replace_same. unfold k. lia.
    - intros idx' Hin' Hne. unfold rd.
      rewrite (elem_get_wf st' idx' _ W' HL' Hin'), (elem_get_wf st idx' _ W HL Hin'). cbn [snd]. f_equal.
      apply nth_replace_other. unfold k. intros Heq.
      pose proof (index_spec_range b dims idx' Hin').
      apply Hne. apply (index_spec_injective b dims); try assumption. lia.
  Qed.

  (* ---------------------------------------------------------------------------------------------- *)
  (* to_list reads only the elements below its prefix                                               *)

  Lemma to_list_aux_leaf st idx d :
    to_list_aux st n b idx [d]
    = rmap PList (mapM (fun i => rmap (to_value (sigil_of n)) (snd (elem_get st n (idx ++ [i])))) (zrange b (d + 1))).
  Proof. reflexivity. Qed.

  Lemma to_list_aux_cons st idx d d2 rest :
    to_list_aux st n b idx (d :: d2 :: rest)
    = rmap PList (mapM (fun i => to_list_aux st n b (idx ++ [i]) (d2 :: rest)) (zrange b (d + 1))).
  Proof. reflexivity. Qed.

  Lemma to_list_frame st1 st2 : forall rem dpre prefix,
    dims = dpre ++ rem -> in_bounds b dpre prefix ->
    (forall idx, extends prefix idx -> in_bounds b dims idx -> rd st1 idx = rd st2 idx) ->
    to_list_aux st1 n b prefix rem = to_list_aux st2 n b prefix rem.
  Proof.
    induction rem as [|d rest IH]; intros dpre prefix Hd Hp H; [reflexivity|].
    destruct rest as [|d2 rest].
    - rewrite !to_list_aux_leaf. f_equal. apply mapM_ext_in. intros i Hi. apply in_zrange in Hi.
      f_equal. apply (H (prefix ++ [i])); [exists [i]; reflexivity|].
      rewrite Hd. apply in_bounds_app; [exact Hp | apply in_bounds_one; lia].
    - rewrite !to_list_aux_cons. f_equal. apply mapM_ext_in. intros i Hi. apply in_zrange in Hi.
      apply (IH (dpre ++ [d]) (prefix ++ [i])).
      + rewrite Hd, <- app_assoc. reflexivity.
      + apply in_bounds_app; [exact Hp | apply in_bounds_one; lia].
      + intros idx He Hin. apply H; [eapply extends_snoc; exact He | exact Hin].
  Qed.

  (* ---------------------------------------------------------------------------------------------- *)
  (* regular nested lists                                                                           *)

  (* a leaf: not a list, and Values.from_value accepts it for this array's type *)
  Definition leafP (x : pyval) : Prop :=
    (forall l, x <> PList l) /\ exists sv, from_value E (sigil_of n) x = Ok sv.

  (* what a stored leaf reads back as *)
  Definition rt_leaf (x : pyval) : pyval :=
    match from_value E (sigil_of n) x with Ok sv => to_value (sigil_of n) sv | _ => PNone end.

  (* nested list of constant shape sh = [n1; ..; nr], all sizes >= 1 *)
  Fixpoint shaped (sh : list nat) (v : pyval) {struct sh} : Prop :=
    match sh with
    | [] => False
    | k :: sh' =>
        exists items, v = PList items /\ length items = k /\ (0 < k)%nat /\
                      match sh' with
                      | [] => Forall leafP items
                      | _ :: _ => Forall (shaped sh') items
                      end
    end.

  Fixpoint rt (sh : list nat) (v : pyval) {struct sh} : pyval :=
    match sh with
    | [] => v
    | _ :: sh' =>
        match v with
        | PList items => PList (map (match sh' with [] => rt_leaf | _ :: _ => rt sh' end) items)
        | _ => v
        end
    end.

  Definition dims_of (sh : list nat) : list Z := map (fun k => Z.of_nat k - 1 + b) sh.

  (* the recursion of _from_list over the items of one level *)
  Definition fl_loop (idx : list Z) : list pyval -> Z -> state -> state * res unit :=
    fix go (items : list pyval) (i : Z) (st : state) {struct items} : state * res unit :=
      match items with
      | [] => (st, Ok tt)
      | x :: r => bindS (from_list_aux E n b x (idx ++ [i + b]) st) (fun st1 _ => go r (i + 1) st1)
      end.

  Lemma from_list_aux_nested l0 r idx st :
    from_list_aux E n b (PList (PList l0 :: r)) idx st = fl_loop idx (PList l0 :: r) 0 st.
  Proof. reflexivity. Qed.

  Lemma from_list_aux_leaves x r idx st : (forall l, x <> PList l) ->
    from_list_aux E n b (PList (x :: r)) idx st = set_leaves E n b idx (x :: r) 0 st.
  Proof. intros H. destruct x; try reflexivity. exfalso. eapply H. reflexivity. Qed.

  (* ---- leaf level ---- *)
  Lemma set_leaves_ok : forall items i0 st prefix dpre d,
    WF st -> dims = dpre ++ [d] -> in_bounds b dpre prefix -> Forall leafP items ->
    0 <= i0 -> i0 + Z.of_nat (length items) <= d + 1 - b ->
    exists st', set_leaves E n b prefix items i0 st = (st', Ok tt) /\ WF st' /\
      (forall idx, in_bounds b dims idx ->
                   (forall j, i0 <= j < i0 + Z.of_nat (length items) -> idx <> prefix ++ [j + b]) ->
                   rd st' idx = rd st idx) /\
      (forall j, (j < length items)%nat ->
                 rd st' (prefix ++ [i0 + Z.of_nat j + b]) = from_value E (sigil_of n) (nth j items PNone)).
  Proof.
    induction items as [|x r IH]; intros i0 st prefix dpre d W Hd Hp HF Hi Hlen.
    - exists st. split; [reflexivity|]. split; [exact W|]. split; [reflexivity|]. intros j Hj. simpl in Hj. lia.
    - inversion HF as [|x0 r0 Hx Hr]; subst x0 r0. destruct Hx as (Hnl & sv & Hsv).
      cbn [length] in Hlen.
      assert (Hin0 : in_bounds b dims (prefix ++ [i0 + b])).
      { rewrite Hd. apply in_bounds_app; [exact Hp | apply in_bounds_one; lia]. }
      destruct (set_ok st (prefix ++ [i0 + b]) sv W Hin0) as (st1 & Hset & W1 & Hsame & Hother).
      destruct (IH (i0 + 1) st1 prefix dpre d W1 Hd Hp Hr ltac:(lia) ltac:(lia))
        as (st' & Hrun & W' & Hframe & Hread).
      exists st'. split.
      { cbn [set_leaves]. rewrite Hsv. cbn [bindS]. rewrite Hset. cbn [bindS]. exact Hrun. }
      split; [exact W'|]. split.
      + intros idx Hin Hne. rewrite Hframe.
        * apply Hother; [exact Hin|]. apply Hne. cbn [length]. lia.
        * exact Hin.
        * intros j Hj. apply Hne. cbn [length]. lia.
      + intros j Hj. destruct j as [|j].
        * cbn [nth]. replace (i0 + Z.of_nat 0 + b) with (i0 + b) by lia. rewrite Hframe.
          -- rewrite Hsame. symmetry. exact Hsv.
          -- exact Hin0.
          -- intros j Hj2 Heq. apply app_inv_head in Heq. injection Heq as Heq. lia.
        * cbn [nth]. replace (i0 + Z.of_nat (S j) + b) with (i0 + 1 + Z.of_nat j + b) by lia.
          apply Hread. cbn [length] in Hj. lia.
  Qed.

  (* ---- one nested level, given the statement for the inner shape ---- *)
  Definition level_ok (sh : list nat) : Prop :=
    forall v dpre prefix st, shaped sh v -> WF st -> dims = dpre ++ dims_of sh -> in_bounds b dpre prefix ->
    exists st', from_list_aux E n b v prefix st = (st', Ok tt) /\ WF st' /\
      (forall idx, in_bounds b dims idx -> ~ extends prefix idx -> rd st' idx = rd st idx) /\
      to_list_aux st' n b prefix (dims_of sh) = Ok (rt sh v).

  Lemma fl_loop_ok sh' : sh' <> [] -> level_ok sh' ->
    forall items i0 st prefix dpre d,
    WF st -> dims = dpre ++ d :: dims_of sh' -> in_bounds b dpre prefix -> Forall (shaped sh') items ->
    0 <= i0 -> i0 + Z.of_nat (length items) <= d + 1 - b ->
    exists st', fl_loop prefix items i0 st = (st', Ok tt) /\ WF st' /\
      (forall idx, in_bounds b dims idx ->
                   (forall j, i0 <= j < i0 + Z.of_nat (length items) -> ~ extends (prefix ++ [j + b]) idx) ->
                   rd st' idx = rd st idx) /\
      (forall j, (j < length items)%nat ->
                 to_list_aux st' n b (prefix ++ [i0 + Z.of_nat j + b]) (dims_of sh')
                 = Ok (rt sh' (nth j items PNone))).
  Proof.
    intros Hne IHsh. induction items as [|x r IH]; intros i0 st prefix dpre d W Hd Hp HF Hi Hlen.
    - exists st. split; [reflexivity|]. split; [exact W|]. split; [reflexivity|]. intros j Hj. simpl in Hj. lia.
    - inversion HF as [|x0 r0 Hx Hr]; subst x0 r0. cbn [length] in Hlen.
      assert (Hd' : dims = (dpre ++ [d]) ++ dims_of sh') by (rewrite Hd, <- app_assoc; reflexivity).
      assert (Hp' : in_bounds b (dpre ++ [d]) (prefix ++ [i0 + b])).
      { apply in_bounds_app; [exact Hp | apply in_bounds_one; lia]. }
      destruct (IHsh x (dpre ++ [d]) (prefix ++ [i0 + b]) st Hx W Hd' Hp')
        as (st1 & Hrun1 & W1 & Hframe1 & Hread1).
      destruct (IH (i0 + 1) st1 prefix dpre d W1 Hd Hp Hr ltac:(lia) ltac:(lia))
        as (st' & Hrun & W' & Hframe & Hread).
      exists st'. split.
      { change (fl_loop prefix (x :: r) i0 st)
          with (bindS (from_list_aux E n b x (prefix ++ [i0 + b]) st) (fun st1 _ => fl_loop prefix r (i0 + 1) st1)).
        rewrite Hrun1. cbn [bindS]. exact Hrun. }
      split; [exact W'|]. split.
      + intros idx Hin Hnx. rewrite Hframe.
        * apply Hframe1; [exact Hin|]. apply Hnx. cbn [length]. lia.
        * exact Hin.
        * intros j Hj. apply Hnx. cbn [length]. lia.
      + intros j Hj. destruct j as [|j].
        * cbn [nth]. replace (i0 + Z.of_nat 0 + b) with (i0 + b) by lia. rewrite <- Hread1.
          apply (to_list_frame st' st1 (dims_of sh') (dpre ++ [d]) (prefix ++ [i0 + b]) Hd' Hp').
          intros idx He Hin. apply Hframe; [exact Hin|].
          intros j Hj2 He2. pose proof (extends_diff prefix _ _ idx He He2). lia.
        * cbn [nth]. replace (i0 + Z.of_nat (S j) + b) with (i0 + 1 + Z.of_nat j + b) by lia.
          apply Hread. cbn [length] in Hj. lia.
  Qed.

  (* ---- all shapes ---- *)
  Theorem from_to_list_aux : forall sh, sh <> [] -> level_ok sh.
  Proof.
    induction sh as [|k sh' IH]; intros Hne; [contradiction|].
    intros v dpre prefix st Hs W Hd Hp.
    destruct Hs as (items & -> & Hlen & Hk & Hitems).
    destruct sh' as [|k2 sh''].
    - (* leaves *)
      destruct items as [|x r]; [simpl in Hlen; lia|].
      assert (Hx : forall l, x <> PList l) by (inversion Hitems as [|? ? [H _] _]; exact H).
      cbn [dims_of map] in Hd |- *.
      destruct (set_leaves_ok (x :: r) 0 st prefix dpre (Z.of_nat k - 1 + b) W Hd Hp Hitems ltac:(lia) ltac:(lia))
        as (st' & Hrun & W' & Hframe & Hread).
      exists st'. split; [rewrite from_list_aux_leaves by exact Hx; exact Hrun|]. split; [exact W'|]. split.
      + intros idx Hin Hnx. apply Hframe; [exact Hin|]. intros j Hj Heq. apply Hnx. exists [j + b]. exact Heq.
      + rewrite to_list_aux_leaf. cbn [rt].
        replace (Z.of_nat k - 1 + b + 1) with (b + Z.of_nat (length (map rt_leaf (x :: r))))
          by (rewrite map_length, Hlen; lia).
        rewrite (mapM_zrange_nth _ (rt_leaf PNone) (map rt_leaf (x :: r))); [reflexivity|].
        intros j Hj. rewrite map_length in Hj. rewrite map_nth.
        fold (rd st' (prefix ++ [b + Z.of_nat j])).
        replace (b + Z.of_nat j) with (0 + Z.of_nat j + b) by lia. rewrite (Hread j Hj).
        assert (HP : leafP (nth j (x :: r) PNone)) by (apply Forall_nth; assumption).
        destruct HP as (_ & sv & Hsv). unfold rt_leaf. rewrite Hsv. reflexivity.
    - (* nested *)
      assert (Hne' : k2 :: sh'' <> []) by discriminate.
      specialize (IH Hne').
      destruct items as [|x r]; [simpl in Hlen; lia|].
      assert (Hx : exists l0, x = PList l0).
      { inversion Hitems as [|? ? H _]. destruct H as (l0 & -> & _). exists l0. reflexivity. }
      destruct Hx as (l0 & ->).
      change (dims_of (k :: k2 :: sh'')) with ((Z.of_nat k - 1 + b) :: dims_of (k2 :: sh'')) in Hd |- *.
      destruct (fl_loop_ok (k2 :: sh'') Hne' IH (PList l0 :: r) 0 st prefix dpre (Z.of_nat k - 1 + b) W Hd Hp Hitems
                  ltac:(lia) ltac:(lia)) as (st' & Hrun & W' & Hframe & Hread).
      exists st'. split; [rewrite from_list_aux_nested; exact Hrun|]. split; [exact W'|]. split.
      + intros idx Hin Hnx. apply Hframe; [exact Hin|]. intros j Hj He. apply Hnx. eapply extends_snoc. exact He.
      + change (dims_of (k2 :: sh'')) with ((Z.of_nat k2 - 1 + b) :: dims_of sh'') in Hread |- *.
        rewrite to_list_aux_cons. cbn [rt].
        replace (Z.of_nat k - 1 + b + 1) with (b + Z.of_nat (length (map (rt (k2 :: sh'')) (PList l0 :: r))))
          by (rewrite map_length, Hlen; lia).
        rewrite (mapM_zrange_nth _ (rt (k2 :: sh'') PNone) (map (rt (k2 :: sh'')) (PList l0 :: r))); [reflexivity|].
        intros j Hj. rewrite map_length in Hj. rewrite map_nth.
        replace (b + Z.of_nat j) with (0 + Z.of_nat j + b) by lia. apply Hread. exact Hj.
  Qed.
End OneArray.

(* ------------------------------------------------------------------------------------------------ *)
(* at the level of Session.set_variable / get_variable                                              *)

Lemma rt_nonempty E n sh v : sh <> [] -> shaped E n sh v -> exists x r, rt E n sh v = PList (x :: r).
Proof.
  destruct sh as [|k sh']; [contradiction|]. intros _ (items & -> & Hlen & Hk & _).
  destruct items as [|x r]; [simpl in Hlen; lia|]. cbn [rt map]. eexists. eexists. reflexivity.
Qed.

(* an array dimensioned to the list's shape (bounds n_k - 1 + base): set_variable succeeds and get_variable
   returns the list with every leaf replaced by what from_value / to_value make of it *)
Theorem list_roundtrip E st name base sg b sh v v' elems :
  array_name name base sg -> 0 <= b -> s_base st = Some b ->
  alookup (s_arrays st) base = Some (mkArr (dims_of b sh) elems) ->
  Z.of_nat (length elems) = radix_prod b (dims_of b sh) ->
  sh <> [] -> to_basic E v = Ok v' -> shaped E base sh v' ->
  snd (set_variable E st name v) = Ok tt /\
  get_variable E (fst (set_variable E st name v)) name 0 = Ok (rt E base sh v').
Proof.
  intros Hn Hb HB HL Hlen Hne Htb Hsh.
  pose proof (array_sigil_explicit _ _ _ Hn) as Hs. destruct Hn as ((rest & En) & N1 & N2 & N3).
  assert (W : WF base b (dims_of b sh) st) by (split; [exact HB | exists elems; split; assumption]).
  destruct (from_to_list_aux E base b (dims_of b sh) Hb sh Hne v' [] [] st Hsh W eq_refl (Forall2_nil _))
    as (st' & Hrun & W' & _ & Hread).
  assert (Hset : set_variable E st name v = (st', Ok tt)).
  { unfold set_variable. rewrite Hs. cbn [negb]. rewrite Htb. cbn [bindS]. rewrite En, has_paren_app.
    rewrite before_paren_app by exact N1. unfold from_list. rewrite (base_or0_wf base b _ st W). exact Hrun. }
  rewrite Hset. cbn [fst snd]. split; [reflexivity|].
  unfold get_variable. rewrite Hs. cbn [negb]. rewrite En, has_paren_app, before_paren_app by exact N1.
  destruct W' as [HB' (elems' & HL' & _)].
  unfold to_list. rewrite HL'. cbn [a_dims]. unfold base_or0. rewrite HB'. rewrite Hread. cbn [bind].
  destruct (rt_nonempty E base sh v' Hne Hsh) as (x & r & ->). reflexivity.
Qed.

(* ------------------------------------------------------------------------------------------------ *)
(* leaves that come back unchanged: the list itself is read back                                    *)

Definition tb_list (E : env) : list pyval -> res (list pyval) :=
  fix go (l : list pyval) : res (list pyval) :=
    match l with
    | [] => Ok []
    | x :: r => do x' <- to_basic E x; do r' <- go r; Ok (x' :: r')
    end.

Lemma to_basic_list E l : to_basic E (PList l) = rmap PList (tb_list E l).
Proof. reflexivity. Qed.

Lemma to_basic_list_id E l : Forall (fun x => to_basic E x = Ok x) l -> to_basic E (PList l) = Ok (PList l).
Proof.
  intros H. rewrite to_basic_list. assert (G : tb_list E l = Ok l); [|rewrite G; reflexivity].
  induction H as [|x r Hx Hr IH]; [reflexivity|].
  change (tb_list E (x :: r)) with (do x' <- to_basic E x; do r' <- tb_list E r; Ok (x' :: r')).
  rewrite Hx. cbn [bind]. rewrite IH. reflexivity.
Qed.

Section FaithfulLeaves.
  Variable E : env.
  Variable n : list Z.
  Variable Q : pyval -> Prop.
  Hypothesis HQ : forall x, Q x ->
    (forall l, x <> PList l) /\ to_basic E x = Ok x /\
    exists sv, from_value E (sigil_of n) x = Ok sv /\ to_value (sigil_of n) sv = x.

  Fixpoint nested (sh : list nat) (v : pyval) {struct sh} : Prop :=
    match sh with
    | [] => False
    | k :: sh' =>
        exists items, v = PList items /\ length items = k /\ (0 < k)%nat /\
                      match sh' with
                      | [] => Forall Q items
                      | _ :: _ => Forall (nested sh') items
                      end
    end.

  Lemma nested_facts : forall sh v, nested sh v ->
    shaped E n sh v /\ rt E n sh v = v /\ to_basic E v = Ok v.
  Proof.
    induction sh as [|k sh' IH]; intros v H; [contradiction|].
    destruct H as (items & -> & Hlen & Hk & Hitems). destruct sh' as [|k2 sh''].
    - assert (F1 : Forall (leafP E n) items).
      { eapply Forall_impl; [|exact Hitems]. intros x Hx. destruct (HQ x Hx) as (A & _ & sv & B & _).
        split; [exact A | exists sv; exact B]. }
      assert (F2 : map (rt_leaf E n) items = items).
      { rewrite <- (map_id items) at 2. apply map_ext_in. intros x Hx.
        rewrite Forall_forall in Hitems. destruct (HQ x (Hitems x Hx)) as (_ & _ & sv & B & C).
        unfold rt_leaf. rewrite B. exact C. }
      assert (F3 : Forall (fun x => to_basic E x = Ok x) items).
      { eapply Forall_impl; [|exact Hitems]. intros x Hx. destruct (HQ x Hx) as (_ & A & _). exact A. }
      split; [exists items; repeat split; assumption|]. split; [cbn [rt]; rewrite F2; reflexivity|].
      apply to_basic_list_id, F3.
    - assert (G : Forall (fun x => shaped E n (k2 :: sh'') x /\ rt E n (k2 :: sh'') x = x /\ to_basic E x = Ok x) items).
      { eapply Forall_impl; [|exact Hitems]. intros x Hx. apply IH, Hx. }
      assert (F1 : Forall (shaped E n (k2 :: sh'')) items) by (eapply Forall_impl; [|exact G]; intros x Hx; apply Hx).
      assert (F2 : map (rt E n (k2 :: sh'')) items = items).
      { rewrite <- (map_id items) at 2. apply map_ext_in. intros x Hx.
        rewrite Forall_forall in G. apply (G x Hx). }
      assert (F3 : Forall (fun x => to_basic E x = Ok x) items) by (eapply Forall_impl; [|exact G]; intros x Hx; apply Hx).
      split; [exists items; repeat split; assumption|]. split.
      { change (rt E n (k :: k2 :: sh'') (PList items)) with (PList (map (rt E n (k2 :: sh'')) items)).
        rewrite F2. reflexivity. }
      apply to_basic_list_id, F3.
  Qed.
End FaithfulLeaves.

(* integers -32768..32767 in an integer array *)
Definition int_leaf (x : pyval) : Prop := exists k, x = PInt k /\ in16 k.

Lemma int_leaf_faithful E n : sigil_of n = sg_int -> forall x, int_leaf x ->
  (forall l, x <> PList l) /\ to_basic E x = Ok x /\
  exists sv, from_value E (sigil_of n) x = Ok sv /\ to_value (sigil_of n) sv = x.
Proof.
  intros Hs x (k & -> & Hk). split; [discriminate|]. split; [reflexivity|].
  exists (SNum (int_pack k)). rewrite Hs. unfold from_value, to_value.
  change (sg_int =? sg_str) with false. change (sg_int =? sg_int) with true. cbv iota.
  rewrite int_from_value_ok by exact Hk. split; [reflexivity|]. rewrite int_unpack_pack by exact Hk. reflexivity.
Qed.

(* byte strings of at most 255 bytes in a string array *)
Definition bytes_leaf (x : pyval) : Prop := exists s, x = PBytes s /\ zlen s <= 255.

Lemma bytes_leaf_faithful E n : sigil_of n = sg_str -> forall x, bytes_leaf x ->
  (forall l, x <> PList l) /\ to_basic E x = Ok x /\
  exists sv, from_value E (sigil_of n) x = Ok sv /\ to_value (sigil_of n) sv = x.
Proof.
  intros Hs x (s & -> & Hk). split; [discriminate|]. split; [reflexivity|].
  exists (SStr s). rewrite Hs. unfold from_value, to_value. change (sg_str =? sg_str) with true. cbv iota.
  destruct (255 <? zlen s) eqn:EL; [lia|]. split; reflexivity.
Qed.

(* to_list (from_list l) = l *)
Theorem list_roundtrip_faithful E st name base sg b sh v elems (Q : pyval -> Prop) :
  (forall x, Q x -> (forall l, x <> PList l) /\ to_basic E x = Ok x /\
                    exists sv, from_value E (sigil_of base) x = Ok sv /\ to_value (sigil_of base) sv = x) ->
  array_name name base sg -> 0 <= b -> s_base st = Some b ->
  alookup (s_arrays st) base = Some (mkArr (dims_of b sh) elems) ->
  Z.of_nat (length elems) = radix_prod b (dims_of b sh) ->
  sh <> [] -> nested Q sh v ->
  snd (set_variable E st name v) = Ok tt /\
  get_variable E (fst (set_variable E st name v)) name 0 = Ok v.
Proof.
  intros HQ Hn Hb HB HL Hlen Hne Hv.
  destruct (nested_facts E base Q HQ sh v Hv) as (Hsh & Hrt & Htb).
  pose proof (list_roundtrip E st name base sg b sh v v elems Hn Hb HB HL Hlen Hne Htb Hsh) as H.
  rewrite Hrt in H. exact H.
Qed.

(* DIM name(dims) on a session that does not know the array yet establishes the hypotheses above *)
Lemma py_any_false_forall p l : Forall (fun x => p x = false) l -> py_any p l = false.
Proof. unfold py_any. induction 1 as [|x r Hx Hr IH]; simpl; [reflexivity | rewrite Hx, IH; reflexivity]. Qed.

Theorem dim_establishes st base b dims : 0 <= b -> dims <> [] -> dims_ok b dims ->
  (s_base st = Some b \/ (s_base st = None /\ b = 0)) -> alookup (s_arrays st) base = None ->
  exists st', allocate st base dims = (st', Ok tt) /\ s_base st' = Some b /\
    exists elems, alookup (s_arrays st') base = Some (mkArr dims elems) /\
                  Z.of_nat (length elems) = radix_prod b dims /\ s_scalars st' = s_scalars st.
Proof.
  intros Hb Hne Hok HB HL. destruct dims as [|d0 dr]; [contradiction|]. set (dims := d0 :: dr) in *.
  assert (Hneg : arrays_allocate_negative dims = Ok tt).
  { unfold arrays_allocate_negative. rewrite py_any_false_forall; [reflexivity|].
    eapply Forall_impl; [|exact Hok]. intros x Hx. cbv beta in Hx |- *. lia. }
  assert (Hbel : arrays_allocate_below_base b dims = Ok tt).
  { unfold arrays_allocate_below_base. rewrite py_any_false_forall; [reflexivity|].
    eapply Forall_impl; [|exact Hok]. intros x Hx. cbv beta in Hx |- *. lia. }
  pose proof (radix_prod_pos b dims Hok) as Hpos.
  unfold allocate. fold dims. rewrite HL, Hneg. cbn [bindS].
  destruct HB as [HB|[HB ->]]; rewrite HB; cbn [bindS].
  - rewrite Hbel. cbn [bindS]. unfold base_or0. rewrite HB. rewrite arrays_flat_length_spec by exact Hok. cbn [bindS].
    eexists. split; [reflexivity|]. cbn [s_base s_arrays s_scalars]. split; [first [exact HB | reflexivity]|].
    eexists. split; [apply alookup_aupdate_same|]. split; [|reflexivity]. rewrite repeat_length. lia.
  - unfold base_or0. cbn [s_base]. rewrite arrays_flat_length_spec by exact Hok. cbn [bindS].
    eexists. split; [reflexivity|]. cbn [s_base s_arrays s_scalars]. split; [reflexivity|].
    eexists. split; [apply alookup_aupdate_same|]. split; [|reflexivity]. rewrite repeat_length. lia.
Qed.
