(* C28 / C27: lemmas about the DOS-name algebra of model/DosNames.v *)
From Coq Require Import ZArith List Bool Lia.
From PCB Require Import lib.Result lib.PyInt lib.Harness gen.Gen_dosnames model.DosNames.
Import ListNotations.
Open Scope Z_scope.

(* ---------- firstn (kept folded by simpl below) ---------- *)
Lemma In_firstn {A} n (l : list A) x : In x (firstn n l) -> In x l.
Proof.
  revert l; induction n; intros [|y l]; simpl; try tauto.
  intros [H|H]; [left; exact H | right; apply IHn; exact H].
Qed.

Lemma firstn3_dot e : firstn 3 e = [c_dot] -> e = [c_dot].
Proof. destruct e as [|a [|b [|c r]]]; simpl; intro H; try discriminate; auto. Qed.

Lemma firstn_nil {A} n (l : list A) : firstn (S n) l = [] -> l = [].
Proof. destruct l; simpl; [auto | discriminate]. Qed.

Local Arguments firstn : simpl never.

(* ---------- basics ---------- *)
Lemma seqb_eq a b : seqb a b = true <-> a = b.
Proof. apply list_Z_eqb_eq. Qed.

Lemma seqb_refl a : seqb a a = true.
Proof. apply seqb_eq. reflexivity. Qed.

Lemma seqb_neq a b : seqb a b = false <-> a <> b.
Proof.
  split; intro H.
  - intro E. apply seqb_eq in E. congruence.
  - destruct (seqb a b) eqn:E; [apply seqb_eq in E; contradiction | reflexivity].
Qed.

Lemma mem_In c s : mem c s = true <-> In c s.
Proof.
  unfold mem. rewrite existsb_exists. split.
  - intros [x [Hx E]]. apply Z.eqb_eq in E. subst. exact Hx.
  - intro H. exists c. split; [exact H | apply Z.eqb_refl].
Qed.

Lemma mem_not_In c s : mem c s = false <-> ~ In c s.
Proof.
  split; intro H.
  - intro I. apply mem_In in I. congruence.
  - destruct (mem c s) eqn:E; [apply mem_In in E; contradiction | reflexivity].
Qed.

Lemma is_special_spec s : is_special s = true <-> s = s_dot \/ s = s_dotdot.
Proof. unfold is_special. rewrite orb_true_iff, !seqb_eq. tauto. Qed.

Lemma is_special_false s : is_special s = false <-> s <> s_dot /\ s <> s_dotdot.
Proof. unfold is_special. rewrite orb_false_iff, !seqb_neq. tauto. Qed.

(* ---------- upper ---------- *)
Lemma upc_idem c : upc (upc c) = upc c.
Proof.
  unfold upc. destruct ((97 <=? c) && (c <=? 122)) eqn:E.
  - apply andb_true_iff in E as [E1 E2]. apply Z.leb_le in E1, E2.
    destruct ((97 <=? c - 32) && (c - 32 <=? 122)) eqn:F; [|reflexivity].
    apply andb_true_iff in F as [F1 F2]. apply Z.leb_le in F1, F2. lia.
  - rewrite E. reflexivity.
Qed.

Lemma upper_idem s : upper (upper s) = upper s.
Proof. unfold upper. rewrite map_map. apply map_ext. apply upc_idem. Qed.

(* characters that are not letters are images only of themselves *)
Lemma upc_nonletter c d : (d < 65 \/ 90 < d) -> upc c = d -> c = d.
Proof.
  unfold upc. intros Hd. destruct ((97 <=? c) && (c <=? 122)) eqn:E; [|auto].
  apply andb_true_iff in E as [E1 E2]. apply Z.leb_le in E1, E2. lia.
Qed.

Lemma upc_nonletter_fix d : (d < 65 \/ 90 < d) -> (d < 97 \/ 122 < d) -> upc d = d.
Proof.
  unfold upc. intros H1 H2. destruct ((97 <=? d) && (d <=? 122)) eqn:E; [|auto].
  apply andb_true_iff in E as [E1 E2]. apply Z.leb_le in E1, E2. lia.
Qed.

Lemma upper_In_nonletter d s : (d < 65 \/ 90 < d) -> In d (upper s) -> In d s.
Proof.
  intros Hd H. unfold upper in H. apply in_map_iff in H as [c [E I]].
  apply upc_nonletter in E; [subst; exact I | exact Hd].
Qed.

Lemma upper_In_fix d s : (d < 65 \/ 90 < d) -> (d < 97 \/ 122 < d) -> In d s -> In d (upper s).
Proof.
  intros H1 H2 I. unfold upper. apply in_map_iff. exists d. split; [apply upc_nonletter_fix; assumption | exact I].
Qed.

Lemma upper_eq_dot s : upper s = s_dot -> s = s_dot.
Proof.
  destruct s as [|c [|d r]]; simpl; intro H; try discriminate.
  injection H as E. apply upc_nonletter in E; [subst; reflexivity | lia].
Qed.

Lemma upper_eq_dotdot s : upper s = s_dotdot -> s = s_dotdot.
Proof.
  destruct s as [|c [|d [|e r]]]; simpl; intro H; try discriminate.
  injection H as E1 E2. apply upc_nonletter in E1; [|lia]. apply upc_nonletter in E2; [|lia].
  subst. reflexivity.
Qed.

Lemma upper_nil s : upper s = [] -> s = [].
Proof. destruct s; simpl; [auto | discriminate]. Qed.

Lemma upper_special s : is_special (upper s) = is_special s.
Proof.
  destruct (is_special s) eqn:E.
  - apply is_special_spec in E as [E | E]; subst; reflexivity.
  - apply is_special_false in E as [E1 E2]. apply is_special_false. split; intro H.
    + apply upper_eq_dot in H. contradiction.
    + apply upper_eq_dotdot in H. contradiction.
Qed.

Lemma upper_app a b : upper (a ++ b) = upper a ++ upper b.
Proof. apply map_app. Qed.

Lemma upper_firstn n s : upper (firstn n s) = firstn n (upper s).
Proof. unfold upper. symmetry. apply firstn_map. Qed.

(* ---------- split_first ---------- *)
Lemma split_first_spec d s :
  match split_first d s with
  | (a, None) => s = a /\ ~ In d a
  | (a, Some b) => s = a ++ d :: b /\ ~ In d a
  end.
Proof.
  induction s as [|c r IH]; simpl.
  - split; [reflexivity | intros []].
  - destruct (c =? d) eqn:E.
    + apply Z.eqb_eq in E. subst. split; [reflexivity | intros []].
    + apply Z.eqb_neq in E. destruct (split_first d r) as [a [b|]]; destruct IH as [IH1 IH2]; subst; simpl;
        (split; [reflexivity | intros [H|H]; [congruence | contradiction]]).
Qed.

Lemma split_first_none d a : ~ In d a -> split_first d a = (a, None).
Proof.
  induction a as [|c r IH]; simpl; intro H; [reflexivity|].
  destruct (c =? d) eqn:E.
  - apply Z.eqb_eq in E. subst. exfalso. apply H. left. reflexivity.
  - rewrite IH; [reflexivity | intro I; apply H; right; exact I].
Qed.

Lemma split_first_some d a b : ~ In d a -> split_first d (a ++ d :: b) = (a, Some b).
Proof.
  induction a as [|c r IH]; simpl; intro H.
  - rewrite Z.eqb_refl. reflexivity.
  - destruct (c =? d) eqn:E.
    + apply Z.eqb_eq in E. subst. exfalso. apply H. left. reflexivity.
    + rewrite IH; [reflexivity | intro I; apply H; right; exact I].
Qed.

Lemma split_first_upper s :
  split_first c_dot (upper s) =
  let '(a, b) := split_first c_dot s in (upper a, option_map upper b).
Proof.
  induction s as [|c r IH]; simpl; [reflexivity|].
  destruct (c =? c_dot) eqn:E.
  - apply Z.eqb_eq in E. subst. reflexivity.
  - assert (F : upc c =? c_dot = false).
    { apply Z.eqb_neq. intro H. apply upc_nonletter in H; [|unfold c_dot; lia]. apply Z.eqb_neq in E. contradiction. }
    rewrite F. fold (upper r). rewrite IH. destruct (split_first c_dot r) as [a b]. reflexivity.
Qed.

(* ---------- dos_normalise_name ---------- *)
(* the two parts of the normalised name of a non-special name *)
Definition norm_parts (s : str) : str * str :=
  let '(t, e) := dos_splitext (upper s) in (firstn 8 t, firstn 3 e).
Definition dot_ext (e : str) : str := match e with [] => [] | _ :: _ => c_dot :: e end.

Lemma normalise_parts s : is_special s = false ->
  dos_normalise_name s = fst (norm_parts s) ++ dot_ext (snd (norm_parts s)).
Proof.
  intro H. unfold dos_normalise_name, norm_parts. rewrite H.
  destruct (dos_splitext (upper s)) as [t e]. reflexivity.
Qed.



Lemma splitext_nodot s : ~ In c_dot (fst (dos_splitext s)).
Proof.
  unfold dos_splitext. pose proof (split_first_spec c_dot s) as H.
  destruct (split_first c_dot s) as [a [b|]]; simpl; tauto.
Qed.

Lemma norm_parts_nodot s : ~ In c_dot (fst (norm_parts s)).
Proof.
  unfold norm_parts. pose proof (splitext_nodot (upper s)) as H.
  destruct (dos_splitext (upper s)) as [t e]. simpl in *. intro I. apply H. eapply In_firstn. exact I.
Qed.

Lemma splitext_parts t e : ~ In c_dot t -> dos_splitext (t ++ dot_ext e) = (t, e).
Proof.
  intro H. unfold dos_splitext. destruct e as [|c e]; simpl.
  - rewrite app_nil_r. rewrite split_first_none by exact H. reflexivity.
  - rewrite split_first_some by exact H. reflexivity.
Qed.





(* the upper-cased name seen through its split *)
Lemma splitext_rebuild s :
  let '(t, e) := split_first c_dot s in s = t ++ match e with Some e => c_dot :: e | None => [] end.
Proof.
  pose proof (split_first_spec c_dot s) as H. destruct (split_first c_dot s) as [a [b|]]; destruct H as [H _].
  - exact H.
  - rewrite app_nil_r. exact H.
Qed.

Lemma norm_not_special s : is_special s = false -> is_special (dos_normalise_name s) = false.
Proof.
  intro Hs. rewrite normalise_parts by exact Hs.
  pose proof (norm_parts_nodot s) as Hnd. unfold norm_parts in *. unfold dos_splitext in *.
  pose proof (splitext_rebuild (upper s)) as Hr.
  destruct (split_first c_dot (upper s)) as [t oe]. simpl in *.
  apply is_special_false. destruct (firstn 8 t) as [|c t8] eqn:Et.
  - apply firstn_nil in Et. subst t. simpl in *.
    destruct oe as [e|]; simpl.
    + destruct (firstn 3 e) as [|x e3] eqn:Ee; simpl.
      * split; discriminate.
      * split; intro H; [discriminate H|].
        injection H as H1 H2. subst x e3.
        apply firstn3_dot in Ee. subst e. simpl in Hr.
        apply upper_eq_dotdot in Hr. apply is_special_false in Hs. tauto.
    + split; discriminate.
  - split; intro H; injection H as H1 H2; subst c; apply Hnd; left; reflexivity.
Qed.

Lemma norm_parts_idem s : is_special s = false ->
  norm_parts (dos_normalise_name s) = norm_parts s.
Proof.
  intro Hs. rewrite normalise_parts by exact Hs.
  pose proof (norm_parts_nodot s) as Hnd.
  unfold norm_parts in *. destruct (dos_splitext (upper s)) as [t e] eqn:E. simpl in *.
  assert (U : upper (firstn 8 t ++ dot_ext (firstn 3 e)) = firstn 8 t ++ dot_ext (firstn 3 e)).
  { assert (Ut : upper t = t /\ upper e = e).
    { unfold dos_splitext in E. rewrite split_first_upper in E.
      destruct (split_first c_dot s) as [a b]. inversion E; subst.
      split; [apply upper_idem | destruct b; simpl; [apply upper_idem | reflexivity]]. }
    destruct Ut as [Ut Ue]. rewrite upper_app, upper_firstn, Ut.
    f_equal. destruct (firstn 3 e) as [|x r] eqn:F; [reflexivity|].
    simpl. f_equal. change (upc x :: upper r) with (upper (x :: r)). rewrite <- F, upper_firstn, Ue. reflexivity. }
  rewrite U. rewrite splitext_parts by exact Hnd.
  rewrite !firstn_firstn. reflexivity.
Qed.

Theorem normalise_idempotent s : dos_normalise_name (dos_normalise_name s) = dos_normalise_name s.
Proof.
  destruct (is_special s) eqn:Hs.
  - unfold dos_normalise_name. rewrite Hs, Hs. reflexivity.
  - rewrite (normalise_parts (dos_normalise_name s)) by (apply norm_not_special; exact Hs).
    rewrite norm_parts_idem by exact Hs. symmetry. apply normalise_parts. exact Hs.
Qed.

Theorem normalise_case a b : upper a = upper b -> dos_normalise_name a = dos_normalise_name b.
Proof.
  intro H. assert (S : is_special a = is_special b) by (rewrite <- (upper_special a), <- (upper_special b), H; reflexivity).
  destruct (is_special a) eqn:Ha.
  - symmetry in S. apply is_special_spec in Ha. apply is_special_spec in S.
    destruct Ha as [Ha|Ha]; destruct S as [S|S]; subst; try reflexivity; discriminate.
  - unfold dos_normalise_name. rewrite Ha, <- S, H. reflexivity.
Qed.

Lemma normalise_upper_arg s : dos_normalise_name (upper s) = dos_normalise_name s.
Proof. apply normalise_case. apply upper_idem. Qed.

Lemma upper_normalise s : upper (dos_normalise_name s) = dos_normalise_name s.
Proof.
  destruct (is_special s) eqn:Hs.
  - unfold dos_normalise_name. rewrite Hs. apply is_special_spec in Hs as [H|H]; subst; reflexivity.
  - rewrite normalise_parts by exact Hs.
    unfold norm_parts. destruct (dos_splitext (upper s)) as [t e] eqn:E. simpl.
    assert (Ut : upper t = t /\ upper e = e).
    { unfold dos_splitext in E. rewrite split_first_upper in E.
      destruct (split_first c_dot s) as [a b]. inversion E; subst.
      split; [apply upper_idem | destruct b; simpl; [apply upper_idem | reflexivity]]. }
    destruct Ut as [Ut Ue]. rewrite upper_app, upper_firstn, Ut. f_equal.
    destruct (firstn 3 e) as [|x r] eqn:F; [reflexivity|].
    simpl. f_equal. change (upc x :: upper r) with (upper (x :: r)). rewrite <- F, upper_firstn, Ue. reflexivity.
Qed.

(* ---------- legality ---------- *)
Lemma allowable_not c : allowable c = true -> c <> c_dot /\ c <> c_slash /\ c <> 0 /\ c <> c_bslash /\ c <> 43
                                            /\ 32 <= c < 127.
Proof.
  unfold allowable. intro H. apply mem_In in H.
  assert (F : forallb (fun c => negb (c =? c_dot) && (negb (c =? c_slash) && (negb (c =? 0) && (negb (c =? c_bslash)
                                && (negb (c =? 43) && ((32 <=? c) && (c <? 127))))))) dn_allowable = true)
    by (vm_compute; reflexivity).
  rewrite forallb_forall in F. specialize (F c H).
  apply andb_true_iff in F as [F1 F]. apply andb_true_iff in F as [F2 F]. apply andb_true_iff in F as [F3 F].
  apply andb_true_iff in F as [F4 F]. apply andb_true_iff in F as [F5 F]. apply andb_true_iff in F as [F6 F7].
  apply negb_true_iff, Z.eqb_neq in F1, F2, F3, F4, F5. apply Z.leb_le in F6. apply Z.ltb_lt in F7.
  repeat split; assumption.
Qed.

Lemma legal_parts s : is_special s = false -> dos_is_legal_name s = true ->
  let '(t, e) := dos_splitext s in
  (length t <= 8)%nat /\ (length e <= 3)%nat /\ t = strip t /\ e = strip e
  /\ (forall c, In c t -> allowable c = true) /\ (forall c, In c e -> allowable c = true).
Proof.
  intros Hs H. unfold dos_is_legal_name in H. rewrite Hs in H.
  destruct (dos_splitext s) as [t e].
  apply andb_true_iff in H as [H H3]. apply andb_true_iff in H as [H1 H2].
  apply andb_true_iff in H1 as [A1 A2]. apply andb_true_iff in H2 as [B1 B2]. apply andb_true_iff in H3 as [C1 C2].
  apply Nat.leb_le in A1, A2. apply seqb_eq in B1, B2. rewrite forallb_forall in C1, C2.
  repeat split; assumption.
Qed.

(* every character of a legal non-special name is allowable or a dot *)
Lemma legal_chars s c : is_special s = false -> dos_is_legal_name s = true -> In c s ->
  allowable c = true \/ c = c_dot.
Proof.
  intros Hs H I. pose proof (legal_parts s Hs H) as P. unfold dos_splitext in P.
  pose proof (split_first_spec c_dot s) as S.
  destruct (split_first c_dot s) as [t [e|]]; destruct S as [S _]; destruct P as (_ & _ & _ & _ & Pt & Pe); subst s.
  - apply in_app_or in I as [I | [I | I]]; [left; apply Pt, I | right; symmetry; exact I | left; apply Pe, I].
  - left. apply Pt, I.
Qed.

(* legality of a normalised name read off its parts *)
Lemma legal_norm_parts s : is_special s = false -> dos_is_legal_name (dos_normalise_name s) = true ->
  (forall c, In c (fst (norm_parts s)) -> allowable c = true) /\
  (forall c, In c (snd (norm_parts s)) -> allowable c = true).
Proof.
  intros Hs H. pose proof (legal_parts _ (norm_not_special s Hs) H) as P.
  rewrite normalise_parts in P by exact Hs.
  rewrite splitext_parts in P by apply norm_parts_nodot. tauto.
Qed.

(* ---------- the codepage table ---------- *)
Definition zrange (n : nat) : list Z := map Z.of_nat (seq 0 n).
Lemma zrange_In n b : 0 <= b < Z.of_nat n -> In b (zrange n).
Proof.
  intro H. unfold zrange. apply in_map_iff. exists (Z.to_nat b). split; [lia|].
  apply in_seq. lia.
Qed.

Lemma cp_sweep (P : Z -> Z -> bool) :
  forallb (fun b => P b (cp b)) (zrange 256) = true -> P (-1) 0 = true -> (forall b, P b 63 = true \/ b < 256) ->
  True.
Proof. trivial. Qed.

Lemma cp_preimage d : d <> 0 -> d <> 63 ->
  forallb (fun b => implb (cp b =? d) (b =? d)) (zrange 256) = true ->
  forall b, cp b = d -> b = d.
Proof.
  intros H0 H63 F b E.
  destruct (Z_lt_dec b 0) as [N|N].
  - unfold cp in E. replace (Z.to_nat b) with 0%nat in E by lia. vm_compute in E. congruence.
  - destruct (Z_lt_dec b 256) as [L|L].
    + rewrite forallb_forall in F. specialize (F b (zrange_In 256 b ltac:(lia))).
      rewrite E, Z.eqb_refl in F. simpl in F. apply Z.eqb_eq in F. exact F.
    + unfold cp in E. rewrite nth_overflow in E; [congruence|].
      change (length dn_cp) with 256%nat. lia.
Qed.

Lemma cp_dot b : cp b = c_dot -> b = c_dot.
Proof. apply cp_preimage; [discriminate | discriminate | vm_compute; reflexivity]. Qed.
Lemma cp_slash b : cp b = c_slash -> b = c_slash.
Proof. apply cp_preimage; [discriminate | discriminate | vm_compute; reflexivity]. Qed.

(* the codepage is the identity on printable ASCII *)
Lemma cp_ascii b : 32 <= b < 127 -> cp b = b.
Proof.
  intro H.
  assert (F : forallb (fun b => implb ((32 <=? b) && (b <? 127)) (cp b =? b)) (zrange 256) = true)
    by (vm_compute; reflexivity).
  rewrite forallb_forall in F. specialize (F b (zrange_In 256 b ltac:(lia))).
  replace ((32 <=? b) && (b <? 127)) with true in F by (symmetry; apply andb_true_iff; split; [apply Z.leb_le | apply Z.ltb_lt]; lia).
  simpl in F. apply Z.eqb_eq in F. exact F.
Qed.

Lemma to_uni_nil s : to_uni s = [] -> s = [].
Proof. destruct s; simpl; [auto | discriminate]. Qed.
Lemma to_uni_dot s : to_uni s = s_dot -> s = s_dot.
Proof.
  destruct s as [|a [|b r]]; simpl; intro H; try discriminate.
  injection H as E. apply cp_dot in E. subst. reflexivity.
Qed.
Lemma to_uni_dotdot s : to_uni s = s_dotdot -> s = s_dotdot.
Proof.
  destruct s as [|a [|b [|c r]]]; simpl; intro H; try discriminate.
  injection H as E1 E2. apply cp_dot in E1. apply cp_dot in E2. subst. reflexivity.
Qed.
Lemma to_uni_slash s : In c_slash (to_uni s) -> In c_slash s.
Proof.
  unfold to_uni. intro H. apply in_map_iff in H as [b [E I]]. apply cp_slash in E. subst. exact I.
Qed.
Lemma to_uni_ascii s : (forall c, In c s -> 32 <= c < 127) -> to_uni s = s.
Proof.
  induction s as [|c r IH]; simpl; intro H; [reflexivity|].
  rewrite cp_ascii by (apply H; left; reflexivity). f_equal. apply IH. intros d I. apply H. right. exact I.
Qed.

(* ---------- sorting ---------- *)
Lemma insert_by_In {A} (le : A -> A -> bool) x y l : In y (insert_by le x l) <-> y = x \/ In y l.
Proof.
  induction l as [|z r IH]; simpl.
  - intuition.
  - destruct (le x z); simpl; rewrite ?IH; intuition.
Qed.

Lemma sort_by_In {A} (le : A -> A -> bool) y l : In y (sort_by le l) <-> In y l.
Proof.
  induction l as [|z r IH]; simpl; [tauto|].
  rewrite insert_by_In, IH. intuition.
Qed.

Lemma sort_by_Forall {A} (le : A -> A -> bool) (P : A -> Prop) l : Forall P l -> Forall P (sort_by le l).
Proof.
  rewrite !Forall_forall. intros H x I. apply H. apply sort_by_In in I. exact I.
Qed.

(* ---------- the wildcard matcher ---------- *)
(* declarative reading of a DOS mask: ? is one character, * is any run; neither matches a newline *)
Inductive Wild : str -> str -> Prop :=
| W_nil : Wild [] []
| W_one m n x : x <> 10 -> Wild m n -> Wild (63 :: m) (x :: n)
| W_star_done m n : Wild m n -> Wild (42 :: m) n
| W_star_more m n x : x <> 10 -> Wild (42 :: m) n -> Wild (42 :: m) (x :: n)
| W_char m n c : c <> 42 -> c <> 63 -> Wild m n -> Wild (c :: m) (c :: n).

Lemma wmatch_star m' n :
  wmatch (42 :: m') n = wmatch m' n || match n with [] => false | x :: n' => negb (x =? 10) && wmatch (42 :: m') n' end.
Proof. destruct n; reflexivity. Qed.

Theorem wmatch_Wild m n : wmatch m n = true <-> Wild m n.
Proof.
  revert n. induction m as [|c m IH]; intro n.
  - destruct n; simpl; split; intro H; try discriminate; try constructor; inversion H.
  - destruct (Z.eq_dec c 42) as [E|E].
    + subst c. induction n as [|x n IHn].
      * rewrite wmatch_star, orb_false_r. rewrite IH. split; intro H.
        -- apply W_star_done, H.
        -- inversion H; subst; try congruence; try assumption.
      * rewrite wmatch_star. rewrite orb_true_iff, andb_true_iff, negb_true_iff, Z.eqb_neq, IH, IHn.
        split.
        -- intros [H | [H1 H2]]; [apply W_star_done, H | apply W_star_more; assumption].
        -- intro H. inversion H; subst; try congruence; [left; assumption | right; split; assumption].
    + destruct (Z.eq_dec c 63) as [F|F].
      * subst c. simpl. destruct n as [|x n].
        -- split; intro H; [discriminate | inversion H; congruence].
        -- rewrite andb_true_iff, negb_true_iff, Z.eqb_neq, IH. split.
           ++ intros [H1 H2]. apply W_one; assumption.
           ++ intro H. inversion H; subst; try congruence; try (split; assumption).
      * assert (wmatch (c :: m) n = match n with [] => false | x :: n' => (x =? c) && wmatch m n' end) as R.
        { simpl. destruct (c =? 42) eqn:A; [apply Z.eqb_eq in A; contradiction|].
          destruct (c =? 63) eqn:B; [apply Z.eqb_eq in B; contradiction|]. reflexivity. }
        rewrite R. destruct n as [|x n].
        -- split; intro H; [discriminate | inversion H; congruence].
        -- rewrite andb_true_iff, Z.eqb_eq, IH. split.
           ++ intros [H1 H2]. subst x. apply W_char; assumption.
           ++ intro H. inversion H; subst; try congruence; try (split; [reflexivity | assumption]).
Qed.

(* ---------- the regular expression the code builds denotes the same language ---------- *)
Lemma rmatch_star_dot n : rmatch (RStar RDot) n <-> Forall (fun x => x <> 10) n.
Proof.
  split.
  - intro H. remember (RStar RDot) as r eqn:E. induction H; try discriminate.
    + constructor.
    + injection E as E. subst r. apply Forall_app. split; [|apply IHrmatch2; reflexivity].
      inversion H; subst. constructor; [assumption | constructor].
  - induction n as [|x n IH]; intro H.
    + apply MStar0.
    + inversion H; subst. change (x :: n) with ([x] ++ n). apply MStarApp; [apply MDot; assumption | apply IH; assumption].
Qed.

Lemma rmatch_cat_inv r s n : rmatch (RCat r s) n -> exists a b, n = a ++ b /\ rmatch r a /\ rmatch s b.
Proof. intro H. inversion H; subst. exists a, b. tauto. Qed.

Lemma Wild_star_prefix m a b : Forall (fun x => x <> 10) a -> Wild m b -> Wild (42 :: m) (a ++ b).
Proof.
  induction a as [|x a IH]; intros Ha Hb; simpl.
  - apply W_star_done, Hb.
  - inversion Ha; subst. apply W_star_more; [assumption | apply IH; assumption].
Qed.

Lemma Wild_star_split m n : Wild (42 :: m) n ->
  exists a b, n = a ++ b /\ Forall (fun x => x <> 10) a /\ Wild m b.
Proof.
  intro H. remember (42 :: m) as m0 eqn:E. induction H; try discriminate.
  - injection E as E. subst m0. exists [], n. repeat split; [constructor | assumption].
  - destruct (IHWild E) as [a [b [E1 [E2 E3]]]]. injection E as E. subst.
    exists (x :: a), b. repeat split; [constructor; assumption | assumption].
  - injection E as E1 E2. congruence.
Qed.

Definition regex_of_chars (m : str) : regex := fold_right (fun c r => RCat (regex_of_char c) r) REps m.

Lemma regex_Wild m : forall n, rmatch (regex_of_chars m) n <-> Wild m n.
Proof.
  induction m as [|c m IH]; intro n; simpl.
  - split; intro H; inversion H; constructor.
  - unfold regex_of_char. destruct (c =? 63) eqn:E63; [|destruct (c =? 42) eqn:E42].
    + apply Z.eqb_eq in E63. subst c. split; intro H.
      * apply rmatch_cat_inv in H as [a [b [E [Ha Hb]]]]. inversion Ha; subst. simpl. apply W_one; [assumption | apply IH, Hb].
      * inversion H; subst; try congruence. change (x :: n0) with ([x] ++ n0).
        apply MCat; [apply MDot; assumption | apply IH; assumption].
    + apply Z.eqb_eq in E42. subst c. split; intro H.
      * apply rmatch_cat_inv in H as [a [b [E [Ha Hb]]]]. subst n.
        apply Wild_star_prefix; [apply rmatch_star_dot, Ha | apply IH, Hb].
      * apply Wild_star_split in H as [a [b [E [Ha Hb]]]]. subst n.
        apply MCat; [apply rmatch_star_dot, Ha | apply IH, Hb].
    + apply Z.eqb_neq in E63, E42. split; intro H.
      * apply rmatch_cat_inv in H as [a [b [E [Ha Hb]]]]. inversion Ha; subst. simpl. apply W_char; [assumption | assumption | apply IH, Hb].
      * inversion H; subst; try congruence. change (c :: n0) with ([c] ++ n0).
        apply MCat; [apply MLit | apply IH; assumption].
Qed.

(* dos_name_matches(name, mask) - the modelled matcher - holds exactly when name.upper() is in the language of
   the regular expression built from mask *)
Theorem regex_matches name mask :
  rmatch (regex_of_mask mask) (upper name) <-> dos_name_matches name mask = true.
Proof. unfold dos_name_matches, regex_of_mask. fold (regex_of_chars (upper mask)). rewrite regex_Wild, wmatch_Wild. tauto. Qed.

Theorem name_matches_case name name' mask mask' :
  upper name = upper name' -> upper mask = upper mask' ->
  dos_name_matches name mask = dos_name_matches name' mask'.
Proof. unfold dos_name_matches. intros -> ->. reflexivity. Qed.

(* ---------- default extension ---------- *)
Theorem defext_nodot s ext : ext <> [] -> mem c_dot (rstrip s) = false ->
  defext_name s ext = rstrip s ++ c_dot :: ext.
Proof. intros He H. unfold defext_name. rewrite H. destruct ext; [contradiction | reflexivity]. Qed.

Theorem defext_dot s ext : mem c_dot (rstrip s) = true -> defext_name s ext = rstrip s.
Proof. intros H. unfold defext_name. rewrite H. destruct ext; reflexivity. Qed.

Theorem defext_none s : defext_name s [] = rstrip s.
Proof. reflexivity. Qed.
