(* C12 / C11: invariant of the array table and its preservation by every operation *)
From Coq Require Import ZArith List Bool Lia.
From PCB Require Import lib.Result lib.PyInt lib.Harness lib.ArraysLib gen.Gen_arrays model.Arrays.
From PCB Require Import proofs.Arrays_index_proofs proofs.Arrays_list_proofs.
Import ListNotations.
Open Scope Z_scope.

Definition base_of (st : astate) : Z := match a_base st with Some b => b | None => 0 end.

(* bytes occupied by an array: record + buffer *)
Definition msize (b : Z) (a : arr) : Z :=
  arrays_record_size (a_name a) (a_dims a) + radix_prod b (a_dims a) * size_bytes (a_name a).

Definition arr_ok (b : Z) (a : arr) : Prop :=
  sigil_ok (a_name a) /\ a_dims a <> [] /\ dims_ok b (a_dims a) /\
  length (a_buf a) = Z.to_nat (radix_prod b (a_dims a) * size_bytes (a_name a)) /\
  bytes_ok (a_buf a) /\
  a_aptr a = a_nptr a + arrays_record_size (a_name a) (a_dims a).

(* records are contiguous in insertion order starting at p *)
Fixpoint laid_out (b p : Z) (l : list arr) : Prop :=
  match l with
  | [] => True
  | a :: r => a_nptr a = p /\ laid_out b (p + msize b a) r
  end.

Fixpoint total (b : Z) (l : list arr) : Z :=
  match l with [] => 0 | a :: r => msize b a + total b r end.

Record AInv (st : astate) : Prop := mkAInv {
  inv_nodup : NoDup (map a_name (a_list st));
  inv_unset : a_base st = None -> a_list st = [];
  inv_base : 0 <= base_of st;
  inv_arrs : Forall (arr_ok (base_of st)) (a_list st);
  inv_layout : laid_out (base_of st) 0 (a_list st);
  inv_cur : a_cur st = total (base_of st) (a_list st)
}.

Lemma AInv_init : AInv a_init.
Proof.
  constructor; simpl; [constructor | reflexivity | unfold base_of; simpl; lia | constructor | exact I | reflexivity].
Qed.

(* ---------- small facts ---------- *)

Lemma msize_pos b a : dims_ok b (a_dims a) -> sigil_ok (a_name a) -> 7 <= msize b a.
Proof.
  intros Hd Hs. unfold msize. pose proof (arrays_record_size_pos (a_name a) (a_dims a)).
  pose proof (radix_prod_pos b _ Hd). pose proof (size_bytes_pos _ Hs). nia.
Qed.

Lemma laid_out_app b : forall l p r, laid_out b p (l ++ r) <-> laid_out b p l /\ laid_out b (p + total b l) r.
Proof.
  induction l as [|a l IH]; intros p r; simpl.
  - rewrite Z.add_0_r. tauto.
  - rewrite IH. replace (p + msize b a + total b l) with (p + (msize b a + total b l)) by lia. tauto.
Qed.

Lemma total_app b l r : total b (l ++ r) = total b l + total b r.
Proof. induction l as [|a l IH]; simpl; [reflexivity | rewrite IH; lia]. Qed.

Lemma zeros_length n : length (zeros n) = Z.to_nat n.
Proof. apply repeat_length. Qed.

Lemma zeros_bytes n : bytes_ok (zeros n).
Proof. unfold zeros, bytes_ok. apply Forall_forall. intros x H. apply repeat_spec in H. subst. unfold byte_ok. lia. Qed.

Lemma Forall_firstn {A} (P : A -> Prop) : forall n l, Forall P l -> Forall P (firstn n l).
Proof. induction n; intros l H; simpl; [constructor|]. destruct H; constructor; auto. Qed.

Lemma Forall_skipn {A} (P : A -> Prop) : forall n l, Forall P l -> Forall P (skipn n l).
Proof. induction n; intros l H; simpl; [assumption|]. destruct H; [constructor | auto]. Qed.

Lemma set_slice_bytes l lo v : bytes_ok l -> bytes_ok v -> bytes_ok (set_slice l lo v).
Proof.
  intros Hl Hv. unfold set_slice, bytes_ok. apply Forall_app. split; [apply Forall_firstn, Hl|].
  apply Forall_app. split; [exact Hv | apply Forall_skipn, Hl].
Qed.

Lemma slice_bytes l lo hi : bytes_ok l -> bytes_ok (slice l lo hi).
Proof. intros H. unfold slice. apply Forall_firstn, Forall_skipn, H. Qed.

Lemma NoDup_app_snoc {A} (l : list A) x : NoDup l -> ~ In x l -> NoDup (l ++ [x]).
Proof.
  induction l as [|y l IH]; simpl; intros ND H; [constructor; [tauto | constructor]|].
  inversion ND; subst. constructor.
  - rewrite in_app_iff. simpl. intros [C|[C|[]]]; [contradiction | subst; tauto].
  - apply IH; tauto.
Qed.

Lemma py_any_false p l : py_any p l = false <-> Forall (fun x => p x = false) l.
Proof.
  unfold py_any. induction l as [|x l IH]; simpl.
  - split; [constructor | reflexivity].
  - rewrite orb_false_iff, IH. split; [intros [H1 H2]; constructor; auto | intros H; inversion H; auto].
Qed.

Lemma allocate_negative_ok dims : arrays_allocate_negative dims = Ok tt -> dims_ok 0 dims.
Proof.
  unfold arrays_allocate_negative. destruct (py_any _ dims) eqn:E; [discriminate|]. intros _.
  apply py_any_false in E. unfold dims_ok. eapply Forall_impl; [|exact E]. simpl. intros d H. lia.
Qed.

Lemma allocate_negative_cases dims :
  arrays_allocate_negative dims = Ok tt \/ arrays_allocate_negative dims = Err err_IFC.
Proof. unfold arrays_allocate_negative. destruct (py_any _ dims); auto. Qed.

Lemma allocate_below_ok b dims : arrays_allocate_below_base b dims = Ok tt -> dims_ok b dims.
Proof.
  unfold arrays_allocate_below_base. destruct (py_any _ dims) eqn:E; [discriminate|]. intros _.
  apply py_any_false in E. unfold dims_ok. eapply Forall_impl; [|exact E]. simpl. intros d H. lia.
Qed.

Lemma allocate_below_cases b dims :
  arrays_allocate_below_base b dims = Ok tt \/
  arrays_allocate_below_base b dims = Err err_SUBSCRIPT_OUT_OF_RANGE.
Proof. unfold arrays_allocate_below_base. destruct (py_any _ dims); auto. Qed.

(* ---------- allocate ---------- *)

(* the state in which the implicit OPTION BASE 0 has been applied *)
Definition defaulted (st : astate) : astate :=
  match a_base st with
  | None => mkA (a_list st) (Some 0) true (a_cur st)
  | Some _ => st
  end.

Definition new_arr (st : astate) (n dims : list Z) : arr :=
  mkArr n dims (zeros (radix_prod (base_of st) dims * size_bytes n)) (a_cur st)
        (a_cur st + arrays_record_size n dims).

Definition push (st : astate) (a : arr) : astate :=
  mkA (a_list st ++ [a]) (a_base st) (a_bydim st) (a_cur st + msize (base_of st) a).

Lemma AInv_defaulted st : AInv st -> AInv (defaulted st).
Proof.
  intros I. unfold defaulted. destruct (a_base st) eqn:E; [assumption|].
  pose proof (inv_unset st I E) as L. destruct I as [I1 I2 I3 I4 I5 I6].
  unfold base_of in *. rewrite E in *. rewrite L in *.
  constructor; simpl; auto; try lia; try discriminate.
Qed.

Lemma base_of_defaulted st : base_of (defaulted st) = base_of st.
Proof. unfold defaulted, base_of. destruct (a_base st) eqn:E; simpl; [rewrite E|]; reflexivity. Qed.

Lemma AInv_push st n dims : AInv st -> a_base st <> None -> sigil_ok n -> dims <> [] ->
  dims_ok (base_of st) dims -> lookup (a_list st) n = None ->
  AInv (push st (new_arr st n dims)).
Proof.
  intros [I1 I2 I3 I4 I5 I6] Hb Hs Hd Hok Hl.
  assert (B : base_of (push st (new_arr st n dims)) = base_of st) by reflexivity.
  constructor; rewrite ?B; simpl.
  - rewrite map_app. simpl. apply NoDup_app_snoc; [assumption | apply lookup_none, Hl].
  - intros C. contradiction.
  - assumption.
  - apply Forall_app. split; [assumption|]. constructor; [|constructor].
    unfold arr_ok, new_arr; simpl. repeat split; auto; [apply zeros_length | apply zeros_bytes].
  - apply laid_out_app. split; [assumption|]. simpl. split; [exact I6 | exact I].
  - rewrite total_app. cbn [total]. rewrite I6. lia.
Qed.

Lemma py_any_true p l : py_any p l = true <-> exists x, In x l /\ p x = true.
Proof. unfold py_any. apply existsb_exists. Qed.

Lemma defaulted_base st : a_base (defaulted st) = Some (base_of st).
Proof. unfold defaulted, base_of. destruct (a_base st) eqn:E; simpl; [rewrite E|]; reflexivity. Qed.

Lemma defaulted_list st : a_list (defaulted st) = a_list st.
Proof. unfold defaulted. destruct (a_base st); reflexivity. Qed.

Lemma defaulted_cur st : a_cur (defaulted st) = a_cur st.
Proof. unfold defaulted. destruct (a_base st); reflexivity. Qed.

(* every way allocate can end, with the exact conditions, in the order the code tests them *)
Inductive alloc_result (st : astate) (free : Z) (n dims : list Z) : astate * res unit -> Prop :=
| ar_nothing : dims = [] -> alloc_result st free n dims (st, Ok tt)
| ar_dup a : dims <> [] -> lookup (a_list st) n = Some a ->
    alloc_result st free n dims (st, Err err_DUPLICATE_DEFINITION)
| ar_neg : dims <> [] -> lookup (a_list st) n = None -> (exists d, In d dims /\ d < 0) ->
    alloc_result st free n dims (st, Err err_IFC)
| ar_below b : dims <> [] -> lookup (a_list st) n = None -> dims_ok 0 dims -> a_base st = Some b ->
    (exists d, In d dims /\ d < b) ->
    alloc_result st free n dims (st, Err err_SUBSCRIPT_OUT_OF_RANGE)
| ar_oom : dims <> [] -> lookup (a_list st) n = None -> dims_ok 0 dims -> dims_ok (base_of st) dims ->
    free - a_cur st <= msize (base_of st) (new_arr (defaulted st) n dims) ->
    alloc_result st free n dims (defaulted st, Err err_OUT_OF_MEMORY)
| ar_ok : dims <> [] -> lookup (a_list st) n = None -> dims_ok 0 dims -> dims_ok (base_of st) dims ->
    msize (base_of st) (new_arr (defaulted st) n dims) < free - a_cur st ->
    alloc_result st free n dims (push (defaulted st) (new_arr (defaulted st) n dims), Ok tt).

Lemma allocate_result st free n dims : alloc_result st free n dims (allocate st free n dims).
Proof.
  unfold allocate. destruct dims as [|d0 dims0] eqn:ED; [apply ar_nothing; reflexivity|].
  rewrite <- ED. assert (Hne : dims <> []) by (rewrite ED; discriminate).
  destruct (lookup (a_list st) n) as [a|] eqn:EL; [eapply ar_dup; eauto|].
  cbn [bindS].
  destruct (allocate_negative_cases dims) as [EN|EN]; rewrite EN.
  2:{ apply ar_neg; auto. unfold arrays_allocate_negative in EN.
      destruct (py_any _ dims) eqn:EA; [|discriminate]. apply py_any_true in EA.
      destruct EA as (d & Hd & Hlt). exists d. split; [assumption | lia]. }
  pose proof (allocate_negative_ok dims EN) as H0.
  assert (Hlay : forall st1, a_base st1 = Some (base_of st) -> a_cur st1 = a_cur st ->
            dims_ok (base_of st) dims ->
            with_base st1 (fun b => arrays_allocate_layout b (a_cur st1) n dims) =
            Ok (a_cur st, a_cur st + arrays_record_size n dims,
                radix_prod (base_of st) dims * size_bytes n,
                arrays_record_size n dims + radix_prod (base_of st) dims * size_bytes n)).
  { intros st1 Hb Hc Hok. unfold with_base. rewrite Hb, Hc. apply arrays_allocate_layout_spec, Hok. }
  assert (Hm : msize (base_of st) (new_arr (defaulted st) n dims) =
               arrays_record_size n dims + radix_prod (base_of st) dims * size_bytes n) by reflexivity.
  destruct (a_base st) as [b|] eqn:EB.
  - assert (Eb : base_of st = b) by (unfold base_of; rewrite EB; reflexivity).
    assert (Ed : defaulted st = st) by (unfold defaulted; rewrite EB; reflexivity).
    cbn [bindS].
    destruct (allocate_below_cases b dims) as [EW|EW]; rewrite EW.
    2:{ eapply ar_below; eauto. unfold arrays_allocate_below_base in EW.
        destruct (py_any _ dims) eqn:EA; [|discriminate]. apply py_any_true in EA.
        destruct EA as (d & Hd & Hlt). exists d. split; [assumption | lia]. }
    pose proof (allocate_below_ok b dims EW) as Hok. rewrite <- Eb in Hok.
    cbn [bindS]. rewrite (Hlay st); [| rewrite EB, Eb; reflexivity | reflexivity | exact Hok]. cbn [bindS].
    destruct (free - a_cur st <=? _) eqn:EF.
    + pose proof (ar_oom st free n dims Hne EL H0 Hok) as X. rewrite Hm, Ed in X. apply X. lia.
    + replace (mkA _ _ _ _) with (push (defaulted st) (new_arr (defaulted st) n dims)).
      * apply ar_ok; auto. rewrite Hm. lia.
      * rewrite Ed. unfold push, new_arr, msize; simpl. rewrite Eb. f_equal.
  - assert (Eb : base_of st = 0) by (unfold base_of; rewrite EB; reflexivity).
    assert (Ed : defaulted st = mkA (a_list st) (Some 0) true (a_cur st))
      by (unfold defaulted; rewrite EB; reflexivity).
    cbn [bindS]. rewrite <- Ed.
    rewrite (Hlay (defaulted st)); [| rewrite defaulted_base; reflexivity | apply defaulted_cur | rewrite Eb; exact H0].
    cbn [bindS]. rewrite defaulted_cur.
    destruct (free - a_cur st <=? _) eqn:EF.
    + apply ar_oom; auto; [rewrite Eb; exact H0 | rewrite Hm; lia].
    + replace (mkA _ _ _ _) with (push (defaulted st) (new_arr (defaulted st) n dims)).
      * apply ar_ok; auto; [rewrite Eb; exact H0 | rewrite Hm; lia].
      * unfold push, new_arr, msize; simpl. rewrite base_of_defaulted, defaulted_cur, defaulted_list.
        rewrite Ed at 1 2. simpl. f_equal; rewrite Ed; reflexivity.
Qed.

(* ---------- extension of the table by fresh zero-filled arrays ---------- *)

Definition fresh_in (st' : astate) (a : arr) : Prop :=
  a_buf a = zeros (radix_prod (base_of st') (a_dims a) * size_bytes (a_name a)).

Definition extends (st st' : astate) : Prop :=
  (exists fr, a_list st' = a_list st ++ fr /\ Forall (fresh_in st') fr) /\
  (forall b, a_base st = Some b -> a_base st' = Some b).

Lemma extends_refl st : extends st st.
Proof. split; [exists []; rewrite app_nil_r; split; [reflexivity | constructor] | auto]. Qed.

Lemma extends_trans st st1 st2 : AInv st1 -> extends st st1 -> extends st1 st2 -> extends st st2.
Proof.
  intros I1 [(fr1 & L1 & F1) B1] [(fr2 & L2 & F2) B2]. split.
  - exists (fr1 ++ fr2). split; [rewrite L2, L1, app_assoc; reflexivity|].
    apply Forall_app. split; [|assumption].
    destruct fr1 as [|x fr1]; [constructor|].
    destruct (a_base st1) as [b|] eqn:EB.
    + assert (E : base_of st2 = base_of st1) by (unfold base_of; rewrite (B2 b eq_refl), EB; reflexivity).
      unfold fresh_in in *. rewrite E. exact F1.
    + pose proof (inv_unset st1 I1 EB) as C. rewrite L1 in C. destruct (a_list st); discriminate.
  - intros b Hb. apply B2, B1, Hb.
Qed.

Lemma extends_defaulted st : extends st (defaulted st).
Proof.
  split.
  - exists []. rewrite app_nil_r, defaulted_list. split; [reflexivity | constructor].
  - intros b Hb. unfold defaulted. rewrite Hb. exact Hb.
Qed.

Lemma extends_push st a : fresh_in st a -> extends st (push st a).
Proof. intros F. split; [exists [a]; split; [reflexivity | constructor; [exact F | constructor]] | auto]. Qed.

Lemma allocate_inv st free n dims : AInv st -> sigil_ok n -> AInv (fst (allocate st free n dims)).
Proof.
  intros I Hs. destruct (allocate_result st free n dims); simpl; auto using AInv_defaulted.
  apply AInv_push; auto using AInv_defaulted.
  - rewrite defaulted_base. discriminate.
  - rewrite base_of_defaulted. assumption.
  - rewrite defaulted_list. assumption.
Qed.

Lemma allocate_extends st free n dims : AInv st -> extends st (fst (allocate st free n dims)).
Proof.
  intros I. destruct (allocate_result st free n dims); simpl;
    auto using extends_refl, extends_defaulted.
  eapply extends_trans; [apply AInv_defaulted, I | apply extends_defaulted | apply extends_push].
  reflexivity.
Qed.

Lemma dim_inv st free args : AInv st -> Forall (fun p => sigil_ok (fst p)) args ->
  AInv (fst (dim_ st free args)) /\ extends st (fst (dim_ st free args)).
Proof.
  revert st. induction args as [|[n dims] args IH]; intros st I F; simpl.
  - split; [assumption | apply extends_refl].
  - inversion F as [|? ? Hn F']; subst. simpl in Hn.
    pose proof (allocate_inv st free n dims I Hn) as I1.
    pose proof (allocate_extends st free n dims I) as E1.
    destruct (allocate st free n dims) as [st1 [[]| | |]]; simpl in *; try (split; assumption).
    destruct (IH st1 I1 F') as [I2 E2]. split; [assumption | exact (extends_trans st st1 _ I1 E1 E2)].
Qed.

(* ---------- check_dim ---------- *)

Lemma check_dim_declared st free n idx a : lookup (a_list st) n = Some a ->
  check_dim st free n idx =
  (st, with_base st (fun b => bind (arrays_check_subscripts b idx (a_dims a)) (fun _ => Ok (a_dims a)))).
Proof. intros H. unfold check_dim. rewrite H. cbn [bindS]. rewrite H. reflexivity. Qed.

Lemma check_dim_undeclared st free n idx : lookup (a_list st) n = None ->
  check_dim st free n idx =
  bindS (allocate st free n (repeat 10 (length idx))) (fun st1 _ =>
    match lookup (a_list st1) n with
    | None => (st1, Host host_KeyError)
    | Some _ => (st1, with_base st1 (fun b =>
                   bind (arrays_check_subscripts b idx (repeat 10 (length idx)))
                        (fun _ => Ok (repeat 10 (length idx)))))
    end).
Proof.
  intros H. unfold check_dim. rewrite H.
  destruct (allocate st free n (repeat 10 (length idx))) as [st1 [[]| | |]]; reflexivity.
Qed.

Lemma check_dim_inv st free n idx : AInv st -> sigil_ok n ->
  AInv (fst (check_dim st free n idx)) /\ extends st (fst (check_dim st free n idx)).
Proof.
  intros I Hs. destruct (lookup (a_list st) n) as [a|] eqn:EL.
  - rewrite (check_dim_declared _ _ _ _ _ EL). simpl. split; [assumption | apply extends_refl].
  - rewrite (check_dim_undeclared _ _ _ _ EL).
    pose proof (allocate_inv st free n (repeat 10 (length idx)) I Hs) as I1.
    pose proof (allocate_extends st free n (repeat 10 (length idx)) I) as E1.
    destruct (allocate st free n (repeat 10 (length idx))) as [st1 [[]| | |]]; simpl in *;
      try (split; assumption).
    destruct (lookup (a_list st1) n); simpl; split; assumption.
Qed.

Lemma with_base_some {T} st (f : Z -> res T) b : a_base st = Some b -> with_base st f = f b.
Proof. intros H. unfold with_base. rewrite H. reflexivity. Qed.

Lemma AInv_base_some st a : AInv st -> In a (a_list st) -> a_base st = Some (base_of st).
Proof.
  intros I H. destruct (a_base st) eqn:E; [unfold base_of; rewrite E; reflexivity|].
  rewrite (inv_unset st I E) in H. contradiction.
Qed.

Lemma allocate_ok_lookup st free n dims st1 : allocate st free n dims = (st1, Ok tt) ->
  lookup (a_list st) n = None -> dims <> [] ->
  lookup (a_list st1) n = Some (new_arr (defaulted st) n dims).
Proof.
  intros H EL Hd. pose proof (allocate_result st free n dims) as R. rewrite H in R.
  inversion R; subst; try contradiction.
  unfold push; simpl. rewrite lookup_app, defaulted_list, EL. simpl. rewrite list_Z_eqb_refl. reflexivity.
Qed.

Lemma checked_dims st idx d dims :
  with_base st (fun b => bind (arrays_check_subscripts b idx d) (fun _ => Ok d)) = Ok dims -> d = dims.
Proof.
  unfold with_base. destruct (a_base st); [|discriminate].
  destruct (arrays_check_subscripts z idx d) as [[]| | |]; simpl; congruence.
Qed.

(* a successful check_dim: the array is declared with the returned bounds and the tuple is inside *)
Lemma check_dim_ok st free n idx st1 dims : AInv st -> sigil_ok n ->
  check_dim st free n idx = (st1, Ok dims) ->
  exists a, lookup (a_list st1) n = Some a /\ a_dims a = dims /\
            a_base st1 = Some (base_of st1) /\ in_bounds (base_of st1) dims idx.
Proof.
  intros I Hs H.
  pose proof (check_dim_inv st free n idx I Hs) as [I1 _]. rewrite H in I1. simpl in I1.
  assert (K : forall a, lookup (a_list st1) n = Some a -> a_dims a = dims ->
            with_base st1 (fun b => bind (arrays_check_subscripts b idx dims) (fun _ => Ok dims)) = Ok dims ->
            exists a, lookup (a_list st1) n = Some a /\ a_dims a = dims /\
                      a_base st1 = Some (base_of st1) /\ in_bounds (base_of st1) dims idx).
  { intros a La Hd Hw. exists a. split; [assumption|]. split; [assumption|].
    pose proof (AInv_base_some st1 a I1 (proj1 (lookup_some _ _ _ La))) as Hb. split; [assumption|].
    rewrite (with_base_some _ _ _ Hb) in Hw.
    destruct (arrays_check_subscripts (base_of st1) idx dims) as [[]| | |] eqn:EC; try discriminate.
    apply check_subscripts_ok in EC; [assumption | apply inv_base, I1]. }
  destruct (lookup (a_list st) n) as [a|] eqn:EL.
  - rewrite (check_dim_declared _ _ _ _ _ EL) in H. inversion H as [[E1 Hw]]. subst st1.
    pose proof (checked_dims _ _ _ _ Hw) as Ed. rewrite Ed in Hw. apply (K a EL Ed Hw).
  - rewrite (check_dim_undeclared _ _ _ _ EL) in H.
    destruct (allocate st free n (repeat 10 (length idx))) as [st2 [[]| | |]] eqn:EA; simpl in H; try discriminate.
    destruct (lookup (a_list st2) n) as [a|] eqn:EL2; [|discriminate].
    inversion H as [[E1 Hw]]. subst st2.
    pose proof (checked_dims _ _ _ _ Hw) as Ed. rewrite Ed in Hw. apply (K a EL2); [|exact Hw].
    destruct idx as [|i idx].
    + simpl in EA. unfold allocate in EA. inversion EA; subst. congruence.
    + rewrite (allocate_ok_lookup _ _ _ _ _ EA EL) in EL2 by discriminate.
      inversion EL2; subst a. simpl. exact Ed.
Qed.

(* ---------- element access ---------- *)

(* the bytes of element idx of array a under base b *)
Definition elem_lo (b : Z) (a : arr) (idx : list Z) : Z :=
  index_spec b idx (a_dims a) * size_bytes (a_name a).
Definition elem_hi (b : Z) (a : arr) (idx : list Z) : Z :=
  (index_spec b idx (a_dims a) + 1) * size_bytes (a_name a).
Definition elem_of (b : Z) (a : arr) (idx : list Z) : list Z :=
  slice (a_buf a) (elem_lo b a idx) (elem_hi b a idx).

Definition set_buf (st : astate) (n buf : list Z) : astate :=
  mkA (update_buf (a_list st) n buf) (a_base st) (a_bydim st) (a_cur st).

Lemma elem_range_spec st a idx : a_base st = Some (base_of st) -> length idx = length (a_dims a) ->
  elem_range st (a_name a) idx (a_dims a) = Ok (elem_lo (base_of st) a idx, elem_hi (base_of st) a idx).
Proof.
  intros Hb Hl. unfold elem_range. rewrite (with_base_some _ _ _ Hb).
  rewrite arrays_index_spec by assumption. reflexivity.
Qed.

Lemma arr_ok_elem b a idx : 0 <= b -> arr_ok b a -> in_bounds b (a_dims a) idx ->
  0 <= index_spec b idx (a_dims a) < radix_prod b (a_dims a) /\ 0 < size_bytes (a_name a) /\
  length (a_buf a) = Z.to_nat (radix_prod b (a_dims a) * size_bytes (a_name a)).
Proof.
  intros Hb (Hs & Hd & Hok & Hlen & Hby & Hp) Hin.
  split; [apply index_spec_range, Hin|]. split; [apply size_bytes_pos, Hs | exact Hlen].
Qed.

Lemma elem_of_length b a idx : 0 <= b -> arr_ok b a -> in_bounds b (a_dims a) idx ->
  length (elem_of b a idx) = Z.to_nat (size_bytes (a_name a)).
Proof.
  intros Hb Hok Hin. destruct (arr_ok_elem b a idx Hb Hok Hin) as (Hk & Hs & Hl).
  unfold elem_of, elem_lo, elem_hi. eapply elem_slice_length; eauto. lia.
Qed.

Lemma elem_get_unfold st free n idx :
  elem_get st free n idx =
  bindS (check_dim st free n idx) (fun st1 dims =>
  match lookup (a_list st1) n with
  | None => (st1, Host host_KeyError)
  | Some a => (st1, bind (elem_range st1 n idx dims) (fun '(lo, hi) => Ok (slice (a_buf a) lo hi)))
  end).
Proof. reflexivity. Qed.

Lemma elem_get_ok st free n idx st1 dims : AInv st -> sigil_ok n ->
  check_dim st free n idx = (st1, Ok dims) ->
  exists a, lookup (a_list st1) n = Some a /\ a_dims a = dims /\
            in_bounds (base_of st1) dims idx /\
            elem_get st free n idx = (st1, Ok (elem_of (base_of st1) a idx)).
Proof.
  intros I Hs H. destruct (check_dim_ok _ _ _ _ _ _ I Hs H) as (a & La & Hd & Hb & Hin).
  exists a. repeat split; auto. rewrite elem_get_unfold, H. cbn [bindS]. rewrite La.
  destruct (lookup_some _ _ _ La) as [_ Hn]. subst n dims.
  rewrite elem_range_spec by (try assumption; eapply in_bounds_length; eassumption). reflexivity.
Qed.

Lemma elem_set_unfold st free n idx v :
  elem_set st free n idx v =
  bindS (check_dim st free n idx) (fun st1 dims =>
  match lookup (a_list st1) n with
  | None => (st1, Host host_KeyError)
  | Some a =>
      bindS (st1, elem_range st1 n idx dims) (fun st1 r =>
        let '(lo, hi) := r in
        if negb (Nat.eqb (length (slice (a_buf a) lo hi)) (length v)) then (st1, Host host_ValueError)
        else (mkA (update_buf (a_list st1) n (set_slice (a_buf a) lo v))
                  (a_base st1) (a_bydim st1) (a_cur st1), Ok tt))
  end).
Proof. reflexivity. Qed.

Lemma elem_set_ok st free n idx v st1 dims : AInv st -> sigil_ok n ->
  check_dim st free n idx = (st1, Ok dims) ->
  exists a, lookup (a_list st1) n = Some a /\ a_dims a = dims /\
            in_bounds (base_of st1) dims idx /\
            elem_set st free n idx v =
            if Nat.eqb (Z.to_nat (size_bytes n)) (length v)
            then (set_buf st1 n (set_slice (a_buf a) (elem_lo (base_of st1) a idx) v), Ok tt)
            else (st1, Host host_ValueError).
Proof.
  intros I Hs H. destruct (check_dim_ok _ _ _ _ _ _ I Hs H) as (a & La & Hd & Hb & Hin).
  pose proof (check_dim_inv st free n idx I Hs) as [I1 _]. rewrite H in I1. simpl in I1.
  exists a. repeat split; auto. rewrite elem_set_unfold, H. cbn [bindS]. rewrite La.
  destruct (lookup_some _ _ _ La) as [Ha Hn]. subst n dims.
  rewrite elem_range_spec by (try assumption; eapply in_bounds_length; eassumption). cbn [bindS].
  assert (Hok : arr_ok (base_of st1) a) by (eapply Forall_forall; [apply inv_arrs, I1 | exact Ha]).
  pose proof (elem_of_length _ a idx (inv_base _ I1) Hok Hin) as L. unfold elem_of in L. rewrite L.
  destruct (Nat.eqb _ (length v)); reflexivity.
Qed.

Lemma laid_out_update b n buf : forall l p, laid_out b p (update_buf l n buf) <-> laid_out b p l.
Proof.
  induction l as [|x l IH]; intros p; simpl; [tauto|].
  destruct (list_Z_eqb (a_name x) n); simpl; [tauto|]. rewrite IH. tauto.
Qed.

Lemma total_update b n buf l : total b (update_buf l n buf) = total b l.
Proof.
  induction l as [|x l IH]; simpl; [reflexivity|].
  destruct (list_Z_eqb (a_name x) n); simpl; [reflexivity | rewrite IH; reflexivity].
Qed.

Lemma AInv_set_buf st n a buf : AInv st -> lookup (a_list st) n = Some a ->
  length buf = length (a_buf a) -> bytes_ok buf -> AInv (set_buf st n buf).
Proof.
  intros [I1 I2 I3 I4 I5 I6] La Hl Hb.
  assert (B : base_of (set_buf st n buf) = base_of st) by reflexivity.
  constructor; rewrite ?B; simpl.
  - rewrite update_buf_names. assumption.
  - intros E. rewrite (I2 E). reflexivity.
  - assumption.
  - apply Forall_forall. intros x Hx. rewrite Forall_forall in I4.
    destruct (update_buf_in _ _ _ _ I1 Hx) as [[Hin _]|(y & Hin & Hn & Hx')]; [apply I4, Hin|].
    subst x. pose proof (in_lookup _ _ I1 Hin) as Ly. rewrite Hn, La in Ly. inversion Ly; subst y.
    destruct (I4 a Hin) as (H1 & H2 & H3 & H4 & H5 & H6).
    unfold arr_ok; simpl. repeat split; auto. congruence.
  - apply laid_out_update. assumption.
  - rewrite total_update. assumption.
Qed.

Lemma elem_set_inv st free n idx v : AInv st -> sigil_ok n -> bytes_ok v ->
  AInv (fst (elem_set st free n idx v)).
Proof.
  intros I Hs Hv.
  pose proof (check_dim_inv st free n idx I Hs) as [I1 _].
  destruct (check_dim st free n idx) as [st1 r] eqn:EC. simpl in I1.
  destruct r as [dims| | |]; try (rewrite elem_set_unfold, EC; exact I1).
  destruct (elem_set_ok _ _ _ _ v _ _ I Hs EC) as (a & La & Hd & Hin & E). rewrite E.
  destruct (Nat.eqb_spec (Z.to_nat (size_bytes n)) (length v)) as [Hl|Hl]; simpl; [|exact I1].
  destruct (lookup_some _ _ _ La) as [Ha Hn].
  assert (Hok : arr_ok (base_of st1) a) by (eapply Forall_forall; [apply inv_arrs, I1 | exact Ha]).
  destruct (arr_ok_elem _ a idx (inv_base _ I1) Hok ltac:(rewrite Hd; exact Hin)) as (Hk & Hsz & Hlen).
  eapply AInv_set_buf; eauto.
  - unfold elem_lo. eapply elem_set_length; eauto; [lia | rewrite Hn; lia].
  - apply set_slice_bytes; [|assumption]. apply Hok.
Qed.

(* ---------- erase ---------- *)

Definition shift_all (f : Z) (a : arr) : arr :=
  mkArr (a_name a) (a_dims a) (a_buf a) (a_nptr a - f) (a_aptr a - f).

Lemma laid_out_bounds b : forall l p, Forall (arr_ok b) l -> laid_out b p l ->
  forall x, In x l -> p <= a_nptr x /\ a_nptr x + msize b x <= p + total b l.
Proof.
  induction l as [|a l IH]; intros p F L x Hx; [contradiction|].
  inversion F as [|? ? Ha F']; subst. destruct L as [L1 L2].
  pose proof (msize_pos b a ltac:(apply Ha) ltac:(apply Ha)) as Hm.
  assert (T : 0 <= total b l).
  { clear -F'. induction F' as [|y l Hy F' IH]; simpl; [lia|].
    pose proof (msize_pos b y ltac:(apply Hy) ltac:(apply Hy)). lia. }
  simpl. destruct Hx as [Hx|Hx].
  - subst x. lia.
  - destruct (IH _ F' L2 x Hx). lia.
Qed.

Lemma laid_out_shift b f : forall l p, laid_out b p l -> laid_out b (p - f) (map (shift_all f) l).
Proof.
  induction l as [|a l IH]; intros p L; simpl; [exact I|]. destruct L as [L1 L2].
  split; [lia|]. replace (p - f + msize b (shift_all f a)) with (p + msize b a - f) by (unfold msize; simpl; lia).
  apply IH, L2.
Qed.

Lemma total_shift b f l : total b (map (shift_all f) l) = total b l.
Proof. induction l as [|a l IH]; simpl; [reflexivity | rewrite IH; reflexivity]. Qed.

Lemma map_shift_after b e f l : Forall (arr_ok b) l ->
  (forall x, In x l -> a_nptr x <= e) -> map (shift_after e f) l = l.
Proof.
  intros _ H. induction l as [|a l IH]; simpl; [reflexivity|].
  rewrite IH by (intros x Hx; apply H; right; exact Hx).
  unfold shift_after. destruct (Z.gtb_spec (a_nptr a) e) as [C|C]; [|reflexivity].
  specialize (H a (or_introl eq_refl)). lia.
Qed.

Lemma map_shift_after_all e f l :
  (forall x, In x l -> e < a_nptr x) -> map (shift_after e f) l = map (shift_all f) l.
Proof.
  intros H. apply map_ext_in. intros a Ha. unfold shift_after.
  destruct (Z.gtb_spec (a_nptr a) e) as [C|C]; [reflexivity|]. specialize (H a Ha). lia.
Qed.

Definition erased (st : astate) (l1 l2 : list arr) (a : arr) : astate :=
  mkA (l1 ++ map (shift_all (msize (base_of st) a)) l2) (a_base st) (a_bydim st)
      (a_cur st - msize (base_of st) a).

Lemma erase_one_spec st n a : AInv st -> lookup (a_list st) n = Some a ->
  exists l1 l2, a_list st = l1 ++ a :: l2 /\ erase_one st n = (erased st l1 l2 a, Ok tt) /\
                AInv (erased st l1 l2 a).
Proof.
  intros I La. destruct (lookup_split _ _ _ La) as (l1 & l2 & E1 & E2 & E3).
  exists l1, l2. split; [assumption|].
  destruct (lookup_some _ _ _ La) as [Ha Hn].
  pose proof (AInv_base_some st a I Ha) as Hb.
  destruct I as [I1 I2 I3 I4 I5 I6].
  assert (Hok : arr_ok (base_of st) a) by (eapply Forall_forall; eauto).
  rewrite E1 in I4, I5, I6, I1.
  apply Forall_app in I4 as [F1 F2]. inversion F2 as [|? ? _ F2']; subst.
  apply laid_out_app in I5 as [L1 L2]. destruct L2 as [L2a L2]. simpl in L2a.
  rewrite total_app in I6. simpl in I6.
  assert (S1 : map (shift_after (a_nptr a) (msize (base_of st) a)) l1 = l1).
  { apply (map_shift_after (base_of st)); [assumption|]. intros x Hx.
    destruct (laid_out_bounds _ _ _ F1 L1 x Hx) as [_ B].
    pose proof (msize_pos (base_of st) x) as M.
    rewrite Forall_forall in F1. specialize (M ltac:(apply (F1 x Hx)) ltac:(apply (F1 x Hx))). lia. }
  assert (S2 : map (shift_after (a_nptr a) (msize (base_of st) a)) l2 =
               map (shift_all (msize (base_of st) a)) l2).
  { apply map_shift_after_all. intros x Hx.
    destruct (laid_out_bounds _ _ _ F2' L2 x Hx) as [B _].
    pose proof (msize_pos (base_of st) a ltac:(apply Hok) ltac:(apply Hok)). lia. }
  split.
  - unfold erase_one. rewrite La. rewrite (with_base_some _ _ _ Hb).
    rewrite arrays_erase_freed_spec by apply Hok. cbn [bindS].
    fold (msize (base_of st) a). unfold erased. rewrite E2, map_app, S1, S2. reflexivity.
  - assert (B : base_of (erased st l1 l2 a) = base_of st) by reflexivity.
    constructor; rewrite ?B; simpl.
    + rewrite map_app, map_map. simpl. rewrite map_app in I1. simpl in I1.
      apply NoDup_remove_1 in I1. exact I1.
    + intros E. rewrite E in Hb. discriminate.
    + assumption.
    + apply Forall_app. split; [assumption|]. apply Forall_forall. intros x Hx.
      apply in_map_iff in Hx as (y & Hy & Hin). subst x. rewrite Forall_forall in F2'.
      destruct (F2' y Hin) as (H1 & H2 & H3 & H4 & H5 & H6). unfold arr_ok; simpl. repeat split; auto. lia.
    + apply laid_out_app. split; [assumption|].
      replace (0 + total (base_of st) l1) with (0 + total (base_of st) l1 + msize (base_of st) a - msize (base_of st) a) by lia.
      apply laid_out_shift. exact L2.
    + rewrite total_app, total_shift. lia.
Qed.

(* every array after an erasure is an array from before with the same contents *)
Definition shrinks (st st' : astate) : Prop :=
  a_base st' = a_base st /\
  forall a', In a' (a_list st') ->
    exists a, In a (a_list st) /\ a_name a = a_name a' /\ a_dims a = a_dims a' /\ a_buf a = a_buf a'.

Lemma shrinks_refl st : shrinks st st.
Proof. split; [reflexivity|]. intros a H. exists a. auto. Qed.

Lemma shrinks_trans st st1 st2 : shrinks st st1 -> shrinks st1 st2 -> shrinks st st2.
Proof.
  intros [B1 H1] [B2 H2]. split; [congruence|]. intros a2 Ha2.
  destruct (H2 a2 Ha2) as (a1 & Ha1 & E1 & E2 & E3). destruct (H1 a1 Ha1) as (a & Ha & F1 & F2 & F3).
  exists a. repeat split; congruence.
Qed.

Lemma erase_one_inv st n : AInv st ->
  AInv (fst (erase_one st n)) /\ shrinks st (fst (erase_one st n)).
Proof.
  intros I. destruct (lookup (a_list st) n) as [a|] eqn:La.
  - destruct (erase_one_spec st n a I La) as (l1 & l2 & E1 & E2 & I').
    rewrite E2. simpl. split; [assumption|]. split; [reflexivity|]. simpl. intros a' Ha'.
    apply in_app_iff in Ha' as [H|H].
    + exists a'. rewrite E1. rewrite in_app_iff. auto.
    + apply in_map_iff in H as (y & Hy & Hin). subst a'. exists y. rewrite E1, in_app_iff. simpl. auto.
  - unfold erase_one. rewrite La. simpl. split; [assumption | apply shrinks_refl].
Qed.

Lemma erase_names_inv names : forall st, AInv st ->
  AInv (fst (erase_names st names)) /\ shrinks st (fst (erase_names st names)).
Proof.
  induction names as [|n names IH]; intros st I; simpl; [split; [assumption | apply shrinks_refl]|].
  destruct (erase_one_inv st n I) as [I1 S1].
  destruct (erase_one st n) as [st1 [[]| | |]]; simpl in *; try (split; assumption).
  destruct (IH st1 I1) as [I2 S2]. split; [assumption | exact (shrinks_trans _ _ _ S1 S2)].
Qed.

Lemma AInv_clear_base st : AInv st -> a_list st = [] -> AInv (clear_base st).
Proof.
  intros [I1 I2 I3 I4 I5 I6] E. rewrite E in *.
  constructor; simpl; unfold base_of; simpl; rewrite ?E; auto; try lia.
Qed.

(* after ERASE: invariant, and every surviving array is an unchanged old one under the same base *)
Lemma erase_inv st names : AInv st ->
  AInv (fst (erase_ st names)) /\
  (forall a', In a' (a_list (fst (erase_ st names))) ->
     base_of (fst (erase_ st names)) = base_of st /\
     exists a, In a (a_list st) /\ a_name a = a_name a' /\ a_dims a = a_dims a' /\ a_buf a = a_buf a').
Proof.
  intros I. unfold erase_. destruct (erase_names_inv names st I) as [I1 [B1 S1]].
  destruct (erase_names st names) as [st1 r]. simpl in I1, B1, S1.
  assert (G : forall a', In a' (a_list st1) -> base_of st1 = base_of st /\
            exists a, In a (a_list st) /\ a_name a = a_name a' /\ a_dims a = a_dims a' /\ a_buf a = a_buf a').
  { intros a' Ha'. split; [unfold base_of; rewrite B1; reflexivity | apply S1, Ha']. }
  destruct r as [[]| | |]; cbn [bindS fst]; try (split; assumption).
  destruct (is_nil (a_list st1) && a_bydim st1) eqn:EC; cbn [fst]; [|split; assumption].
  apply andb_true_iff in EC as [EN _]. destruct (a_list st1) eqn:EL; [|discriminate].
  split; [apply AInv_clear_base; assumption|]. simpl. rewrite EL. intros a' [].
Qed.

(* ---------- OPTION BASE ---------- *)

Lemma option_base_inv st b : AInv st -> (b = 0 \/ b = 1) ->
  AInv (fst (option_base_ st b)) /\
  a_list (fst (option_base_ st b)) = a_list st /\
  (a_list st <> [] -> base_of (fst (option_base_ st b)) = base_of st).
Proof.
  intros I Hb. unfold option_base_. destruct (a_base st) as [b0|] eqn:EB.
  - destruct (Z.eqb_spec b b0) as [E|E]; simpl; [|auto].
    subst b0. replace (mkA _ _ _ _) with st by (destruct st; simpl in *; congruence). auto.
  - pose proof (inv_unset st I EB) as L. simpl. split; [|split; [reflexivity | intros C; contradiction]].
    destruct I as [I1 I2 I3 I4 I5 I6]. rewrite L in *.
    constructor; simpl; unfold base_of; simpl; auto; try lia; try discriminate.
Qed.
