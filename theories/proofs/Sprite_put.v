(* C31: GET followed by PUT ,PSET at the same place leaves the page unchanged (matrix level: writing back the block
   that was read is the identity, for every viewport and every slice pair), composed with the pack/unpack round
   trip of the array format; PUT ,XOR: the block of the second PUT is the original contents. *)
From Coq Require Import ZArith List Bool Lia ZifyBool.
From PCB Require Import lib.Result lib.PyInt lib.GfxPrims gen.Gen_viewport model.Matrix model.Viewport model.Raster
  model.Sprite proofs.Matrix_proofs proofs.Viewport_proofs proofs.Sprite_proofs.
Import ListNotations.
Open Scope Z_scope.

Lemma row_setslice_self : forall r lo hi a b,
  slice_bounds (zlen r) lo hi = (a, b) -> row_setslice r lo hi (sublist r a b) = r.
Proof.
  intros r lo hi a b Hs. unfold row_setslice. rewrite Hs. unfold sublist.
  destruct (slice_bounds_le (zlen r) lo hi a b) as [Hab Hb]; [unfold zlen; lia | exact Hs|].
  rewrite <- (firstn_skipn a r) at 4. f_equal.
  rewrite <- (firstn_skipn (b - a) (skipn a r)) at 2. f_equal.
  clear - Hab. revert a b Hab. induction r as [|x r IH]; intros a b Hab.
  - rewrite !skipn_nil. reflexivity.
  - destruct a as [|a'].
    + cbn [skipn]. replace (b - 0)%nat with b by lia. reflexivity.
    + destruct b as [|b']; [lia|]. cbn [skipn Nat.sub]. apply IH. lia.
Qed.

Lemma upd_rows_same : forall m skip fs,
  (forall k r, nth_error m (skip + k) = Some r -> (k < length fs)%nat -> nth k fs (fun r => r) r = r) ->
  upd_rows m skip fs = m.
Proof.
  induction m as [|r0 m IH]; intros skip fs H; [reflexivity|].
  destruct skip as [|s]; cbn [upd_rows].
  - destruct fs as [|f fs]; [reflexivity|]. f_equal.
    + apply (H 0%nat r0); [reflexivity | cbn; lia].
    + apply IH. intros k r Hk Hl. apply (H (S k) r); [exact Hk | cbn; lia].
  - f_equal. apply IH. intros k r Hk Hl. apply (H k r); [exact Hk | exact Hl].
Qed.

Lemma nth_error_sublist : forall {A} (l : list A) a b k, (k < b - a)%nat ->
  nth_error (sublist l a b) k = nth_error l (a + k).
Proof.
  intros A l a b k Hk. unfold sublist. rewrite nth_error_firstn' by exact Hk. apply nth_error_skipn'.
Qed.

(* writing back what was read is the identity *)
Theorem mat_put_get_identity : forall m ylo yhi xlo xhi,
  mat_setitem m (ISlice ylo yhi) (ISlice xlo xhi) (Block (mat_getslice m ylo yhi xlo xhi)) = Ok m.
Proof.
  intros m ylo yhi xlo xhi. cbn [mat_setitem]. unfold mat_getslice.
  destruct (slice_bounds (zlen m) ylo yhi) as [ra rb] eqn:Es. f_equal.
  apply upd_rows_same. intros k r Hk Hl.
  rewrite map_length, firstn_length, map_length in Hl.
  set (g := fun r0 : list Z => let '(a, b) := slice_bounds (zlen r0) xlo xhi in sublist r0 a b) in *.
  assert (Hlen : (k < rb - ra)%nat) by lia.
  assert (Hsub : (k < length (sublist m ra rb))%nat) by lia.
  assert (Hnth : nth_error (map (fun s r1 => row_setslice r1 xlo xhi s) (firstn (rb - ra) (map g (sublist m ra rb)))) k
                 = Some (fun r1 => row_setslice r1 xlo xhi (g r))).
  { rewrite nth_error_map, nth_error_firstn' by lia. rewrite nth_error_map, nth_error_sublist by lia.
    rewrite Hk. reflexivity. }
  rewrite (nth_error_nth _ _ _ Hnth). subst g. cbv beta.
  destruct (slice_bounds (zlen r) xlo xhi) as [a b] eqn:Er. apply row_setslice_self. exact Er.
Qed.

(* the same through the viewport: GET's read and PUT's write convert the same slice pair *)
Theorem vp_put_get_identity : forall vp m y0 y1 x0 x1,
  vp_setitem vp m (WReq (ISlice (Some y0) (Some y1)) (ISlice (Some x0) (Some x1))
                        (Block (vp_getslice vp m y0 y1 x0 x1))) = Ok m.
Proof.
  intros vp m y0 y1 x0 x1. unfold vp_setitem, vp_getslice. cbn [rq_y rq_x rq_data].
  destruct (convert_slice_slices vp (ISlice (Some y0) (Some y1)) (ISlice (Some x0) (Some x1)) eq_refl)
    as [Y0 [Y1 [X0 [X1 [Hcv _]]]]].
  rewrite Hcv. apply mat_put_get_identity.
Qed.

(* GET (pack into the array) then PUT ,PSET (unpack, write at the same place): the page is unchanged *)
Theorem get_put_pset_identity : forall vp m bpp y0 y1 x0 x1 w h extra,
  bpp_ok bpp -> sprite_ok bpp (vp_getslice vp m y0 y1 x0 x1) w h ->
  0 < w -> 0 < h -> w * bpp < 65536 -> h < 65536 ->
  let arr := pack_sprite bpp (vp_getslice vp m y0 y1 x0 x1) ++ extra in
  vp_setitem vp m (WReq (ISlice (Some y0) (Some y1)) (ISlice (Some x0) (Some x1))
                        (Block (unpack_sprite bpp arr))) = Ok m.
Proof.
  intros vp m bpp y0 y1 x0 x1 w h extra Hb Hs Hw Hh Hwb Hh1. cbv zeta.
  rewrite (sprite_roundtrip bpp _ w h extra Hb Hs Hw Hh Hwb Hh1). apply vp_put_get_identity.
Qed.

(* PUT ,XOR twice: the block computed by the second PUT from what the first one wrote is the original contents *)
Lemma xor_twice : forall a b, Z.lxor (Z.lxor a b) b = a.
Proof. intros. rewrite Z.lxor_assoc, Z.lxor_nilpotent, Z.lxor_0_r. reflexivity. Qed.

Theorem put_xor_block_involution : forall (cur s : matrix),
  length cur = length s -> Forall2 (fun rc rs => length rc = length rs) cur s ->
  mat_zip Z.lxor (mat_zip Z.lxor cur s) s = cur.
Proof.
  intros cur. induction cur as [|rc cur IH]; intros s Hl Hf.
  - destruct s; reflexivity.
  - destruct s as [|rs s]; [discriminate Hl|]. inversion Hf as [|? ? ? ? Hr Hrest]; subst.
    unfold mat_zip in *. cbn [combine map]. f_equal.
    + clear - Hr. revert rs Hr. induction rc as [|a rc IHr]; intros rs Hr; [destruct rs; reflexivity|].
      destruct rs as [|b rs]; [discriminate Hr|]. cbn [combine map]. f_equal; [apply xor_twice|].
      apply IHr. cbn in Hr. lia.
    + apply IH; [cbn in Hl; lia | exact Hrest].
Qed.

(* ---------- read after write, write after write (for PUT ,XOR twice) *)

Lemma list_ext_nth_error : forall {A} (l l' : list A), (forall k, nth_error l k = nth_error l' k) -> l = l'.
Proof.
  intros A l. induction l as [|a l IH]; intros l' H.
  - destruct l' as [|b l']; [reflexivity|]. specialize (H 0%nat). discriminate H.
  - destruct l' as [|b l']; [specialize (H 0%nat); discriminate H|].
    f_equal; [specialize (H 0%nat); cbn in H; congruence|].
    apply IH. intros k. exact (H (S k)).
Qed.

Lemma skipn_app_exact : forall {A} (l1 l2 : list A) n, length l1 = n -> skipn n (l1 ++ l2) = l2.
Proof. intros A l1 l2 n H. rewrite skipn_app, H, Nat.sub_diag. rewrite skipn_all2 by lia. reflexivity. Qed.

Lemma firstn_app_exact : forall {A} (l1 l2 : list A) n, length l1 = n -> firstn n (l1 ++ l2) = l1.
Proof.
  intros A l1 l2 n H. rewrite firstn_app, H, Nat.sub_diag. cbn [firstn]. rewrite app_nil_r.
  apply firstn_all2. lia.
Qed.

Lemma row_setslice_props : forall r lo hi a b s,
  slice_bounds (zlen r) lo hi = (a, b) -> length s = (b - a)%nat ->
  let r' := row_setslice r lo hi s in
  length r' = length r /\ sublist r' a b = s /\
  (forall s2, row_setslice r' lo hi s2 = row_setslice r lo hi s2).
Proof.
  intros r lo hi a b s Hs Hl. cbv zeta.
  destruct (slice_bounds_le (zlen r) lo hi a b) as [Hab Hb]; [unfold zlen; lia | exact Hs|]. unfold zlen in Hb.
  assert (Hfa : length (firstn a r) = a) by (rewrite firstn_length; lia).
  assert (Hlen : length (row_setslice r lo hi s) = length r).
  { unfold row_setslice. rewrite Hs. apply length_replace; lia. }
  split; [exact Hlen|]. split.
  - unfold row_setslice. rewrite Hs. unfold sublist. rewrite skipn_app_exact by exact Hfa.
    apply firstn_app_exact. exact Hl.
  - intros s2. unfold row_setslice at 1. unfold zlen. rewrite Hlen. fold (zlen r). rewrite Hs.
    unfold row_setslice. rewrite Hs.
    rewrite firstn_app_exact by exact Hfa.
    replace (firstn a r ++ s ++ skipn b r) with ((firstn a r ++ s) ++ skipn b r) by (rewrite <- app_assoc; reflexivity).
    rewrite skipn_app_exact by (rewrite app_length; lia). reflexivity.
Qed.

Section PutTwice.
  Variables (xlo xhi : option Z) (w : Z) (ca cb : nat).
  Hypothesis Hcols : slice_bounds w xlo xhi = (ca, cb).

  Definition setrows (m : matrix) (ra n : nat) (src : matrix) : matrix :=
    upd_rows m ra (map (fun s r => row_setslice r xlo xhi s) (firstn n src)).
  Definition getrows (m : matrix) (ra rb : nat) : matrix :=
    map (fun r => let '(a, b) := slice_bounds (zlen r) xlo xhi in sublist r a b) (sublist m ra rb).

  Lemma setrows_width : forall m ra n src, width_is w m ->
    Forall (fun s => length s = (cb - ca)%nat) src -> width_is w (setrows m ra n src).
  Proof.
    intros m ra n src Hw Hsrc. unfold setrows. apply width_upd_rows; [exact Hw|].
    intros f r Hin Hr. apply in_map_iff in Hin. destruct Hin as [s [E Hs]]. subst f.
    apply firstn_In' in Hs. rewrite Forall_forall in Hsrc. specialize (Hsrc s Hs).
    rewrite <- Hr in Hcols. destruct (row_setslice_props r xlo xhi ca cb s Hcols Hsrc) as [Hl _].
    unfold zlen in *. lia.
  Qed.

  Lemma nth_error_setrows : forall m ra n src y, length src = n ->
    nth_error (setrows m ra n src) y =
    match nth_error m y with
    | None => None
    | Some r => if ((ra <=? y) && (y <? ra + n))%nat
                then option_map (row_setslice r xlo xhi) (nth_error src (y - ra)) else Some r
    end.
  Proof.
    intros m ra n src y Hn. unfold setrows. rewrite nth_error_upd_rows.
    destruct (nth_error m y) as [r|]; [|reflexivity].
    rewrite map_length, firstn_length. replace (Nat.min n (length src)) with n by lia.
    destruct ((ra <=? y)%nat && (y <? ra + n)%nat) eqn:E; [|reflexivity].
    assert (Hk : (y - ra < length src)%nat) by lia.
    destruct (nth_error src (y - ra)) as [s|] eqn:Es; [|apply nth_error_None in Es; lia].
    cbn [option_map].
    assert (Hnth : nth_error (map (fun s0 r0 => row_setslice r0 xlo xhi s0) (firstn n src)) (y - ra)
                   = Some (fun r0 => row_setslice r0 xlo xhi s)).
    { rewrite nth_error_map, nth_error_firstn' by lia. rewrite Es. reflexivity. }
    rewrite (nth_error_nth _ _ _ Hnth). reflexivity.
  Qed.

  (* reading back what was written *)
  Lemma get_set : forall m ra rb src, width_is w m -> (ra <= rb)%nat -> (rb <= length m)%nat ->
    length src = (rb - ra)%nat -> Forall (fun s => length s = (cb - ca)%nat) src ->
    getrows (setrows m ra (rb - ra) src) ra rb = src.
  Proof.
    intros m ra rb src Hw Hab Hb Hn Hsrc. apply list_ext_nth_error. intros k. unfold getrows.
    rewrite nth_error_map.
    destruct (lt_dec k (rb - ra)) as [Hk|Hk].
    - rewrite nth_error_sublist by exact Hk. rewrite nth_error_setrows by exact Hn.
      destruct (nth_error m (ra + k)) as [r|] eqn:Er; [|apply nth_error_None in Er; lia].
      replace ((ra <=? ra + k)%nat && (ra + k <? ra + (rb - ra))%nat) with true by lia.
      replace (ra + k - ra)%nat with k by lia.
      destruct (nth_error src k) as [s|] eqn:Es; [|apply nth_error_None in Es; lia].
      cbn [option_map]. f_equal.
      assert (Hr : zlen r = w) by (eapply width_nth_error; eauto).
      assert (Hsl : length s = (cb - ca)%nat).
      { rewrite Forall_forall in Hsrc. apply Hsrc. eapply nth_error_In; eauto. }
      pose proof Hcols as Hc. rewrite <- Hr in Hc.
      destruct (row_setslice_props r xlo xhi ca cb s Hc Hsl) as [Hl [Hg _]].
      replace (zlen (row_setslice r xlo xhi s)) with (zlen r) by (unfold zlen; lia).
      rewrite Hc. exact Hg.
    - replace (nth_error src k) with (@None (list Z)) by (symmetry; apply nth_error_None; lia).
      replace (nth_error (sublist (setrows m ra (rb - ra) src) ra rb) k) with (@None (list Z)); [reflexivity|].
      symmetry. apply nth_error_None. unfold sublist. rewrite firstn_length. lia.
  Qed.

  (* the second write overwrites the first *)
  Lemma set_set : forall m ra n src1 src2, width_is w m ->
    length src1 = n -> length src2 = n -> Forall (fun s => length s = (cb - ca)%nat) src1 ->
    setrows (setrows m ra n src1) ra n src2 = setrows m ra n src2.
  Proof.
    intros m ra n src1 src2 Hw H1 H2 Hsrc. apply list_ext_nth_error. intros y.
    rewrite (nth_error_setrows (setrows m ra n src1) ra n src2 y H2).
    rewrite (nth_error_setrows m ra n src1 y H1). rewrite (nth_error_setrows m ra n src2 y H2).
    destruct (nth_error m y) as [r|] eqn:Er; [|reflexivity].
    destruct ((ra <=? y)%nat && (y <? ra + n)%nat) eqn:E; [|reflexivity].
    destruct (nth_error src1 (y - ra)) as [s1|] eqn:E1; [|apply nth_error_None in E1; lia].
    cbn [option_map]. destruct (nth_error src2 (y - ra)) as [s2|] eqn:E2; [|reflexivity].
    cbn [option_map]. f_equal.
    assert (Hr : zlen r = w) by (eapply width_nth_error; eauto).
    assert (Hsl : length s1 = (cb - ca)%nat).
    { rewrite Forall_forall in Hsrc. apply Hsrc. eapply nth_error_In; eauto. }
    pose proof Hcols as Hc. rewrite <- Hr in Hc.
    destruct (row_setslice_props r xlo xhi ca cb s1 Hc Hsl) as [_ [_ Hss]]. apply Hss.
  Qed.
End PutTwice.

Lemma mat_zip_shape : forall f (a b : matrix) n c,
  length a = n -> length b = n -> Forall (fun r => length r = c) a -> Forall (fun r => length r = c) b ->
  length (mat_zip f a b) = n /\ Forall (fun r => length r = c) (mat_zip f a b).
Proof.
  intros f a. induction a as [|ra a IH]; intros b n c Ha Hb Fa Fb.
  - cbn in *. subst n. split; [reflexivity | constructor].
  - destruct b as [|rb b]; [cbn in *; lia|]. unfold mat_zip in *. cbn [combine map length] in *.
    destruct n as [|n]; [lia|].
    destruct (IH b n c) as [Hl Hf]; try lia; try exact (Forall_inv_tail Fa); try exact (Forall_inv_tail Fb).
    split; [lia|]. constructor; [|exact Hf].
    rewrite map_length, combine_length. pose proof (Forall_inv Fa). pose proof (Forall_inv Fb). cbv beta in *. lia.
Qed.

Lemma Forall2_same_length : forall (a b : matrix) c,
  length a = length b -> Forall (fun r => length r = c) a -> Forall (fun r => length r = c) b ->
  Forall2 (fun ra rb => length ra = length rb) a b.
Proof.
  induction a as [|ra a IH]; intros b c Hl Fa Fb; destruct b as [|rb b]; try discriminate; constructor.
  - pose proof (Forall_inv Fa). pose proof (Forall_inv Fb). cbv beta in *. lia.
  - apply (IH b c); [cbn in Hl; lia | exact (Forall_inv_tail Fa) | exact (Forall_inv_tail Fb)].
Qed.

Lemma getrows_shape : forall xlo xhi w ca cb m ra rb,
  slice_bounds w xlo xhi = (ca, cb) -> 0 <= w -> width_is w m -> (ra <= rb)%nat -> (rb <= length m)%nat ->
  length (getrows xlo xhi m ra rb) = (rb - ra)%nat /\
  Forall (fun r => length r = (cb - ca)%nat) (getrows xlo xhi m ra rb).
Proof.
  intros xlo xhi w ca cb m ra rb Hc Hw0 Hw Hab Hb. unfold getrows. split.
  - rewrite map_length. unfold sublist. rewrite firstn_length, skipn_length. lia.
  - apply Forall_forall. intros r Hin. apply in_map_iff in Hin. destruct Hin as [r0 [E Hr0]].
    assert (Hr0w : zlen r0 = w).
    { unfold width_is in Hw. rewrite Forall_forall in Hw. apply Hw. unfold sublist in Hr0.
      apply firstn_In' in Hr0. clear - Hr0. revert ra Hr0. induction m as [|p pg IHp]; intros ra Hr0.
      - rewrite skipn_nil in Hr0. destruct Hr0.
      - destruct ra; [exact Hr0 | right; eapply IHp; exact Hr0]. }
    rewrite Hr0w, Hc in E. subst r.
    destruct (slice_bounds_le w xlo xhi ca cb Hw0 Hc) as [H1 H2].
    unfold sublist. rewrite firstn_length, skipn_length. unfold zlen in Hr0w. lia.
Qed.

(* PUT ,XOR applied twice to the same rectangle restores the page (matrix level) *)
Theorem mat_put_xor_twice : forall m ylo yhi xlo xhi w s ra rb ca cb,
  0 <= w -> width_is w m ->
  slice_bounds (zlen m) ylo yhi = (ra, rb) -> slice_bounds w xlo xhi = (ca, cb) ->
  length s = (rb - ra)%nat -> Forall (fun r => length r = (cb - ca)%nat) s ->
  let put := fun m0 => mat_setitem m0 (ISlice ylo yhi) (ISlice xlo xhi)
                         (Block (mat_zip Z.lxor (mat_getslice m0 ylo yhi xlo xhi) s)) in
  bind (put m) put = Ok m.
Proof.
  intros m ylo yhi xlo xhi w s ra rb ca cb Hw0 Hw Hrows Hcols Hs Fs. cbv zeta.
  destruct (slice_bounds_le (zlen m) ylo yhi ra rb) as [Hab Hb]; [unfold zlen; lia | exact Hrows|].
  unfold zlen in Hb.
  assert (Hget : forall m0, zlen m0 = zlen m ->
            mat_getslice m0 ylo yhi xlo xhi = getrows xlo xhi m0 ra rb).
  { intros m0 E. unfold mat_getslice. rewrite E, Hrows. reflexivity. }
  assert (Hset : forall m0 src, zlen m0 = zlen m ->
            mat_setitem m0 (ISlice ylo yhi) (ISlice xlo xhi) (Block src) = Ok (setrows xlo xhi m0 ra (rb - ra) src)).
  { intros m0 src E. cbn [mat_setitem]. rewrite E, Hrows. reflexivity. }
  rewrite (Hget m eq_refl). rewrite (Hset m _ eq_refl). cbn [bind].
  set (cur := getrows xlo xhi m ra rb).
  destruct (getrows_shape xlo xhi w ca cb m ra rb Hcols Hw0 Hw Hab) as [Hcl Hcf]; [lia|]. fold cur in Hcl, Hcf.
  destruct (mat_zip_shape Z.lxor cur s (rb - ra)%nat (cb - ca)%nat Hcl Hs Hcf Fs) as [Hzl Hzf].
  set (rect1 := mat_zip Z.lxor cur s) in *.
  set (m1 := setrows xlo xhi m ra (rb - ra) rect1).
  assert (Hm1l : zlen m1 = zlen m) by (unfold m1, setrows, zlen; rewrite length_upd_rows; reflexivity).
  assert (Hm1w : width_is w m1) by (apply (setrows_width xlo xhi w ca cb Hcols); assumption).
  rewrite (Hget m1 Hm1l). rewrite (Hset m1 _ Hm1l).
  unfold m1. rewrite (get_set xlo xhi w ca cb Hcols m ra rb rect1 Hw Hab) by (try lia; assumption).
  replace (mat_zip Z.lxor rect1 s) with cur.
  2:{ unfold rect1. symmetry. apply put_xor_block_involution; [lia|].
      apply (Forall2_same_length cur s (cb - ca)%nat); [lia | assumption | assumption]. }
  rewrite (set_set xlo xhi w ca cb Hcols m ra (rb - ra)%nat rect1 cur Hw Hzl Hcl Hzf).
  pose proof (mat_put_get_identity m ylo yhi xlo xhi) as Hid.
  rewrite (Hget m eq_refl) in Hid. rewrite (Hset m _ eq_refl) in Hid. fold cur in Hid. exact Hid.
Qed.
