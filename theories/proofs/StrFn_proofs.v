(* C09: proofs about model/StrFn.v against the reference definitions of model/StrFnSpec.v *)
From Coq Require Import ZArith List Bool Lia ZifyBool Arith.
From PCB Require Import lib.Result lib.PyInt lib.Harness gen.Gen_strfn model.StrFn model.StrFnSpec.
Import ListNotations.
Open Scope Z_scope.

Ltac Zify.zify_post_hook ::= Z.to_euclidean_division_equations.

(* ------------------------------------------------------------------ list helpers *)

Lemma firstn_clip {A} (s : list A) (n : nat) :
  firstn (Nat.min n (length s)) s = firstn n s.
Proof.
  destruct (le_lt_dec n (length s)) as [H|H].
  - rewrite Nat.min_l by exact H. reflexivity.
  - rewrite Nat.min_r by lia. rewrite firstn_all. symmetry. apply firstn_all2. lia.
Qed.

Lemma skipn_all3 {A} (s : list A) (n : nat) : (length s <= n)%nat -> skipn n s = [].
Proof. intros H. apply skipn_all2. exact H. Qed.

Lemma skipn_skipn {A} (x y : nat) (l : list A) : skipn x (skipn y l) = skipn (x + y) l.
Proof.
  revert l. induction y as [|y IH]; intros l.
  - rewrite Nat.add_0_r. reflexivity.
  - rewrite Nat.add_succ_r. destruct l as [|a l]; [rewrite !skipn_nil; reflexivity|].
    simpl. apply IH.
Qed.

Lemma nth_firstn_lt {A} (d : A) j : forall p l, (p < j)%nat -> nth p (firstn j l) d = nth p l d.
Proof.
  induction j as [|j IH]; intros p l H; [lia|].
  destruct l as [|a l]; [reflexivity|]. destruct p as [|p]; [reflexivity|]. simpl. apply IH. lia.
Qed.

Lemma nth_skipn_add {A} (d : A) k : forall q l, nth q (skipn k l) d = nth (k + q) l d.
Proof.
  induction k as [|k IH]; intros q l; [reflexivity|].
  destruct l as [|a l]; [destruct q; reflexivity|]. simpl. apply IH.
Qed.

(* s[a:b] for non-negative a, b *)
Lemma py_slice_nonneg s a b : 0 <= a -> 0 <= b ->
  py_slice s a b = firstn (Z.to_nat b - Z.to_nat a) (skipn (Z.to_nat a) s).
Proof.
  intros Ha Hb. unfold py_slice, norm_idx, zlen.
  destruct (a <? 0) eqn:Ea; [lia|]. destruct (b <? 0) eqn:Eb; [lia|].
  destruct (le_lt_dec (length s) (Z.to_nat a)) as [H|H].
  - rewrite (skipn_all3 s (Z.to_nat a)) by exact H.
    rewrite (skipn_all3 s) by lia. rewrite !firstn_nil. reflexivity.
  - replace (Z.to_nat (Z.min a (Z.of_nat (length s)))) with (Z.to_nat a) by lia.
    rewrite <- (firstn_clip (skipn (Z.to_nat a) s) (Z.to_nat b - Z.to_nat a)).
    rewrite skipn_length. f_equal. lia.
Qed.

Lemma py_slice_prefix s n : 0 <= n -> py_slice s 0 n = firstn (Z.to_nat n) s.
Proof.
  intros Hn. rewrite py_slice_nonneg by lia. simpl. rewrite Nat.sub_0_r. reflexivity.
Qed.

(* s[-n:] *)
Lemma py_slice_suffix s n : 0 < n ->
  py_slice s (- n) (zlen s) = skipn (length s - Z.to_nat n) s.
Proof.
  intros Hn. unfold py_slice, norm_idx, zlen.
  destruct (- n <? 0) eqn:E1; [|lia].
  destruct (Z.of_nat (length s) <? 0) eqn:E2; [lia|].
  replace (Z.to_nat (Z.max 0 (Z.of_nat (length s) + - n))) with (length s - Z.to_nat n)%nat by lia.
  apply firstn_all2. rewrite skipn_length. lia.
Qed.

Lemma firstn_le_length {A} (s : list A) n : (length (firstn n s) <= n)%nat.
Proof. rewrite firstn_length. lia. Qed.

Lemma zlen_nonneg {A} (l : list A) : 0 <= zlen l.
Proof. unfold zlen. lia. Qed.

Lemma zlen_app {A} (a b : list A) : zlen (a ++ b) = zlen a + zlen b.
Proof. unfold zlen. rewrite app_length. lia. Qed.

Lemma zlen_repeat {A} (x : A) n : zlen (repeat x n) = Z.of_nat n.
Proof. unfold zlen. rewrite repeat_length. reflexivity. Qed.

(* ------------------------------------------------------------------ checks *)

Lemma to_int_ok z : in16 z -> to_int z = Ok z.
Proof. unfold in16, to_int. intros H. destruct ((-32768 <=? z) && (z <=? 32767)) eqn:E; [reflexivity|lia]. Qed.

Lemma to_int_err z : ~ in16 z -> to_int z = Err OVERFLOW.
Proof. unfold in16, to_int. intros H. destruct ((-32768 <=? z) && (z <=? 32767)) eqn:E; [lia|reflexivity]. Qed.

Lemma in16_dec z : in16 z \/ ~ in16 z.
Proof. unfold in16. lia. Qed.

Lemma range_ok lo hi v : lo <= v <= hi -> range_check lo hi v = Ok tt.
Proof. unfold range_check. intros H. destruct ((lo <=? v) && (v <=? hi)) eqn:E; [reflexivity|lia]. Qed.

Lemma range_err lo hi v : ~ lo <= v <= hi -> range_check lo hi v = Err IFC.
Proof. unfold range_check. intros H. destruct ((lo <=? v) && (v <=? hi)) eqn:E; [lia|reflexivity]. Qed.

Lemma range_dec lo hi v : lo <= v <= hi \/ ~ lo <= v <= hi.
Proof. lia. Qed.

Lemma from_str_ok l : (length l <= 255)%nat -> from_str l = Ok l.
Proof.
  intros H. unfold from_str, strfn_store_check, zlen.
  destruct (Z.of_nat (length l) >? 255) eqn:E; [lia|reflexivity].
Qed.

Lemma from_str_err l : (255 < length l)%nat -> from_str l = Err STRING_TOO_LONG.
Proof.
  intros H. unfold from_str, strfn_store_check, zlen.
  destruct (Z.of_nat (length l) >? 255) eqn:E; [reflexivity|lia].
Qed.

Lemma checked_intro {A} (z lo hi : Z) (v : A) (r : res A) :
  -32768 <= lo -> hi <= 32767 ->
  (~ in16 z -> r = Err OVERFLOW) ->
  (in16 z -> ~ lo <= z <= hi -> r = Err IFC) ->
  (lo <= z <= hi -> r = Ok v) ->
  checked z lo hi v r.
Proof.
  intros Hlo Hhi H1 H2 H3. unfold checked.
  unfold IFC, OVERFLOW in *.
  destruct (in16_dec z) as [I|I]; destruct (range_dec lo hi z) as [R|R].
  - rewrite (H3 R). repeat split; intros; try discriminate; try reflexivity;
    first [tauto | unfold in16 in *; lia].
  - rewrite (H2 I R). repeat split; intros; try discriminate; try reflexivity;
    first [tauto | unfold in16 in *; lia].
  - unfold in16 in I. lia.
  - rewrite (H1 I). repeat split; intros; try discriminate; try reflexivity;
    first [tauto | unfold in16 in *; lia].
Qed.

(* ------------------------------------------------------------------ rounding *)

Lemma round_half_away_nearest m k : 0 <= k ->
  let r := round_half_away m k in
  Z.abs (2 * (r * 2 ^ k) - 2 * m) <= 2 ^ k /\
  (Z.abs (2 * (r * 2 ^ k) - 2 * m) = 2 ^ k -> Z.abs m < Z.abs r * 2 ^ k).
Proof.
  intros Hk. cbv zeta. unfold round_half_away.
  assert (Hd : 0 < 2 ^ k) by (apply Z.pow_pos_nonneg; lia).
  set (d := 2 ^ k) in *.
  destruct (0 <=? m) eqn:E.
  - pose proof (Z.div_mod (2 * m + d) (2 * d)) as D.
    pose proof (Z.mod_pos_bound (2 * m + d) (2 * d)) as B.
    set (q := (2 * m + d) / (2 * d)) in *. set (t := (2 * m + d) mod (2 * d)) in *.
    split; nia.
  - pose proof (Z.div_mod (2 * (- m) + d) (2 * d)) as D.
    pose proof (Z.mod_pos_bound (2 * (- m) + d) (2 * d)) as B.
    set (q := (2 * (- m) + d) / (2 * d)) in *. set (t := (2 * (- m) + d) mod (2 * d)) in *.
    split; nia.
Qed.

Lemma round_half_away_int z : round_half_away z 0 = z.
Proof.
  unfold round_half_away. change (2 ^ 0) with 1.
  destruct (0 <=? z) eqn:E; lia.
Qed.

(* ------------------------------------------------------------------ LEN ASC CHR$ SPACE$ *)

Lemma len_spec s : len_ s = Ok (zlen s).
Proof. reflexivity. Qed.

Lemma asc_spec s : asc_ s = match s with [] => Err IFC | c :: _ => Ok c end.
Proof. reflexivity. Qed.

Lemma chr_spec x : checked x 0 255 [x] (chr_ x).
Proof.
  apply checked_intro; try lia; unfold chr_.
  - intros H. rewrite to_int_err by exact H. reflexivity.
  - intros H R. rewrite to_int_ok by exact H. cbn [bind].
    change strfn_chr_val_lo with 0. change strfn_chr_val_hi with 255.
    rewrite range_err by exact R. reflexivity.
  - intros R. rewrite to_int_ok by (unfold in16; lia). cbn [bind].
    change strfn_chr_val_lo with 0. change strfn_chr_val_hi with 255.
    rewrite range_ok by exact R. cbn [bind]. apply from_str_ok. simpl. lia.
Qed.

Lemma space_spec x : checked x 0 255 (repeat 32 (Z.to_nat x)) (space_ x).
Proof.
  apply checked_intro; try lia; unfold space_.
  - intros H. rewrite to_int_err by exact H. reflexivity.
  - intros H R. rewrite to_int_ok by exact H. cbn [bind].
    change strfn_space_num_lo with 0. change strfn_space_num_hi with 255.
    rewrite range_err by exact R. reflexivity.
  - intros R. rewrite to_int_ok by (unfold in16; lia). cbn [bind].
    change strfn_space_num_lo with 0. change strfn_space_num_hi with 255.
    rewrite range_ok by exact R. cbn [bind]. apply from_str_ok. rewrite repeat_length. lia.
Qed.

(* ------------------------------------------------------------------ LEFT$ RIGHT$ MID$ *)

Lemma left_spec s x : checked x 0 255 (ref_left s x) (left_ s x).
Proof.
  apply checked_intro; try lia; unfold left_.
  - intros H. rewrite to_int_err by exact H. reflexivity.
  - intros H R. rewrite to_int_ok by exact H. cbn [bind].
    destruct (x =? 0) eqn:E; [lia|].
    change strfn_left_stop_lo with 0. change strfn_left_stop_hi with 255.
    rewrite range_err by exact R. reflexivity.
  - intros R. rewrite to_int_ok by (unfold in16; lia). cbn [bind]. unfold ref_left.
    destruct (x =? 0) eqn:E.
    + replace x with 0 by lia. reflexivity.
    + change strfn_left_stop_lo with 0. change strfn_left_stop_hi with 255.
      rewrite range_ok by exact R. cbn [bind]. rewrite py_slice_prefix by lia.
      apply from_str_ok. pose proof (firstn_le_length s (Z.to_nat x)). lia.
Qed.

Lemma right_spec s x : checked x 0 255 (ref_right s x) (right_ s x).
Proof.
  apply checked_intro; try lia; unfold right_.
  - intros H. rewrite to_int_err by exact H. reflexivity.
  - intros H R. rewrite to_int_ok by exact H. cbn [bind].
    destruct (x =? 0) eqn:E; [lia|].
    change strfn_right_stop_lo with 0. change strfn_right_stop_hi with 255.
    rewrite range_err by exact R. reflexivity.
  - intros R. rewrite to_int_ok by (unfold in16; lia). cbn [bind]. unfold ref_right.
    destruct (x =? 0) eqn:E.
    + replace x with 0 by lia. simpl. rewrite Nat.sub_0_r, skipn_all. reflexivity.
    + change strfn_right_stop_lo with 0. change strfn_right_stop_hi with 255.
      rewrite range_ok by exact R. cbn [bind]. rewrite py_slice_suffix by lia.
      apply from_str_ok. rewrite skipn_length. lia.
Qed.

(* RIGHT$ is the last n bytes: what remains after dropping the first len-n *)
Lemma ref_right_app s x : 0 <= x ->
  exists pre, s = pre ++ ref_right s x /\ length (ref_right s x) = Nat.min (Z.to_nat x) (length s).
Proof.
  intros Hx. exists (firstn (length s - Z.to_nat x) s). unfold ref_right. split.
  - symmetry. apply firstn_skipn.
  - rewrite skipn_length. lia.
Qed.

Lemma mid_ok s st n : 1 <= st <= 255 -> 0 <= n <= 255 ->
  mid_ s st (Some n) = Ok (ref_mid s st n).
Proof.
  intros Hs Hn. unfold mid_. rewrite !to_int_ok by (unfold in16; lia). cbn [bind].
  change strfn_mid_start_lo with 1. change strfn_mid_start_hi with 255.
  change strfn_mid_num_lo with 0. change strfn_mid_num_hi with 255.
  rewrite !range_ok by lia. cbn [bind]. unfold ref_mid.
  destruct ((n =? 0) || (st >? zlen s)) eqn:E.
  - destruct (n =? 0) eqn:E0.
    + replace n with 0 by lia. reflexivity.
    + rewrite (skipn_all3 s) by (unfold zlen in E; lia). rewrite firstn_nil. reflexivity.
  - rewrite py_slice_nonneg by lia.
    replace (Z.to_nat (st - 1 + n) - Z.to_nat (st - 1))%nat with (Z.to_nat n) by lia.
    apply from_str_ok. pose proof (firstn_le_length (skipn (Z.to_nat (st - 1)) s) (Z.to_nat n)). lia.
Qed.

Lemma mid_ifc s st n : mid_ s st (Some n) = Err IFC <->
  in16 st /\ in16 n /\ ~ (1 <= st <= 255 /\ 0 <= n <= 255).
Proof.
  destruct (in16_dec st) as [I1|I1].
  2:{ unfold mid_. rewrite to_int_err by exact I1. cbn [bind]. split; [discriminate|tauto]. }
  destruct (in16_dec n) as [I2|I2].
  2:{ unfold mid_. rewrite to_int_ok by exact I1. cbn [bind]. rewrite to_int_err by exact I2.
      cbn [bind]. split; [discriminate|tauto]. }
  destruct (range_dec 1 255 st) as [R1|R1]; destruct (range_dec 0 255 n) as [R2|R2].
  - rewrite mid_ok by assumption. split; [discriminate|tauto].
  - unfold mid_. rewrite !to_int_ok by assumption. cbn [bind].
    change strfn_mid_start_lo with 1. change strfn_mid_start_hi with 255.
    change strfn_mid_num_lo with 0. change strfn_mid_num_hi with 255.
    rewrite range_ok by exact R1. cbn [bind]. rewrite range_err by exact R2. cbn [bind]. tauto.
  - unfold mid_. rewrite !to_int_ok by assumption. cbn [bind].
    change strfn_mid_start_lo with 1. change strfn_mid_start_hi with 255.
    rewrite range_err by exact R1. cbn [bind]. tauto.
  - unfold mid_. rewrite !to_int_ok by assumption. cbn [bind].
    change strfn_mid_start_lo with 1. change strfn_mid_start_hi with 255.
    rewrite range_err by exact R1. cbn [bind]. tauto.
Qed.

Lemma mid_ovf s st n : mid_ s st (Some n) = Err OVERFLOW <-> ~ in16 st \/ ~ in16 n.
Proof.
  destruct (in16_dec st) as [I1|I1].
  2:{ unfold mid_. rewrite to_int_err by exact I1. cbn [bind]. tauto. }
  destruct (in16_dec n) as [I2|I2].
  2:{ unfold mid_. rewrite to_int_ok by exact I1. cbn [bind]. rewrite to_int_err by exact I2.
      cbn [bind]. tauto. }
  split; [|tauto]. intros H. exfalso.
  destruct (range_dec 1 255 st) as [R1|R1]; destruct (range_dec 0 255 n) as [R2|R2].
  - rewrite mid_ok in H by assumption. discriminate.
  - assert (E : mid_ s st (Some n) = Err IFC) by (apply mid_ifc; tauto). rewrite E in H. discriminate.
  - assert (E : mid_ s st (Some n) = Err IFC) by (apply mid_ifc; tauto). rewrite E in H. discriminate.
  - assert (E : mid_ s st (Some n) = Err IFC) by (apply mid_ifc; tauto). rewrite E in H. discriminate.
Qed.

(* MID$(s, st) without a count: everything from st on *)
Lemma mid_rest s st : (length s <= 255)%nat ->
  checked st 1 255 (skipn (Z.to_nat (st - 1)) s) (mid_ s st None).
Proof.
  intros L. apply checked_intro; try lia; unfold mid_.
  - intros H. rewrite to_int_err by exact H. reflexivity.
  - intros H R. rewrite to_int_ok by exact H. cbn [bind].
    change strfn_mid_start_lo with 1. change strfn_mid_start_hi with 255.
    rewrite range_err by exact R. reflexivity.
  - intros R. rewrite to_int_ok by (unfold in16; lia). cbn [bind].
    change strfn_mid_start_lo with 1. change strfn_mid_start_hi with 255.
    change strfn_mid_num_lo with 0. change strfn_mid_num_hi with 255.
    rewrite range_ok by exact R. cbn [bind]. rewrite range_ok by (unfold zlen; lia). cbn [bind].
    destruct ((zlen s =? 0) || (st >? zlen s)) eqn:E.
    + rewrite (skipn_all3 s) by (unfold zlen in E; lia). reflexivity.
    + rewrite py_slice_nonneg by (unfold zlen; lia).
      rewrite firstn_all2 by (rewrite skipn_length; unfold zlen; lia).
      apply from_str_ok. rewrite skipn_length. lia.
Qed.

(* ------------------------------------------------------------------ INSTR *)

Lemma prefixb_iff small big : prefixb small big = true <-> firstn (length small) big = small.
Proof.
  revert big. induction small as [|x small IH]; intros big.
  - simpl. split; reflexivity.
  - destruct big as [|y big]; simpl.
    + split; discriminate.
    + rewrite andb_true_iff, Z.eqb_eq, IH. split.
      * intros [H1 H2]. subst. rewrite H2. reflexivity.
      * intros H. injection H as H1 H2. split; [symmetry; exact H1|exact H2].
Qed.

Lemma prefixb_nil small : prefixb small [] = true -> small = [].
Proof. destruct small; [reflexivity|discriminate]. Qed.

Lemma find_from_spec big : forall i small,
  (find_from i big small = -1 /\
   forall j, (j <= length big)%nat -> prefixb small (skipn j big) = false) \/
  (exists j, (j <= length big)%nat /\ find_from i big small = i + Z.of_nat j /\
             prefixb small (skipn j big) = true /\
             forall j', (j' < j)%nat -> prefixb small (skipn j' big) = false).
Proof.
  induction big as [|x r IH]; intros i small.
  - cbn [find_from]. destruct (prefixb small []) eqn:E.
    + right. exists 0%nat. simpl. repeat split; [lia | lia | exact E | intros j' Hj'; lia].
    + left. split; [reflexivity|]. intros j Hj. simpl in Hj. destruct j; [exact E|lia].
  - cbn [find_from]. destruct (prefixb small (x :: r)) eqn:E.
    + right. exists 0%nat. simpl. repeat split; [lia | lia | exact E | intros j' Hj'; lia].
    + destruct (IH (i + 1) small) as [[H1 H2] | [j [Hj [H1 [H2 H3]]]]].
      * left. split; [exact H1|]. intros j Hj. destruct j as [|j]; [exact E|].
        simpl. apply H2. simpl in Hj. lia.
      * right. exists (S j). simpl. repeat split; [lia | lia | exact H2 |].
        intros j' Hj'. destruct j' as [|j']; [exact E|]. simpl. apply H3. lia.
Qed.

Lemma occurs_at_iff big small p : 1 <= p <= zlen big ->
  (occurs_at big small p <-> prefixb small (skipn (Z.to_nat (p - 1)) big) = true).
Proof. intros Hp. unfold occurs_at. rewrite prefixb_iff. tauto. Qed.

Lemma instr_from_spec st big small : 1 <= st <= 255 ->
  exists k, instr_ (Some st) big small = Ok k /\ first_occurrence st big small k.
Proof.
  intros Hst. unfold instr_. rewrite to_int_ok by (unfold in16; lia). cbn [bind].
  change strfn_instr_start_lo with 1. change strfn_instr_start_hi with 255.
  rewrite range_ok by exact Hst. cbn [bind].
  destruct ((zlen big =? 0) || (st >? zlen big)) eqn:E.
  - exists 0. split; [reflexivity|]. left. split; [reflexivity|].
    intros p Hp [Hr _]. lia.
  - assert (Hlen : st <= zlen big) by lia.
    rewrite py_slice_nonneg by (unfold zlen; lia).
    rewrite firstn_all2 by (rewrite skipn_length; unfold zlen; lia).
    unfold py_find.
    set (off := Z.to_nat (st - 1)).
    assert (Hoff : (off < length big)%nat) by (unfold off, zlen in *; lia).
    destruct (find_from_spec (skipn off big) 0 small) as [[H1 H2] | [j [Hj [H1 [H2 H3]]]]].
    + rewrite H1. cbn [Z.eqb]. exists 0. split; [reflexivity|]. left. split; [reflexivity|].
      intros p Hp [Hr Ho].
      specialize (H2 (Z.to_nat (p - st))). rewrite skipn_length in H2.
      rewrite skipn_skipn in H2.
      replace (Z.to_nat (p - st) + off)%nat with (Z.to_nat (p - 1)) in H2 by (unfold off; lia).
      apply prefixb_iff in Ho. rewrite Ho in H2. unfold zlen in Hr.
      assert (false = true) by (rewrite <- H2; [reflexivity|lia]). discriminate.
    + rewrite H1. rewrite skipn_length in Hj. rewrite skipn_skipn in H2.
      (* the occurrence found lies inside big *)
      assert (Hj' : (j < length big - off)%nat).
      { destruct (Nat.eq_dec j (length big - off)) as [Ej|Ej]; [|lia]. exfalso.
        rewrite (skipn_all3 big) in H2 by lia. apply prefixb_nil in H2. subst small.
        destruct j as [|j]; [lia|]. specialize (H3 0%nat). simpl in H3.
        assert (true = false) by (apply H3; lia). discriminate. }
      destruct (0 + Z.of_nat j =? -1) eqn:E1; [lia|].
      exists (st + (0 + Z.of_nat j)). split; [reflexivity|]. right. unfold zlen. split; [lia|]. split.
      * apply occurs_at_iff; [unfold zlen; lia|].
        replace (Z.to_nat (st + (0 + Z.of_nat j) - 1)) with (j + off)%nat by (unfold off; lia).
        exact H2.
      * intros p Hp [Hr Ho]. apply prefixb_iff in Ho.
        specialize (H3 (Z.to_nat (p - st))). rewrite skipn_skipn in H3.
        replace (Z.to_nat (p - st) + off)%nat with (Z.to_nat (p - 1)) in H3 by (unfold off; lia).
        rewrite Ho in H3. assert (true = false) by (apply H3; lia). discriminate.
Qed.

Lemma first_occurrence_unique st big small k1 k2 :
  first_occurrence st big small k1 -> first_occurrence st big small k2 -> k1 = k2.
Proof.
  unfold first_occurrence.
  intros [[E1 N1] | [L1 [O1 M1]]] [[E2 N2] | [L2 [O2 M2]]].
  - lia.
  - exfalso. exact (N1 k2 L2 O2).
  - exfalso. exact (N2 k1 L1 O1).
  - destruct (Z.lt_trichotomy k1 k2) as [H|[H|H]]; [|exact H|].
    + exfalso. apply (M2 k1); [lia|exact O1].
    + exfalso. apply (M1 k2); [lia|exact O2].
Qed.

Lemma instr_from_iff st big small k : 1 <= st <= 255 ->
  (instr_ (Some st) big small = Ok k <-> first_occurrence st big small k).
Proof.
  intros Hst. destruct (instr_from_spec st big small Hst) as [k0 [E F]]. rewrite E. split.
  - intros H. inversion H. subst. exact F.
  - intros H. f_equal. exact (first_occurrence_unique _ _ _ _ _ F H).
Qed.

Lemma instr_start_checked big small x :
  (instr_ (Some x) big small = Err IFC <-> in16 x /\ ~ 1 <= x <= 255) /\
  (instr_ (Some x) big small = Err OVERFLOW <-> ~ in16 x).
Proof.
  destruct (in16_dec x) as [I|I].
  - destruct (range_dec 1 255 x) as [R|R].
    + destruct (instr_from_spec x big small R) as [k [E _]]. rewrite E.
      split; split; try discriminate; tauto.
    + unfold instr_. rewrite to_int_ok by exact I. cbn [bind].
      change strfn_instr_start_lo with 1. change strfn_instr_start_hi with 255.
      rewrite range_err by exact R. cbn [bind]. unfold IFC, OVERFLOW.
      split; split; try discriminate; try reflexivity; tauto.
  - unfold instr_. rewrite to_int_err by exact I. cbn [bind]. unfold IFC, OVERFLOW.
    split; split; try discriminate; try reflexivity; tauto.
Qed.

Lemma instr_default big small : instr_ None big small = instr_ (Some 1) big small.
Proof. reflexivity. Qed.

(* ------------------------------------------------------------------ STRING$ *)

Lemma bytes_mul_one c n : bytes_mul [c] n = repeat c n.
Proof. induction n as [|n IH]; simpl; [reflexivity|rewrite IH; reflexivity]. Qed.

Lemma bytes_mul_nil n : bytes_mul [] n = [].
Proof. induction n as [|n IH]; simpl; [reflexivity|exact IH]. Qed.

Lemma string_str_spec x t : checked x 0 255 (first_char_times t (Z.to_nat x)) (string_ x (ArgStr t)).
Proof.
  apply checked_intro; try lia; unfold string_.
  - intros H. rewrite to_int_err by exact H. reflexivity.
  - intros H R. rewrite to_int_ok by exact H. cbn [bind].
    change strfn_string_num_lo with 0. change strfn_string_num_hi with 255.
    rewrite range_err by exact R. reflexivity.
  - intros R. rewrite to_int_ok by (unfold in16; lia). cbn [bind].
    change strfn_string_num_lo with 0. change strfn_string_num_hi with 255.
    rewrite range_ok by exact R. cbn [bind]. rewrite py_slice_prefix by lia.
    destruct t as [|c t]; simpl.
    + rewrite bytes_mul_nil. reflexivity.
    + rewrite bytes_mul_one. apply from_str_ok. rewrite repeat_length. lia.
Qed.

Lemma string_num_ok n c : 0 <= n <= 255 -> 0 <= c <= 255 ->
  string_ n (ArgNum c) = Ok (repeat c (Z.to_nat n)).
Proof.
  intros Hn Hc. unfold string_. rewrite !to_int_ok by (unfold in16; lia). cbn [bind].
  change strfn_string_num_lo with 0. change strfn_string_num_hi with 255.
  change strfn_string_asc_lo with 0. change strfn_string_asc_hi with 255.
  rewrite !range_ok by lia. cbn [bind]. rewrite bytes_mul_one.
  apply from_str_ok. rewrite repeat_length. lia.
Qed.

Lemma string_num_ifc n c : string_ n (ArgNum c) = Err IFC <->
  in16 n /\ (~ 0 <= n <= 255 \/ (in16 c /\ ~ 0 <= c <= 255)).
Proof.
  unfold string_.
  change strfn_string_num_lo with 0. change strfn_string_num_hi with 255.
  change strfn_string_asc_lo with 0. change strfn_string_asc_hi with 255.
  destruct (in16_dec n) as [I1|I1].
  2:{ rewrite to_int_err by exact I1. cbn [bind]. split; [discriminate|tauto]. }
  rewrite to_int_ok by exact I1. cbn [bind].
  destruct (range_dec 0 255 n) as [R1|R1].
  2:{ rewrite range_err by exact R1. cbn [bind]. tauto. }
  rewrite range_ok by exact R1. cbn [bind].
  destruct (in16_dec c) as [I2|I2].
  2:{ rewrite to_int_err by exact I2. cbn [bind]. split; [discriminate|tauto]. }
  rewrite to_int_ok by exact I2. cbn [bind].
  destruct (range_dec 0 255 c) as [R2|R2].
  2:{ rewrite range_err by exact R2. cbn [bind]. tauto. }
  rewrite range_ok by exact R2. cbn [bind]. rewrite bytes_mul_one.
  rewrite from_str_ok by (rewrite repeat_length; lia). split; [discriminate|tauto].
Qed.

Lemma string_num_ovf n c : string_ n (ArgNum c) = Err OVERFLOW <->
  ~ in16 n \/ (0 <= n <= 255 /\ ~ in16 c).
Proof.
  unfold string_.
  change strfn_string_num_lo with 0. change strfn_string_num_hi with 255.
  change strfn_string_asc_lo with 0. change strfn_string_asc_hi with 255.
  destruct (in16_dec n) as [I1|I1].
  2:{ rewrite to_int_err by exact I1. cbn [bind]. tauto. }
  rewrite to_int_ok by exact I1. cbn [bind].
  destruct (range_dec 0 255 n) as [R1|R1].
  2:{ rewrite range_err by exact R1. cbn [bind]. split; [discriminate|tauto]. }
  rewrite range_ok by exact R1. cbn [bind].
  destruct (in16_dec c) as [I2|I2].
  2:{ rewrite to_int_err by exact I2. cbn [bind]. tauto. }
  rewrite to_int_ok by exact I2. cbn [bind].
  destruct (range_dec 0 255 c) as [R2|R2].
  2:{ rewrite range_err by exact R2. cbn [bind]. split; [discriminate|tauto]. }
  rewrite range_ok by exact R2. cbn [bind]. rewrite bytes_mul_one.
  rewrite from_str_ok by (rewrite repeat_length; lia). split; [discriminate|tauto].
Qed.

(* ------------------------------------------------------------------ concatenation *)

Lemma concat_spec a b :
  ((length a + length b <= 255)%nat -> concat a b = Ok (a ++ b)) /\
  ((255 < length a + length b)%nat -> concat a b = Err STRING_TOO_LONG).
Proof.
  unfold concat. split; intros H.
  - apply from_str_ok. rewrite app_length. exact H.
  - apply from_str_err. rewrite app_length. exact H.
Qed.

Lemma concat_err_iff a b :
  concat a b = Err STRING_TOO_LONG <-> (255 < length a + length b)%nat.
Proof.
  split.
  - intros H. destruct (le_lt_dec (length a + length b) 255) as [L|L]; [|exact L].
    rewrite (proj1 (concat_spec a b) L) in H. discriminate.
  - apply concat_spec.
Qed.

(* ------------------------------------------------------------------ comparison *)

Lemma str_gt_lex a : forall b, str_gt a b = true <-> lex_lt b a.
Proof.
  induction a as [|x a IH]; intros [|y b]; simpl.
  - split; [discriminate|tauto].
  - split; [discriminate|tauto].
  - split; [tauto|reflexivity].
  - destruct (x >? y) eqn:E1.
    + split; [intros _; left; lia | reflexivity].
    + destruct (x <? y) eqn:E2.
      * split; [discriminate|]. intros [H|[H _]]; lia.
      * rewrite IH. split.
        -- intros H. right. split; [lia|exact H].
        -- intros [H|[_ H]]; [lia|exact H].
Qed.

Lemma lex_lt_irrefl a : ~ lex_lt a a.
Proof. induction a as [|x a IH]; simpl; [tauto|]. intros [H|[_ H]]; [lia|exact (IH H)]. Qed.

Lemma lex_lt_trans a : forall b c, lex_lt a b -> lex_lt b c -> lex_lt a c.
Proof.
  induction a as [|x a IH]; intros [|y b] [|z c]; simpl; try tauto.
  intros [H1|[H1 H1']] [H2|[H2 H2']].
  - left. lia.
  - left. lia.
  - left. lia.
  - right. split; [lia|]. exact (IH b c H1' H2').
Qed.

Lemma lex_trichotomy a : forall b, lex_lt a b \/ a = b \/ lex_lt b a.
Proof.
  induction a as [|x a IH]; intros [|y b]; simpl; try tauto.
  destruct (Z.lt_trichotomy x y) as [H|[H|H]]; [tauto| |tauto].
  destruct (IH b) as [H1|[H1|H1]].
  - left. right. tauto.
  - right. left. subst. reflexivity.
  - right. right. right. split; [lia|exact H1].
Qed.

Lemma lex_lt_asym a b : lex_lt a b -> ~ lex_lt b a.
Proof. intros H1 H2. exact (lex_lt_irrefl a (lex_lt_trans a b a H1 H2)). Qed.

Lemma lex_lt_prefix a c : c <> [] -> lex_lt a (a ++ c).
Proof.
  intros Hc. induction a as [|x a IH]; simpl.
  - destruct c; [congruence|exact I].
  - right. split; [reflexivity|exact IH].
Qed.

Lemma lex_lt_first_diff p x y a b : x < y -> lex_lt (p ++ x :: a) (p ++ y :: b).
Proof.
  intros H. induction p as [|z p IH]; simpl; [left; exact H|right; split; [reflexivity|exact IH]].
Qed.

Lemma str_eq_iff a b : str_eq a b = true <-> a = b.
Proof. apply list_Z_eqb_eq. Qed.

Lemma from_bool_true b : from_bool b = -1 <-> b = true.
Proof. destruct b; simpl; split; intros H; try reflexivity; try discriminate. Qed.

Lemma from_bool_values b : from_bool b = -1 \/ from_bool b = 0.
Proof. destruct b; simpl; tauto. Qed.

Lemma negb_gt_iff a b : negb (str_gt a b) = true <-> lex_lt a b \/ a = b.
Proof.
  rewrite negb_true_iff. split.
  - intros H. destruct (lex_trichotomy a b) as [H1|[H1|H1]]; [tauto|tauto|].
    apply str_gt_lex in H1. congruence.
  - intros H. destruct (str_gt a b) eqn:E; [|reflexivity]. apply str_gt_lex in E.
    destruct H as [H|H].
    + exfalso. exact (lex_lt_asym _ _ H E).
    + subst. exfalso. exact (lex_lt_irrefl _ E).
Qed.

Lemma operators_spec a b :
  (op_eq a b = -1 <-> a = b) /\ (op_neq a b = -1 <-> a <> b) /\
  (op_gt a b = -1 <-> lex_lt b a) /\ (op_lt a b = -1 <-> lex_lt a b) /\
  (op_gte a b = -1 <-> lex_lt b a \/ b = a) /\ (op_lte a b = -1 <-> lex_lt a b \/ a = b).
Proof.
  unfold op_eq, op_neq, op_gt, op_lt, op_gte, op_lte. rewrite !from_bool_true.
  repeat split.
  - apply str_eq_iff.
  - apply str_eq_iff.
  - rewrite negb_true_iff. intros H E. apply str_eq_iff in E. congruence.
  - intros H. rewrite negb_true_iff. destruct (str_eq a b) eqn:E; [|reflexivity].
    apply str_eq_iff in E. contradiction.
  - apply str_gt_lex.
  - apply str_gt_lex.
  - apply str_gt_lex.
  - apply str_gt_lex.
  - apply negb_gt_iff.
  - apply negb_gt_iff.
  - apply negb_gt_iff.
  - apply negb_gt_iff.
Qed.

(* ------------------------------------------------------------------ LSET / RSET *)

Lemma slice_assign_all t x : length x = length t -> slice_assign t 0 (zlen t) x = Ok x.
Proof.
  intros H. unfold slice_assign, norm_idx, zlen.
  destruct (0 <? 0) eqn:E0; [lia|].
  destruct (Z.of_nat (length t) <? 0) eqn:E1; [lia|].
  replace (Z.min 0 (Z.of_nat (length t))) with 0 by lia.
  replace (Z.max 0 (Z.min (Z.of_nat (length t)) (Z.of_nat (length t)))) with (Z.of_nat (length t)) by lia.
  destruct (Z.of_nat (length t) - 0 =? Z.of_nat (length x)) eqn:E; [|lia].
  rewrite Nat2Z.id. simpl. rewrite skipn_all, app_nil_r. reflexivity.
Qed.

Lemma lset_spec t s : lset_stmt t s = Ok (ref_lset (length t) s).
Proof.
  unfold lset_stmt, lset, ref_lset, ljust. rewrite py_slice_prefix by apply zlen_nonneg.
  assert (Hz : Z.to_nat (zlen t) = length t) by (unfold zlen; lia). rewrite Hz.
  replace (Z.to_nat (zlen t - zlen (firstn (length t) s)))
    with (length t - length (firstn (length t) s))%nat by (unfold zlen; lia).
  apply slice_assign_all. rewrite app_length, repeat_length.
  pose proof (firstn_le_length s (length t)). lia.
Qed.

Lemma rset_spec t s : rset_stmt t s = Ok (ref_rset (length t) s).
Proof.
  unfold rset_stmt, lset, ref_rset, rjust. rewrite py_slice_prefix by apply zlen_nonneg.
  assert (Hz : Z.to_nat (zlen t) = length t) by (unfold zlen; lia). rewrite Hz.
  replace (Z.to_nat (zlen t - zlen (firstn (length t) s)))
    with (length t - length (firstn (length t) s))%nat by (unfold zlen; lia).
  apply slice_assign_all. rewrite app_length, repeat_length.
  pose proof (firstn_le_length s (length t)). lia.
Qed.

Lemma ref_lset_length n s : length (ref_lset n s) = n.
Proof.
  unfold ref_lset. rewrite app_length, repeat_length. pose proof (firstn_le_length s n). lia.
Qed.

Lemma ref_rset_length n s : length (ref_rset n s) = n.
Proof.
  unfold ref_rset. rewrite app_length, repeat_length. pose proof (firstn_le_length s n). lia.
Qed.

(* ------------------------------------------------------------------ MID$ statement *)

Lemma midstmt_valid_dec t st n : midstmt_valid t st n \/ ~ midstmt_valid t st n.
Proof. unfold midstmt_valid. lia. Qed.

Lemma mid_stmt_checks t st n v same : in16 st -> in16 n -> midstmt_valid t st n ->
  mid_stmt t st (Some n) v same = midset t st n v same.
Proof.
  intros I1 I2 [V1 V2]. unfold mid_stmt. rewrite !to_int_ok by assumption. cbn [bind].
  change strfn_midstmt_num_lo with 0. change strfn_midstmt_num_hi with 255.
  change strfn_midstmt_start_lo with 1.
  rewrite range_ok by exact V1. cbn [bind].
  destruct (n >? 0) eqn:E.
  - rewrite range_ok by (apply V2; lia). reflexivity.
  - reflexivity.
Qed.

(* memoryview slice assignment inside the buffer *)
Lemma slice_assign_range t (a b : nat) src : (a <= b <= length t)%nat -> length src = (b - a)%nat ->
  slice_assign t (Z.of_nat a) (Z.of_nat b) src = Ok (firstn a t ++ src ++ skipn b t).
Proof.
  intros Hab Hs. unfold slice_assign, norm_idx, zlen.
  destruct (Z.of_nat a <? 0) eqn:E0; [lia|]. destruct (Z.of_nat b <? 0) eqn:E1; [lia|].
  replace (Z.min (Z.of_nat a) (Z.of_nat (length t))) with (Z.of_nat a) by lia.
  replace (Z.max (Z.of_nat a) (Z.min (Z.of_nat b) (Z.of_nat (length t)))) with (Z.of_nat b) by lia.
  destruct (Z.of_nat b - Z.of_nat a =? Z.of_nat (length src)) eqn:E; [|lia].
  rewrite !Nat2Z.id. reflexivity.
Qed.

Lemma clip_spec t st n v : 0 < n -> 1 <= st <= zlen t ->
  strfn_midset_clip st n (zlen v) (zlen t) = (st - 1, Z.of_nat (midset_count t st n v)).
Proof.
  intros Hn Hst. unfold strfn_midset_clip, midset_count, zlen in *.
  destruct (Z.gtb (Z.add (Z.sub st 1) (Z.min n (Z.of_nat (length v)))) (Z.of_nat (length t))) eqn:E;
    f_equal; lia.
Qed.

Lemma ref_midset_zero t st v : ref_midset t st 0 v = t.
Proof.
  unfold ref_midset, midset_count. simpl. rewrite Nat.add_0_r. apply firstn_skipn.
Qed.

Lemma midset_zero t st v same : midset t st 0 v same = Ok t.
Proof.
  unfold midset, strfn_midset_clip.
  destruct (Z.gtb (Z.add (Z.sub st 1) (Z.min 0 (zlen v))) (zlen t)) eqn:E.
  - destruct (zlen t - (st - 1) <=? 0) eqn:E1; [reflexivity|]. pose proof (zlen_nonneg v). lia.
  - destruct (Z.min 0 (zlen v) <=? 0) eqn:E1; [reflexivity|lia].
Qed.

(* source and target are different buffers *)
Lemma midset_copy t st n v : midstmt_valid t st n ->
  midset t st n v false = Ok (ref_midset t st n v).
Proof.
  intros [V1 V2]. destruct (Z.eq_dec n 0) as [->|Hn].
  - rewrite midset_zero, ref_midset_zero. reflexivity.
  - assert (Hst : 1 <= st <= zlen t) by (apply V2; lia).
    unfold midset. rewrite clip_spec by lia. unfold ref_midset.
    set (c := midset_count t st n v).
    assert (Hc : (c <= length v)%nat /\ (Z.to_nat (st - 1) + c <= length t)%nat)
      by (unfold c, midset_count, zlen in *; lia).
    destruct (Z.of_nat c <=? 0) eqn:E.
    + replace c with 0%nat by lia. simpl. rewrite Nat.add_0_r. rewrite firstn_skipn. reflexivity.
    + cbn [negb]. rewrite py_slice_prefix by lia. rewrite Nat2Z.id.
      replace (st - 1) with (Z.of_nat (Z.to_nat (st - 1))) at 1 2 by lia.
      rewrite <- Nat2Z.inj_add. apply slice_assign_range; [lia|].
      rewrite firstn_length. lia.
Qed.

Lemma count_fits t st n v : midstmt_valid t st n ->
  midset_count t st n v = 0%nat \/
  ((midset_count t st n v <= length v)%nat /\ (Z.to_nat (st - 1) + midset_count t st n v <= length t)%nat).
Proof.
  intros [V1 V2]. destruct (Z.eq_dec n 0) as [->|Hn].
  - left. reflexivity.
  - right. assert (1 <= st <= zlen t) by (apply V2; lia). unfold midset_count, zlen in *. lia.
Qed.

Lemma ref_midset_length t st n v : midstmt_valid t st n ->
  length (ref_midset t st n v) = length t.
Proof.
  intros V. unfold ref_midset. destruct (count_fits t st n v V) as [E|[H1 H2]].
  - rewrite E. simpl. rewrite Nat.add_0_r, firstn_skipn. reflexivity.
  - rewrite !app_length, !firstn_length, skipn_length. lia.
Qed.

(* source and target are the same buffer: one byte at a time, left to right *)
Definition upd (j : nat) (x : Z) (l : list Z) : list Z := firstn j l ++ x :: skipn (S j) l.

Fixpoint seq_ref (n i off : nat) (buf : list Z) : list Z :=
  match n with
  | O => buf
  | S n' => seq_ref n' (S i) off (upd (i + off) (nth i buf 0) buf)
  end.

Lemma upd_length j x l : (j < length l)%nat -> length (upd j x l) = length l.
Proof.
  intros H. unfold upd. rewrite app_length. cbn [length]. rewrite firstn_length, skipn_length. lia.
Qed.

Lemma nth_upd j x l p : (j < length l)%nat ->
  nth p (upd j x l) 0 = if (p =? j)%nat then x else nth p l 0.
Proof.
  intros H. unfold upd.
  assert (Lf : length (firstn j l) = j) by (rewrite firstn_length; lia).
  destruct (p =? j)%nat eqn:E.
  - apply Nat.eqb_eq in E. subst p. rewrite app_nth2 by lia. rewrite Lf, Nat.sub_diag. reflexivity.
  - apply Nat.eqb_neq in E. destruct (lt_dec p j) as [L|L].
    + rewrite app_nth1 by lia. apply nth_firstn_lt. exact L.
    + rewrite app_nth2 by lia. rewrite Lf.
      destruct (p - j)%nat as [|q] eqn:Q; [lia|]. cbn [nth].
      rewrite nth_skipn_add. f_equal. lia.
Qed.

Lemma py_slice_one buf (i : nat) : (i < length buf)%nat ->
  py_slice buf (Z.of_nat i) (Z.of_nat i + 1) = [nth i buf 0].
Proof.
  intros H. rewrite py_slice_nonneg by lia.
  replace (Z.to_nat (Z.of_nat i + 1) - Z.to_nat (Z.of_nat i))%nat with 1%nat by lia.
  rewrite Nat2Z.id. rewrite <- (firstn_skipn i buf) at 2.
  rewrite app_nth2 by (rewrite firstn_length; lia).
  rewrite firstn_length. replace (i - Nat.min i (length buf))%nat with 0%nat by lia.
  destruct (skipn i buf) as [|y r] eqn:S.
  - exfalso. assert (L : length (skipn i buf) = 0%nat) by (rewrite S; reflexivity).
    rewrite skipn_length in L. lia.
  - reflexivity.
Qed.

Lemma seq_copy_ref n : forall i off buf, (i + off + n <= length buf)%nat ->
  seq_copy n (Z.of_nat i) (Z.of_nat off) buf = Ok (seq_ref n i off buf).
Proof.
  induction n as [|n IH]; intros i off buf H; [reflexivity|].
  cbn [seq_copy seq_ref].
  rewrite py_slice_one by lia.
  rewrite <- Nat2Z.inj_add.
  replace (Z.of_nat (i + off) + 1) with (Z.of_nat (S (i + off))) by lia.
  rewrite slice_assign_range by (cbn [length]; lia). cbn [bind].
  replace (Z.of_nat i + 1) with (Z.of_nat (S i)) by lia.
  change ([nth i buf 0] ++ skipn (S (i + off)) buf) with (nth i buf 0 :: skipn (S (i + off)) buf).
  fold (upd (i + off) (nth i buf 0) buf).
  apply IH. rewrite upd_length by lia. lia.
Qed.

(* closed form of the sequential copy: invariant after i bytes *)
Definition seq_state (t : list Z) (off i : nat) (buf : list Z) : Prop :=
  length buf = length t /\
  forall p, nth p buf 0 =
    if (0 <? off)%nat && (off <=? p)%nat && (p <? off + i)%nat then nth (p mod off) t 0 else nth p t 0.

Lemma seq_ref_state t off n : forall i buf, (i + off + n <= length t)%nat ->
  seq_state t off i buf -> seq_state t off (i + n) (seq_ref n i off buf).
Proof.
  induction n as [|n IH]; intros i buf H [L P].
  - rewrite Nat.add_0_r. split; assumption.
  - cbn [seq_ref]. replace (i + S n)%nat with (S i + n)%nat by lia. apply IH; [lia|].
    split; [rewrite upd_length by lia; exact L|].
    intros p. rewrite nth_upd by lia. rewrite (P p), (P i).
    destruct (p =? i + off)%nat eqn:E.
    + apply Nat.eqb_eq in E. subst p.
      destruct (0 <? off)%nat eqn:O.
      * apply Nat.ltb_lt in O.
        replace ((off <=? i + off)%nat) with true by (symmetry; apply Nat.leb_le; lia).
        replace ((i + off <? off + S i)%nat) with true by (symmetry; apply Nat.ltb_lt; lia).
        cbn [andb].
        replace ((i + off) mod off)%nat with (i mod off)%nat
          by (rewrite <- (Nat.mod_add i 1 off) by lia; f_equal; lia).
        replace ((i <? off + i)%nat) with true by (symmetry; apply Nat.ltb_lt; lia).
        rewrite andb_true_r.
        destruct (off <=? i)%nat eqn:E2; [reflexivity|].
        apply Nat.leb_gt in E2. rewrite Nat.mod_small by exact E2. reflexivity.
      * cbn [andb]. apply Nat.ltb_ge in O. f_equal. lia.
    + apply Nat.eqb_neq in E.
      replace ((p <? off + S i)%nat) with ((p <? off + i)%nat); [reflexivity|].
      destruct (p <? off + i)%nat eqn:E1; symmetry.
      * apply Nat.ltb_lt in E1. apply Nat.ltb_lt. lia.
      * apply Nat.ltb_ge in E1. apply Nat.ltb_ge. lia.
Qed.

Lemma seq_state_init t off : seq_state t off 0 t.
Proof.
  split; [reflexivity|]. intros p.
  replace ((p <? off + 0)%nat) with ((p <? off)%nat) by (f_equal; lia).
  destruct (0 <? off)%nat; cbn [andb]; [|reflexivity].
  destruct (off <=? p)%nat eqn:E1; cbn [andb]; [|reflexivity].
  destruct (p <? off)%nat eqn:E2; [|reflexivity].
  apply Nat.leb_le in E1. apply Nat.ltb_lt in E2. lia.
Qed.

Lemma seq_ref_state0 t off c : c = 0%nat \/ (off + c <= length t)%nat ->
  seq_state t off c (seq_ref c 0 off t).
Proof.
  intros [->|H].
  - apply seq_state_init.
  - apply (seq_ref_state t off c 0%nat t); [lia|apply seq_state_init].
Qed.

Lemma midset_same_gen t st n v : midstmt_valid t st n ->
  midset t st n v true = Ok (seq_ref (midset_count t st n v) 0 (Z.to_nat (st - 1)) t).
Proof.
  intros [V1 V2]. destruct (Z.eq_dec n 0) as [->|Hn].
  - rewrite midset_zero. unfold midset_count. reflexivity.
  - assert (Hst : 1 <= st <= zlen t) by (apply V2; lia).
    unfold midset. rewrite clip_spec by lia.
    set (c := midset_count t st n v).
    assert (Hc : (Z.to_nat (st - 1) + c <= length t)%nat) by (unfold c, midset_count, zlen in *; lia).
    destruct (Z.of_nat c <=? 0) eqn:E.
    + replace c with 0%nat by lia. reflexivity.
    + rewrite Nat2Z.id.
      replace (st - 1) with (Z.of_nat (Z.to_nat (st - 1))) at 1 by lia.
      change 0 with (Z.of_nat 0). apply seq_copy_ref. lia.
Qed.

Lemma midset_same t st n : midstmt_valid t st n ->
  exists r, midset t st n t true = Ok r /\ length r = length t /\
            forall p, nth p r 0 = ref_midset_same_byte t st n p.
Proof.
  intros V. rewrite (midset_same_gen t st n t V).
  assert (Hc : midset_count t st n t = 0%nat \/ (Z.to_nat (st - 1) + midset_count t st n t <= length t)%nat)
    by (destruct (count_fits t st n t V); tauto).
  destruct (seq_ref_state0 t _ _ Hc) as [L P].
  eexists. split; [reflexivity|]. split; [exact L|].
  intros p. rewrite P. reflexivity.
Qed.

Lemma midset_total t st n v same : midstmt_valid t st n ->
  exists r, midset t st n v same = Ok r /\ length r = length t.
Proof.
  intros V. destruct same.
  - rewrite (midset_same_gen t st n v V). eexists. split; [reflexivity|].
    assert (Hc : midset_count t st n v = 0%nat \/ (Z.to_nat (st - 1) + midset_count t st n v <= length t)%nat)
      by (destruct (count_fits t st n v V); tauto).
    exact (proj1 (seq_ref_state0 t _ _ Hc)).
  - rewrite (midset_copy t st n v V). eexists. split; [reflexivity|].
    apply ref_midset_length. exact V.
Qed.

Lemma mid_stmt_ifc t st n v same :
  mid_stmt t st (Some n) v same = Err IFC <-> in16 st /\ in16 n /\ ~ midstmt_valid t st n.
Proof.
  destruct (in16_dec st) as [I1|I1].
  2:{ unfold mid_stmt. rewrite to_int_err by exact I1. cbn [bind]. split; [discriminate|tauto]. }
  destruct (in16_dec n) as [I2|I2].
  2:{ unfold mid_stmt. rewrite to_int_ok by exact I1. cbn [bind]. rewrite to_int_err by exact I2.
      cbn [bind]. split; [discriminate|tauto]. }
  destruct (midstmt_valid_dec t st n) as [V|V].
  - rewrite mid_stmt_checks by assumption.
    destruct (midset_total t st n v same V) as [r [E _]]. rewrite E. split; [discriminate|tauto].
  - split; [tauto|intros _]. unfold mid_stmt. rewrite !to_int_ok by assumption. cbn [bind].
    change strfn_midstmt_num_lo with 0. change strfn_midstmt_num_hi with 255.
    change strfn_midstmt_start_lo with 1.
    destruct (range_dec 0 255 n) as [R1|R1].
    2:{ rewrite range_err by exact R1. reflexivity. }
    rewrite range_ok by exact R1. cbn [bind].
    destruct (n >? 0) eqn:E.
    + rewrite range_err by (unfold midstmt_valid in V; lia). reflexivity.
    + exfalso. apply V. unfold midstmt_valid. lia.
Qed.

Lemma mid_stmt_ovf t st n v same :
  mid_stmt t st (Some n) v same = Err OVERFLOW <-> ~ in16 st \/ ~ in16 n.
Proof.
  destruct (in16_dec st) as [I1|I1].
  2:{ unfold mid_stmt. rewrite to_int_err by exact I1. cbn [bind]. tauto. }
  destruct (in16_dec n) as [I2|I2].
  2:{ unfold mid_stmt. rewrite to_int_ok by exact I1. cbn [bind]. rewrite to_int_err by exact I2.
      cbn [bind]. tauto. }
  split; [|tauto]. intros H. exfalso.
  destruct (midstmt_valid_dec t st n) as [V|V].
  - rewrite mid_stmt_checks in H by assumption.
    destruct (midset_total t st n v same V) as [r [E _]]. rewrite E in H. discriminate.
  - assert (E : mid_stmt t st (Some n) v same = Err IFC) by (apply mid_stmt_ifc; tauto).
    rewrite E in H. discriminate.
Qed.

Lemma mid_stmt_default t st v same : mid_stmt t st None v same = mid_stmt t st (Some 255) v same.
Proof. reflexivity. Qed.

(* composition: a string function result used as the source is a value, not the target's buffer *)
Lemma mid_stmt_src_value t st n v : mid_stmt_src t st n (Ok v) = mid_stmt t st n v false.
Proof. reflexivity. Qed.

Lemma mid_stmt_src_err t st n e : in16 st -> in16 n -> midstmt_valid t st n ->
  mid_stmt_src t st (Some n) (Err e) = Err e.
Proof.
  intros I1 I2 [V1 V2]. unfold mid_stmt_src. rewrite !to_int_ok by assumption. cbn [bind].
  change strfn_midstmt_num_lo with 0. change strfn_midstmt_num_hi with 255.
  change strfn_midstmt_start_lo with 1.
  rewrite range_ok by exact V1. cbn [bind].
  destruct (n >? 0) eqn:E.
  - rewrite range_ok by (apply V2; lia). reflexivity.
  - reflexivity.
Qed.

Lemma lset_src_value t v r : lset_src t (Ok v) r = lset t v r.
Proof. reflexivity. Qed.

Lemma mid_stmt_src_left t st n : in16 st -> in16 n -> midstmt_valid t st n -> (length t <= 255)%nat ->
  mid_stmt_src t st (Some n) (left_ t 255) = Ok (ref_midset t st n t).
Proof.
  intros I1 I2 V L.
  assert (E : left_ t 255 = Ok t).
  { rewrite (proj1 (left_spec t 255)) by lia. unfold ref_left. f_equal. apply firstn_all2. lia. }
  rewrite E, mid_stmt_src_value. rewrite (mid_stmt_checks t st n t false I1 I2 V).
  exact (midset_copy t st n t V).
Qed.

(* ------------------------------------------------------------------ storing when memory is short *)

Lemma store_mem_spec f0 f1 l :
  ((255 < length l)%nat -> store_mem f0 f1 l = Err STRING_TOO_LONG) /\
  ((length l <= 255)%nat -> f0 <= zlen l -> f1 <= zlen l -> store_mem f0 f1 l = Err OUT_OF_STRING_SPACE) /\
  ((length l <= 255)%nat -> zlen l < f0 \/ zlen l < f1 -> store_mem f0 f1 l = Ok l).
Proof.
  unfold store_mem, strfn_store_check, strfn_check_free, zlen.
  repeat split; intros.
  - destruct (Z.gtb (Z.of_nat (length l)) 255) eqn:E; [reflexivity|lia].
  - destruct (Z.gtb (Z.of_nat (length l)) 255) eqn:E; [lia|]. cbn [bind].
    destruct (Z.leb f0 (Z.of_nat (length l))) eqn:E0; [|lia].
    destruct (Z.leb f1 (Z.of_nat (length l))) eqn:E1; [reflexivity|lia].
  - destruct (Z.gtb (Z.of_nat (length l)) 255) eqn:E; [lia|]. cbn [bind].
    destruct (Z.leb f0 (Z.of_nat (length l))) eqn:E0; [|reflexivity].
    destruct (Z.leb f1 (Z.of_nat (length l))) eqn:E1; [lia|reflexivity].
Qed.

Lemma store_mem_too_long_iff f0 f1 l :
  store_mem f0 f1 l = Err STRING_TOO_LONG <-> (255 < length l)%nat.
Proof.
  destruct (store_mem_spec f0 f1 l) as [H1 [H2 H3]]. split; [|exact H1].
  intros H. destruct (le_lt_dec (length l) 255) as [L|L]; [|exact L]. exfalso.
  assert (C : (f0 <= zlen l /\ f1 <= zlen l) \/ (zlen l < f0 \/ zlen l < f1)) by lia.
  destruct C as [[C0 C1]|C].
  - rewrite (H2 L C0 C1) in H. discriminate.
  - rewrite (H3 L C) in H. discriminate.
Qed.

Lemma store_mem_oss_iff f0 f1 l :
  store_mem f0 f1 l = Err OUT_OF_STRING_SPACE <-> (length l <= 255)%nat /\ f0 <= zlen l /\ f1 <= zlen l.
Proof.
  destruct (store_mem_spec f0 f1 l) as [H1 [H2 H3]]. split.
  - intros H. destruct (le_lt_dec (length l) 255) as [L|L].
    + assert (C : (f0 <= zlen l /\ f1 <= zlen l) \/ (zlen l < f0 \/ zlen l < f1)) by lia.
      destruct C as [C|C]; [tauto|]. rewrite (H3 L C) in H. discriminate.
    + rewrite (H1 L) in H. discriminate.
  - intros [L [C0 C1]]. exact (H2 L C0 C1).
Qed.

Lemma store_mem_plenty f0 f1 l : 255 < f0 -> store_mem f0 f1 l = from_str l.
Proof.
  intros H. destruct (store_mem_spec f0 f1 l) as [H1 [H2 H3]].
  destruct (le_lt_dec (length l) 255) as [L|L].
  - rewrite from_str_ok by exact L. apply H3; [exact L|]. unfold zlen. lia.
  - rewrite from_str_err by exact L. apply H1. exact L.
Qed.
