(* C16: proofs about model/Guard.v over the regenerated guard table gen/Gen_guard.v *)
From Coq Require Import ZArith List Bool String Lia.
From PCB Require Import lib.Result lib.PyInt gen.Gen_guard model.Guard.
Import ListNotations.
Open Scope Z_scope.

(* ------------------------------------------------------------------ tactics *)
Ltac split_ifs :=
  repeat match goal with
  | |- context [if ?b then _ else _] => let E := fresh "E" in destruct b eqn:E
  | |- context [match ?b with [] => _ | _ :: _ => _ end] => let E := fresh "E" in destruct b eqn:E
  end.

Ltac destr_state s :=
  let p := fresh "p" in let a := fresh "a" in let r := fresh "r" in
  let pr := fresh "pr" in let se := fresh "se" in let t := fresh "t" in
  destruct s as [p a r pr se t]; destruct p, a, r, se, t.

Ltac table := cbv [g_list_lines g_edit g_save g_store_line g_merge g_delete g_renum g_get_memory
  g_get_memory_block g_set_memory g_peek g_poke g_bload g_bsave g_chain g_cb_list g_cb_edit g_cb_save
  g_cb_merge g_cb_delete g_cb_show_prompt g_cb_store_line g_cb_auto_step g_cb_llist g_cb_renum g_read
  w_erase w_load_P w_poke poke_needs_allow new_erases load_erases_first field_bounded fires wvalue].

Ltac open_step := unfold estep, step, refuse, done, erase, load_file, write_flag, taint, st, rs_, ob,
  set_run, set_prog, set_tainted, set_protected; cbn [protected allow_protect run_mode prog secret tainted fst snd];
  table; cbn [protected allow_protect run_mode prog secret tainted fst snd negb andb orb].

(* ------------------------------------------------------------------ the invariant *)
(* while a program that was loaded from a protected file is in memory (and protection is enforced) the flag
   is set and the program contains nothing typed, merged, poked or BLOADed from direct mode *)
Definition inv (s : state) : Prop :=
  allow_protect s = true -> secret s = true -> protected s = true /\ tainted s = false.

(* the only way the flag of such a program goes away: the running program clears it itself *)
Definition self_unprotect (e : event) : bool :=
  match e with
  | Prog (OPokeFlag v) => v =? 0
  | Prog (OBloadFlag v) => v =? 0
  | _ => false
  end.

Definition replaces_program (e : event) : bool :=
  match e with
  | Direct (OLoad (FPlain _)) | Direct (OLoad (FProt _)) | Direct (ORunFile (FPlain _))
  | Direct (ORunFile (FProt _)) | Direct (OChain (FPlain _)) | Direct (OChain (FProt _)) | Direct ONew
  | Prog (OLoad (FPlain _)) | Prog (OLoad (FProt _)) | Prog (ORunFile (FPlain _))
  | Prog (ORunFile (FProt _)) | Prog (OChain (FPlain _)) | Prog (OChain (FProt _)) | Prog ONew => true
  | _ => false
  end.

Ltac close_inv Hi :=
  intros; first [ discriminate | split; congruence | apply Hi; congruence
                | exfalso; destruct (Hi eq_refl eq_refl) as [X Y]; congruence | auto ].

Lemma inv_step_direct s o : inv s -> inv (st (estep s (Direct o))).
Proof.
  unfold inv. intros Hi.
  destruct s as [p a r pr se t]; unfold estep, set_run; cbn [protected allow_protect run_mode prog secret tainted] in *.
  destruct o as [ | |r'| |m| | | | | |v| | | |v| | | |r'|em|hl|hl|f|f|f| |rs| | | | | |la fw];
    try destruct m; try destruct f; try destruct em; try destruct hl; try destruct fw; try destruct la;
    destruct p, a, se, t; open_step; split_ifs;
    cbn [protected allow_protect run_mode prog secret tainted fst snd negb andb orb] in *;
    close_inv Hi.
Qed.

Lemma inv_step_prog s o : inv s -> self_unprotect (Prog o) = false -> inv (st (estep s (Prog o))).
Proof.
  unfold inv. intros Hi Hn.
  destruct o as [ | |r| |m| | | | | |v| | | |v| | | |r|em|hl|hl|f|f|f| |rs| | | | | |la fw];
    try destruct m; try destruct f; try destruct em; try destruct hl; try destruct fw; try destruct la;
    destr_state s; open_step; cbn in Hi, Hn |- *; split_ifs;
    cbn [protected allow_protect run_mode prog secret tainted fst snd negb andb orb] in *;
    intros; try (split; congruence); try (apply Hi; congruence); try discriminate; auto;
    try (exfalso; destruct (Hi eq_refl eq_refl) as [X Y]; congruence);
    try (rewrite Hn in *; cbn in *; split; congruence).
Qed.

Lemma inv_estep s e : inv s -> self_unprotect e = false -> inv (st (estep s e)).
Proof.
  destruct e as [o|o]; intros Hi Hn; [apply inv_step_direct | apply inv_step_prog]; assumption.
Qed.

Theorem flag_invariant : forall es s, inv s ->
  forallb (fun e => negb (self_unprotect e)) es = true -> inv (run_events s es).
Proof.
  induction es as [|e es IH]; intros s Hi Hall; cbn in *; [assumption|].
  apply andb_true_iff in Hall as [H1 H2]. apply negb_true_iff in H1.
  apply IH; [apply inv_estep; assumption | assumption].
Qed.

(* loading a protected file establishes the invariant from any state *)
Lemma inv_after_load_P s c : inv (st (estep s (Direct (OLoad (FProt c))))).
Proof. unfold inv. destr_state s; open_step; cbn; intros; split; congruence. Qed.

Lemma inv_init a : inv (init a).
Proof. unfold inv, init; cbn; intros; discriminate. Qed.

(* the flag of ANY program is only ever cleared by an event that replaces the program, or by the running
   program itself *)
Lemma flag_cleared_only s e :
  protected s = true -> protected (st (estep s e)) = false ->
  replaces_program e = true \/ self_unprotect e = true.
Proof.
  destruct e as [o|o];
    (destruct o as [ | |r| |m| | | | | |v| | | |v| | | |r|em|hl|hl|f|f|f| |rs| | | | | |la fw];
     try destruct m; try destruct f; try destruct em; try destruct hl; try destruct fw; try destruct la;
     destr_state s; open_step; cbn; split_ifs;
     cbn [protected allow_protect run_mode prog secret tainted fst snd negb andb orb] in *;
     intros; try discriminate; auto;
     try (right; apply negb_false_iff; assumption)).
Qed.

(* ------------------------------------------------------------------ no disclosure in direct mode *)
(* FULL statement: whatever is typed at the prompt while the flag is set, no plain program text is exposed;
   the only observation at all is the cipher text written by SAVE ,P *)
Lemma no_plain s o :
  protected s = true -> run_mode s = false -> tainted s = false ->
  ob (step s o) = NoObs \/ (o = OSave SP /\ ob (step s o) = cipher (prog s)).
Proof.
  intros Hp Hr Ht.
  destruct o as [ | |r| |m| | | | | |v| | | |v| | | |r|em|hl|hl|f|f|f| |rs| | | | | |la fw];
    try destruct m; try destruct f; try destruct em; try destruct hl; try destruct fw; try destruct la;
    destruct s as [p a r0 pr se t]; cbn in Hp, Hr, Ht; subst p r0 t;
    open_step; split_ifs; auto.
Qed.

(* the statements that must be refused, with the side conditions under which they reach the guard *)
Definition must_fail (s : state) (o : op) : bool :=
  match o with
  | OList | OLlist | OSave SA | OSave SB | OPeekCode | OPeekOther | OPeekFlag | OBsaveCode | OBsaveOther
  | OPokeFlag _ | OPokeCode | OPokeOther | OBloadMissing | OBloadFlag _ | OBloadCode | OBloadOther
  | OStoreNew | OStoreDel _ | OAutoLine false | OMerge true | OChainMerge _ | ORead | ORenum => true
  | OEdit r => memz r (prog s)
  | OEditPrompt => memz 1 (prog s)
  | _ => false
  end.

Lemma refused s o :
  protected s = true -> run_mode s = false -> must_fail s o = true ->
  step s o = (s, Err E_IFC, NoObs).
Proof.
  intros Hp Hr Hm.
  destruct o as [ | |r| |m| | | | | |v| | | |v| | | |r|em|hl|hl|f|f|f| |rs| | | | | |la fw];
    try discriminate Hm;
    try destruct m; try destruct em; try destruct hl; try destruct fw; try discriminate Hm;
    destruct s as [p a r0 pr se t]; cbn in Hp, Hr; cbn [must_fail prog] in Hm; subst p r0;
    open_step; try rewrite Hm; cbn; reflexivity.
Qed.

(* SAVE ,P is not refused, whatever the flag, and writes through the cipher only *)
Lemma save_p_ok s : step s (OSave SP) = (s, Ok 0, cipher (prog s)).
Proof. destr_state s; open_step; reflexivity. Qed.

(* along every history: a command typed at the prompt never shows plain program text of a protected program *)
Theorem trace_no_disclosure : forall es s e,
  inv s -> allow_protect s = true ->
  forallb (fun e => negb (self_unprotect e)) es = true ->
  let s' := run_events s es in
  secret s' = true ->
  forall o, e = Direct o ->
  match ob (estep s' e) with Plain _ => False | _ => True end.
Proof.
  intros es s e Hi Ha Hall s' Hs o ->.
  assert (Hi' : inv s') by (apply flag_invariant; assumption).
  assert (Ha' : allow_protect s' = true).
  { subst s'. clear Hi Hall Hs Hi'. revert s Ha. induction es as [|e es IH]; intros s Ha; cbn; [assumption|].
    apply IH. destruct e as [o'|o'];
      (destruct o' as [ | |r| |m| | | | | |v| | | |v| | | |r|em|hl|hl|f|f|f| |rs| | | | | |la fw];
       try destruct m; try destruct f; try destruct em; try destruct hl; try destruct fw; try destruct la;
       destr_state s; open_step; split_ifs; cbn in *; congruence). }
  destruct (Hi' Ha' Hs) as [Hp Ht].
  cbn [estep].
  assert (Hp' : protected (set_run s' false) = true) by (destruct s'; exact Hp).
  assert (Ht' : tainted (set_run s' false) = false) by (destruct s'; exact Ht).
  destruct (no_plain (set_run s' false) o Hp' eq_refl Ht') as [H|[_ H]].
  - rewrite H. exact I.
  - rewrite H. unfold cipher. destruct (prog (set_run s' false)); exact I.
Qed.

(* ------------------------------------------------------------------ sanity: what the READ / RENUM guards buy (D16a, D16b) *)
Lemma read_discloses_if_unguarded : g_read = GNone ->
  exists s, protected s = true /\ run_mode s = false /\ secret s = true /\ inv s /\
            ob (step s ORead) = Plain [2].
Proof.
  intros H. exists (mkState true true false secret_code true false).
  split; [reflexivity|]. split; [reflexivity|]. split; [reflexivity|].
  split; [unfold inv; cbn; auto|].
  unfold step, ob. rewrite H. reflexivity.
Qed.

Lemma renum_discloses_if_unguarded : g_renum = GNone -> g_cb_renum = GNone ->
  exists s, protected s = true /\ run_mode s = false /\ secret s = true /\ inv s /\
            ob (step s ORenum) = Plain [3].
Proof.
  intros H1 H2. exists (mkState true true false secret_code true false).
  split; [reflexivity|]. split; [reflexivity|]. split; [reflexivity|].
  split; [unfold inv; cbn; auto|].
  unfold step, ob. rewrite H1, H2. reflexivity.
Qed.

(* with a guard of the PEEK kind (or stronger) the two statements are refused as well *)
Lemma read_safe_if_guarded s : (g_read = GProt \/ g_read = GProtNotRun) ->
  protected s = true -> run_mode s = false -> step s ORead = (s, Err E_IFC, NoObs).
Proof.
  intros [H|H] Hp Hr; unfold step; rewrite H; unfold fires; rewrite Hp; try rewrite Hr; reflexivity.
Qed.

Lemma renum_safe_if_guarded s : (g_renum = GProt \/ g_renum = GProtNotRun) ->
  protected s = true -> run_mode s = false -> step s ORenum = (s, Err E_IFC, NoObs).
Proof.
  intros [H|H] Hp Hr; unfold step; rewrite H; unfold fires; rewrite Hp; try rewrite Hr;
    rewrite orb_true_r; reflexivity.
Qed.

(* ------------------------------------------------------------------ a protected program runs the same *)
(* states that differ at most in the flag *)
Definition same_but_flag (s1 s2 : state) : Prop :=
  allow_protect s1 = allow_protect s2 /\ run_mode s1 = run_mode s2 /\ prog s1 = prog s2 /\
  secret s1 = secret s2 /\ tainted s1 = tainted s2.

(* statements whose outcome depends on the flag even in a running program: the listing / saving / editing
   family (refused in run mode too) and PEEK(1450), which reads the flag itself.  RENUM and DELETE (which end
   the run anyway) count as such exactly if the regenerated table gives them a guard that fires in run mode.
   READ and the PEEK family must NOT be flag sensitive: a guard there that ignores run_mode breaks the proof. *)
Definition run_fires (g : gkind) : bool :=
  match g with GProt | GProtNotP | GProtMerge => true | _ => false end.
Definition flag_sensitive (o : op) : bool :=
  match o with
  | OList | OLlist | OEdit _ | OEditPrompt | OSave SA | OSave SB | OStoreNew | OStoreDel _
  | OAutoLine false | OMerge true | OChainMerge _ | OPeekFlag => true
  | ORenum => run_fires g_renum || run_fires g_cb_renum
  | ODelete _ => run_fires g_delete || run_fires g_cb_delete
  | _ => false
  end.

(* statements that write the flag: afterwards both runs agree on it *)
Lemma runs_same_step s1 s2 o :
  same_but_flag s1 s2 -> run_mode s1 = true -> flag_sensitive o = false ->
  rs_ (step s1 o) = rs_ (step s2 o) /\ ob (step s1 o) = ob (step s2 o) /\
  same_but_flag (st (step s1 o)) (st (step s2 o)).
Proof.
  intros (Ha & Hr & Hp & Hs & Ht) Hrun Hf.
  destruct s1 as [p1 a1 r1 pr1 se1 t1]; destruct s2 as [p2 a2 r2 pr2 se2 t2].
  cbn in Ha, Hr, Hp, Hs, Ht, Hrun. subst a2 r2 pr2 se2 t2 r1.
  unfold same_but_flag.
  destruct o as [ | |r| |m| | | | | |v| | | |v| | | |r|em|hl|hl|f|f|f| |rs| | | | | |la fw];
    cbv [flag_sensitive run_fires g_renum g_cb_renum g_delete g_cb_delete orb] in Hf;
    try discriminate Hf;
    try destruct m; try destruct f; try destruct em; try destruct hl; try destruct fw; try destruct la; try discriminate Hf;
    destruct p1, p2, a1; open_step; split_ifs; cbn; auto 10.
Qed.

Fixpoint outs (s : state) (os : list op) : list (res Z * obs) :=
  match os with
  | [] => []
  | o :: r => let x := estep s (Prog o) in (rs_ x, ob x) :: outs (st x) r
  end.

Theorem runs_same : forall os s1 s2,
  same_but_flag s1 s2 -> forallb (fun o => negb (flag_sensitive o)) os = true ->
  outs s1 os = outs s2 os.
Proof.
  induction os as [|o os IH]; intros s1 s2 HR Hall; cbn [outs]; [reflexivity|].
  cbn in Hall. apply andb_true_iff in Hall as [H1 H2]. apply negb_true_iff in H1.
  assert (Hrm : run_mode s1 = run_mode s2) by (destruct HR as (_ & Hr & _); exact Hr).
  unfold estep. rewrite <- Hrm. destruct (run_mode s1) eqn:Hrun.
  - destruct (runs_same_step s1 s2 o HR Hrun H1) as (Ea & Eb & HR').
    rewrite Ea, Eb. f_equal. apply IH; assumption.
  - unfold rs_, ob, st; cbn. f_equal. apply IH; assumption.
Qed.

(* the PEEK-family guards (and only those) consult run_mode: in a running program they never fire *)
Lemma run_mode_peek_family s o :
  run_mode s = true ->
  In o [OPeekCode; OPeekOther; OPeekFlag; OBsaveCode; OBsaveOther; OPokeOther; OPokeCode; OBloadOther;
        OBloadCode; OBloadMissing] ->
  rs_ (step s o) <> Err E_IFC.
Proof.
  intros Hr Hin. destruct s as [p a r pr se t]; cbn in Hr; subst r.
  cbn in Hin. repeat (destruct Hin as [<-|Hin]; [destruct p; open_step; split_ifs; discriminate|]).
  contradiction.
Qed.

(* ------------------------------------------------------------------ census of the reading call sites *)
Definition audited_reader_sites : list string := [
  "_get_memory machine.py:Memory._get_memory_block"%string;
  "_get_memory machine.py:Memory.peek_"%string;
  "_get_memory_block machine.py:Memory.bsave_"%string;
  "detokenise_line api.py:SessionInfo.get_current_code"%string;
  "detokenise_line program.py:Program.edit"%string;
  "detokenise_line program.py:Program.list_lines"%string;
  "detokenise_line program.py:Program.save"%string;
  "get_memory_block values/strings.py:StringSpace.view"%string;
  "list_lines implementation.py:Implementation.list_"%string;
  "list_lines interpreter.py:Interpreter.llist_"%string;
  "protect program.py:Program.save"%string].

Definition audited_flag_writer_sites : list string := [
  "pcbasic/basic/memory/memory.py:DataSegment._set_basic_memory"%string;
  "pcbasic/basic/program.py:Program.erase"%string;
  "pcbasic/basic/program.py:Program.load"%string].

Lemma census_ok : reader_sites = audited_reader_sites /\ flag_writer_sites = audited_flag_writer_sites.
Proof. split; reflexivity. Qed.
