(* C26: proofs about model/Locks.v over the regenerated gen/Gen_locks.v *)
From Coq Require Import ZArith List Bool Lia ZifyBool.
From PCB Require Import lib.Result lib.PyInt gen.Gen_locks model.Locks.
Import ListNotations.
Open Scope Z_scope.

(* ------------------------------------------------------------------------------------------------
   1. the hand-written decisions equal the tables dumped from the running Locks class *)

Definition err_if (b : bool) (e : Z) : Z := if b then e else 0.

Lemma open_conflict_table : forall lt a flt fa,
  nth (Z.to_nat (((lock_code lt * 4 + acc_code a) * 5 + lock_code flt) * 4 + acc_code fa)) locks_open_table (-1)
  = err_if (open_conflict lt a flt fa) locks_err_PERMISSION_DENIED.
Proof. intros [] [] [] []; vm_compute; reflexivity. Qed.

Lemma open_mode_table : forall m fm,
  nth (Z.to_nat (mode_code m * 4 + mode_code fm)) locks_open_mode_table (-1)
  = err_if (is_oa m) locks_err_FILE_ALREADY_OPEN.
Proof. intros [] []; vm_compute; reflexivity. Qed.

Lemma stored_access_table : forall lt a,
  nth (Z.to_nat (lock_code lt * 4 + acc_code a)) locks_stored_access_table (-1) = acc_code (stored_access lt a).
Proof. intros [] []; vm_compute; reflexivity. Qed.

Lemma own_access_table : forall a (w : bool),
  nth (Z.to_nat (acc_code a * 2 + (if w then 1 else 0))) locks_own_access_table (-1)
  = err_if (own_denied a w) locks_err_PATH_FILE_ACCESS_ERROR.
Proof. intros [] []; vm_compute; reflexivity. Qed.

Lemma other_lock_table : forall l (w : bool),
  nth (Z.to_nat (lock_code l * 2 + (if w then 1 else 0))) locks_other_lock_table (-1)
  = err_if (other_lock_denies l w) locks_err_PATH_FILE_ACCESS_ERROR.
Proof. intros [] []; vm_compute; reflexivity. Qed.

(* a lock held through another number blocks access unless the holder is open for OUTPUT/APPEND and the
   access is a read *)
Lemma holder_mode_table : forall m (w : bool),
  nth (Z.to_nat (mode_code m * 2 + (if w then 1 else 0))) locks_holder_mode_table (-1)
  = err_if (negb (is_oa m && negb w)) locks_err_PERMISSION_DENIED.
Proof. intros [] []; vm_compute; reflexivity. Qed.

Lemma own_lock_table :
  locks_own_lock_blocks_access = 0 /\ locks_own_lock_blocks_lock = locks_err_PERMISSION_DENIED.
Proof. split; reflexivity. Qed.

(* ------------------------------------------------------------------------------------------------
   2. a readable statement of the OPEN decision *)

(* a LOCK clause l (READ / WRITE / READ WRITE) denies the access a *)
Definition denies (l : ltype) (a : acc) : bool := lrw_kind l && meets l a.

(* a second OPEN with (lock clause lt, access clause a) of a file open with (flt, fa) is accepted iff
   neither has a lock clause, or both have one, the new one is not LOCK READ WRITE, neither lock clause
   denies the other's access, and an unspecified access is not met by LOCK READ WRITE *)
Definition open_allowed_spec (lt : ltype) (a : acc) (flt : ltype) (fa : acc) : bool :=
  (lnone lt && lnone flt)
  || (negb (lnone lt) && negb (lnone flt) && negb (is_lrw lt)
      && negb (denies lt fa) && negb (denies flt a) && negb (anone a && is_lrw flt)).

Lemma open_conflict_spec : forall lt a flt fa,
  fa = stored_access flt fa ->       (* what open_file stores: access is never unspecified next to a lock clause *)
  open_conflict lt a flt fa = negb (open_allowed_spec lt a flt fa).
Proof. intros [] [] [] []; vm_compute; intros H; try reflexivity; discriminate H. Qed.

(* ------------------------------------------------------------------------------------------------
   3. ranges *)

Definition in_range (k : Z) (r : range) : Prop :=
  match r with None => True | Some (s, e) => s <= k <= e end.
(* two ranges overlap when they have a record in common *)
Definition overlap (r1 r2 : range) : Prop := exists k, in_range k r1 /\ in_range k r2.

Lemma overlap_sym r1 r2 : overlap r1 r2 -> overlap r2 r1.
Proof. intros [k [H1 H2]]; exists k; split; assumption. Qed.

(* the regenerated test detects every overlap.  FALSE for the endpoint test (defect D8) *)
Lemma conflict_sound : forall s e h, overlap (Some (s, e)) h -> held_conflict s e h = true.
Proof.
  intros s e [[s1 e1]|] [k [H1 H2]]; simpl in *; [|reflexivity].
  unfold locks_range_conflict. lia.
Qed.

(* on proper ranges the test is exact *)
Lemma conflict_complete : forall s e s1 e1, s <= e -> s1 <= e1 ->
  held_conflict s e (Some (s1, e1)) = true -> overlap (Some (s, e)) (Some (s1, e1)).
Proof.
  intros s e s1 e1 Hse Hs1 H. simpl in H. unfold locks_range_conflict in H.
  exists (Z.max s s1). simpl. lia.
Qed.

(* the test that was in the code before the fix of D8: are the endpoints of the request inside a held range *)
Definition endpoint_test (s e s1 e1 : Z) : bool :=
  ((s >=? s1) && (s <=? e1)) || ((e >=? s1) && (e <=? e1)).
Lemma endpoint_test_misses_containing_range :
  endpoint_test 1 4 2 3 = false /\ overlap (Some (1, 4)) (Some (2, 3)).
Proof. split; [reflexivity | exists 2; simpl; lia]. Qed.

Lemma range_eqb_eq r1 r2 : range_eqb r1 r2 = true <-> r1 = r2.
Proof.
  destruct r1 as [[s1 e1]|], r2 as [[s2 e2]|]; simpl; split; intro H; try discriminate; try reflexivity.
  - apply andb_true_iff in H as [Ha Hb]. apply Z.eqb_eq in Ha, Hb. subst. reflexivity.
  - inversion H; subst. rewrite !Z.eqb_refl. reflexivity.
Qed.

Lemma set_mem_In r s : set_mem r s = true <-> In r s.
Proof.
  unfold set_mem. rewrite existsb_exists. split.
  - intros [x [Hx He]]. apply range_eqb_eq in He. subst. assumption.
  - intro H. exists r. split; [assumption | apply range_eqb_eq; reflexivity].
Qed.

Lemma set_add_In r x s : In x (set_add r s) <-> x = r \/ In x s.
Proof.
  unfold set_add. destruct (set_mem r s) eqn:E.
  - apply set_mem_In in E. split; [intro H; right; assumption | intros [H|H]; subst; assumption].
  - rewrite in_app_iff. simpl. split.
    + intros [H|[H|[]]]; [right; assumption | left; symmetry; assumption].
    + intros [H|H]; [right; left; symmetry; assumption | left; assumption].
Qed.

Lemma set_remove_In r x s : In x (set_remove r s) <-> In x s /\ x <> r.
Proof.
  unfold set_remove. rewrite filter_In. split; intros [H1 H2]; split; try assumption.
  - intro E. subst. rewrite (proj2 (range_eqb_eq r r) eq_refl) in H2. discriminate.
  - destruct (range_eqb r x) eqn:E; [|reflexivity]. apply range_eqb_eq in E. subst. contradiction.
Qed.

Lemma set_add_NoDup r s : NoDup s -> NoDup (set_add r s).
Proof.
  intro H. unfold set_add. destruct (set_mem r s) eqn:E; [assumption|].
  assert (Hn : ~ In r s) by (intro Hi; apply set_mem_In in Hi; congruence).
  clear E. induction s as [|x s IH]; simpl.
  - constructor; [intros []|constructor].
  - inversion H as [|? ? Hnotin Hnd']; subst. constructor.
    + rewrite in_app_iff. simpl. intros [Hx|[Hx|[]]]; [contradiction|]. subst. apply Hn. left. reflexivity.
    + apply IH; [assumption|]. intro Hi. apply Hn. right. assumption.
Qed.

(* ------------------------------------------------------------------------------------------------
   4. the table of open files *)

Definition held (fs : files) (nm n : Z) (r : range) : Prop :=
  exists e, In (n, e) fs /\ lp_name e = nm /\ In r (lp_set e).

Definition wf (fs : files) : Prop :=
  NoDup (map fst fs) /\ forall n e, In (n, e) fs -> NoDup (lp_set e).

(* any two locks held at the same time on one file name - through different file numbers or the same one -
   have no record in common *)
Definition disjoint_locks (fs : files) : Prop :=
  forall nm n1 r1 n2 r2, held fs nm n1 r1 -> held fs nm n2 r2 -> (n1 <> n2 \/ r1 <> r2) -> ~ overlap r1 r2.

(* at most one file number has a name open for OUTPUT or APPEND *)
Definition oa_unique (fs : files) : Prop :=
  forall n1 e1 n2 e2, In (n1, e1) fs -> In (n2, e2) fs -> lp_name e1 = lp_name e2 ->
    is_oa (lp_mode e1) = true -> is_oa (lp_mode e2) = true -> n1 = n2.

Definition Inv (fs : files) : Prop := wf fs /\ disjoint_locks fs /\ oa_unique fs.

Lemma find_In n e fs : find n fs = Some e -> In (n, e) fs.
Proof.
  induction fs as [|[k x] r IH]; simpl; [discriminate|].
  destruct (k =? n) eqn:E.
  - intro H. inversion H; subst. apply Z.eqb_eq in E. subst. left. reflexivity.
  - intro H. right. apply IH. assumption.
Qed.

Lemma In_find n e fs : NoDup (map fst fs) -> In (n, e) fs -> find n fs = Some e.
Proof.
  induction fs as [|[k x] r IH]; simpl; [intros _ []|].
  intros Hnd [H|H].
  - inversion H; subst. rewrite Z.eqb_refl. reflexivity.
  - inversion Hnd as [|? ? Hnotin Hnd']; subst. destruct (k =? n) eqn:E.
    + apply Z.eqb_eq in E. subst. exfalso. apply Hnotin. apply (in_map fst) in H. exact H.
    + apply IH; assumption.
Qed.

Lemma find_None_notin n fs : find n fs = None -> ~ In n (map fst fs).
Proof.
  induction fs as [|[k x] r IH]; simpl; [intros _ []|].
  destruct (k =? n) eqn:E; [discriminate|].
  intros H [H1|H1]; [apply Z.eqb_neq in E; contradiction | apply IH in H; contradiction].
Qed.

Lemma update_fst n f fs : map fst (update n f fs) = map fst fs.
Proof.
  unfold update. rewrite map_map. apply map_ext. intros [k e]. simpl. destruct (k =? n); reflexivity.
Qed.

Lemma update_In n f fs m e' :
  In (m, e') (update n f fs) <-> exists e, In (m, e) fs /\ e' = (if m =? n then f e else e).
Proof.
  unfold update. rewrite in_map_iff. split.
  - intros [[k e] [H1 H2]]. simpl in H1. destruct (k =? n) eqn:E; inversion H1; subst.
    + exists e. rewrite E. split; [assumption | reflexivity].
    + exists e'. rewrite E. split; [assumption | reflexivity].
  - intros [e [H1 H2]]. exists (m, e). simpl. split; [|assumption].
    destruct (m =? n); subst; reflexivity.
Qed.

Lemma NoDup_map_fst_filter (p : Z * fent -> bool) fs :
  NoDup (map fst fs) -> NoDup (map fst (filter p fs)).
Proof.
  induction fs as [|x r IH]; simpl; [intro; constructor|].
  intro H. inversion H as [|? ? Hnotin Hnd']; subst. destruct (p x); simpl.
  - constructor; [|apply IH; assumption]. intro Hi. apply Hnotin.
    apply in_map_iff in Hi as [y [Hy1 Hy2]]. apply filter_In in Hy2 as [Hy2 _].
    rewrite <- Hy1. apply in_map. assumption.
  - apply IH. assumption.
Qed.

(* --- how each table operation changes the set of held locks *)

Lemma held_update_recpos n p fs nm m r :
  held (update n (with_recpos p) fs) nm m r <-> held fs nm m r.
Proof.
  unfold held. split.
  - intros [e' [H1 [H2 H3]]]. apply update_In in H1 as [e [H1 He]]. exists e.
    destruct (m =? n); subst e'; simpl in *; auto.
  - intros [e [H1 [H2 H3]]]. exists (if m =? n then with_recpos p e else e). split.
    + apply update_In. exists e. auto.
    + destruct (m =? n); simpl; auto.
Qed.

Lemma held_update_set n g fs nm m r :
  held (update n (with_set g) fs) nm m r ->
  exists e, In (m, e) fs /\ lp_name e = nm /\ In r (if m =? n then g (lp_set e) else lp_set e).
Proof.
  intros [e' [H1 [H2 H3]]]. apply update_In in H1 as [e [H1 He]]. exists e.
  destruct (m =? n); subst e'; simpl in *; auto.
Qed.

Lemma wf_update_recpos n p fs : wf fs -> wf (update n (with_recpos p) fs).
Proof.
  intros [H1 H2]. split; [rewrite update_fst; assumption|].
  intros m e' H. apply update_In in H as [e [Hi He]]. destruct (m =? n); subst e'; simpl; eauto.
Qed.

Lemma wf_update_set n g fs :
  (forall s, NoDup s -> NoDup (g s)) -> wf fs -> wf (update n (with_set g) fs).
Proof.
  intros Hg [H1 H2]. split; [rewrite update_fst; assumption|].
  intros m e' H. apply update_In in H as [e [Hi He]]. destruct (m =? n); subst e'; simpl; eauto.
Qed.

Lemma oa_update n f fs :
  (forall e, lp_name (f e) = lp_name e /\ lp_mode (f e) = lp_mode e) -> oa_unique fs -> oa_unique (update n f fs).
Proof.
  intros Hf H n1 e1 n2 e2 H1 H2 Hn Ho1 Ho2.
  apply update_In in H1 as [x1 [H1 E1]]. apply update_In in H2 as [x2 [H2 E2]].
  apply (H n1 x1 n2 x2 H1 H2).
  - destruct (n1 =? n), (n2 =? n); subst e1 e2; rewrite ?(proj1 (Hf x1)), ?(proj1 (Hf x2)) in Hn; assumption.
  - destruct (n1 =? n); subst e1; rewrite ?(proj2 (Hf x1)) in Ho1; assumption.
  - destruct (n2 =? n); subst e2; rewrite ?(proj2 (Hf x2)) in Ho2; assumption.
Qed.

(* everything held on a name is consulted by a LOCK request (allow_self = False, read_only = False) *)
Lemma consulted_all fs nm n m r : held fs nm m r -> In r (consulted fs nm n false false).
Proof.
  intros [e [H1 [H2 H3]]]. unfold consulted. apply in_flat_map. exists (m, e). split; [|assumption].
  apply filter_In. split.
  - unfold list_open. apply filter_In. split; [assumption|]. simpl. rewrite H2, Z.eqb_refl. reflexivity.
  - simpl. rewrite andb_false_r. reflexivity.
Qed.

(* a granted request does not overlap anything held on the name *)
Lemma try_lock_ok_disjoint fs n this r0 :
  find n fs = Some this -> try_record_lock fs n r0 false false = Ok tt ->
  forall m r, held fs (lp_name this) m r -> ~ overlap r0 r.
Proof.
  intros Hf Ht m r Hh Ho. unfold try_record_lock in Ht. rewrite Hf in Ht.
  pose proof (consulted_all fs (lp_name this) n m r Hh) as Hc.
  destruct r0 as [[s e]|].
  - destruct (existsb (held_conflict s e) (consulted fs (lp_name this) n false false)) eqn:E; [discriminate|].
    assert (Hx : existsb (held_conflict s e) (consulted fs (lp_name this) n false false) = true).
    { apply existsb_exists. exists r. split; [assumption | apply conflict_sound; assumption]. }
    congruence.
  - destruct (consulted fs (lp_name this) n false false); [destruct Hc | discriminate].
Qed.

Lemma acquire_preserves fs n r0 fs' :
  Inv fs -> acquire_record_lock fs n r0 = Ok fs' -> Inv fs'.
Proof.
  intros [Hwf [Hd Ho]] H. unfold acquire_record_lock in H.
  destruct (try_record_lock fs n r0 false false) as [[]| | |] eqn:Ht; simpl in H; try discriminate.
  inversion H; subst fs'; clear H.
  assert (Hthis : exists this, find n fs = Some this).
  { unfold try_record_lock in Ht. destruct (find n fs); [eauto | discriminate]. }
  destruct Hthis as [this Hf].
  pose proof (try_lock_ok_disjoint fs n this r0 Hf Ht) as Hnew.
  split; [|split].
  - apply wf_update_set; [apply set_add_NoDup | assumption].
  - intros nm n1 r1 n2 r2 H1 H2 Hne.
    apply held_update_set in H1 as [e1 [I1 [N1 S1]]]. apply held_update_set in H2 as [e2 [I2 [N2 S2]]].
    assert (C1 : held fs nm n1 r1 \/ (n1 = n /\ r1 = r0 /\ nm = lp_name this)).
    { destruct (n1 =? n) eqn:E.
      - apply Z.eqb_eq in E. subst n1. apply set_add_In in S1 as [S1|S1].
        + right. split; [reflexivity|]. split; [assumption|].
          pose proof (In_find n e1 fs (proj1 Hwf) I1) as X. rewrite Hf in X. congruence.
        + left. exists e1. auto.
      - left. exists e1. auto. }
    assert (C2 : held fs nm n2 r2 \/ (n2 = n /\ r2 = r0 /\ nm = lp_name this)).
    { destruct (n2 =? n) eqn:E.
      - apply Z.eqb_eq in E. subst n2. apply set_add_In in S2 as [S2|S2].
        + right. split; [reflexivity|]. split; [assumption|].
          pose proof (In_find n e2 fs (proj1 Hwf) I2) as X. rewrite Hf in X. congruence.
        + left. exists e2. auto.
      - left. exists e2. auto. }
    destruct C1 as [C1|[A1 [B1 D1]]], C2 as [C2|[A2 [B2 D2]]].
    + apply (Hd nm n1 r1 n2 r2); assumption.
    + subst r2. rewrite D2 in C1. intro Hov. apply (Hnew n1 r1 C1). apply overlap_sym. assumption.
    + subst r1. rewrite D1 in C2. apply (Hnew n2 r2 C2).
    + subst n1 n2 r1 r2. destruct Hne as [Hne|Hne]; contradiction.
  - apply oa_update; [intro e; split; reflexivity | assumption].
Qed.

Lemma release_preserves fs n r0 fs' :
  Inv fs -> release_record_lock fs n r0 = Ok fs' -> Inv fs'.
Proof.
  intros [Hwf [Hd Ho]] H. unfold release_record_lock in H.
  destruct (find n fs) as [this|]; [|discriminate].
  destruct (set_mem r0 (lp_set this)); [|discriminate]. inversion H; subst fs'; clear H.
  split; [|split].
  - apply wf_update_set; [|assumption]. intros s Hs. unfold set_remove. apply NoDup_filter. assumption.
  - intros nm n1 r1 n2 r2 H1 H2 Hne.
    apply held_update_set in H1 as [e1 [I1 [N1 S1]]]. apply held_update_set in H2 as [e2 [I2 [N2 S2]]].
    apply (Hd nm n1 r1 n2 r2); [exists e1 | exists e2 | assumption]; (split; [assumption|split; [assumption|]]).
    + destruct (n1 =? n); [apply set_remove_In in S1; tauto | assumption].
    + destruct (n2 =? n); [apply set_remove_In in S2; tauto | assumption].
  - apply oa_update; [intro e; split; reflexivity | assumption].
Qed.

Lemma recpos_preserves fs n p : Inv fs -> Inv (update n (with_recpos p) fs).
Proof.
  intros [Hwf [Hd Ho]]. split; [|split].
  - apply wf_update_recpos. assumption.
  - intros nm n1 r1 n2 r2 H1 H2. apply (proj1 (held_update_recpos _ _ _ _ _ _)) in H1.
    apply (proj1 (held_update_recpos _ _ _ _ _ _)) in H2. intro Hne. apply (Hd nm n1 r1 n2 r2); assumption.
  - apply oa_update; [intro e; split; reflexivity | assumption].
Qed.

Lemma remove_preserves fs n : Inv fs -> Inv (remove_entry n fs).
Proof.
  intros [[Hw1 Hw2] [Hd Ho]]. unfold remove_entry. split; [split|split].
  - apply NoDup_map_fst_filter. assumption.
  - intros m e H. apply filter_In in H as [H _]. eauto.
  - intros nm n1 r1 n2 r2 [e1 [I1 R1]] [e2 [I2 R2]].
    apply filter_In in I1 as [I1 _]. apply filter_In in I2 as [I2 _]. intro Hne.
    apply (Hd nm n1 r1 n2 r2); [exists e1 | exists e2 | assumption]; auto.
  - intros n1 e1 n2 e2 I1 I2. apply filter_In in I1 as [I1 _]. apply filter_In in I2 as [I2 _]. eauto.
Qed.

Lemma NoDup_snoc (x : Z) l : NoDup l -> ~ In x l -> NoDup (l ++ [x]).
Proof.
  induction l as [|y l IH]; simpl; intros Hnd Hx.
  - constructor; [intros [] | constructor].
  - inversion Hnd as [|? ? Hnotin Hnd']; subst. constructor.
    + rewrite in_app_iff. simpl. intros [Hy|[Hy|[]]]; [contradiction|]. apply Hx. left. symmetry. assumption.
    + apply IH; [assumption|]. intro Hi. apply Hx. right. assumption.
Qed.

Lemma list_open_In fs nm k e : In (k, e) (list_open fs nm None) <-> In (k, e) fs /\ lp_name e = nm.
Proof.
  unfold list_open. rewrite filter_In. simpl. rewrite andb_true_r, Z.eqb_eq. tauto.
Qed.

Lemma open_file_preserves fs nm n m lt a fs' :
  Inv fs -> is_open n fs = false -> locks_open_file fs nm n m lt a = Ok fs' -> Inv fs'.
Proof.
  intros HI Hno H. unfold locks_open_file in H.
  destruct (is_oa m && nonempty (list_open fs nm None)) eqn:Eoa; [discriminate|].
  destruct (n =? 0); [inversion H; subst; assumption|].
  destruct (existsb _ (list_open fs nm None)); [discriminate|].
  inversion H; subst fs'; clear H. unfold set_entry. rewrite Hno.
  destruct HI as [[Hw1 Hw2] [Hd Ho]].
  assert (Hfresh : ~ In n (map fst fs)).
  { apply find_None_notin. unfold is_open in Hno. destruct (find n fs); [discriminate | reflexivity]. }
  split; [split|split].
  - rewrite map_app. simpl. apply NoDup_snoc; assumption.
  - intros k e Hi. apply in_app_iff in Hi as [Hi|[Hi|[]]]; [eauto|]. inversion Hi; subst. simpl. constructor.
  - intros nm' n1 r1 n2 r2 [e1 [I1 [N1 S1]]] [e2 [I2 [N2 S2]]].
    apply in_app_iff in I1 as [I1|[I1|[]]]; [|inversion I1; subst; destruct S1].
    apply in_app_iff in I2 as [I2|[I2|[]]]; [|inversion I2; subst; destruct S2]. intro Hne.
    apply (Hd nm' n1 r1 n2 r2); [exists e1 | exists e2 | assumption]; auto.
  - intros n1 e1 n2 e2 I1 I2 Hn O1 O2.
    apply in_app_iff in I1 as [I1|[I1|[]]]; apply in_app_iff in I2 as [I2|[I2|[]]].
    + eauto.
    + inversion I2; subst; clear I2. simpl in *. rewrite O2 in Eoa. simpl in Eoa.
      assert (Hin : In (n1, e1) (list_open fs nm None)) by (apply list_open_In; auto).
      destruct (list_open fs nm None); [destruct Hin | discriminate].
    + inversion I1; subst; clear I1. simpl in *. rewrite O1 in Eoa. simpl in Eoa.
      assert (Hin : In (n2, e2) (list_open fs nm None)) by (apply list_open_In; auto).
      destruct (list_open fs nm None); [destruct Hin | discriminate].
    + inversion I1; inversion I2; subst. reflexivity.
Qed.

(* ------------------------------------------------------------------------------------------------
   5. statements preserve the invariant *)

Ltac next_if := match goal with |- context [if ?c then _ else _] => destruct c eqn:? end.

Lemma open_preserves st nm n m a lt reclen :
  Inv (st_files st) -> Inv (st_files (fst (open_stmt st nm n m a lt reclen))).
Proof.
  intro HI. unfold open_stmt.
  next_if; [exact HI|]. next_if; [exact HI|]. next_if; [exact HI|]. next_if; [exact HI|].
  next_if; [exact HI|]. next_if; [exact HI|]. next_if; [exact HI|].
  destruct (locks_open_file (st_files st) nm n m lt a) eqn:E; simpl; try exact HI.
  eapply open_file_preserves; eauto.
Qed.

Lemma close_preserves st n : Inv (st_files st) -> Inv (st_files (fst (close_stmt st n))).
Proof.
  intro HI. unfold close_stmt. next_if; [exact HI|]. simpl. apply remove_preserves. exact HI.
Qed.

Lemma lock_preserves u st n so eo : Inv (st_files st) -> Inv (st_files (fst (lock_stmt u st n so eo))).
Proof.
  intro HI. unfold lock_stmt. next_if; [exact HI|]. next_if; [exact HI|].
  destruct (find n (st_files st)) as [this|]; [|exact HI].
  destruct (lock_limits so eo) as [r| | |]; try exact HI.
  destruct u.
  - destruct (release_record_lock (st_files st) n (effective_range this r)) eqn:E; simpl; try exact HI.
    eapply release_preserves; eauto.
  - destruct (acquire_record_lock (st_files st) n (effective_range this r)) eqn:E; simpl; try exact HI.
    eapply acquire_preserves; eauto.
Qed.

Lemma getput_preserves p st n pos : Inv (st_files st) -> Inv (st_files (fst (getput_stmt p st n pos))).
Proof.
  intro HI. unfold getput_stmt. next_if; [exact HI|]. next_if; [exact HI|].
  destruct (find n (st_files st)) as [this|]; [|exact HI].
  next_if; [exact HI|].
  destruct (check_pos pos) as [q| | |]; try exact HI.
  cbv zeta.
  match goal with |- context [try_record_access ?a ?b ?c ?d] => destruct (try_record_access a b c d) end;
    simpl; repeat apply recpos_preserves; exact HI.
Qed.

Lemma textread_unchanged st n : fst (textread_stmt st n) = st.
Proof.
  unfold textread_stmt. repeat (match goal with |- context [if ?c then _ else _] => destruct c end); try reflexivity.
  destruct (find n (st_files st)) as [this|]; [|reflexivity].
  destruct (lp_mode this); try reflexivity. destruct (try_access (st_files st) n false); reflexivity.
Qed.
Lemma textread_preserves st n : Inv (st_files st) -> Inv (st_files (fst (textread_stmt st n))).
Proof. rewrite textread_unchanged. auto. Qed.

Lemma step_preserves st o : Inv (st_files st) -> Inv (st_files (fst (step st o))).
Proof.
  destruct o; simpl.
  - apply open_preserves.
  - apply close_preserves.
  - apply lock_preserves.
  - apply lock_preserves.
  - apply getput_preserves.
  - apply getput_preserves.
  - apply textread_preserves.
Qed.

Lemma Inv_init : Inv (st_files init).
Proof.
  split; [split|split]; simpl.
  - constructor.
  - intros n e [].
  - intros nm n1 r1 n2 r2 [e [[] _]].
  - intros n1 e1 n2 e2 [].
Qed.

Lemma run_preserves ops : forall st, Inv (st_files st) -> Inv (st_files (run st ops)).
Proof.
  induction ops as [|o r IH]; intros st HI; simpl; [exact HI|]. apply IH. apply step_preserves. exact HI.
Qed.

Theorem invariant_all_histories : forall ops, Inv (st_files (run init ops)).
Proof. intro ops. apply run_preserves. apply Inv_init. Qed.

(* ------------------------------------------------------------------------------------------------
   6. an overlapping request is denied *)

Lemma acquire_overlap_denied fs n this r0 m r2 :
  find n fs = Some this -> held fs (lp_name this) m r2 -> overlap r0 r2 ->
  acquire_record_lock fs n r0 = Err locks_err_PERMISSION_DENIED.
Proof.
  intros Hf Hh Ho. unfold acquire_record_lock, try_record_lock. rewrite Hf.
  pose proof (consulted_all fs (lp_name this) n m r2 Hh) as Hc.
  destruct r0 as [[s e]|].
  - assert (Hx : existsb (held_conflict s e) (consulted fs (lp_name this) n false false) = true).
    { apply existsb_exists. exists r2. split; [assumption | apply conflict_sound; assumption]. }
    rewrite Hx. reflexivity.
  - destruct (consulted fs (lp_name this) n false false); [destruct Hc | reflexivity].
Qed.

(* a request on proper ranges is granted exactly when it overlaps nothing held on the name *)
Definition proper (r : range) : Prop := match r with None => True | Some (s, e) => s <= e end.

Lemma acquire_granted fs n this s e :
  find n fs = Some this -> s <= e ->
  (forall m r2, held fs (lp_name this) m r2 -> proper r2 /\ ~ overlap (Some (s, e)) r2) ->
  exists fs', acquire_record_lock fs n (Some (s, e)) = Ok fs'.
Proof.
  intros Hf Hse Hall. unfold acquire_record_lock, try_record_lock. rewrite Hf.
  destruct (existsb (held_conflict s e) (consulted fs (lp_name this) n false false)) eqn:E.
  - exfalso. apply existsb_exists in E as [r2 [Hin Hc]].
    unfold consulted in Hin. apply in_flat_map in Hin as [[m e2] [Hin2 Hr2]].
    apply filter_In in Hin2 as [Hin2 _]. unfold list_open in Hin2. apply filter_In in Hin2 as [Hin2 Hn].
    simpl in Hn, Hr2. rewrite andb_true_r in Hn. apply Z.eqb_eq in Hn.
    destruct (Hall m r2) as [Hp Hno]; [exists e2; auto|].
    destruct r2 as [[s1 e1]|]; [|apply Hno; exists s; simpl; lia].
    apply Hno. apply conflict_complete; assumption.
  - simpl. eauto.
Qed.

Theorem lock_overlap_denied st n so eo this r m r2 :
  0 < n <= 255 -> find n (st_files st) = Some this -> lock_limits so eo = Ok r ->
  held (st_files st) (lp_name this) m r2 -> overlap (effective_range this r) r2 ->
  lock_stmt false st n so eo = (st, Err locks_err_PERMISSION_DENIED).
Proof.
  intros Hn Hf Hl Hh Ho. unfold lock_stmt.
  replace ((n <? 0) || (255 <? n)) with false by lia. replace (n <? 1) with false by lia.
  rewrite Hf, Hl. rewrite (acquire_overlap_denied _ _ _ _ _ _ Hf Hh Ho). reflexivity.
Qed.

(* ------------------------------------------------------------------------------------------------
   7. access to a record inside a range held through another file number *)

Lemma record_access_denied fs n this k w m e2 r2 :
  find n fs = Some this -> In (m, e2) fs -> m <> n -> lp_name e2 = lp_name this -> In r2 (lp_set e2) ->
  in_range k r2 -> (is_oa (lp_mode e2) && negb w) = false ->
  try_record_access fs n k w = Err locks_err_PERMISSION_DENIED \/
  try_record_access fs n k w = Err locks_err_PATH_FILE_ACCESS_ERROR.
Proof.
  intros Hf Hin Hne Hnm Hr2 Hk Hoa. unfold try_record_access.
  destruct (try_access fs n w) as [[]|x|x|] eqn:Ea; simpl.
  - left. unfold try_record_lock. rewrite Hf.
    assert (Hx : existsb (held_conflict k k) (consulted fs (lp_name this) n true (negb w)) = true).
    { apply existsb_exists. exists r2. split.
      - unfold consulted. apply in_flat_map. exists (m, e2). split; [|assumption].
        apply filter_In. split.
        + unfold list_open. apply filter_In. split; [assumption|]. simpl. rewrite Hnm, Z.eqb_refl. simpl.
          apply negb_true_iff. apply Z.eqb_neq. assumption.
        + simpl. rewrite Hoa. reflexivity.
      - apply conflict_sound. exists k. split; [simpl; lia | assumption]. }
    rewrite Hx. reflexivity.
  - right. unfold try_access in Ea. destruct (n =? 0); [discriminate|]. rewrite Hf in Ea.
    destruct (own_denied (lp_access this) w); [inversion Ea; reflexivity|].
    destruct (existsb _ _); [inversion Ea; reflexivity | discriminate].
  - exfalso. unfold try_access in Ea. destruct (n =? 0); [discriminate|]. rewrite Hf in Ea.
    destruct (own_denied (lp_access this) w); [discriminate|]. destruct (existsb _ _); discriminate.
  - exfalso. unfold try_access in Ea. destruct (n =? 0); [discriminate|]. rewrite Hf in Ea.
    destruct (own_denied (lp_access this) w); [discriminate|]. destruct (existsb _ _); discriminate.
Qed.

(* the record a GET/PUT statement accesses *)
Definition accessed_record (this : fent) (p : option Z) : Z :=
  match p with Some x => x | None => lp_recpos this + 1 end.

Lemma find_update_same n f fs e : find n fs = Some e -> find n (update n f fs) = Some (f e).
Proof.
  induction fs as [|[k x] r IH]; simpl; [discriminate|]. destruct (k =? n) eqn:E; simpl; rewrite E.
  - intro H. inversion H. reflexivity.
  - exact IH.
Qed.

Theorem getput_locked_record_fails put st n pos this p m e2 r2 :
  0 < n <= 255 -> find n (st_files st) = Some this -> lp_mode this = MR -> check_pos pos = Ok p ->
  NoDup (map fst (st_files st)) ->
  In (m, e2) (st_files st) -> m <> n -> lp_name e2 = lp_name this -> In r2 (lp_set e2) ->
  in_range (accessed_record this p) r2 ->
  (is_oa (lp_mode e2) && negb put) = false ->       (* not: a GET while the holder is open for OUTPUT/APPEND *)
  snd (getput_stmt put st n pos) = Err locks_err_PERMISSION_DENIED \/
  snd (getput_stmt put st n pos) = Err locks_err_PATH_FILE_ACCESS_ERROR.
Proof.
  intros Hn Hf Hm Hp Hnd Hin Hne Hnm Hr2 Hk Hoa. unfold getput_stmt.
  replace ((n <? 0) || (255 <? n)) with false by lia. replace (n <? 1) with false by lia.
  rewrite Hf, Hm, Hp. simpl negb. cbv iota. cbv zeta.
  set (recpos := match p with Some x => rf_setpos_recpos x | None => lp_recpos this end).
  set (fs1 := update n (with_recpos recpos) (st_files st)).
  assert (Hk' : (if put then rf_put_record recpos else rf_get_record recpos) = accessed_record this p).
  { unfold recpos, accessed_record, rf_put_record, rf_get_record, rf_setpos_recpos.
    destruct put, p; lia. }
  rewrite Hk'.
  assert (Hf1 : find n fs1 = Some (with_recpos recpos this)) by (apply find_update_same; assumption).
  assert (Hin1 : In (m, e2) fs1).
  { apply update_In. exists e2. split; [assumption|]. replace (m =? n) with false by lia. reflexivity. }
  destruct (record_access_denied fs1 n (with_recpos recpos this) (accessed_record this p) put m e2 r2
              Hf1 Hin1 Hne Hnm Hr2 Hk Hoa) as [E|E]; rewrite E; simpl; auto.
Qed.

(* ------------------------------------------------------------------------------------------------
   8. UNLOCK matches exactly *)

Lemma release_exact fs n this r0 :
  find n fs = Some this ->
  (In r0 (lp_set this) ->
     exists fs', release_record_lock fs n r0 = Ok fs' /\
       find n fs' = Some (with_set (set_remove r0) this) /\
       (forall m, m <> n -> find m fs' = find m fs)) /\
  (~ In r0 (lp_set this) -> release_record_lock fs n r0 = Err locks_err_PERMISSION_DENIED).
Proof.
  intro Hf. unfold release_record_lock. rewrite Hf. split; intro H.
  - rewrite (proj2 (set_mem_In r0 (lp_set this)) H). eexists. split; [reflexivity|]. split.
    + apply find_update_same. assumption.
    + intros m Hm. clear Hf. induction fs as [|[k x] r IH]; simpl; [reflexivity|].
      destruct (k =? n) eqn:E; simpl.
      * apply Z.eqb_eq in E. subst k. replace (n =? m) with false by lia. exact IH.
      * destruct (k =? m); [reflexivity | exact IH].
  - destruct (set_mem r0 (lp_set this)) eqn:E; [|reflexivity]. apply set_mem_In in E. contradiction.
Qed.

Theorem unlock_exact st n so eo this r :
  0 < n <= 255 -> find n (st_files st) = Some this -> lock_limits so eo = Ok r ->
  let r0 := effective_range this r in
  (In r0 (lp_set this) ->
     snd (lock_stmt true st n so eo) = Ok tt /\
     (forall x, In x (lp_set this) -> x <> r0 ->
        exists e', find n (st_files (fst (lock_stmt true st n so eo))) = Some e' /\ In x (lp_set e')) /\
     (exists e', find n (st_files (fst (lock_stmt true st n so eo))) = Some e' /\ ~ In r0 (lp_set e'))) /\
  (~ In r0 (lp_set this) -> lock_stmt true st n so eo = (st, Err locks_err_PERMISSION_DENIED)).
Proof.
  intros Hn Hf Hl r0. unfold lock_stmt.
  replace ((n <? 0) || (255 <? n)) with false by lia. replace (n <? 1) with false by lia.
  rewrite Hf, Hl. fold r0. destruct (release_exact (st_files st) n this r0 Hf) as [Hyes Hno]. split; intro H.
  - destruct (Hyes H) as [fs' [E [Hfind _]]]. rewrite E. simpl. split; [reflexivity|]. split.
    + intros x Hx Hne. eexists. split; [exact Hfind|]. simpl. apply set_remove_In. auto.
    + eexists. split; [exact Hfind|]. simpl. intro Hc. apply set_remove_In in Hc. tauto.
  - rewrite (Hno H). reflexivity.
Qed.

(* ------------------------------------------------------------------------------------------------
   9. OUTPUT / APPEND *)

Definition valid_open_args (n : Z) (m : fmode) (a : acc) (reclen : Z) : Prop :=
  1 <= n <= max_files /\ 1 <= reclen <= max_reclen /\
  (a = ANone \/ (m = MI /\ a = AR) \/ (m = MO /\ a = AW) \/ (m = MA /\ a = ARW) \/ m = MR).

Theorem output_open_refused st nm n m a lt reclen k e :
  is_oa m = true -> In (k, e) (st_files st) -> lp_name e = nm ->
  (exists err, open_stmt st nm n m a lt reclen = (st, Err err)) /\
  (valid_open_args n m a reclen -> open_stmt st nm n m a lt reclen = (st, Err locks_err_FILE_ALREADY_OPEN)).
Proof.
  intros Hoa Hin Hnm.
  assert (Hlocks : locks_open_file (st_files st) nm n m lt a = Err locks_err_FILE_ALREADY_OPEN).
  { unfold locks_open_file. rewrite Hoa. simpl.
    assert (Hi : In (k, e) (list_open (st_files st) nm None)) by (apply list_open_In; auto).
    destruct (list_open (st_files st) nm None); [destruct Hi | reflexivity]. }
  split.
  - unfold open_stmt. rewrite Hlocks.
    repeat (next_if; [eexists; reflexivity|]). eexists; reflexivity.
  - intros [Hn [Hr Ha]]. unfold open_stmt, max_files, max_reclen in *.
    replace ((n <? 0) || (255 <? n)) with false by lia.
    replace ((reclen <? 1) || (128 <? reclen)) with false by lia.
    replace ((n <? 1) || (3 <? n)) with false by lia.
    assert (H1 : negb (anone a) && mode_eqb m MA && acc_eqb a AW = false).
    { destruct Ha as [Ha|[[Hm Ha]|[[Hm Ha]|[[Hm Ha]|Hm]]]]; subst; try reflexivity; discriminate Hoa. }
    assert (H2 : negb (anone a) && ((mode_eqb m MI && negb (acc_eqb a AR)) || (mode_eqb m MO && negb (acc_eqb a AW))
                             || (mode_eqb m MA && negb (acc_eqb a ARW))) = false).
    { destruct Ha as [Ha|[[Hm Ha]|[[Hm Ha]|[[Hm Ha]|Hm]]]]; subst; try reflexivity; discriminate Hoa. }
    rewrite H1, H2. rewrite Hlocks.
    destruct (is_open n (st_files st)); [reflexivity|].
    replace (mode_eqb m MI) with false by (destruct m; try reflexivity; discriminate Hoa). reflexivity.
Qed.

(* the Locks-level decision of OPEN, for every state and all arguments *)
Theorem open_decision fs nm n m lt a : n <> 0 ->
  locks_open_file fs nm n m lt a =
    if is_oa m && nonempty (list_open fs nm None) then Err locks_err_FILE_ALREADY_OPEN
    else if forallb (fun ke => negb (open_conflict lt a (lp_lock (snd ke)) (lp_access (snd ke))))
                    (list_open fs nm None)
         then Ok (set_entry fs n (mkEnt nm m lt (stored_access lt a) [] 0))
         else Err locks_err_PERMISSION_DENIED.
Proof.
  intro Hn. unfold locks_open_file. destruct (is_oa m && nonempty (list_open fs nm None)); [reflexivity|].
  replace (n =? 0) with false by lia.
  induction (list_open fs nm None) as [|x l IH]; simpl; [reflexivity|].
  destruct (open_conflict lt a (lp_lock (snd x)) (lp_access (snd x))); simpl; [reflexivity | exact IH].
Qed.

(* every access stored in the table is the stored form: never unspecified next to a lock clause *)
Definition access_stored (fs : files) : Prop :=
  forall n e, In (n, e) fs -> lp_access e = stored_access (lp_lock e) (lp_access e).

Lemma stored_access_idem lt a : stored_access lt (stored_access lt a) = stored_access lt a.
Proof. destruct lt, a; reflexivity. Qed.

Lemma access_stored_update n f fs :
  (forall e, lp_lock (f e) = lp_lock e /\ lp_access (f e) = lp_access e) ->
  access_stored fs -> access_stored (update n f fs).
Proof.
  intros Hf H m e' Hin. apply update_In in Hin as [e [Hin He]]. specialize (H m e Hin).
  destruct (m =? n); subst e'; [|assumption].
  destruct (Hf e) as [H1 H2]. rewrite H1, H2. assumption.
Qed.

Lemma access_stored_step st o : access_stored (st_files st) -> access_stored (st_files (fst (step st o))).
Proof.
  intro HI. destruct o as [nm n m a lt reclen|n|n so eo|n so eo|n pos|n pos|n]; simpl;
    [| | | | | |rewrite textread_unchanged; exact HI].
  - unfold open_stmt.
    next_if; [exact HI|]. next_if; [exact HI|]. next_if; [exact HI|]. next_if; [exact HI|].
    next_if; [exact HI|]. next_if; [exact HI|]. next_if; [exact HI|].
    destruct (locks_open_file (st_files st) nm n m lt a) eqn:E; simpl; try exact HI.
    unfold locks_open_file in E.
    destruct (is_oa m && nonempty (list_open (st_files st) nm None)); [discriminate|].
    destruct (n =? 0); [inversion E; subst; exact HI|].
    destruct (existsb _ (list_open (st_files st) nm None)); [discriminate|].
    inversion E; subst; clear E. unfold set_entry.
    match goal with H : is_open n (st_files st) = false |- _ => rewrite H end.
    intros k e Hin. apply in_app_iff in Hin as [Hin|[Hin|[]]]; [apply HI in Hin; exact Hin|].
    inversion Hin; subst. simpl. symmetry. apply stored_access_idem.
  - unfold close_stmt. next_if; [exact HI|]. simpl. intros k e Hin. apply filter_In in Hin as [Hin _]. eauto.
  - unfold lock_stmt. next_if; [exact HI|]. next_if; [exact HI|].
    destruct (find n (st_files st)) as [this|]; [|exact HI].
    destruct (lock_limits so eo) as [r| | |]; try exact HI.
    destruct (acquire_record_lock (st_files st) n (effective_range this r)) eqn:E; simpl; try exact HI.
    unfold acquire_record_lock in E. destruct (try_record_lock _ _ _ _ _); simpl in E; try discriminate.
    inversion E; subst. apply access_stored_update; [intro; split; reflexivity | exact HI].
  - unfold lock_stmt. next_if; [exact HI|]. next_if; [exact HI|].
    destruct (find n (st_files st)) as [this|] eqn:Ef; [|exact HI].
    destruct (lock_limits so eo) as [r| | |]; try exact HI.
    destruct (release_record_lock (st_files st) n (effective_range this r)) eqn:E; simpl; try exact HI.
    unfold release_record_lock in E. rewrite Ef in E. destruct (set_mem _ _); [|discriminate].
    inversion E; subst. apply access_stored_update; [intro; split; reflexivity | exact HI].
  - unfold getput_stmt. next_if; [exact HI|]. next_if; [exact HI|].
    destruct (find n (st_files st)) as [this|]; [|exact HI]. next_if; [exact HI|].
    destruct (check_pos pos) as [q| | |]; try exact HI. cbv zeta.
    match goal with |- context [try_record_access ?a ?b ?c ?d] => destruct (try_record_access a b c d) end;
      simpl; repeat (apply access_stored_update; [intro; split; reflexivity|]); exact HI.
  - unfold getput_stmt. next_if; [exact HI|]. next_if; [exact HI|].
    destruct (find n (st_files st)) as [this|]; [|exact HI]. next_if; [exact HI|].
    destruct (check_pos pos) as [q| | |]; try exact HI. cbv zeta.
    match goal with |- context [try_record_access ?a ?b ?c ?d] => destruct (try_record_access a b c d) end;
      simpl; repeat (apply access_stored_update; [intro; split; reflexivity|]); exact HI.
Qed.

Theorem access_stored_all_histories : forall ops, access_stored (st_files (run init ops)).
Proof.
  intro ops. assert (H : forall st, access_stored (st_files st) -> access_stored (st_files (run st ops))).
  { induction ops as [|o r IH]; intros st HI; simpl; [exact HI|]. apply IH. apply access_stored_step. exact HI. }
  apply H. intros n e [].
Qed.

(* on reachable tables: OPEN (not OUTPUT/APPEND) is accepted by Locks.open_file exactly when the readable
   rule open_allowed_spec holds against every file number that has the name open *)
Theorem open_accepted_iff fs nm n m lt a : n <> 0 -> access_stored fs -> is_oa m = false ->
  (exists fs', locks_open_file fs nm n m lt a = Ok fs') <->
  (forall k e, In (k, e) fs -> lp_name e = nm -> open_allowed_spec lt a (lp_lock e) (lp_access e) = true).
Proof.
  intros Hn Hst Hm. rewrite (open_decision fs nm n m lt a Hn). rewrite Hm. simpl.
  destruct (forallb _ (list_open fs nm None)) eqn:E.
  - split; [|eauto]. intros _ k e Hin Hnm. rewrite forallb_forall in E.
    specialize (E (k, e) (proj2 (list_open_In fs nm k e) (conj Hin Hnm))). simpl in E.
    rewrite (open_conflict_spec _ _ _ _ (Hst k e Hin)) in E. rewrite negb_involutive in E. exact E.
  - split; [intros [fs' H]; discriminate|]. intro H. exfalso.
    assert (Hall : forallb (fun ke => negb (open_conflict lt a (lp_lock (snd ke)) (lp_access (snd ke))))
                     (list_open fs nm None) = true).
    { apply forallb_forall. intros [k e] Hin. apply list_open_In in Hin as [Hin Hnm]. simpl.
      rewrite (open_conflict_spec _ _ _ _ (Hst k e Hin)). rewrite negb_involutive. apply (H k e Hin Hnm). }
    congruence.
Qed.

(* ------------------------------------------------------------------------------------------------
   10. sequential-mode file numbers lock the whole file; OPEN-time LOCK clauses; mutual exclusion *)

(* LOCK / UNLOCK through a number open FOR INPUT / OUTPUT / APPEND: the bounds (once they pass the limit check)
   are ignored - the statement is the whole-file statement *)
Theorem text_lock_ignores_bounds u st n so eo this r :
  find n (st_files st) = Some this -> lp_mode this <> MR -> lock_limits so eo = Ok r ->
  lock_stmt u st n so eo = lock_stmt u st n None None.
Proof.
  intros Hf Hm Hl. unfold lock_stmt. rewrite Hf, Hl. cbn [lock_limits].
  assert (He : forall x, effective_range this x = None) by (intro x; unfold effective_range; destruct (lp_mode this); congruence).
  rewrite !He. reflexivity.
Qed.

(* a whole-file lock (also every lock taken through a sequential-mode number) excludes every request *)
Theorem whole_file_lock_excludes_requests fs n this m r0 :
  find n fs = Some this -> held fs (lp_name this) m None ->
  acquire_record_lock fs n r0 = Err locks_err_PERMISSION_DENIED.
Proof.
  intros Hf Hh. unfold acquire_record_lock, try_record_lock. rewrite Hf.
  pose proof (consulted_all fs (lp_name this) n m None Hh) as Hc.
  destruct r0 as [[s e]|].
  - assert (Hx : existsb (held_conflict s e) (consulted fs (lp_name this) n false false) = true)
      by (apply existsb_exists; exists None; split; [assumption | reflexivity]).
    rewrite Hx. reflexivity.
  - destruct (consulted fs (lp_name this) n false false); [destruct Hc | reflexivity].
Qed.

(* UNLOCK through a sequential-mode number succeeds iff that number holds the whole-file lock, whatever bounds *)
Theorem text_unlock_matches_any_bounds st n so eo this r :
  0 < n <= 255 -> find n (st_files st) = Some this -> lp_mode this <> MR -> lock_limits so eo = Ok r ->
  (In None (lp_set this) -> snd (lock_stmt true st n so eo) = Ok tt) /\
  (~ In None (lp_set this) -> lock_stmt true st n so eo = (st, Err locks_err_PERMISSION_DENIED)).
Proof.
  intros Hn Hf Hm Hl.
  assert (He : effective_range this r = None) by (unfold effective_range; destruct (lp_mode this); congruence).
  destruct (unlock_exact st n so eo this r Hn Hf Hl) as [A B]. cbv zeta in A, B. rewrite He in A, B.
  split; [intro H; exact (proj1 (A H)) | exact B].
Qed.

(* the LOCK READ / LOCK WRITE clause another number gave at OPEN forbids the access: Path/file access error,
   whatever record, locked or not; only the record pointer moves *)
Lemma try_access_other_clause fs n this w m e2 :
  n <> 0 -> find n fs = Some this -> In (m, e2) fs -> m <> n -> lp_name e2 = lp_name this ->
  other_lock_denies (lp_lock e2) w = true ->
  try_access fs n w = Err locks_err_PATH_FILE_ACCESS_ERROR.
Proof.
  intros Hn Hf Hin Hne Hnm Hd. unfold try_access. replace (n =? 0) with false by lia. rewrite Hf.
  destruct (own_denied (lp_access this) w); [reflexivity|].
  assert (Hx : existsb (fun ke => other_lock_denies (lp_lock (snd ke)) w) (list_open fs (lp_name this) (Some n)) = true).
  { apply existsb_exists. exists (m, e2). split; [|exact Hd]. unfold list_open. apply filter_In. split; [exact Hin|].
    simpl. rewrite Hnm, Z.eqb_refl. simpl. apply negb_true_iff. apply Z.eqb_neq. exact Hne. }
  rewrite Hx. reflexivity.
Qed.

Theorem open_clause_forbids_getput put st n pos this p m e2 :
  0 < n <= 255 -> find n (st_files st) = Some this -> lp_mode this = MR -> check_pos pos = Ok p ->
  In (m, e2) (st_files st) -> m <> n -> lp_name e2 = lp_name this ->
  other_lock_denies (lp_lock e2) put = true ->
  snd (getput_stmt put st n pos) = Err locks_err_PATH_FILE_ACCESS_ERROR.
Proof.
  intros Hn Hf Hm Hp Hin Hne Hnm Hd. unfold getput_stmt.
  replace ((n <? 0) || (255 <? n)) with false by lia. replace (n <? 1) with false by lia.
  rewrite Hf, Hm, Hp. simpl negb. cbv iota. cbv zeta.
  set (recpos := match p with Some x => rf_setpos_recpos x | None => lp_recpos this end).
  set (fs1 := update n (with_recpos recpos) (st_files st)).
  assert (Hf1 : find n fs1 = Some (with_recpos recpos this)) by (apply find_update_same; assumption).
  assert (Hin1 : In (m, e2) fs1).
  { apply update_In. exists e2. split; [assumption|]. replace (m =? n) with false by lia. reflexivity. }
  unfold try_record_access.
  rewrite (try_access_other_clause fs1 n (with_recpos recpos this) put m e2); try assumption; try lia.
  reflexivity.
Qed.

Theorem open_clause_forbids_textread st n this m e2 :
  0 < n <= 255 -> find n (st_files st) = Some this -> lp_mode this = MI ->
  In (m, e2) (st_files st) -> m <> n -> lp_name e2 = lp_name this ->
  other_lock_denies (lp_lock e2) false = true ->
  textread_stmt st n = (st, Err locks_err_PATH_FILE_ACCESS_ERROR).
Proof.
  intros Hn Hf Hm Hin Hne Hnm Hd. unfold textread_stmt.
  replace ((n <? 0) || (255 <? n)) with false by lia. replace (n <? 1) with false by lia.
  rewrite Hf, Hm. rewrite (try_access_other_clause (st_files st) n this false m e2); try assumption; try lia.
  reflexivity.
Qed.

(* which clauses forbid what *)
Lemma other_lock_denies_table :
  other_lock_denies LR false = true /\ other_lock_denies LRW false = true /\ other_lock_denies LW true = true /\
  other_lock_denies LRW true = true /\ other_lock_denies LR true = false /\ other_lock_denies LW false = false /\
  (forall w, other_lock_denies LNone w = false) /\ (forall w, other_lock_denies LShared w = false).
Proof. repeat split; intros []; reflexivity. Qed.

(* MUTUAL EXCLUSION over every history: whenever a number holds a lock containing record k of a name,
   (1) it is the only held lock on that name containing k (any number, also its own), and
   (2) GET / PUT of record k through every other number fails (GET is let through only while the holder has the
       file open for OUTPUT/APPEND), and (3) a new LOCK request containing k is refused through every number *)
Theorem mutual_exclusion ops nm n1 e1 r1 k :
  let st := run init ops in let fs := st_files st in
  In (n1, e1) fs -> lp_name e1 = nm -> In r1 (lp_set e1) -> in_range k r1 ->
  (forall n2 e2 r2, In (n2, e2) fs -> lp_name e2 = nm -> In r2 (lp_set e2) -> in_range k r2 -> n2 = n1 /\ r2 = r1) /\
  (forall put n2 this pos p, 0 < n2 <= 255 -> n2 <> n1 -> find n2 fs = Some this -> lp_name this = nm ->
     lp_mode this = MR -> check_pos pos = Ok p -> accessed_record this p = k ->
     (is_oa (lp_mode e1) && negb put) = false ->
     snd (getput_stmt put st n2 pos) = Err locks_err_PERMISSION_DENIED \/
     snd (getput_stmt put st n2 pos) = Err locks_err_PATH_FILE_ACCESS_ERROR) /\
  (forall n2 this so eo r, 0 < n2 <= 255 -> find n2 fs = Some this -> lp_name this = nm ->
     lock_limits so eo = Ok r -> in_range k (effective_range this r) ->
     lock_stmt false st n2 so eo = (st, Err locks_err_PERMISSION_DENIED)).
Proof.
  intros st fs H1 N1 S1 K1. destruct (invariant_all_histories ops) as [[Hnd Hsets] [Hd Ho]].
  fold st in Hnd, Hsets, Hd, Ho. fold fs in Hnd, Hsets, Hd, Ho.
  assert (Hheld : held fs nm n1 r1) by (exists e1; auto).
  split; [|split].
  - intros n2 e2 r2 H2 N2 S2 K2.
    destruct (Z.eq_dec n2 n1) as [En|En]; [destruct (range_eqb r2 r1) eqn:Er|].
    + apply range_eqb_eq in Er. auto.
    + exfalso. apply (Hd nm n2 r2 n1 r1); [exists e2; auto | exact Hheld | | exists k; auto].
      right. intro E. subst r2. rewrite (proj2 (range_eqb_eq r1 r1) eq_refl) in Er. discriminate.
    + exfalso. apply (Hd nm n2 r2 n1 r1); [exists e2; auto | exact Hheld | left; exact En | exists k; auto].
  - intros put n2 this pos p Hn Hne Hf Hnm Hm Hp Hk Hoa.
    apply (getput_locked_record_fails put st n2 pos this p n1 e1 r1); try assumption; try congruence.
  - intros n2 this so eo r Hn Hf Hnm Hl Hk.
    apply (lock_overlap_denied st n2 so eo this r n1 r1 Hn Hf Hl).
    + rewrite Hnm. exact Hheld.
    + exists k. split; assumption.
Qed.
