(* C17: basic facts about assoc / mem / byte classes and the boolean bijection check used by the other C17
   proof files (the check itself is run on the regenerated tables in proofs/Tok_bijection.v). *)
From Coq Require Import ZArith List Bool Lia.
From PCB Require Import lib.Result lib.PyInt lib.Harness gen.Gen_tokens model.Tok.
Import ListNotations.
Open Scope Z_scope.

Lemma list_Z_eqb_refl l : list_Z_eqb l l = true.
Proof. apply list_Z_eqb_eq. reflexivity. Qed.

Lemma list_Z_eqb_neq a b : list_Z_eqb a b = false <-> a <> b.
Proof.
  split; intro H.
  - intro E. apply list_Z_eqb_eq in E. congruence.
  - destruct (list_Z_eqb a b) eqn:E; [|reflexivity]. apply list_Z_eqb_eq in E. contradiction.
Qed.

Lemma mem_In c l : mem c l = true <-> In c l.
Proof.
  unfold mem. rewrite existsb_exists. split.
  - intros [x [Hx He]]. apply Z.eqb_eq in He. subst. exact Hx.
  - intro H. exists c. split; [exact H | apply Z.eqb_refl].
Qed.

Lemma lmem_In w ls : lmem w ls = true <-> In w ls.
Proof.
  unfold lmem. rewrite existsb_exists. split.
  - intros [x [Hx He]]. apply list_Z_eqb_eq in He. subst. exact Hx.
  - intro H. exists w. split; [exact H | apply list_Z_eqb_refl].
Qed.

Lemma assoc_In k d v : assoc k d = Some v -> In (k, v) d.
Proof.
  induction d as [|[a b] d IH]; simpl; [discriminate|].
  destruct (list_Z_eqb k a) eqn:E.
  - intro H. inversion H; subst. apply list_Z_eqb_eq in E. subst. left. reflexivity.
  - intro H. right. apply IH. exact H.
Qed.

Lemma assoc_None_notin k d : assoc k d = None -> ~ In k (map fst d).
Proof.
  induction d as [|[a b] d IH]; simpl; [tauto|].
  destruct (list_Z_eqb k a) eqn:E; [discriminate|].
  intros H [H1|H1].
  - subst. rewrite list_Z_eqb_refl in E. discriminate.
  - exact (IH H H1).
Qed.

Lemma In_assoc_nodup k v d : NoDup (map fst d) -> In (k, v) d -> assoc k d = Some v.
Proof.
  induction d as [|[a b] d IH]; simpl; [tauto|].
  intros ND [H|H].
  - inversion H; subst. rewrite list_Z_eqb_refl. reflexivity.
  - inversion ND as [|x l Hn ND']; subst.
    destruct (list_Z_eqb k a) eqn:E.
    + apply list_Z_eqb_eq in E. subst. exfalso. apply Hn.
      change a with (fst (a, v)). apply in_map. exact H.
    + apply IH; assumption.
Qed.

(* boolean NoDup on lists of byte strings *)
Fixpoint nodupb (l : list (list Z)) : bool :=
  match l with
  | [] => true
  | x :: r => negb (lmem x r) && nodupb r
  end.

Lemma nodupb_NoDup l : nodupb l = true -> NoDup l.
Proof.
  induction l as [|x r IH]; simpl; intro H; [constructor|].
  apply andb_true_iff in H as [H1 H2]. constructor.
  - intro Hin. apply lmem_In in Hin. rewrite Hin in H1. discriminate.
  - apply IH. exact H2.
Qed.

(* every pair of a is found reversed in b *)
Definition inv_ok (a b : list (list Z * list Z)) : bool :=
  forallb (fun p => match assoc (snd p) b with Some x => list_Z_eqb (fst p) x | None => false end) a.

Lemma inv_ok_spec a b : inv_ok a b = true -> forall x y, assoc x a = Some y -> assoc y b = Some x.
Proof.
  intros H x y Hxy. apply assoc_In in Hxy.
  unfold inv_ok in H. rewrite forallb_forall in H. specialize (H _ Hxy). simpl in H.
  destruct (assoc y b) as [x'|]; [|discriminate]. apply list_Z_eqb_eq in H. subst. reflexivity.
Qed.

Definition bijective_tables (tkw kw : list (list Z * list Z)) : Prop :=
  NoDup (map fst tkw) /\ NoDup (map snd tkw) /\ NoDup (map fst kw) /\ NoDup (map snd kw) /\
  (forall t k, assoc t tkw = Some k -> assoc k kw = Some t) /\
  (forall k t, assoc k kw = Some t -> assoc t tkw = Some k) /\
  length tkw = length kw.

Definition bijective_tablesb (tkw kw : list (list Z * list Z)) : bool :=
  nodupb (map fst tkw) && nodupb (map snd tkw) && nodupb (map fst kw) && nodupb (map snd kw)
  && inv_ok tkw kw && inv_ok kw tkw && Nat.eqb (length tkw) (length kw).

Lemma bijective_tablesb_sound tkw kw : bijective_tablesb tkw kw = true -> bijective_tables tkw kw.
Proof.
  unfold bijective_tablesb, bijective_tables. intro H.
  repeat (apply andb_true_iff in H as [H ?]).
  repeat split; try (apply nodupb_NoDup; assumption).
  - apply inv_ok_spec. assumption.
  - apply inv_ok_spec. assumption.
  - apply Nat.eqb_eq. assumption.
Qed.

(* ---- finite range sweeps lifted to forall ---- *)
Fixpoint zrange (lo : Z) (n : nat) : list Z :=
  match n with O => [] | S k => lo :: zrange (lo + 1) k end.

Lemma zrange_In lo n x : lo <= x < lo + Z.of_nat n -> In x (zrange lo n).
Proof.
  revert lo. induction n as [|n IH]; intros lo H; simpl.
  - lia.
  - destruct (Z.eq_dec lo x) as [E|E]; [left; exact E|]. right. apply IH. lia.
Qed.

Lemma range_forall (P : Z -> bool) lo n :
  forallb P (zrange lo n) = true -> forall x, lo <= x < lo + Z.of_nat n -> P x = true.
Proof.
  intros H x Hx. rewrite forallb_forall in H. apply H. apply zrange_In. exact Hx.
Qed.

(* ---- byte classes ---- *)
Lemma upper_idem c : upper (upper c) = upper c.
Proof.
  unfold upper. destruct ((97 <=? c) && (c <=? 122)) eqn:E.
  - apply andb_true_iff in E as [E1 E2]. apply Z.leb_le in E1. apply Z.leb_le in E2.
    replace ((97 <=? c - 32) && (c - 32 <=? 122)) with false; [reflexivity|].
    symmetry. apply andb_false_iff. left. apply Z.leb_gt. lia.
  - rewrite E. reflexivity.
Qed.

Lemma upper_cases c : (97 <= c <= 122 /\ upper c = c - 32) \/ (~ (97 <= c <= 122) /\ upper c = c).
Proof.
  unfold upper. destruct ((97 <=? c) && (c <=? 122)) eqn:E.
  - apply andb_true_iff in E as [E1 E2]. apply Z.leb_le in E1. apply Z.leb_le in E2. left. lia.
  - right. split; [|reflexivity]. apply andb_false_iff in E as [E|E]; apply Z.leb_gt in E; lia.
Qed.

Lemma class_upper (P : Z -> bool) :
  forallb (fun c => Bool.eqb (P (c - 32)) (P c)) (zrange 97 26) = true ->
  forall c, P (upper c) = P c.
Proof.
  intros H c. destruct (upper_cases c) as [[R E]|[R E]]; rewrite E; [|reflexivity].
  pose proof (range_forall _ _ _ H c) as H1. simpl in H1.
  apply eqb_prop. apply H1. lia.
Qed.

Lemma is_name_char_upper c : is_name_char (upper c) = is_name_char c.
Proof. apply class_upper. vm_compute. reflexivity. Qed.

Lemma is_letter_upper c : is_letter (upper c) = is_letter c.
Proof. apply class_upper. vm_compute. reflexivity. Qed.

Lemma upper_eq_low c x : x < 65 -> (upper c =? x) = (c =? x).
Proof.
  intro Hx. destruct (upper_cases c) as [[R E]|[R E]]; rewrite E; [|reflexivity].
  replace (c - 32 =? x) with false by (symmetry; apply Z.eqb_neq; lia).
  symmetry; apply Z.eqb_neq; lia.
Qed.
