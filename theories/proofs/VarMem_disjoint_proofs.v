(* C11: address ranges of all scalars and array elements are pairwise disjoint and inside the variable area *)
From Coq Require Import ZArith List Bool Lia.
From PCB Require Import lib.Result lib.PyInt lib.Harness lib.ArraysLib gen.Gen_arrays model.Arrays model.VarMem.
From PCB Require Import proofs.Arrays_index_proofs proofs.Arrays_list_proofs proofs.Arrays_proofs
  proofs.VarMem_proofs proofs.VarMem_peek_proofs.
Import ListNotations.
Open Scope Z_scope.

(* a storage cell: scalar n (idx = []) or element idx of array n, at address p with z bytes;
   the address is the one VARPTR computes *)
Inductive cell_at (st : vstate) : list Z -> list Z -> Z -> Z -> Prop :=
| cell_scalar n s : slookup (v_svars st) n = Some s -> cell_at st n [] (s_vptr s) (size_bytes n)
| cell_elem n a idx p : lookup (a_list (v_arr st)) n = Some a ->
    in_bounds (base_of (v_arr st)) (a_dims a) idx -> varptr st n idx = Ok p ->
    cell_at st n idx p (size_bytes n).

Lemma slaid_disjoint : forall l p, Forall svar_ok l -> slaid p l -> forall x y, In x l -> In y l -> x <> y ->
  s_nptr x + ssize x <= s_nptr y \/ s_nptr y + ssize y <= s_nptr x.
Proof.
  induction l as [|s l IH]; intros p F L x y Hx Hy Hne; [contradiction|].
  inversion F as [|? ? Hs F']; subst. destruct L as [L1 L2].
  destruct Hx as [Hx|Hx], Hy as [Hy|Hy]; subst.
  - contradiction.
  - left. destruct (slaid_bounds _ _ F' L2 y Hy). lia.
  - right. destruct (slaid_bounds _ _ F' L2 x Hx). lia.
  - eapply IH; eauto.
Qed.

Lemma laid_out_disjoint b : forall l p, Forall (arr_ok b) l -> laid_out b p l ->
  forall x y, In x l -> In y l -> x <> y ->
  a_nptr x + msize b x <= a_nptr y \/ a_nptr y + msize b y <= a_nptr x.
Proof.
  induction l as [|s l IH]; intros p F L x y Hx Hy Hne; [contradiction|].
  inversion F as [|? ? Hs F']; subst. destruct L as [L1 L2].
  destruct Hx as [Hx|Hx], Hy as [Hy|Hy]; subst.
  - contradiction.
  - left. destruct (laid_out_bounds _ _ _ F' L2 y Hy). lia.
  - right. destruct (laid_out_bounds _ _ _ F' L2 x Hx). lia.
  - eapply IH; eauto.
Qed.

(* where a cell lies *)
Lemma cell_scalar_range st n s : VInv st -> slookup (v_svars st) n = Some s ->
  s_nptr s < s_vptr s /\ s_vptr s + size_bytes n = s_nptr s + ssize s /\ 0 < size_bytes n /\
  v_start st <= s_nptr s /\ s_nptr s + ssize s <= var_current st.
Proof.
  intros V Ls. destruct (slookup_some _ _ _ Ls) as [Hin Hn].
  pose proof (vi_ok st V) as F. rewrite Forall_forall in F. destruct (F s Hin) as (Hs & Hl & Hb & Hp).
  destruct (scalar_in_area st s V Hin). pose proof (ssize_pos s (F s Hin)) as [_ R].
  pose proof (size_bytes_pos _ Hs). rewrite ssize_eq, Hn in *. repeat split; lia.
Qed.

Lemma cell_elem_range st n a idx p : VInv st -> lookup (a_list (v_arr st)) n = Some a ->
  in_bounds (base_of (v_arr st)) (a_dims a) idx -> varptr st n idx = Ok p ->
  let b := base_of (v_arr st) in let k := index_spec b idx (a_dims a) in
  p = var_current st + a_aptr a + k * size_bytes n /\ 0 <= k < radix_prod b (a_dims a) /\
  0 < size_bytes n /\ a_aptr a = a_nptr a + arrays_record_size n (a_dims a) /\
  msize b a = arrays_record_size n (a_dims a) + radix_prod b (a_dims a) * size_bytes n /\
  0 <= a_nptr a /\ a_nptr a + msize b a <= a_cur (v_arr st).
Proof.
  intros V La Hin Hp b k. rewrite (varptr_elem st n a idx V La Hin) in Hp. inversion Hp; subst p.
  destruct (lookup_some _ _ _ La) as [Ha Hn]. pose proof (vi_arr st V) as A.
  assert (Hok : arr_ok b a) by (eapply Forall_forall; [apply inv_arrs, A | exact Ha]).
  destruct (arr_ok_elem b a idx (inv_base _ A) Hok Hin) as (Hk & Hs & Hlen).
  destruct Hok as (_ & _ & _ & _ & _ & Hap). destruct (array_in_area st a V Ha).
  unfold elem_lo, msize in *. subst b k. rewrite Hn in *. repeat split; auto; lia.
Qed.

Theorem cells_inside st n idx p z : VInv st -> cell_at st n idx p z ->
  0 < z /\ v_start st <= p /\ p + z <= var_current st + a_cur (v_arr st).
Proof.
  intros V C. pose proof (vi_arr st V) as A. pose proof (total_nonneg _ _ (inv_arrs _ A)) as T.
  rewrite <- (inv_cur _ A) in T.
  destruct C as [n s Ls | n a idx p La Hin Hp].
  - destruct (cell_scalar_range st n s V Ls) as (H1 & H2 & H3 & H4 & H5). lia.
  - destruct (cell_elem_range st n a idx p V La Hin Hp) as (H1 & H2 & H3 & H4 & H5 & H6 & H7).
    pose proof (arrays_record_size_pos n (a_dims a)). pose proof (vi_start st V).
    pose proof (stotal_nonneg _ (vi_ok st V)) as T2. rewrite <- (vi_cur st V) in T2.
    unfold var_current in *. split; [assumption|]. split; nia.
Qed.

Theorem cells_disjoint st n1 i1 p1 z1 n2 i2 p2 z2 : VInv st ->
  cell_at st n1 i1 p1 z1 -> cell_at st n2 i2 p2 z2 -> (n1, i1) <> (n2, i2) ->
  p1 + z1 <= p2 \/ p2 + z2 <= p1.
Proof.
  intros V C1 C2 Hne. pose proof (vi_arr st V) as A.
  destruct C1 as [n1 s1 L1 | n1 a1 i1 p1 L1 H1 P1]; destruct C2 as [n2 s2 L2 | n2 a2 i2 p2 L2 H2 P2].
  - (* two scalars *)
    destruct (cell_scalar_range st n1 s1 V L1) as (A1 & A2 & A3 & A4 & A5).
    destruct (cell_scalar_range st n2 s2 V L2) as (B1 & B2 & B3 & B4 & B5).
    destruct (slookup_some _ _ _ L1) as [I1 N1]. destruct (slookup_some _ _ _ L2) as [I2 N2].
    assert (s1 <> s2) by (intros C; subst; apply Hne; reflexivity).
    destruct (slaid_disjoint _ _ (vi_ok st V) (vi_laid st V) s1 s2 I1 I2 H); lia.
  - (* scalar below the array area *)
    destruct (cell_scalar_range st n1 s1 V L1) as (A1 & A2 & A3 & A4 & A5).
    destruct (cell_elem_range st n2 a2 i2 p2 V L2 H2 P2) as (B1 & B2 & B3 & B4 & B5 & B6 & B7).
    pose proof (arrays_record_size_pos n2 (a_dims a2)). left. nia.
  - destruct (cell_scalar_range st n2 s2 V L2) as (A1 & A2 & A3 & A4 & A5).
    destruct (cell_elem_range st n1 a1 i1 p1 V L1 H1 P1) as (B1 & B2 & B3 & B4 & B5 & B6 & B7).
    pose proof (arrays_record_size_pos n1 (a_dims a1)). right. nia.
  - destruct (cell_elem_range st n1 a1 i1 p1 V L1 H1 P1) as (B1 & B2 & B3 & B4 & B5 & B6 & B7).
    destruct (cell_elem_range st n2 a2 i2 p2 V L2 H2 P2) as (C1 & C2 & C3 & C4 & C5 & C6 & C7).
    destruct (list_eq_dec Z.eq_dec n1 n2) as [E|E].
    + (* same array: distinct tuples have distinct flat indices *)
      subst n2. rewrite L1 in L2. inversion L2; subst a2.
      assert (i1 <> i2) by (intros C; subst; apply Hne; reflexivity).
      assert (index_spec (base_of (v_arr st)) i1 (a_dims a1) <> index_spec (base_of (v_arr st)) i2 (a_dims a1))
        by (intros C; apply H; eapply index_spec_injective; eauto).
      nia.
    + (* different arrays: disjoint records *)
      destruct (lookup_some _ _ _ L1) as [I1 N1]. destruct (lookup_some _ _ _ L2) as [I2 N2].
      assert (a1 <> a2) by (intros C; subst; congruence).
      pose proof (arrays_record_size_pos n1 (a_dims a1)). pose proof (arrays_record_size_pos n2 (a_dims a2)).
      destruct (laid_out_disjoint _ _ _ (inv_arrs _ A) (inv_layout _ A) a1 a2 I1 I2 H); [left | right]; nia.
Qed.
