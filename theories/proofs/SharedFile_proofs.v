(* C25/C26 combined: proofs about model/SharedFile.v *)
From Coq Require Import ZArith List Bool Lia ZifyBool.
From PCB Require Import lib.Result lib.PyInt gen.Gen_locks model.Locks model.RandomFile model.SharedFile
  proofs.Locks_proofs proofs.RandomFile_proofs proofs.SharedFrame_proofs.
Import ListNotations.
Open Scope Z_scope.

(* ------------------------------------------------------------------------------------------------
   3. what an accepted PUT / GET through one file number does to the file that all numbers share *)
Theorem shared_put cs n pos st' this h p :
  getput_stmt true (c_st cs) n pos = (st', Ok tt) ->
  find n (st_files (c_st cs)) = Some this -> aget n (c_h cs) = Some h -> check_pos pos = Ok p ->
  let L := h_reclen h in let k := target p (lp_recpos this) in let nm := lp_name this in
  1 <= L -> 1 <= k -> L <= zlen (buf_of n cs) ->
  let cs' := fst (cstep cs (CPut n pos)) in
  bytes_of nm cs' = s_bytes (s_write (ztake L (buf_of n cs)) (mkStream (bytes_of nm cs) ((k - 1) * L))) /\
  (forall nm', nm' <> nm -> bytes_of nm' cs' = bytes_of nm' cs) /\
  c_bufs cs' = c_bufs cs /\ c_st cs' = st' /\ snd (cstep cs (CPut n pos)) = Ok [].
Proof.
  intros Hs Hf Hh Hc L k nm HL Hk Hb cs'. subst cs'. cbn [cstep]. unfold getput_c. rewrite Hs, Hf, Hh, Hc.
  cbn [fst snd]. unfold do_put. cbn [c_bytes c_bufs c_st].
  destruct (put_spec p (rfile_of cs this h) (buf_of n cs)) as [Pb _]; cbn [rfile_of rf_reclen rf_recpos];
    [fold L; lia | fold k; exact Hk |].
  cbn [rfile_of rf_reclen rf_recpos rf_stream s_bytes] in Pb. fold L k nm in Pb.
  split; [|split; [|split; [reflexivity|split; reflexivity]]].
  - unfold bytes_of at 1. cbn [c_bytes]. fold nm. rewrite aget_aset_same. exact Pb.
  - intros nm' Hne. unfold bytes_of. cbn [c_bytes]. fold nm. rewrite aget_aset_other by assumption. reflexivity.
Qed.

Theorem shared_get cs n pos st' this h p :
  getput_stmt false (c_st cs) n pos = (st', Ok tt) ->
  find n (st_files (c_st cs)) = Some this -> aget n (c_h cs) = Some h -> check_pos pos = Ok p ->
  let L := h_reclen h in let k := target p (lp_recpos this) in let nm := lp_name this in
  0 <= L -> 1 <= k -> L <= zlen (buf_of n cs) ->
  snd (cstep cs (CGet n pos)) = Ok (view (bytes_of nm cs) L k) /\
  c_bytes (fst (cstep cs (CGet n pos))) = c_bytes cs.
Proof.
  intros Hs Hf Hh Hc L k nm HL Hk Hb. cbn [cstep]. unfold getput_c. rewrite Hs, Hf, Hh, Hc.
  unfold do_get.
  pose proof (get_spec p (rfile_of cs this h) (buf_of n cs)) as G. cbv zeta in G.
  cbn [rfile_of rf_reclen rf_recpos rf_stream s_bytes] in G. fold L k nm in G.
  destruct (rf_get p (rfile_of cs this h) (buf_of n cs)) as [f' buf'].
  destruct G as [_ [_ [_ [_ Gbuf]]]]; try assumption.
  cbn [fst snd c_bytes]. split; [|reflexivity]. fold L. rewrite Gbuf. f_equal.
  apply ztake_app_len. apply view_len. exact HL.
Qed.

(* the record PUT through one number is what a GET of the same record through another number (same record
   length) returns next *)
Theorem put_visible_through_other_number cs n1 pos1 st1 this1 h1 k n2 pos2 st2 this2 h2 :
  getput_stmt true (c_st cs) n1 pos1 = (st1, Ok tt) ->
  find n1 (st_files (c_st cs)) = Some this1 -> aget n1 (c_h cs) = Some h1 -> check_pos pos1 = Ok (Some k) ->
  1 <= h_reclen h1 <= zlen (buf_of n1 cs) -> 1 <= k ->
  let cs1 := fst (cstep cs (CPut n1 pos1)) in
  getput_stmt false (c_st cs1) n2 pos2 = (st2, Ok tt) ->
  find n2 (st_files (c_st cs1)) = Some this2 -> aget n2 (c_h cs1) = Some h2 -> check_pos pos2 = Ok (Some k) ->
  lp_name this2 = lp_name this1 -> h_reclen h2 = h_reclen h1 -> h_reclen h2 <= zlen (buf_of n2 cs1) ->
  snd (cstep cs1 (CGet n2 pos2)) = Ok (ztake (h_reclen h1) (buf_of n1 cs)).
Proof.
  intros Hs1 Hf1 Hh1 Hc1 HL Hk cs1 Hs2 Hf2 Hh2 Hc2 Hnm HLL Hb2.
  destruct (shared_put cs n1 pos1 st1 this1 h1 (Some k) Hs1 Hf1 Hh1 Hc1) as [Pb _];
    [simpl; lia | simpl; lia | simpl; lia |].
  fold cs1 in Pb. cbn [target] in Pb.
  destruct (shared_get cs1 n2 pos2 st2 this2 h2 (Some k) Hs2 Hf2 Hh2 Hc2) as [G _];
    [simpl; lia | simpl; lia | simpl; lia |].
  rewrite G. cbn [target]. rewrite Hnm, HLL, Pb. f_equal.
  apply write_view_same; try lia. rewrite zlen_ztake. lia.
Qed.
