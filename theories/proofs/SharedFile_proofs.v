(* C25/C26 combined: proofs about model/SharedFile.v *)
From Coq Require Import ZArith List Bool Lia ZifyBool.
From PCB Require Import lib.Result lib.PyInt gen.Gen_locks model.Locks model.RandomFile model.SharedFile
  proofs.Locks_proofs proofs.RandomFile_proofs.
Import ListNotations.
Open Scope Z_scope.

Lemma aget_aset_same {A} k (v : A) l : aget k (aset k v l) = Some v.
Proof.
  induction l as [|[j w] r IH]; simpl; [rewrite Z.eqb_refl; reflexivity|].
  destruct (j =? k) eqn:E; simpl; rewrite E; [reflexivity | exact IH].
Qed.
Lemma aget_aset_other {A} k k' (v : A) l : k' <> k -> aget k' (aset k v l) = aget k' l.
Proof.
  intro H. induction l as [|[j w] r IH]; simpl.
  - replace (k =? k') with false by lia. reflexivity.
  - destruct (j =? k) eqn:E; simpl.
    + apply Z.eqb_eq in E. subst j. replace (k =? k') with false by lia. reflexivity.
    + destruct (j =? k'); [reflexivity | exact IH].
Qed.

(* ------------------------------------------------------------------------------------------------
   1. frame: a GET/PUT that is refused (lock, ACCESS/LOCK clause, bad record number, bad file number...)
      leaves every file, every FIELD buffer and every stream position as they were *)
Lemma refused_access_frame put cs n pos :
  snd (getput_stmt put (c_st cs) n pos) <> Ok tt ->
  let cs' := fst (getput_c put cs n pos) in
  c_bytes cs' = c_bytes cs /\ c_bufs cs' = c_bufs cs /\ c_h cs' = c_h cs /\
  c_st cs' = fst (getput_stmt put (c_st cs) n pos) /\
  (forall l, snd (getput_c put cs n pos) <> Ok l).
Proof.
  intro H. unfold getput_c. destruct (getput_stmt put (c_st cs) n pos) as [st' r]. simpl in H.
  destruct r as [[]|e|x|]; try contradiction; simpl; repeat split; intros l Hl; discriminate Hl.
Qed.

(* with C26_access_denied: the record is locked through another file number -> nothing changes *)
Theorem locked_record_frame put cs n pos this p m e2 r2 :
  0 < n <= 255 -> find n (st_files (c_st cs)) = Some this -> lp_mode this = MR -> check_pos pos = Ok p ->
  NoDup (map fst (st_files (c_st cs))) ->
  In (m, e2) (st_files (c_st cs)) -> m <> n -> lp_name e2 = lp_name this -> In r2 (lp_set e2) ->
  in_range (accessed_record this p) r2 -> (is_oa (lp_mode e2) && negb put) = false ->
  let cs' := fst (cstep cs (if put then CPut n pos else CGet n pos)) in
  c_bytes cs' = c_bytes cs /\ c_bufs cs' = c_bufs cs /\ c_h cs' = c_h cs /\
  (snd (cstep cs (if put then CPut n pos else CGet n pos)) = Err locks_err_PERMISSION_DENIED \/
   snd (cstep cs (if put then CPut n pos else CGet n pos)) = Err locks_err_PATH_FILE_ACCESS_ERROR).
Proof.
  intros Hn Hf Hm Hp Hnd Hin Hne Hnm Hr2 Hk Hoa.
  pose proof (getput_locked_record_fails put (c_st cs) n pos this p m e2 r2 Hn Hf Hm Hp Hnd Hin Hne Hnm Hr2 Hk Hoa)
    as Hden.
  assert (Hno : snd (getput_stmt put (c_st cs) n pos) <> Ok tt) by (destruct Hden as [E|E]; rewrite E; discriminate).
  destruct (refused_access_frame put cs n pos Hno) as [A [B [C _]]].
  assert (Hstep : cstep cs (if put then CPut n pos else CGet n pos) = getput_c put cs n pos) by (destruct put; reflexivity).
  rewrite Hstep. split; [exact A|]. split; [exact B|]. split; [exact C|].
  unfold getput_c. destruct (getput_stmt put (c_st cs) n pos) as [st' r]. simpl in Hden.
  destruct Hden as [E|E]; subst r; simpl; auto.
Qed.

(* ------------------------------------------------------------------------------------------------
   2. CLOSE releases the locks held through the number, and only those *)
Theorem close_releases cs n : 0 <= n <= 255 ->
  let fs' := st_files (c_st (fst (cstep cs (CClose n)))) in
  (forall nm r, ~ held fs' nm n r) /\
  (forall nm m r, m <> n -> (held fs' nm m r <-> held (st_files (c_st cs)) nm m r)) /\
  find n fs' = None.
Proof.
  intros Hn. unfold cstep, close_stmt. replace ((n <? 0) || (255 <? n)) with false by lia. simpl.
  unfold remove_entry. repeat split.
  - intros nm r [e [Hin _]]. apply filter_In in Hin as [_ Hc]. simpl in Hc.
    rewrite Z.eqb_refl in Hc. discriminate.
  - intros [e [Hin Hr]]. apply filter_In in Hin as [Hin _]. exists e. auto.
  - intros [e [Hin Hr]]. exists e. split; [|exact Hr]. apply filter_In. split; [exact Hin|]. simpl.
    apply negb_true_iff. apply Z.eqb_neq. assumption.
  - induction (st_files (c_st cs)) as [|[k e] r IH]; simpl; [reflexivity|].
    destruct (k =? n) eqn:E; simpl; [exact IH | rewrite E; exact IH].
Qed.

(* ------------------------------------------------------------------------------------------------
   3. what an accepted PUT / GET through one file number does to the file that all numbers share *)
Theorem shared_put cs n pos st' this h p :
  getput_stmt true (c_st cs) n pos = (st', Ok tt) ->
  find n (st_files (c_st cs)) = Some this -> aget n (c_h cs) = Some h -> check_pos pos = Ok p ->
  let L := h_reclen h in let k := target p (lp_recpos this) in let nm := lp_name this in
  1 <= L -> 1 <= k -> L <= zlen (buf_of n cs) ->
  let cs' := fst (cstep cs (CPut n pos)) in
  bytes_of nm cs' = s_bytes (s_write (ztake L (buf_of n cs)) (mkStream (bytes_of nm cs) ((k - 1) * L))) /\
  (forall nm', nm' <> nm -> bytes_of nm' cs' = bytes_of nm' cs) /\
  c_bufs cs' = c_bufs cs /\ c_st cs' = st' /\ snd (cstep cs (CPut n pos)) = Ok [].
Proof.
  intros Hs Hf Hh Hc L k nm HL Hk Hb cs'. subst cs'. cbn [cstep]. unfold getput_c. rewrite Hs, Hf, Hh, Hc.
  cbn [fst snd]. unfold do_put. cbn [c_bytes c_bufs c_st].
  destruct (put_spec p (rfile_of cs this h) (buf_of n cs)) as [Pb _]; cbn [rfile_of rf_reclen rf_recpos];
    [fold L; lia | fold k; exact Hk |].
  cbn [rfile_of rf_reclen rf_recpos rf_stream s_bytes] in Pb. fold L k nm in Pb.
  split; [|split; [|split; [reflexivity|split; reflexivity]]].
  - unfold bytes_of at 1. cbn [c_bytes]. fold nm. rewrite aget_aset_same. exact Pb.
  - intros nm' Hne. unfold bytes_of. cbn [c_bytes]. fold nm. rewrite aget_aset_other by assumption. reflexivity.
Qed.

Theorem shared_get cs n pos st' this h p :
  getput_stmt false (c_st cs) n pos = (st', Ok tt) ->
  find n (st_files (c_st cs)) = Some this -> aget n (c_h cs) = Some h -> check_pos pos = Ok p ->
  let L := h_reclen h in let k := target p (lp_recpos this) in let nm := lp_name this in
  0 <= L -> 1 <= k -> L <= zlen (buf_of n cs) ->
  snd (cstep cs (CGet n pos)) = Ok (view (bytes_of nm cs) L k) /\
  c_bytes (fst (cstep cs (CGet n pos))) = c_bytes cs.
Proof.
  intros Hs Hf Hh Hc L k nm HL Hk Hb. cbn [cstep]. unfold getput_c. rewrite Hs, Hf, Hh, Hc.
  unfold do_get.
  pose proof (get_spec p (rfile_of cs this h) (buf_of n cs)) as G. cbv zeta in G.
  cbn [rfile_of rf_reclen rf_recpos rf_stream s_bytes] in G. fold L k nm in G.
  destruct (rf_get p (rfile_of cs this h) (buf_of n cs)) as [f' buf'].
  destruct G as [_ [_ [_ [_ Gbuf]]]]; try assumption.
  cbn [fst snd c_bytes]. split; [|reflexivity]. fold L. rewrite Gbuf. f_equal.
  apply ztake_app_len. apply view_len. exact HL.
Qed.

(* the record PUT through one number is what a GET of the same record through another number (same record
   length) returns next *)
Theorem put_visible_through_other_number cs n1 pos1 st1 this1 h1 k n2 pos2 st2 this2 h2 :
  getput_stmt true (c_st cs) n1 pos1 = (st1, Ok tt) ->
  find n1 (st_files (c_st cs)) = Some this1 -> aget n1 (c_h cs) = Some h1 -> check_pos pos1 = Ok (Some k) ->
  1 <= h_reclen h1 <= zlen (buf_of n1 cs) -> 1 <= k ->
  let cs1 := fst (cstep cs (CPut n1 pos1)) in
  getput_stmt false (c_st cs1) n2 pos2 = (st2, Ok tt) ->
  find n2 (st_files (c_st cs1)) = Some this2 -> aget n2 (c_h cs1) = Some h2 -> check_pos pos2 = Ok (Some k) ->
  lp_name this2 = lp_name this1 -> h_reclen h2 = h_reclen h1 -> h_reclen h2 <= zlen (buf_of n2 cs1) ->
  snd (cstep cs1 (CGet n2 pos2)) = Ok (ztake (h_reclen h1) (buf_of n1 cs)).
Proof.
  intros Hs1 Hf1 Hh1 Hc1 HL Hk cs1 Hs2 Hf2 Hh2 Hc2 Hnm HLL Hb2.
  destruct (shared_put cs n1 pos1 st1 this1 h1 (Some k) Hs1 Hf1 Hh1 Hc1) as [Pb _];
    [simpl; lia | simpl; lia | simpl; lia |].
  fold cs1 in Pb. cbn [target] in Pb.
  destruct (shared_get cs1 n2 pos2 st2 this2 h2 (Some k) Hs2 Hf2 Hh2 Hc2) as [G _];
    [simpl; lia | simpl; lia | simpl; lia |].
  rewrite G. cbn [target]. rewrite Hnm, HLL, Pb. f_equal.
  apply write_view_same; try lia. rewrite zlen_ztake. lia.
Qed.
