(* C26 + C25 combined: frame and CLOSE theorems about model/SharedFile.v (independent of the RandomFile proofs) *)
From Coq Require Import ZArith List Bool Lia ZifyBool.
From PCB Require Import lib.Result lib.PyInt gen.Gen_locks model.Locks model.RandomFile model.SharedFile
  proofs.Locks_proofs.
Import ListNotations.
Open Scope Z_scope.

Lemma aget_aset_same {A} k (v : A) l : aget k (aset k v l) = Some v.
Proof.
  induction l as [|[j w] r IH]; simpl; [rewrite Z.eqb_refl; reflexivity|].
  destruct (j =? k) eqn:E; simpl; rewrite E; [reflexivity | exact IH].
Qed.
Lemma aget_aset_other {A} k k' (v : A) l : k' <> k -> aget k' (aset k v l) = aget k' l.
Proof.
  intro H. induction l as [|[j w] r IH]; simpl.
  - replace (k =? k') with false by lia. reflexivity.
  - destruct (j =? k) eqn:E; simpl.
    + apply Z.eqb_eq in E. subst j. replace (k =? k') with false by lia. reflexivity.
    + destruct (j =? k'); [reflexivity | exact IH].
Qed.

(* ------------------------------------------------------------------------------------------------
   1. frame: a GET/PUT that is refused (lock, ACCESS/LOCK clause, bad record number, bad file number...)
      leaves every file, every FIELD buffer and every stream position as they were *)
Lemma refused_access_frame put cs n pos :
  snd (getput_stmt put (c_st cs) n pos) <> Ok tt ->
  let cs' := fst (getput_c put cs n pos) in
  c_bytes cs' = c_bytes cs /\ c_bufs cs' = c_bufs cs /\ c_h cs' = c_h cs /\
  c_st cs' = fst (getput_stmt put (c_st cs) n pos) /\
  (forall l, snd (getput_c put cs n pos) <> Ok l).
Proof.
  intro H. unfold getput_c. destruct (getput_stmt put (c_st cs) n pos) as [st' r]. simpl in H.
  destruct r as [[]|e|x|]; try contradiction; simpl; repeat split; intros l Hl; discriminate Hl.
Qed.

(* with C26_access_denied: the record is locked through another file number -> nothing changes *)
Theorem locked_record_frame put cs n pos this p m e2 r2 :
  0 < n <= 255 -> find n (st_files (c_st cs)) = Some this -> lp_mode this = MR -> check_pos pos = Ok p ->
  NoDup (map fst (st_files (c_st cs))) ->
  In (m, e2) (st_files (c_st cs)) -> m <> n -> lp_name e2 = lp_name this -> In r2 (lp_set e2) ->
  in_range (accessed_record this p) r2 -> (is_oa (lp_mode e2) && negb put) = false ->
  let cs' := fst (cstep cs (if put then CPut n pos else CGet n pos)) in
  c_bytes cs' = c_bytes cs /\ c_bufs cs' = c_bufs cs /\ c_h cs' = c_h cs /\
  (snd (cstep cs (if put then CPut n pos else CGet n pos)) = Err locks_err_PERMISSION_DENIED \/
   snd (cstep cs (if put then CPut n pos else CGet n pos)) = Err locks_err_PATH_FILE_ACCESS_ERROR).
Proof.
  intros Hn Hf Hm Hp Hnd Hin Hne Hnm Hr2 Hk Hoa.
  pose proof (getput_locked_record_fails put (c_st cs) n pos this p m e2 r2 Hn Hf Hm Hp Hnd Hin Hne Hnm Hr2 Hk Hoa)
    as Hden.
  assert (Hno : snd (getput_stmt put (c_st cs) n pos) <> Ok tt) by (destruct Hden as [E|E]; rewrite E; discriminate).
  destruct (refused_access_frame put cs n pos Hno) as [A [B [C _]]].
  assert (Hstep : cstep cs (if put then CPut n pos else CGet n pos) = getput_c put cs n pos) by (destruct put; reflexivity).
  rewrite Hstep. split; [exact A|]. split; [exact B|]. split; [exact C|].
  unfold getput_c. destruct (getput_stmt put (c_st cs) n pos) as [st' r]. simpl in Hden.
  destruct Hden as [E|E]; subst r; simpl; auto.
Qed.

(* ------------------------------------------------------------------------------------------------
   2. CLOSE releases the locks held through the number, and only those *)
Theorem close_releases cs n : 0 <= n <= 255 ->
  let fs' := st_files (c_st (fst (cstep cs (CClose n)))) in
  (forall nm r, ~ held fs' nm n r) /\
  (forall nm m r, m <> n -> (held fs' nm m r <-> held (st_files (c_st cs)) nm m r)) /\
  find n fs' = None.
Proof.
  intros Hn. unfold cstep, close_stmt. replace ((n <? 0) || (255 <? n)) with false by lia. simpl.
  unfold remove_entry. repeat split.
  - intros nm r [e [Hin _]]. apply filter_In in Hin as [_ Hc]. simpl in Hc.
    rewrite Z.eqb_refl in Hc. discriminate.
  - intros [e [Hin Hr]]. apply filter_In in Hin as [Hin _]. exists e. auto.
  - intros [e [Hin Hr]]. exists e. split; [|exact Hr]. apply filter_In. split; [exact Hin|]. simpl.
    apply negb_true_iff. apply Z.eqb_neq. assumption.
  - induction (st_files (c_st cs)) as [|[k e] r IH]; simpl; [reflexivity|].
    destruct (k =? n) eqn:E; simpl; [exact IH | rewrite E; exact IH].
Qed.

