From Coq Require Import ZArith List Bool Lia.
From PCB Require Import lib.PyInt model.TextStream.
Import ListNotations.
Open Scope Z_scope.

Theorem field_roundtrip_id s : field_roundtrip s = s.
Proof. destruct s. reflexivity. Qed.

Theorem field_roundtrip_pending s :
  pending (field_roundtrip s) = pending s /\ logical_pos (field_roundtrip s) = logical_pos s.
Proof. rewrite field_roundtrip_id. split; reflexivity. Qed.

(* whenever read-ahead characters are held (and they came from the stream, so pos >= their number), pickling the
   logical position instead delivers them twice *)
Theorem logical_variant_duplicates buf pos ra : (length ra <= pos)%nat ->
  skipn (pos - length ra) buf = ra ++ skipn pos buf ->
  pending (field_setstate buf (field_getstate_logical (TS buf pos ra))) = ra ++ pending (TS buf pos ra).
Proof. intros _ H. unfold pending, field_setstate, field_getstate_logical. cbn. rewrite H. reflexivity. Qed.
