(* Decimal_parse.v - the character loop of numbers.str_to_decimal (model/Decimal.v `run`) computes the
   declarative reading of a text as a decimal literal: mantissa digits, decimal exponent, significant
   digits and the documented type rule - for ALL lists of characters. *)
From Coq Require Import ZArith List Bool Lia ZifyBool.
From PCB Require Import lib.Result lib.PyInt lib.Harness lib.MBFPrims gen.Gen_mbf gen.Gen_dec model.MBF
  model.Decimal.
Import ListNotations.
Open Scope Z_scope.

(* ------------------------------------------------------------------------------------------------ *)
(* character classes *)

Lemma blank_cases c : is_blank c = (c =? 32) || (c =? 9) || (c =? 10).
Proof. unfold is_blank, mem, dec_BLANKS. cbn. rewrite orb_false_r, orb_assoc. reflexivity. Qed.
Lemma sep_cases c : is_sep c = (c =? 28) || (c =? 29) || (c =? 31).
Proof. unfold is_sep, mem, dec_SEPARATORS. cbn. rewrite orb_false_r, orb_assoc. reflexivity. Qed.

Lemma mant_not_special c : is_mant c = true ->
  is_blank c = false /\ is_sep c = false /\ is_pm c = false.
Proof. rewrite blank_cases, sep_cases. unfold is_mant, is_digit, is_pm. lia. Qed.

Lemma upper_cases c : (upper c =? 68) = ((c =? 68) || (c =? 100)) /\ (upper c =? 69) = ((c =? 69) || (c =? 101)).
Proof. unfold upper. destruct ((97 <=? c) && (c <=? 122)) eqn:E; lia. Qed.

(* ------------------------------------------------------------------------------------------------ *)
(* blanks are ignored throughout *)

Theorem run_ignores_blanks : forall allow w s, run allow s w = run allow s (nonblank w).
Proof.
  intros allow. induction w as [|c w IH]; intros s; [reflexivity|].
  unfold nonblank. cbn [filter]. destruct (is_blank c) eqn:Hb; cbn [negb].
  - cbn [run]. unfold step. rewrite Hb. apply IH.
  - cbn [run]. destruct (step allow s c); try reflexivity. apply IH.
Qed.

Lemma nonblank_free w : forallb (fun c => negb (is_blank c)) (nonblank w) = true.
Proof.
  unfold nonblank. induction w as [|c w IH]; [reflexivity|]. cbn [filter].
  destruct (is_blank c) eqn:E; cbn [negb]; [exact IH|]. cbn [forallb]. rewrite E, IH. reflexivity.
Qed.

(* ------------------------------------------------------------------------------------------------ *)
(* the mantissa phase *)

(* state in the mantissa phase: sign seen, no exponent letter yet *)
Definition mst (neg fp : bool) (e10 m dg zr : Z) : pst :=
  mkP true fp false false false neg e10 0 m dg zr false false.

(* the counters after one more mantissa character *)
Definition macc (a : bool * Z * Z * Z * Z) (c : Z) : bool * Z * Z * Z * Z :=
  let '(fp, e10, m, dg, zr) := a in
  if c =? 46 then (true, e10, m, dg, zr)
  else let m' := m * 10 + (c - 48) in
       (fp, (if fp then e10 - 1 else e10), m',
        (if m' =? 0 then dg else dg + 1),
        (if m' =? 0 then zr else if fp && (c =? 48) then zr + 1 else 0)).

Definition mst_of (neg : bool) (a : bool * Z * Z * Z * Z) : pst :=
  let '(fp, e10, m, dg, zr) := a in mst neg fp e10 m dg zr.

Lemma step_mant allow neg a c : is_mant c = true ->
  step allow (mst_of neg a) c = Continue (mst_of neg (macc a c)).
Proof.
  intros Hc. destruct (mant_not_special c Hc) as (Hb & Hs & Hp).
  destruct a as [[[[fp e10] m] dg] zr]. unfold step, mst_of, mst, macc.
  rewrite Hb, Hs. cbn [p_found_sign p_found_point p_found_exp p_found_exp_sign p_exp_neg p_neg p_exp10
    p_exponent p_mantissa p_digits p_zeros p_is_double p_is_single negb andb].
  unfold is_mant in Hc. destruct (is_digit c) eqn:Hd.
  - assert (c =? 46 = false) by (unfold is_digit in Hd; lia). rewrite H. reflexivity.
  - cbn [orb] in Hc. rewrite Hc. reflexivity.
Qed.

Lemma run_mant allow neg : forall m a rest, forallb is_mant m = true ->
  run allow (mst_of neg a) (m ++ rest) = run allow (mst_of neg (fold_left macc m a)) rest.
Proof.
  induction m as [|c m IH]; intros a rest H; [reflexivity|].
  cbn [forallb] in H. apply andb_prop in H as [Hc Hm].
  cbn [app run fold_left]. rewrite step_mant by exact Hc. apply IH, Hm.
Qed.

(* closed form of the counters *)
Definition zap (x : Z * bool) : bool := (fst x =? 0) && snd x.
Definition has_point (m : list Z) : bool := existsb (Z.eqb 46) m.
Definition mclosed (m : list Z) : bool * Z * Z * Z * Z :=
  (has_point m, mant_scale m, mant_int m, zlen (sig_part m), zlen (takewhile zap (rev (sig_part m)))).

Lemma flag_digits_app : forall m m' p,
  flag_digits p (m ++ m') = flag_digits p m ++ flag_digits (p || has_point m) m'.
Proof.
  induction m as [|c m IH]; intros m' p; cbn [app flag_digits has_point existsb].
  - rewrite orb_false_r. reflexivity.
  - rewrite (Z.eqb_sym 46 c). destruct (c =? 46) eqn:E.
    + rewrite IH. cbn [orb]. rewrite orb_true_r. reflexivity.
    + rewrite IH. cbn [orb app]. reflexivity.
Qed.

Lemma of_digits_snoc b l x : of_digits b (l ++ [x]) = of_digits b l * b + x.
Proof. unfold of_digits. rewrite fold_left_app. reflexivity. Qed.

Lemma dropwhile_snoc {A} (p : A -> bool) l x :
  dropwhile p (l ++ [x]) = match dropwhile p l with [] => if p x then [] else [x] | d => d ++ [x] end.
Proof.
  induction l as [|y l IH]; cbn [app dropwhile]; [reflexivity|].
  destruct (p y); [exact IH | reflexivity].
Qed.

Lemma zlen_snoc {A} (l : list A) x : zlen (l ++ [x]) = zlen l + 1.
Proof. unfold zlen. rewrite app_length. cbn. lia. Qed.

Lemma zlen_cons' {A} (x : A) l : zlen (x :: l) = zlen l + 1.
Proof. unfold zlen. cbn [length]. lia. Qed.

Lemma macc_closed : forall m, forallb is_mant m = true ->
  fold_left macc m (false, 0, 0, 0, 0) = mclosed m /\ 0 <= mant_int m /\
  (mant_int m = 0 <-> sig_part m = []).
Proof.
  induction m as [|c m IH] using rev_ind; intros H.
  - cbn. split; [reflexivity|]. split; [lia|]. split; reflexivity.
  - rewrite forallb_app in H. apply andb_prop in H as [Hm Hc]. cbn [forallb] in Hc. rewrite andb_true_r in Hc.
    destruct (IH Hm) as (IH1 & IH2 & IH3). clear IH.
    rewrite fold_left_app. cbn [fold_left]. rewrite IH1. unfold mclosed, macc.
    unfold mant_int, mant_scale, sig_part, has_point in *.
    rewrite flag_digits_app. cbn [orb]. rewrite existsb_app. cbn [existsb]. rewrite orb_false_r.
    rewrite (Z.eqb_sym 46 c).
    destruct (c =? 46) eqn:E46.
    + cbn [flag_digits]. rewrite E46. cbn [flag_digits]. rewrite !app_nil_r, orb_true_r.
      split; [reflexivity|]. split; assumption.
    + cbn [flag_digits]. rewrite E46. cbn [flag_digits]. rewrite orb_false_r.
      set (fp := existsb (Z.eqb 46) m) in *. set (fd := flag_digits false m) in *.
      assert (Hd : 0 <= c - 48 <= 9) by (unfold is_mant, is_digit in Hc; lia).
      change (has_point m) with fp.
      rewrite map_app. cbn [map fst]. rewrite of_digits_snoc. rewrite filter_app. cbn [filter snd].
      rewrite dropwhile_snoc. cbn [fst].
      set (mi := of_digits 10 (map fst fd)) in *.
      destruct (dropwhile (fun x => fst x =? 0) fd) as [|y sp] eqn:Esp.
      * (* only zeros so far *)
        assert (Hmi : mi = 0) by (apply IH3; reflexivity). rewrite Hmi. cbn [zlen length rev takewhile].
        destruct (Z.eqb_spec (c - 48) 0) as [Hz|Hz].
        -- replace (0 * 10 + (c - 48)) with 0 by lia. change (0 =? 0) with true. cbv iota.
           split; [|split; [lia | split; reflexivity]].
           cbn [rev takewhile].
           destruct fp; rewrite ?zlen_snoc, ?app_nil_r;
             rewrite ?(Z.opp_add_distr (zlen (filter snd fd)) 1); reflexivity.
        -- destruct (Z.eqb_spec (0 * 10 + (c - 48)) 0) as [Hz'|Hz']; [lia|].
           split; [|split; [lia | split; [lia | discriminate]]].
           assert (c =? 48 = false) by lia. rewrite H, andb_false_r.
           cbn [rev app takewhile]. change (zap (c - 48, fp)) with ((c - 48 =? 0) && fp).
           destruct (Z.eqb_spec (c - 48) 0); [lia|]. cbn [andb].
           destruct fp; rewrite ?zlen_snoc, ?app_nil_r;
             rewrite ?(Z.opp_add_distr (zlen (filter snd fd)) 1); reflexivity.
      * (* a non-zero digit was seen *)
        assert (Hmi : mi <> 0) by (intros Hx; apply IH3 in Hx; discriminate).
        destruct (Z.eqb_spec (mi * 10 + (c - 48)) 0) as [Hz'|Hz']; [lia|].
        split; [|split; [lia | split; [lia | destruct sp; discriminate]]].
        set (S0 := y :: sp) in *. rewrite zlen_snoc.
        rewrite rev_app_distr. cbn [rev app takewhile]. change (zap (c - 48, fp)) with ((c - 48 =? 0) && fp).
        assert (Ec : (c - 48 =? 0) = (c =? 48)) by lia. rewrite Ec, (andb_comm (c =? 48) fp).
        destruct fp; cbn [andb]; rewrite ?zlen_snoc, ?app_nil_r;
          rewrite ?(Z.opp_add_distr (zlen (filter snd fd)) 1).
        -- destruct (c =? 48); [rewrite zlen_cons'|]; reflexivity.
        -- reflexivity.
Qed.

(* ------------------------------------------------------------------------------------------------ *)
(* the exponent phase *)

Definition est (neg fp : bool) (e10 m dg zr : Z) (dbl fes en : bool) (ex : Z) : pst :=
  mkP true fp true fes en neg e10 ex m dg zr dbl false.

Lemma digit_not_special c : is_digit c = true -> is_blank c = false /\ is_sep c = false /\ is_pm c = false.
Proof. intros H. apply mant_not_special. unfold is_mant. rewrite H. reflexivity. Qed.

Lemma step_expdigit allow neg fp e10 m dg zr dbl en ex c : is_digit c = true ->
  step allow (est neg fp e10 m dg zr dbl true en ex) c =
    Continue (est neg fp e10 m dg zr dbl true en (ex * 10 + (c - 48))).
Proof.
  intros Hc. destruct (digit_not_special c Hc) as (Hb & Hs & Hp).
  unfold step, est, exp_digit. rewrite Hb, Hs. cbn [p_found_sign p_found_exp p_found_exp_sign negb andb].
  rewrite Hc. reflexivity.
Qed.

Lemma run_expdigits allow neg fp e10 m dg zr dbl en : forall ds ex rest, forallb is_digit ds = true ->
  run allow (est neg fp e10 m dg zr dbl true en ex) (ds ++ rest) =
  run allow (est neg fp e10 m dg zr dbl true en (fold_left (fun a c => a * 10 + (c - 48)) ds ex)) rest.
Proof.
  induction ds as [|c ds IH]; intros ex rest H; [reflexivity|].
  cbn [forallb] in H. apply andb_prop in H as [Hc Hd].
  cbn [app run fold_left]. rewrite step_expdigit by exact Hc. apply IH, Hd.
Qed.

Lemma fold_digits_of : forall ds ex,
  fold_left (fun a c => a * 10 + (c - 48)) ds ex = fold_left (fun acc d => acc * 10 + d) (map (fun c => c - 48) ds) ex.
Proof. induction ds as [|c ds IH]; intros ex; [reflexivity|]. cbn [map fold_left]. apply IH. Qed.

(* after the exponent digits: end of text, a separator, or some other character *)
Lemma run_exp_end allow neg fp e10 m dg zr dbl en ex rest :
  match rest with [] => True | c :: _ => is_digit c = false /\ is_blank c = false end ->
  run allow (est neg fp e10 m dg zr dbl true en ex) rest =
    match simple_ending rest with
    | EndOfText => Ok (finish (est neg fp e10 m dg zr dbl true en ex))
    | EndSeparator => Ok (false, 0, 0)
    | _ => if allow then Ok (finish (est neg fp e10 m dg zr dbl true en ex)) else Host host_ValueError
    end.
Proof.
  destruct rest as [|c r]; [reflexivity|]. intros [Hd Hb]. cbn [run simple_ending].
  unfold step, est, exp_digit, nonnum. rewrite Hb. destruct (is_sep c); [reflexivity|].
  cbn [p_found_sign p_found_exp p_found_exp_sign negb andb]. rewrite Hd. destruct allow; reflexivity.
Qed.

(* entering the exponent phase: an optional sign *)
Lemma run_exp_sign allow neg fp e10 m dg zr dbl r :
  match r with [] => True | c :: _ => is_blank c = false end ->
  run allow (est neg fp e10 m dg zr dbl false false 0) r =
  run allow (est neg fp e10 m dg zr dbl true (lit_neg r) 0) (unsigned_part r).
Proof.
  destruct r as [|c r]; [reflexivity|]. intros Hb. cbn [lit_neg unsigned_part].
  destruct (is_pm c) eqn:Hp.
  - cbn [run]. unfold step at 1. rewrite Hb.
    assert (Hs : is_sep c = false) by (rewrite sep_cases; unfold is_pm in Hp; lia). rewrite Hs.
    unfold est. cbn [p_found_sign p_found_exp p_found_exp_sign negb andb]. rewrite Hp. reflexivity.
  - assert (E45 : (c =? 45) = false) by (unfold is_pm in Hp; lia). rewrite E45.
    cbn [run]. unfold step, est. rewrite Hb. destruct (is_sep c); [reflexivity|].
    cbn [p_found_sign p_found_point p_found_exp p_found_exp_sign p_exp_neg p_neg p_exp10
      p_exponent p_mantissa p_digits p_zeros p_is_double p_is_single negb andb]. rewrite Hp. reflexivity.
Qed.

(* ------------------------------------------------------------------------------------------------ *)
(* list facts *)

Lemma takewhile_dropwhile {A} (p : A -> bool) l : takewhile p l ++ dropwhile p l = l.
Proof. induction l as [|x l IH]; [reflexivity|]. cbn. destruct (p x); cbn; [rewrite IH|]; reflexivity. Qed.

Lemma dropwhile_head {A} (p : A -> bool) l :
  match dropwhile p l with [] => True | c :: _ => p c = false end.
Proof. induction l as [|x l IH]; [exact I|]. cbn. destruct (p x) eqn:E; [exact IH | exact E]. Qed.

Lemma forallb_takewhile {A} (p : A -> bool) l : forallb p (takewhile p l) = true.
Proof. induction l as [|x l IH]; [reflexivity|]. cbn. destruct (p x) eqn:E; cbn; [rewrite E, IH|]; reflexivity. Qed.

Lemma forallb_dropwhile' {A} (q p : A -> bool) l : forallb q l = true -> forallb q (dropwhile p l) = true.
Proof. induction l as [|x l IH]; [reflexivity|]. cbn. intros H. destruct (p x); [apply IH; apply andb_prop in H; tauto | exact H]. Qed.

Definition bfree (l : list Z) : Prop := forallb (fun c => negb (is_blank c)) l = true.

Lemma bfree_unsigned l : bfree l -> bfree (unsigned_part l).
Proof. unfold bfree. destruct l as [|c r]; [auto|]. cbn [unsigned_part forallb]. intros H. destruct (is_pm c); [apply andb_prop in H; tauto | exact H]. Qed.

Lemma bfree_head l : bfree l -> match l with [] => True | c :: _ => is_blank c = false end.
Proof. unfold bfree. destruct l as [|c r]; [auto|]. cbn [forallb]. intros H. apply andb_prop in H as [H _]. destruct (is_blank c); [discriminate | reflexivity]. Qed.

Lemma bfree_tail c l : bfree (c :: l) -> bfree l.
Proof. unfold bfree. cbn [forallb]. intros H. apply andb_prop in H. tauto. Qed.

(* ------------------------------------------------------------------------------------------------ *)
(* the whole exponent part *)

Lemma run_exponent allow neg fp e10 m dg zr dbl r : bfree r ->
  let S := est neg fp e10 m dg zr dbl true (lit_neg r) (of_digits 10 (map (fun c => c - 48) (exp_digits r))) in
  run allow (est neg fp e10 m dg zr dbl false false 0) r =
    match simple_ending (exp_rest r) with
    | EndOfText => Ok (finish S)
    | EndSeparator => Ok (false, 0, 0)
    | _ => if allow then Ok (finish S) else Host host_ValueError
    end.
Proof.
  intros Hr. cbv zeta. rewrite run_exp_sign by (apply bfree_head, Hr).
  pose proof (bfree_unsigned r Hr) as Hu.
  unfold exp_digits, exp_rest. set (u := unsigned_part r) in *.
  rewrite <- (takewhile_dropwhile is_digit u) at 1.
  rewrite run_expdigits by apply forallb_takewhile.
  rewrite fold_digits_of. fold (of_digits 10 (map (fun c => c - 48) (takewhile is_digit u))).
  apply run_exp_end.
  pose proof (dropwhile_head is_digit u) as Hh.
  pose proof (bfree_head _ (forallb_dropwhile' _ is_digit u Hu)) as Hb.
  destruct (dropwhile is_digit u); [exact I | split; assumption].
Qed.

(* ------------------------------------------------------------------------------------------------ *)
(* the first character *)

Lemma run_init allow t : bfree t ->
  run allow p_init t = run allow (mst (lit_neg t) false 0 0 0 0) (unsigned_part t).
Proof.
  destruct t as [|c r]; [reflexivity|]. intros Hb. apply bfree_head in Hb.
  cbn [lit_neg unsigned_part]. destruct (is_pm c) eqn:Hp.
  - cbn [run]. unfold step at 1. rewrite Hb.
    assert (Hs : is_sep c = false) by (rewrite sep_cases; unfold is_pm in Hp; lia). rewrite Hs.
    unfold p_init. cbn [p_found_sign negb andb]. rewrite Hp. reflexivity.
  - assert (E45 : (c =? 45) = false) by (unfold is_pm in Hp; lia). rewrite E45.
    cbn [run]. unfold step, p_init, mst. rewrite Hb. destruct (is_sep c); [reflexivity|].
    cbn [p_found_sign p_found_point p_found_exp p_found_exp_sign p_exp_neg p_neg p_exp10
      p_exponent p_mantissa p_digits p_zeros p_is_double p_is_single negb andb]. rewrite Hp. reflexivity.
Qed.

(* ------------------------------------------------------------------------------------------------ *)
(* the character that ends the mantissa *)

Lemma finish_mst neg fp e10 m dg zr :
  finish (mst neg fp e10 m dg zr) = (dg - zr >? 7, (if neg then - m else m), e10 + 0).
Proof. unfold finish, mst. cbn [p_exp_neg p_exp10 p_exponent p_digits p_zeros p_is_single p_is_double p_neg p_mantissa]. change dec_single_digits with 7. rewrite andb_true_r. destruct (dg - zr >? 7); reflexivity. Qed.

Lemma finish_est neg fp e10 m dg zr dbl fes en ex :
  finish (est neg fp e10 m dg zr dbl fes en ex) =
    ((dg - zr >? 7) || dbl, (if neg then - m else m), (if en then e10 - ex else e10 + ex)).
Proof. unfold finish, est. cbn [p_exp_neg p_exp10 p_exponent p_digits p_zeros p_is_single p_is_double p_neg p_mantissa]. change dec_single_digits with 7. rewrite andb_true_r. destruct (dg - zr >? 7); reflexivity. Qed.

Lemma not_mant c : is_mant c = false -> is_digit c = false /\ (c =? 46) = false.
Proof. unfold is_mant. intros H. apply orb_false_elim in H. exact H. Qed.

(* one step on the character after the mantissa *)
Lemma step_after_mant allow neg fp e10 m dg zr c : is_mant c = false -> is_blank c = false ->
  step allow (mst neg fp e10 m dg zr) c =
    if is_sep c then ReturnZero
    else if is_expletter c then Continue (est neg fp e10 m dg zr (upper c =? 68) false false 0)
    else if c =? 33 then Break (mkP true fp false false false neg e10 0 m dg zr false true)
    else if c =? 35 then Break (mkP true fp false false false neg e10 0 m dg zr true false)
    else nonnum allow (mst neg fp e10 m dg zr).
Proof.
  intros Hm Hb. destruct (not_mant c Hm) as [Hd H46].
  unfold step, mst, est, is_expletter. rewrite Hb. destruct (is_sep c); [reflexivity|].
  cbn [p_found_sign p_found_point p_found_exp p_found_exp_sign p_exp_neg p_neg p_exp10
    p_exponent p_mantissa p_digits p_zeros p_is_double p_is_single negb andb].
  rewrite Hd, H46. reflexivity.
Qed.

(* ------------------------------------------------------------------------------------------------ *)
(* THE PARSER COMPUTES THE DECLARATIVE READING *)

Lemma simple_ending_cases l :
  simple_ending l = EndOfText \/ simple_ending l = EndSeparator \/ simple_ending l = EndOther.
Proof. destruct l as [|c r]; cbn [simple_ending]; [left; reflexivity|]. destruct (is_sep c); [right; left | right; right]; reflexivity. Qed.

Lemma sig_digits_eq m : sig_digits m = zlen (sig_part m) - zlen (takewhile zap (rev (sig_part m))).
Proof. reflexivity. Qed.

Theorem str_to_decimal_spec : forall w allow,
  let t := nonblank w in
  match str_to_decimal w allow with
  | Ok (dbl, m, e) => (allow = true \/ has_nonnum t = false)
                      /\ dbl = doc_is_double t /\ m = doc_mantissa t /\ e = doc_exp10 t
  | Host x => x = host_ValueError /\ allow = false /\ has_nonnum t = true
  | _ => False
  end.
Proof.
  intros w allow. cbv zeta. unfold str_to_decimal. rewrite run_ignores_blanks.
  set (t := nonblank w). assert (Ht : bfree t) by apply nonblank_free.
  rewrite run_init by exact Ht.
  pose proof (bfree_unsigned t Ht) as Hu.
  assert (Hsplit : unsigned_part t = lit_mant t ++ lit_rest t) by (symmetry; apply takewhile_dropwhile).
  rewrite Hsplit. change (mst (lit_neg t) false 0 0 0 0) with (mst_of (lit_neg t) (false, 0, 0, 0, 0)).
  rewrite run_mant by apply forallb_takewhile.
  destruct (macc_closed (lit_mant t) (forallb_takewhile _ _)) as (Hcl & Hnn & _).
  rewrite Hcl. unfold mclosed, mst_of.
  pose proof (sig_digits_eq (lit_mant t)) as Hsig.
  set (dg := zlen (sig_part (lit_mant t))) in *.
  set (zr := zlen (takewhile zap (rev (sig_part (lit_mant t))))) in *.
  set (fp := has_point (lit_mant t)). set (neg := lit_neg t).
  pose proof (dropwhile_head is_mant (unsigned_part t)) as Hhead. fold (lit_rest t) in Hhead.
  assert (Hbr : bfree (lit_rest t)) by (apply forallb_dropwhile', Hu).
  unfold doc_is_double, has_nonnum, doc_mantissa, doc_exp10, lit_ending.
  destruct (lit_rest t) as [|c r] eqn:Erest.
  - (* the text ends with the mantissa *)
    cbn [run]. rewrite finish_mst. rewrite Hsig.
    split; [right; reflexivity|]. split; [reflexivity|]. fold neg. split; [destruct neg; lia | lia].
  - pose proof (bfree_head _ Hbr) as Hb. cbn beta iota in Hb. pose proof (bfree_tail _ _ Hbr) as Hr.
    cbn [run]. rewrite step_after_mant by assumption.
    pose proof (sep_cases c) as Hsc. pose proof (upper_cases c) as [Hu68 Hu69].
    destruct (c =? 33) eqn:E33.
    { (* ! *)
      assert (Hs : is_sep c = false) by lia. assert (He : is_expletter c = false) by (unfold is_expletter; lia).
      rewrite Hs, He. unfold finish.
      cbn [p_exp_neg p_exp10 p_exponent p_digits p_zeros p_is_single p_is_double p_neg p_mantissa negb].
      rewrite andb_false_r. fold neg.
      split; [right; reflexivity|]. split; [reflexivity|]. split; [destruct neg; lia | lia]. }
    destruct (c =? 35) eqn:E35.
    { (* # *)
      assert (Hs : is_sep c = false) by lia. assert (He : is_expletter c = false) by (unfold is_expletter; lia).
      rewrite Hs, He. unfold finish.
      cbn [p_exp_neg p_exp10 p_exponent p_digits p_zeros p_is_single p_is_double p_neg p_mantissa negb].
      fold neg.
      split; [right; reflexivity|]. split; [destruct (_ && _); reflexivity|]. split; [destruct neg; lia | lia]. }
    destruct (is_expletter c) eqn:Eexp.
    { (* exponent letter *)
      assert (Hs : is_sep c = false) by (unfold is_expletter in Eexp; lia). rewrite Hs.
      rewrite run_exponent by exact Hr. cbv zeta. rewrite finish_est.
      destruct (simple_ending_cases (exp_rest r)) as [Hse|[Hse|Hse]]; rewrite Hse.
      - split; [right; reflexivity|]. rewrite Hsig. split; [apply orb_comm|]. fold neg.
        split; [destruct neg; lia | destruct (lit_neg r); lia].
      - split; [right; reflexivity|]. split; [reflexivity|]. split; reflexivity.
      - destruct allow.
        + split; [left; reflexivity|]. rewrite Hsig. split; [apply orb_comm|]. fold neg.
          split; [destruct neg; lia | destruct (lit_neg r); lia].
        + split; [reflexivity|]. split; reflexivity. }
    (* separator or another character *)
    cbn [simple_ending]. destruct (is_sep c) eqn:Es.
    { split; [right; reflexivity|]. split; [reflexivity|]. split; reflexivity. }
    unfold nonnum. destruct allow.
    + rewrite finish_mst, Hsig. split; [left; reflexivity|]. split; [reflexivity|]. fold neg.
      split; [destruct neg; lia | lia].
    + split; [reflexivity|]. split; reflexivity.
Qed.

(* ------------------------------------------------------------------------------------------------ *)
(* Values.from_repr: the type of the result *)

Lemma fold_digits_nonneg : forall l acc, 0 <= acc -> forallb is_digit l = true ->
  0 <= fold_left (fun a d => a * 10 + d) (map (fun c => c - 48) l) acc.
Proof.
  induction l as [|c l IH]; intros acc Ha H; [exact Ha|].
  cbn [forallb] in H. apply andb_prop in H as [Hc Hl]. cbn [map fold_left].
  apply IH; [unfold is_digit in Hc; lia | exact Hl].
Qed.

Lemma int_from_str_cases w :
  let v := strip_blanks w in
  let ok := forallb is_digit v && negb (match v with [] => true | _ => false end)
            && (of_digits 10 (map (fun c => c - 48) v) <=? 32767) in
  match int_from_str w with
  | Ok _ => ok = true
  | Host x => x = host_ValueError /\ ok = false
  | Err e => e = err_overflow /\ ok = false
  | OutOfFuel => False
  end.
Proof.
  cbv zeta. unfold int_from_str. set (v := strip_blanks w).
  destruct (forallb is_digit v) eqn:Hd; cbn [negb andb]; [|split; reflexivity].
  destruct v as [|c r] eqn:Ev; [split; reflexivity|]. cbn [negb andb]. rewrite <- Ev in *.
  pose proof (fold_digits_nonneg v 0 ltac:(lia) Hd) as Hn. fold (of_digits 10 (map (fun c => c - 48) v)) in Hn.
  set (N := of_digits 10 (map (fun c => c - 48) v)) in *.
  unfold i_from_int. cbn [andb]. cbv iota.
  destruct (Z.leb_spec (-32768) N), (Z.leb_spec N 32767); cbn [andb]; try lia; try reflexivity; split; reflexivity.
Qed.

Lemma from_decimal_safe_tag hard F m e v : from_decimal_safe hard F m e = Ok v -> exists b, v = d_mk F b.
Proof.
  unfold from_decimal_safe, rmap. destruct (float_safe hard _ _) as [b| | |]; cbn [bind]; try discriminate.
  intros H. injection H as <-. exists b. reflexivity.
Qed.

Definition stripped (word : list Z) : list Z := map upper (dropwhile (fun c => (c =? 32) || (c =? 10)) word).

Theorem from_repr_type : forall hard word allow v,
  (forall r, stripped word <> 38 :: r) ->
  from_repr hard word allow = Ok v -> v_tag v = doc_type word.
Proof.
  intros hard word allow v Hamp. unfold from_repr, doc_type. fold (stripped word) in *.
  set (w := stripped word) in *.
  destruct w as [|c0 r0] eqn:Ew.
  - intros H. injection H as <-. reflexivity.
  - rewrite <- Ew in *. destruct (Z.eqb_spec c0 38) as [->|Hc]; [exfalso; apply (Hamp r0); exact Ew|].
    pose proof (int_from_str_cases w) as Hcases. cbv zeta in Hcases.
    set (ok := forallb is_digit (strip_blanks w) && _ && _) in *.
    assert (Hfloat : from_repr_float hard w allow = Ok v -> ok = false ->
              v_tag v = (if ok then 2 else if doc_is_double (nonblank w) then 8 else 4)).
    { intros Hf Hok. rewrite Hok. unfold from_repr_float in Hf.
      pose proof (str_to_decimal_spec w allow) as Hspec. cbv zeta in Hspec.
      destruct (str_to_decimal w allow) as [[[dbl m] e]|e|x|]; try discriminate.
      - destruct Hspec as (_ & Hdbl & _). rewrite <- Hdbl.
        apply from_decimal_safe_tag in Hf as [b ->]. destruct dbl; reflexivity.
      - destruct (x =? host_ValueError); discriminate. }
    destruct (int_from_str w) as [b|e|x|].
    + intros H. injection H as <-. rewrite Hcases. reflexivity.
    + destruct Hcases as [-> Hok]. change (err_overflow =? err_overflow) with true. cbv iota.
      intros H. apply Hfloat; assumption.
    + destruct Hcases as [-> Hok]. change (host_ValueError =? host_ValueError) with true. cbv iota.
      intros H. apply Hfloat; assumption.
    + contradiction.
Qed.

Print Assumptions str_to_decimal_spec.
Print Assumptions from_repr_type.
