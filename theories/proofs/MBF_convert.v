(* MBF_convert.v - conversions between floats and integers:
   Float._to_int_den / to_int / to_int_truncate (CINT, FIX), _bring_to_range / from_int, itrunc. *)
From Coq Require Import ZArith List Bool Lia ZifyBool.
From PCB Require Import lib.Result lib.PyInt lib.Harness lib.MBFPrims gen.Gen_mbf model.MBF
  proofs.MBF_base proofs.MBF_compare.
Import ListNotations.
Open Scope Z_scope.
Ltac Zify.zify_post_hook ::= Z.to_euclidean_division_equations.

(* ------------------------------------------------------------------------------------------------ *)
(* float -> Python int *)

Lemma f_mag_bound C b : fmt_ok C -> buf_ok C b -> f_mag C b < 2 ^ (mbits C + 255).
Proof.
  intros HC Hb. unfold f_mag. pose proof (mbits_ge C HC).
  destruct (f_zero b); [apply pow2_pos; lia|].
  pose proof (f_man_bound C b HC). pose proof (f_exp_bound C b HC Hb).
  rewrite pow2_split by lia.
  assert (2 ^ f_exp b <= 2 ^ 255) by (apply pow2_le; lia).
  assert (0 < 2 ^ f_exp b) by (apply pow2_pos; lia).
  assert (0 < 2 ^ (mbits C - 1)) by (apply pow2_pos; lia). nia.
Qed.

(* _to_int_den: floor(256 * |value|), sign *)
Lemma to_int_den_spec C b : fmt_ok C -> buf_ok C b ->
  mbf_to_int_den C b = ((256 * f_mag C b) / 2 ^ c_bias C, f_neg C b).
Proof.
  intros HC Hb. unfold mbf_to_int_den. rewrite denormalise_spec by assumption. cbv beta iota.
  f_equal. rewrite (ok_bias C HC).
  pose proof (mbits_ge C HC) as Hm. pose proof (f_exp_bound C b HC Hb) as He.
  pose proof (f_man_bound C b HC) as Hman.
  assert (HP : 0 < 2 ^ (mbits C - 1)) by (apply pow2_pos; lia).
  unfold f_mag, f_zero.
  destruct (Z.gtb_spec (f_exp b - (128 + mbits C)) 0) as [Hgt|Hle].
  - destruct (Z.eqb_spec (f_exp b) 0); [lia|].
    rewrite Z.shiftl_mul_pow2 by lia.
    replace (f_exp b) with ((f_exp b - (128 + mbits C)) + (128 + mbits C)) at 2 by lia.
    rewrite pow2_split by lia.
    rewrite !Z.mul_assoc, Z.div_mul by (apply Z.pow_nonzero; lia). reflexivity.
  - rewrite Z.shiftr_div_pow2 by lia.
    destruct (Z.eqb_spec (f_exp b) 0) as [E0|E0].
    + rewrite E0. rewrite Z.mul_0_r, Z.div_0_l by (apply Z.pow_nonzero; lia).
      apply Z.div_small. replace (- (0 - (128 + mbits C))) with (9 + (mbits C - 1) + 120) by lia.
      rewrite !pow2_split by lia. rewrite (pow2_pred (mbits C)) in Hman by lia.
      change (2 ^ 9) with 512. assert (1 <= 2 ^ 120) by (pose proof (pow2_pos 120); lia). nia.
    + replace (128 + mbits C) with ((- (f_exp b - (128 + mbits C))) + f_exp b) at 2 by lia.
      rewrite pow2_split by lia.
      rewrite Z.mul_assoc, Z.div_mul_cancel_r by (apply Z.pow_nonzero; lia). reflexivity.
Qed.

(* arithmetic of the rounding in to_int *)
Lemma land128_any M : 0 <= M -> Z.land M 128 = if M mod 256 <? 128 then 0 else 128.
Proof.
  intros HM. replace 128 with (Z.land 255 128) at 1 by reflexivity.
  rewrite Z.land_assoc, land255. apply byte_land128. unfold byte_ok. lia.
Qed.

Lemma rha_arith A Q' : 0 <= A -> 0 < Q' ->
  let M := (256 * A) / (256 * Q') in
  Z.shiftr (if z2b (Z.land M 128) then M + 128 else M) 8 = (2 * A + 256 * Q') / (2 * (256 * Q'))
  /\ Z.shiftr M 8 = A / (256 * Q').
Proof.
  intros HA HQ M. unfold M. rewrite Z.div_mul_cancel_l by lia. clear M.
  assert (HM : 0 <= A / Q') by (apply Z.div_pos; lia).
  rewrite land128_any by assumption. rewrite !Z.shiftr_div_pow2 by lia. change (2 ^ 8) with 256.
  pose proof (Z.div_mod A Q' ltac:(lia)) as H1. pose proof (Z.mod_pos_bound A Q' HQ) as H2.
  set (M := A / Q') in *. set (r := A mod Q') in *.
  pose proof (Z.div_mod M 256 ltac:(lia)) as H3. pose proof (Z.mod_pos_bound M 256 ltac:(lia)) as H4.
  set (q := M / 256) in *. set (t := M mod 256) in *.
  assert (HQt : 0 <= Q' * t <= 255 * Q') by nia.
  set (X := Q' * t) in *.
  assert (HA' : A = 256 * (Q' * q) + X + r) by (unfold X; nia).
  set (Y := Q' * q) in *.
  split.
  - unfold z2b. destruct (t <? 128) eqn:E; cbn [Z.eqb negb Pos.eqb].
    + (* round down *)
      assert (Hx : X <= 127 * Q') by (unfold X; nia).
      change (M / 256) with q.
      apply (Z.div_unique _ _ q (2 * X + 2 * r + 256 * Q')); [|unfold Y in *; nia].
      left. lia.
    + assert (Hx : 128 * Q' <= X) by (unfold X; nia).
      replace ((M + 128) / 256) with (q + 1) by (unfold M in *; lia).
      apply (Z.div_unique _ _ (q + 1) (2 * X + 2 * r - 256 * Q')); [|unfold Y in *; nia].
      left. lia.
  - rewrite Z.mul_comm, <- Z.div_div by lia. reflexivity.
Qed.

Theorem to_int_spec C b : fmt_ok C -> buf_ok C b ->
  mbf_to_int C b = round_half_away (f_sval C b) (2 ^ c_bias C).
Proof.
  intros HC Hb. unfold mbf_to_int. rewrite to_int_den_spec by assumption. cbv beta iota zeta.
  pose proof (f_mag_nonneg C b HC Hb) as Hm. pose proof (mbits_ge C HC).
  assert (HQ : 2 ^ c_bias C = 256 * 2 ^ (c_bias C - 8)).
  { rewrite (ok_bias C HC). replace (128 + mbits C) with (8 + (128 + mbits C - 8)) at 1 by lia.
    rewrite pow2_split by lia. reflexivity. }
  assert (HQ' : 0 < 2 ^ (c_bias C - 8)) by (apply pow2_pos; rewrite (ok_bias C HC); lia).
  rewrite HQ.
  destruct (rha_arith (f_mag C b) (2 ^ (c_bias C - 8)) Hm HQ') as [H1 _]. cbv zeta in H1.
  rewrite H1.
  unfold round_half_away. rewrite f_sval_mag.
  destruct (f_neg C b) eqn:En.
  - rewrite Z.abs_opp, Z.abs_eq by lia.
    destruct (Z.eq_dec (f_mag C b) 0) as [E0|E0].
    + rewrite E0. cbn [Z.opp Z.sgn]. rewrite Z.mul_0_l, Z.mul_0_r, Z.add_0_l.
      rewrite Z.div_small by lia. reflexivity.
    + rewrite Z.sgn_neg by lia. lia.
  - rewrite Z.abs_eq by lia.
    destruct (Z.eq_dec (f_mag C b) 0) as [E0|E0].
    + rewrite E0. cbn [Z.sgn]. rewrite Z.mul_0_l, Z.mul_0_r, Z.add_0_l.
      rewrite Z.div_small by lia. reflexivity.
    + rewrite Z.sgn_pos by lia. lia.
Qed.

Theorem to_int_truncate_spec C b : fmt_ok C -> buf_ok C b ->
  mbf_to_int_truncate C b = Z.quot (f_sval C b) (2 ^ c_bias C).
Proof.
  intros HC Hb. unfold mbf_to_int_truncate. rewrite to_int_den_spec by assumption. cbv beta iota.
  pose proof (f_mag_nonneg C b HC Hb) as Hm. pose proof (mbits_ge C HC).
  assert (HQ : 2 ^ c_bias C = 256 * 2 ^ (c_bias C - 8)).
  { rewrite (ok_bias C HC). replace (128 + mbits C) with (8 + (128 + mbits C - 8)) at 1 by lia.
    rewrite pow2_split by lia. reflexivity. }
  assert (HQ' : 0 < 2 ^ (c_bias C - 8)) by (apply pow2_pos; rewrite (ok_bias C HC); lia).
  rewrite HQ.
  destruct (rha_arith (f_mag C b) (2 ^ (c_bias C - 8)) Hm HQ') as [_ H2]. cbv zeta in H2.
  rewrite H2. rewrite f_sval_mag.
  destruct (f_neg C b).
  - rewrite Z.quot_opp_l by lia. rewrite Z.quot_div_nonneg by lia. reflexivity.
  - rewrite Z.quot_div_nonneg by lia. reflexivity.
Qed.

(* ------------------------------------------------------------------------------------------------ *)
(* _bring_to_range *)

Lemma loop1_spec C n lower upper : 1 <= n -> lower = 2 ^ (n - 1) - 1 ->
  forall f man exp, 0 < man -> 2 ^ (n - 1) <= man * 2 ^ Z.of_nat f ->
  exists k, 0 <= k /\
    mbf_bring_to_range_loop_1 (S f) C lower upper exp man = Ok (exp - k, man * 2 ^ k) /\
    2 ^ (n - 1) <= man * 2 ^ k /\ (man < 2 ^ (n - 1) -> man * 2 ^ k < 2 ^ n) /\
    (2 ^ (n - 1) <= man -> k = 0).
Proof.
  intros Hn ->. induction f as [|f IH]; intros man exp Hman Hf.
  - exists 0. cbn [mbf_bring_to_range_loop_1]. rewrite Z.abs_eq by lia.
    change (Z.of_nat 0) with 0 in Hf. rewrite Z.pow_0_r, Z.mul_1_r in *.
    destruct (Z.leb_spec man (2 ^ (n - 1) - 1)); [lia|].
    rewrite Z.sub_0_r. repeat split; lia.
  - cbn [mbf_bring_to_range_loop_1]. rewrite Z.abs_eq by lia.
    destruct (Z.leb_spec man (2 ^ (n - 1) - 1)) as [Hle|Hgt].
    + rewrite Z.shiftl_mul_pow2 by lia. change (2 ^ 1) with 2.
      rewrite Nat2Z.inj_succ, Z.pow_succ_r in Hf by lia.
      destruct (IH (man * 2) (exp - 1) ltac:(lia) ltac:(lia)) as (k & Hk & Hr & H1 & H2 & H3).
      exists (k + 1). rewrite pow2_S by lia.
      replace (man * (2 * 2 ^ k)) with (man * 2 * 2 ^ k) by lia.
      replace (exp - (k + 1)) with (exp - 1 - k) by lia.
      split; [lia|]. split; [exact Hr|]. split; [exact H1|]. split; [|lia].
      intros _. destruct (Z.lt_ge_cases (man * 2) (2 ^ (n - 1))) as [Hlt|Hge].
      * apply H2. exact Hlt.
      * rewrite (H3 Hge). rewrite Z.pow_0_r, Z.mul_1_r. rewrite (pow2_pred n) by lia. lia.
    + exists 0. rewrite Z.pow_0_r, Z.mul_1_r, Z.sub_0_r. repeat split; lia.
Qed.

Lemma loop2_spec C n lower upper : 1 <= n -> upper = 2 ^ n - 1 ->
  forall f man exp, 2 ^ (n - 1) <= man -> man < 2 ^ (n + Z.of_nat f) ->
  exists k, 0 <= k /\
    mbf_bring_to_range_loop_2 (S f) C lower upper exp man = Ok (exp + k, man / 2 ^ k) /\
    2 ^ (n - 1) <= man / 2 ^ k < 2 ^ n /\ (man < 2 ^ n -> k = 0).
Proof.
  intros Hn ->. assert (HP : 0 < 2 ^ (n - 1)) by (apply pow2_pos; lia).
  induction f as [|f IH]; intros man exp Hlo Hhi.
  - exists 0. cbn [mbf_bring_to_range_loop_2]. rewrite Z.abs_eq by lia.
    change (Z.of_nat 0) with 0 in Hhi. rewrite Z.add_0_r in Hhi.
    destruct (Z.gtb_spec man (2 ^ n - 1)); [lia|].
    rewrite Z.pow_0_r, Z.div_1_r, Z.add_0_r. repeat split; lia.
  - cbn [mbf_bring_to_range_loop_2]. rewrite Z.abs_eq by lia.
    destruct (Z.gtb_spec man (2 ^ n - 1)) as [Hgt|Hle].
    + rewrite Z.shiftr_div_pow2 by lia. change (2 ^ 1) with 2.
      rewrite Nat2Z.inj_succ in Hhi. replace (n + Z.succ (Z.of_nat f)) with ((n + Z.of_nat f) + 1) in Hhi by lia.
      rewrite pow2_S in Hhi by lia. rewrite (pow2_pred n) in Hgt by lia.
      destruct (IH (man / 2) (exp + 1) ltac:(lia) ltac:(lia)) as (k & Hk & Hr & H1 & H2).
      exists (k + 1). rewrite pow2_S by lia.
      rewrite <- Z.div_div by (try lia; apply pow2_pos; lia).
      replace (exp + (k + 1)) with (exp + 1 + k) by lia.
      split; [lia|]. split; [exact Hr|]. split; [exact H1|]. rewrite (pow2_pred n) by lia. lia.
    + exists 0. rewrite Z.pow_0_r, Z.div_1_r, Z.add_0_r. repeat split; lia.
Qed.

Lemma bring_to_range_spec C man exp : fmt_ok C -> 0 < man < 2 ^ 900 ->
  exists m' e' k, 0 <= k /\
    mbf_bring_to_range C man exp (c_posmask C) (c_mask C) = Ok (m', e') /\
    2 ^ (mbits C - 1) <= m' < 2 ^ mbits C /\
    ((m' = man * 2 ^ k /\ e' = exp - k /\ man < 2 ^ mbits C) \/
     (m' = man / 2 ^ k /\ e' = exp + k /\ 2 ^ mbits C <= man)).
Proof.
  intros HC Hman. pose proof (mbits_ge C HC) as Hg. pose proof (mbits_le C HC) as Hl.
  set (n := mbits C) in *.
  assert (HP : 0 < 2 ^ (n - 1)) by (apply pow2_pos; lia).
  assert (H2P : 2 ^ n = 2 * 2 ^ (n - 1)) by (apply pow2_pred; lia).
  unfold mbf_bring_to_range. change 1000%nat with (S 999).
  destruct (loop1_spec C n (c_posmask C) (c_mask C) ltac:(lia) (ok_posmask C HC) 999 man exp ltac:(lia))
    as (k1 & Hk1 & Hr1 & Hlo1 & Hhi1 & Hz1).
  { assert (2 ^ (n - 1) <= 2 ^ 999) by (apply pow2_le; lia). change (Z.of_nat 999) with 999. nia. }
  rewrite Hr1. cbn [bind].
  assert (Hlt : man * 2 ^ k1 < 2 ^ (n + Z.of_nat 999)).
  { change (Z.of_nat 999) with 999.
    destruct (Z.lt_ge_cases man (2 ^ (n - 1))) as [Hs|Hb].
    - specialize (Hhi1 Hs). assert (2 ^ n <= 2 ^ (n + 999)) by (apply pow2_le; lia). lia.
    - rewrite (Hz1 Hb), Z.pow_0_r, Z.mul_1_r.
      assert (2 ^ 900 <= 2 ^ (n + 999)) by (apply pow2_le; lia). lia. }
  destruct (loop2_spec C n (c_posmask C) (c_mask C) ltac:(lia) (ok_mask C HC) 999 (man * 2 ^ k1) (exp - k1) Hlo1 Hlt)
    as (k2 & Hk2 & Hr2 & Hrange & Hz2).
  rewrite Hr2. cbn [bind].
  destruct (Z.lt_ge_cases man (2 ^ (n - 1))) as [Hs|Hb].
  - (* shifted left *)
    specialize (Hhi1 Hs). rewrite (Hz2 Hhi1) in *. rewrite Z.pow_0_r, Z.div_1_r, Z.add_0_r in *.
    exists (man * 2 ^ k1), (exp - k1), k1. split; [lia|]. split; [reflexivity|]. split; [lia|]. left. lia.
  - rewrite (Hz1 Hb) in *. rewrite Z.pow_0_r, Z.mul_1_r, Z.sub_0_r in *.
    destruct (Z.lt_ge_cases man (2 ^ n)) as [Hs2|Hb2].
    + rewrite (Hz2 Hs2) in *. rewrite Z.pow_0_r, Z.div_1_r, Z.add_0_r in *.
      exists man, exp, 0. rewrite Z.pow_0_r, Z.mul_1_r, Z.sub_0_r.
      split; [lia|]. split; [reflexivity|]. split; [lia|]. left. lia.
    + exists (man / 2 ^ k2), (exp + k2), k2. split; [lia|]. split; [reflexivity|]. split; [lia|]. right. lia.
Qed.

(* ------------------------------------------------------------------------------------------------ *)
(* storing a mantissa and an exponent into the buffer *)

Lemma list_set_last (l : list Z) z x : list_set (l ++ [z]) (-1) x = l ++ [x].
Proof.
  unfold list_set. change (-1 <? 0) with true. cbv iota.
  rewrite zlen_app. change (zlen [z]) with 1.
  replace (Z.to_nat (zlen l + 1 + -1)) with (length l) by (unfold zlen; lia).
  induction l as [|y l IH]; cbn [app length list_set_nat]; [reflexivity | f_equal; exact IH].
Qed.

Lemma set_last_spec (l : list Z) z e : byte_ok e -> set_byte (l ++ [z]) (-1) e = Ok (l ++ [e]).
Proof.
  intros [H0 H1]. unfold set_byte.
  destruct (Z.leb_spec 0 e); [|lia]. destruct (Z.ltb_spec e 256); [|lia]. cbn [andb].
  rewrite list_set_last. reflexivity.
Qed.

Lemma pack_spec C buf x : fmt_ok C -> zlen buf = c_size C -> 0 <= x < 2 ^ mbits C ->
  pack_into_le (c_intsize C) buf x = Ok (le_encode (Z.to_nat (c_size C - 1)) x ++ [0]).
Proof.
  intros HC Hlen Hx. pose proof (ok_size C HC) as Hs. unfold pack_into_le. rewrite (ok_intsize C HC).
  assert (H256 : 256 ^ c_size C = 2 ^ mbits C * 256).
  { rewrite pow256 by lia. unfold mbits. replace (8 * c_size C) with (8 * (c_size C - 1) + 8) by lia.
    rewrite pow2_split by lia. reflexivity. }
  destruct (Z.leb_spec 0 x); [|lia]. destruct (Z.ltb_spec x (256 ^ c_size C)); [|lia].
  destruct (Z.leb_spec (c_size C) (zlen buf)); [|lia]. cbn [andb].
  f_equal. rewrite skipn_all2 by (unfold zlen in Hlen; lia). rewrite app_nil_r.
  replace (Z.to_nat (c_size C)) with (S (Z.to_nat (c_size C - 1))) by lia.
  apply le_encode_snoc. rewrite Z2Nat.id by lia. rewrite pow256 by lia. exact Hx.
Qed.

Lemma land_mask_spec C (neg : bool) m : fmt_ok C -> 2 ^ (mbits C - 1) <= m < 2 ^ mbits C ->
  Z.land m (if neg then c_mask C else c_posmask C)
  = m - 2 ^ (mbits C - 1) + (if neg then 2 ^ (mbits C - 1) else 0).
Proof.
  intros HC Hm. pose proof (mbits_ge C HC). rewrite (ok_mask C HC), (ok_posmask C HC).
  assert (0 < 2 ^ (mbits C - 1)) by (apply pow2_pos; lia).
  destruct neg; rewrite land_ones_mod by lia.
  - rewrite Z.mod_small by lia. lia.
  - rewrite (pow2_pred (mbits C)) in Hm by lia. rewrite mod_hi by lia. lia.
Qed.

Lemma store_spec C buf (neg : bool) e m : fmt_ok C -> zlen buf = c_size C -> byte_ok e ->
  2 ^ (mbits C - 1) <= m < 2 ^ mbits C ->
  bind (pack_into_le (c_intsize C) buf (Z.land m (if neg then c_mask C else c_posmask C)))
       (fun buf' => set_byte buf' (-1) e) = Ok (f_encode C neg e m).
Proof.
  intros HC Hlen He Hm. pose proof (mbits_ge C HC).
  assert (0 < 2 ^ (mbits C - 1)) by (apply pow2_pos; lia).
  rewrite land_mask_spec by assumption.
  rewrite pack_spec; [| assumption | assumption |].
  - cbn [bind]. rewrite set_last_spec by assumption. reflexivity.
  - rewrite (pow2_pred (mbits C)) in * by lia. destruct neg; lia.
Qed.

Lemma check_limits_ok C buf e neg : 0 < e <= 255 -> mbf_check_limits C buf e neg = Ok (buf, true).
Proof.
  intros He. unfold mbf_check_limits.
  destruct (Z.gtb_spec e 255); [lia|]. destruct (Z.leb_spec e 0); [lia|]. reflexivity.
Qed.

Lemma check_limits_overflow C buf e neg : 255 < e -> mbf_check_limits C buf e neg = Host 5.
Proof. intros He. unfold mbf_check_limits. destruct (Z.gtb_spec e 255); [reflexivity|lia]. Qed.

Lemma zeros_ok C : fmt_ok C -> buf_ok C (zeros (c_size C)) /\ f_sval C (zeros (c_size C)) = 0.
Proof.
  intros HC. pose proof (ok_size C HC) as Hs. unfold zeros.
  assert (Hl : zlen (repeat 0 (Z.to_nat (c_size C))) = c_size C) by (unfold zlen; rewrite repeat_length; lia).
  split; [split|].
  - exact Hl.
  - apply Forall_forall. intros x Hx. apply repeat_spec in Hx. subst. unfold byte_ok. lia.
  - unfold f_sval, f_zero, f_exp, py_nth. change (-1 <? 0) with true. cbv iota.
    rewrite Hl.
    replace (nth (Z.to_nat (c_size C + -1)) (repeat 0 (Z.to_nat (c_size C))) 0) with 0; [reflexivity|].
    symmetry. apply nth_repeat.
Qed.

(* ------------------------------------------------------------------------------------------------ *)
(* from_int *)

Lemma from_int_spec C buf n : fmt_ok C -> zlen buf = c_size C -> n <> 0 -> Z.abs n < 2 ^ 900 ->
  exists m' e' k, 0 <= k /\ 0 < e' /\
    2 ^ (mbits C - 1) <= m' < 2 ^ mbits C /\
    ((m' = Z.abs n * 2 ^ k /\ e' = c_bias C - k /\ Z.abs n < 2 ^ mbits C) \/
     (m' = Z.abs n / 2 ^ k /\ e' = c_bias C + k /\ 2 ^ mbits C <= Z.abs n)) /\
    mbf_from_int C buf n = if e' >? 255 then Host 5 else Ok (f_encode C (n <? 0) e' m').
Proof.
  intros HC Hlen Hn Hbound. pose proof (mbits_ge C HC) as Hg. pose proof (mbits_le C HC) as Hl.
  destruct (bring_to_range_spec C (Z.abs n) (c_bias C) HC ltac:(lia)) as (m' & e' & k & Hk & Hr & Hm & Hcase).
  exists m', e', k.
  assert (HP : 0 < 2 ^ (mbits C - 1)) by (apply pow2_pos; lia).
  assert (He : 0 < e').
  { rewrite (ok_bias C HC) in Hcase. destruct Hcase as [(E1 & E2 & E3)|(E1 & E2 & E3)]; [|lia].
    assert (k < mbits C); [|lia].
    destruct (Z.lt_ge_cases k (mbits C)) as [|Hge]; [assumption|exfalso].
    assert (2 ^ mbits C <= 2 ^ k) by (apply pow2_le; lia). nia. }
  split; [exact Hk|]. split; [exact He|]. split; [exact Hm|]. split; [exact Hcase|].
  unfold mbf_from_int. destruct (Z.eqb_spec n 0); [contradiction|].
  rewrite Hr. cbn [bind]. cbv beta iota.
  destruct (Z.gtb_spec e' 255) as [Hov|Hin].
  - rewrite check_limits_overflow by lia. reflexivity.
  - rewrite check_limits_ok by lia. cbn [bind negb]. cbv beta iota.
    pose proof (store_spec C buf (n <? 0) e' m' HC Hlen ltac:(unfold byte_ok; lia) Hm) as Hst.
    destruct (pack_into_le (c_intsize C) buf (Z.land m' (if n <? 0 then c_mask C else c_posmask C))) as [b1|e1|x1|];
      cbn [bind] in *; try discriminate.
    destruct (set_byte b1 (-1) e'); cbn [bind] in *; try discriminate. exact Hst.
Qed.

(* from_int is exact on integers whose significant bits fit in the mantissa *)
Lemma from_int_exact C buf n m0 j : fmt_ok C -> zlen buf = c_size C ->
  Z.abs n = m0 * 2 ^ j -> 0 <= j -> 0 <= m0 < 2 ^ mbits C -> Z.abs n < 2 ^ 127 ->
  exists b', mbf_from_int C buf n = Ok b' /\ buf_ok C b' /\ f_sval C b' = n * 2 ^ c_bias C.
Proof.
  intros HC Hlen Habs Hj Hm0 H127. pose proof (mbits_ge C HC) as Hg. pose proof (mbits_le C HC) as Hl.
  destruct (Z.eq_dec n 0) as [->|Hn].
  - exists (zeros (c_size C)). destruct (zeros_ok C HC) as [H1 H2].
    split; [reflexivity|]. split; [exact H1|]. rewrite H2. lia.
  - assert (H900 : Z.abs n < 2 ^ 900) by (assert (2 ^ 127 <= 2 ^ 900) by (apply pow2_le; lia); lia).
    destruct (from_int_spec C buf n HC Hlen Hn H900) as (m' & e' & k & Hk & He & Hm & Hcase & Hres).
    assert (HP : 0 < 2 ^ (mbits C - 1)) by (apply pow2_pos; lia).
    assert (H2P : 2 ^ mbits C = 2 * 2 ^ (mbits C - 1)) by (apply pow2_pred; lia).
    assert (Hbias : c_bias C = 128 + mbits C) by apply (ok_bias C HC).
    assert (Hval : m' * 2 ^ e' = Z.abs n * 2 ^ c_bias C /\ e' <= 255).
    { destruct Hcase as [(E1 & E2 & E3)|(E1 & E2 & E3)].
      - subst m' e'. split; [|lia].
        replace (c_bias C) with ((c_bias C - k) + k) at 2 by lia.
        rewrite (pow2_split (c_bias C - k) k) by lia. lia.
      - (* shifted right by k: no bit is lost because k <= j *)
        assert (Hkj : k <= j).
        { destruct (Z.le_gt_cases k j) as [|Hgt]; [assumption|exfalso].
          assert (E : Z.abs n / 2 ^ k = m0 / 2 ^ (k - j)).
          { rewrite Habs. replace k with (j + (k - j)) at 1 by lia. rewrite pow2_split by lia.
            rewrite (Z.mul_comm (2 ^ j)), Z.div_mul_cancel_r; try (apply Z.pow_nonzero; lia). reflexivity. }
          assert (2 <= 2 ^ (k - j)) by (change 2 with (2 ^ 1) at 1; apply pow2_le; lia).
          assert (m0 / 2 ^ (k - j) <= m0 / 2) by (apply Z.div_le_compat_l; lia).
          rewrite E1, E in Hm. lia. }
        assert (E : Z.abs n / 2 ^ k = m0 * 2 ^ (j - k)).
        { rewrite Habs. replace j with ((j - k) + k) at 1 by lia. rewrite pow2_split by lia.
          rewrite Z.mul_assoc, Z.div_mul by (apply Z.pow_nonzero; lia). reflexivity. }
        split.
        + subst m' e'. rewrite E, Habs. rewrite (pow2_split (c_bias C) k) by lia.
          replace j with ((j - k) + k) at 2 by lia. rewrite (pow2_split (j - k) k) by lia. lia.
        + (* exponent stays in range: m' * 2^k <= |n| < 2^127 *)
          assert (Hle : m' * 2 ^ k <= Z.abs n).
          { subst m'. pose proof (Z.mul_div_le (Z.abs n) (2 ^ k) ltac:(apply pow2_pos; lia)). lia. }
          destruct (Z.le_gt_cases (mbits C + k) 127) as [|Hgt]; [lia|exfalso].
          assert (2 ^ 127 <= 2 ^ (mbits C - 1 + k)) by (apply pow2_le; lia).
          rewrite pow2_split in * by lia. assert (0 < 2 ^ k) by (apply pow2_pos; lia). nia. }
    destruct Hval as [Hval He255].
    destruct (Z.gtb_spec e' 255); [lia|].
    exists (f_encode C (n <? 0) e' m'). split; [exact Hres|].
    split; [apply f_encode_ok; [assumption | unfold byte_ok; lia | assumption]|].
    rewrite f_encode_sval by (try assumption; lia).
    destruct (Z.ltb_spec n 0).
    + rewrite Z.abs_neq in Hval by lia. lia.
    + rewrite Z.abs_eq in Hval by lia. lia.
Qed.

(* ------------------------------------------------------------------------------------------------ *)
(* itrunc (FIX) *)

Theorem itrunc_spec C b : fmt_ok C -> buf_ok C b ->
  exists b', mbf_itrunc C b = Ok b' /\ buf_ok C b' /\
    f_sval C b' = Z.quot (f_sval C b) (2 ^ c_bias C) * 2 ^ c_bias C.
Proof.
  intros HC Hb. unfold mbf_itrunc. rewrite to_int_truncate_spec by assumption.
  pose proof (mbits_ge C HC) as Hg. pose proof (mbits_le C HC) as Hl.
  pose proof (f_mag_nonneg C b HC Hb) as Hm0.
  assert (Hbias : c_bias C = 128 + mbits C) by apply (ok_bias C HC).
  assert (HQ : 0 < 2 ^ c_bias C) by (apply pow2_pos; lia).
  set (n := Z.quot (f_sval C b) (2 ^ c_bias C)).
  assert (Habs : Z.abs n = f_mag C b / 2 ^ c_bias C).
  { unfold n. rewrite f_sval_mag. destruct (f_neg C b).
    - rewrite Z.quot_opp_l, Z.abs_opp by lia. rewrite Z.quot_div_nonneg by lia.
      apply Z.abs_eq. apply Z.div_pos; lia.
    - rewrite Z.quot_div_nonneg by lia. apply Z.abs_eq. apply Z.div_pos; lia. }
  assert (Hfit : exists m0 j, Z.abs n = m0 * 2 ^ j /\ 0 <= j /\ 0 <= m0 < 2 ^ mbits C).
  { rewrite Habs. unfold f_mag, f_zero.
    destruct (Z.eqb_spec (f_exp b) 0) as [E0|E0].
    - exists 0, 0. rewrite Z.div_0_l by lia. split; [lia|]. split; [lia|].
      split; [lia | apply pow2_pos; lia].
    - pose proof (f_man_bound C b HC) as Hman. pose proof (f_exp_bound C b HC Hb) as He.
      destruct (Z.le_gt_cases (f_exp b) (c_bias C)) as [Hle|Hgt].
      + exists (f_man C b / 2 ^ (c_bias C - f_exp b)), 0. rewrite Z.pow_0_r, Z.mul_1_r.
        split.
        * replace (c_bias C) with ((c_bias C - f_exp b) + f_exp b) at 1 by lia.
          rewrite pow2_split by lia. rewrite Z.div_mul_cancel_r by (apply Z.pow_nonzero; lia). reflexivity.
        * split; [lia|]. split; [apply Z.div_pos; [lia | apply pow2_pos; lia]|].
          apply Z.le_lt_trans with (f_man C b); [|lia].
          apply Z.div_le_upper_bound; [apply pow2_pos; lia|].
          assert (1 <= 2 ^ (c_bias C - f_exp b)) by (pose proof (pow2_pos (c_bias C - f_exp b)); lia). nia.
      + exists (f_man C b), (f_exp b - c_bias C).
        split; [|split; [lia|lia]].
        replace (f_exp b) with ((f_exp b - c_bias C) + c_bias C) at 1 by lia.
        rewrite pow2_split by lia. rewrite Z.mul_assoc, Z.div_mul by lia. reflexivity. }
  destruct Hfit as (m0 & j & Hfit & Hj & Hm0').
  assert (H127 : Z.abs n < 2 ^ 127).
  { rewrite Habs. apply Z.div_lt_upper_bound; [lia|].
    pose proof (f_mag_bound C b HC Hb) as Hmb.
    replace (2 ^ c_bias C * 2 ^ 127) with (2 ^ (mbits C + 255)); [exact Hmb|].
    rewrite <- pow2_split by lia. f_equal. lia. }
  destruct (from_int_exact C b n m0 j HC (proj1 Hb) Hfit Hj Hm0' H127) as (b' & Hr & Hok & Hv).
  exists b'. rewrite Hr. cbn [bind]. auto.
Qed.

(* from_int of any 16-bit integer (promotion of Integer to Single / Double) *)
Lemma from_int16_spec C buf n : fmt_ok C -> zlen buf = c_size C -> -32768 <= n <= 32767 ->
  exists b', mbf_from_int C buf n = Ok b' /\ buf_ok C b' /\ f_sval C b' = n * 2 ^ c_bias C.
Proof.
  intros HC Hlen Hn. pose proof (mbits_ge C HC).
  assert (2 ^ 16 <= 2 ^ mbits C) by (apply pow2_le; lia).
  assert (2 ^ 16 <= 2 ^ 127) by (apply pow2_le; lia). change (2 ^ 16) with 65536 in *.
  apply (from_int_exact C buf n (Z.abs n) 0 HC Hlen); lia.
Qed.
