(* C28: the lock table - a failed OPEN leaves no trace; closing every number empties it; a name without an
   entry can be created (OPEN FOR OUTPUT / APPEND) and renamed / killed *)
From Coq Require Import ZArith List Bool Lia.
From PCB Require Import lib.Result lib.PyInt lib.Harness gen.Gen_dosnames model.DosNames model.Paths model.PathsNt
  model.PathsLocks proofs.DosNames_proofs.
Import ListNotations.
Open Scope Z_scope.

Section Locks.
Variable basename : str -> str.

Lemma lt_remove_absent n t : ~ In n (map fst t) -> lt_remove n t = t.
Proof.
  induction t as [|[k e] r IH]; simpl; intro H; [reflexivity|].
  destruct (k =? n) eqn:E; [apply Z.eqb_eq in E; exfalso; apply H; left; exact E|].
  f_equal. apply IH. intro I. apply H. right. exact I.
Qed.

Lemma lt_remove_app n a b : lt_remove n (a ++ b) = lt_remove n a ++ lt_remove n b.
Proof.
  induction a as [|[k e] r IH]; simpl; [reflexivity|]. destruct (k =? n); [exact IH | simpl; f_equal; exact IH].
Qed.

(* registering under a free number and releasing it again restores the table exactly *)
Lemma remove_set n e t : ~ In n (map fst t) -> lt_remove n (lt_set n e t) = t.
Proof.
  intro H. unfold lt_set. rewrite lt_remove_app. simpl. rewrite Z.eqb_refl, app_nil_r.
  rewrite (lt_remove_absent n t H). apply lt_remove_absent. exact H.
Qed.

Lemma open_file_zero t name mode lock access t' :
  open_file basename t name 0 mode lock access = Ok t' -> t' = t.
Proof.
  unfold open_file. destruct (((mode =? 79) || (mode =? 65)) && _); [discriminate|].
  simpl. intro H. inversion H. reflexivity.
Qed.

Lemma open_file_shape t name number mode lock access t' :
  open_file basename t name number mode lock access = Ok t' ->
  t' = t \/ exists e, t' = lt_set number e t.
Proof.
  unfold open_file. destruct (((mode =? 79) || (mode =? 65)) && _); [discriminate|].
  destruct (number =? 0); [intro H; inversion H; left; reflexivity|].
  destruct (existsb _ _); [discriminate|]. intro H. inversion H. right. eexists. reflexivity.
Qed.

(* 1. a failed OPEN - at whatever stage: name resolution, lock acquisition, opening the host file - leaves the
      table exactly as it was (the file number is not in use: Files.open checks that first) *)
Theorem failed_open_unchanged t resolved name number mode lock access stream :
  ~ In number (map fst t) ->
  is_ok (snd (dev_open basename t resolved name number mode lock access stream)) = false ->
  fst (dev_open basename t resolved name number mode lock access stream) = t.
Proof.
  intros Hfree. unfold dev_open. destruct resolved; try reflexivity.
  destruct (open_file basename t name number mode lock access) as [t'| | |] eqn:E; try reflexivity.
  destruct stream; simpl; try discriminate; intros _;
    (destruct (open_file_shape _ _ _ _ _ _ _ E) as [H|[e0 H]]; subst t';
      [apply lt_remove_absent; exact Hfree | apply remove_set; exact Hfree]).
Qed.

(* in particular the entries of every name are what they were *)
Corollary failed_open_no_trace t resolved name number mode lock access stream other :
  ~ In number (map fst t) ->
  is_ok (snd (dev_open basename t resolved name number mode lock access stream)) = false ->
  list_open basename (fst (dev_open basename t resolved name number mode lock access stream)) other
  = list_open basename t other.
Proof. intros H1 H2. rewrite (failed_open_unchanged _ _ _ _ _ _ _ _ H1 H2). reflexivity. Qed.

(* 2. closing *)
Lemma list_open_remove t n name e : In e (list_open basename (lt_remove n t) name) -> In e (list_open basename t name).
Proof.
  unfold list_open. intro H. apply in_map_iff in H as [[k x] [E I]]. simpl in E. subst x.
  apply filter_In in I as [I F]. apply in_map_iff. exists (k, e). split; [reflexivity|].
  apply filter_In. split; [|exact F]. clear F. induction t as [|[k' e'] r IH]; simpl in *; [contradiction|].
  destruct (k' =? n); [right; apply IH, I|]. destruct I as [I|I]; [left; exact I | right; apply IH, I].
Qed.

Lemma remove_not_in n t : ~ In n (map fst (lt_remove n t)).
Proof.
  induction t as [|[k e] r IH]; simpl; [tauto|]. destruct (k =? n) eqn:E; [exact IH|].
  simpl. intros [H|H]; [apply Z.eqb_neq in E; contradiction | contradiction].
Qed.

Lemma remove_keys_sub n m t : In m (map fst (lt_remove n t)) -> In m (map fst t).
Proof.
  induction t as [|[k e] r IH]; simpl; [tauto|]. destruct (k =? n); simpl; [intro H; right; apply IH, H|].
  intros [H|H]; [left; exact H | right; apply IH, H].
Qed.

Lemma lt_remove_comm a b t : lt_remove a (lt_remove b t) = lt_remove b (lt_remove a t).
Proof.
  induction t as [|[k e] r IH]; simpl; [reflexivity|].
  destruct (k =? b) eqn:B; destruct (k =? a) eqn:A; simpl; rewrite ?A, ?B; try exact IH. f_equal. exact IH.
Qed.

Lemma fold_close_keys ks t : (forall k, In k (map fst t) -> In k ks) -> fold_left (close_file) ks t = [].
Proof.
  revert t. induction ks as [|k ks IH]; intros t H; simpl.
  - destruct t as [|[k e] r]; [reflexivity | exfalso; apply (H k); left; reflexivity].
  - apply IH. intros m Hm. unfold close_file in Hm. pose proof (remove_keys_sub _ _ _ Hm) as Hm'.
    destruct (H m Hm') as [E|I]; [subst m; exfalso; exact (remove_not_in k t Hm) | exact I].
Qed.

(* after CLOSE of every number the table is empty: no name has an entry *)
Theorem close_all_empty t : close_all t = [].
Proof. unfold close_all. apply fold_close_keys. auto. Qed.

Theorem close_all_no_entries t name : list_open basename (close_all t) name = [].
Proof. rewrite close_all_empty. reflexivity. Qed.

(* closing the numbers under which a name is open removes its entries (other files may stay open) *)
Theorem close_number_removes t n e name :
  In e (list_open basename (close_file t n) name) -> In e (list_open basename t name).
Proof. apply list_open_remove. Qed.

(* 3. a name without an entry: OPEN in every mode (in particular OUTPUT and APPEND, which create) gets its
      lock, NAME and KILL are not refused *)
Theorem open_free_name t name number mode lock access :
  list_open basename t name = [] -> is_ok (open_file basename t name number mode lock access) = true.
Proof.
  intro H. unfold open_file. rewrite H. simpl. rewrite andb_false_r.
  destruct (number =? 0); reflexivity.
Qed.

Theorem dev_open_free_name t name number mode lock access :
  list_open basename t name = [] ->
  snd (dev_open basename t (Ok tt) name number mode lock access (Ok tt)) = Ok tt.
Proof.
  intro H. unfold dev_open. pose proof (open_free_name t name number mode lock access H) as O.
  destruct (open_file basename t name number mode lock access); try discriminate. reflexivity.
Qed.

Theorem name_kill_free_name t name : list_open basename t name = [] -> require_not_open basename t name = Ok tt.
Proof. intro H. unfold require_not_open. rewrite H. reflexivity. Qed.

(* the C28e clause in one statement: on a table where `name` has no entry and `number` is free, a failed OPEN of
   `name` (any capitalisation, any mode) is followed by a successful lock acquisition for creating it *)
Theorem failed_open_then_create t resolved name name' number mode lock access stream mode' number' lock' access' :
  ~ In number (map fst t) -> list_open basename t name' = [] ->
  is_ok (snd (dev_open basename t resolved name number mode lock access stream)) = false ->
  let t1 := fst (dev_open basename t resolved name number mode lock access stream) in
  snd (dev_open basename t1 (Ok tt) name' number' mode' lock' access' (Ok tt)) = Ok tt
  /\ require_not_open basename t1 name' = Ok tt.
Proof.
  intros Hfree Hn Hfail. simpl. rewrite (failed_open_unchanged _ _ _ _ _ _ _ _ Hfree Hfail).
  split; [apply dev_open_free_name; exact Hn | apply name_kill_free_name; exact Hn].
Qed.

End Locks.
