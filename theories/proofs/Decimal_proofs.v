(* Decimal_proofs.v - assembly of the C07 theorems for the two formats Single and Double. *)
From Coq Require Import ZArith List Bool Lia ZifyBool.
From PCB Require Import lib.Result lib.PyInt lib.Harness lib.MBFPrims gen.Gen_mbf gen.Gen_dec model.MBF
  model.Decimal proofs.MBF_base proofs.Decimal_den proofs.Decimal_todec proofs.Decimal_print.
Import ListNotations.
Open Scope Z_scope.

(* the formats: the constants the proofs use, checked by computation on the regenerated classes *)
Definition is_fmt (F : dfmt) : Prop := F = Single_fmt \/ F = Double_fmt.

Lemma hb_Single : hb Single_consts = 8388608. Proof. reflexivity. Qed.
Lemma hb_Double : hb Double_consts = 36028797018963968. Proof. reflexivity. Qed.

Lemma ten_Single : mbf_denormalise Single_consts (c_ten Single_consts) = (132, 320 * hb Single_consts, false).
Proof. vm_compute. reflexivity. Qed.
Lemma ten_Double : mbf_denormalise Double_consts (c_ten Double_consts) = (132, 320 * hb Double_consts, false).
Proof. vm_compute. reflexivity. Qed.

(* --- clause 2: at most 7 / 16 significant digits *)
Lemma decimal_bound_Single b : buf_ok Single_consts b -> f_zero b = false ->
  exists num e10, f_decimal Single_consts b = Ok (num, e10) /\ Z.abs num < 10 ^ 7.
Proof.
  intros Hb Hz.
  apply (decimal_bound Single_consts Single_ok ten_Single 152 2559999744 148 4095999744
           ltac:(vm_compute; reflexivity) ltac:(vm_compute; reflexivity)
           ltac:(unfold den_norm; rewrite hb_Single; lia) b 2 Hb Hz); try (cbn; lia).
Qed.

Lemma decimal_bound_Double b : buf_ok Double_consts b -> f_zero b = false ->
  exists num e10, f_decimal Double_consts b = Ok (num, e10) /\ Z.abs num < 10 ^ 16.
Proof.
  intros Hb Hz.
  apply (decimal_bound Double_consts Double_ok ten_Double 182 10239999999999999744 178 16383999999999999744
           ltac:(vm_compute; reflexivity) ltac:(vm_compute; reflexivity)
           ltac:(unfold den_norm; rewrite hb_Double; lia) b 0 Hb Hz); try (cbn; lia).
Qed.
