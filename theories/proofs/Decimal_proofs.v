(* Decimal_proofs.v - assembly of the C07 theorems for the two formats Single and Double. *)
From Coq Require Import ZArith List Bool Lia ZifyBool.
From PCB Require Import lib.Result lib.PyInt lib.Harness lib.MBFPrims gen.Gen_mbf gen.Gen_dec model.MBF
  model.Decimal proofs.MBF_base proofs.MBF_convert proofs.Decimal_den proofs.Decimal_todec proofs.Decimal_print
  proofs.Decimal_parse proofs.Decimal_back proofs.Decimal_accum.
Import ListNotations.
Open Scope Z_scope.

(* the formats: the constants the proofs use, checked by computation on the regenerated classes *)
Definition is_fmt (F : dfmt) : Prop := F = Single_fmt \/ F = Double_fmt.

Lemma hb_Single : hb Single_consts = 8388608. Proof. reflexivity. Qed.
Lemma hb_Double : hb Double_consts = 36028797018963968. Proof. reflexivity. Qed.

Lemma ten_Single : mbf_denormalise Single_consts (c_ten Single_consts) = (132, 320 * hb Single_consts, false).
Proof. vm_compute. reflexivity. Qed.
Lemma ten_Double : mbf_denormalise Double_consts (c_ten Double_consts) = (132, 320 * hb Double_consts, false).
Proof. vm_compute. reflexivity. Qed.

(* --- clause 2: at most 7 / 16 significant digits *)
Lemma decimal_bound_Single b : buf_ok Single_consts b -> f_zero b = false ->
  exists num e10, f_decimal Single_consts b = Ok (num, e10) /\ Z.abs num < 10 ^ 7 /\ -50 <= e10 <= 36.
Proof.
  intros Hb Hz.
  assert (HS : 152 + 2 - c_bias Single_consts <= 2) by (change (c_bias Single_consts) with 152; lia).
  assert (Hbig : 2 * hb Single_consts * 2 ^ 2 <= 10 * 10 ^ c_digits Single_consts - 10).
  { rewrite hb_Single. change (c_digits Single_consts) with 7. vm_compute. discriminate. }
  destruct (decimal_bound Single_consts Single_ok ten_Single 152 2559999744 148 4095999744
           ltac:(vm_compute; reflexivity) ltac:(vm_compute; reflexivity)
           ltac:(unfold den_norm; rewrite hb_Single; lia) b 2 Hb Hz ltac:(lia) HS Hbig) as (num & e10 & H1 & H2 & H3).
  exists num, e10. split; [exact H1|]. split; [exact H2 | lia].
Qed.

Lemma decimal_bound_Double b : buf_ok Double_consts b -> f_zero b = false ->
  exists num e10, f_decimal Double_consts b = Ok (num, e10) /\ Z.abs num < 10 ^ 16 /\ -60 <= e10 <= 26.
Proof.
  intros Hb Hz.
  assert (HS : 182 + 2 - c_bias Double_consts <= 0) by (change (c_bias Double_consts) with 184; lia).
  assert (Hbig : 2 * hb Double_consts * 2 ^ 0 <= 10 * 10 ^ c_digits Double_consts - 10).
  { rewrite hb_Double. change (c_digits Double_consts) with 16. vm_compute. discriminate. }
  destruct (decimal_bound Double_consts Double_ok ten_Double 182 10239999999999999744 178 16383999999999999744
           ltac:(vm_compute; reflexivity) ltac:(vm_compute; reflexivity)
           ltac:(unfold den_norm; rewrite hb_Double; lia) b 0 Hb Hz ltac:(lia) HS Hbig) as (num & e10 & H1 & H2 & H3).
  exists num, e10. split; [exact H1|]. split; [exact H2 | lia].
Qed.

(* --- the limits of to_decimal, per format *)
Lemma top_Single : mbf_denormalise Single_consts (c_lim_top Single_consts) = (152, 2559999744, false).
Proof. vm_compute. reflexivity. Qed.
Lemma bot_Single : mbf_denormalise Single_consts (c_lim_bot Single_consts) = (148, 4095999744, false).
Proof. vm_compute. reflexivity. Qed.
Lemma top_Double : mbf_denormalise Double_consts (c_lim_top Double_consts) = (182, 10239999999999999744, false).
Proof. vm_compute. reflexivity. Qed.
Lemma bot_Double : mbf_denormalise Double_consts (c_lim_bot Double_consts) = (178, 16383999999999999744, false).
Proof. vm_compute. reflexivity. Qed.

Lemma lims_Single : den_norm Single_consts 2559999744 /\ den_norm Single_consts 4095999744 /\ 1 <= 148 /\ 148 + 4 <= 152 /\ 152 <= 255.
Proof. unfold den_norm. rewrite hb_Single. lia. Qed.
Lemma lims_Double : den_norm Double_consts 10239999999999999744 /\ den_norm Double_consts 16383999999999999744 /\ 1 <= 178 /\ 178 + 4 <= 182 /\ 182 <= 255.
Proof. unfold den_norm. rewrite hb_Double. lia. Qed.

(* to_decimal of an integer-valued number below 10^digits: no rounding anywhere *)
Lemma to_decimal_int_Single b n : buf_ok Single_consts b -> f_sval Single_consts b = n * 2 ^ 152 -> n <> 0 ->
  Z.abs n < 10 ^ 7 ->
  exists j, 0 <= j /\ f_to_decimal Single_consts b = Ok (n * 10 ^ j, - j) /\ 10 ^ 6 <= Z.abs n * 10 ^ j < 10 ^ 7.
Proof.
  apply (to_decimal_int Single_consts Single_ok 152 2559999744 148 4095999744 top_Single bot_Single lims_Single).
  - change (c_digits Single_consts) with 7. lia.
  - rewrite hb_Single. change (c_digits Single_consts) with 7. vm_compute. discriminate.
  - intros V HV. change (c_digits Single_consts) with 7 in HV. change (c_bias Single_consts) with 152.
    assert (0 < 2 ^ 152) by (apply Z.pow_pos_nonneg; lia). nia.
  - intros V HV. change (c_digits Single_consts - 1) with 6. change (c_bias Single_consts) with 152.
    replace (2 ^ 152) with (16 * 2 ^ 148) by (vm_compute; reflexivity).
    assert (0 < 2 ^ 148) by (apply Z.pow_pos_nonneg; lia). change (10 ^ 6) with 1000000. split; intros; nia.
Qed.

Lemma to_decimal_int_Double b n : buf_ok Double_consts b -> f_sval Double_consts b = n * 2 ^ 184 -> n <> 0 ->
  Z.abs n < 10 ^ 16 ->
  exists j, 0 <= j /\ f_to_decimal Double_consts b = Ok (n * 10 ^ j, - j) /\ 10 ^ 15 <= Z.abs n * 10 ^ j < 10 ^ 16.
Proof.
  apply (to_decimal_int Double_consts Double_ok 182 10239999999999999744 178 16383999999999999744 top_Double bot_Double lims_Double).
  - change (c_digits Double_consts) with 16. lia.
  - rewrite hb_Double. change (c_digits Double_consts) with 16. vm_compute. discriminate.
  - intros V HV. change (c_digits Double_consts) with 16 in HV. change (c_bias Double_consts) with 184.
    replace (2 ^ 184) with (4 * 2 ^ 182) by (vm_compute; reflexivity).
    assert (0 < 2 ^ 182) by (apply Z.pow_pos_nonneg; lia). change (10 ^ 16) with 10000000000000000 in HV. nia.
  - intros V HV. change (c_digits Double_consts - 1) with 15. change (c_bias Double_consts) with 184.
    replace (2 ^ 184) with (64 * 2 ^ 178) by (vm_compute; reflexivity).
    assert (0 < 2 ^ 178) by (apply Z.pow_pos_nonneg; lia). change (10 ^ 15) with 1000000000000000. split; intros; nia.
Qed.

(* ------------------------------------------------------------------------------------------------ *)
(* Float.to_str *)

Lemma fmt_cases F : is_fmt F -> fmt_ok (d_C F) /\ fmt_str_ok F /\
  (forall b, buf_ok (d_C F) b -> f_zero b = false ->
     exists num e10, f_decimal (d_C F) b = Ok (num, e10) /\ Z.abs num < 10 ^ c_digits (d_C F) /\ -60 <= e10 <= 36).
Proof.
  intros [->| ->].
  - split; [exact Single_ok|]. split; [exact Single_str_ok|]. intros b Hb Hz.
    destruct (decimal_bound_Single b Hb Hz) as (num & e10 & H1 & H2 & H3). exists num, e10. repeat split; try assumption; lia.
  - split; [exact Double_ok|]. split; [exact Double_str_ok|]. intros b Hb Hz.
    destruct (decimal_bound_Double b Hb Hz) as (num & e10 & H1 & H2 & H3). exists num, e10. repeat split; try assumption; lia.
Qed.

(* clause 2: every float prints, with at most `digits` significant digits *)
Theorem to_str_digits F b ls ts : is_fmt F -> buf_ok (d_C F) b ->
  exists s, f_to_str F b ls ts = Ok s /\ printed_sig_digits s <= c_digits (d_C F).
Proof.
  intros HF Hb. destruct (fmt_cases F HF) as (HC & HS & Hdec).
  unfold f_to_str. rewrite is_zero_spec. destruct (f_zero b) eqn:Hz.
  - eexists. split; [reflexivity|]. destruct HF as [->| ->]; destruct ls, ts; vm_compute; discriminate.
  - destruct (Hdec b Hb Hz) as (num & e10 & Hd & Hnum & _). rewrite Hd. cbn [bind fst snd].
    eexists. split; [reflexivity|].
    apply (str_of_decimal_sig F (sign_str (mbf_is_negative (d_C F) b) ls) num e10 ts HS (sign_plain _ _) Hnum).
Qed.

(* clause 1, printing: an integer value below 10^digits prints as exactly its digits *)
Theorem to_str_int F b n ls ts : is_fmt F -> buf_ok (d_C F) b ->
  f_sval (d_C F) b = n * 2 ^ c_bias (d_C F) -> n <> 0 -> Z.abs n < 10 ^ c_digits (d_C F) ->
  f_to_str F b ls ts = Ok (sign_str (n <? 0) ls ++ dec_str (Z.abs n) ++ (if ts then d_sigil F else [])).
Proof.
  intros HF Hb Hval Hn0 Hnd. destruct (fmt_cases F HF) as (HC & HS & _).
  assert (Hint : exists j, 0 <= j /\ f_to_decimal (d_C F) b = Ok (n * 10 ^ j, - j) /\
                           10 ^ (c_digits (d_C F) - 1) <= Z.abs n * 10 ^ j < 10 ^ c_digits (d_C F)).
  { destruct HF as [->| ->]; [apply to_decimal_int_Single | apply to_decimal_int_Double]; assumption. }
  destruct Hint as (j & Hj & Hdec & Hrange).
  assert (Hz : f_zero b = false).
  { destruct (f_zero b) eqn:E; [|reflexivity]. unfold f_sval in Hval. rewrite E in Hval.
    assert (0 < 2 ^ c_bias (d_C F)) by (apply Z.pow_pos_nonneg; [lia | rewrite (ok_bias _ HC); pose proof (mbits_ge _ HC); lia]). nia. }
  assert (Hneg : mbf_is_negative (d_C F) b = (n <? 0)).
  { rewrite (is_negative_spec _ _ HC Hb). unfold f_sval in Hval. rewrite Hz in Hval.
    pose proof (f_man_bound (d_C F) b HC) as Hm. pose proof (mbits_ge _ HC).
    assert (0 < 2 ^ (mbits (d_C F) - 1)) by (apply Z.pow_pos_nonneg; lia).
    assert (0 < 2 ^ f_exp b) by (apply Z.pow_pos_nonneg; [lia | pose proof (f_exp_bound _ _ HC Hb); lia]).
    assert (0 < 2 ^ c_bias (d_C F)) by (apply Z.pow_pos_nonneg; [lia | rewrite (ok_bias _ HC); lia]).
    destruct (f_neg (d_C F) b), (Z.ltb_spec n 0); try reflexivity; nia. }
  unfold f_to_str. rewrite is_zero_spec, Hz. unfold f_decimal. rewrite Hdec. cbn [bind fst snd].
  unfold mbf_to_str_carry.
  assert (Habs : Z.abs (n * 10 ^ j) = Z.abs n * 10 ^ j).
  { rewrite Z.abs_mul. assert (0 < 10 ^ j) by (apply Z.pow_pos_nonneg; lia). lia. }
  rewrite Habs. destruct (Z.geb_spec (Z.abs n * 10 ^ j) (10 ^ c_digits (d_C F))) as [|_]; [lia|].
  cbn [fst snd]. rewrite (str_of_decimal_int F n j ts HS Hn0 Hj Hrange), Hneg. reflexivity.
Qed.

(* ------------------------------------------------------------------------------------------------ *)
(* the scaling steps, per format (value of a den = man * 2^(exp - bias - 8)) *)

Lemma fmt_ten F : is_fmt F -> fmt_ok (d_C F) /\ mbf_denormalise (d_C F) (c_ten (d_C F)) = (132, 320 * hb (d_C F), false).
Proof. intros [->| ->]; [split; [exact Single_ok | exact ten_Single] | split; [exact Double_ok | exact ten_Double]]. Qed.

(* one division by ten: the result is below the exact quotient by at most two units of its last guard bit *)
Theorem div10_step F e m neg : is_fmt F -> den_norm (d_C F) m ->
  exists e' m', mbf_div10_den (d_C F) (e, m, neg) = Ok (e', m', neg) /\ den_norm (d_C F) m' /\
    ((e' = e - 3 /\ 5 * m' < 4 * m <= 5 * m' + 5) \/ (e' = e - 4 /\ 5 * m' < 8 * m <= 5 * m' + 10)).
Proof. intros HF Hm. destruct (fmt_ten F HF) as [HC Hten]. exact (div10_spec (d_C F) HC Hten e m neg Hm). Qed.

(* one multiplication by ten: within one unit of the last guard bit of the result *)
Theorem mul10_step F e m neg : is_fmt F -> 0 <= e -> den_norm (d_C F) m ->
  exists e' m', mbf_mul10_den (d_C F) (e, m, neg) = (e', m', neg) /\ den_norm (d_C F) m' /\
    ((e' = e + 3 /\ -4 < 4 * m' - 5 * m < 4) \/ (e' = e + 4 /\ -8 < 8 * m' - 5 * m < 8)).
Proof. intros HF He Hm. destruct (fmt_ten F HF) as [HC _]. exact (mul10_spec (d_C F) HC e m neg He Hm). Qed.

(* the carry rounding: to the nearest multiple of 256 (half a unit of the last mantissa bit) *)
Theorem carry_step F e m neg : is_fmt F -> den_norm (d_C F) m ->
  exists e' m', mbf_apply_carry_den (d_C F) (e, m, neg) = (e', m', neg) /\ den_norm (d_C F) m' /\ m' mod 256 = 0 /\
    ((e' = e /\ m' = 256 * ((m + 128) / 256)) \/ (e' = e + 1 /\ m' = 256 * hb (d_C F) /\ 512 * hb (d_C F) - 128 <= m)).
Proof. intros HF Hm. destruct (fmt_ten F HF) as [HC _]. exact (apply_carry_spec (d_C F) HC e m neg Hm). Qed.

(* the loops of to_decimal run a bounded number of times: the decimal exponent stays in the exponent range *)
Theorem decimal_exp_range F b : is_fmt F -> buf_ok (d_C F) b -> f_zero b = false ->
  exists num e10, f_decimal (d_C F) b = Ok (num, e10) /\ Z.abs num < 10 ^ c_digits (d_C F) /\ -60 <= e10 <= 36.
Proof. intros HF. destruct (fmt_cases F HF) as (_ & _ & H). exact (H b). Qed.

(* ------------------------------------------------------------------------------------------------ *)
(* CLAUSE 4, reading: a literal whose digit string fits the mantissa is stored less than one unit in the
   last binary place away from its decimal value *)

Lemma float_safe_ok hard r p v : float_safe hard r p = Ok v -> hard = true -> r = Ok v.
Proof.
  intros H ->. destruct r as [a|e|x|]; cbn in H; try discriminate; [exact H|].
  destruct x as [|q|q]; try discriminate.
  destruct q as [q|q|]; try discriminate. destruct q as [q|q|]; try discriminate. destruct q as [q|q|]; discriminate.
Qed.

Lemma from_decimal_zero C e : fmt_ok C -> mbf_from_decimal C (zeros (c_size C)) 0 e = Ok (zeros (c_size C)).
Proof. intros HC. unfold mbf_from_decimal, mbf_from_int. cbn [Z.eqb bind]. reflexivity. Qed.

Theorem parse_err word allow F b :
  let t := nonblank (stripped word) in
  (forall r, stripped word <> 38 :: r) -> is_fmt F ->
  from_repr true word allow = Ok (d_mk F b) -> f_zero b = false ->
  Z.abs (doc_mantissa t) < 2 ^ mbits (d_C F) -> doc_exp10 t <= 62 ->
  let Y := f_sval (d_C F) b in
  let B := 2 ^ c_bias (d_C F) in
  let U := 2 ^ f_exp b in
  let k := doc_exp10 t in
  buf_ok (d_C F) b /\
  (if 0 <=? k then Z.abs (Y - doc_mantissa t * 10 ^ k * B) < U
   else Z.abs (Y * 10 ^ (- k) - doc_mantissa t * B) < U * 10 ^ (- k)).
Proof.
  cbv zeta. intros Hamp HF Hrepr Hnz Hfit Hk62.
  destruct (fmt_ten F HF) as [HC Hten].
  unfold from_repr in Hrepr. fold (stripped word) in Hrepr. set (w := stripped word) in *.
  assert (Hmk : forall x, VInt x <> d_mk F b) by (intros x; destruct HF as [->| ->]; discriminate).
  destruct w as [|c0 r0] eqn:Ew.
  { injection Hrepr as H. exfalso. exact (Hmk _ H). }
  rewrite <- Ew in *. destruct (Z.eqb_spec c0 38) as [->|Hc]; [exfalso; apply (Hamp r0); exact Ew|].
  assert (Hfloat : from_repr_float true w allow = Ok (d_mk F b)).
  { destruct (int_from_str w) as [x|e|x|]; try discriminate.
    - injection Hrepr as H. exfalso. exact (Hmk _ H).
    - destruct (e =? err_overflow); [exact Hrepr | discriminate].
    - destruct (x =? host_ValueError); [exact Hrepr | discriminate]. }
  clear Hrepr. unfold from_repr_float in Hfloat.
  pose proof (str_to_decimal_spec w allow) as Hspec. cbv zeta in Hspec.
  destruct (str_to_decimal w allow) as [[[dbl m] e]|e|x|]; try discriminate.
  2:{ destruct (x =? host_ValueError); discriminate. }
  destruct Hspec as (_ & Hdbl & Hm & He). rewrite <- Hm, <- He in *. clear Hm He.
  unfold from_decimal_safe, rmap in Hfloat.
  destruct (float_safe true _ _) as [b0| | |] eqn:Hfs; cbn [bind] in Hfloat; try discriminate.
  apply float_safe_ok in Hfs; [|reflexivity].
  assert (HFb : (if dbl then Double_fmt else Single_fmt) = F /\ b0 = b).
  { destruct dbl, HF as [->| ->]; cbn [d_mk Double_fmt Single_fmt] in Hfloat; try discriminate;
      injection Hfloat as ->; split; reflexivity. }
  destruct HFb as [HFeq ->]. rewrite HFeq in Hfs. clear Hfloat.
  set (C := d_C F) in *.
  (* zero mantissa gives zero *)
  destruct (Z.eq_dec m 0) as [->|Hm0].
  { rewrite (from_decimal_zero C e HC) in Hfs. injection Hfs as <-. rewrite (f_zero_zeros C HC) in Hnz. discriminate. }
  destruct (Z.leb_spec 0 e) as [Hpos|Hneg].
  - (* multiplications *)
    rewrite <- (Z2Nat.id e Hpos) in Hfs.
    destruct (from_decimal_mul_err C HC m (Z.to_nat e) b Hm0 Hfit ltac:(lia) Hfs) as (Hb & _ & Herr).
    rewrite Z2Nat.id in Herr by lia. split; [exact Hb | exact Herr].
  - replace e with (- Z.of_nat (Z.to_nat (- e))) in Hfs by lia.
    destruct (from_decimal_div_err C HC Hten m (Z.to_nat (- e)) b Hm0 Hfit Hfs Hnz) as (Hb & Herr).
    rewrite Z2Nat.id in Herr by lia. split; [exact Hb | exact Herr].
Qed.

(* CLAUSE 4, printing, accumulated over the dividing loop of to_decimal: when the loop stops after j passes
   the scaled den is below (exact value / 10^j) by less than 128 units of its last guard bit, i.e. less
   than half a unit of the last mantissa bit *)
Theorem to_decimal_div_loop_err F b : is_fmt F -> buf_ok (d_C F) b -> f_zero b = false ->
  let C := d_C F in
  exists e1 m1 j,
    mbf_to_decimal_core_loop_103 1000 C b (c_lim_bot C) (c_lim_top C) (mbf_denormalise C (c_lim_top C))
      (mbf_denormalise C (c_lim_bot C)) (mbf_denormalise C b) 0 = Ok ((e1, m1, f_neg C b), j) /\
    mbf_abs_gt_den C (e1, m1, f_neg C b) (mbf_denormalise C (c_lim_top C)) = false /\
    den_norm C m1 /\ 0 <= j <= 62 /\
    10 ^ j * m1 <= 256 * f_man C b * 2 ^ (f_exp b - e1) < 10 ^ j * m1 + 128 * 10 ^ j.
Proof.
  intros HF Hb Hz. cbv zeta. destruct (fmt_ten F HF) as [HC Hten].
  destruct HF as [->| ->]; cbn [d_C Single_fmt Double_fmt] in *.
  - rewrite top_Single. apply (to_decimal_div_loop Single_consts HC Hten b 152 _ _ _ Hb Hz). lia.
  - rewrite top_Double. apply (to_decimal_div_loop Double_consts HC Hten b 182 _ _ _ Hb Hz). lia.
Qed.
