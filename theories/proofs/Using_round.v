(* C08: the rounding arithmetic of to_str_fixed (incl. the D08a repair) is integer rounding half up of
   mantissa * 10^exponent at the field's last decimal, for ALL pairs; the exponent of a ^^^^ field without
   digit positions. *)
From Coq Require Import ZArith List Bool Lia ZifyBool.
From PCB Require Import lib.Result lib.PyInt lib.Harness gen.Gen_using model.Using
  proofs.Using_proofs proofs.Using_digits.
Import ListNotations.
Open Scope Z_scope.

(* m * 10^s (m >= 0) rounded to the nearest integer, halves up *)
Definition round_half_up_scaled (m s : Z) : Z :=
  if 0 <=? s then m * 10 ^ s else (2 * m + 10 ^ (- s)) / (2 * 10 ^ (- s)).

(* it is the rounding: N - 1/2 <= m * 10^s < N + 1/2, in integers *)
Lemma round_half_up_scaled_spec m s : 0 <= m -> s < 0 ->
  let N := round_half_up_scaled m s in
  (2 * N - 1) * 10 ^ (- s) <= 2 * m < (2 * N + 1) * 10 ^ (- s).
Proof.
  intros Hm Hs. cbv zeta. unfold round_half_up_scaled. replace (0 <=? s) with false by lia.
  assert (HP : 0 < 10 ^ (- s)) by (apply Z.pow_pos_nonneg; lia).
  remember (10 ^ (- s)) as P eqn:EP. clear EP.
  pose proof (Z.div_mod (2 * m + P) (2 * P) ltac:(lia)) as Hdm.
  pose proof (Z.mod_pos_bound (2 * m + P) (2 * P) ltac:(lia)) as Hb.
  remember ((2 * m + P) / (2 * P)) as q eqn:Eq. clear Eq. nia.
Qed.

(* the regenerated small-value rounding of to_str_fixed (D08a) *)
Lemma using_round_small_spec d nw m nd :
  0 < d -> nw <= 0 -> 0 <= m <= 10 ^ d ->
  using_round_small d nw m nd = (round_half_up_scaled m (nw - d), - nd).
Proof.
  intros Hd Hnw Hm. unfold using_round_small, round_half_up_scaled.
  replace (0 <=? nw - d) with false by lia. replace (- (nw - d)) with (d - nw) by lia.
  rewrite Z.abs_eq by lia. cbv zeta. f_equal.
  assert (HPd : 0 < 10 ^ d) by (apply Z.pow_pos_nonneg; lia).
  destruct (Z.eq_dec nw 0) as [->|Hne].
  - replace (d - 0) with d by lia. rewrite Z.eqb_refl. cbn [andb].
    destruct (Z.geb (2 * m) (10 ^ d)) eqn:E.
    + change (b2z true) with 1. apply (Z.div_unique_pos _ _ 1 (2 * m + 10 ^ d - 2 * 10 ^ d)); lia.
    + symmetry. apply Z.div_small. lia.
  - replace (nw =? 0) with false by lia. cbn [andb b2z].
    assert (HP : 10 * 10 ^ d <= 10 ^ (d - nw)).
    { replace (d - nw) with ((- nw - 1) + 1 + d) by lia. rewrite !Z.pow_add_r by lia.
      assert (0 < 10 ^ (- nw - 1)) by (apply Z.pow_pos_nonneg; lia). rewrite Z.pow_1_r. nia. }
    symmetry. apply Z.div_small. lia.
Qed.

(* Whenever to_str_fixed does the arithmetic itself (the full-precision pair has no more decimals than the
   field, or the value is below one unit of the last decimal), the number shown is mantissa * 10^exponent
   rounded half up at the last decimal of the field - for every pair with |mantissa| <= 10^digits. *)
Theorem to_str_fixed_rounding v n_dec fd g m0 e0 :
  nv_zero v = false -> to_decimal v (nv_digits v) = Ok (m0, e0) -> 0 <= n_dec ->
  Z.abs m0 <= 10 ^ nv_digits v ->
  (- e0 <= n_dec \/ nv_digits v - (- e0 - n_dec) <= 0) ->
  exists ip fp,
    to_str_fixed v n_dec fd g
      = Ok (grp g ip ++ (if (0 <? n_dec) || fd then [cDOT] else []) ++ fp)
    /\ Z.of_nat (length fp) = n_dec
    /\ Forall is_digit (ip ++ fp)
    /\ dval (ip ++ fp) = round_half_up_scaled (Z.abs m0) (e0 + n_dec).
Proof.
  intros Hz Hd Hnd Hm Hcase.
  assert (Hdig : 0 < nv_digits v) by (unfold nv_digits; destruct (nv_dbl v); unfold using_digits_double, using_digits_single; lia).
  destruct (Z_le_gt_dec (- e0) n_dec) as [H1|H1].
  - (* no rounding needed *)
    assert (Hp : fixed_pair v n_dec = Ok (m0, e0)).
    { unfold fixed_pair. rewrite Hd. cbn [bind fst snd]. replace (- e0 >? n_dec) with false by lia. reflexivity. }
    destruct (to_str_fixed_digits v n_dec fd g m0 e0 Hz Hp Hnd H1) as [ip [fp [E1 [E2 [E3 E4]]]]].
    exists ip, fp. repeat split; auto. rewrite E4. unfold round_half_up_scaled.
    replace (0 <=? e0 + n_dec) with true by lia. rewrite (Z.add_comm n_dec e0). reflexivity.
  - destruct Hcase as [Hc|Hc]; [lia|].
    assert (Hp : fixed_pair v n_dec
                 = Ok (round_half_up_scaled (Z.abs m0) (e0 + n_dec), - n_dec)).
    { unfold fixed_pair. rewrite Hd. cbn [bind fst snd]. replace (- e0 >? n_dec) with true by lia.
      unfold using_n_work. replace (nv_digits v - (- e0 - n_dec) >? 0) with false by lia.
      f_equal.
      assert (Hrs := using_round_small_spec (nv_digits v) (nv_digits v - (- e0 - n_dec)) (Z.abs m0) n_dec
                       Hdig Hc ltac:(lia)).
      unfold using_round_small in *. rewrite Z.abs_involutive in Hrs. rewrite Hrs. f_equal. f_equal. lia. }
    set (N := round_half_up_scaled (Z.abs m0) (e0 + n_dec)) in *.
    destruct (to_str_fixed_digits v n_dec fd g N (- n_dec) Hz Hp Hnd ltac:(lia)) as [ip [fp [E1 [E2 [E3 E4]]]]].
    exists ip, fp. repeat split; auto. rewrite E4. replace (n_dec + - n_dec) with 0 by lia.
    assert (0 <= N).
    { unfold N, round_half_up_scaled. replace (0 <=? e0 + n_dec) with false by lia.
      apply Z.div_pos; [|]; assert (0 < 10 ^ (- (e0 + n_dec))) by (apply Z.pow_pos_nonneg; lia); lia. }
    rewrite Z.pow_0_r. lia.
Qed.

(* a ^^^^ field whose only digit position went to the sign (`#^^^^`): no digits, and the exponent shown is
   the decimal exponent e of to_decimal(0), i.e. the number of times the value had to be divided by ten to
   get below 1: the count of integer digits for |x| >= 1 (the code's " E+01" for 1), 0 for every |x| < 1 *)
Theorem sci_no_digit_positions v fd m e :
  nv_zero v = false -> to_decimal v 0 = Ok (m, e) ->
  exists dd,
    to_str_scientific v 0 0 fd
      = Ok ((if fd then [cDOT] else []) ++ exp_sign v :: (if e <? 0 then cMINUS else cPLUS) :: dd)
    /\ (2 <= length dd)%nat /\ Forall is_digit dd /\ dval dd = Z.abs e.
Proof.
  intros Hz Hd.
  assert (Hw : Z.min (nv_digits v) (0 + 0) = 0).
  { unfold nv_digits. destruct (nv_dbl v); unfold using_digits_double, using_digits_single; lia. }
  assert (Hp : sci_pair v (Z.min (nv_digits v) (0 + 0)) = Ok (m, e)).
  { rewrite Hw. unfold sci_pair. rewrite Hd. cbn [bind fst snd]. unfold using_sci_carry.
    change (Z.gtb 0 0) with false. cbn [andb]. f_equal. f_equal. lia. }
  destruct (to_str_scientific_digits v 0 0 fd m e Hz ltac:(lia) ltac:(lia) Hp ltac:(rewrite Hw; lia))
    as [ip [fp [dd [E1 [E2 [E3 [_ [_ [E6 [E7 E8]]]]]]]]]].
  exists dd. destruct ip; [|simpl in E2; lia]. destruct fp; [|simpl in E3; lia].
  rewrite E1. replace (e - 0) with e in * by lia. change (0 <? 0) with false. cbn [orb app].
  repeat split; auto.
Qed.
