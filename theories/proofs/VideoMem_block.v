(* C34: block write = the same bytes POKEd one after the other (pointwise equal screens), for the CGA, EGA and
   Tandy mode 6 mappers and for text memory; what a single POKE does. *)
From Coq Require Import ZArith List Bool Lia ZifyBool.
From PCB Require Import lib.Result lib.PyInt gen.Gen_vmem model.VideoMem
  proofs.VideoMem_arith proofs.VideoMem_bits proofs.VideoMem_walk proofs.VideoMem_get proofs.VideoMem_set.
Import ListNotations.
Open Scope Z_scope.
Ltac Zify.zify_post_hook ::= Z.to_euclidean_division_equations.

(* ---------------------------------------------------------------- bytes POKEd one after the other *)
Fixpoint px_pokes (P : screen -> Z -> Z -> screen) (s : screen) (addr : Z) (bs : list Z) : screen :=
  match bs with
  | [] => s
  | b :: r => px_pokes P (P s addr b) (addr + 1) r
  end.

Lemma px_pokes_items P wr m : (forall s a b, seq_eq (P s a b) (item_write wr m s a b)) ->
  forall bs s1 s2 addr, seq_eq s1 s2 ->
  seq_eq (px_pokes P s1 addr bs) (px_pokes (item_write wr m) s2 addr bs).
Proof.
  intros HP. induction bs as [|b r IH]; intros s1 s2 addr H; [exact H|].
  cbn [px_pokes]. apply IH. eapply seq_eq_trans; [apply HP|]. apply item_write_cong. exact H.
Qed.

Lemma nthZ_cons b r i : 0 <= i -> nthZ (b :: r) (i + 1) = nthZ r i.
Proof. intros H. unfold nthZ. replace (Z.to_nat (i + 1)) with (S (Z.to_nat i)) by lia. reflexivity. Qed.

Lemma write_range_shift wr m b r addr c : fac m = 1 -> forall s i, 0 <= i ->
  write_range wr m (fun t => t) (b :: r) addr s (i + 1) c = write_range wr m (fun t => t) r (addr + 1) s i c.
Proof.
  intros F. induction c as [|c IH]; intros s i Hi; [reflexivity|].
  cbn [write_range]. rewrite nthZ_cons by exact Hi. rewrite F.
  replace (addr + (i + 1) * 1) with (addr + 1 + i * 1) by lia.
  apply IH. lia.
Qed.

Lemma px_pokes_range wr m : fac m = 1 -> forall bs s addr,
  px_pokes (item_write wr m) s addr bs = write_range wr m (fun t => t) bs addr s 0 (length bs).
Proof.
  intros F. induction bs as [|b r IH]; intros s addr; [reflexivity|].
  cbn [px_pokes length write_range]. rewrite F, Z.mul_0_l, Z.add_0_r.
  change (nthZ (b :: r) 0) with b.
  rewrite (write_range_shift wr m b r addr (length r) F _ 0) by lia. apply IH.
Qed.

Lemma zlen_nat {A} (l : list A) : Z.to_nat (zlen l) = length l.
Proof. unfold zlen. lia. Qed.

(* ---------------------------------------------------------------- CGA *)
Lemma cga_set_items m s addr bs : wf_gmode m = true -> vm_kind m = 0 ->
  seq_eq (cga_set m s addr bs) (write_range (cga_wr m) m (fun t => t) bs addr s 0 (length bs)).
Proof.
  intros W K. unfold cga_set.
  assert (F : fac m = 1) by (apply fac_not_tandy; lia).
  assert (P : vm_ppb m = peff m) by (unfold peff; lia).
  rewrite P.
  replace (walk m addr (zlen bs) 1) with (walk m addr (zlen bs) (fac m)) by (rewrite F; reflexivity).
  rewrite <- zlen_nat. apply set_spans_walk. exact W.
Qed.

Lemma cga_poke_item m s a b : wf_gmode m = true -> vm_kind m = 0 ->
  seq_eq (cga_set m s a [b]) (item_write (cga_wr m) m s a b).
Proof.
  intros W K. eapply seq_eq_trans; [apply cga_set_items; assumption|].
  cbn [length write_range]. rewrite Z.mul_0_l, Z.add_0_r. apply seq_eq_refl.
Qed.

Theorem cga_block_pokes m s addr bs : wf_gmode m = true -> vm_kind m = 0 ->
  seq_eq (cga_set m s addr bs) (px_pokes (fun s a b => cga_set m s a [b]) s addr bs).
Proof.
  intros W K. eapply seq_eq_trans; [apply cga_set_items; assumption|].
  apply seq_eq_sym.
  eapply seq_eq_trans; [apply (px_pokes_items _ (cga_wr m) m); [|apply seq_eq_refl]|].
  - intros s0 a b. apply cga_poke_item; assumption.
  - rewrite px_pokes_range by (apply fac_not_tandy; lia). apply seq_eq_refl.
Qed.

(* ---------------------------------------------------------------- EGA *)
Lemma ega_peff m : wf_gmode m = true -> vm_kind m = 1 -> peff m = 8 /\ fac m = 1.
Proof.
  intros W K. assert (F : fac m = 1) by (apply fac_not_tandy; lia).
  unfold peff. rewrite F. unfold wf_gmode in W. rewrite K in W. cbn [Z.eqb Pos.eqb] in W. lia.
Qed.

Lemma ega_set_items m s mask_reg addr bs : wf_gmode m = true -> vm_kind m = 1 -> ega_mask m mask_reg <> 0 ->
  seq_eq (ega_set m s mask_reg addr bs)
         (write_range (ega_wr (ega_mask m mask_reg)) m (fun t => t) bs addr s 0 (length bs)).
Proof.
  intros W K Hm. unfold ega_set. cbv zeta.
  replace (ega_mask m mask_reg =? 0) with false by lia.
  destruct (ega_peff m W K) as [P F].
  rewrite <- P.
  replace (walk m addr (zlen bs) 1) with (walk m addr (zlen bs) (fac m)) by (rewrite F; reflexivity).
  rewrite <- zlen_nat. apply set_spans_walk. exact W.
Qed.

Lemma ega_poke_item m s mask_reg a b : wf_gmode m = true -> vm_kind m = 1 -> ega_mask m mask_reg <> 0 ->
  seq_eq (ega_set m s mask_reg a [b]) (item_write (ega_wr (ega_mask m mask_reg)) m s a b).
Proof.
  intros W K Hm. eapply seq_eq_trans; [apply ega_set_items; assumption|].
  cbn [length write_range]. rewrite Z.mul_0_l, Z.add_0_r. apply seq_eq_refl.
Qed.

Lemma px_pokes_id (P : screen -> Z -> Z -> screen) : (forall s a b, P s a b = s) ->
  forall bs s addr, px_pokes P s addr bs = s.
Proof. intros H. induction bs as [|b r IH]; intros s addr; [reflexivity|]. cbn [px_pokes]. rewrite H. apply IH. Qed.

Theorem ega_block_pokes m s mask_reg addr bs : wf_gmode m = true -> vm_kind m = 1 ->
  seq_eq (ega_set m s mask_reg addr bs) (px_pokes (fun s a b => ega_set m s mask_reg a [b]) s addr bs).
Proof.
  intros W K. destruct (Z.eq_dec (ega_mask m mask_reg) 0) as [E|E].
  - rewrite px_pokes_id.
    + unfold ega_set. cbv zeta. rewrite E. apply seq_eq_refl.
    + intros s0 a b. unfold ega_set. cbv zeta. rewrite E. reflexivity.
  - eapply seq_eq_trans; [apply ega_set_items; assumption|].
    apply seq_eq_sym.
    eapply seq_eq_trans; [apply (px_pokes_items _ (ega_wr (ega_mask m mask_reg)) m); [|apply seq_eq_refl]|].
    + intros s0 a b. apply ega_poke_item; assumption.
    + rewrite px_pokes_range by (apply fac_not_tandy; lia). apply seq_eq_refl.
Qed.

(* ---------------------------------------------------------------- Tandy mode 6 *)
(* write number i of the block: through the plane of the parity of its address *)
Definition tw (m : vmode) (addr : Z) (bs : list Z) (i : Z) (s : screen) : screen :=
  item_write (tandy_wr ((addr + i) mod 2)) m s (addr + i) (nthZ bs i).

Fixpoint wseq (m : vmode) (addr : Z) (bs : list Z) (s : screen) (i : Z) (cnt : nat) : screen :=
  match cnt with
  | O => s
  | S c => wseq m addr bs (tw m addr bs i s) (i + 1) c
  end.

(* the writes of plane k among i, i+1, .. in order *)
Fixpoint wpass (k : Z) (m : vmode) (addr : Z) (bs : list Z) (s : screen) (i : Z) (cnt : nat) : screen :=
  match cnt with
  | O => s
  | S c => wpass k m addr bs (if (addr + i) mod 2 =? k then tw m addr bs i s else s) (i + 1) c
  end.

Lemma tw_cong m addr bs i s1 s2 : seq_eq s1 s2 -> seq_eq (tw m addr bs i s1) (tw m addr bs i s2).
Proof. intros H. unfold tw. apply item_write_cong. exact H. Qed.

Lemma wpass_cong k m addr bs cnt : forall s1 s2 i, seq_eq s1 s2 ->
  seq_eq (wpass k m addr bs s1 i cnt) (wpass k m addr bs s2 i cnt).
Proof.
  induction cnt as [|c IH]; intros s1 s2 i H; [exact H|].
  cbn [wpass]. apply IH. destruct ((addr + i) mod 2 =? k); [apply tw_cong; exact H | exact H].
Qed.

Lemma item_write_comm wr1 wr2 m s a1 b1 a2 b2 :
  (forall c1 i1 c2 i2 old, wr1 c1 i1 (wr2 c2 i2 old) = wr2 c2 i2 (wr1 c1 i1 old)) ->
  seq_eq (item_write wr1 m (item_write wr2 m s a2 b2) a1 b1)
         (item_write wr2 m (item_write wr1 m s a1 b1) a2 b2).
Proof.
  intros Hc. unfold item_write.
  destruct (vmem_get_coords m a1) as [[p1 x1] y1]. destruct (vmem_get_coords m a2) as [[p2 x2] y2].
  destruct (vmem_coord_ok m p1 x1 y1), (vmem_coord_ok m p2 x2 y2); try apply seq_eq_refl.
  intros p y x. unfold set_run.
  destruct ((p =? p1) && (y =? y1) && (x1 <=? x) && (x <? x1 + peff m));
    destruct ((p =? p2) && (y =? y2) && (x2 <=? x) && (x <? x2 + peff m)); try reflexivity.
  apply Hc.
Qed.

Lemma tw_comm m addr bs i j s : (addr + i) mod 2 <> (addr + j) mod 2 ->
  seq_eq (tw m addr bs j (tw m addr bs i s)) (tw m addr bs i (tw m addr bs j s)).
Proof.
  intros Hne. unfold tw. apply item_write_comm. intros c1 i1 c2 i2 old.
  apply tandy_wr_comm; [apply Z.mod_pos_bound; lia | apply Z.mod_pos_bound; lia | lia].
Qed.

(* a plane-1 write moves across the plane-0 writes *)
Lemma comm_pass m addr bs i : (addr + i) mod 2 = 1 -> forall c s j,
  seq_eq (wpass 0 m addr bs (tw m addr bs i s) j c) (tw m addr bs i (wpass 0 m addr bs s j c)).
Proof.
  intros Hi. induction c as [|c IH]; intros s j; [apply seq_eq_refl|].
  cbn [wpass]. destruct ((addr + j) mod 2 =? 0) eqn:Ej.
  - eapply seq_eq_trans; [|apply IH].
    apply wpass_cong. apply tw_comm. lia.
  - apply IH.
Qed.

Lemma wseq_passes m addr bs cnt : forall s i,
  seq_eq (wseq m addr bs s i cnt) (wpass 1 m addr bs (wpass 0 m addr bs s i cnt) i cnt).
Proof.
  induction cnt as [|c IH]; intros s i; [apply seq_eq_refl|].
  cbn [wseq]. eapply seq_eq_trans; [apply IH|].
  cbn [wpass].
  destruct ((addr + i) mod 2 =? 0) eqn:E0.
  - replace ((addr + i) mod 2 =? 1) with false by lia. apply seq_eq_refl.
  - replace ((addr + i) mod 2 =? 1) with true by lia.
    apply wpass_cong. apply comm_pass. lia.
Qed.

(* a pass is a stride-2 walk over the items of its plane *)
Definition tb (first : Z) : Z -> Z := fun t => first + 2 * t.

Lemma wpass_skip k m addr bs s i c : (addr + i) mod 2 <> k ->
  wpass k m addr bs s i (S c) = wpass k m addr bs s (i + 1) c.
Proof. intros H. cbn [wpass]. replace ((addr + i) mod 2 =? k) with false by lia. reflexivity. Qed.

Lemma wpass_take k m addr bs s i c : (addr + i) mod 2 = k ->
  wpass k m addr bs s i (S c) = wpass k m addr bs (tw m addr bs i s) (i + 1) c.
Proof. intros H. cbn [wpass]. replace ((addr + i) mod 2 =? k) with true by lia. reflexivity. Qed.

Lemma tw_as_item k m addr bs first t s : vm_kind m = 2 -> (k = 0 \/ k = 1) -> first = (k - addr) mod 2 ->
  tw m addr bs (first + 2 * t) s =
  item_write (tandy_wr k) m s (addr + first + t * fac m) (nthZ bs (tb first t)).
Proof.
  intros K Hk Hf. unfold tw, tb.
  assert (F : fac m = 2) by (unfold fac; rewrite K; reflexivity).
  rewrite F. replace ((addr + (first + 2 * t)) mod 2) with k by lia.
  replace (addr + (first + 2 * t)) with (addr + first + t * 2) by lia. reflexivity.
Qed.

Lemma wpass_stride k m addr bs first : vm_kind m = 2 -> (k = 0 \/ k = 1) -> first = (k - addr) mod 2 ->
  forall h s t cnt, 0 <= t -> (cnt = 2 * h \/ S cnt = 2 * h)%nat ->
  wpass k m addr bs s (first + 2 * t) cnt = write_range (tandy_wr k) m (tb first) bs (addr + first) s t h.
Proof.
  intros K Hk Hf. induction h as [|h IH]; intros s t cnt Ht Hc.
  - destruct Hc as [-> | Hc]; [reflexivity | lia].
  - assert (Hal : (addr + (first + 2 * t)) mod 2 = k) by lia.
    cbn [write_range]. rewrite <- (tw_as_item k m addr bs first t s K Hk Hf).
    destruct cnt as [|[|cnt]].
    + lia.
    + (* one write left *)
      rewrite wpass_take by exact Hal. cbn [wpass].
      assert (h = 0)%nat by lia. subst h. reflexivity.
    + rewrite wpass_take by exact Hal. rewrite wpass_skip by lia.
      replace (first + 2 * t + 1 + 1) with (first + 2 * (t + 1)) by lia.
      apply IH; lia.
Qed.

Lemma tandy_pass_items m s addr bs k : wf_gmode m = true -> vm_kind m = 2 -> (k = 0 \/ k = 1) ->
  seq_eq (tandy_set_plane m s addr bs k) (wpass k m addr bs s 0 (length bs)).
Proof.
  intros W K Hk. unfold tandy_set_plane, vmem_tandy6_set_first. cbv zeta.
  set (first := (k - addr) mod 2).
  assert (Hf : first = 0 \/ first = 1) by (unfold first; lia).
  assert (F : fac m = 2) by (unfold fac; rewrite K; reflexivity).
  assert (P : 8 = peff m).
  { unfold peff. rewrite F. unfold wf_gmode in W. rewrite K in W. cbn [Z.eqb Pos.eqb] in W. lia. }
  rewrite P.
  replace (walk m (addr + first) (tandy_half_len (zlen bs) first) 2)
    with (walk m (addr + first) (tandy_half_len (zlen bs) first) (fac m)) by (rewrite F; reflexivity).
  eapply seq_eq_trans; [apply set_spans_walk; exact W|].
  fold (tb first).
  set (h := Z.to_nat (tandy_half_len (zlen bs) first)).
  assert (Hlen : Z.of_nat (length bs) = zlen bs) by reflexivity.
  destruct Hf as [Hf0 | Hf1].
  - (* the block starts on the plane: indices 0, 2, 4 .. *)
    rewrite <- (wpass_stride k m addr bs first K Hk eq_refl h s 0 (length bs)); [|lia|].
    + rewrite Hf0. apply seq_eq_refl.
    + unfold h, tandy_half_len. rewrite Hf0. destruct (zlen bs <? 0) eqn:E; lia.
  - (* indices 1, 3, 5 .. *)
    destruct (length bs) as [|c] eqn:El.
    + assert (h = 0%nat) by (unfold h, tandy_half_len; rewrite Hf1; destruct (zlen bs <? 1) eqn:E; lia).
      rewrite H. apply seq_eq_refl.
    + rewrite wpass_skip by (unfold first in Hf1; lia).
      rewrite <- (wpass_stride k m addr bs first K Hk eq_refl h s 0 c); [|lia|].
      * rewrite Hf1. apply seq_eq_refl.
      * unfold h, tandy_half_len. rewrite Hf1. destruct (zlen bs <? 1) eqn:E; lia.
Qed.

Lemma tandy_set_items m s addr bs : wf_gmode m = true -> vm_kind m = 2 ->
  seq_eq (tandy_set m s addr bs) (wseq m addr bs s 0 (length bs)).
Proof.
  intros W K. unfold tandy_set.
  eapply seq_eq_trans; [apply tandy_pass_items; [exact W | exact K | right; reflexivity]|].
  eapply seq_eq_trans; [apply wpass_cong; apply tandy_pass_items; [exact W | exact K | left; reflexivity]|].
  apply seq_eq_sym. apply wseq_passes.
Qed.

Lemma tandy_poke_item m s a b : wf_gmode m = true -> vm_kind m = 2 ->
  seq_eq (tandy_set m s a [b]) (item_write (tandy_wr (a mod 2)) m s a b).
Proof.
  intros W K. eapply seq_eq_trans; [apply tandy_set_items; assumption|].
  cbn [length wseq]. unfold tw. rewrite Z.add_0_r. apply seq_eq_refl.
Qed.

Lemma wseq_shift m b r addr c : forall s i, 0 <= i ->
  wseq m addr (b :: r) s (i + 1) c = wseq m (addr + 1) r s i c.
Proof.
  induction c as [|c IH]; intros s i Hi; [reflexivity|].
  cbn [wseq].
  assert (E : tw m addr (b :: r) (i + 1) s = tw m (addr + 1) r i s).
  { unfold tw. rewrite nthZ_cons by exact Hi.
    replace (addr + (i + 1)) with (addr + 1 + i) by lia. reflexivity. }
  rewrite E. apply IH. lia.
Qed.

Theorem tandy_block_pokes m s addr bs : wf_gmode m = true -> vm_kind m = 2 ->
  seq_eq (tandy_set m s addr bs) (px_pokes (fun s a b => tandy_set m s a [b]) s addr bs).
Proof.
  intros W K. eapply seq_eq_trans; [apply tandy_set_items; assumption|].
  apply seq_eq_sym. revert s addr.
  induction bs as [|b r IH]; intros s addr; [apply seq_eq_refl|].
  cbn [px_pokes length wseq].
  rewrite (wseq_shift m b r addr (length r) _ 0) by lia.
  eapply seq_eq_trans; [apply IH|].
  (* same start screen up to pointwise equality *)
  assert (Hc : forall c s1 s2 i, seq_eq s1 s2 -> seq_eq (wseq m (addr + 1) r s1 i c) (wseq m (addr + 1) r s2 i c)).
  { induction c as [|c IHc]; intros s1 s2 i H; [exact H|]. cbn [wseq]. apply IHc. apply tw_cong. exact H. }
  apply Hc. eapply seq_eq_trans; [apply tandy_poke_item; assumption|].
  unfold tw. rewrite Z.add_0_r. change (nthZ (b :: r) 0) with b. apply seq_eq_refl.
Qed.
