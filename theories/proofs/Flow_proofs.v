(* C19 / C21: lemmas about the control-flow machine of model/Flow.v *)
From Coq Require Import ZArith List Bool Lia.
From PCB Require Import gen.Gen_flow model.Flow.
Import ListNotations.
Open Scope Z_scope.

(* ------------------------------------------------------------------ regenerated constants
   These are the facts about the regenerated source that the theorems depend on; each is closed by
   computation, so a change of the source breaks it here. *)

Lemma on_range : flow_on_lo = 0 /\ flow_on_hi = 255.
Proof. split; reflexivity. Qed.
Lemma error_range : flow_error_lo = 1 /\ flow_error_hi = 255.
Proof. split; reflexivity. Qed.
Lemma error_numbers :
  flow_E_NEXT_WITHOUT_FOR = 1 /\ flow_E_RETURN_WITHOUT_GOSUB = 3 /\ flow_E_ILLEGAL_FUNCTION_CALL = 5 /\
  flow_E_OVERFLOW = 6 /\ flow_E_UNDEFINED_LINE_NUMBER = 8 /\ flow_E_DIVISION_BY_ZERO = 11 /\
  flow_E_NO_RESUME = 19 /\ flow_E_RESUME_WITHOUT_ERROR = 20 /\ flow_E_FOR_WITHOUT_NEXT = 26 /\
  flow_E_WHILE_WITHOUT_WEND = 29 /\ flow_E_WEND_WITHOUT_WHILE = 30.
Proof. repeat split; reflexivity. Qed.

(* ------------------------------------------------------------------ lists *)

Lemma nth_error_skipn {A} (l : list A) i x :
  nth_error l i = Some x -> skipn i l = x :: skipn (S i) l.
Proof.
  revert i; induction l as [|a l IH]; intros [|i] H; simpl in *; try discriminate.
  - inversion H; subst. reflexivity.
  - apply IH in H. rewrite H. destruct l; reflexivity.
Qed.

Lemma nth_error_app_at {A} (pre post : list A) x : nth_error (pre ++ x :: post) (length pre) = Some x.
Proof. induction pre; simpl; auto. Qed.

Lemma nth_error_app_off {A} (pre l : list A) k : nth_error (pre ++ l) (length pre + k) = nth_error l k.
Proof. induction pre; simpl; auto. Qed.

Lemma skipn_app_at {A} (pre l : list A) : skipn (length pre) (pre ++ l) = l.
Proof. induction pre; simpl; auto. Qed.

Lemma skipn_app_off {A} (pre l : list A) k : skipn (length pre + k) (pre ++ l) = skipn k l.
Proof. induction pre; simpl; auto. Qed.

(* ------------------------------------------------------------------ state accessors *)

Lemma pc_set_pc st p : pc (set_pc st p) = p. Proof. reflexivity. Qed.
Lemma ds_set_pc st p : ds (set_pc st p) = ds st. Proof. reflexivity. Qed.
Lemma fors_set_pc st p : fors (set_pc st p) = fors st. Proof. reflexivity. Qed.
Lemma whiles_set_pc st p : whiles (set_pc st p) = whiles st. Proof. reflexivity. Qed.
Lemma gosubs_set_pc st p : gosubs (set_pc st p) = gosubs st. Proof. reflexivity. Qed.

Lemma getv_setv_same e v z : getv (setv e v z) v = z.
Proof.
  unfold getv. revert e; induction v as [|v IH]; intros [|x e]; simpl; auto.
Qed.

Lemma getv_nil v : getv [] v = 0.
Proof. unfold getv. destruct v; reflexivity. Qed.

Lemma getv_setv_other e v w z : v <> w -> getv (setv e v z) w = getv e w.
Proof.
  unfold getv. revert e w; induction v as [|v IH]; intros [|x e] [|w] H; simpl; auto; try congruence.
  - destruct w; reflexivity.
  - rewrite IH by congruence. destruct w; reflexivity.
Qed.

(* ------------------------------------------------------------------ running *)

Lemma run_steps code n : forall st t st' f,
  steps code n st = Some (t, st') ->
  run code (n + f) st = (t ++ fst (run code f st'), snd (run code f st')).
Proof.
  induction n as [|n IH]; intros st t st' f H; simpl in *.
  - inversion H; subst. simpl. destruct (run code f st'); reflexivity.
  - destruct (step code st) as [st1 out|o]; [|discriminate].
    destruct (steps code n st1) as [[t1 st2]|] eqn:E; [|discriminate].
    inversion H; subst. rewrite (IH _ _ _ f E).
    rewrite app_assoc. reflexivity.
Qed.

Lemma steps_app code n m : forall st t st' t' st'',
  steps code n st = Some (t, st') -> steps code m st' = Some (t', st'') ->
  steps code (n + m) st = Some (t ++ t', st'').
Proof.
  induction n as [|n IH]; intros st t st' t' st'' H1 H2; simpl in *.
  - inversion H1; subst. exact H2.
  - destruct (step code st) as [st1 out|o]; [|discriminate].
    destruct (steps code n st1) as [[t1 st2]|] eqn:E; [|discriminate].
    inversion H1; subst. rewrite (IH _ _ _ _ _ E H2). rewrite app_assoc. reflexivity.
Qed.

Lemma steps_one code st st' out : step code st = Go st' out -> steps code 1 st = Some (out, st').
Proof. intros H. simpl. rewrite H. rewrite app_nil_r. reflexivity. Qed.

(* a state from which the machine never halts runs out of every fuel *)
Lemma run_diverges code (P : state -> Prop) :
  (forall st, P st -> exists st' out, step code st = Go st' out /\ P st') ->
  forall fuel st, P st -> snd (run code fuel st) = OutOfFuel.
Proof.
  intros Hinv. induction fuel as [|f IH]; intros st HP; simpl; [reflexivity|].
  destruct (Hinv st HP) as (st' & out & Hs & HP'). rewrite Hs.
  specialize (IH st' HP'). destruct (run code f st'). simpl in *. exact IH.
Qed.

(* ------------------------------------------------------------------ step = statement + trap_error *)

Definition resolve (code : list stmt) (i : nat) (r : pres) : sres :=
  match r with
  | PGo st' out => Go st' out
  | PHalt o => Halt o
  | PRaise st' c epos => trap code st' i c epos
  end.

Lemma step_resolve code st : step code st = resolve code (pc st) (pstep code st).
Proof. reflexivity. Qed.

Lemma resolve_with_val code st i epos r k k' :
  (forall z, resolve code i (k z) = k' z) ->
  resolve code i (pwith_val st epos r k) = with_val code st i epos r k'.
Proof. intros H. destruct r; simpl; auto. Qed.

Lemma resolve_with_int code st i r k k' :
  (forall z, resolve code i (k z) = k' z) ->
  resolve code i (pwith_int st i r k) = with_int code st i r k'.
Proof.
  intros H. unfold pwith_int, with_int. apply resolve_with_val. intros z.
  destruct (in16 z); [apply H | reflexivity].
Qed.

Lemma resolve_jump code st i n k k' :
  (forall j, resolve code i (k j) = k' j) ->
  resolve code i (pjump code st i n k) = jump code st i n k'.
Proof. intros H. unfold pjump, jump. destruct (find_line code n); [apply H | reflexivity]. Qed.

Lemma resolve_check_while code st i w :
  resolve code i (pcheck_while code st w) = check_while code st i w.
Proof.
  unfold pcheck_while, check_while. destruct (nth_error code w) as [[]|]; try reflexivity.
  apply resolve_with_val. intros z. destruct (z =? 0); [|reflexivity].
  destruct (whiles st) as [|[? ?] ?]; reflexivity.
Qed.

Ltac resolve_tac :=
  repeat first
    [ reflexivity
    | apply resolve_check_while
    | apply resolve_with_val; intros ?
    | apply resolve_with_int; intros ?
    | apply resolve_jump; intros ?
    | match goal with |- resolve _ _ (match ?x with _ => _ end) = _ => destruct x end
    | match goal with |- resolve _ _ (if ?x then _ else _) = _ => destruct x end ].

(* ------------------------------------------------------------------ step equations *)

Section StepEq.
Variable code : list stmt.

Lemma step_at st s : nth_error code (pc st) = Some s ->
  step code st =
  let i := pc st in let d := ds st in
    match s with
    | SEndProg =>
        match resume_at d with
        | Some _ => Halt (Stopped flow_E_NO_RESUME (line_of code (Nat.pred i)))
        | None => Halt Finished
        end
    | SLine _ => Go (set_pc st (S i)) []
    | SPrint e =>
        match soft_div d e with
        | Some neg => Go (set_pc st (S i)) (soft_out neg)
        | None => with_val code st i i (eval d e) (fun z => Go (set_pc st (S i)) [z])
        end
    | SLet v e =>
        with_val code st i i (eval d e) (fun z =>
          if in16 z then Go (set_pc (set_var st v z) (S i)) [] else trap code st i flow_E_OVERFLOW i)
    | SGoto n => jump code st i n (fun j => Go (set_pc st j) [])
    | SGosub n => jump code st i n (fun j => Go (set_pc (set_gosubs st (i :: gosubs st)) j) [])
    | SReturn tgt =>
        match gosubs st with
        | [] => trap code st i flow_E_RETURN_WITHOUT_GOSUB i
        | r :: rest =>
            let st1 := set_gosubs st rest in
            match tgt with
            | None => Go (set_pc st1 (S r)) []
            | Some n => jump code st1 i n (fun j => Go (set_pc st1 j) [])
            end
        end
    | SIf c tj =>
        with_val code st i i (eval d c) (fun z =>
          if negb (z =? 0) then
            match tj with
            | Some n => jump code st i n (fun j => Go (set_pc st j) [])
            | None => Go (set_pc st (S i)) []
            end
          else
            match find_else_from (skipn (S i) code) (S i) 0 with
            | NoElse k => Go (set_pc st k) []
            | ElseAt k None => Go (set_pc st (S k)) []
            | ElseAt k (Some n) => jump code st i n (fun j => Go (set_pc st j) [])
            end)
    | SElse _ => Go (set_pc st (eol code (S i))) []
    | SOn e gosub ns =>
        with_int code st i (eval d e) (fun z =>
          if negb ((flow_on_lo <=? z) && (z <=? flow_on_hi)) then trap code st i flow_E_ILLEGAL_FUNCTION_CALL i
          else if (1 <=? z) && (z <=? Z.of_nat (length ns)) then
            let n := nth (Z.to_nat (z - 1)) ns 0 in
            jump code st i n (fun j =>
              Go (set_pc (if gosub then set_gosubs st (i :: gosubs st) else st) j) [])
          else Go (set_pc st (S i)) [])
    | SEnd => Halt Finished
    | SError e =>
        with_int code st i (eval d e) (fun z =>
          if negb ((flow_error_lo <=? z) && (z <=? flow_error_hi)) then trap code st i flow_E_ILLEGAL_FUNCTION_CALL i
          else trap code st i z i)
    | SOnErrorGoto n =>
        let set_h st :=
          set_ds st {| env := env d; err := err d; erl := erl d; onerr := n; handling := handling d;
                       resume_at := resume_at d; susp := negb (n =? 0) |} in
        if n =? 0 then
          if handling d then Halt (Stopped (err d) (erl d))
          else Go (set_pc (set_h st) (S i)) []
        else
          match find_line code n with
          | Some _ => Go (set_pc (set_h st) (S i)) []
          | None => trap code st i flow_E_UNDEFINED_LINE_NUMBER i
          end
    | SResume r =>
        match resume_at d with
        | None =>
            trap code (set_ds st {| env := env d; err := err d; erl := erl d; onerr := 0; handling := handling d;
                                    resume_at := None; susp := susp d |}) i flow_E_RESUME_WITHOUT_ERROR i
        | Some p =>
            let st1 := set_ds st {| env := env d; err := 0; erl := erl d; onerr := onerr d; handling := false;
                                    resume_at := None; susp := susp d |} in
            match r with
            | RSame => Go (set_pc st1 p) []
            | RNext => Go (set_pc st1 (next_colon code p)) []
            | RLine n => jump code st1 i n (fun j => Go (set_pc st1 j) [])
            end
        end
    | SRead vs =>
        match read_vars code st vs with
        | RdOk st' => Go (set_pc st' (S i)) []
        | RdErr st' c => trap code st' i c i
        | RdUnmodelled => Halt Unmodelled
        end
    | SData _ => Go (set_pc st (S i)) []
    | SRestore None => Go (set_pc (set_dptr st (0%nat, 0%nat)) (S i)) []
    | SRestore (Some n) => jump code st i n (fun j => Go (set_pc (set_dptr st (j, 0%nat)) (S i)) [])
    | SFor v a b s =>
        with_int code st i (eval d a) (fun va =>
        with_int code st i (eval d b) (fun vb =>
        with_int code st i (eval d s) (fun vs =>
          match scan_next (skipn (S i) code) (S i) 0 with
          | None => trap code st i flow_E_FOR_WITHOUT_NEXT i
          | Some (j, k) =>
              let nvs := vars_of_next code j in
              let name_ok := match nth_error nvs k with Some v' => Nat.eqb v' v | None => true end in
              if negb name_ok then trap code st i flow_E_NEXT_WITHOUT_FOR j
              else
                let st1 := set_var st v va in
                let st2 := set_fors st1 ({| f_var := v; f_stop := vb; f_step := vs; f_forpos := S i;
                                            f_nidx := j; f_nk := k |} :: fors st1) in
                let empty := if flow_for_dir (Z.sgn vs) then va >? vb else vb >? va in
                if empty then
                  match next_vars st2 j k (None :: map Some (skipn (S k) nvs)) with
                  | IEnded st' => Go (set_pc st' (S j)) []
                  | ILoop st' => Go st' []
                  | IErr st' c => trap code st' i c j
                  end
                else Go (set_pc st2 (S i)) []
          end)))
    | SNext vs =>
        match next_vars st i 0 (next_names vs) with
        | IEnded st' => Go (set_pc st' (S i)) []
        | ILoop st' => Go st' []
        | IErr st' c => trap code st' i c i
        end
    | SWhile c =>
        match scan_wend (skipn (S i) code) (S i) 0 with
        | None => trap code st i flow_E_WHILE_WITHOUT_WEND i
        | Some j => check_while code (set_whiles st ((i, j) :: whiles st)) i i
        end
    | SWend =>
        match pop_to_wend (whiles st) i with
        | None => trap code (set_whiles st []) i flow_E_WEND_WITHOUT_WHILE i
        | Some ((w, e) :: rest) => check_while code (set_whiles st ((w, e) :: rest)) i w
        | Some [] => Halt Unmodelled
        end
    end.
Proof.
  intros H. rewrite step_resolve. unfold pstep. rewrite H. cbv zeta.
  destruct s; resolve_tac.
Qed.

End StepEq.

(* an error that is not trapped ends the program with its message *)
Lemma trap_untrapped code st i c epos :
  onerr (ds st) = 0 \/ handling (ds st) = true ->
  trap code st i c epos = Halt (Stopped c (line_of code epos)).
Proof.
  intros [H|H]; unfold trap; rewrite H; simpl; [reflexivity|].
  rewrite andb_false_r. reflexivity.
Qed.

(* ------------------------------------------------------------------ GOSUB / RETURN / GOTO / ON *)

Section StepFacts.
Variable code : list stmt.

Lemma goto_step st n j : nth_error code (pc st) = Some (SGoto n) -> find_line code n = Some j ->
  step code st = Go (set_pc st j) [].
Proof. intros H Hj. rewrite (step_at code st _ H). unfold jump. rewrite Hj. reflexivity. Qed.

(* GOSUB records the calling statement and jumps ... *)
Lemma gosub_step st n j : nth_error code (pc st) = Some (SGosub n) -> find_line code n = Some j ->
  step code st = Go (set_pc (set_gosubs st (pc st :: gosubs st)) j) [].
Proof. intros H Hj. rewrite (step_at code st _ H). unfold jump. rewrite Hj. reflexivity. Qed.

(* ... and RETURN takes the latest record off and goes on after that statement *)
Lemma return_step st r rest : nth_error code (pc st) = Some (SReturn None) -> gosubs st = r :: rest ->
  step code st = Go (set_pc (set_gosubs st rest) (S r)) [].
Proof. intros H Hg. rewrite (step_at code st _ H). rewrite Hg. reflexivity. Qed.

Lemma return_without_gosub st tgt : nth_error code (pc st) = Some (SReturn tgt) -> gosubs st = [] ->
  step code st = trap code st (pc st) flow_E_RETURN_WITHOUT_GOSUB (pc st).
Proof. intros H Hg. rewrite (step_at code st _ H). rewrite Hg. reflexivity. Qed.

Section On.
Variables (st : state) (e : expr) (gosub : bool) (ns : list Z) (z : Z).
Hypothesis Hat : nth_error code (pc st) = Some (SOn e gosub ns).
Hypothesis Hev : eval (ds st) e = EV z.

(* ON z GOTO/GOSUB n1, ..., nk: the z-th target for 1 <= z <= k *)
Lemma on_select j : 1 <= z <= Z.of_nat (length ns) -> z <= 255 ->
  find_line code (nth (Z.to_nat (z - 1)) ns 0) = Some j ->
  step code st = Go (set_pc (if gosub then set_gosubs st (pc st :: gosubs st) else st) j) [].
Proof.
  intros Hz Hz255 Hj. rewrite (step_at code st _ Hat). cbv zeta. rewrite Hev.
  unfold with_int, with_val. assert (E : in16 z = true) by (unfold in16; lia). rewrite E.
  destruct on_range as [-> ->].
  assert (E1 : negb ((0 <=? z) && (z <=? 255)) = false) by lia. rewrite E1.
  assert (E2 : (1 <=? z) && (z <=? Z.of_nat (length ns)) = true) by lia. rewrite E2.
  unfold jump. rewrite Hj. reflexivity.
Qed.

(* falls through to the next statement for 0 and for values beyond the list (up to 255) *)
Lemma on_fall_through : z = 0 \/ Z.of_nat (length ns) < z <= 255 ->
  step code st = Go (set_pc st (S (pc st))) [].
Proof.
  intros Hz. rewrite (step_at code st _ Hat). cbv zeta. rewrite Hev.
  unfold with_int, with_val. assert (E : in16 z = true) by (unfold in16; lia). rewrite E.
  destruct on_range as [-> ->].
  assert (E1 : negb ((0 <=? z) && (z <=? 255)) = false) by lia. rewrite E1.
  assert (E2 : (1 <=? z) && (z <=? Z.of_nat (length ns)) = false) by lia. rewrite E2.
  reflexivity.
Qed.

(* Illegal function call outside 0..255 *)
Lemma on_ifc : in16 z = true -> z < 0 \/ z > 255 ->
  step code st = trap code st (pc st) flow_E_ILLEGAL_FUNCTION_CALL (pc st).
Proof.
  intros E Hz. rewrite (step_at code st _ Hat). cbv zeta. rewrite Hev.
  unfold with_int, with_val. rewrite E.
  destruct on_range as [-> ->].
  assert (E1 : negb ((0 <=? z) && (z <=? 255)) = true) by lia. rewrite E1. reflexivity.
Qed.

(* Overflow for values that are not 16-bit integers *)
Lemma on_overflow : in16 z = false ->
  step code st = trap code st (pc st) flow_E_OVERFLOW (pc st).
Proof.
  intros E. rewrite (step_at code st _ Hat). cbv zeta. rewrite Hev.
  unfold with_int, with_val. rewrite E. reflexivity.
Qed.
End On.

(* ------------------------------------------------------------------ mismatched NEXT / WEND / FOR / WHILE *)

(* a bare NEXT raises NEXT without FOR exactly when no FOR record points at it *)
Lemma next_without_for st st' c : next_vars st (pc st) 0 [None] = IErr st' c ->
  (c = flow_E_NEXT_WITHOUT_FOR <-> find_for (fors st) (pc st) 0 = None).
Proof.
  cbn [next_vars]. unfold iterate.
  destruct (find_for (fors st) (pc st) 0) as [[f below]|].
  - simpl. destruct (negb (in16 _)).
    + intros H. inversion H; subst. split; intros E; discriminate.
    + destruct (if flow_next_dir _ then _ else _); intros H; discriminate.
  - intros H. inversion H; subst. split; reflexivity.
Qed.

Lemma next_step_without_for st vs : nth_error code (pc st) = Some (SNext vs) ->
  find_for (fors st) (pc st) 0 = None ->
  step code st = trap code st (pc st) flow_E_NEXT_WITHOUT_FOR (pc st).
Proof.
  intros H Hf. rewrite (step_at code st _ H). cbv zeta.
  assert (E : next_vars st (pc st) 0 (next_names vs) = IErr st flow_E_NEXT_WITHOUT_FOR).
  { destruct vs as [|v vs]; cbn [next_names map next_vars]; unfold iterate; rewrite Hf; reflexivity. }
  rewrite E. reflexivity.
Qed.

(* NEXT v with the innermost matching record belonging to another variable *)
Lemma next_step_wrong_var st v vs f below : nth_error code (pc st) = Some (SNext (v :: vs)) ->
  find_for (fors st) (pc st) 0 = Some (f, below) -> v <> f_var f ->
  step code st = trap code st (pc st) flow_E_NEXT_WITHOUT_FOR (pc st).
Proof.
  intros H Hf Hv. rewrite (step_at code st _ H). cbv zeta.
  cbn [next_names map next_vars]. unfold iterate. rewrite Hf.
  assert (E : Nat.eqb v (f_var f) = false) by (apply Nat.eqb_neq; exact Hv).
  rewrite E. reflexivity.
Qed.

(* FOR whose bounds evaluate, with no NEXT left in the text *)
Lemma for_step_without_next st v a b s va vb vs : nth_error code (pc st) = Some (SFor v a b s) ->
  eval (ds st) a = EV va -> eval (ds st) b = EV vb -> eval (ds st) s = EV vs ->
  in16 va = true -> in16 vb = true -> in16 vs = true ->
  scan_next (skipn (S (pc st)) code) (S (pc st)) 0 = None ->
  step code st = trap code st (pc st) flow_E_FOR_WITHOUT_NEXT (pc st).
Proof.
  intros H Ea Eb Es Ha Hb Hs Hscan. rewrite (step_at code st _ H). cbv zeta.
  rewrite Ea, Eb, Es. unfold with_int, with_val. rewrite Ha, Hb, Hs, Hscan. reflexivity.
Qed.

Lemma while_step_without_wend st c : nth_error code (pc st) = Some (SWhile c) ->
  scan_wend (skipn (S (pc st)) code) (S (pc st)) 0 = None ->
  step code st = trap code st (pc st) flow_E_WHILE_WITHOUT_WEND (pc st).
Proof. intros H Hscan. rewrite (step_at code st _ H). cbv zeta. rewrite Hscan. reflexivity. Qed.

(* WEND: no WHILE record for this WEND anywhere on the stack *)
Lemma pop_to_wend_none ws j : pop_to_wend ws j = None <-> (forall w e, In (w, e) ws -> e <> j).
Proof.
  induction ws as [|[w e] ws IH]; simpl.
  - split; [intros _ w e [] | reflexivity].
  - destruct (Nat.eqb e j) eqn:E.
    + split; [discriminate|]. intros H. apply Nat.eqb_eq in E. exfalso. apply (H w e); auto.
    + rewrite IH. apply Nat.eqb_neq in E. split.
      * intros H w' e' [H1|H1]; [inversion H1; subst; exact E | eapply H; eauto].
      * intros H w' e' H1. apply (H w' e'). right. exact H1.
Qed.

Lemma wend_step_without_while st : nth_error code (pc st) = Some SWend ->
  (forall w e, In (w, e) (whiles st) -> e <> pc st) ->
  step code st = trap code (set_whiles st []) (pc st) flow_E_WEND_WITHOUT_WHILE (pc st).
Proof.
  intros H Hn. rewrite (step_at code st _ H). cbv zeta.
  apply pop_to_wend_none in Hn. rewrite Hn. reflexivity.
Qed.

End StepFacts.


(* ------------------------------------------------------------------ NEXT uses the most recent record *)

Definition rec_at (j k : nat) (f : frec) : bool := Nat.eqb (f_nidx f) j && Nat.eqb (f_nk f) k.

(* the FOR stack is searched from the top: the most recent record for this NEXT position is the one used,
   whatever older (stale) records for the same position lie below it; the records above it are dropped *)
Lemma find_for_most_recent newer f older j k :
  (forall g, In g newer -> rec_at j k g = false) -> rec_at j k f = true ->
  find_for (newer ++ f :: older) j k = Some (f, older).
Proof.
  unfold rec_at. induction newer as [|g newer IH]; intros Hn Hf; simpl.
  - rewrite Hf. reflexivity.
  - rewrite (Hn g (or_introl eq_refl)). apply IH; auto. intros g' Hg. apply Hn. right. exact Hg.
Qed.

(* ------------------------------------------------------------------ NEXT v1, v2, ... and early exits *)

(* NEXT J, I is NEXT J and, only if that loop has ended, NEXT I (at the sub-position after I) *)
Lemma next_vars_cons st j k nm rest :
  next_vars st j k (nm :: rest) =
    match iterate st j k nm with IEnded st' => next_vars st' j (S k) rest | r => r end.
Proof. reflexivity. Qed.

(* WEND of an outer loop reached after inner WHILE loops were left by a jump: their records are dropped *)
Lemma pop_to_wend_stale stale w older j :
  (forall w' e', In (w', e') stale -> e' <> j) ->
  pop_to_wend (stale ++ (w, j) :: older) j = Some ((w, j) :: older).
Proof.
  induction stale as [|[w' e'] stale IH]; intros H; simpl.
  - rewrite Nat.eqb_refl. reflexivity.
  - assert (E : Nat.eqb e' j = false) by (apply Nat.eqb_neq; apply (H w' e'); left; reflexivity).
    rewrite E. apply IH. intros w'' e'' Hin. apply (H w'' e''). right. exact Hin.
Qed.

(* GOTO changes nothing but the position: loops and subroutines that are open stay open *)
Lemma goto_keeps_state code st n j : nth_error code (pc st) = Some (SGoto n) -> find_line code n = Some j ->
  exists st', step code st = Go st' [] /\ pc st' = j /\ fors st' = fors st /\ whiles st' = whiles st /\
              gosubs st' = gosubs st /\ ds st' = ds st.
Proof.
  intros H Hj. exists (set_pc st j). rewrite (goto_step code st n j H Hj). repeat split.
Qed.

(* ------------------------------------------------------------------ IF c THEN n / ELSE n: any line number *)

(* IF c THEN n with c true jumps to line n - for every n that exists, line 0 included *)
Lemma if_then_jump code st c n z j : nth_error code (pc st) = Some (SIf c (Some n)) ->
  eval (ds st) c = EV z -> z <> 0 -> find_line code n = Some j -> step code st = Go (set_pc st j) [].
Proof.
  intros H He Hz Hj. rewrite (step_at code st _ H). cbv zeta. rewrite He. unfold with_val.
  assert (E : negb (z =? 0) = true) by (apply negb_true_iff, Z.eqb_neq; exact Hz). rewrite E.
  unfold jump. rewrite Hj. reflexivity.
Qed.

(* IF c THEN .. ELSE n with c false jumps to line n *)
Lemma if_else_jump code st c tj k n j : nth_error code (pc st) = Some (SIf c tj) ->
  eval (ds st) c = EV 0 -> find_else_from (skipn (S (pc st)) code) (S (pc st)) 0 = ElseAt k (Some n) ->
  find_line code n = Some j -> step code st = Go (set_pc st j) [].
Proof.
  intros H He Hf Hj. rewrite (step_at code st _ H). cbv zeta. rewrite He. unfold with_val. simpl negb. cbv iota.
  rewrite Hf. unfold jump. rewrite Hj. reflexivity.
Qed.
