(* C32: basic lemmas about model/Flood.v: bitmap reads/writes, scanline scans, _check_scanline *)
From Coq Require Import ZArith List Bool Lia.
From PCB Require Import lib.Result lib.PyInt model.Flood.
Import ListNotations.
Open Scope Z_scope.

(* ---------------------------------------------------------------- rows *)

Lemma set_row_length r i xl xr f : length (set_row r i xl xr f) = length r.
Proof. revert i; induction r as [|c t IH]; intro i; simpl; [reflexivity | now rewrite IH]. Qed.

Lemma nth_set_row r : forall i xl xr f k d, (k < length r)%nat ->
  nth k (set_row r i xl xr f) d =
  if (xl <=? i + Z.of_nat k) && (i + Z.of_nat k <=? xr) then f (i + Z.of_nat k) else nth k r d.
Proof.
  induction r as [|c t IH]; intros i xl xr f k d Hk; simpl in Hk; [lia|].
  destruct k as [|k].
  - cbn [set_row nth]. replace (i + Z.of_nat 0) with i by lia. reflexivity.
  - cbn [set_row nth]. rewrite IH by lia.
    replace (i + 1 + Z.of_nat k) with (i + Z.of_nat (S k)) by lia. reflexivity.
Qed.

Lemma set_rows_length rs j ox y xl xr f : length (set_rows rs j ox y xl xr f) = length rs.
Proof. revert j; induction rs as [|r t IH]; intro j; simpl; [reflexivity | now rewrite IH]. Qed.

Lemma nth_set_rows rs : forall j ox y xl xr f k,
  nth k (set_rows rs j ox y xl xr f) [] =
  if j + Z.of_nat k =? y then set_row (nth k rs []) ox xl xr f else nth k rs [].
Proof.
  induction rs as [|r t IH]; intros j ox y xl xr f k.
  - cbn [set_rows]. destruct k; cbn [nth set_row]; destruct (_ =? _); reflexivity.
  - destruct k as [|k].
    + cbn [set_rows nth]. replace (j + Z.of_nat 0) with j by lia. reflexivity.
    + cbn [set_rows nth]. rewrite IH.
      replace (j + 1 + Z.of_nat k) with (j + Z.of_nat (S k)) by lia. reflexivity.
Qed.

(* ---------------------------------------------------------------- bitmap *)

Lemma inb_fill_range m y xl xr f x' y' : inb (tile_range m y xl xr f) x' y' = inb m x' y'.
Proof.
  unfold inb, tile_range, zlen; cbn [org_x org_y rows].
  rewrite set_rows_length, nth_set_rows.
  destruct (org_y m + Z.of_nat (Z.to_nat (y' - org_y m)) =? y); [rewrite set_row_length|]; reflexivity.
Qed.

Lemma pix_fill_range m y xl xr f x' y' :
  pix (tile_range m y xl xr f) x' y' =
  if inb m x' y' && (y' =? y) && (xl <=? x') && (x' <=? xr) then f x' else pix m x' y'.
Proof.
  unfold pix. rewrite inb_fill_range.
  destruct (inb m x' y') eqn:Hin; [|reflexivity].
  cbn [andb].
  unfold inb, zlen in Hin.
  apply andb_true_iff in Hin as [Hin H4]. apply andb_true_iff in Hin as [Hin H3].
  apply andb_true_iff in Hin as [H1 H2].
  apply Z.leb_le in H1, H2. apply Z.ltb_lt in H3, H4.
  unfold tile_range; cbn [org_x org_y rows].
  rewrite nth_set_rows.
  replace (org_y m + Z.of_nat (Z.to_nat (y' - org_y m))) with y' by lia.
  destruct (y' =? y) eqn:Hy; [|reflexivity].
  cbn [andb].
  rewrite nth_set_row by lia.
  replace (org_x m + Z.of_nat (Z.to_nat (x' - org_x m))) with x' by lia.
  reflexivity.
Qed.

Lemma covers_fill_range m v y xl xr f : covers m v -> covers (tile_range m y xl xr f) v.
Proof. intros H x' y' Hv. rewrite inb_fill_range. now apply H. Qed.

Lemma in_view_iff v x y :
  in_view v x y = true <-> bx0 v <= x <= bx1 v /\ by0 v <= y <= by1 v.
Proof. unfold in_view. rewrite !andb_true_iff, !Z.leb_le. lia. Qed.

(* ---------------------------------------------------------------- scans *)

Lemma scan_r_spec m elt y : forall n x,
  let w := scan_r m elt y x n in
  0 <= w <= Z.of_nat n /\
  (forall i, 0 <= i < w -> pix m (x + i) y <> elt) /\
  (w < Z.of_nat n -> pix m (x + w) y = elt).
Proof.
  induction n as [|n IH]; intro x; cbn [scan_r].
  - cbv zeta. split; [lia|]. split; intros; lia.
  - destruct (pix m x y =? elt) eqn:E.
    + cbv zeta. apply Z.eqb_eq in E. split; [lia|]. split; [intros; lia|].
      intros _. now rewrite Z.add_0_r.
    + apply Z.eqb_neq in E. specialize (IH (x + 1)). cbv zeta in IH |- *.
      destruct IH as (Hr & Hne & Hstop).
      split; [lia|]. split.
      * intros i Hi. destruct (Z.eq_dec i 0) as [->|Hi0]; [now rewrite Z.add_0_r|].
        replace (x + i) with (x + 1 + (i - 1)) by lia. apply Hne. lia.
      * intros Hlt. replace (x + (1 + scan_r m elt y (x + 1) n)) with (x + 1 + scan_r m elt y (x + 1) n) by lia.
        apply Hstop. lia.
Qed.

Lemma scan_l_spec m elt y : forall n x,
  let w := scan_l m elt y x n in
  0 <= w <= Z.of_nat n /\
  (forall i, 0 <= i < w -> pix m (x - i) y <> elt) /\
  (w < Z.of_nat n -> pix m (x - w) y = elt).
Proof.
  induction n as [|n IH]; intro x; cbn [scan_l].
  - cbv zeta. split; [lia|]. split; intros; lia.
  - destruct (pix m x y =? elt) eqn:E.
    + cbv zeta. apply Z.eqb_eq in E. split; [lia|]. split; [intros; lia|].
      intros _. now rewrite Z.sub_0_r.
    + apply Z.eqb_neq in E. specialize (IH (x - 1)). cbv zeta in IH |- *.
      destruct IH as (Hr & Hne & Hstop).
      split; [lia|]. split.
      * intros i Hi. destruct (Z.eq_dec i 0) as [->|Hi0]; [now rewrite Z.sub_0_r|].
        replace (x - i) with (x - 1 - (i - 1)) by lia. apply Hne. lia.
      * intros Hlt. replace (x - (1 + scan_l m elt y (x - 1) n)) with (x - 1 - scan_l m elt y (x - 1) n) by lia.
        apply Hstop. lia.
Qed.

(* extension of a popped interval to the left: stops at the viewport edge or right of a border cell *)
Lemma extend_left_spec v m border xs y : bx0 v <= xs ->
  let xl := extend_left v m border xs y in
  bx0 v <= xl <= xs /\
  (forall i, xl <= i < xs -> pix m i y <> border) /\
  (bx0 v < xl -> pix m (xl - 1) y = border).
Proof.
  intro Hxs. unfold extend_left, scanline_until.
  destruct (xs - 1 =? bx0 v - 1) eqn:E1.
  - apply Z.eqb_eq in E1. cbv zeta. split; [lia|]. split; intros; lia.
  - apply Z.eqb_neq in E1.
    destruct (xs - 1 <? bx0 v - 1) eqn:E2; [apply Z.ltb_lt in E2; lia|].
    pose proof (scan_l_spec m border y (Z.to_nat (xs - 1 - (bx0 v - 1))) (xs - 1)) as H.
    cbv zeta in H |- *.
    set (w := scan_l m border y (xs - 1) (Z.to_nat (xs - 1 - (bx0 v - 1)))) in *.
    destruct H as (Hr & Hne & Hstop).
    rewrite Z2Nat.id in Hr, Hstop by lia.
    split; [lia|]. split.
    + intros i Hi. replace i with (xs - 1 - (xs - 1 - i)) by lia. apply Hne. lia.
    + intros Hlt. replace (xs - w - 1) with (xs - 1 - w) by lia. apply Hstop. lia.
Qed.

Lemma extend_right_spec v m border xe y : xe <= bx1 v ->
  let xr := extend_right v m border xe y in
  xe <= xr <= bx1 v /\
  (forall i, xe < i <= xr -> pix m i y <> border) /\
  (xr < bx1 v -> pix m (xr + 1) y = border).
Proof.
  intro Hxe. unfold extend_right, scanline_until.
  destruct (xe + 1 =? bx1 v + 1) eqn:E1.
  - apply Z.eqb_eq in E1. cbv zeta. split; [lia|]. split; intros; lia.
  - apply Z.eqb_neq in E1.
    destruct (xe + 1 <? bx1 v + 1) eqn:E2; [|apply Z.ltb_ge in E2; lia].
    pose proof (scan_r_spec m border y (Z.to_nat (bx1 v + 1 - (xe + 1))) (xe + 1)) as H.
    cbv zeta in H |- *.
    set (w := scan_r m border y (xe + 1) (Z.to_nat (bx1 v + 1 - (xe + 1)))) in *.
    destruct H as (Hr & Hne & Hstop).
    rewrite Z2Nat.id in Hr, Hstop by lia.
    split; [lia|]. split.
    + intros i Hi. replace i with (xe + 1 + (i - xe - 1)) by lia. apply Hne. lia.
    + intros Hlt. replace (xe + w + 1) with (xe + 1 + w) by lia. apply Hstop. lia.
Qed.

Lemma same_tile_spec m p y : forall n x,
  same_tile m p y x n = true <-> (forall i, 0 <= i < Z.of_nat n -> pix m (x + i) y = tile_at p (x + i) y).
Proof.
  induction n as [|n IH]; intro x; cbn [same_tile].
  - split; [intros _ i Hi; lia | reflexivity].
  - rewrite andb_true_iff, Z.eqb_eq, IH. split.
    + intros [H0 Hr] i Hi. destruct (Z.eq_dec i 0) as [->|Hi0]; [now rewrite Z.add_0_r|].
      replace (x + i) with (x + 1 + (i - 1)) by lia. apply Hr. lia.
    + intros H. split.
      * specialize (H 0). rewrite Z.add_0_r in H. apply H. lia.
      * intros i Hi. replace (x + 1 + i) with (x + (i + 1)) by lia. apply H. lia.
Qed.

(* has_same_pattern implies that the run shows the tile *)
Lemma has_same_tile m p y x w : has_same m p y x w = true -> same_tile m p y x (Z.to_nat w) = true.
Proof.
  unfold has_same. intro H. apply andb_true_iff in H as [H _]. now apply andb_true_iff in H as [_ H].
Qed.

(* the tiles for which "the run shows the tile" is the whole stop condition: solid fills, and tiles without
   all-zero rows used without a background pattern *)
Definition stops_on_tile (p : pat) : Prop :=
  forall m y x w, same_tile m p y x (Z.to_nat w) = true -> has_same m p y x w = true.

Lemma stops_on_tile_solid p : p_solid p = true -> p_bg p = None -> stops_on_tile p.
Proof. intros Hs Hb m y x w H. unfold has_same. now rewrite Hs, H, Hb. Qed.

Lemma stops_on_tile_nonzero p :
  (forall y, row_nonzero (tile_row p y) = true) -> p_bg p = None -> stops_on_tile p.
Proof. intros Hn Hb m y x w H. unfold has_same. now rewrite Hn, H, Hb, orb_true_r. Qed.

(* ---------------------------------------------------------------- _check_scanline *)

(* cell (x,y) lies in an interval of the list *)
Definition covered (l : list seedt) (x y : Z) : Prop :=
  exists xs xe d, In (xs, xe, y, d) l /\ xs <= x <= xe.

(* a cell the scan does not enter: border, or already showing the tile *)
Definition closed (m : bitmap) (p : pat) (border x y : Z) : Prop :=
  pix m x y = border \/ pix m x y = tile_at p x y.

Lemma covered_app l1 l2 x y : covered (l1 ++ l2) x y <-> covered l1 x y \/ covered l2 x y.
Proof.
  unfold covered. split.
  - intros (xs & xe & d & Hin & Hr). apply in_app_or in Hin as [Hin|Hin]; [left|right]; eauto.
  - intros [(xs & xe & d & Hin & Hr)|(xs & xe & d & Hin & Hr)]; exists xs, xe, d; split; auto;
      apply in_or_app; auto.
Qed.

Lemma covered_nil x y : ~ covered [] x y.
Proof. intros (xs & xe & d & Hin & _). destruct Hin. Qed.

(* what one call of _check_scanline on row y over [x, xstop] pushes *)
Record pushed_ok (m : bitmap) (p : pat) (border y d x xstop : Z) (news : list seedt) : Prop := {
  po_each : forall e, In e news -> exists a b, e = (a, b, y, d) /\ x <= a /\ a <= b /\ b <= xstop /\
              (forall i, a <= i <= b -> pix m i y <> border) /\
              has_same m p y a (b - a + 1) = false;
  po_all : forall i, x <= i <= xstop -> closed m p border i y \/ covered news i y;
  po_count : Z.of_nat (length news) <= Z.max 0 (xstop - x + 1)
}.

Lemma check_loop_spec m p border y d xstop : forall fuel x wl,
  Z.max 1 (xstop - x + 2) <= Z.of_nat fuel ->
  exists news, check_loop fuel m p border y d x xstop wl = Some (news ++ wl) /\
               pushed_ok m p border y d x xstop news.
Proof.
  induction fuel as [|f IH]; intros x wl Hfuel; [lia|].
  cbn [check_loop].
  destruct (x <=? xstop) eqn:Hx.
  2:{ apply Z.leb_gt in Hx. exists []. split; [reflexivity|].
      constructor; [intros e []| intros i Hi; lia | simpl; lia]. }
  apply Z.leb_le in Hx.
  unfold scanline_until.
  destruct (x =? xstop + 1) eqn:E1; [apply Z.eqb_eq in E1; lia|].
  destruct (x <? xstop + 1) eqn:E2; [|apply Z.ltb_ge in E2; lia].
  pose proof (scan_r_spec m border y (Z.to_nat (xstop + 1 - x)) x) as Hs. cbv zeta in Hs.
  set (w := scan_r m border y x (Z.to_nat (xstop + 1 - x))) in *.
  destruct Hs as (Hr & Hne & Hstop). rewrite Z2Nat.id in Hr, Hstop by lia.
  set (push := (0 <? w) && negb (has_same m p y x w)).
  destruct (IH (x + w + 1) (if push then (x, x + w - 1, y, d) :: wl else wl)) as (news' & Heq & Hok);
    [lia|].
  destruct Hok as [Heach Hall Hcount].
  destruct push eqn:Hpush.
  - (* the run [x, x+w-1] is pushed *)
    unfold push in Hpush. apply andb_true_iff in Hpush as [Hw Hnf]. apply Z.ltb_lt in Hw.
    apply negb_true_iff in Hnf.
    exists (news' ++ [(x, x + w - 1, y, d)]). split.
    { rewrite Heq. now rewrite <- app_assoc. }
    constructor.
    + intros e He. apply in_app_or in He as [He|He].
      * destruct (Heach e He) as (a & b & -> & Ha1 & Ha2 & Ha3 & Ha4 & Ha5).
        exists a, b. repeat split; try lia; auto.
      * destruct He as [<-|[]]. exists x, (x + w - 1). repeat split; try lia; auto.
        -- intros i Hi. replace i with (x + (i - x)) by lia. apply Hne. lia.
        -- now replace (x + w - 1 - x + 1) with w by lia.
    + intros i Hi.
      destruct (Z_le_gt_dec i (x + w - 1)) as [Hle|Hgt].
      * right. apply covered_app. right. exists x, (x + w - 1), d. split; [left; reflexivity|lia].
      * destruct (Z.eq_dec i (x + w)) as [->|Hne2].
        -- left. left. apply Hstop. lia.
        -- destruct (Hall i) as [Hc|Hc]; [lia|now left|]. right. apply covered_app. now left.
    + rewrite app_length. simpl. lia.
  - (* nothing pushed: empty run, or a run that has_same_pattern *)
    exists news'. split; [exact Heq|].
    constructor.
    + intros e He. destruct (Heach e He) as (a & b & -> & Ha1 & Ha2 & Ha3 & Ha4 & Ha5).
      exists a, b. repeat split; try lia; auto.
    + intros i Hi.
      destruct (Z_le_gt_dec i (x + w - 1)) as [Hle|Hgt].
      * left. right.
        unfold push in Hpush. apply andb_false_iff in Hpush as [Hw|Hnf]; [apply Z.ltb_ge in Hw; lia|].
        apply negb_false_iff in Hnf. apply has_same_tile in Hnf. rewrite same_tile_spec in Hnf.
        replace i with (x + (i - x)) by lia. apply Hnf. lia.
      * destruct (Z.eq_dec i (x + w)) as [->|Hne2].
        -- left. left. apply Hstop. lia.
        -- apply Hall. lia.
    + lia.
Qed.

Lemma pushed_ok_empty m p border y d x xstop : xstop < x -> pushed_ok m p border y d x xstop [].
Proof. intro H. constructor; [intros e []| intros i Hi; lia | simpl; lia]. Qed.

Lemma check_scanline_spec wl m p border xstart xstop y d :
  exists news, check_scanline wl m p border xstart xstop y d = Some (news ++ wl) /\
               pushed_ok m p border y d xstart xstop news.
Proof.
  unfold check_scanline. destruct (xstop <? xstart) eqn:E.
  - apply Z.ltb_lt in E. exists []. split; [reflexivity|]. now apply pushed_ok_empty.
  - apply Z.ltb_ge in E. apply check_loop_spec. lia.
Qed.

(* a pushed interval contains a cell that does not show the tile, when that is the whole stop condition *)
Lemma not_same_cell m p y a b : stops_on_tile p -> a <= b ->
  has_same m p y a (b - a + 1) = false -> exists i, a <= i <= b /\ pix m i y <> tile_at p i y.
Proof.
  intros Hst Hab Hf.
  destruct (same_tile m p y a (Z.to_nat (b - a + 1))) eqn:Ha.
  { rewrite (Hst _ _ _ _ Ha) in Hf. discriminate. }
  assert (G : forall n x0, same_tile m p y x0 n = false ->
              exists i, 0 <= i < Z.of_nat n /\ pix m (x0 + i) y <> tile_at p (x0 + i) y).
  { induction n as [|n IHn]; intros x0 H; cbn [same_tile] in H; [discriminate|].
    destruct (pix m x0 y =? tile_at p x0 y) eqn:E.
    - cbn [andb] in H. destruct (IHn _ H) as (i & Hi & Hp). exists (i + 1). split; [lia|].
      now replace (x0 + (i + 1)) with (x0 + 1 + i) by lia.
    - apply Z.eqb_neq in E. exists 0. split; [lia|]. now rewrite Z.add_0_r. }
  destruct (G _ _ Ha) as (i & Hi & Hp). exists (a + i). split; [lia|exact Hp].
Qed.

(* if every scanned cell is closed, nothing is pushed *)
Lemma pushed_ok_closed m p border y d x xstop news : stops_on_tile p ->
  pushed_ok m p border y d x xstop news ->
  (forall i, x <= i <= xstop -> closed m p border i y) -> news = [].
Proof.
  intros Hst [Heach _ _] Hcl. destruct news as [|e t]; [reflexivity|exfalso].
  destruct (Heach e (or_introl eq_refl)) as (a & b & _ & Ha1 & Ha2 & Ha3 & Hnb & Hnf).
  destruct (not_same_cell m p y a b Hst Ha2 Hnf) as (i & Hi & Hne).
  destruct (Hcl i ltac:(lia)) as [Hc|Hc]; [apply (Hnb i Hi Hc) | apply (Hne Hc)].
Qed.

(* the solid pattern writes the fill attribute everywhere *)
Lemma tile_at_solid fill x y : tile_at (solid_pat fill) x y = fill.
Proof.
  unfold tile_at, tile_row, tile_h, tile_w, solid_pat, zlen. cbn [p_tile length nth].
  rewrite Z.mod_1_r. cbn [Z.to_nat nth].
  assert (H : In (nth (Z.to_nat (x mod Z.of_nat (length (repeat fill 8)))) (repeat fill 8) 0) (repeat fill 8)).
  { apply nth_In. rewrite repeat_length. pose proof (Z.mod_pos_bound x 8 ltac:(lia)).
    change (Z.of_nat 8) with 8. lia. }
  now apply repeat_spec in H.
Qed.

(* a pixel value is -1 (off the bitmap) or one of the stored values *)
Lemma pix_in_rows m x y : pix m x y = -1 \/ In (pix m x y) (concat (rows m)).
Proof.
  unfold pix. destruct (inb m x y) eqn:Hin; [right|now left].
  unfold inb, zlen in Hin.
  apply andb_true_iff in Hin as [Hin H4]. apply andb_true_iff in Hin as [Hin H3].
  apply andb_true_iff in Hin as [H1 H2].
  apply Z.leb_le in H1, H2. apply Z.ltb_lt in H3, H4.
  apply in_concat. exists (nth (Z.to_nat (y - org_y m)) (rows m) []). split; apply nth_In; lia.
Qed.
