(* MBFArith_norm.v - Float._normalise on ANY mantissa 0 < man < den_upper and ANY exponent (C04, C05):
   the left shift of subnormal intermediates, the rounding of the 8 guard bits (to nearest, halves to
   even), the carry into the exponent, Overflow above exponent byte 255 and the flush to a (possibly
   non-canonical) zero at or below exponent byte 0; and the resulting VALUE statement:
   the result is within half a unit in the last place of man * 2^exp, Overflow / zero happen only
   beyond the largest / below the smallest magnitude. *)
From Coq Require Import ZArith List Bool Lia ZifyBool.
From PCB Require Import lib.Result lib.PyInt lib.Harness lib.MBFPrims gen.Gen_mbf model.MBF
  proofs.MBF_base proofs.MBF_compare proofs.MBF_convert proofs.MBF_round.
Import ListNotations.
Open Scope Z_scope.
Ltac Zify.zify_post_hook ::= Z.to_euclidean_division_equations.

Lemma bind_ret {A} (r : res A) : bind r (fun x => Ok x) = r.
Proof. destruct r; reflexivity. Qed.

(* ------------------------------------------------------------------------------------------------ *)
(* what the theorems of C04 say about the result r of an operation whose exact result has magnitude
   Nm / Dn (on the scale of f_sval / f_mag: value * 2^bias) and sign neg:
   - Overflow only if the exact magnitude exceeds the largest number MAX = (2^mbits - 1) * 2^255,
     and always if it reaches 2^mbits * 2^255 (the rounding band above MAX excepted);
   - a zero result only if the exact magnitude is below the smallest positive number MIN = 2^mbits;
   - otherwise the result has the sign of the exact result and differs from it by less than
     (strict) / at most (non-strict) w/den units in the last place of the result. *)
Definition err_ok (strict : bool) (x bound : Z) : Prop := if strict then x < bound else x <= bound.

Definition mag_post (C : fconst) (strict : bool) (w den : Z) (Nm Dn : Z) (neg : bool) (r : res (list Z)) : Prop :=
  (match r return Prop with
   | Host x => x = 5 /\ (2 ^ mbits C - 1) * 2 ^ 255 * Dn < Nm
   | Ok b => buf_ok C b /\
             (if f_zero b then Nm < 2 ^ mbits C * Dn
              else f_neg C b = neg /\ err_ok strict (den * Z.abs (f_mag C b * Dn - Nm)) (w * 2 ^ f_exp b * Dn))
   | _ => False
   end) /\ (2 ^ mbits C * 2 ^ 255 * Dn <= Nm -> r = Host 5).

(* ------------------------------------------------------------------------------------------------ *)
(* the shift loop *)

Lemma loop3_S f C buf neg exp man :
  mbf_normalise_loop_3 (S f) C buf neg exp man =
    if man <? c_den_mask C - 1 then mbf_normalise_loop_3 f C buf neg (exp - 1) (Z.shiftl man 1)
    else Ok (exp, man).
Proof. reflexivity. Qed.

Lemma loop3_spec C buf neg D : 1 <= D ->
  c_den_mask C = 2 * D ->
  forall f man exp, 0 < man -> 2 * D - 1 <= man * 2 ^ Z.of_nat f ->
  exists k, 0 <= k <= Z.of_nat f /\
    mbf_normalise_loop_3 (S f) C buf neg exp man = Ok (exp - k, man * 2 ^ k) /\
    2 * D - 1 <= man * 2 ^ k /\
    (man < 2 * D - 1 -> 2 * D <= man * 2 ^ k < 4 * D /\ 1 <= k) /\
    (2 * D - 1 <= man -> k = 0).
Proof.
  intros HD Hden. induction f as [|f IH]; intros man exp Hman Hf.
  - exists 0. rewrite loop3_S. change (Z.of_nat 0) with 0 in *.
    rewrite Z.pow_0_r, Z.mul_1_r in *. rewrite Hden.
    destruct (Z.ltb_spec man (2 * D - 1)); [lia|]. rewrite Z.sub_0_r. repeat split; lia.
  - rewrite loop3_S. rewrite Hden.
    destruct (Z.ltb_spec man (2 * D - 1)) as [Hlt|Hge].
    + rewrite Z.shiftl_mul_pow2 by lia. change (2 ^ 1) with 2.
      rewrite Nat2Z.inj_succ, Z.pow_succ_r in Hf by lia.
      destruct (IH (man * 2) (exp - 1) ltac:(lia) ltac:(lia)) as (k & Hk & Hr & H1 & H2 & H3).
      exists (k + 1). rewrite pow2_S by lia.
      replace (man * (2 * 2 ^ k)) with (man * 2 * 2 ^ k) by lia.
      replace (exp - (k + 1)) with (exp - 1 - k) by lia.
      split; [lia|]. split; [exact Hr|]. split; [exact H1|]. split; [|lia].
      intros _. split; [|lia].
      destruct (Z.lt_ge_cases (man * 2) (2 * D - 1)) as [Hs|Hb].
      * apply H2. exact Hs.
      * rewrite (H3 Hb). rewrite Z.pow_0_r, Z.mul_1_r. lia.
    + exists 0. rewrite Z.pow_0_r, Z.mul_1_r, Z.sub_0_r. repeat split; lia.
Qed.

(* ------------------------------------------------------------------------------------------------ *)
(* the code after the loop *)

Definition norm_tail (C : fconst) (buf : list Z) (neg : bool) (v_exp v_man : Z) : res (list Z) :=
  let v_round_up := (orb (Z.gtb (Z.land v_man 255) 128) (andb (Z.eqb (Z.land v_man 255) 128) (Z.eqb (Z.land v_man 256) 256))) in
  let v_man := (Z.add (Z.land v_man (c_carrymask C)) (Z.mul 256 (b2z v_round_up))) in
  bind (if (Z.geb v_man (c_den_upper C)) then (
  let v_exp := (Z.add v_exp 1) in
  let v_man := (Z.shiftr v_man 1) in
  Ok (v_exp, v_man)
  ) else (
  Ok (v_exp, v_man)
  )) (fun '(v_exp, v_man) =>
  bind (pack_into_le (c_intsize C) buf (Z.land (Z.shiftr v_man 8) (if neg then (c_mask C) else (c_posmask C)))) (fun v_self__buffer =>
  bind (mbf_check_limits C v_self__buffer v_exp neg) (fun '(v_self__buffer, v___t1) =>
  bind (if v___t1 then (
  bind (set_byte v_self__buffer (-1) v_exp) (fun v_self__buffer =>
  Ok v_self__buffer)
  ) else (
  Ok v_self__buffer
  )) (fun v_self__buffer =>
  Ok v_self__buffer)))).

Lemma normalise_unfold C buf exp man neg :
  mbf_normalise C buf exp man neg =
    if (man =? 0) || (exp <=? 0) then Ok (zeros (c_size C))
    else bind (mbf_normalise_loop_3 1000%nat C buf neg exp man) (fun '(e, m) => norm_tail C buf neg e m).
Proof. reflexivity. Qed.

(* exponent byte actually stored: 0 when the exponent underflows *)
Definition clamp0 (e : Z) : Z := if e <=? 0 then 0 else e.

(* storing with an exponent <= 0: _check_limits zeroes the exponent byte and leaves the mantissa *)
Lemma store_zero_spec C buf (neg : bool) e m : fmt_ok C -> zlen buf = c_size C -> e <= 0 ->
  2 ^ (mbits C - 1) <= m < 2 ^ mbits C ->
  bind (pack_into_le (c_intsize C) buf (Z.land m (if neg then c_mask C else c_posmask C)))
    (fun b1 => bind (mbf_check_limits C b1 e neg) (fun '(b2, t) =>
       bind (if t then bind (set_byte b2 (-1) e) (fun b3 => Ok b3) else Ok b2) (fun b4 => Ok b4)))
  = Ok (f_encode C neg 0 m).
Proof.
  intros HC Hlen He Hm. pose proof (mbits_ge C HC).
  assert (0 < 2 ^ (mbits C - 1)) by (apply pow2_pos; lia).
  rewrite land_mask_spec by assumption.
  rewrite pack_spec; [| assumption | assumption |].
  2:{ rewrite (pow2_pred (mbits C)) in * by lia. destruct neg; lia. }
  cbn [bind]. unfold mbf_check_limits.
  destruct (Z.gtb_spec e 255); [lia|]. destruct (Z.leb_spec e 0); [|lia].
  rewrite set_last_spec by (unfold byte_ok; lia). cbn [bind]. reflexivity.
Qed.

Lemma norm_tail_spec C buf exp man (neg : bool) : fmt_ok C -> zlen buf = c_size C ->
  c_den_mask C - 1 <= man < c_den_upper C ->
  norm_tail C buf neg exp man =
    let '(e', m') := norm_result C exp man in
    if e' >? 255 then Host 5 else Ok (f_encode C neg (clamp0 e') m').
Proof.
  intros HC Hlen Hman. pose proof (mbits_ge C HC) as Hg.
  rewrite (ok_den_mask C HC), (ok_den_upper C HC) in Hman.
  set (P := 2 ^ (mbits C - 1)) in *. assert (HP : 0 < P) by (apply pow2_pos; lia).
  assert (H2P : 2 ^ mbits C = 2 * P) by (apply pow2_pred; lia).
  assert (H256P : 2 ^ (mbits C + 7) = 256 * P).
  { unfold P. replace (mbits C + 7) with (8 + (mbits C - 1)) by lia. rewrite pow2_split by lia. reflexivity. }
  assert (H512P : 2 ^ (mbits C + 8) = 512 * P).
  { unfold P. replace (mbits C + 8) with (9 + (mbits C - 1)) by lia. rewrite pow2_split by lia. reflexivity. }
  rewrite H256P, H512P in Hman.
  unfold norm_tail. cbv zeta.
  rewrite land255, land256, (ok_carrymask C HC), (ok_den_upper C HC).
  rewrite land_carrymask by (rewrite ?H512P; lia). rewrite H512P.
  unfold norm_result, round_even8. rewrite H2P. fold P.
  set (hi := man / 256) in *. set (low := man mod 256) in *.
  assert (Hhi : P - 1 <= hi < 2 * P) by (unfold hi; lia).
  assert (Hlow : 0 <= low < 256) by (unfold low; lia).
  assert (Hhl : hi = P - 1 -> low = 255) by (unfold hi, low; lia).
  replace ((low >? 128) || ((low =? 128) && ((if Z.odd hi then 256 else 0) =? 256)))
    with ((128 <? low) || ((low =? 128) && Z.odd hi)).
  2:{ f_equal; [lia|]. f_equal. destruct (Z.odd hi); reflexivity. }
  set (up := (128 <? low) || ((low =? 128) && Z.odd hi)).
  assert (Hup : hi = P - 1 -> up = true).
  { intros E. apply Hhl in E. unfold up. rewrite E. reflexivity. }
  assert (Hb2z : b2z up = if up then 1 else 0) by reflexivity. rewrite Hb2z.
  (* a uniform way to finish: store e m *)
  assert (Hstore : forall e m, P <= m < 2 * P ->
     bind (pack_into_le (c_intsize C) buf (Z.land m (if neg then c_mask C else c_posmask C)))
      (fun b1 => bind (mbf_check_limits C b1 e neg) (fun '(b2, t) =>
       bind (if t then bind (set_byte b2 (-1) e) (fun b3 => Ok b3) else Ok b2) (fun b4 => Ok b4)))
     = if e >? 255 then Host 5 else Ok (f_encode C neg (clamp0 e) m)).
  { intros e m Hm. unfold clamp0.
    destruct (Z.gtb_spec e 255) as [Hov|Hin].
    - rewrite land_mask_spec by (try assumption; fold P; lia). fold P.
      rewrite pack_spec by (try assumption; fold P; rewrite ?H2P; destruct neg; lia).
      cbn [bind]. rewrite check_limits_overflow by lia. reflexivity.
    - destruct (Z.leb_spec e 0) as [Hz|Hnz].
      + apply store_zero_spec; try assumption. fold P. lia.
      + pose proof (store_spec C buf neg e m HC Hlen ltac:(unfold byte_ok; lia) ltac:(fold P; lia)) as Hst.
        destruct (pack_into_le (c_intsize C) buf (Z.land m (if neg then c_mask C else c_posmask C))) as [b1|e1|x1|];
          cbn [bind] in *; try discriminate.
        rewrite check_limits_ok by lia. cbn [bind]. cbv beta iota.
        destruct (set_byte b1 (-1) e); cbn [bind] in *; try discriminate. exact Hst. }
  destruct up.
  - destruct (Z.eqb_spec (hi + 1) (2 * P)) as [Hcarry|Hnc].
    + destruct (Z.geb_spec (256 * hi + 256 * 1) (512 * P)); [|lia]. cbn [bind]. cbv beta iota.
      replace (256 * hi + 256 * 1) with (512 * P) by lia.
      rewrite !Z.shiftr_div_pow2 by lia. change (2 ^ 1) with 2. change (2 ^ 8) with 256.
      replace (512 * P / 2 / 256) with P by lia.
      apply Hstore. lia.
    + destruct (Z.geb_spec (256 * hi + 256 * 1) (512 * P)); [lia|]. cbn [bind]. cbv beta iota.
      rewrite !Z.shiftr_div_pow2 by lia. change (2 ^ 8) with 256.
      replace ((256 * hi + 256 * 1) / 256) with (hi + 1) by lia.
      apply Hstore. lia.
  - assert (P <= hi) by (destruct (Z.eq_dec hi (P - 1)) as [E|E]; [apply Hup in E; discriminate | lia]).
    rewrite Z.mul_0_r, !Z.add_0_r.
    destruct (Z.eqb_spec hi (2 * P)); [lia|].
    destruct (Z.geb_spec (256 * hi) (512 * P)); [lia|]. cbn [bind]. cbv beta iota.
    rewrite !Z.shiftr_div_pow2 by lia. change (2 ^ 8) with 256.
    replace (256 * hi / 256) with hi by lia.
    apply Hstore. lia.
Qed.


(* ------------------------------------------------------------------------------------------------ *)
(* the rounding *)

Lemma round_even8_near man : Z.abs (256 * round_even8 man - man) <= 128.
Proof.
  unfold round_even8.
  destruct ((128 <? man mod 256) || ((man mod 256 =? 128) && Z.odd (man / 256))) eqn:E; lia.
Qed.

Lemma round_even8_range_lo man P : 0 < P -> 256 * P - 1 <= man < 512 * P ->
  P <= round_even8 man <= 2 * P.
Proof.
  intros HP Hman. unfold round_even8.
  destruct ((128 <? man mod 256) || ((man mod 256 =? 128) && Z.odd (man / 256))) eqn:E; lia.
Qed.

(* ------------------------------------------------------------------------------------------------ *)
(* _normalise, structurally *)

Lemma normalise_gen C buf exp man (neg : bool) : fmt_ok C -> zlen buf = c_size C ->
  0 < man < c_den_upper C -> 0 < exp ->
  exists k, 0 <= k /\ c_den_mask C - 1 <= man * 2 ^ k < c_den_upper C /\
    (c_den_mask C - 1 <= man -> k = 0) /\
    mbf_normalise C buf exp man neg =
      let '(e', m') := norm_result C (exp - k) (man * 2 ^ k) in
      if e' >? 255 then Host 5 else Ok (f_encode C neg (clamp0 e') m').
Proof.
  intros HC Hlen Hman Hexp. pose proof (mbits_ge C HC) as Hg. pose proof (mbits_le C HC) as Hl.
  set (D := 2 ^ (mbits C + 6)). assert (HD : 1 <= D) by (pose proof (pow2_pos (mbits C + 6)); lia).
  assert (Hden : c_den_mask C = 2 * D).
  { rewrite (ok_den_mask C HC). unfold D. replace (mbits C + 7) with (mbits C + 6 + 1) by lia. apply pow2_S. lia. }
  assert (Hup : c_den_upper C = 4 * D).
  { rewrite (ok_den_upper C HC). unfold D. replace (mbits C + 8) with (2 + (mbits C + 6)) by lia.
    rewrite pow2_split by lia. reflexivity. }
  rewrite normalise_unfold.
  destruct (Z.eqb_spec man 0); [lia|]. destruct (Z.leb_spec exp 0); [lia|]. cbn [orb].
  change 1000%nat with (S 999).
  destruct (loop3_spec C buf neg D HD Hden 999 man exp ltac:(lia)) as (k & Hk & Hr & H1 & H2 & H3).
  { assert (2 ^ (mbits C + 7) <= 2 ^ 999) by (apply pow2_le; lia).
    change (Z.of_nat 999) with 999. rewrite <- Hden, (ok_den_mask C HC). nia. }
  exists k. rewrite Hr. cbn [bind]. cbv beta iota.
  assert (Hrange : c_den_mask C - 1 <= man * 2 ^ k < c_den_upper C).
  { rewrite Hden, Hup. destruct (Z.lt_ge_cases man (2 * D - 1)) as [Hs|Hb].
    - destruct (H2 Hs). lia.
    - rewrite (H3 Hb), Z.pow_0_r, Z.mul_1_r. lia. }
  split; [lia|]. split; [exact Hrange|]. split; [rewrite Hden; exact H3|].
  apply norm_tail_spec; assumption.
Qed.

(* ------------------------------------------------------------------------------------------------ *)
(* _normalise as a statement about values.
   A denormalised triple (exp, man, neg) stands for the magnitude  man * 2^exp  on the scale
   2^(bias + 8) (one unit of an encoding b is 256 * f_man b * 2^(f_exp b)).  Intermediate exponents
   may be negative, so magnitudes are written with an offset o: V = man * 2^(exp + o). *)

Definition norm_post (C : fconst) (neg : bool) (o exp man : Z) (r : res (list Z)) : Prop :=
  exists k, 0 <= k /\ 2 ^ (mbits C + 7) - 1 <= man * 2 ^ k < 2 ^ (mbits C + 8) /\
    (2 ^ (mbits C + 7) - 1 <= man -> k = 0) /\
    let u := 2 ^ (exp - k + o) in
    let V := man * 2 ^ (exp + o) in
    ( (r = Host 5 /\ 255 <= exp - k /\ (2 ^ (mbits C + 8) - 128 <= man * 2 ^ k \/ 256 <= exp - k)) \/
      (exists b, r = Ok b /\ buf_ok C b /\ f_exp b = 0 /\ exp - k <= 0 /\ V < 2 ^ (mbits C + 8) * 2 ^ o) \/
      (exists b, r = Ok b /\ buf_ok C b /\ 1 <= f_exp b <= 255 /\ f_neg C b = neg /\
         exp - k <= f_exp b <= exp - k + 1 /\
         Z.abs (256 * f_man C b * 2 ^ (f_exp b + o) - V) <= 128 * u) ).

Lemma normalise_val C buf exp man (neg : bool) o : fmt_ok C -> zlen buf = c_size C ->
  0 < man < c_den_upper C -> 0 < exp -> 0 <= o ->
  norm_post C neg o exp man (mbf_normalise C buf exp man neg).
Proof.
  intros HC Hlen Hman Hexp Ho. pose proof (mbits_ge C HC) as Hg. pose proof (mbits_le C HC) as Hl.
  destruct (normalise_gen C buf exp man neg HC Hlen Hman Hexp) as (k & Hk & Hrange & Hk0 & Hres).
  rewrite (ok_den_mask C HC), (ok_den_upper C HC) in *.
  set (P := 2 ^ (mbits C - 1)) in *. assert (HP : 0 < P) by (apply pow2_pos; lia).
  assert (H2P : 2 ^ mbits C = 2 * P) by (apply pow2_pred; lia).
  assert (H256P : 2 ^ (mbits C + 7) = 256 * P).
  { unfold P. replace (mbits C + 7) with (8 + (mbits C - 1)) by lia. rewrite pow2_split by lia. reflexivity. }
  assert (H512P : 2 ^ (mbits C + 8) = 512 * P).
  { unfold P. replace (mbits C + 8) with (9 + (mbits C - 1)) by lia. rewrite pow2_split by lia. reflexivity. }
  exists k. split; [exact Hk|]. split; [exact Hrange|]. split; [exact Hk0|]. cbv zeta.
  rewrite H256P, H512P in *.
  (* k is small, so exp - k + o is a valid exponent *)
  assert (Hk72 : k <= 72).
  { destruct (Z.le_gt_cases k 72) as [|Hgt]; [assumption|exfalso].
    assert (2 ^ 73 <= 2 ^ k) by (apply pow2_le; lia).
    assert (512 * P <= 2 ^ 73).
    { rewrite <- H512P. apply pow2_le. lia. }
    nia. }
  set (M' := man * 2 ^ k) in *.
  destruct (Z.le_gt_cases (exp - k + o) (-1)) as [Hneg|Hpos].
  - (* far below the range: the stored exponent is <= 0 *)
    assert (Hu : 2 ^ (exp - k + o) = 0) by (apply Z.pow_neg_r; lia).
    rewrite Hu.
    right. left. unfold norm_result in Hres.
    pose proof (round_even8_range_lo M' P HP) as Hrr.
    destruct (round_even8 M' =? 2 ^ mbits C) eqn:Er.
    + destruct (Z.gtb_spec (exp - k + 1) 255); [lia|].
      exists (f_encode C neg (clamp0 (exp - k + 1)) (2 ^ (mbits C - 1))). fold P.
      assert (Hc : clamp0 (exp - k + 1) = 0) by (unfold clamp0; destruct (Z.leb_spec (exp - k + 1) 0); lia).
      rewrite Hc in *. split; [exact Hres|].
      destruct (f_encode_fields C neg 0 P HC ltac:(unfold byte_ok; lia) ltac:(fold P; lia)) as (E1 & E2 & E3).
      split; [apply f_encode_ok; [assumption | unfold byte_ok; lia | fold P; lia]|]. split; [exact E1|]. split; [lia|].
      (* V = M' * 2^(exp - k + o) ... but exp + o < k: V < 512 P * 2^o *)
      assert (HV : man * 2 ^ (exp + o) < 512 * P * 2 ^ o).
      { assert (0 < 2 ^ o) by (apply pow2_pos; lia).
        assert (Hs : 2 ^ k = 2 ^ (k - (exp + o)) * 2 ^ (exp + o)) by (rewrite <- pow2_split by lia; f_equal; lia).
        assert (0 < 2 ^ (exp + o)) by (apply pow2_pos; lia).
        assert (2 <= 2 ^ (k - (exp + o))) by (change 2 with (2 ^ 1) at 1; apply pow2_le; lia).
        assert (2 ^ (exp + o) <= 2 ^ o * 2 ^ exp) by (rewrite <- pow2_split by lia; apply pow2_le; lia).
        unfold M' in Hrange. nia. }
      exact HV.
    + destruct (Z.gtb_spec (exp - k) 255); [lia|].
      assert (Hc : clamp0 (exp - k) = 0) by (unfold clamp0; destruct (Z.leb_spec (exp - k) 0); lia).
      rewrite Hc in *.
      assert (Hr2 : P <= round_even8 M' < 2 * P).
      { specialize (Hrr ltac:(lia)). apply Z.eqb_neq in Er. rewrite H2P in Er. lia. }
      exists (f_encode C neg 0 (round_even8 M')). split; [exact Hres|].
      destruct (f_encode_fields C neg 0 (round_even8 M') HC ltac:(unfold byte_ok; lia) ltac:(fold P; lia)) as (E1 & E2 & E3).
      split; [apply f_encode_ok; [assumption | unfold byte_ok; lia | fold P; lia]|]. split; [exact E1|]. split; [lia|].
      assert (0 < 2 ^ o) by (apply pow2_pos; lia).
      assert (Hs : 2 ^ k = 2 ^ (k - (exp + o)) * 2 ^ (exp + o)) by (rewrite <- pow2_split by lia; f_equal; lia).
      assert (0 < 2 ^ (exp + o)) by (apply pow2_pos; lia).
      assert (2 <= 2 ^ (k - (exp + o))) by (change 2 with (2 ^ 1) at 1; apply pow2_le; lia).
      unfold M' in Hrange. nia.
  - (* the normal situation: u = 2^(exp - k + o) > 0 and V = M' * u *)
    set (u := 2 ^ (exp - k + o)). assert (Hu : 0 < u) by (apply pow2_pos; lia).
    assert (HV : man * 2 ^ (exp + o) = M' * u).
    { unfold M', u. replace (exp + o) with (k + (exp - k + o)) by lia. rewrite pow2_split by lia. lia. }
    rewrite HV.
    unfold norm_result in Hres.
    pose proof (round_even8_range_lo M' P HP ltac:(lia)) as Hrr.
    pose proof (round_even8_near M') as Hnear.
    destruct (round_even8 M' =? 2 ^ mbits C) eqn:Er.
    + (* carry into the next exponent *)
      apply Z.eqb_eq in Er. rewrite H2P in Er. fold P in Hres.
      destruct (Z.gtb_spec (exp - k + 1) 255) as [Hov|Hin].
      * left. split; [exact Hres|]. split; [lia|]. left. fold M'. lia.
      * right. destruct (Z.leb_spec (exp - k + 1) 0) as [Hz|Hnz].
        -- left. assert (Hc : clamp0 (exp - k + 1) = 0) by (unfold clamp0; destruct (Z.leb_spec (exp - k + 1) 0); lia).
           rewrite Hc in *. exists (f_encode C neg 0 P). split; [exact Hres|].
           destruct (f_encode_fields C neg 0 P HC ltac:(unfold byte_ok; lia) ltac:(fold P; lia)) as (E1 & E2 & E3).
           split; [apply f_encode_ok; [assumption | unfold byte_ok; lia | fold P; lia]|]. split; [exact E1|]. split; [lia|].
           assert (u <= 2 ^ o) by (unfold u; apply pow2_le; lia). nia.
        -- right. assert (Hc : clamp0 (exp - k + 1) = exp - k + 1) by (unfold clamp0; destruct (Z.leb_spec (exp - k + 1) 0); lia).
           rewrite Hc in *. exists (f_encode C neg (exp - k + 1) P). split; [exact Hres|].
           destruct (f_encode_fields C neg (exp - k + 1) P HC ltac:(unfold byte_ok; lia) ltac:(fold P; lia)) as (E1 & E2 & E3).
           split; [apply f_encode_ok; [assumption | unfold byte_ok; lia | fold P; lia]|].
           rewrite E1, E2, E3. split; [lia|]. split; [reflexivity|]. split; [lia|].
           replace (exp - k + 1 + o) with (exp - k + o + 1) by lia. rewrite pow2_S by lia. fold u. nia.
    + apply Z.eqb_neq in Er. rewrite H2P in Er.
      assert (Hr2 : P <= round_even8 M' < 2 * P) by lia.
      destruct (Z.gtb_spec (exp - k) 255) as [Hov|Hin].
      * left. split; [exact Hres|]. split; [lia|]. right. lia.
      * right. destruct (Z.leb_spec (exp - k) 0) as [Hz|Hnz].
        -- left. assert (Hc : clamp0 (exp - k) = 0) by (unfold clamp0; destruct (Z.leb_spec (exp - k) 0); lia).
           rewrite Hc in *. exists (f_encode C neg 0 (round_even8 M')). split; [exact Hres|].
           destruct (f_encode_fields C neg 0 (round_even8 M') HC ltac:(unfold byte_ok; lia) ltac:(fold P; lia)) as (E1 & E2 & E3).
           split; [apply f_encode_ok; [assumption | unfold byte_ok; lia | fold P; lia]|]. split; [exact E1|]. split; [lia|].
           assert (u <= 2 ^ o) by (unfold u; apply pow2_le; lia). nia.
        -- right. assert (Hc : clamp0 (exp - k) = exp - k) by (unfold clamp0; destruct (Z.leb_spec (exp - k) 0); lia).
           rewrite Hc in *. exists (f_encode C neg (exp - k) (round_even8 M')). split; [exact Hres|].
           destruct (f_encode_fields C neg (exp - k) (round_even8 M') HC ltac:(unfold byte_ok; lia) ltac:(fold P; lia)) as (E1 & E2 & E3).
           split; [apply f_encode_ok; [assumption | unfold byte_ok; lia | fold P; lia]|].
           rewrite E1, E2, E3. split; [lia|]. split; [reflexivity|]. split; [lia|].
           fold u. nia.
Qed.

(* ------------------------------------------------------------------------------------------------ *)
(* from norm_post to the clauses of mag_post.
   The exact result is Nm / Dn on the scale of f_mag; the triple handed to _normalise stands for
   V = man * 2^(exp + o).  S and G > 0 are scale factors with  S * Dn = 2^(o + 8) * G,  so that
   f_mag b * Dn * S = 256 * f_man b * 2^(f_exp b + o) * G :  "Nm * S" is compared with "V * G"
   (G = 1 for + - *; for / the divisor is not a power of two and G = Dn). *)

Lemma mag_scale C b o S Dn G : fmt_ok C -> buf_ok C b -> 0 <= o -> S * Dn = 2 ^ (o + 8) * G -> f_zero b = false ->
  f_mag C b * Dn * S = 256 * f_man C b * 2 ^ (f_exp b + o) * G.
Proof.
  intros HC Hb Ho HS Hz. unfold f_mag. rewrite Hz.
  pose proof (f_exp_bound C b HC Hb).
  replace (f_man C b * 2 ^ f_exp b * Dn * S) with (f_man C b * 2 ^ f_exp b * (S * Dn)) by lia.
  rewrite HS. replace (o + 8) with (8 + o) by lia. rewrite (pow2_split 8 o), (pow2_split (f_exp b) o) by lia.
  change (2 ^ 8) with 256. lia.
Qed.

Lemma err_ok_scale strict x y S : 0 < S -> err_ok strict (x * S) (y * S) -> err_ok strict x y.
Proof. intros HS. destruct strict; cbn [err_ok]; nia. Qed.

Lemma err_ok_le strict x x' y y' : x' <= x -> y <= y' -> err_ok strict x y -> err_ok strict x' y'.
Proof. destruct strict; cbn [err_ok]; lia. Qed.

Lemma abs_tri a b c : Z.abs (a - c) <= Z.abs (a - b) + Z.abs (c - b).
Proof. lia. Qed.

(* error bound and zero clause *)
Lemma norm_partA C strict w den Nm Dn neg o exp man r S G :
  fmt_ok C -> 0 <= o -> 0 < S -> 0 < Dn -> 0 < G -> S * Dn = 2 ^ (o + 8) * G -> 0 < den -> 0 <= w ->
  norm_post C neg o exp man r ->
  (forall k, 0 <= k -> 2 ^ (mbits C + 7) - 1 <= man * 2 ^ k < 2 ^ (mbits C + 8) ->
     (2 ^ (mbits C + 7) - 1 <= man -> k = 0) -> 0 <= exp - k + o ->
     err_ok strict (den * (Z.abs (Nm * S - man * 2 ^ (exp + o) * G) + 128 * 2 ^ (exp - k + o) * G))
                   (w * 256 * 2 ^ (exp - k + o) * G)) ->
  (forall k, 0 <= k -> 2 ^ (mbits C + 7) - 1 <= man * 2 ^ k < 2 ^ (mbits C + 8) ->
     (2 ^ (mbits C + 7) - 1 <= man -> k = 0) -> exp - k <= 0 ->
     man * 2 ^ (exp + o) < 2 ^ (mbits C + 8) * 2 ^ o -> Nm * S < 2 ^ (mbits C + 8) * 2 ^ o * G) ->
  forall b, r = Ok b ->
    buf_ok C b /\
    if f_zero b then Nm < 2 ^ mbits C * Dn
    else f_neg C b = neg /\ err_ok strict (den * Z.abs (f_mag C b * Dn - Nm)) (w * 2 ^ f_exp b * Dn).
Proof.
  intros HC Ho HS HDn HG HSD Hden Hw (k & Hk & Hrange & Hk0 & Hpost) Hclose Hzero b Hr. cbv zeta in Hpost.
  pose proof (mbits_ge C HC) as Hg.
  destruct Hpost as [(E & _)|[(b' & E & Hok & He0 & Hek & HV)|(b' & E & Hok & He & Hn & Hee & Herr)]];
    [congruence | |]; assert (b' = b) by congruence; subst b'.
  - split; [exact Hok|]. unfold f_zero. rewrite He0. cbn [Z.eqb].
    specialize (Hzero k Hk Hrange Hk0 Hek HV).
    assert (E8 : 2 ^ (mbits C + 8) * 2 ^ o * G = 2 ^ mbits C * Dn * S).
    { replace (2 ^ mbits C * Dn * S) with (2 ^ mbits C * (S * Dn)) by lia. rewrite HSD.
      replace (mbits C + 8) with (mbits C + 8 + 0) by lia.
      replace (2 ^ mbits C * (2 ^ (o + 8) * G)) with (2 ^ mbits C * 2 ^ (o + 8) * G) by lia.
      f_equal. rewrite <- !pow2_split by lia. f_equal. lia. }
    rewrite E8 in Hzero. nia.
  - split; [exact Hok|]. assert (Hz : f_zero b = false) by (unfold f_zero; lia). rewrite Hz.
    split; [exact Hn|].
    assert (Hpos : 0 <= exp - k + o) by lia.
    specialize (Hclose k Hk Hrange Hk0 Hpos).
    set (u := 2 ^ (exp - k + o)) in *. assert (Hu : 0 < u) by (apply pow2_pos; lia).
    assert (Hue : u <= 2 ^ (f_exp b + o)) by (apply pow2_le; lia).
    apply (err_ok_scale strict _ _ S HS).
    pose proof (mag_scale C b o S Dn G HC Hok Ho HSD Hz) as HR.
    set (R := 256 * f_man C b * 2 ^ (f_exp b + o)) in *.
    set (V := man * 2 ^ (exp + o)) in *.
    eapply err_ok_le; [| |exact Hclose].
    + assert (EA : Z.abs (f_mag C b * Dn * S - Nm * S) = Z.abs (f_mag C b * Dn - Nm) * S).
      { replace (f_mag C b * Dn * S - Nm * S) with ((f_mag C b * Dn - Nm) * S) by lia.
        rewrite Z.abs_mul, (Z.abs_eq S) by lia. reflexivity. }
      replace (den * Z.abs (f_mag C b * Dn - Nm) * S) with (den * Z.abs (f_mag C b * Dn * S - Nm * S)) by (rewrite EA; lia).
      rewrite HR.
      assert (Z.abs (R * G - V * G) <= 128 * u * G).
      { replace (R * G - V * G) with ((R - V) * G) by lia. rewrite Z.abs_mul, (Z.abs_eq G) by lia.
        apply Z.mul_le_mono_nonneg_r; [lia | exact Herr]. }
      pose proof (abs_tri (R * G) (V * G) (Nm * S)) as Htri.
      apply Z.mul_le_mono_nonneg_l; [lia|]. lia.
    + replace (w * 2 ^ f_exp b * Dn * S) with (w * 2 ^ f_exp b * (S * Dn)) by lia. rewrite HSD.
      replace (o + 8) with (8 + o) by lia. rewrite (pow2_split 8 o) by lia. change (2 ^ 8) with 256.
      pose proof (f_exp_bound C b HC Hok).
      rewrite (pow2_split (f_exp b) o) in Hue by lia.
      assert (0 < 2 ^ o) by (apply pow2_pos; lia).
      assert (w * 256 * u * G <= w * 256 * (2 ^ f_exp b * 2 ^ o) * G).
      { apply Z.mul_le_mono_nonneg_r; [lia|]. apply Z.mul_le_mono_nonneg_l; [lia|]. exact Hue. }
      lia.
Qed.

(* Overflow clauses *)
Lemma norm_partBC C Nm Dn neg o exp man r S G :
  fmt_ok C -> 0 <= o -> 0 < S -> 0 < Dn -> 0 < G -> S * Dn = 2 ^ (o + 8) * G -> 0 < exp ->
  norm_post C neg o exp man r ->
  (forall k, 0 <= k -> 2 ^ (mbits C + 7) - 1 <= man * 2 ^ k < 2 ^ (mbits C + 8) ->
     (2 ^ (mbits C + 7) - 1 <= man -> k = 0) ->
     (man * 2 ^ (exp + o) * G - Nm * S) * 2 ^ k < 127 * 2 ^ (exp + o) * G) ->
  (forall k, 0 <= k -> 2 ^ (mbits C + 7) - 1 <= man * 2 ^ k < 2 ^ (mbits C + 8) ->
     (2 ^ (mbits C + 7) - 1 <= man -> k = 0) ->
     (Nm * S - man * 2 ^ (exp + o) * G) * 2 ^ k < 128 * 2 ^ (exp + o) * G) ->
  (match r return Prop with
   | Host x => x = 5 /\ (2 ^ mbits C - 1) * 2 ^ 255 * Dn < Nm
   | Ok _ => True
   | _ => False
   end) /\ (2 ^ mbits C * 2 ^ 255 * Dn <= Nm -> r = Host 5).
Proof.
  intros HC Ho HS HDn HG HSD Hexp (k & Hk & Hrange & Hk0 & Hpost) HB HCc. cbv zeta in Hpost.
  pose proof (mbits_ge C HC) as Hg. pose proof (mbits_le C HC) as Hl.
  specialize (HCc k Hk Hrange Hk0). specialize (HB k Hk Hrange Hk0).
  set (V := man * 2 ^ (exp + o)) in *.
  assert (Ho8 : 2 ^ (o + 8) = 256 * 2 ^ o) by (replace (o + 8) with (8 + o) by lia; rewrite pow2_split by lia; reflexivity).
  assert (H2o : 0 < 2 ^ o) by (apply pow2_pos; lia).
  assert (E255 : 2 ^ (255 + o) = 2 ^ 255 * 2 ^ o) by (apply pow2_split; lia).
  assert (Hp255 : 0 < 2 ^ 255) by (apply pow2_pos; lia).
  assert (E8 : 2 ^ (mbits C + 8) = 256 * 2 ^ mbits C) by (replace (mbits C + 8) with (8 + mbits C) by lia; rewrite pow2_split by lia; reflexivity).
  assert (Hpm : 0 < 2 ^ mbits C) by (apply pow2_pos; lia).
  assert (H2k : 0 < 2 ^ k) by (apply pow2_pos; lia).
  assert (Hpe : 0 < 2 ^ (exp + o)) by (apply pow2_pos; lia).
  destruct Hpost as [(E & HV)|[(b & E & Hok & He0 & Hek & HV)|(b & E & Hok & He & Hn & Hee & Herr)]]; subst r.
  - destruct HV as [He255 Hcase]. split; [|reflexivity]. split; [reflexivity|].
    assert (Hpos : 0 <= exp - k + o) by lia.
    set (u := 2 ^ (exp - k + o)) in *. assert (Hu : 0 < u) by (apply pow2_pos; lia).
    assert (Eu : 2 ^ (exp + o) = 2 ^ k * u).
    { unfold u. rewrite <- pow2_split by lia. f_equal. lia. }
    set (M' := man * 2 ^ k) in *.
    assert (HVG : V * G = M' * (u * G)) by (unfold V, M'; rewrite Eu; lia).
    assert (Hd : V * G - Nm * S < 127 * (u * G)).
    { rewrite Eu in HB. assert (0 < u * G) by nia.
      apply (Z.mul_lt_mono_pos_r (2 ^ k)); [exact H2k|]. lia. }
    assert (Hlt : (2 ^ mbits C - 1) * 2 ^ 255 * (S * Dn) < Nm * S).
    { rewrite HSD, Ho8. rewrite E8 in Hrange, Hcase.
      assert (Hlo : (M' - 127) * (u * G) < Nm * S) by lia.
      destruct Hcase as [Hc|Hc].
      - assert (Hu255 : 2 ^ (255 + o) <= u) by (apply pow2_le; lia). rewrite E255 in Hu255.
        assert ((256 * 2 ^ mbits C - 255) * (2 ^ 255 * 2 ^ o * G) <= (M' - 127) * (u * G)).
        { assert (2 ^ 255 * 2 ^ o * G <= u * G) by nia.
          assert (0 < 2 ^ 255 * 2 ^ o * G) by nia.
          assert (256 * 2 ^ mbits C - 255 <= M' - 127) by lia. nia. }
        nia.
      - assert (Hu256 : 2 ^ (256 + o) <= u) by (apply pow2_le; lia).
        assert (E256 : 2 ^ (256 + o) = 2 * (2 ^ 255 * 2 ^ o)).
        { replace (256 + o) with (255 + o + 1) by lia. rewrite pow2_S by lia. rewrite E255. reflexivity. }
        rewrite E256 in Hu256.
        assert ((128 * 2 ^ mbits C - 128) * (2 * (2 ^ 255 * 2 ^ o) * G) <= (M' - 127) * (u * G)).
        { assert (2 * (2 ^ 255 * 2 ^ o) * G <= u * G) by nia.
          assert (0 < 2 * (2 ^ 255 * 2 ^ o) * G) by nia.
          assert (E7 : 2 ^ (mbits C + 7) = 128 * 2 ^ mbits C).
          { replace (mbits C + 7) with (7 + mbits C) by lia. rewrite pow2_split by lia. reflexivity. }
          assert (128 * 2 ^ mbits C - 128 <= M' - 127) by lia. nia. }
        nia. }
    replace ((2 ^ mbits C - 1) * 2 ^ 255 * (S * Dn)) with ((2 ^ mbits C - 1) * 2 ^ 255 * Dn * S) in Hlt by lia.
    nia.
  - split; [exact I|]. intros Hbig. exfalso.
    assert (Hbig' : 2 ^ mbits C * 2 ^ 255 * (S * Dn) <= Nm * S) by nia.
    rewrite HSD, Ho8 in Hbig'. rewrite E8 in HV.
    assert (Hle : 2 ^ (exp + o) <= 2 ^ k * 2 ^ o) by (rewrite <- pow2_split by lia; apply pow2_le; lia).
    assert (Nm * S - V * G < 128 * 2 ^ o * G) by nia.
    assert (2 <= 2 ^ 255) by (change 2 with (2 ^ 1) at 1; apply pow2_le; lia).
    nia.
  - split; [exact I|]. intros Hbig. exfalso.
    assert (Hbig' : 2 ^ mbits C * 2 ^ 255 * (S * Dn) <= Nm * S) by nia.
    rewrite HSD, Ho8 in Hbig'.
    assert (Hpos : 0 <= exp - k + o) by lia.
    set (u := 2 ^ (exp - k + o)) in *. assert (Hu : 0 < u) by (apply pow2_pos; lia).
    assert (Eu : 2 ^ (exp + o) = 2 ^ k * u).
    { unfold u. rewrite <- pow2_split by lia. f_equal. lia. }
    assert (Hd : Nm * S - V * G < 128 * u * G) by (rewrite Eu in HCc; nia).
    assert (Hue : u <= 2 ^ (f_exp b + o)) by (apply pow2_le; lia).
    assert (Hee2 : 2 ^ (f_exp b + o) <= 2 ^ (255 + o)) by (apply pow2_le; lia).
    pose proof (f_man_bound C b HC) as Hfm.
    set (R := 256 * f_man C b * 2 ^ (f_exp b + o)) in *.
    assert (0 < 2 ^ (f_exp b + o)) by (apply pow2_pos; lia).
    assert (HR : R <= (256 * 2 ^ mbits C - 256) * 2 ^ (f_exp b + o)) by (unfold R; nia).
    rewrite E255 in Hee2.
    assert (HVR : V * G <= R * G + 128 * u * G) by nia.
    assert (Nm * S < (256 * 2 ^ mbits C - 256) * 2 ^ (f_exp b + o) * G + 256 * u * G) by nia.
    assert (256 * u * G <= 256 * 2 ^ (f_exp b + o) * G) by nia.
    assert ((256 * 2 ^ mbits C) * 2 ^ (f_exp b + o) * G <= (256 * 2 ^ mbits C) * (2 ^ 255 * 2 ^ o) * G) by nia.
    nia.
Qed.

(* ------------------------------------------------------------------------------------------------ *)
(* _normalise overwrites the whole buffer: the result does not depend on the old contents *)

Lemma loop3_buf_indep f C buf buf' neg : forall exp man,
  mbf_normalise_loop_3 f C buf neg exp man = mbf_normalise_loop_3 f C buf' neg exp man.
Proof.
  induction f as [|f IH]; intros exp man; [reflexivity|].
  rewrite !loop3_S. destruct (man <? c_den_mask C - 1); [apply IH | reflexivity].
Qed.

Lemma pack_buf_indep n buf buf' x : zlen buf = n -> zlen buf' = n ->
  pack_into_le n buf x = pack_into_le n buf' x.
Proof.
  intros H1 H2. unfold pack_into_le. rewrite H1, H2.
  rewrite !skipn_all2 by (unfold zlen in *; lia). reflexivity.
Qed.

Lemma normalise_buf_indep C buf buf' exp man neg : fmt_ok C -> zlen buf = c_size C -> zlen buf' = c_size C ->
  mbf_normalise C buf exp man neg = mbf_normalise C buf' exp man neg.
Proof.
  intros HC H1 H2. rewrite !normalise_unfold.
  destruct ((man =? 0) || (exp <=? 0)); [reflexivity|].
  rewrite (loop3_buf_indep 1000 C buf buf').
  destruct (mbf_normalise_loop_3 1000 C buf' neg exp man) as [[e m]| | |]; cbn [bind]; try reflexivity.
  unfold norm_tail. cbv zeta.
  match goal with |- context [if ?c then _ else _] => destruct c end; cbn [bind]; cbv beta iota;
    rewrite (pack_buf_indep (c_intsize C) buf buf') by (rewrite (ok_intsize C HC); assumption);
    reflexivity.
Qed.
