(* C11: the invariant holds after every history (LET, DIM, ERASE, OPTION BASE, CLEAR, SWAP, VARPTR, VARPTR$,
   PEEK), and assignments leave every other variable and element alone *)
From Coq Require Import ZArith List Bool Lia.
From PCB Require Import lib.Result lib.PyInt lib.Harness lib.ArraysLib gen.Gen_arrays model.Arrays model.VarMem.
From PCB Require Import proofs.Arrays_index_proofs proofs.Arrays_list_proofs proofs.Arrays_proofs
  proofs.Arrays_history_proofs proofs.VarMem_proofs.
Import ListNotations.
Open Scope Z_scope.

(* ---------- places of SWAP ---------- *)

Definition place_ok (st : vstate) (p : place) (n : list Z) : Prop :=
  match p with
  | PScalar m => m = n /\ exists s, slookup (v_svars st) n = Some s
  | PElem m lo hi =>
      m = n /\ exists a k, lookup (a_list (v_arr st)) n = Some a /\
        0 <= k < radix_prod (base_of (v_arr st)) (a_dims a) /\
        lo = k * size_bytes n /\ hi = (k + 1) * size_bytes n
  end.

(* the state only grows: scalars appended, fresh arrays appended, set base kept *)
Definition grows (st st' : vstate) : Prop :=
  (exists fr, v_svars st' = v_svars st ++ fr) /\ extends (v_arr st) (v_arr st').

Lemma grows_refl st : grows st st.
Proof. split; [exists []; rewrite app_nil_r; reflexivity | apply extends_refl]. Qed.

Lemma place_ok_grows st st' p n : VInv st -> grows st st' -> place_ok st p n -> place_ok st' p n.
Proof.
  intros V [(fr & Es) [(fa & Ea & _) Eb]] H. destruct p as [m|m lo hi]; simpl in *.
  - destruct H as [E (s & Ls)]. split; [assumption|]. exists s. rewrite Es, slookup_app, Ls. reflexivity.
  - destruct H as [E (a & k & La & Hk & Hlo & Hhi)]. split; [assumption|]. exists a, k.
    destruct (lookup_some _ _ _ La) as [Ha _].
    pose proof (AInv_base_some _ a (vi_arr st V) Ha) as Hb.
    assert (B : base_of (v_arr st') = base_of (v_arr st)) by (unfold base_of at 1; rewrite (Eb _ Hb); reflexivity).
    rewrite B, Ea, lookup_app, La. auto.
Qed.

Lemma scalar_set_grows st limit n v : slookup (v_svars st) n = None \/ v = None ->
  grows st (fst (scalar_set st limit n v)).
Proof.
  intros H. pose proof (scalar_set_cases st limit n v) as C.
  destruct (slookup (v_svars st) n) as [s|] eqn:E.
  - destruct H as [H|H]; [discriminate|]. subst v. rewrite C. apply grows_refl.
  - destruct (_ <=? _); rewrite C; simpl; [apply grows_refl|].
    split; [eexists; reflexivity | apply extends_refl].
Qed.

Lemma lift_check_dim_grows st limit n idx : VInv st -> sigil_ok n ->
  grows st (fst (lift st (check_dim (v_arr st) (afree st limit) n idx))).
Proof.
  intros V Hs. split; simpl; [exists []; rewrite app_nil_r; reflexivity|].
  apply check_dim_inv; [apply V | assumption].
Qed.

Lemma view_place_spec st limit n idx e : VInv st -> sigil_ok n ->
  VInv (fst (view_place st limit n idx e)) /\ grows st (fst (view_place st limit n idx e)) /\
  (forall p, snd (view_place st limit n idx e) = Ok p -> place_ok (fst (view_place st limit n idx e)) p n).
Proof.
  intros V Hs. unfold view_place. destruct idx as [|i0 idx'].
  - destruct (slookup (v_svars st) n) as [s|] eqn:Ls.
    + simpl. split; [assumption|]. split; [apply grows_refl|]. intros p E. inversion E; subst.
      simpl. split; [reflexivity | exists s; assumption].
    + pose proof (scalar_set_inv st limit n None V Hs I) as V1.
      pose proof (scalar_set_grows st limit n None (or_introl Ls)) as G1.
      pose proof (scalar_set_cases st limit n None) as C. rewrite Ls in C.
      destruct (_ <=? _); rewrite C in *; simpl in *.
      * split; [assumption|]. split; [assumption | discriminate].
      * destruct e; simpl; (split; [assumption|]; split; [assumption|]); [discriminate|].
        intros p E. inversion E; subst. simpl. split; [reflexivity|].
        eexists. rewrite slookup_app, Ls. simpl. rewrite list_Z_eqb_refl. reflexivity.
  - set (idx := i0 :: idx') in *.
    pose proof (check_dim_inv (v_arr st) (afree st limit) n idx (vi_arr st V) Hs) as [A1 X1].
    pose proof (lift_inv st (check_dim (v_arr st) (afree st limit) n idx) V A1) as V1.
    pose proof (lift_check_dim_grows st limit n idx V Hs) as G1.
    unfold lift in *. simpl in V1, G1.
    destruct (check_dim (v_arr st) (afree st limit) n idx) as [a1 r] eqn:EC. simpl in *.
    destruct r as [dims| | |]; simpl; try (split; [assumption|]; split; [assumption | discriminate]).
    split; [assumption|]. split; [assumption|].
    destruct (check_dim_ok _ _ _ _ _ _ (vi_arr st V) Hs EC) as (a & La & Hd & Hb & Hin).
    destruct (lookup_some _ _ _ La) as [Ha Hn]. subst n dims.
    rewrite elem_range_spec by (try assumption; eapply in_bounds_length; eassumption).
    intros p E. simpl in E. inversion E; subst p. simpl. split; [reflexivity|].
    exists a, (index_spec (base_of a1) idx (a_dims a)).
    assert (Hok : arr_ok (base_of a1) a) by (eapply Forall_forall; [apply inv_arrs, A1 | exact Ha]).
    destruct (arr_ok_elem _ a idx (inv_base _ A1) Hok Hin) as (Hk & _ & _).
    unfold elem_lo, elem_hi. auto.
Qed.

Lemma read_place_ok st p n : VInv st -> sigil_ok n -> place_ok st p n ->
  exists b, read_place st p = Ok b /\ length b = Z.to_nat (size_bytes n) /\ bytes_ok b.
Proof.
  intros V Hs H. destruct p as [m|m lo hi]; simpl in *.
  - destruct H as [E (s & Ls)]. subst m. rewrite Ls. exists (s_buf s). split; [reflexivity|].
    destruct (slookup_some _ _ _ Ls) as [Hin Hn]. pose proof (vi_ok st V) as F. rewrite Forall_forall in F.
    destruct (F s Hin) as (_ & Hl & Hb & _). rewrite Hn in Hl. auto.
  - destruct H as [E (a & k & La & Hk & Hlo & Hhi)]. subst m lo hi. rewrite La.
    exists (slice (a_buf a) (k * size_bytes n) ((k + 1) * size_bytes n)). split; [reflexivity|].
    destruct (lookup_some _ _ _ La) as [Ha Hn]. pose proof (vi_arr st V) as A.
    assert (Hok : arr_ok (base_of (v_arr st)) a) by (eapply Forall_forall; [apply inv_arrs, A | exact Ha]).
    destruct Hok as (_ & _ & _ & Hlen & Hby & _). pose proof (size_bytes_pos n Hs). rewrite Hn in Hlen.
    split; [eapply elem_slice_length; eauto; lia | apply slice_bytes, Hby].
Qed.

Lemma write_place_spec st p n b : VInv st -> sigil_ok n -> place_ok st p n ->
  length b = Z.to_nat (size_bytes n) -> bytes_ok b ->
  VInv (write_place st p b) /\ (forall q m, place_ok st q m -> place_ok (write_place st p b) q m).
Proof.
  intros V Hs H Hl Hb. destruct p as [m|m lo hi]; simpl in *.
  - destruct H as [E (s & Ls)]. subst m. split; [eapply (VInv_set_sbuf st n s b); eauto|].
    intros q m Hq. destruct q as [m'|m' lo' hi']; simpl in *; [|exact Hq].
    destruct Hq as [E (s' & Ls')]. subst m'. split; [reflexivity|].
    destruct (list_eq_dec Z.eq_dec m n) as [C|C].
    + subst m. eexists. apply supdate_slookup_same. eassumption.
    + exists s'. rewrite supdate_slookup_other by assumption. assumption.
  - destruct H as [E (a & k & La & Hk & Hlo & Hhi)]. subst m lo hi. rewrite La.
    destruct (lookup_some _ _ _ La) as [Ha Hn]. pose proof (vi_arr st V) as A.
    assert (Hok : arr_ok (base_of (v_arr st)) a) by (eapply Forall_forall; [apply inv_arrs, A | exact Ha]).
    destruct Hok as (_ & _ & _ & Hlen & Hby & _). pose proof (size_bytes_pos n Hs). rewrite Hn in Hlen.
    split.
    + apply VInv_with_arr; [assumption|].
      apply (AInv_set_buf (v_arr st) n a); auto.
      * eapply elem_set_length; eauto; lia.
      * apply set_slice_bytes; assumption.
    + intros q m Hq. destruct q as [m'|m' lo' hi']; simpl in *; [exact Hq|].
      destruct Hq as [E (a' & k' & La' & Hk' & Hlo' & Hhi')]. subst m'. split; [reflexivity|].
      destruct (list_eq_dec Z.eq_dec m n) as [C|C].
      * subst m. rewrite La in La'. inversion La'; subst a'.
        eexists; exists k'. rewrite (update_buf_lookup_same _ _ _ _ La). simpl. auto.
      * exists a', k'. rewrite update_buf_lookup_other by assumption. auto.
Qed.

Lemma size_bytes_last n1 n2 : py_last n1 = py_last n2 -> size_bytes n1 = size_bytes n2.
Proof. intros H. unfold size_bytes. rewrite H. reflexivity. Qed.

Lemma swap_inv st limit n1 i1 n2 i2 : VInv st -> sigil_ok n1 -> sigil_ok n2 ->
  VInv (fst (swap_ st limit n1 i1 n2 i2)).
Proof.
  intros V H1 H2. unfold swap_.
  destruct (Z.eqb_spec (py_last n1) (py_last n2)) as [EL|EL]; simpl; [|assumption].
  pose proof (size_bytes_last _ _ EL) as ES.
  destruct (view_place_spec st limit n1 i1 false V H1) as (V1 & G1 & P1).
  destruct (view_place st limit n1 i1 false) as [st1 r1]. simpl in *.
  destruct r1 as [left| | |]; simpl; try assumption.
  specialize (P1 left eq_refl).
  destruct (view_place_spec st1 limit n2 i2 true V1 H2) as (V2 & G2 & P2).
  destruct (view_place st1 limit n2 i2 true) as [st2 r2]. simpl in *.
  destruct r2 as [right| | |]; simpl; try assumption.
  specialize (P2 right eq_refl).
  pose proof (place_ok_grows st1 st2 left n1 V1 G2 P1) as P1'.
  destruct (read_place_ok st2 right n2 V2 H2 P2) as (rb & Er & Lr & Br).
  destruct (read_place_ok st2 left n1 V2 H1 P1') as (lb & El & Ll & Bl).
  rewrite Er. cbn [bindS]. rewrite El. cbn [bindS fst].
  destruct (write_place_spec st2 left n1 rb V2 H1 P1' ltac:(rewrite ES; exact Lr) Br) as [V3 K3].
  apply (write_place_spec _ right n2 lb V3 H2 (K3 _ _ P2) ltac:(rewrite <- ES; exact Ll) Bl).
Qed.

(* ---------- every step keeps the invariant ---------- *)

Definition vop_ok (o : vop) : Prop :=
  match o with
  | VLetS _ n v => sigil_ok n /\ length v = Z.to_nat (size_bytes n) /\ bytes_ok v
  | VLetE _ n _ v => sigil_ok n /\ bytes_ok v
  | VDim _ args => Forall (fun p => sigil_ok (fst p)) args
  | VErase _ => True
  | VBase b => b = 0 \/ b = 1
  | VClear => True
  | VSwap _ n1 _ n2 _ => sigil_ok n1 /\ sigil_ok n2
  | VVarptr _ n _ => sigil_ok n
  | VVarptrS _ n _ => sigil_ok n
  | VPeek _ _ => True
  | VDump _ => True
  end.

Lemma varptr_inv st limit n idx : VInv st -> sigil_ok n -> VInv (fst (varptr_ st limit n idx)).
Proof.
  intros V Hs. unfold varptr_. destruct idx as [|i0 idx']; [exact V|].
  pose proof (check_dim_inv (v_arr st) (afree st limit) n (i0 :: idx') (vi_arr st V) Hs) as [A1 _].
  pose proof (lift_inv st (check_dim (v_arr st) (afree st limit) n (i0 :: idx')) V A1) as V1.
  destruct (lift st (check_dim (v_arr st) (afree st limit) n (i0 :: idx'))) as [st1 [d| | |]]; exact V1.
Qed.

Lemma vstep_inv st o : VInv st -> vop_ok o -> VInv (fst (vstep st o)).
Proof.
  intros V Hok. destruct o; simpl in *.
  - destruct Hok as (H1 & H2 & H3). pose proof (let_scalar_inv st limit n v V H1 (conj H2 H3)) as X.
    destruct (let_scalar st limit n v); exact X.
  - destruct Hok as (H1 & H2). pose proof (let_elem_inv st limit n idx v V H1 H2) as X.
    destruct (let_elem st limit n idx v); exact X.
  - pose proof (dim_inv (v_arr st) (afree st limit) args (vi_arr st V) Hok) as [X _].
    apply VInv_with_arr; assumption.
  - pose proof (erase_inv (v_arr st) names (vi_arr st V)) as [X _]. apply VInv_with_arr; assumption.
  - pose proof (option_base_inv (v_arr st) b (vi_arr st V) Hok) as [X _]. apply VInv_with_arr; assumption.
  - apply VInv_init, V.
  - destruct Hok as (H1 & H2). pose proof (swap_inv st limit n1 i1 n2 i2 V H1 H2) as X.
    destruct (swap_ st limit n1 i1 n2 i2); exact X.
  - pose proof (varptr_inv st limit n idx V Hok) as X. destruct (varptr_ st limit n idx); exact X.
  - pose proof (varptr_inv st limit n idx V Hok) as X. unfold varptr_str_.
    destruct (varptr_ st limit n idx) as [s [p| | |]]; exact X.
  - exact V.
  - exact V.
Qed.

Theorem vfinal_inv ops : forall st, VInv st -> Forall vop_ok ops -> VInv (vfinal st ops).
Proof.
  induction ops as [|o ops IH]; intros st V F; [exact V|].
  inversion F; subst. simpl. apply IH; [apply vstep_inv|]; assumption.
Qed.

(* ---------- frame ---------- *)

(* assigning a scalar: every other scalar keeps its bytes and address, the array table is untouched *)
Theorem let_scalar_frame st limit n v : forall n', n' <> n ->
  (forall s, slookup (v_svars st) n' = Some s -> slookup (v_svars (fst (let_scalar st limit n v))) n' = Some s) /\
  v_arr (fst (let_scalar st limit n v)) = v_arr st.
Proof.
  intros n' Hn.
  assert (K : forall st0 v0, (forall s, slookup (v_svars st0) n' = Some s ->
               slookup (v_svars (fst (scalar_set st0 limit n v0))) n' = Some s) /\
               v_arr (fst (scalar_set st0 limit n v0)) = v_arr st0).
  { intros st0 v0. pose proof (scalar_set_cases st0 limit n v0) as C.
    destruct (slookup (v_svars st0) n) as [s0|] eqn:E.
    - rewrite C. simpl. destruct v0; simpl; [|auto].
      split; [|reflexivity]. intros s Ls. rewrite supdate_slookup_other by assumption. exact Ls.
    - destruct (_ <=? _); rewrite C; simpl; [auto|]. split; [|reflexivity].
      intros s Ls. rewrite slookup_app, Ls. reflexivity. }
  unfold let_scalar. destruct (K st None) as [K1 K2].
  destruct (scalar_set st limit n None) as [st1 [[]| | |]]; simpl in *; auto.
  destruct (K st1 (Some v)) as [K3 K4]. split; [intros s Ls; apply K3, K1, Ls | congruence].
Qed.

(* assigning an element: scalars untouched; every other element of every array keeps its bytes *)
Theorem let_elem_frame st limit n idx v : VInv st -> sigil_ok n ->
  v_svars (fst (let_elem st limit n idx v)) = v_svars st /\
  (snd (let_elem st limit n idx v) = Ok tt ->
   forall n' a' idx', lookup (a_list (v_arr st)) n' = Some a' ->
     in_bounds (base_of (v_arr st)) (a_dims a') idx' -> (n', idx') <> (n, idx) ->
     exists a'', lookup (a_list (v_arr (fst (let_elem st limit n idx v)))) n' = Some a'' /\
       a_dims a'' = a_dims a' /\
       elem_of (base_of (v_arr (fst (let_elem st limit n idx v)))) a'' idx' =
       elem_of (base_of (v_arr st)) a' idx').
Proof.
  intros V Hs. pose proof (vi_arr st V) as A. unfold let_elem, lift.
  pose proof (check_dim_inv (v_arr st) (afree st limit) n idx A Hs) as [A1 X1].
  destruct (check_dim (v_arr st) (afree st limit) n idx) as [a1 r1] eqn:EC. simpl in *.
  destruct r1 as [dims| | |]; cbn [bindS fst snd]; try (split; [reflexivity | discriminate]).
  split; [reflexivity|]. simpl.
  (* the second check_dim finds the array declared *)
  destruct (check_dim_ok _ _ _ _ _ _ A Hs EC) as (a & La & Hd & Hb & Hin).
  assert (EC2 : check_dim a1 (afree (with_arr st a1) limit) n idx = (a1, Ok dims)).
  { rewrite (check_dim_declared _ _ _ _ _ La), (with_base_some _ _ _ Hb), Hd.
    assert (X : arrays_check_subscripts (base_of a1) idx dims = Ok tt)
      by (apply check_subscripts_ok; [apply inv_base, A1 | exact Hin]).
    rewrite X. reflexivity. }
  destruct (elem_set_ok _ _ _ _ v _ _ A1 Hs EC2) as (a2 & La2 & _ & _ & ES). rewrite La in La2.
  inversion La2; subst a2. rewrite ES.
  destruct (Nat.eqb_spec (Z.to_nat (size_bytes n)) (length v)) as [Hl|Hl]; simpl; [|discriminate].
  intros _ n' a' idx' La' Hin' Hne.
  destruct (lookup_some _ _ _ La') as [Ha' Hn'].
  pose proof (AInv_base_some _ a' A Ha') as Hb'.
  destruct X1 as [(fr & EL & _) EB].
  assert (B : base_of a1 = base_of (v_arr st)) by (unfold base_of at 1; rewrite (EB _ Hb'); reflexivity).
  assert (La1 : lookup (a_list a1) n' = Some a') by (rewrite EL, lookup_app, La'; reflexivity).
  change (base_of (set_buf a1 n (set_slice (a_buf a) (elem_lo (base_of a1) a idx) v))) with (base_of a1).
  rewrite B in *.
  destruct (list_eq_dec Z.eq_dec n' n) as [E|E].
  - clear Hn'. subst n'. rewrite La in La1. inversion La1; subst a'.
    eexists. split; [apply update_buf_lookup_same, La|]. split; [reflexivity|].
    assert (idx' <> idx) by (intros C; subst; apply Hne; reflexivity).
    destruct (lookup_some _ _ _ La) as [Ha Hn].
    assert (Hok : arr_ok (base_of (v_arr st)) a) by (rewrite <- B; eapply Forall_forall; [apply inv_arrs, A1 | exact Ha]).
    subst dims.
    destruct (arr_ok_elem _ a idx (inv_base _ A) Hok Hin) as (Hk & Hsz & Hlen).
    destruct (arr_ok_elem _ a idx' (inv_base _ A) Hok Hin') as (Hk' & _ & _).
    unfold elem_of, elem_lo, elem_hi. simpl.
    apply (elem_get_set_other (a_buf a) _ _ (radix_prod (base_of (v_arr st)) (a_dims a))); auto; try lia.
    + intros C. apply H. symmetry. eapply index_spec_injective; eauto.
    + rewrite Hn. lia.
  - exists a'. split; [rewrite update_buf_lookup_other by assumption; exact La1 | auto].
Qed.

(* ---------- VARPTR$ ---------- *)

Theorem varptr_str_layout st limit n idx st1 p : varptr_ st limit n idx = (st1, Ok p) ->
  varptr_str_ st limit n idx = (st1, Ok [size_bytes n; p mod 256; (p / 256) mod 256]) /\
  (0 <= p < 65536 -> le_decode [p mod 256; (p / 256) mod 256] = p).
Proof.
  intros H. split.
  - unfold varptr_str_. rewrite H. reflexivity.
  - intros Hp. apply (le_decode_encode 2 p). simpl. lia.
Qed.

(* VARPTR of a scalar is its value address; of an undefined scalar Illegal function call *)
Lemma varptr_scalar st limit n :
  varptr_ st limit n [] =
  (st, match slookup (v_svars st) n with Some s => Ok (s_vptr s) | None => Err err_IFC end).
Proof. reflexivity. Qed.

(* ---------- SWAP: the second operand receives the bytes the first one holds AFTER both operands have been
   located (locating the second one may dimension an array and, in the implementation, run the string
   collector, which rewrites string descriptors in place: a copy taken earlier would be stale) ---------- *)

Lemma read_write_same st p n b : VInv st -> sigil_ok n -> place_ok st p n ->
  length b = Z.to_nat (size_bytes n) -> read_place (write_place st p b) p = Ok b.
Proof.
  intros V Hs H Hl. destruct p as [m|m lo hi]; simpl in *.
  - destruct H as [E (s & Ls)]. subst m. rewrite (supdate_slookup_same _ _ b _ Ls). reflexivity.
  - destruct H as [E (a & k & La & Hk & Hlo & Hhi)]. subst m lo hi. rewrite La. simpl.
    rewrite (update_buf_lookup_same _ _ _ _ La). simpl. f_equal.
    destruct (lookup_some _ _ _ La) as [Ha Hn]. pose proof (vi_arr st V) as A.
    assert (Hok : arr_ok (base_of (v_arr st)) a) by (eapply Forall_forall; [apply inv_arrs, A | exact Ha]).
    destruct Hok as (_ & _ & _ & Hlen & _ & _). pose proof (size_bytes_pos n Hs). rewrite Hn in Hlen.
    eapply elem_get_set_same; eauto; lia.
Qed.

Theorem swap_right_gets_left st limit n1 i1 n2 i2 st' : VInv st -> sigil_ok n1 -> sigil_ok n2 ->
  swap_ st limit n1 i1 n2 i2 = (st', Ok tt) ->
  exists st1 st2 left right lb,
    view_place st limit n1 i1 false = (st1, Ok left) /\ view_place st1 limit n2 i2 true = (st2, Ok right) /\
    read_place st2 left = Ok lb /\ read_place st' right = Ok lb.
Proof.
  intros V H1 H2. unfold swap_.
  destruct (Z.eqb_spec (py_last n1) (py_last n2)) as [EL|EL]; simpl; [|discriminate].
  pose proof (size_bytes_last _ _ EL) as ES.
  destruct (view_place_spec st limit n1 i1 false V H1) as (V1 & G1 & P1).
  destruct (view_place st limit n1 i1 false) as [st1 r1] eqn:EV1. simpl in *.
  destruct r1 as [left| | |]; simpl; try discriminate.
  specialize (P1 left eq_refl).
  destruct (view_place_spec st1 limit n2 i2 true V1 H2) as (V2 & G2 & P2).
  destruct (view_place st1 limit n2 i2 true) as [st2 r2] eqn:EV2. simpl in *.
  destruct r2 as [right| | |]; simpl; try discriminate.
  specialize (P2 right eq_refl).
  pose proof (place_ok_grows st1 st2 left n1 V1 G2 P1) as P1'.
  destruct (read_place_ok st2 right n2 V2 H2 P2) as (rb & Er & Lr & Br).
  destruct (read_place_ok st2 left n1 V2 H1 P1') as (lb & El & Ll & Bl).
  rewrite Er. cbn [bindS]. rewrite El. cbn [bindS]. intros E. inversion E; subst st'.
  exists st1, st2, left, right, lb. repeat split; auto.
  destruct (write_place_spec st2 left n1 rb V2 H1 P1' ltac:(rewrite ES; exact Lr) Br) as [V3 K3].
  apply (read_write_same _ right n2 lb V3 H2 (K3 _ _ P2)). rewrite <- ES. exact Ll.
Qed.
