(* C08: lemmas about the PRINT USING model (model/Using.v): width rule, string fields, field scanner. *)
From Coq Require Import ZArith List Bool Lia ZifyBool.
From PCB Require Import lib.Result lib.PyInt lib.Harness gen.Gen_using model.Using.
Import ListNotations.
Open Scope Z_scope.
Ltac Zify.zify_post_hook ::= Z.to_euclidean_division_equations.

(* ------------------------------------------------------------------ justification *)
Lemma rjust_length s n c : length (rjust s n c) = Nat.max n (length s).
Proof. unfold rjust. rewrite app_length, repeat_length. lia. Qed.

Lemma ljust_length s n c : length (ljust s n c) = Nat.max n (length s).
Proof. unfold ljust. rewrite app_length, repeat_length. lia. Qed.

Lemma ljust_short s n c : (n <= length s)%nat -> ljust s n c = s.
Proof. intros H. unfold ljust. replace (n - length s)%nat with O by lia. apply app_nil_r. Qed.

(* ------------------------------------------------------------------ width rule *)

(* the final step of NumberField.format: exactly the declared width, or '%' + the whole number *)
Lemma fit_field_cases f t :
  let t' := if (length t <? length (nf_tokens f))%nat then add_leading_zero t else t in
  ((length t' <= length (nf_tokens f))%nat /\
   fit_field f t = repeat (if nf_star f then cSTAR else cSPACE) (length (nf_tokens f) - length t') ++ t')
  \/ ((length (nf_tokens f) < length t')%nat /\ fit_field f t = cPCT :: t').
Proof.
  intros t'. unfold fit_field. fold t'.
  destruct (length (nf_tokens f) <? length t')%nat eqn:E.
  - right. apply Nat.ltb_lt in E. split; [exact E | reflexivity].
  - left. apply Nat.ltb_ge in E. split; [exact E | reflexivity].
Qed.

Lemma fit_field_width f t :
  length (fit_field f t) = length (nf_tokens f)
  \/ exists t', fit_field f t = cPCT :: t' /\ (length (nf_tokens f) < length t')%nat.
Proof.
  destruct (fit_field_cases f t) as [[Hle Heq] | [Hlt Heq]].
  - left. rewrite Heq, app_length, repeat_length. lia.
  - right. eexists. split; [exact Heq | exact Hlt].
Qed.

Lemma format_number_width f v out :
  format_number f v = Ok out ->
  length out = length (nf_tokens f)
  \/ exists t', out = cPCT :: t' /\ (length (nf_tokens f) < length t')%nat.
Proof.
  unfold format_number. destruct (_ >? _); [discriminate|].
  destruct (number_text f v) as [t| | |]; simpl; try discriminate.
  intros H. injection H as <-. apply fit_field_width.
Qed.

(* more than 24 digit positions: Illegal function call, whatever the value *)
Lemma format_number_too_many f v :
  nf_before f + nf_decimals f > max_digit_positions -> format_number f v = Err err_IFC.
Proof. intros H. unfold format_number. destruct (_ >? _) eqn:E; [reflexivity | lia]. Qed.

Ltac neq_disc := let H := fresh "H" in intro H; discriminate H.

Lemma to_str_scientific_no_err v db da fd e : to_str_scientific v db da fd <> Err e.
Proof.
  unfold to_str_scientific, sci_pair, to_decimal.
  destruct (nv_zero v).
  - destruct fd; [neq_disc|]. destruct (nv_dbl v); neq_disc.
  - destruct (assocz _ _); simpl; neq_disc.
Qed.

Lemma to_str_fixed_no_err v nd fd g e : to_str_fixed v nd fd g <> Err e.
Proof.
  unfold to_str_fixed, fixed_pair, to_decimal.
  destruct (nv_zero v).
  - destruct fd; [neq_disc|]. destruct (negb _); neq_disc.
  - destruct (assocz _ (nv_tab v)) as [p|]; simpl; [|neq_disc].
    destruct (_ >? _); [|simpl; neq_disc].
    destruct (_ >? _); [|simpl; neq_disc].
    destruct (assocz _ _); simpl; neq_disc.
Qed.

Lemma format_number_ifc_only f v e :
  format_number f v = Err e -> e = err_IFC /\ nf_before f + nf_decimals f > max_digit_positions.
Proof.
  unfold format_number. destruct (_ >? _) eqn:E.
  - intros H. injection H as <-. split; [reflexivity | lia].
  - unfold number_text. destruct (nf_exp f).
    + destruct (to_str_scientific v _ _ _) eqn:E1; simpl; try discriminate.
      exfalso. eapply to_str_scientific_no_err; eauto.
    + destruct (to_str_fixed v _ _ _) eqn:E1; simpl; try discriminate.
      exfalso. eapply to_str_fixed_no_err; eauto.
Qed.

(* ------------------------------------------------------------------ string fields *)
Lemma sf_scan_spec s w r :
  sf_scan s = Some (w, r) -> exists n, w = repeat cSPACE n ++ [cBSL] /\ s = w ++ r.
Proof.
  revert w r. induction s as [|c s IH]; intros w r H; simpl in H; [discriminate|].
  destruct (c =? cBSL) eqn:E1.
  - injection H as <- <-. apply Z.eqb_eq in E1. subst c. exists O. split; reflexivity.
  - destruct (c =? cSPACE) eqn:E2; [|discriminate].
    destruct (sf_scan s) as [[w' r']|] eqn:E3; [|discriminate].
    injection H as <- <-. apply Z.eqb_eq in E2. subst c.
    destruct (IH _ _ eq_refl) as [n [Hw Hs]]. exists (S n). subst w'. split; [reflexivity|].
    simpl. f_equal. exact Hs.
Qed.

Definition string_word (w : list Z) : Prop :=
  w = [cEXCL] \/ w = [cAMP] \/ exists n, w = cBSL :: repeat cSPACE n ++ [cBSL].

Lemma parse_string_field_spec s w r :
  parse_string_field s = Some (w, r) -> s = w ++ r /\ string_word w.
Proof.
  unfold parse_string_field, string_word. destruct s as [|c s]; [discriminate|].
  destruct ((c =? cEXCL) || (c =? cAMP)) eqn:E1.
  - intros H. injection H as <- <-. split; [reflexivity|].
    apply orb_true_iff in E1 as [E|E]; apply Z.eqb_eq in E; subst c; auto.
  - destruct (c =? cBSL) eqn:E2; [|discriminate].
    destruct (sf_scan s) as [[w' r']|] eqn:E3; [|discriminate].
    intros H. injection H as <- <-. apply Z.eqb_eq in E2. subst c.
    destruct (sf_scan_spec _ _ _ E3) as [n [Hw Hs]]. split.
    + simpl. f_equal. exact Hs.
    + right. right. exists n. rewrite Hw. reflexivity.
Qed.

(* `&`: the whole string *)
Lemma format_string_amp s : format_string [cAMP] s = s.
Proof. reflexivity. Qed.

(* every other string field: left-justified in / cut to the width of the field *)
Lemma format_string_fixed w s :
  w <> [cAMP] ->
  format_string w s = firstn (length w) s ++ repeat cSPACE (length w - length s)
  /\ length (format_string w s) = length w.
Proof.
  intros Hw. unfold format_string.
  destruct (list_Z_eqb w [cAMP]) eqn:E; [apply list_Z_eqb_eq in E; contradiction|].
  unfold ljust. rewrite firstn_app.
  rewrite (firstn_all2 (repeat cSPACE (length w - length s))) by (rewrite repeat_length; lia).
  split; [reflexivity|]. rewrite app_length, firstn_length, repeat_length. lia.
Qed.

(* `!`: the first character, a space for the empty string *)
Lemma format_string_excl s :
  format_string [cEXCL] s = [match s with c :: _ => c | [] => cSPACE end].
Proof. destruct s; reflexivity. Qed.

Lemma format_string_backslash n s :
  let w := cBSL :: repeat cSPACE n ++ [cBSL] in
  format_string w s = firstn (n + 2) s ++ repeat cSPACE (n + 2 - length s)
  /\ length (format_string w s) = (n + 2)%nat.
Proof.
  intros w.
  assert (Hlen : length w = (n + 2)%nat).
  { unfold w. simpl. rewrite app_length, repeat_length. simpl. lia. }
  assert (Hw : w <> [cAMP]) by (unfold w; intros H; discriminate).
  destruct (format_string_fixed w s Hw) as [H1 H2]. rewrite Hlen in *. split; assumption.
Qed.

(* ------------------------------------------------------------------ number field scanner *)
Definition hash_or_comma (c : Z) : Prop := c = cHASH \/ c = cCOMMA.

Lemma nf_loop_true s :
  exists k, nl_word (nf_loop s true) = repeat cHASH k /\ nl_before (nf_loop s true) = 0
    /\ nl_dec (nf_loop s true) = Z.of_nat k /\ nl_comma (nf_loop s true) = false
    /\ s = nl_word (nf_loop s true) ++ nl_rest (nf_loop s true).
Proof.
  induction s as [|c s IH]; simpl.
  - exists O. repeat split; reflexivity.
  - destruct (c =? cHASH) eqn:E; simpl.
    + destruct IH as [k [H1 [H2 [H3 [H4 H5]]]]]. apply Z.eqb_eq in E. subst c.
      exists (S k). rewrite H1, H2, H3, H4. simpl. repeat split; try lia.
      f_equal. rewrite <- H1. exact H5.
    + exists O. repeat split; reflexivity.
Qed.

Lemma nf_loop_false s :
  exists (ip : list Z) (hasdot : bool) (k : nat),
    Forall hash_or_comma ip
    /\ nl_word (nf_loop s false) = ip ++ (if hasdot then cDOT :: repeat cHASH k else [])
    /\ (hasdot = false -> k = O)
    /\ nl_before (nf_loop s false) = Z.of_nat (length ip)
    /\ nl_dec (nf_loop s false) = Z.of_nat k
    /\ nl_comma (nf_loop s false) = memz cCOMMA ip
    /\ s = nl_word (nf_loop s false) ++ nl_rest (nf_loop s false).
Proof.
  induction s as [|c s IH]; simpl.
  - exists (@nil Z), false, O. repeat split; try reflexivity. constructor.
  - destruct (c =? cDOT) eqn:E1; simpl.
    + apply Z.eqb_eq in E1. subst c.
      destruct (nf_loop_true s) as [k [H1 [H2 [H3 [H4 H5]]]]].
      exists (@nil Z), true, k. rewrite H1, H2, H3, H4. simpl.
      repeat split; try reflexivity; try constructor; try discriminate.
      f_equal. rewrite <- H1. exact H5.
    + destruct ((c =? cHASH) || (c =? cCOMMA)) eqn:E2; simpl.
      * destruct IH as [ip [hd [k [H1 [H2 [H3 [H4 [H5 [H6 H7]]]]]]]]].
        exists (c :: ip), hd, k. rewrite H2, H4, H5, H6. simpl. repeat split.
        -- constructor; [|exact H1]. unfold hash_or_comma.
           apply orb_true_iff in E2 as [E|E]; apply Z.eqb_eq in E; auto.
        -- exact H3.
        -- lia.
        -- rewrite orb_comm. f_equal. exact (Z.eqb_sym c cCOMMA).
        -- f_equal. rewrite <- H2. exact H7.
      * exists (@nil Z), false, O. repeat split; try reflexivity. constructor.
Qed.

Definition pre_ok (w1 : list Z) (b1 : Z) : Prop :=
  (w1 = [] /\ b1 = 0) \/ (w1 = [cSTAR; cSTAR] /\ b1 = 2) \/ (w1 = [cDOLLAR; cDOLLAR] /\ b1 = 1)
  \/ (w1 = [cSTAR; cSTAR; cDOLLAR] /\ b1 = 2).

Lemma nf_prefix_spec s w1 b1 s2 :
  nf_prefix s = Some (w1, b1, s2) -> s = w1 ++ s2 /\ pre_ok w1 b1.
Proof.
  unfold nf_prefix, pre_ok. destruct s as [|c r1]; [intros H; injection H as <- <- <-; auto|].
  destruct ((c =? cDOLLAR) || (c =? cSTAR)) eqn:E1; [|intros H; injection H as <- <- <-; auto].
  destruct r1 as [|c2 r2]; [discriminate|].
  destruct (c2 =? c) eqn:E2; [|discriminate]. apply Z.eqb_eq in E2. subst c2.
  destruct (c =? cSTAR) eqn:E3.
  - apply Z.eqb_eq in E3. subst c. destruct r2 as [|c3 r3].
    + intros H; injection H as <- <- <-. auto.
    + destruct (c3 =? cDOLLAR) eqn:E4; intros H; injection H as <- <- <-; [|auto].
      apply Z.eqb_eq in E4. subst c3. auto 6.
  - apply orb_true_iff in E1 as [E|E]; [|congruence]. apply Z.eqb_eq in E. subst c.
    intros H; injection H as <- <- <-. auto 6.
Qed.

(* the grammar of a number field *)
Record nshape := mkSH { sh_plus : bool; sh_pre : list Z; sh_ip : list Z; sh_dot : bool; sh_frac : nat;
                        sh_exp : bool; sh_sign : list Z }.

Definition carets : list Z := [cCARET; cCARET; cCARET; cCARET].

Definition shape_tokens (sh : nshape) : list Z :=
  (if sh_plus sh then [cPLUS] else []) ++ sh_pre sh ++ sh_ip sh
  ++ (if sh_dot sh then cDOT :: repeat cHASH (sh_frac sh) else [])
  ++ (if sh_exp sh then carets else []) ++ sh_sign sh.

Definition pre_positions (pre : list Z) : Z :=
  match pre with [] => 0 | c :: _ :: [] => if c =? cDOLLAR then 1 else 2 | _ => 2 end.

Definition shape_ok (sh : nshape) : Prop :=
  (sh_pre sh = [] \/ sh_pre sh = [cSTAR; cSTAR] \/ sh_pre sh = [cDOLLAR; cDOLLAR]
   \/ sh_pre sh = [cSTAR; cSTAR; cDOLLAR])
  /\ Forall hash_or_comma (sh_ip sh)
  /\ (sh_ip sh = [] \/ exists r, sh_ip sh = cHASH :: r)
  /\ (sh_dot sh = false -> sh_frac sh = O)
  /\ (sh_sign sh = [] \/ (sh_plus sh = false /\ (sh_sign sh = [cPLUS] \/ sh_sign sh = [cMINUS])))
  /\ 0 < pre_positions (sh_pre sh) + Z.of_nat (length (sh_ip sh)) + Z.of_nat (sh_frac sh).

Definition field_of_shape (sh : nshape) : nfield :=
  mkNF (shape_tokens sh) (pre_positions (sh_pre sh) + Z.of_nat (length (sh_ip sh)))
       (Z.of_nat (sh_frac sh)) (memz cCOMMA (sh_ip sh)).

Lemma hd_is_spec c s : hd_is c s = true -> s = c :: tl s.
Proof. destruct s as [|x r]; simpl; [discriminate|]. intros H. apply Z.eqb_eq in H. subst. reflexivity. Qed.

Lemma prefixb_spec p s : prefixb p s = true -> s = p ++ skipn (length p) s.
Proof.
  revert s. induction p as [|x p IH]; intros s H; simpl in *; [reflexivity|].
  destruct s as [|y s]; [discriminate|]. apply andb_true_iff in H as [H1 H2].
  apply Z.eqb_eq in H1. subst y. f_equal. apply IH. exact H2.
Qed.

Definition body_of (s2 : list Z) : nloop :=
  let dot := hd_is cDOT s2 in
  let s3 := if dot then tl s2 else s2 in
  if dot || hd_is cHASH s2 then nf_loop s3 dot else mkNL [] 0 0 false s3.

Lemma body_spec s2 :
  let L := body_of s2 in
  let wdot := if hd_is cDOT s2 then [cDOT] else [] in
  exists (ip : list Z) (hasdot : bool) (k : nat),
    Forall hash_or_comma ip
    /\ (ip = [] \/ exists r, ip = cHASH :: r)
    /\ wdot ++ nl_word L = ip ++ (if hasdot then cDOT :: repeat cHASH k else [])
    /\ (hasdot = false -> k = O)
    /\ nl_before L = Z.of_nat (length ip)
    /\ nl_dec L = Z.of_nat k
    /\ nl_comma L = memz cCOMMA ip
    /\ s2 = wdot ++ nl_word L ++ nl_rest L.
Proof.
  unfold body_of. destruct (hd_is cDOT s2) eqn:Ed.
  - simpl. destruct (nf_loop_true (tl s2)) as [k [H1 [H2 [H3 [H4 H5]]]]].
    exists (@nil Z), true, k. rewrite H1, H2, H3, H4. simpl.
    repeat split; try reflexivity; try constructor; auto; try discriminate.
    rewrite (hd_is_spec _ _ Ed) at 1. f_equal. rewrite <- H1. exact H5.
  - simpl. destruct (hd_is cHASH s2) eqn:Eh.
    + destruct (nf_loop_false s2) as [ip [hd [k [H1 [H2 [H3 [H4 [H5 [H6 H7]]]]]]]]].
      exists ip, hd, k. repeat split; auto.
      destruct ip as [|c ip']; [left; reflexivity|right].
      rewrite (hd_is_spec _ _ Eh) in H2. simpl in H2.
      replace (cHASH =? cDOT) with false in H2 by reflexivity.
      replace (cHASH =? cHASH) with true in H2 by reflexivity. simpl in H2.
      injection H2 as H2 _. exists ip'. congruence.
    + exists (@nil Z), false, O. simpl. repeat split; auto.
Qed.

Lemma pre_ok_positions w1 b1 : pre_ok w1 b1 -> b1 = pre_positions w1.
Proof. intros [[-> ->]|[[-> ->]|[[-> ->]|[-> ->]]]]; reflexivity. Qed.

Theorem parse_number_field_shape s f r :
  parse_number_field s = Some (f, r) ->
  exists sh, shape_ok sh /\ f = field_of_shape sh /\ s = nf_tokens f ++ r.
Proof.
  unfold parse_number_field.
  destruct (nf_prefix (if hd_is cPLUS s then tl s else s)) as [[[w1 b1] s2]|] eqn:Epre; [|discriminate].
  apply nf_prefix_spec in Epre as [Hs1 Hpre].
  fold (body_of s2).
  destruct (body_spec s2) as [ip [hasdot [k [Hip [Hhd [Hword [Hk [Hb [Hd [Hc Hs2]]]]]]]]]].
  set (L := body_of s2) in *.
  destruct (b1 + nl_before L + nl_dec L =? 0) eqn:Epos; [discriminate|].
  apply Z.eqb_neq in Epos.
  set (s4 := nl_rest L) in *.
  fold carets.
  set (hasexp := prefixb carets s4).
  set (s5 := if hasexp then skipn 4 s4 else s4).
  set (hassign := negb (hd_is cPLUS s) && (hd_is cMINUS s5 || hd_is cPLUS s5)).
  intros H. injection H as <- <-.
  assert (Hs4 : s4 = (if hasexp then carets else []) ++ s5).
  { unfold s5. destruct hasexp eqn:E; [|reflexivity]. apply (prefixb_spec carets s4 E). }
  assert (Hsg : hassign = false
                \/ (hassign = true /\ hd_is cPLUS s = false /\ exists c, (c = cPLUS \/ c = cMINUS) /\ s5 = c :: tl s5)).
  { unfold hassign. destruct (hd_is cPLUS s); [left; reflexivity|]. simpl.
    destruct (hd_is cMINUS s5) eqn:E1.
    - right. repeat split. exists cMINUS. split; [auto|]. apply hd_is_spec. exact E1.
    - destruct (hd_is cPLUS s5) eqn:E2; [|left; reflexivity].
      right. repeat split. exists cPLUS. split; [auto|]. apply hd_is_spec. exact E2. }
  assert (Hb1 : b1 = pre_positions w1) by (apply pre_ok_positions; exact Hpre).
  assert (Hb1pos : 0 <= b1) by (destruct Hpre as [[_ ->]|[[_ ->]|[[_ ->]|[_ ->]]]]; lia).
  exists (mkSH (hd_is cPLUS s) w1 ip hasdot k hasexp (if hassign then firstn 1 s5 else [])).
  split; [|split].
  - unfold shape_ok. simpl. repeat split; auto.
    + destruct Hpre as [[-> _]|[[-> _]|[[-> _]|[-> _]]]]; auto.
    + destruct Hsg as [->|[-> [Hp [c [Hc5 Hs5]]]]]; [left; reflexivity|right].
      split; [exact Hp|]. rewrite Hs5. simpl. destruct Hc5 as [->| ->]; auto.
    + rewrite <- Hb1. lia.
  - unfold field_of_shape, shape_tokens. simpl. f_equal.
    + f_equal. f_equal. rewrite app_assoc, Hword, <- app_assoc. reflexivity.
    + rewrite Hb1, Hb. reflexivity.
    + exact Hd.
    + exact Hc.
  - simpl.
    assert (Hs : s = (if hd_is cPLUS s then [cPLUS] else []) ++ (if hd_is cPLUS s then tl s else s)).
    { destruct (hd_is cPLUS s) eqn:E; [|reflexivity]. apply hd_is_spec. exact E. }
    rewrite Hs at 1. rewrite Hs1. rewrite Hs2 at 1. fold s4. rewrite Hs4 at 1.
    repeat rewrite <- app_assoc. do 5 f_equal.
    destruct Hsg as [->|[-> [_ [c [_ Hs5]]]]]; [reflexivity|].
    clearbody s5. destruct s5 as [|c' t5]; [discriminate Hs5|]. reflexivity.
Qed.

(* ------------------------------------------------------------------ the flags NumberField.format reads
   off the token string are the ones of the grammar *)
Lemma memz_app c a b : memz c (a ++ b) = memz c a || memz c b.
Proof. unfold memz. apply existsb_app. Qed.

Lemma memz_repeat c x n : c <> x -> memz c (repeat x n) = false.
Proof.
  intros H. induction n as [|n IH]; [reflexivity|]. unfold memz in *. simpl. rewrite IH.
  destruct (c =? x) eqn:E; [apply Z.eqb_eq in E; contradiction|reflexivity].
Qed.

Lemma memz_false_Forall c l : Forall (fun x => x <> c) l -> memz c l = false.
Proof.
  induction 1 as [|x l Hx _ IH]; [reflexivity|]. unfold memz in *. simpl. rewrite IH.
  destruct (c =? x) eqn:E; [apply Z.eqb_eq in E; congruence|reflexivity].
Qed.

Lemma Forall_last {A} (P : A -> Prop) l d : Forall P l -> l <> [] -> P (last l d).
Proof.
  induction 1 as [|x l Hx Hl IH]; [congruence|]. intros _.
  destruct l as [|y l']; [exact Hx|]. apply IH. discriminate.
Qed.

Lemma last_app_ne {A} (a b : list A) d : b <> [] -> last (a ++ b) d = last b d.
Proof.
  intros Hb. induction a as [|x a IH]; [reflexivity|]. simpl.
  destruct (a ++ b) eqn:E; [|exact IH]. destruct a; simpl in E; [contradiction|discriminate].
Qed.

Definition body_char (c : Z) : Prop :=
  c <> cPLUS /\ c <> cMINUS.

Lemma shape_body_chars sh :
  shape_ok sh ->
  let body := sh_pre sh ++ sh_ip sh ++ (if sh_dot sh then cDOT :: repeat cHASH (sh_frac sh) else [])
              ++ (if sh_exp sh then carets else []) in
  Forall body_char body /\ body <> [] /\ hd_is cPLUS body = false.
Proof.
  intros [Hpre [Hip [Hhd [Hk [Hsg Hpos]]]]] body. unfold body. split; [|split].
  - repeat rewrite Forall_app. repeat split.
    + destruct Hpre as [->|[->|[->| ->]]]; repeat constructor; discriminate.
    + eapply Forall_impl; [|exact Hip]. intros c [->| ->]; split; discriminate.
    + destruct (sh_dot sh); [|constructor]. constructor; [split; discriminate|].
      apply Forall_forall. intros x Hx. apply repeat_spec in Hx. subst x. split; discriminate.
    + destruct (sh_exp sh); repeat constructor; discriminate.
  - destruct Hpre as [Hp|[->|[->| ->]]]; try discriminate. rewrite Hp in *. simpl in *.
    destruct Hhd as [Hi|[r ->]]; [|discriminate]. rewrite Hi in *. simpl in *.
    destruct (sh_dot sh); [discriminate|]. rewrite (Hk eq_refl) in Hpos. simpl in Hpos. lia.
  - destruct Hpre as [Hp|[->|[->| ->]]]; try reflexivity. rewrite Hp in *. simpl in *.
    destruct Hhd as [Hi|[r ->]]; [|reflexivity]. rewrite Hi in *. simpl in *.
    destruct (sh_dot sh); [reflexivity|]. rewrite (Hk eq_refl) in Hpos. simpl in Hpos. lia.
Qed.

Theorem shape_flags sh :
  shape_ok sh ->
  let f := field_of_shape sh in
  nf_lead_plus f = sh_plus sh
  /\ nf_trail_plus f = list_Z_eqb (sh_sign sh) [cPLUS]
  /\ nf_trail_minus f = list_Z_eqb (sh_sign sh) [cMINUS]
  /\ nf_dollar f = memz cDOLLAR (sh_pre sh)
  /\ nf_star f = memz cSTAR (sh_pre sh)
  /\ nf_dot f = sh_dot sh
  /\ nf_exp f = sh_exp sh.
Proof.
  intros Hok f.
  destruct (shape_body_chars sh Hok) as [Hbody [Hne Hhd]].
  destruct Hok as [Hpre [Hip [Hhdip [Hk [Hsg Hpos]]]]].
  set (body := sh_pre sh ++ sh_ip sh ++ (if sh_dot sh then cDOT :: repeat cHASH (sh_frac sh) else [])
               ++ (if sh_exp sh then carets else [])) in *.
  assert (Htok : nf_tokens f = (if sh_plus sh then [cPLUS] else []) ++ body ++ sh_sign sh).
  { unfold f, field_of_shape, shape_tokens, body. simpl. repeat rewrite <- app_assoc. reflexivity. }
  assert (Hlead : nf_lead_plus f = sh_plus sh).
  { unfold nf_lead_plus. rewrite Htok. destruct (sh_plus sh); [reflexivity|]. simpl.
    destruct body as [|c b]; [contradiction|]. exact Hhd. }
  assert (Hlast : sh_plus sh = false -> sh_sign sh = [] -> body_char (last (nf_tokens f) 0)).
  { intros Hp Hs. rewrite Htok, Hp, Hs, app_nil_r. simpl. apply Forall_last; assumption. }
  assert (Hipc : forall c, c <> cHASH -> c <> cCOMMA -> memz c (sh_ip sh) = false).
  { intros c H1 H2. apply memz_false_Forall. eapply Forall_impl; [|exact Hip].
    intros x [->| ->]; congruence. }
  assert (Hsgc : forall c, c <> cPLUS -> c <> cMINUS -> memz c (sh_sign sh) = false).
  { intros c H1 H2. destruct Hsg as [->|[_ [->| ->]]]; [reflexivity| |]; unfold memz; simpl;
      [destruct (c =? cPLUS) eqn:E|destruct (c =? cMINUS) eqn:E]; try reflexivity;
      apply Z.eqb_eq in E; contradiction. }
  assert (Hplc : forall c, c <> cPLUS -> memz c (if sh_plus sh then [cPLUS] else []) = false).
  { intros c H1. destruct (sh_plus sh); [|reflexivity]. unfold memz. simpl.
    destruct (c =? cPLUS) eqn:E; [apply Z.eqb_eq in E; contradiction|reflexivity]. }
  assert (Hdotc : forall c, c <> cDOT -> c <> cHASH ->
                   memz c (if sh_dot sh then cDOT :: repeat cHASH (sh_frac sh) else []) = false).
  { intros c H1 H2. destruct (sh_dot sh); [|reflexivity].
    change (memz c (cDOT :: repeat cHASH (sh_frac sh))) with ((c =? cDOT) || memz c (repeat cHASH (sh_frac sh))).
    rewrite memz_repeat by exact H2. destruct (c =? cDOT) eqn:E; [apply Z.eqb_eq in E; contradiction|reflexivity]. }
  assert (Hexpc : forall c, c <> cCARET -> memz c (if sh_exp sh then carets else []) = false).
  { intros c H1. destruct (sh_exp sh); [|reflexivity]. apply memz_false_Forall.
    repeat constructor; congruence. }
  split; [exact Hlead|]. split; [|split; [|split; [|split; [|split]]]].
  - unfold nf_trail_plus. rewrite Hlead.
    destruct Hsg as [Hs|[Hp [Hs|Hs]]].
    + rewrite Hs. destruct (sh_plus sh) eqn:Ep; [reflexivity|].
      destruct (Hlast eq_refl Hs) as [H1 _]. apply Z.eqb_neq in H1. rewrite H1. reflexivity.
    + rewrite Htok, Hp, Hs. cbn [app]. rewrite last_last. reflexivity.
    + rewrite Htok, Hp, Hs. cbn [app]. rewrite last_last. reflexivity.
  - unfold nf_trail_minus, nf_trail_plus. rewrite Hlead.
    destruct Hsg as [Hs|[Hp [Hs|Hs]]].
    + rewrite Hs. destruct (sh_plus sh) eqn:Ep; [reflexivity|].
      destruct (Hlast eq_refl Hs) as [H1 H2]. apply Z.eqb_neq in H1, H2. rewrite H1, H2. reflexivity.
    + rewrite Htok, Hp, Hs. cbn [app]. rewrite last_last. reflexivity.
    + rewrite Htok, Hp, Hs. cbn [app]. rewrite last_last. reflexivity.
  - unfold nf_dollar. rewrite Htok. unfold body. repeat rewrite memz_app.
    rewrite Hplc, Hipc, Hdotc, Hexpc, Hsgc by discriminate.
    destruct (memz cDOLLAR (sh_pre sh)); reflexivity.
  - unfold nf_star. rewrite Htok. unfold body. repeat rewrite memz_app.
    rewrite Hplc, Hipc, Hdotc, Hexpc, Hsgc by discriminate.
    destruct (memz cSTAR (sh_pre sh)); reflexivity.
  - unfold nf_dot. rewrite Htok. unfold body. repeat rewrite memz_app.
    rewrite Hplc, Hipc, Hexpc, Hsgc by discriminate.
    assert (Hp : memz cDOT (sh_pre sh) = false) by (destruct Hpre as [->|[->|[->| ->]]]; reflexivity).
    rewrite Hp. simpl. destruct (sh_dot sh); [reflexivity|]. reflexivity.
  - unfold nf_exp. rewrite Htok. unfold body. repeat rewrite memz_app.
    rewrite Hplc, Hipc, Hdotc, Hsgc by discriminate.
    assert (Hp : memz cCARET (sh_pre sh) = false) by (destruct Hpre as [->|[->|[->| ->]]]; reflexivity).
    rewrite Hp. simpl. destruct (sh_exp sh); reflexivity.
Qed.
