(* MBFArith_mul.v - Float.imul (C04, C05): the product of the two denormalised mantissas, the per-type
   early underflow exit (as fixed by fixes/D5.patch), _bring_to_range to 4 guard bits, the rounding
   quirk (low nibble 9 -> 8), _normalise.  Error < 1 ulp, Overflow / zero only beyond the range,
   commutativity, x * 1 = x. *)
From Coq Require Import ZArith List Bool Lia ZifyBool.
From PCB Require Import lib.Result lib.PyInt lib.Harness lib.MBFPrims gen.Gen_mbf model.MBF
  proofs.MBF_base proofs.MBF_compare proofs.MBF_convert proofs.MBF_round proofs.MBFArith_norm.
Import ListNotations.
Open Scope Z_scope.
Ltac Zify.zify_post_hook ::= Z.to_euclidean_division_equations.

(* the class constant _shift, not covered by MBF.fmt_ok *)
Definition fmt_ok2 (C : fconst) : Prop := fmt_ok C /\ c_shift C = mbits C - 1.
Lemma Single_ok2 : fmt_ok2 Single_consts. Proof. split; [exact Single_ok | reflexivity]. Qed.
Lemma Double_ok2 : fmt_ok2 Double_consts. Proof. split; [exact Double_ok | reflexivity]. Qed.

(* ------------------------------------------------------------------------------------------------ *)
(* bit facts *)

Lemma land15 a : Z.land a 15 = a mod 16.
Proof. apply (land_ones_mod a 4). lia. Qed.

(* man & (2^n - 2): clear bit 0 *)
Lemma land_clear0 man n : 1 <= n -> 0 <= man < 2 ^ n -> Z.land man (2 ^ n - 2) = 2 * (man / 2).
Proof.
  intros Hn Hman.
  replace (2 ^ n - 2) with (Z.shiftl (Z.ones (n - 1)) 1).
  2:{ rewrite Z.shiftl_mul_pow2, Z.ones_equiv by lia. rewrite (pow2_pred n) by lia. change (2 ^ 1) with 2. lia. }
  replace (2 * (man / 2)) with (Z.shiftl (Z.shiftr man 1) 1).
  2:{ rewrite Z.shiftl_mul_pow2, Z.shiftr_div_pow2 by lia. change (2 ^ 1) with 2. lia. }
  apply Z.bits_inj'. intros k Hk. rewrite Z.land_spec.
  destruct (Z.lt_ge_cases k 1) as [Hlt|Hge].
  - rewrite !Z.shiftl_spec_low by lia. apply andb_false_r.
  - rewrite !Z.shiftl_spec by lia. rewrite Z.shiftr_spec by lia. replace (k - 1 + 1) with k by lia.
    destruct (Z.lt_ge_cases (k - 1) (n - 1)) as [Hlo|Hhi].
    + rewrite Z.ones_spec_low by lia. apply andb_true_r.
    + rewrite Z.ones_spec_high by lia. rewrite andb_false_r.
      rewrite <- (Z.mod_small man (2 ^ n)) by lia.
      rewrite Z.mod_pow2_bits_high by lia. reflexivity.
Qed.

(* ------------------------------------------------------------------------------------------------ *)
(* _bring_to_range as called by imul: lower = L = den_mask >> 4, upper = 2 L *)

Lemma bloop1_exit f C lower upper exp man : lower < Z.abs man ->
  mbf_bring_to_range_loop_1 (S f) C lower upper exp man = Ok (exp, man).
Proof. intros H. cbn [mbf_bring_to_range_loop_1]. destruct (Z.leb_spec (Z.abs man) lower); [lia|reflexivity]. Qed.

Lemma bloop2_S f C lower upper exp man :
  mbf_bring_to_range_loop_2 (S f) C lower upper exp man =
    if Z.abs man >? upper then mbf_bring_to_range_loop_2 f C lower upper (exp + 1) (Z.shiftr man 1)
    else Ok (exp, man).
Proof. reflexivity. Qed.

Lemma bloop2_spec C lower L : 1 <= L ->
  forall f man exp, L <= man -> man <= 2 * L * 2 ^ Z.of_nat f ->
  exists k, 0 <= k /\
    mbf_bring_to_range_loop_2 (S f) C lower (2 * L) exp man = Ok (exp + k, man / 2 ^ k) /\
    L <= man / 2 ^ k <= 2 * L /\ (man <= 2 * L -> k = 0).
Proof.
  intros HL. induction f as [|f IH]; intros man exp Hlo Hhi.
  - exists 0. rewrite bloop2_S. rewrite Z.abs_eq by lia.
    change (Z.of_nat 0) with 0 in Hhi. rewrite Z.pow_0_r, Z.mul_1_r in Hhi.
    destruct (Z.gtb_spec man (2 * L)); [lia|].
    rewrite Z.pow_0_r, Z.div_1_r, Z.add_0_r. repeat split; lia.
  - rewrite bloop2_S. rewrite Z.abs_eq by lia.
    destruct (Z.gtb_spec man (2 * L)) as [Hgt|Hle].
    + rewrite Z.shiftr_div_pow2 by lia. change (2 ^ 1) with 2.
      rewrite Nat2Z.inj_succ, Z.pow_succ_r in Hhi by lia.
      destruct (IH (man / 2) (exp + 1) ltac:(lia) ltac:(lia)) as (k & Hk & Hr & H1 & H2).
      exists (k + 1). rewrite pow2_S by lia.
      rewrite <- Z.div_div by (try lia; apply pow2_pos; lia).
      replace (exp + (k + 1)) with (exp + 1 + k) by lia.
      split; [lia|]. split; [exact Hr|]. split; [exact H1|]. lia.
    + exists 0. rewrite Z.pow_0_r, Z.div_1_r, Z.add_0_r. repeat split; lia.
Qed.

(* exact case: q * 2^j with L < q <= 2 L comes back as q *)
Lemma bloop2_exact C lower L q : 1 <= L -> L < q <= 2 * L ->
  forall j f exp, (j <= f)%nat ->
  mbf_bring_to_range_loop_2 (S f) C lower (2 * L) exp (q * 2 ^ Z.of_nat j) = Ok (exp + Z.of_nat j, q).
Proof.
  intros HL Hq. induction j as [|j IH]; intros f exp Hjf.
  - change (Z.of_nat 0) with 0. rewrite Z.pow_0_r, Z.mul_1_r, Z.add_0_r. rewrite bloop2_S.
    rewrite Z.abs_eq by lia. destruct (Z.gtb_spec q (2 * L)); [lia|reflexivity].
  - destruct f as [|f]; [lia|]. rewrite bloop2_S.
    assert (Hp : 0 < 2 ^ Z.of_nat j) by (apply pow2_pos; lia).
    rewrite Nat2Z.inj_succ, Z.pow_succ_r by lia.
    rewrite Z.abs_eq by nia.
    destruct (Z.gtb_spec (q * (2 * 2 ^ Z.of_nat j)) (2 * L)); [|nia].
    rewrite Z.shiftr_div_pow2 by lia. change (2 ^ 1) with 2.
    replace (q * (2 * 2 ^ Z.of_nat j) / 2) with (q * 2 ^ Z.of_nat j) by lia.
    rewrite IH by lia. f_equal. f_equal. lia.
Qed.

(* ------------------------------------------------------------------------------------------------ *)
(* imul, structurally *)

Definition mul_quirk (man : Z) : Z := if man mod 16 =? 9 then man - 1 else man.

Lemma imul_struct C a b : fmt_ok2 C -> buf_ok C a -> buf_ok C b -> f_zero a = false -> f_zero b = false ->
  let E := f_exp a + f_exp b - c_bias C - 8 in
  let Pr := 65536 * (f_man C a * f_man C b) in
  let neg := negb (Bool.eqb (f_neg C a) (f_neg C b)) in
  let L := 2 ^ (mbits C + 3) in
  if E <? - (mbits C + 7) then mbf_imul C a b = Ok (zeros (c_size C))
  else exists k, 0 <= k /\ L <= Pr / 2 ^ k <= 2 * L /\
        mbf_imul C a b = mbf_normalise C a (E + k) (mul_quirk (Pr / 2 ^ k)) neg.
Proof.
  intros [HC Hsh] Ha Hb Hza Hzb E Pr neg L.
  pose proof (mbits_ge C HC) as Hg. pose proof (mbits_le C HC) as Hl.
  pose proof (f_man_bound C a HC) as Hma. pose proof (f_man_bound C b HC) as Hmb.
  set (P := 2 ^ (mbits C - 1)) in *. assert (HP : 0 < P) by (apply pow2_pos; lia).
  assert (H2P : 2 ^ mbits C = 2 * P) by (apply pow2_pred; lia). rewrite H2P in Hma, Hmb.
  assert (HL : L = 16 * P).
  { unfold L, P. replace (mbits C + 3) with (4 + (mbits C - 1)) by lia. rewrite pow2_split by lia. reflexivity. }
  unfold mbf_imul. rewrite !is_zero_spec, Hza, Hzb. cbn [orb].
  rewrite !denormalise_spec by assumption. cbv beta iota zeta.
  rewrite Hsh.
  replace (f_exp a + (f_exp b - c_bias C - 8)) with E by (unfold E; lia).
  replace (- (mbits C - 1 + 8)) with (- (mbits C + 7)) by lia.
  destruct (Z.ltb_spec E (- (mbits C + 7))) as [Hlt|Hge]; [reflexivity|].
  replace (256 * f_man C a * (256 * f_man C b)) with Pr by (unfold Pr; lia).
  assert (Hsl : Z.shiftr (c_den_mask C) 4 = L).
  { rewrite (ok_den_mask C HC), Z.shiftr_div_pow2 by lia. unfold L.
    replace (mbits C + 7) with (mbits C + 3 + 4) by lia. rewrite pow2_split by lia.
    apply Z.div_mul. lia. }
  assert (Hsu : Z.shiftr (c_den_upper C) 4 = 2 * L).
  { rewrite (ok_den_upper C HC), Z.shiftr_div_pow2 by lia. unfold L.
    replace (mbits C + 8) with (1 + (mbits C + 3) + 4) by lia. rewrite !pow2_split by lia.
    rewrite Z.div_mul by lia. reflexivity. }
  rewrite Hsl, Hsu.
  assert (HPr : 65536 * P * P <= Pr < 65536 * (2 * P) * (2 * P)) by (unfold Pr; nia).
  unfold mbf_bring_to_range. change 1000%nat with (S 999).
  rewrite bloop1_exit by (rewrite Z.abs_eq by lia; nia). cbn [bind]. cbv beta iota.
  destruct (bloop2_spec C L L ltac:(lia) 999 Pr E ltac:(nia)) as (k & Hk & Hr & Hrange & _).
  { change (Z.of_nat 999) with 999.
    assert (2 ^ (mbits C + 13) <= 2 ^ 999) by (apply pow2_le; lia).
    assert (E13 : 2 ^ (mbits C + 13) = 16384 * P).
    { unfold P. replace (mbits C + 13) with (14 + (mbits C - 1)) by lia. rewrite pow2_split by lia. reflexivity. }
    nia. }
  rewrite Hr. cbn [bind]. cbv beta iota.
  exists k. split; [exact Hk|]. split; [exact Hrange|].
  set (man1 := Pr / 2 ^ k) in *.
  rewrite land15. unfold mul_quirk.
  destruct (Z.eqb_spec (man1 mod 16) 9) as [E9|E9]; cbn [bind].
  - rewrite (ok_carrymask C HC).
    replace (2 ^ (mbits C + 8) - 256 + 254) with (2 ^ (mbits C + 8) - 2) by lia.
    rewrite land_clear0.
    + replace (2 * (man1 / 2)) with (man1 - 1) by lia.
      apply bind_ret.
    + lia.
    + assert (E8 : 2 ^ (mbits C + 8) = 512 * P).
      { unfold P. replace (mbits C + 8) with (9 + (mbits C - 1)) by lia. rewrite pow2_split by lia. reflexivity. }
      lia.
  - apply bind_ret.
Qed.

(* ------------------------------------------------------------------------------------------------ *)
(* imul as a statement about values *)

Lemma mag_post_zeros C strict w den Nm Dn neg : fmt_ok C -> 0 < Dn -> 0 <= Nm < 2 ^ mbits C * Dn ->
  mag_post C strict w den Nm Dn neg (Ok (zeros (c_size C))).
Proof.
  intros HC HDn HN. destruct (zeros_ok C HC) as [Hok Hv]. split.
  - split; [exact Hok|].
    assert (Hz : f_zero (zeros (c_size C)) = true).
    { destruct (f_zero (zeros (c_size C))) eqn:E; [reflexivity|].
      pose proof (f_mag_pos C _ HC Hok E) as Hp. rewrite f_sval_mag in Hv. destruct (f_neg C (zeros (c_size C))); lia. }
    rewrite Hz. lia.
  - intros Hbig. exfalso. assert (1 <= 2 ^ 255) by (pose proof (pow2_pos 255); lia).
    pose proof (mbits_ge C HC). assert (0 < 2 ^ mbits C) by (apply pow2_pos; lia). nia.
Qed.

Definition OFF : Z := 400.

Lemma bound_aux x a q b t : x < a * q -> 0 < q <= t -> 0 <= a <= b -> x < b * t.
Proof. intros H1 H2 H3. assert (a * q <= b * q) by nia. assert (b * q <= b * t) by nia. lia. Qed.
Lemma scale_le_aux a b c q : 0 < q -> b * c <= a -> b * (c * q) <= a * q.
Proof. intros. nia. Qed.
Lemma scale_lt_aux a b c q : 0 < q -> a < b * c -> a * q < b * (c * q).
Proof. intros. nia. Qed.

Theorem imul_post C a b : fmt_ok2 C -> buf_ok C a -> buf_ok C b ->
  mag_post C true 1 1 (f_mag C a * f_mag C b) (2 ^ c_bias C)
           (negb (Bool.eqb (f_neg C a) (f_neg C b))) (mbf_imul C a b).
Proof.
  intros HC2 Ha Hb. destruct HC2 as [HC Hsh].
  pose proof (mbits_ge C HC) as Hg. pose proof (mbits_le C HC) as Hl.
  assert (Hbias : c_bias C = 128 + mbits C) by apply (ok_bias C HC).
  assert (HDn : 0 < 2 ^ c_bias C) by (apply pow2_pos; lia).
  assert (Hpm : 0 < 2 ^ mbits C) by (apply pow2_pos; lia).
  destruct (f_zero a) eqn:Hza.
  { assert (E : mbf_imul C a b = Ok (zeros (c_size C))) by (unfold mbf_imul; rewrite is_zero_spec, Hza; reflexivity).
    rewrite E. apply mag_post_zeros; try assumption. replace (f_mag C a) with 0 by (unfold f_mag; rewrite Hza; reflexivity). nia. }
  destruct (f_zero b) eqn:Hzb.
  { assert (E : mbf_imul C a b = Ok (zeros (c_size C))).
    { unfold mbf_imul. rewrite !is_zero_spec, Hza, Hzb. reflexivity. }
    rewrite E. apply mag_post_zeros; try assumption. replace (f_mag C b) with 0 by (unfold f_mag; rewrite Hzb; reflexivity). nia. }
  pose proof (imul_struct C a b (conj HC Hsh) Ha Hb Hza Hzb) as Hst. cbv zeta in Hst.
  pose proof (f_man_bound C a HC) as Hma. pose proof (f_man_bound C b HC) as Hmb.
  pose proof (f_exp_bound C a HC Ha) as Hea. pose proof (f_exp_bound C b HC Hb) as Heb.
  assert (Hea1 : 1 <= f_exp a) by (unfold f_zero in Hza; lia).
  assert (Heb1 : 1 <= f_exp b) by (unfold f_zero in Hzb; lia).
  set (P := 2 ^ (mbits C - 1)) in *. assert (HP : 0 < P) by (apply pow2_pos; lia).
  assert (H2P : 2 ^ mbits C = 2 * P) by (apply pow2_pred; lia). rewrite H2P in Hma, Hmb.
  set (ma := f_man C a) in *. set (mb := f_man C b) in *.
  set (ea := f_exp a) in *. set (eb := f_exp b) in *.
  set (E := ea + eb - c_bias C - 8) in *.
  set (Pr := 65536 * (ma * mb)) in *.
  set (neg := negb (Bool.eqb (f_neg C a) (f_neg C b))) in *.
  set (L := 2 ^ (mbits C + 3)) in *.
  assert (HL : L = 16 * P).
  { unfold L, P. replace (mbits C + 3) with (4 + (mbits C - 1)) by lia. rewrite pow2_split by lia. reflexivity. }
  assert (HNm : f_mag C a * f_mag C b = ma * mb * 2 ^ (ea + eb)).
  { unfold f_mag. rewrite Hza, Hzb. fold ma mb ea eb. rewrite pow2_split by lia. lia. }
  rewrite HNm. set (Nm := ma * mb * 2 ^ (ea + eb)).
  assert (Hpe : 0 < 2 ^ (ea + eb)) by (apply pow2_pos; lia).
  assert (HNm0 : 0 <= Nm) by (unfold Nm; apply Z.mul_nonneg_nonneg; nia).
  (* scale: S * Dn = 2^(OFF + 8) *)
  set (S := 2 ^ (OFF + 8 - c_bias C)).
  assert (HS : 0 < S) by (apply pow2_pos; unfold OFF; lia).
  assert (HSD : S * 2 ^ c_bias C = 2 ^ (OFF + 8)).
  { unfold S. rewrite <- pow2_split by (unfold OFF; lia). f_equal. lia. }
  assert (HEo : 0 <= E + OFF) by (unfold E, OFF; lia).
  (* Nm * S = Pr * 2^(E + OFF) *)
  assert (HNS : Nm * S = Pr * 2 ^ (E + OFF)).
  { unfold Nm, Pr, S. change 65536 with (2 ^ 16).
    replace (ma * mb * 2 ^ (ea + eb) * 2 ^ (OFF + 8 - c_bias C)) with (ma * mb * (2 ^ (ea + eb) * 2 ^ (OFF + 8 - c_bias C))) by lia.
    replace (2 ^ 16 * (ma * mb) * 2 ^ (E + OFF)) with (ma * mb * (2 ^ 16 * 2 ^ (E + OFF))) by lia.
    rewrite <- !pow2_split by (unfold OFF in *; lia). f_equal. f_equal. unfold E. lia. }
  destruct (Z.ltb_spec E (- (mbits C + 7))) as [Hlt|Hge].
  { (* early exit: the product is below the smallest number *)
    rewrite Hst. apply mag_post_zeros; try assumption. split; [exact HNm0|].
    assert (Hee : ea + eb <= 128) by (unfold E in Hlt; lia).
    assert (2 ^ (ea + eb) <= 2 ^ 128) by (apply pow2_le; lia).
    assert (E2 : 2 ^ c_bias C = 2 ^ 128 * (2 * P)).
    { rewrite Hbias, pow2_split by lia. rewrite H2P. reflexivity. }
    rewrite E2, H2P. assert (0 < 2 ^ 128) by (apply pow2_pos; lia). unfold Nm.
    assert (Hmm : ma * mb < 4 * P * P) by nia. assert (0 < ma * mb) by nia.
    set (mm := ma * mb) in *. set (pe := 2 ^ (ea + eb)) in *. set (p128 := 2 ^ 128) in *.
    assert (mm * pe <= mm * p128) by nia. nia. }
  destruct Hst as (k & Hk & Hrange & Hst). rewrite Hst.
  set (man1 := Pr / 2 ^ k) in *.
  assert (H2k : 0 < 2 ^ k) by (apply pow2_pos; lia).
  assert (Hdiv : man1 * 2 ^ k <= Pr < (man1 + 1) * 2 ^ k).
  { unfold man1. pose proof (Z.div_mod Pr (2 ^ k) ltac:(lia)). pose proof (Z.mod_pos_bound Pr (2 ^ k) H2k). nia. }
  set (man2 := mul_quirk man1).
  assert (Hq : man1 - 1 <= man2 <= man1 /\ L <= man2 /\ (man2 = man1 - 1 -> man1 mod 16 = 9)).
  { unfold man2, mul_quirk. destruct (Z.eqb_spec (man1 mod 16) 9) as [E9|E9].
    - split; [lia|]. split; [|auto]. destruct (Z.eq_dec man1 L) as [EL|]; [|lia].
      rewrite EL, HL in E9. replace (16 * P) with (P * 16) in E9 by lia. rewrite Z.mod_mul in E9 by lia. lia.
    - split; [lia|]. split; [lia|]. intros; lia. }
  destruct Hq as (Hq1 & Hq2 & Hq3).
  assert (HEk : 2 ^ (E + k + OFF) = 2 ^ k * 2 ^ (E + OFF)).
  { replace (E + k + OFF) with (k + (E + OFF)) by lia. apply pow2_split; lia. }
  assert (HpE : 0 < 2 ^ (E + OFF)) by (apply pow2_pos; lia).
  (* V <= Nm S < V + 2 * 2^(E+k+OFF) *)
  assert (HVlo : man2 * 2 ^ (E + k + OFF) <= Nm * S).
  { rewrite HNS, HEk. apply scale_le_aux; [lia|]. clear - Hdiv Hq1 H2k. nia. }
  assert (HVhi1 : Nm * S < (man1 + 1) * 2 ^ (E + k + OFF)).
  { rewrite HNS, HEk. apply scale_lt_aux; [lia|]. lia. }
  assert (HVhi : Nm * S < (man2 + 2) * 2 ^ (E + k + OFF)).
  { rewrite HNS, HEk. apply scale_lt_aux; [lia|]. clear - Hdiv Hq1 H2k. nia. }
  assert (E8 : 2 ^ (mbits C + 8) = 32 * L).
  { unfold L. replace (mbits C + 8) with (5 + (mbits C + 3)) by lia. rewrite pow2_split by lia. reflexivity. }
  assert (E7 : 2 ^ (mbits C + 7) = 16 * L).
  { unfold L. replace (mbits C + 7) with (4 + (mbits C + 3)) by lia. rewrite pow2_split by lia. reflexivity. }
  assert (HOFF : 0 < 2 ^ OFF) by (apply pow2_pos; unfold OFF; lia).
  assert (E8S : 2 ^ (mbits C + 8) * 2 ^ OFF = 2 ^ mbits C * 2 ^ c_bias C * S).
  { replace (2 ^ mbits C * 2 ^ c_bias C * S) with (2 ^ mbits C * (S * 2 ^ c_bias C)) by lia. rewrite HSD.
    rewrite <- !pow2_split by (unfold OFF; lia). f_equal. lia. }
  destruct (Z.leb_spec (E + k) 0) as [Hz|Hnz].
  { (* _normalise is entered with an exponent <= 0: zero *)
    rewrite normalise_unfold. destruct (Z.leb_spec (E + k) 0); [|lia]. rewrite orb_true_r.
    apply mag_post_zeros; try assumption. split; [exact HNm0|].
    assert (Hqt : 2 ^ (E + k + OFF) <= 2 ^ OFF) by (apply pow2_le; unfold OFF in *; lia).
    assert (Hq0 : 0 < 2 ^ (E + k + OFF)) by (apply pow2_pos; unfold OFF in *; lia).
    assert (HX : Nm * S < 2 ^ mbits C * 2 ^ c_bias C * S).
    { rewrite <- E8S, E8. apply (bound_aux _ (man2 + 2) (2 ^ (E + k + OFF))); [exact HVhi | lia | lia]. }
    clear - HX HS. nia. }
  assert (Hman2 : 0 < man2 < c_den_upper C) by (rewrite (ok_den_upper C HC), E8; lia).
  pose proof (normalise_val C a (E + k) man2 neg OFF HC (proj1 Ha) Hman2 ltac:(lia) ltac:(unfold OFF; lia)) as Hnp.
  set (r := mbf_normalise C a (E + k) man2 neg) in *.
  (* bound on the shift count of _normalise: man2 >= L, man2 * 2^k' < 32 L *)
  assert (Hk' : forall k', 0 <= k' -> man2 * 2 ^ k' < 2 ^ (mbits C + 8) -> 2 ^ k' <= 31).
  { intros k' Hk'0 Hlt. rewrite E8 in Hlt. assert (0 < 2 ^ k') by (apply pow2_pos; lia).
    clear - Hlt H Hq2 HL HP. nia. }
  assert (HSD1 : S * 2 ^ c_bias C = 2 ^ (OFF + 8) * 1) by lia.
  assert (HA := norm_partA C true 1 1 Nm (2 ^ c_bias C) neg OFF (E + k) man2 r S 1 HC ltac:(unfold OFF; lia) HS HDn
                  ltac:(lia) HSD1 ltac:(lia) ltac:(lia) Hnp).
  assert (HBC := norm_partBC C Nm (2 ^ c_bias C) neg OFF (E + k) man2 r S 1 HC ltac:(unfold OFF; lia) HS HDn
                  ltac:(lia) HSD1 ltac:(lia) Hnp).
  assert (HA' : forall b0, r = Ok b0 -> buf_ok C b0 /\
            (if f_zero b0 then Nm < 2 ^ mbits C * 2 ^ c_bias C
             else f_neg C b0 = neg /\ err_ok true (1 * Z.abs (f_mag C b0 * 2 ^ c_bias C - Nm)) (1 * 2 ^ f_exp b0 * 2 ^ c_bias C))).
  { apply HA.
    - intros k' Hk'0 Hr' _ Hpos. cbn [err_ok].
      specialize (Hk' k' Hk'0 (proj2 Hr')).
      set (u := 2 ^ (E + k - k' + OFF)). assert (Hu : 0 < u) by (apply pow2_pos; lia).
      assert (Eu : 2 ^ (E + k + OFF) = 2 ^ k' * u).
      { unfold u. rewrite <- pow2_split by lia. f_equal. lia. }
      rewrite Eu in HVlo, HVhi. rewrite Eu. rewrite !Z.mul_1_r.
      rewrite Z.abs_eq by lia. assert (0 < 2 ^ k') by (apply pow2_pos; lia).
      clear - HVlo HVhi Hk' Hu H. nia.
    - (* zero clause: man2 < T with 16 | T, so man1 < T as well *)
      intros k' _ _ _ _ HV. rewrite Z.mul_1_r.
      destruct (Z.le_gt_cases (E + k) (mbits C + 4)) as [Hsm|Hbg].
      + set (T := 2 ^ (mbits C + 4 - (E + k))).
        assert (HT : 0 < T) by (apply pow2_pos; lia).
        assert (ET : 2 ^ (mbits C + 8) * 2 ^ OFF = 16 * T * 2 ^ (E + k + OFF)).
        { unfold T. change 16 with (2 ^ 4). rewrite <- !pow2_split by (unfold OFF in *; lia). f_equal. lia. }
        rewrite ET in HV |- *.
        assert (Hp2 : 0 < 2 ^ (E + k + OFF)) by (apply pow2_pos; unfold OFF in *; lia).
        assert (Hm2 : man2 < 16 * T) by (clear - HV Hp2; nia).
        assert (Hm1 : man1 < 16 * T).
        { destruct (Z.eq_dec man2 man1) as [|Hne]; [lia|].
          assert (E9 : man1 mod 16 = 9) by (apply Hq3; lia). lia. }
        clear - HVhi1 Hm1 Hp2. nia.
      + exfalso. assert (2 ^ (mbits C + 5 + OFF) <= 2 ^ (E + k + OFF)) by (apply pow2_le; unfold OFF in *; lia).
        assert (E5 : 2 ^ (mbits C + 5 + OFF) = 32 * 2 ^ mbits C * 2 ^ OFF).
        { change 32 with (2 ^ 5). rewrite <- !pow2_split by (unfold OFF; lia). f_equal. lia. }
        assert (E8' : 2 ^ (mbits C + 8) = 256 * 2 ^ mbits C).
        { change 256 with (2 ^ 8). rewrite <- pow2_split by lia. f_equal. lia. }
        rewrite E8' in HV. rewrite HL in Hq2. rewrite H2P in *.
        clear - HV H E5 Hq2 HP HOFF Hg. nia. }
  assert (HBC' : (match r return Prop with
                  | Host x => x = 5 /\ (2 ^ mbits C - 1) * 2 ^ 255 * 2 ^ c_bias C < Nm
                  | Ok _ => True
                  | _ => False
                  end) /\ (2 ^ mbits C * 2 ^ 255 * 2 ^ c_bias C <= Nm -> r = Host 5)).
  { apply HBC.
    - intros k' Hk'0 Hr' _. rewrite !Z.mul_1_r.
      assert (Hq0 : 0 < 2 ^ (E + k + OFF)) by (apply pow2_pos; unfold OFF in *; lia).
      assert (0 < 2 ^ k') by (apply pow2_pos; lia).
      clear - HVlo Hq0 H. nia.
    - intros k' Hk'0 Hr' _. rewrite !Z.mul_1_r. specialize (Hk' k' Hk'0 (proj2 Hr')).
      assert (Hq0 : 0 < 2 ^ (E + k + OFF)) by (apply pow2_pos; unfold OFF in *; lia).
      clear - HVhi Hk' Hq0. nia. }
  destruct HBC' as [HB HCv]. split; [|exact HCv].
  destruct r as [b0|e0|x0|]; try contradiction.
  - specialize (HA' b0 eq_refl). destruct HA' as [Hok Hrest]. split; [exact Hok|].
    destruct (f_zero b0); [exact Hrest|]. rewrite !Z.mul_1_l in Hrest. rewrite !Z.mul_1_l. exact Hrest.
  - exact HB.
Qed.

(* ------------------------------------------------------------------------------------------------ *)
(* commutativity, bit for bit (result or raised error) *)

Theorem imul_comm C a b : fmt_ok C -> buf_ok C a -> buf_ok C b -> mbf_imul C a b = mbf_imul C b a.
Proof.
  intros HC Ha Hb. unfold mbf_imul. rewrite !is_zero_spec. rewrite (orb_comm (f_zero b)).
  destruct (f_zero a || f_zero b); [reflexivity|].
  rewrite !denormalise_spec by assumption. cbv beta iota zeta.
  replace (f_exp b + (f_exp a - c_bias C - 8)) with (f_exp a + (f_exp b - c_bias C - 8)) by lia.
  replace (256 * f_man C b * (256 * f_man C a)) with (256 * f_man C a * (256 * f_man C b)) by lia.
  replace (Bool.eqb (f_neg C b) (f_neg C a)) with (Bool.eqb (f_neg C a) (f_neg C b))
    by (destruct (f_neg C a), (f_neg C b); reflexivity).
  destruct (f_exp a + (f_exp b - c_bias C - 8) <? - (c_shift C + 8)); [reflexivity|].
  destruct (mbf_bring_to_range C (256 * f_man C a * (256 * f_man C b)) (f_exp a + (f_exp b - c_bias C - 8))
              (Z.shiftr (c_den_mask C) 4) (Z.shiftr (c_den_upper C) 4)) as [[m e]| | |]; cbn [bind]; try reflexivity.
  cbv beta iota.
  destruct (Z.land m 15 =? 9); cbn [bind];
    rewrite (normalise_buf_indep C a b) by (try assumption; apply Ha || apply Hb); reflexivity.
Qed.

(* ------------------------------------------------------------------------------------------------ *)
(* x * 1 = x, bit for bit for every non-zero encoding; zero encodings give the canonical zero *)

Lemma f_encode_self C b : fmt_ok C -> buf_ok C b ->
  f_encode C (f_neg C b) (f_exp b) (f_man C b) = b.
Proof.
  intros HC Hb. pose proof (f_man_bound C b HC) as Hm. pose proof (f_exp_bound C b HC Hb) as He.
  destruct (f_encode_fields C (f_neg C b) (f_exp b) (f_man C b) HC He Hm) as (E1 & E2 & E3).
  pose proof (f_encode_ok C (f_neg C b) (f_exp b) (f_man C b) HC He Hm) as Hok.
  set (b' := f_encode C (f_neg C b) (f_exp b) (f_man C b)) in *.
  (* same raw field and same exponent byte *)
  assert (Hraw : f_raw b' = f_raw b).
  { pose proof (f_raw_bound C b HC Hb) as Hr. pose proof (f_raw_bound C b' HC Hok) as Hr'.
    pose proof (mbits_ge C HC).
    assert (HP : 0 < 2 ^ (mbits C - 1)) by (apply pow2_pos; lia).
    rewrite (pow2_pred (mbits C)) in Hr, Hr' by lia.
    unfold f_neg in E2. unfold f_man in E3.
    set (P := 2 ^ (mbits C - 1)) in *.
    destruct (Z.leb_spec P (f_raw b')) as [H1|H1]; destruct (Z.leb_spec P (f_raw b)) as [H2|H2]; try discriminate.
    - rewrite (mod_hi P (f_raw b')), (mod_hi P (f_raw b)) in E3 by lia. lia.
    - rewrite (Z.mod_small (f_raw b') P), (Z.mod_small (f_raw b) P) in E3 by lia. lia. }
  apply (f_raw_inj C b' b HC Hok Hb E1 Hraw).
Qed.

Theorem imul_one C a : fmt_ok2 C -> buf_ok C a ->
  mbf_imul C a (c_one C) = Ok (if f_zero a then zeros (c_size C) else a) /\
  mbf_imul C (c_one C) a = Ok (if f_zero a then zeros (c_size C) else a).
Proof.
  intros HC2 Ha. pose proof HC2 as [HC Hsh].
  pose proof (mbits_ge C HC) as Hg. pose proof (mbits_le C HC) as Hl.
  assert (Hbias : c_bias C = 128 + mbits C) by apply (ok_bias C HC).
  set (P := 2 ^ (mbits C - 1)) in *. assert (HP : 0 < P) by (apply pow2_pos; lia).
  assert (H2P : 2 ^ mbits C = 2 * P) by (apply pow2_pred; lia).
  assert (Hone_ok : buf_ok C (c_one C)).
  { rewrite one_encode by assumption. apply f_encode_ok; [assumption | unfold byte_ok; lia | fold P; lia]. }
  destruct (f_encode_fields C false 129 P HC ltac:(unfold byte_ok; lia) ltac:(fold P; lia)) as (E1 & E2 & E3).
  rewrite <- one_encode in E1, E2, E3 by assumption.
  assert (H1 : mbf_imul C a (c_one C) = Ok (if f_zero a then zeros (c_size C) else a)).
  { destruct (f_zero a) eqn:Hza.
    { unfold mbf_imul. rewrite is_zero_spec, Hza. reflexivity. }
    assert (Hzo : f_zero (c_one C) = false) by (unfold f_zero; rewrite E1; reflexivity).
    pose proof (f_man_bound C a HC) as Hma. pose proof (f_exp_bound C a HC Ha) as Hea.
    assert (Hea1 : 1 <= f_exp a) by (unfold f_zero in Hza; lia).
    fold P in Hma. rewrite H2P in Hma.
    (* unfold imul down to _bring_to_range *)
    unfold mbf_imul. rewrite !is_zero_spec, Hza, Hzo. cbn [orb].
    rewrite !denormalise_spec by assumption. cbv beta iota zeta. rewrite E1, E2, E3, Hsh.
    replace (f_exp a + (129 - c_bias C - 8)) with (f_exp a - (mbits C + 7)) by lia.
    destruct (Z.ltb_spec (f_exp a - (mbits C + 7)) (- (mbits C - 1 + 8))); [lia|].
    set (L := 2 ^ (mbits C + 3)).
    assert (HL : L = 16 * P).
    { unfold L, P. replace (mbits C + 3) with (4 + (mbits C - 1)) by lia. rewrite pow2_split by lia. reflexivity. }
    assert (Hsl : Z.shiftr (c_den_mask C) 4 = L).
    { rewrite (ok_den_mask C HC), Z.shiftr_div_pow2 by lia. unfold L.
      replace (mbits C + 7) with (mbits C + 3 + 4) by lia. rewrite pow2_split by lia. apply Z.div_mul. lia. }
    assert (Hsu : Z.shiftr (c_den_upper C) 4 = 2 * L).
    { rewrite (ok_den_upper C HC), Z.shiftr_div_pow2 by lia. unfold L.
      replace (mbits C + 8) with (1 + (mbits C + 3) + 4) by lia. rewrite !pow2_split by lia.
      rewrite Z.div_mul by lia. reflexivity. }
    rewrite Hsl, Hsu.
    set (ma := f_man C a) in *.
    (* the product is q * 2^j with L < q <= 2L: (16 ma) * 2^(m+11), or 2L * 2^(m+10) for ma = P *)
    assert (Hq : exists q j, L < q <= 2 * L /\ (j <= 999)%nat /\ 256 * ma * (256 * P) = q * 2 ^ Z.of_nat j /\
               ((q = 16 * ma /\ Z.of_nat j = mbits C + 11) \/ (q = 2 * L /\ ma = P /\ Z.of_nat j = mbits C + 10))).
    { destruct (Z.eq_dec ma P) as [EP|NP].
      - exists (2 * L), (Z.to_nat (mbits C + 10)). rewrite Z2Nat.id by lia.
        split; [lia|]. split; [lia|]. split; [|right; lia].
        rewrite EP, HL. replace (mbits C + 10) with (11 + (mbits C - 1)) by lia. rewrite pow2_split by lia. fold P.
        change (2 ^ 11) with 2048. lia.
      - exists (16 * ma), (Z.to_nat (mbits C + 11)). rewrite Z2Nat.id by lia.
        split; [lia|]. split; [lia|]. split; [|left; lia].
        replace (mbits C + 11) with (12 + (mbits C - 1)) by lia. rewrite pow2_split by lia. fold P.
        change (2 ^ 12) with 4096. lia. }
    destruct Hq as (q & j & Hqr & Hj & Hprod & Hcase).
    rewrite Hprod. unfold mbf_bring_to_range. change 1000%nat with (S 999).
    assert (H2j : 0 < 2 ^ Z.of_nat j) by (apply pow2_pos; lia).
    rewrite bloop1_exit by (rewrite Z.abs_eq by nia; nia). cbn [bind]. cbv beta iota.
    rewrite (bloop2_exact C L L q ltac:(lia) Hqr j 999 _ Hj). cbn [bind]. cbv beta iota.
    rewrite land15.
    assert (Hq16 : q mod 16 = 0).
    { destruct Hcase as [(-> & _)|(-> & _)].
      - replace (16 * ma) with (ma * 16) by lia. apply Z.mod_mul. lia.
      - rewrite HL. replace (2 * (16 * P)) with (2 * P * 16) by lia. apply Z.mod_mul. lia. }
    rewrite Hq16. change (0 =? 9) with false. cbv iota. cbn [bind].
    rewrite bind_ret.
    (* _normalise shifts back by 4 (or 3) and rounds exactly *)
    assert (Hq0 : 0 < q < c_den_upper C).
    { rewrite (ok_den_upper C HC). replace (mbits C + 8) with (9 + (mbits C - 1)) by lia.
      rewrite pow2_split by lia. fold P. change (2 ^ 9) with 512. lia. }
    destruct (normalise_gen C a (f_exp a - (mbits C + 7) + Z.of_nat j) q
                (negb (Bool.eqb (f_neg C a) false)) HC (proj1 Ha) Hq0 ltac:(lia))
      as (k & Hk & Hrange & Hk0 & Hres).
    rewrite Hres. rewrite (ok_den_mask C HC), (ok_den_upper C HC) in Hrange.
    assert (E7 : 2 ^ (mbits C + 7) = 256 * P).
    { unfold P. replace (mbits C + 7) with (8 + (mbits C - 1)) by lia. rewrite pow2_split by lia. reflexivity. }
    assert (E8 : 2 ^ (mbits C + 8) = 512 * P).
    { unfold P. replace (mbits C + 8) with (9 + (mbits C - 1)) by lia. rewrite pow2_split by lia. reflexivity. }
    rewrite E7, E8 in Hrange.
    (* determine k: q * 2^k in [256P - 1, 512P) *)
    assert (H2k : 0 < 2 ^ k) by (apply pow2_pos; lia).
    assert (Hkk : q * 2 ^ k = 256 * ma /\ f_exp a - (mbits C + 7) + Z.of_nat j - k = f_exp a).
    { destruct Hcase as [(Eq & Ej)|(Eq & EP & Ej)].
      - assert (k = 4).
        { destruct (Z.lt_trichotomy k 4) as [Hlt|[|Hgt]]; [exfalso|assumption|exfalso].
          - assert (2 ^ k <= 2 ^ 3) by (apply pow2_le; lia). change (2 ^ 3) with 8 in *. nia.
          - assert (2 ^ 5 <= 2 ^ k) by (apply pow2_le; lia). change (2 ^ 5) with 32 in *. nia. }
        subst k. change (2 ^ 4) with 16. lia.
      - assert (k = 3).
        { destruct (Z.lt_trichotomy k 3) as [Hlt|[|Hgt]]; [exfalso|assumption|exfalso].
          - assert (2 ^ k <= 2 ^ 2) by (apply pow2_le; lia). change (2 ^ 2) with 4 in *. nia.
          - assert (2 ^ 4 <= 2 ^ k) by (apply pow2_le; lia). change (2 ^ 4) with 16 in *. nia. }
        subst k. change (2 ^ 3) with 8. lia. }
    destruct Hkk as [Hm' He']. rewrite Hm', He'.
    unfold norm_result. rewrite round_even8_exact.
    destruct (Z.eqb_spec ma (2 ^ mbits C)); [lia|].
    destruct (Z.gtb_spec (f_exp a) 255); [lia|].
    unfold clamp0. destruct (Z.leb_spec (f_exp a) 0); [lia|].
    f_equal. replace (negb (Bool.eqb (f_neg C a) false)) with (f_neg C a) by (destruct (f_neg C a); reflexivity).
    apply f_encode_self; assumption. }
  split; [exact H1|]. rewrite <- H1. symmetry. apply imul_comm; assumption.
Qed.
