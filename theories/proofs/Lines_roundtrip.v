(* C17: whole program lines: listing a canonical token line gives its text, tokenising that text gives the
   token line back; the boolean class check is sound; jump numbers. *)
From Coq Require Import ZArith List Bool Lia.
From PCB Require Import lib.Result lib.PyInt lib.Harness gen.Gen_tokens model.Tok model.Lister model.Lines
  proofs.Tok_tables proofs.Tok_words proofs.Tok_numbers proofs.Lines_tables proofs.Lines_lister proofs.Lines_tok.
Import ListNotations.
Open Scope Z_scope.

Section Roundtrip.
Variable tkw kw : list (list Z * list Z).
Variable fl_tok : list Z -> res (list Z).
Variable fl_str : list Z -> res (list Z).
Hypothesis Htab : tables_ok tkw kw = true.

Lemma follow_linenum_space t : follow_linenum (32 :: t) = follow_linenum t.
Proof. reflexivity. Qed.

Theorem line_lists n body :
  CanonLine kw fl_tok fl_str n body ->
  detokenise_line tkw fl_str (tl (line_toks kw n body)) = Ok (n, line_text n body).
Proof.
  intros [Hn [HL [Hfl [Htab9 Hlen]]]].
  unfold line_toks, line_text. cbn [app tl le16].
  unfold detokenise_line. change ((192 =? 0) && (222 =? 0)) with false. cbv iota.
  assert (En : n mod 256 + 256 * (n / 256) = n) by (pose proof (Z_div_mod_eq_full n 256); lia).
  rewrite En.
  assert (Hbody : detok_loop tkw fl_str false false [] O (toks kw body) = Ok (rev (text body) ++ [])).
  { apply (lister_lines tkw kw fl_str Htab fl_tok body _ _ HL). }
  assert (H9 : (match toks kw body with s :: _ => if s =? 9 then [] else [32] | [] => [32] end) = [32]).
  { unfold head_not in Htab9. destruct (toks kw body) as [|s r]; [reflexivity|].
    apply negb_true_iff in Htab9. rewrite Htab9. reflexivity. }
  destruct (n =? 0) eqn:E0.
  - cbn [app]. change (32 =? 32) with true. cbn [andb]. rewrite H9, Hbody. cbn [bind].
    rewrite app_nil_r, rev_involutive. rewrite firstn_all2 by exact Hlen. rewrite <- app_assoc. reflexivity.
  - cbn [app].
    assert (Hr : (match toks kw body with s :: t => if (s =? 32) && false then t else toks kw body | [] => toks kw body end)
                 = toks kw body).
    { destruct (toks kw body) as [|s t]; [reflexivity|]. rewrite andb_false_r. reflexivity. }
    rewrite Hr, H9, Hbody. cbn [bind].
    rewrite app_nil_r, rev_involutive. rewrite firstn_all2 by exact Hlen. rewrite <- app_assoc. reflexivity.
Qed.

Theorem line_tokenises n body :
  CanonLine kw fl_tok fl_str n body ->
  tokenise_line kw fl_tok (line_text n body) = Ok (line_toks kw n body).
Proof.
  intros [Hn [HL [Hfl [Htab9 Hlen]]]].
  unfold line_toks, line_text.
  destruct (dec16_spec n) as [D1 [D2 [D3 _]]]; [lia|].
  destruct (nonempty_cons _ D2) as [c [w E]].
  assert (Hc : is_digit c = true).
  { rewrite E in D1. unfold all_digits in D1. cbn [forallb] in D1. apply andb_true_iff in D1 as [Hc _]. exact Hc. }
  unfold tokenise_line. cbn [app].
  assert (Hd : drop_blanks (dec_str n ++ 32 :: text body) = dec_str n ++ 32 :: text body).
  { rewrite E. cbn [app drop_blanks]. rewrite (digit_not_blank c Hc). reflexivity. }
  rewrite Hd.
  assert (Hl : tokenise_linenum (dec_str n ++ 32 :: text body)
               = ([0; 192; 222] ++ le16 n, if n =? 0 then 32 :: text body else text body)).
  { unfold tokenise_linenum. rewrite read_linenum_dec16; [|lia|exact Hfl].
    rewrite E. rewrite <- E. rewrite D3. change (32 =? 32) with true. cbn [andb].
    destruct (n =? 0); reflexivity. }
  rewrite E at 1. cbn [app]. rewrite Hl.
  pose proof (tok_lines tkw kw fl_tok fl_str Htab body _ _ HL) as Ht.
  cbn [st_aj st_an st_sot fst snd] in Ht.
  destruct (n =? 0).
  - change (tok_loop kw fl_tok false true false 0 (32 :: text body))
      with (rcons [32] (tok_loop kw fl_tok false true false 0 (text body))).
    rewrite Ht. cbn [rcons]. rewrite <- ?app_assoc. reflexivity.
  - rewrite Ht. cbn [rcons app]. rewrite <- ?app_assoc. reflexivity.
Qed.

(* ---- the boolean check implies membership ---- *)
Lemma res_eqb_ok a l : res_eqb a (Ok l) = true -> a = Ok l.
Proof.
  unfold res_eqb. intro H. apply list_Z_eqb_eq in H. destruct a as [x|e|x| ]; cbn [enc_res] in H.
  - inversion H. reflexivity.
  - discriminate.
  - discriminate.
  - discriminate.
Qed.

Lemma item_oracleb_sound it : item_oracleb fl_tok fl_str it = true -> item_oracle fl_tok fl_str it.
Proof.
  destruct it as [ |c|c|k|n|x|n|body closed| | |tail|tail|tail]; cbn [item_oracleb item_oracle]; try (intros; exact I).
  destruct x as [v|v|v|lead trail txt]; try (intros; exact I).
  intro H. apply andb_true_iff in H as [H1 H2]. split; apply res_eqb_ok; assumption.
Qed.

Theorem linesb_sound : forall body s rout,
  linesb kw fl_tok fl_str s rout body = true -> Lines kw fl_tok fl_str s rout body.
Proof.
  induction body as [|it rest IH]; intros s rout H.
  - constructor.
  - cbn [linesb] in H. repeat (apply andb_true_iff in H as [H ?]).
    constructor.
    + exact H.
    + apply item_oracleb_sound. assumption.
    + intro Hl. match goal with X : negb (item_last it) || _ = true |- _ => rewrite Hl in X; cbn [negb orb] in X;
        destruct rest; [reflexivity|discriminate] end.
    + apply IH. assumption.
Qed.

Theorem canon_lineb_sound n body :
  canon_lineb kw fl_tok fl_str n body = true -> CanonLine kw fl_tok fl_str n body.
Proof.
  unfold canon_lineb, CanonLine. intro H. repeat (apply andb_true_iff in H as [H ?]).
  repeat split.
  - apply Z.leb_le. assumption.
  - apply Z.leb_le. assumption.
  - apply linesb_sound. assumption.
  - assumption.
  - assumption.
  - apply Nat.leb_le. assumption.
Qed.

(* ---- a line number after a keyword that takes line numbers is stored as a jump token ---- *)
Lemma linenum_word_facts k : lmem k tok_linenum_words = true ->
  alpha_word k = true /\ lmem k tok_no_longer_name = false.
Proof.
  intro H. apply lmem_In in H. unfold tok_linenum_words in H. simpl in H.
  repeat (destruct H as [H|H]; [subst; split; reflexivity|]). contradiction.
Qed.

Theorem jump_number_stored k t ln m :
  lmem k tok_linenum_words = true -> not_special_word k = true -> assoc k kw = Some t ->
  0 <= ln <= 65529 -> 0 <= m <= 65529 ->
  tokenise_line kw fl_tok (dec_str ln ++ [32] ++ k ++ [32] ++ dec_str m)
  = Ok ([0; 192; 222] ++ le16 ln ++ (if ln =? 0 then [32] else []) ++ t ++ [32] ++ tk_T_UINT ++ le16 m).
Proof.
  intros Hk Hns Ha Hln Hm.
  destruct (linenum_word_facts k Hk) as [Halpha Hnl].
  assert (HC : CanonLine kw fl_tok fl_str ln [IKw k; ISpace; IJump m]).
  { unfold CanonLine. split; [exact Hln|].
    assert (Hkey : has_key k kw = true) by (unfold has_key; rewrite Ha; reflexivity).
    assert (Ht : tok_of_kw kw k = t) by (unfold tok_of_kw; rewrite Ha; reflexivity).
    destruct k as [|c k']; [discriminate|].
    split; [|split; [|split]].
    - constructor.
      + cbn [item_ok toks text flat_map item_toks item_text app firstn]. rewrite Hkey, Hns, Ht.
        cbn [alpha_word] in Halpha. rewrite Halpha.
        assert (Hnil : needs_space_before t [] = false).
        { unfold needs_space_before. rewrite andb_false_r. reflexivity. }
        rewrite Hnil.
        unfold needs_space_after. change (lmem [32] lst_no_space_after_next) with true. rewrite andb_false_r.
        cbn [negb andb next_not_name]. change (is_name_char 32) with false. rewrite orb_true_r. reflexivity.
      + exact I.
      + discriminate.
      + constructor; [reflexivity|exact I|discriminate|].
        constructor; [|exact I|discriminate|constructor].
        cbn [item_ok item_state word_state st_an st_aj fst snd text toks flat_map]. rewrite Hk, Hkey.
        replace (0 <=? m) with true by (symmetry; apply Z.leb_le; lia).
        replace (m <=? 65529) with true by (symmetry; apply Z.leb_le; lia). reflexivity.
    - cbn [text flat_map item_text app]. unfold follow_linenum. cbn [drop_blanks].
      assert (Hl : is_letter c = true) by exact Halpha.
      destruct (letter_facts c Hl) as [[_ [_ [Fb _]]] [Fd _]]. rewrite Fb, Fd. reflexivity.
    - cbn [toks flat_map item_toks]. rewrite Ht.
      pose proof (entry_shape tkw kw Htab _ _ Ha) as Hs. unfold head_not.
      destruct t as [|b1 [|b2 [|]]]; try discriminate; cbn [tok_shape] in Hs; cbn [app].
      + apply Z.ltb_lt in Hs. apply negb_true_iff. apply Z.eqb_neq. lia.
      + apply andb_true_iff in Hs as [Hs _]. apply Z.ltb_lt in Hs. apply negb_true_iff. apply Z.eqb_neq. lia.
    - cbn [text flat_map item_text]. rewrite !app_length. cbn [length].
      destruct (dec16_spec m) as [_ [_ [_ [L5 _]]]]; [lia|].
      assert (length (c :: k') <= 8)%nat.
      { apply lmem_In in Hk. unfold tok_linenum_words in Hk. simpl in Hk.
        repeat (destruct Hk as [Hk|Hk]; [rewrite <- Hk; cbn [length]; lia|]). contradiction. }
      cbn [length] in *. lia. }
  pose proof (line_tokenises ln _ HC) as H. unfold line_text, line_toks in H.
  cbn [text toks flat_map item_text item_toks] in H. unfold tok_of_kw in H. rewrite Ha in H.
  rewrite !app_nil_r in H. exact H.
Qed.

(* ---- a keyword directly followed by a type character or punctuation (INPUT$(, PRINT#, KEY(, NEXT:, ...) ----
   For every keyword of the table the lister inserts no blank between the keyword and one of $ % ! # ( ) , ; :
   so the two-item line is in the class and round-trips.  This pins the lister's no-space-after set: if one of these
   characters drops out of it, this proof (not only the generator) fails. *)
Definition close_punct : list Z := [36; 37; 33; 35; 40; 41; 44; 59; 58].

Lemma close_punct_facts c : In c close_punct ->
  lmem [c] lst_no_space_after_next = true /\ is_name_char c = false
  /\ (forall s rout, item_ok kw s rout (IPunct c) [] [] = true).
Proof.
  unfold close_punct. intro H. simpl in H.
  repeat (destruct H as [H|H]; [subst c; repeat split; reflexivity|]). contradiction.
Qed.

Theorem keyword_punct_canonical k t c n :
  assoc k kw = Some t -> alpha_word k = true -> not_special_word k = true -> (length k <= 250)%nat ->
  In c close_punct -> 0 <= n <= 65529 ->
  CanonLine kw fl_tok fl_str n [IKw k; IPunct c].
Proof.
  intros Ha Halpha Hns Hlen Hc Hn.
  destruct (close_punct_facts c Hc) as [Hset [Hnn Hpun]].
  unfold CanonLine. split; [exact Hn|].
  assert (Hkey : has_key k kw = true) by (unfold has_key; rewrite Ha; reflexivity).
  assert (Ht : tok_of_kw kw k = t) by (unfold tok_of_kw; rewrite Ha; reflexivity).
  destruct k as [|c0 k']; [discriminate|].
  split; [|split; [|split]].
  - constructor.
    + cbn [item_ok toks text flat_map item_toks item_text app firstn]. rewrite Hkey, Hns, Ht.
      cbn [alpha_word] in Halpha. rewrite Halpha.
      assert (Hnil : needs_space_before t [] = false).
      { unfold needs_space_before. rewrite andb_false_r. reflexivity. }
      rewrite Hnil. unfold needs_space_after. rewrite Hset. rewrite andb_false_r.
      cbn [negb andb next_not_name]. rewrite Hnn. rewrite orb_true_r. reflexivity.
    + exact I.
    + discriminate.
    + constructor; [|exact I|discriminate|constructor]. cbn [toks text flat_map]. apply Hpun.
  - cbn [text flat_map item_text app]. unfold follow_linenum. cbn [drop_blanks].
    assert (Hl : is_letter c0 = true) by exact Halpha.
    destruct (letter_facts c0 Hl) as [[_ [_ [Fb _]]] [Fd _]]. rewrite Fb, Fd. reflexivity.
  - cbn [toks flat_map item_toks]. rewrite Ht.
    pose proof (entry_shape tkw kw Htab _ _ Ha) as Hs. unfold head_not.
    destruct t as [|b1 [|b2 [|]]]; try discriminate; cbn [tok_shape] in Hs; cbn [app].
    + apply Z.ltb_lt in Hs. apply negb_true_iff. apply Z.eqb_neq. lia.
    + apply andb_true_iff in Hs as [Hs _]. apply Z.ltb_lt in Hs. apply negb_true_iff. apply Z.eqb_neq. lia.
  - cbn [text flat_map item_text]. rewrite !app_length. cbn [length] in *. lia.
Qed.

End Roundtrip.

(* ---- for every dialect table of tokens.py ---- *)
Lemma syntaxes_ok p : In p tk_syntaxes -> tables_ok (fst p) (snd p) = true.
Proof.
  unfold tk_syntaxes. intros [H|[H|[H|[]]]]; subst p;
    [exact tables_ok_advanced|exact tables_ok_pcjr|exact tables_ok_tandy].
Qed.

Theorem roundtrip_all p fl_tok fl_str n body :
  In p tk_syntaxes -> CanonLine (snd p) fl_tok fl_str n body ->
  detokenise_line (fst p) fl_str (tl (line_toks (snd p) n body)) = Ok (n, line_text n body)
  /\ tokenise_line (snd p) fl_tok (line_text n body) = Ok (line_toks (snd p) n body).
Proof.
  intros Hp HC. pose proof (syntaxes_ok p Hp) as Ht. split.
  - exact (line_lists (fst p) (snd p) fl_tok fl_str Ht n body HC).
  - exact (line_tokenises (fst p) (snd p) fl_tok fl_str Ht n body HC).
Qed.

Theorem keyword_recognised_all p k t k' rest :
  In p tk_syntaxes -> assoc k (snd p) = Some t -> alpha_word k = true ->
  map upper k' = k -> lmem k tok_no_longer_name || next_not_name rest = true ->
  word_loop (snd p) [] O (k' ++ rest) = (emit_keyword k t, k, rest).
Proof.
  intros Hp Ha Hal Hup Hf. pose proof (syntaxes_ok p Hp) as Ht.
  apply word_loop_keyword; try assumption.
  exact (entry_word (fst p) (snd p) Ht k t Ha Hal).
Qed.

Theorem jump_number_stored_all p fl_tok k t ln m :
  In p tk_syntaxes ->
  lmem k tok_linenum_words = true -> not_special_word k = true -> assoc k (snd p) = Some t ->
  0 <= ln <= 65529 -> 0 <= m <= 65529 ->
  tokenise_line (snd p) fl_tok (dec_str ln ++ [32] ++ k ++ [32] ++ dec_str m)
  = Ok ([0; 192; 222] ++ le16 ln ++ (if ln =? 0 then [32] else []) ++ t ++ [32] ++ tk_T_UINT ++ le16 m).
Proof.
  intros Hp. pose proof (syntaxes_ok p Hp) as Ht.
  exact (jump_number_stored (fst p) (snd p) fl_tok (fun _ => Host 0) Ht k t ln m).
Qed.

Theorem canon_lineb_sound_all kw fl_tok fl_str n body :
  canon_lineb kw fl_tok fl_str n body = true -> CanonLine kw fl_tok fl_str n body.
Proof. exact (canon_lineb_sound kw fl_tok fl_str n body). Qed.

(* every keyword of every dialect is short *)
Definition kw_short (kw : list (list Z * list Z)) : bool := forallb (fun p => (length (fst p) <=? 250)%nat) kw.
Lemma kw_short_all p : In p tk_syntaxes -> kw_short (snd p) = true.
Proof.
  unfold tk_syntaxes. intros [H|[H|[H|[]]]]; subst p; vm_compute; reflexivity.
Qed.

Theorem keyword_punct_roundtrip_all p fl_tok fl_str k t c n :
  In p tk_syntaxes -> assoc k (snd p) = Some t -> alpha_word k = true -> not_special_word k = true ->
  In c close_punct -> 0 <= n <= 65529 ->
  detokenise_line (fst p) fl_str (tl (line_toks (snd p) n [IKw k; IPunct c])) = Ok (n, line_text n [IKw k; IPunct c])
  /\ tokenise_line (snd p) fl_tok (line_text n [IKw k; IPunct c]) = Ok (line_toks (snd p) n [IKw k; IPunct c]).
Proof.
  intros Hp Ha Hal Hns Hc Hn. pose proof (syntaxes_ok p Hp) as Ht.
  apply roundtrip_all; [exact Hp|].
  apply (keyword_punct_canonical (fst p) (snd p) fl_tok fl_str Ht k t c n); try assumption.
  pose proof (kw_short_all p Hp) as Hs. unfold kw_short in Hs. rewrite forallb_forall in Hs.
  apply assoc_In in Ha. specialize (Hs _ Ha). cbn [fst] in Hs. apply Nat.leb_le. exact Hs.
Qed.
