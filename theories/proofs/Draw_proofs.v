(* C33: the DRAW interpreter moves the pen as the position-free plan says (interpreter part).
   The printer/reader part is in Draw_parse_proofs.v. *)
From Coq Require Import ZArith List Bool Lia ZifyBool.
From PCB Require Import lib.Result lib.PyInt lib.Harness gen.Gen_draw model.Draw.
Import ListNotations.
Open Scope Z_scope.

(* ------------------------------------------------------------------------------------------------ *)
(** * Induction over commands with nested X bodies *)

Section cmd_ind_nested.
  Variable P : cmd -> Prop.
  Hypothesis Hflat : forall c, (forall n b, c <> Sub n b) -> P c.
  Hypothesis Hsub : forall n body, Forall P body -> P (Sub n body).

  Fixpoint cmd_ind_nested (c : cmd) : P c :=
    match c as c0 return P c0 with
    | Sub n body =>
        Hsub n body ((fix go (l : list cmd) : Forall P l :=
                        match l with
                        | [] => Forall_nil P
                        | c :: r => Forall_cons c (cmd_ind_nested c) (go r)
                        end) body)
    | Move d n => Hflat (Move d n) (fun n0 b H => ltac:(discriminate H))
    | MRel x y => Hflat (MRel x y) (fun n0 b H => ltac:(discriminate H))
    | MAbs x y => Hflat (MAbs x y) (fun n0 b H => ltac:(discriminate H))
    | PreB => Hflat PreB (fun n0 b H => ltac:(discriminate H))
    | PreN => Hflat PreN (fun n0 b H => ltac:(discriminate H))
    | SetScale n => Hflat (SetScale n) (fun n0 b H => ltac:(discriminate H))
    | SetColour n => Hflat (SetColour n) (fun n0 b H => ltac:(discriminate H))
    | SetAngle n => Hflat (SetAngle n) (fun n0 b H => ltac:(discriminate H))
    | TurnAngle n => Hflat (TurnAngle n) (fun n0 b H => ltac:(discriminate H))
    | Paint f b0 => Hflat (Paint f b0) (fun n0 b H => ltac:(discriminate H))
    | Fail e => Hflat (Fail e) (fun n0 b H => ltac:(discriminate H))
    | Unsupported => Hflat Unsupported (fun n0 b H => ltac:(discriminate H))
    end.
End cmd_ind_nested.

(* the nested loops are the top-level ones *)
Lemma exec_sub n body fl st :
  exec (Sub n body) fl st =
  let '(st', sg, stat) := run body fresh st in
  match stat with
  | Done => (fl, finish st', sg, Done)
  | _ => (fl, st', sg, stat)
  end.
Proof. reflexivity. Qed.

Lemma plan1_sub n body fl ps :
  plan1 (Sub n body) fl ps = let '(ps', ms, stat) := plan body fresh ps in (fl, ps', ms, stat).
Proof. reflexivity. Qed.

Lemma paint_free1_sub n body : paint_free1 (Sub n body) = paint_free body.
Proof. reflexivity. Qed.

(* ------------------------------------------------------------------------------------------------ *)
(** * The regenerated arithmetic is the arithmetic of the specification *)

Lemma dir_offset_unit d n : dir_offset d n = (n * fst (unit d), n * snd (unit d)).
Proof.
  destruct d; unfold dir_offset, draw_dir_offset, dir_byte, unit; cbn [Z.eqb Pos.eqb orb fst snd];
    f_equal; lia.
Qed.

Lemma draw_endpoint_padd p o : draw_endpoint (fst p) (snd p) (fst o) (snd o) = padd p o.
Proof. unfold draw_endpoint, padd. f_equal; lia. Qed.

(* the rotation of _draw_step (generated tests + the two hand-modelled quarter turns) is `turned` *)
Lemma offset_turned st v : offset st v = turned (d_angle st) (d_aspect st) (scaled (d_scale st) v).
Proof. reflexivity. Qed.

(* the generated limits are the limits the specification names *)
Lemma ranges_spec :
  draw_range_step = (-99999, 99999) /\ draw_range_x = (-9999, 9999) /\ draw_range_y = (-9999, 9999)
  /\ draw_range_scale = (1, 255) /\ draw_range_attr = (-99999, 99999) /\ draw_range_angle_a = (0, 3)
  /\ draw_range_angle_ta = (-360, 360) /\ draw_range_fill = (0, 9999) /\ draw_range_border = (0, 9999)
  /\ draw_IFC = 5 /\ draw_OVERFLOW = 6 /\ draw_OUT_OF_MEMORY = 7.
Proof. repeat split; reflexivity. Qed.

(* the translator's idiom int(math.trunc(E / 4.)) = Z.quot E 4 needs |E| < 2^53: it is so for every
   product the range checks admit *)
Lemma scaled_product_small sc v :
  1 <= sc <= 255 -> in_range (-99999, 99999) v = true -> Z.abs (sc * v) < 2 ^ 53.
Proof.
  intros Hs Hv. unfold in_range in Hv. cbn [fst snd] in Hv.
  assert (Z.abs (sc * v) <= 255 * 99999) by nia. lia.
Qed.

(* ------------------------------------------------------------------------------------------------ *)
(** * Walking a list of moves *)

Lemma pen_after_app p ms ms' : pen_after p (ms ++ ms') = pen_after (pen_after p ms) ms'.
Proof. revert p; induction ms as [|m ms IH]; intros p; cbn [pen_after app]; auto. Qed.

Lemma segs_of_app p ms ms' : segs_of p (ms ++ ms') = segs_of p ms ++ segs_of (pen_after p ms) ms'.
Proof.
  revert p; induction ms as [|m ms IH]; intros p; cbn [pen_after segs_of app]; auto.
  rewrite IH, app_assoc. reflexivity.
Qed.

Lemma padd_0_r p : padd p (0, 0) = p.
Proof. destruct p; unfold padd; cbn [fst snd]; f_equal; lia. Qed.

Lemma padd_assoc p q r : padd (padd p q) r = padd p (padd q r).
Proof. unfold padd; cbn [fst snd]; f_equal; lia. Qed.

(* without an absolute move that stays: start + sum of the offsets of the moves not undone by N *)
Lemma pen_after_sum ms : forall p, no_abs ms = true -> pen_after p ms = padd p (vsum (rel_offsets ms)).
Proof.
  induction ms as [|m ms IH]; intros p H.
  - cbn. rewrite padd_0_r. reflexivity.
  - unfold no_abs in H. cbn [forallb] in H. apply andb_true_iff in H as [Hm H].
    cbn [pen_after]. rewrite IH by exact H.
    unfold rel_offsets, next, target, stays in *. cbn [filter].
    destruct (m_back m); cbn [negb map vsum fold_right].
    + reflexivity.
    + destruct (m_abs m); [discriminate|]. rewrite padd_assoc. reflexivity.
Qed.

(* an absolute move that stays sets the position; what follows is added to its target *)
Lemma pen_after_abs ms1 m ms2 p :
  m_abs m = true -> m_back m = false -> no_abs ms2 = true ->
  pen_after p (ms1 ++ m :: ms2) = padd (m_vec m) (vsum (rel_offsets ms2)).
Proof.
  intros Ha Hb H2. rewrite pen_after_app. cbn [pen_after].
  rewrite pen_after_sum by exact H2. unfold next, target. rewrite Ha, Hb. reflexivity.
Qed.

(* N: the move does not change the position *)
Lemma pen_after_back ms1 m ms2 p :
  m_back m = true -> pen_after p (ms1 ++ m :: ms2) = pen_after p (ms1 ++ ms2).
Proof. intros H. rewrite !pen_after_app. cbn [pen_after]. unfold next. rewrite H. reflexivity. Qed.

Lemma positions_length p ms : length (positions p ms) = length ms.
Proof. revert p; induction ms; intros; cbn; auto. Qed.

Lemma positions_nth ms : forall p i, (i < length ms)%nat ->
  nth i (positions p ms) (0, 0) = pen_after p (firstn i ms).
Proof.
  induction ms as [|m ms IH]; intros p i Hi; cbn [length] in Hi; [lia|].
  destruct i; cbn [positions nth firstn pen_after]; [reflexivity|]. apply IH. lia.
Qed.

(* the segments are the lines (position before the move, target of the move) of the moves that draw *)
Lemma segs_of_positions ms : forall p,
  segs_of p ms =
  map (fun qm => mkseg (fst qm) (target (fst qm) (snd qm)) (m_attr (snd qm)))
      (filter (fun qm => m_plot (snd qm)) (combine (positions p ms) ms)).
Proof.
  induction ms as [|m ms IH]; intros p; cbn [segs_of positions combine filter map]; [reflexivity|].
  cbn [snd fst]. rewrite IH. destruct (m_plot m); reflexivity.
Qed.

(* ------------------------------------------------------------------------------------------------ *)
(** * exec / run refine plan1 / plan *)

Definition pst_of (st : dstate) : pst :=
  mkP (d_scale st) (d_attr st) (d_nattr st) (d_angle st) (d_aspect st).

(* what one command (resp. one activation) guarantees, for strings without P *)
Definition exec_ok (c : cmd) : Prop :=
  paint_free1 c = true -> forall fl st,
  forall fl' st' sg stat, exec c fl st = (fl', st', sg, stat) ->
  exists ps' ms,
    plan1 c fl (pst_of st) = (fl', ps', ms, stat) /\ pst_of st' = ps'
    /\ d_window st' = d_window st /\ d_outcomes st' = d_outcomes st
    /\ d_pen st' = pen_after (d_pen st) ms /\ sg = map RLine (segs_of (d_pen st) ms).

Definition run_ok (l : list cmd) : Prop :=
  paint_free l = true -> forall fl st,
  forall st' sg stat, run l fl st = (st', sg, stat) ->
  exists ps' ms,
    plan l fl (pst_of st) = (ps', ms, stat) /\ pst_of st' = ps'
    /\ d_window st' = d_window st /\ d_outcomes st' = d_outcomes st
    /\ d_pen st' = pen_after (d_pen st) ms /\ sg = map RLine (segs_of (d_pen st) ms).

Lemma run_ok_of_Forall l : Forall exec_ok l -> run_ok l.
Proof.
  induction 1 as [|c l Hc Hl IH]; intros Haf fl st st' sg stat Hrun.
  - cbn in Hrun. inversion Hrun; subst. exists (pst_of st'), []. cbn. auto 10.
  - cbn [paint_free] in Haf. apply andb_true_iff in Haf as [Haf1 Haf].
    cbn [run] in Hrun.
    destruct (exec c fl st) as [[[fl1 st1] sg1] stat1] eqn:E1.
    destruct (Hc Haf1 fl st _ _ _ _ E1) as (ps1 & ms1 & Hp1 & Hps1 & Hw1 & Ho1 & Hpen1 & Hsg1).
    cbn [plan]. rewrite Hp1.
    destruct stat1.
    + destruct (run l fl1 st1) as [[st2 sg2] stat2] eqn:E2.
      inversion Hrun; subst st' sg stat. clear Hrun.
      destruct (IH Haf fl1 st1 _ _ _ E2) as (ps2 & ms2 & Hp2 & Hps2 & Hw2 & Ho2 & Hpen2 & Hsg2).
      rewrite <- Hps1, Hp2. exists ps2, (ms1 ++ ms2).
      repeat split; auto; try congruence.
      * rewrite pen_after_app, <- Hpen1. exact Hpen2.
      * rewrite segs_of_app, map_app, <- Hpen1, <- Hsg1, <- Hsg2. reflexivity.
    + inversion Hrun; subst st' sg stat. exists ps1, ms1. auto 10.
    + inversion Hrun; subst st' sg stat. exists ps1, ms1. auto 10.
Qed.

(* a single move against its plan entry *)
Lemma move_facts st fl ab v :
  let m := mkmove ab v (fst fl) (snd fl) (d_attr st) in
  let p1 := if ab then v else padd (d_pen st) v in
  d_pen (set_pen st (if snd fl then d_pen st else p1)) = pen_after (d_pen st) [m]
  /\ (if fst fl then [RLine (mkseg (d_pen st) p1 (d_attr st))] else []) = map RLine (segs_of (d_pen st) [m]).
Proof.
  cbn. unfold next, target. cbn [m_abs m_back m_vec m_plot m_attr].
  split.
  - destruct (snd fl), ab; reflexivity.
  - destruct (fst fl), ab; cbn; reflexivity.
Qed.

(* a relative move against plan_rel *)
Lemma rel_move_plan st fl v fl' st' sg stat :
  rel_move st fl v = (fl', st', sg, stat) ->
  exists ms,
    plan_rel fl (pst_of st) v = (fl', pst_of st', ms, stat)
    /\ d_window st' = d_window st /\ d_outcomes st' = d_outcomes st
    /\ d_pen st' = pen_after (d_pen st) ms /\ sg = map RLine (segs_of (d_pen st) ms).
Proof.
  unfold rel_move, plan_rel. rewrite offset_turned. cbn [pst_of p_angle p_aspect p_scale].
  destruct (turned (d_angle st) (d_aspect st) (scaled (d_scale st) v)) as [o|].
  - rewrite draw_endpoint_padd. unfold step. intros H. inversion H; subst. clear H.
    eexists. split; [reflexivity|].
    pose proof (move_facts st fl false o) as [F1 F2]. cbn zeta in F1, F2. repeat split; auto.
  - intros H. inversion H; subst. exists []. cbn. auto 10.
Qed.

Lemma exec_ok_all : forall c, exec_ok c.
Proof.
  apply cmd_ind_nested.
  - intros c Hns. unfold exec_ok. intros Haf fl st fl' st' sg stat Hex.
    destruct c; try (exfalso; eapply Hns; reflexivity); cbn [paint_free1] in Haf; try discriminate.
    + (* Move *)
      cbn [exec plan1] in *. change draw_range_step with (-99999, 99999) in Hex.
      destruct (in_range (-99999, 99999) n) eqn:Er.
      * rewrite (dir_offset_unit d n) in Hex.
        destruct (rel_move_plan _ _ _ _ _ _ _ Hex) as (ms & Hp & H). exists (pst_of st'), ms. auto.
      * unfold raise_ifc in Hex. inversion Hex; subst. eexists; eexists. split; [reflexivity|]. cbn. auto 10.
    + (* MRel *)
      cbn [exec plan1] in *. change draw_range_x with (-9999, 9999) in Hex. change draw_range_y with (-9999, 9999) in Hex.
      destruct (in_range (-9999, 9999) x && in_range (-9999, 9999) y) eqn:Er.
      * destruct (rel_move_plan _ _ _ _ _ _ _ Hex) as (ms & Hp & H). exists (pst_of st'), ms. auto.
      * unfold raise_ifc in Hex. inversion Hex; subst. eexists; eexists. split; [reflexivity|]. cbn. auto 10.
    + (* MAbs *)
      cbn [exec plan1] in *. change draw_range_x with (-9999, 9999) in Hex. change draw_range_y with (-9999, 9999) in Hex.
      destruct (in_range (-9999, 9999) x && in_range (-9999, 9999) y) eqn:Er.
      * unfold step in Hex. inversion Hex; subst. clear Hex.
        eexists; eexists. split; [reflexivity|].
        pose proof (move_facts st fl true (x, y)) as [F1 F2].
        cbn zeta in F1, F2. repeat split; auto.
      * unfold raise_ifc in Hex. inversion Hex; subst. eexists; eexists. split; [reflexivity|]. cbn. auto 10.
    + (* B *) cbn in Hex. inversion Hex; subst. eexists; eexists. split; [reflexivity|]. cbn. auto 10.
    + (* N *) cbn in Hex. inversion Hex; subst. eexists; eexists. split; [reflexivity|]. cbn. auto 10.
    + (* S *)
      cbn [exec plan1] in *. change draw_range_scale with (1, 255) in Hex. destruct (in_range (1, 255) n) eqn:Er.
      * inversion Hex; subst. eexists; eexists. split; [reflexivity|]. cbn. auto 10.
      * unfold raise_ifc in Hex. inversion Hex; subst. eexists; eexists. split; [reflexivity|]. cbn. auto 10.
    + (* C *)
      cbn [exec plan1] in *. change draw_range_attr with (-99999, 99999) in Hex. destruct (in_range (-99999, 99999) n) eqn:Er.
      * inversion Hex; subst. eexists; eexists. split; [reflexivity|]. cbn. auto 10.
      * unfold raise_ifc in Hex. inversion Hex; subst. eexists; eexists. split; [reflexivity|]. cbn. auto 10.
    + (* A *)
      cbn [exec plan1] in *. change draw_range_angle_a with (0, 3) in Hex. destruct (in_range (0, 3) n) eqn:Er.
      * inversion Hex; subst. eexists; eexists. split; [reflexivity|]. cbn. auto 10.
      * unfold raise_ifc in Hex. inversion Hex; subst. eexists; eexists. split; [reflexivity|]. cbn. auto 10.
    + (* TA *)
      cbn [exec plan1] in *. change draw_range_angle_ta with (-360, 360) in Hex. destruct (in_range (-360, 360) n) eqn:Er.
      * inversion Hex; subst. eexists; eexists. split; [reflexivity|]. cbn. auto 10.
      * unfold raise_ifc in Hex. inversion Hex; subst. eexists; eexists. split; [reflexivity|]. cbn. auto 10.
    + (* Fail *) cbn in Hex. inversion Hex; subst. eexists; eexists. split; [reflexivity|]. cbn. auto 10.
    + (* Unsupported *) cbn in Hex. inversion Hex; subst. eexists; eexists. split; [reflexivity|]. cbn. auto 10.
  - intros n body Hbody. unfold exec_ok. intros Haf fl st fl' st' sg stat Hex.
    rewrite paint_free1_sub in Haf. rewrite exec_sub in Hex. rewrite plan1_sub.
    destruct (run body fresh st) as [[st1 sg1] stat1] eqn:E1.
    destruct (run_ok_of_Forall body Hbody Haf fresh st _ _ _ E1)
      as (ps1 & ms1 & Hp1 & Hps1 & Hw1 & Ho1 & Hpen1 & Hsg1).
    rewrite Hp1. exists ps1, ms1.
    destruct stat1; inversion Hex; subst; clear Hex; repeat split; auto.
    + unfold finish, pst_of. destruct (d_window st1); reflexivity.
    + unfold finish. destruct (d_window st1) eqn:Ew; cbn [d_window]; congruence.
    + unfold finish. destruct (d_window st1); exact Ho1.
    + unfold finish. destruct (d_window st1); exact Hpen1.
Qed.

Theorem run_plan : forall l, run_ok l.
Proof.
  intros l. apply run_ok_of_Forall. apply Forall_forall. intros c _. apply exec_ok_all.
Qed.

(* ------------------------------------------------------------------------------------------------ *)
(** * P: a flood fill request at the pen position *)

Lemma attr_index_clamp na i : 1 <= na -> 0 <= i -> attr_index na i = clamp_attr na i.
Proof.
  intros Hn H. unfold attr_index, clamp_attr, draw_attr_index. destruct (i =? 0) eqn:E; [lia|reflexivity].
Qed.

Lemma attr_index_range na i : 1 <= na -> 0 <= attr_index na i < na.
Proof. intros H. unfold attr_index, draw_attr_index. destruct (i =? 0); lia. Qed.

(* the numbers in range, no WINDOW, the pen within 16 bits: exactly one request, at the pen, with both numbers
   brought into the attributes of the mode; the pen, the prefixes, scale and angle stay; what the fill finds
   (o) decides whether the last point and the colour change *)
Theorem paint_request st fl f b o os :
  in_range (0, 9999) f = true -> in_range (0, 9999) b = true -> d_window st = false ->
  in_int16 (fst (d_pen st)) && in_int16 (snd (d_pen st)) = true -> d_outcomes st = o :: os ->
  exists st', exec (Paint f b) fl st = (fl, st', [RPaint (d_pen st) (attr_index (d_nattr st) f) (attr_index (d_nattr st) b)], Done)
    /\ d_pen st' = d_pen st /\ d_scale st' = d_scale st /\ d_angle st' = d_angle st /\ d_outcomes st' = os
    /\ d_attr st' = (if (o =? 0) || (o =? 1) then d_attr st else attr_index (d_nattr st) f)
    /\ d_last st' = (if o =? 0 then d_last st else d_pen st).
Proof.
  intros Hf Hb Hw Hi Ho. cbn [exec]. change draw_range_fill with (0, 9999). change draw_range_border with (0, 9999).
  rewrite Hf, Hb. cbn [andb]. unfold paint. rewrite Hw, Hi, Ho.
  eexists. split; [reflexivity|]. destruct (o =? 0) eqn:E0; [cbn; auto 10|].
  destruct (o =? 1) eqn:E1; cbn; auto 10.
Qed.

(* outside those conditions: numbers out of range -> Illegal function call; pen beyond 16 bits -> Overflow *)
Theorem paint_errors st fl f b :
  (in_range (0, 9999) f && in_range (0, 9999) b = false -> exec (Paint f b) fl st = (fl, st, [], Raised 5))
  /\ (in_range (0, 9999) f && in_range (0, 9999) b = true -> d_window st = false ->
      in_int16 (fst (d_pen st)) && in_int16 (snd (d_pen st)) = false ->
      exec (Paint f b) fl st = (fl, st, [], Raised 6)).
Proof.
  split; intros H; cbn [exec]; change draw_range_fill with (0, 9999); change draw_range_border with (0, 9999);
    rewrite H; [reflexivity|]. intros Hw Hi. unfold paint. rewrite Hw, Hi. reflexivity.
Qed.

(* ------------------------------------------------------------------------------------------------ *)
(** * The last point (the position other graphics statements continue from) *)

Definition last_inv (w : bool) (l0 : pt) (st : dstate) : Prop :=
  d_window st = w /\ (w = true -> d_last st = l0).

Definition exec_last (c : cmd) : Prop :=
  forall fl st w l0, last_inv w l0 st ->
  last_inv w l0 (snd (fst (fst (exec c fl st)))).

Lemma last_inv_set st w l0 p sc an at_ na asp os :
  last_inv w l0 st -> last_inv w l0 (mkD p (d_last st) (d_window st) sc an at_ na asp os).
Proof. intros [H1 H2]. split; cbn; auto. Qed.

Lemma last_inv_finish st w l0 : last_inv w l0 st -> last_inv w l0 (finish st).
Proof.
  intros [H1 H2]. unfold finish. destruct (d_window st) eqn:E.
  - split; [rewrite E; exact H1 | exact H2].
  - split; cbn [d_window d_last]; [exact H1|]. intros Hw. congruence.
Qed.

Lemma run_last_of_Forall l : Forall exec_last l ->
  forall fl st w l0, last_inv w l0 st -> last_inv w l0 (fst (fst (run l fl st))).
Proof.
  induction 1 as [|c l Hc Hl IH]; intros fl st w l0 Hinv; cbn [run]; [exact Hinv|].
  specialize (Hc fl st w l0 Hinv).
  destruct (exec c fl st) as [[[fl1 st1] sg1] stat1]. cbn [fst snd] in Hc.
  destruct stat1; cbn [fst]; auto.
  specialize (IH fl1 st1 w l0 Hc). destruct (run l fl1 st1) as [[st2 sg2] stat2]. exact IH.
Qed.

Lemma paint_last st fl f b w l0 : last_inv w l0 st -> last_inv w l0 (snd (fst (fst (paint st fl f b)))).
Proof.
  intros Hinv. unfold paint. destruct (d_window st) eqn:Ew; [exact Hinv|].
  destruct (in_int16 (fst (d_pen st)) && in_int16 (snd (d_pen st))); [|exact Hinv].
  destruct (d_outcomes st) as [|o os]; [exact Hinv|]. cbn [fst snd].
  destruct Hinv as [H1 H2]. assert (Hw : w = false) by congruence.
  destruct (o =? 0); [|destruct (o =? 1)]; split; cbn; auto; intros; congruence.
Qed.

Lemma exec_last_all : forall c, exec_last c.
Proof.
  apply cmd_ind_nested.
  - intros c Hns fl st w l0 Hinv.
    destruct c; try (exfalso; eapply Hns; reflexivity); cbn [exec];
      try (destruct (in_range draw_range_fill f && in_range draw_range_border b);
           [apply paint_last; exact Hinv | exact Hinv]);
      unfold raise_ifc, rel_move, step, set_pen, set_scale, set_angle, set_attr;
      repeat match goal with
             | |- context [if ?b then _ else _] => destruct b
             | |- context [match offset ?s ?v with _ => _ end] => destruct (offset s v)
             end; cbn [fst snd]; try exact Hinv; apply last_inv_set; exact Hinv.
  - intros n body Hbody fl st w l0 Hinv. rewrite exec_sub.
    pose proof (run_last_of_Forall body Hbody fresh st w l0 Hinv) as H.
    destruct (run body fresh st) as [[st1 sg1] stat1]. cbn [fst] in H.
    destruct stat1; cbn [fst snd]; auto using last_inv_finish.
Qed.

Lemma run_last l fl st w l0 : last_inv w l0 st -> last_inv w l0 (fst (fst (run l fl st))).
Proof.
  apply run_last_of_Forall. apply Forall_forall. intros c _. apply exec_last_all.
Qed.

(* ------------------------------------------------------------------------------------------------ *)
(** * The DRAW statement *)

Lemma current_mk p l w sc an at_ b na asp os : current (mkG (Some p) l w sc an at_ b na asp os) = p.
Proof. reflexivity. Qed.

Definition dstate_of_g (g : gstate) : dstate :=
  mkD (current g) (g_last g) (g_window g) (g_scale g) (g_angle g) (g_attr g) (g_nattr g) (g_aspect g) (g_outcomes g).

Lemma draw_unfold g cmds : g_text g = false ->
  draw g cmds =
  let '(st, sg, stat) := run cmds fresh (dstate_of_g g) in
  let st' := match stat with Done => finish st | _ => st end in
  (mkG (Some (d_pen st')) (d_last st') (d_window st') (d_scale st') (d_angle st') (d_attr st') false
       (d_nattr st') (d_aspect st') (d_outcomes st'), sg, stat).
Proof. intros H. unfold draw. rewrite H. reflexivity. Qed.

Theorem draw_plan g cmds :
  g_text g = false -> paint_free cmds = true ->
  let r := draw g cmds in
  let pl := plan cmds fresh (pst_of_g g) in
  dr_status r = pl_status pl
  /\ current (dr_state r) = pen_after (current g) (pl_moves pl)
  /\ dr_reqs r = map RLine (segs_of (current g) (pl_moves pl))
  /\ g_scale (dr_state r) = p_scale (pl_pst pl) /\ g_attr (dr_state r) = p_attr (pl_pst pl)
  /\ g_angle (dr_state r) = p_angle (pl_pst pl).
Proof.
  intros Ht Haf. cbn zeta. rewrite (draw_unfold g cmds Ht).
  destruct (run cmds fresh (dstate_of_g g)) as [[st sg] stat] eqn:E.
  destruct (run_plan cmds Haf fresh _ _ _ _ E) as (ps & ms & Hp & Hps & Hw & Ho & Hpen & Hsg).
  change (pst_of (dstate_of_g g)) with (pst_of_g g) in Hp. rewrite Hp.
  cbn [d_pen dstate_of_g] in Hpen, Hsg.
  unfold dr_status, dr_state, dr_reqs, pl_status, pl_moves, pl_pst. cbn [fst snd].
  rewrite current_mk. cbn [g_scale g_attr g_angle].
  assert (Hfin : forall s, d_pen (finish s) = d_pen s /\ d_scale (finish s) = d_scale s
                           /\ d_attr (finish s) = d_attr s /\ d_angle (finish s) = d_angle s).
  { intros s. unfold finish. destruct (d_window s); cbn; auto. }
  subst ps. unfold pst_of. cbn [p_scale p_attr p_angle].
  destruct stat; repeat split; auto;
    try (destruct (Hfin st) as (F1 & F2 & F3 & F4); congruence).
Qed.

(* POINT(0) / POINT(1) after the statement are the pen; the last point follows unless WINDOW is active *)
Theorem draw_point_fn g cmds :
  g_text g = false ->
  let g' := dr_state (draw g cmds) in
  point_fn g' 0 = fst (current g') /\ point_fn g' 1 = snd (current g')
  /\ g_cur g' = Some (current g')
  /\ g_window g' = g_window g
  /\ (g_window g = true -> g_last g' = g_last g)
  /\ (g_window g = false -> dr_status (draw g cmds) = Done -> g_last g' = current g').
Proof.
  intros Ht. cbn zeta. rewrite (draw_unfold g cmds Ht).
  assert (Hinv0 : last_inv (g_window g) (g_last g) (dstate_of_g g)) by (split; auto).
  pose proof (run_last cmds fresh (dstate_of_g g) _ _ Hinv0) as Hinv.
  destruct (run cmds fresh (dstate_of_g g)) as [[st sg] stat]. cbn [fst] in Hinv.
  unfold dr_state, dr_status, point_fn, current. cbn [fst snd g_cur g_last g_window].
  assert (Hinv' : last_inv (g_window g) (g_last g) (match stat with Done => finish st | _ => st end)).
  { destruct stat; auto using last_inv_finish. }
  destruct Hinv' as [Hw Hl].
  repeat split; auto.
  intros Hnw Hd. subst stat. destruct Hinv as [Hw0 _]. unfold finish. rewrite Hw0, Hnw. reflexivity.
Qed.

(* range errors: Illegal function call, nothing drawn, nothing moved *)
Theorem range_errors fl st :
  (forall d n, in_range (-99999, 99999) n = false -> exec (Move d n) fl st = (fl, st, [], Raised 5))
  /\ (forall x y, in_range (-9999, 9999) x && in_range (-9999, 9999) y = false ->
        exec (MRel x y) fl st = (fl, st, [], Raised 5) /\ exec (MAbs x y) fl st = (fl, st, [], Raised 5))
  /\ (forall n, in_range (1, 255) n = false -> exec (SetScale n) fl st = (fl, st, [], Raised 5))
  /\ (forall n, in_range (-99999, 99999) n = false -> exec (SetColour n) fl st = (fl, st, [], Raised 5))
  /\ (forall n, in_range (0, 3) n = false -> exec (SetAngle n) fl st = (fl, st, [], Raised 5))
  /\ (forall n, in_range (-360, 360) n = false -> exec (TurnAngle n) fl st = (fl, st, [], Raised 5)).
Proof.
  repeat split; intros; cbn [exec];
    change draw_range_step with (-99999, 99999); change draw_range_x with (-9999, 9999);
    change draw_range_y with (-9999, 9999); change draw_range_scale with (1, 255);
    change draw_range_attr with (-99999, 99999); change draw_range_angle_a with (0, 3);
    change draw_range_angle_ta with (-360, 360); change draw_IFC with 5; unfold raise_ifc;
    rewrite H; reflexivity.
Qed.

(* the scale stays within 1..255, so the products of `scaled` stay exactly representable *)
Definition scale_inv (st : dstate) : Prop := 1 <= d_scale st <= 255.

Definition exec_scale (c : cmd) : Prop :=
  forall fl st, scale_inv st -> scale_inv (snd (fst (fst (exec c fl st)))).

Lemma run_scale_of_Forall l : Forall exec_scale l ->
  forall fl st, scale_inv st -> scale_inv (fst (fst (run l fl st))).
Proof.
  induction 1 as [|c l Hc Hl IH]; intros fl st Hinv; cbn [run]; [exact Hinv|].
  specialize (Hc fl st Hinv).
  destruct (exec c fl st) as [[[fl1 st1] sg1] stat1]. cbn [fst snd] in Hc.
  destruct stat1; cbn [fst]; auto.
  specialize (IH fl1 st1 Hc). destruct (run l fl1 st1) as [[st2 sg2] stat2]. exact IH.
Qed.

Lemma exec_scale_all : forall c, exec_scale c.
Proof.
  apply cmd_ind_nested.
  - intros c Hns fl st Hinv.
    destruct c; try (exfalso; eapply Hns; reflexivity); cbn [exec];
      unfold raise_ifc, rel_move, step, paint, set_pen, set_angle, set_attr, set_last, set_outcomes;
      try (destruct (in_range draw_range_scale n) eqn:Er;
           [unfold scale_inv, set_scale; cbn [fst snd d_scale];
            unfold in_range in Er; cbn [draw_range_scale fst snd] in Er; lia | exact Hinv]);
      repeat match goal with
             | |- context [if ?b then _ else _] => destruct b
             | |- context [match offset ?s ?v with _ => _ end] => destruct (offset s v)
             | |- context [match d_outcomes ?s with _ => _ end] => destruct (d_outcomes s)
             end; cbn [fst snd]; exact Hinv.
  - intros n body Hbody fl st Hinv. rewrite exec_sub.
    pose proof (run_scale_of_Forall body Hbody fresh st Hinv) as H.
    destruct (run body fresh st) as [[st1 sg1] stat1]. cbn [fst] in H.
    destruct stat1; cbn [fst snd]; auto.
    unfold scale_inv, finish in *. destruct (d_window st1); exact H.
Qed.

Lemma run_scale l fl st : scale_inv st -> scale_inv (fst (fst (run l fl st))).
Proof.
  apply run_scale_of_Forall. apply Forall_forall. intros c _. apply exec_scale_all.
Qed.

(* ------------------------------------------------------------------------------------------------ *)
(** * Reading the plan: what each command contributes *)

Lemma plan_cons_done c l fl ps fl' ps' ms :
  plan1 c fl ps = (fl', ps', ms, Done) ->
  plan (c :: l) fl ps = (pl_pst (plan l fl' ps'), ms ++ pl_moves (plan l fl' ps'), pl_status (plan l fl' ps')).
Proof.
  intros H. cbn [plan]. rewrite H. destruct (plan l fl' ps') as [[ps2 ms2] st2]. reflexivity.
Qed.

(* a one-letter move: the offset is count * unit vector * scale, divided by four and truncated toward zero,
   then turned by the angle; it draws unless B came before, stays unless N came before, and the prefixes
   are used up *)
Lemma plan_move d n l fl ps o : in_range (-99999, 99999) n = true ->
  turned (p_angle ps) (p_aspect ps)
         (Z.quot (p_scale ps * (n * fst (unit d))) 4, Z.quot (p_scale ps * (n * snd (unit d))) 4) = Some o ->
  plan (Move d n :: l) fl ps =
  (pl_pst (plan l fresh ps),
   mkmove false o (fst fl) (snd fl) (p_attr ps) :: pl_moves (plan l fresh ps),
   pl_status (plan l fresh ps)).
Proof.
  intros H Ht. erewrite plan_cons_done
    by (cbn [plan1]; rewrite H; unfold plan_rel, scaled; cbn [fst snd]; rewrite Ht; reflexivity).
  reflexivity.
Qed.

Lemma plan_mrel x y l fl ps o : in_range (-9999, 9999) x && in_range (-9999, 9999) y = true ->
  turned (p_angle ps) (p_aspect ps) (Z.quot (p_scale ps * x) 4, Z.quot (p_scale ps * y) 4) = Some o ->
  plan (MRel x y :: l) fl ps =
  (pl_pst (plan l fresh ps),
   mkmove false o (fst fl) (snd fl) (p_attr ps) :: pl_moves (plan l fresh ps),
   pl_status (plan l fresh ps)).
Proof.
  intros H Ht. erewrite plan_cons_done
    by (cbn [plan1]; rewrite H; unfold plan_rel, scaled; cbn [fst snd]; rewrite Ht; reflexivity).
  reflexivity.
Qed.

Lemma plan_mabs x y l fl ps : in_range (-9999, 9999) x && in_range (-9999, 9999) y = true ->
  plan (MAbs x y :: l) fl ps =
  (pl_pst (plan l fresh ps),
   mkmove true (x, y) (fst fl) (snd fl) (p_attr ps) :: pl_moves (plan l fresh ps),
   pl_status (plan l fresh ps)).
Proof.
  intros H. erewrite plan_cons_done by (cbn [plan1]; rewrite H; reflexivity). reflexivity.
Qed.

Lemma plan_prefix_B l fl ps : plan (PreB :: l) fl ps = plan l (false, snd fl) ps.
Proof. erewrite plan_cons_done; [|reflexivity]. destruct (plan l (false, snd fl) ps) as [[a b] c]. reflexivity. Qed.

Lemma plan_prefix_N l fl ps : plan (PreN :: l) fl ps = plan l (fst fl, true) ps.
Proof. erewrite plan_cons_done; [|reflexivity]. destruct (plan l (fst fl, true) ps) as [[a b] c]. reflexivity. Qed.

Lemma plan_scale n l fl ps : in_range (1, 255) n = true ->
  plan (SetScale n :: l) fl ps = plan l fl (set_p_scale ps n).
Proof.
  intros H. erewrite plan_cons_done; [|cbn [plan1]; rewrite H; reflexivity].
  destruct (plan l fl (set_p_scale ps n)) as [[a b] c]. reflexivity.
Qed.

Lemma plan_colour n l fl ps : in_range (-99999, 99999) n = true ->
  plan (SetColour n :: l) fl ps = plan l fl (set_p_attr ps (clamp_attr (p_nattr ps) n)).
Proof.
  intros H. erewrite plan_cons_done; [|cbn [plan1]; rewrite H; reflexivity].
  destruct (plan l fl (set_p_attr ps (clamp_attr (p_nattr ps) n))) as [[a b] c]. reflexivity.
Qed.

Lemma plan_angle n l fl ps : in_range (0, 3) n = true ->
  plan (SetAngle n :: l) fl ps = plan l fl (set_p_angle ps (90 * n)).
Proof.
  intros H. erewrite plan_cons_done; [|cbn [plan1]; rewrite H; reflexivity].
  destruct (plan l fl (set_p_angle ps (90 * n))) as [[a b] c]. reflexivity.
Qed.

Lemma plan_turn n l fl ps : in_range (-360, 360) n = true ->
  plan (TurnAngle n :: l) fl ps = plan l fl (set_p_angle ps n).
Proof.
  intros H. erewrite plan_cons_done; [|cbn [plan1]; rewrite H; reflexivity].
  destruct (plan l fl (set_p_angle ps n)) as [[a b] c]. reflexivity.
Qed.

(* X: the substring runs with fresh prefixes of its own; the caller's pending prefixes survive it *)
Lemma plan_sub name body l fl ps : pl_status (plan body fresh ps) = Done ->
  plan (Sub name body :: l) fl ps =
  (pl_pst (plan l fl (pl_pst (plan body fresh ps))),
   pl_moves (plan body fresh ps) ++ pl_moves (plan l fl (pl_pst (plan body fresh ps))),
   pl_status (plan l fl (pl_pst (plan body fresh ps)))).
Proof.
  intros H. destruct (plan body fresh ps) as [[a b] c] eqn:E. cbn in H. subst c.
  erewrite plan_cons_done by (rewrite plan1_sub, E; reflexivity). reflexivity.
Qed.

(* the turns: none, quarter turns through the aspect ratio, point reflection; every angle that is set by A
   is one of them *)
Lemma turned_cases asp v :
  turned 0 asp v = Some v /\ turned 360 asp v = Some v
  /\ turned 90 asp v = Some (mul_trunc (snd v) (yfac asp), - floor_div (fst v) (yfac asp))
  /\ turned 180 asp v = Some (- fst v, - snd v)
  /\ turned 270 asp v = Some (- mul_trunc (snd v) (yfac asp), floor_div (fst v) (yfac asp)).
Proof. repeat split; reflexivity. Qed.

Lemma turned_right a asp v : right_angle a = true -> turned a asp v <> None.
Proof.
  unfold right_angle, turned. intros H.
  destruct (a =? 0) eqn:E0; [cbn; discriminate|]. destruct (a =? 360) eqn:E360; [cbn; discriminate|].
  cbn [orb]. destruct (a =? 90); [discriminate|]. destruct (a =? 180); [discriminate|].
  destruct (a =? 270); [discriminate|]. cbn in H. discriminate.
Qed.

Lemma set_angle_right n : in_range (0, 3) n = true -> right_angle (90 * n) = true.
Proof.
  unfold in_range, right_angle. cbn [fst snd]. intros H.
  assert (n = 0 \/ n = 1 \/ n = 2 \/ n = 3) as [->|[->|[->| ->]]] by lia; reflexivity.
Qed.

(* ------------------------------------------------------------------------------------------------ *)
(** * Colours: what C and P store is an attribute of the mode, so every request carries attributes *)

Lemma draw_colour_spec na n : draw_colour na n = clamp_attr na n.
Proof. reflexivity. Qed.

Lemma clamp_attr_range na n : 1 <= na -> 0 <= clamp_attr na n < na.
Proof. unfold clamp_attr. lia. Qed.

Lemma clamp_attr_id na n : 0 <= n < na -> clamp_attr na n = n.
Proof. unfold clamp_attr. lia. Qed.

Definition attr_inv (na : Z) (st : dstate) : Prop := d_nattr st = na /\ 0 <= d_attr st < na.
Definition req_attr_ok (na : Z) (r : req) : Prop :=
  match r with
  | RLine s => 0 <= s_attr s < na
  | RPaint _ f b => 0 <= f < na /\ 0 <= b < na
  end.
Definition reqs_attr_ok (na : Z) (sg : list req) : Prop := Forall (req_attr_ok na) sg.

Definition exec_attr (c : cmd) : Prop :=
  forall fl st na, attr_inv na st ->
  attr_inv na (snd (fst (fst (exec c fl st)))) /\ reqs_attr_ok na (snd (fst (exec c fl st))).

Lemma run_attr_of_Forall l : Forall exec_attr l ->
  forall fl st na, attr_inv na st ->
  attr_inv na (fst (fst (run l fl st))) /\ reqs_attr_ok na (snd (fst (run l fl st))).
Proof.
  induction 1 as [|c l Hc Hl IH]; intros fl st na Hinv; cbn [run]; [split; [exact Hinv|constructor]|].
  specialize (Hc fl st na Hinv).
  destruct (exec c fl st) as [[[fl1 st1] sg1] stat1]. cbn [fst snd] in Hc. destruct Hc as [Hi1 Hs1].
  destruct stat1; cbn [fst snd]; auto.
  specialize (IH fl1 st1 na Hi1). destruct (run l fl1 st1) as [[st2 sg2] stat2]. cbn [fst snd] in *.
  destruct IH as [Hi2 Hs2]. split; [exact Hi2|]. apply Forall_app. split; assumption.
Qed.

Lemma step_attr st fl p1 na : attr_inv na st ->
  attr_inv na (fst (step st fl p1)) /\ reqs_attr_ok na (snd (step st fl p1)).
Proof.
  intros [H1 H2]. unfold step, set_pen. cbn [fst snd]. split; [split; cbn; assumption|].
  destruct (fst fl); constructor; [cbn; exact H2 | constructor].
Qed.

Lemma paint_attr st fl f b na : attr_inv na st ->
  attr_inv na (snd (fst (fst (paint st fl f b)))) /\ reqs_attr_ok na (snd (fst (paint st fl f b))).
Proof.
  intros Hinv. assert (Hnone : attr_inv na st /\ reqs_attr_ok na []) by (split; [exact Hinv|constructor]).
  unfold paint. destruct (d_window st); [exact Hnone|].
  destruct (in_int16 (fst (d_pen st)) && in_int16 (snd (d_pen st))); [|exact Hnone].
  destruct (d_outcomes st) as [|o os]; [exact Hnone|]. cbn [fst snd].
  destruct Hinv as [H1 H2]. assert (Hna : 1 <= na) by lia.
  pose proof (attr_index_range na f Hna) as Hf. pose proof (attr_index_range na b Hna) as Hb.
  rewrite H1. split.
  - destruct (o =? 0); [|destruct (o =? 1)]; split; cbn; auto.
  - constructor; [cbn; auto | constructor].
Qed.

Lemma exec_attr_all : forall c, exec_attr c.
Proof.
  apply cmd_ind_nested.
  - intros c Hns fl st na Hinv.
    assert (Hnone : attr_inv na st /\ reqs_attr_ok na []) by (split; [exact Hinv|constructor]).
    destruct c; try (exfalso; eapply Hns; reflexivity); cbn [exec]; unfold raise_ifc.
    + destruct (in_range draw_range_step n); [|exact Hnone]. unfold rel_move.
      destruct (offset st (dir_offset d n)) as [o|]; [|exact Hnone].
      pose proof (step_attr st fl (draw_endpoint (fst (d_pen st)) (snd (d_pen st)) (fst o) (snd o)) na Hinv) as H.
      destruct (step st fl _) as [st' sg]. exact H.
    + destruct (in_range draw_range_x x && in_range draw_range_y y); [|exact Hnone]. unfold rel_move.
      destruct (offset st (x, y)) as [o|]; [|exact Hnone].
      pose proof (step_attr st fl (draw_endpoint (fst (d_pen st)) (snd (d_pen st)) (fst o) (snd o)) na Hinv) as H.
      destruct (step st fl _) as [st' sg]. exact H.
    + destruct (in_range draw_range_x x && in_range draw_range_y y); [|exact Hnone].
      pose proof (step_attr st fl (x, y) na Hinv) as H. destruct (step st fl (x, y)) as [st' sg]. exact H.
    + exact Hnone.
    + exact Hnone.
    + destruct (in_range draw_range_scale n); [|exact Hnone]. cbn [fst snd]. split; [|constructor].
      destruct Hinv as [H1 H2]. split; cbn; assumption.
    + destruct (in_range draw_range_attr n); [|exact Hnone]. cbn [fst snd]. split; [|constructor].
      destruct Hinv as [H1 H2]. split; [exact H1|]. cbn [set_attr d_attr]. rewrite draw_colour_spec, H1.
      apply clamp_attr_range. lia.
    + destruct (in_range draw_range_angle_a n); [|exact Hnone]. cbn [fst snd]. split; [|constructor].
      destruct Hinv as [H1 H2]. split; cbn; assumption.
    + destruct (in_range draw_range_angle_ta n); [|exact Hnone]. cbn [fst snd]. split; [|constructor].
      destruct Hinv as [H1 H2]. split; cbn; assumption.
    + destruct (in_range draw_range_fill f && in_range draw_range_border b); [|exact Hnone].
      apply paint_attr. exact Hinv.
    + exact Hnone.
    + exact Hnone.
  - intros n body Hbody fl st na Hinv. rewrite exec_sub.
    pose proof (run_attr_of_Forall body Hbody fresh st na Hinv) as H.
    destruct (run body fresh st) as [[st1 sg1] stat1]. cbn [fst snd] in H. destruct H as [Hi Hs].
    destruct stat1; cbn [fst snd]; split; auto.
    destruct Hi as [H1 H2]. unfold finish. destruct (d_window st1); split; cbn; assumption.
Qed.

(* the DRAW statement: if the colour in force is an attribute of the mode (every statement that sets it
   clamps), it stays one and every request carries attributes: no pixel write can be out of range *)
Theorem draw_attr g cmds :
  0 <= g_attr g < g_nattr g ->
  0 <= g_attr (dr_state (draw g cmds)) < g_nattr g
  /\ g_nattr (dr_state (draw g cmds)) = g_nattr g
  /\ Forall (req_attr_ok (g_nattr g)) (dr_reqs (draw g cmds)).
Proof.
  intros Ha. destruct (g_text g) eqn:Ht.
  - unfold draw. rewrite Ht. unfold dr_state, dr_reqs. cbn [fst snd]. repeat split; try lia. constructor.
  - rewrite (draw_unfold g cmds Ht).
    assert (H0 : attr_inv (g_nattr g) (dstate_of_g g)) by (split; [reflexivity|exact Ha]).
    assert (Hall : Forall exec_attr cmds) by (apply Forall_forall; intros c _; apply exec_attr_all).
    pose proof (run_attr_of_Forall cmds Hall fresh (dstate_of_g g) _ H0) as H.
    destruct (run cmds fresh (dstate_of_g g)) as [[st sg] stat]. cbn [fst snd] in H. destruct H as [[H1 H2] Hs].
    unfold dr_state, dr_reqs. cbn [fst snd g_attr g_nattr].
    assert (Hf : d_attr (finish st) = d_attr st /\ d_nattr (finish st) = d_nattr st).
    { unfold finish. destruct (d_window st); split; reflexivity. }
    destruct Hf as [F1 F2]. destruct stat; rewrite ?F1, ?F2; repeat split; try lia; exact Hs.
Qed.

(* ------------------------------------------------------------------------------------------------ *)
(** * Histories of DRAW statements *)

(* everything the plan carries is what the statement leaves behind (also after an error) *)
Lemma draw_plan_pst g cmds : g_text g = false -> paint_free cmds = true ->
  pst_of_g (dr_state (draw g cmds)) = pl_pst (plan cmds fresh (pst_of_g g))
  /\ g_text (dr_state (draw g cmds)) = false
  /\ g_cur (dr_state (draw g cmds)) = Some (current (dr_state (draw g cmds))).
Proof.
  intros Ht Haf. rewrite (draw_unfold g cmds Ht).
  destruct (run cmds fresh (dstate_of_g g)) as [[st sg] stat] eqn:E.
  destruct (run_plan cmds Haf fresh _ _ _ _ E) as (ps & ms & Hp & Hps & _).
  change (pst_of (dstate_of_g g)) with (pst_of_g g) in Hp. rewrite Hp.
  unfold dr_state, pl_pst, pst_of_g. cbn [fst snd g_scale g_attr g_nattr g_angle g_aspect g_text g_cur].
  rewrite current_mk. subst ps. unfold pst_of.
  assert (Hfin : pst_of (finish st) = pst_of st) by (unfold finish, pst_of; destruct (d_window st); reflexivity).
  unfold pst_of in Hfin. destruct stat; repeat split; auto.
Qed.

Theorem history_plan : forall ss g,
  g_text g = false -> forallb stmt_paint_free ss = true ->
  current (history g ss) = pen_after (current g) (snd (hist_plan (pst_of_g g) ss))
  /\ pst_of_g (history g ss) = fst (hist_plan (pst_of_g g) ss)
  /\ g_text (history g ss) = false.
Proof.
  induction ss as [|s ss IH]; intros g Ht Hpf.
  - cbn. auto.
  - cbn [forallb] in Hpf. apply andb_true_iff in Hpf as [Hs Hpf]. unfold history in *. cbn [fold_left].
    destruct s as [c|b]; cbn [do_stmt hist_plan stmt_paint_free] in *.
    + destruct (draw_plan g c Ht Hs) as (_ & Hpen & _).
      destruct (draw_plan_pst g c Ht Hs) as (Hps & Ht' & _).
      unfold dr_state in *. 
      destruct (IH (fst (fst (draw g c))) Ht' Hpf) as (I1 & I2 & I3).
      rewrite Hps in I1, I2. unfold pl_pst, pl_moves in *.
      destruct (hist_plan (fst (fst (plan c fresh (pst_of_g g)))) ss) as [ps' ms] eqn:Eh.
      cbn [fst snd] in *. rewrite I1, Hpen, pen_after_app. auto.
    + assert (Hc : current (set_window g b) = current g) by reflexivity.
      assert (Hp : pst_of_g (set_window g b) = pst_of_g g) by reflexivity.
      destruct (IH (set_window g b) Ht Hpf) as (I1 & I2 & I3). rewrite Hc, Hp in *. auto.
Qed.
