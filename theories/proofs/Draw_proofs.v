(* C33: the DRAW interpreter moves the pen as the position-free plan says (interpreter part).
   The printer/reader part is in Draw_parse_proofs.v. *)
From Coq Require Import ZArith List Bool Lia ZifyBool.
From PCB Require Import lib.Result lib.PyInt lib.Harness gen.Gen_draw model.Draw.
Import ListNotations.
Open Scope Z_scope.

(* ------------------------------------------------------------------------------------------------ *)
(** * Induction over commands with nested X bodies *)

Section cmd_ind_nested.
  Variable P : cmd -> Prop.
  Hypothesis Hflat : forall c, (forall n b, c <> Sub n b) -> P c.
  Hypothesis Hsub : forall n body, Forall P body -> P (Sub n body).

  Fixpoint cmd_ind_nested (c : cmd) : P c :=
    match c as c0 return P c0 with
    | Sub n body =>
        Hsub n body ((fix go (l : list cmd) : Forall P l :=
                        match l with
                        | [] => Forall_nil P
                        | c :: r => Forall_cons c (cmd_ind_nested c) (go r)
                        end) body)
    | Move d n => Hflat (Move d n) (fun n0 b H => ltac:(discriminate H))
    | MRel x y => Hflat (MRel x y) (fun n0 b H => ltac:(discriminate H))
    | MAbs x y => Hflat (MAbs x y) (fun n0 b H => ltac:(discriminate H))
    | PreB => Hflat PreB (fun n0 b H => ltac:(discriminate H))
    | PreN => Hflat PreN (fun n0 b H => ltac:(discriminate H))
    | SetScale n => Hflat (SetScale n) (fun n0 b H => ltac:(discriminate H))
    | SetColour n => Hflat (SetColour n) (fun n0 b H => ltac:(discriminate H))
    | SetAngle n => Hflat (SetAngle n) (fun n0 b H => ltac:(discriminate H))
    | TurnAngle n => Hflat (TurnAngle n) (fun n0 b H => ltac:(discriminate H))
    | Fail e => Hflat (Fail e) (fun n0 b H => ltac:(discriminate H))
    | Unsupported => Hflat Unsupported (fun n0 b H => ltac:(discriminate H))
    end.
End cmd_ind_nested.

(* the nested loops are the top-level ones *)
Lemma exec_sub n body fl st :
  exec (Sub n body) fl st =
  let '(st', sg, stat) := run body fresh st in
  match stat with
  | Done => (fl, finish st', sg, Done)
  | _ => (fl, st', sg, stat)
  end.
Proof. reflexivity. Qed.

Lemma plan1_sub n body fl ps :
  plan1 (Sub n body) fl ps = let '(ps', ms, stat) := plan body fresh ps in (fl, ps', ms, stat).
Proof. reflexivity. Qed.

Lemma angle_free1_sub n body : angle_free1 (Sub n body) = angle_free body.
Proof. reflexivity. Qed.

(* ------------------------------------------------------------------------------------------------ *)
(** * The regenerated arithmetic is the arithmetic of the specification *)

Lemma dir_offset_unit d n : dir_offset d n = (n * fst (unit d), n * snd (unit d)).
Proof.
  destruct d; unfold dir_offset, draw_dir_offset, dir_byte, unit; cbn [Z.eqb Pos.eqb orb fst snd];
    f_equal; lia.
Qed.

Lemma draw_scaled_spec sc v : draw_scaled sc (fst v) (snd v) = scaled sc v.
Proof. reflexivity. Qed.

Lemma draw_endpoint_padd p o : draw_endpoint (fst p) (snd p) (fst o) (snd o) = padd p o.
Proof. unfold draw_endpoint, padd. f_equal; lia. Qed.

Lemma offset_angle0 st v : d_angle st = 0 -> offset st v = Some (scaled (d_scale st) v).
Proof.
  intros H. unfold offset. rewrite draw_scaled_spec. unfold scaled. rewrite H. reflexivity.
Qed.

(* the generated limits are the limits the specification names *)
Lemma ranges_spec :
  draw_range_step = (-99999, 99999) /\ draw_range_x = (-9999, 9999) /\ draw_range_y = (-9999, 9999)
  /\ draw_range_scale = (1, 255) /\ draw_range_attr = (-99999, 99999) /\ draw_IFC = 5.
Proof. repeat split; reflexivity. Qed.

(* the translator's idiom int(math.trunc(E / 4.)) = Z.quot E 4 needs |E| < 2^53: it is so for every
   product the range checks admit *)
Lemma scaled_product_small sc v :
  1 <= sc <= 255 -> in_range (-99999, 99999) v = true -> Z.abs (sc * v) < 2 ^ 53.
Proof.
  intros Hs Hv. unfold in_range in Hv. cbn [fst snd] in Hv.
  assert (Z.abs (sc * v) <= 255 * 99999) by nia. lia.
Qed.

(* ------------------------------------------------------------------------------------------------ *)
(** * Walking a list of moves *)

Lemma pen_after_app p ms ms' : pen_after p (ms ++ ms') = pen_after (pen_after p ms) ms'.
Proof. revert p; induction ms as [|m ms IH]; intros p; cbn [pen_after app]; auto. Qed.

Lemma segs_of_app p ms ms' : segs_of p (ms ++ ms') = segs_of p ms ++ segs_of (pen_after p ms) ms'.
Proof.
  revert p; induction ms as [|m ms IH]; intros p; cbn [pen_after segs_of app]; auto.
  rewrite IH, app_assoc. reflexivity.
Qed.

Lemma padd_0_r p : padd p (0, 0) = p.
Proof. destruct p; unfold padd; cbn [fst snd]; f_equal; lia. Qed.

Lemma padd_assoc p q r : padd (padd p q) r = padd p (padd q r).
Proof. unfold padd; cbn [fst snd]; f_equal; lia. Qed.

(* without an absolute move that stays: start + sum of the offsets of the moves not undone by N *)
Lemma pen_after_sum ms : forall p, no_abs ms = true -> pen_after p ms = padd p (vsum (rel_offsets ms)).
Proof.
  induction ms as [|m ms IH]; intros p H.
  - cbn. rewrite padd_0_r. reflexivity.
  - unfold no_abs in H. cbn [forallb] in H. apply andb_true_iff in H as [Hm H].
    cbn [pen_after]. rewrite IH by exact H.
    unfold rel_offsets, next, target, stays in *. cbn [filter].
    destruct (m_back m); cbn [negb map vsum fold_right].
    + reflexivity.
    + destruct (m_abs m); [discriminate|]. rewrite padd_assoc. reflexivity.
Qed.

(* an absolute move that stays sets the position; what follows is added to its target *)
Lemma pen_after_abs ms1 m ms2 p :
  m_abs m = true -> m_back m = false -> no_abs ms2 = true ->
  pen_after p (ms1 ++ m :: ms2) = padd (m_vec m) (vsum (rel_offsets ms2)).
Proof.
  intros Ha Hb H2. rewrite pen_after_app. cbn [pen_after].
  rewrite pen_after_sum by exact H2. unfold next, target. rewrite Ha, Hb. reflexivity.
Qed.

(* N: the move does not change the position *)
Lemma pen_after_back ms1 m ms2 p :
  m_back m = true -> pen_after p (ms1 ++ m :: ms2) = pen_after p (ms1 ++ ms2).
Proof. intros H. rewrite !pen_after_app. cbn [pen_after]. unfold next. rewrite H. reflexivity. Qed.

Lemma positions_length p ms : length (positions p ms) = length ms.
Proof. revert p; induction ms; intros; cbn; auto. Qed.

Lemma positions_nth ms : forall p i, (i < length ms)%nat ->
  nth i (positions p ms) (0, 0) = pen_after p (firstn i ms).
Proof.
  induction ms as [|m ms IH]; intros p i Hi; cbn [length] in Hi; [lia|].
  destruct i; cbn [positions nth firstn pen_after]; [reflexivity|]. apply IH. lia.
Qed.

(* the segments are the lines (position before the move, target of the move) of the moves that draw *)
Lemma segs_of_positions ms : forall p,
  segs_of p ms =
  map (fun qm => mkseg (fst qm) (target (fst qm) (snd qm)) (m_attr (snd qm)))
      (filter (fun qm => m_plot (snd qm)) (combine (positions p ms) ms)).
Proof.
  induction ms as [|m ms IH]; intros p; cbn [segs_of positions combine filter map]; [reflexivity|].
  cbn [snd fst]. rewrite IH. destruct (m_plot m); reflexivity.
Qed.

(* ------------------------------------------------------------------------------------------------ *)
(** * exec / run refine plan1 / plan *)

Definition pst_of (st : dstate) : pst := mkP (d_scale st) (d_attr st) (d_nattr st).

(* what one command (resp. one activation) guarantees *)
Definition exec_ok (c : cmd) : Prop :=
  angle_free1 c = true -> forall fl st, d_angle st = 0 ->
  forall fl' st' sg stat, exec c fl st = (fl', st', sg, stat) ->
  exists ps' ms,
    plan1 c fl (pst_of st) = (fl', ps', ms, stat) /\ pst_of st' = ps' /\ d_angle st' = 0
    /\ d_window st' = d_window st
    /\ d_pen st' = pen_after (d_pen st) ms /\ sg = segs_of (d_pen st) ms.

Definition run_ok (l : list cmd) : Prop :=
  angle_free l = true -> forall fl st, d_angle st = 0 ->
  forall st' sg stat, run l fl st = (st', sg, stat) ->
  exists ps' ms,
    plan l fl (pst_of st) = (ps', ms, stat) /\ pst_of st' = ps' /\ d_angle st' = 0
    /\ d_window st' = d_window st
    /\ d_pen st' = pen_after (d_pen st) ms /\ sg = segs_of (d_pen st) ms.

Lemma run_ok_of_Forall l : Forall exec_ok l -> run_ok l.
Proof.
  induction 1 as [|c l Hc Hl IH]; intros Haf fl st Hang st' sg stat Hrun.
  - cbn in Hrun. inversion Hrun; subst. exists (pst_of st'), []. cbn. auto 10.
  - cbn [angle_free] in Haf. apply andb_true_iff in Haf as [Haf1 Haf].
    cbn [run] in Hrun.
    destruct (exec c fl st) as [[[fl1 st1] sg1] stat1] eqn:E1.
    destruct (Hc Haf1 fl st Hang _ _ _ _ E1) as (ps1 & ms1 & Hp1 & Hps1 & Hang1 & Hw1 & Hpen1 & Hsg1).
    cbn [plan]. rewrite Hp1.
    destruct stat1.
    + destruct (run l fl1 st1) as [[st2 sg2] stat2] eqn:E2.
      inversion Hrun; subst st' sg stat. clear Hrun.
      destruct (IH Haf fl1 st1 Hang1 _ _ _ E2) as (ps2 & ms2 & Hp2 & Hps2 & Hang2 & Hw2 & Hpen2 & Hsg2).
      rewrite <- Hps1, Hp2. exists ps2, (ms1 ++ ms2).
      repeat split; auto.
      * congruence.
      * rewrite pen_after_app, <- Hpen1. exact Hpen2.
      * rewrite segs_of_app, <- Hpen1, <- Hsg1, <- Hsg2. reflexivity.
    + inversion Hrun; subst st' sg stat. exists ps1, ms1. auto 10.
    + inversion Hrun; subst st' sg stat. exists ps1, ms1. auto 10.
Qed.

Lemma in_range_ranges :
  (forall v, in_range draw_range_step v = in_range (-99999, 99999) v)
  /\ (forall v, in_range draw_range_x v = in_range (-9999, 9999) v)
  /\ (forall v, in_range draw_range_y v = in_range (-9999, 9999) v)
  /\ (forall v, in_range draw_range_scale v = in_range (1, 255) v)
  /\ (forall v, in_range draw_range_attr v = in_range (-99999, 99999) v).
Proof. repeat split; reflexivity. Qed.

Lemma rel_move_angle0 st fl v : d_angle st = 0 ->
  rel_move st fl v =
  (fresh, set_pen st (if snd fl then d_pen st else padd (d_pen st) (scaled (d_scale st) v)),
   if fst fl then [mkseg (d_pen st) (padd (d_pen st) (scaled (d_scale st) v)) (d_attr st)] else [], Done).
Proof.
  intros H. unfold rel_move. rewrite offset_angle0 by exact H. rewrite draw_endpoint_padd.
  unfold step. reflexivity.
Qed.

(* a single move against its plan entry *)
Lemma move_facts st fl ab v :
  let m := mkmove ab v (fst fl) (snd fl) (d_attr st) in
  let p1 := if ab then v else padd (d_pen st) v in
  d_pen (set_pen st (if snd fl then d_pen st else p1)) = pen_after (d_pen st) [m]
  /\ (if fst fl then [mkseg (d_pen st) p1 (d_attr st)] else []) = segs_of (d_pen st) [m].
Proof.
  cbn. unfold next, target. cbn [m_abs m_back m_vec m_plot m_attr].
  split.
  - destruct (snd fl), ab; reflexivity.
  - destruct (fst fl), ab; cbn; rewrite ?app_nil_r; reflexivity.
Qed.

Lemma exec_ok_all : forall c, exec_ok c.
Proof.
  apply cmd_ind_nested.
  - intros c Hns. unfold exec_ok. intros Haf fl st Hang fl' st' sg stat Hex.
    destruct c; try (exfalso; eapply Hns; reflexivity); cbn [angle_free1] in Haf; try discriminate.
    + (* Move *)
      cbn [exec plan1] in *. change draw_range_step with (-99999, 99999) in Hex.
      destruct (in_range (-99999, 99999) n) eqn:Er.
      * rewrite rel_move_angle0 in Hex by exact Hang. rewrite (dir_offset_unit d n) in Hex.
        inversion Hex; subst. clear Hex.
        eexists; eexists. split; [reflexivity|].
        pose proof (move_facts st fl false (scaled (d_scale st) (n * fst (unit d), n * snd (unit d)))) as [F1 F2].
        cbn zeta in F1, F2. repeat split; auto.
      * unfold raise_ifc in Hex. inversion Hex; subst. eexists; eexists. split; [reflexivity|]. cbn. auto 10.
    + (* MRel *)
      cbn [exec plan1] in *. change draw_range_x with (-9999, 9999) in Hex. change draw_range_y with (-9999, 9999) in Hex.
      destruct (in_range (-9999, 9999) x && in_range (-9999, 9999) y) eqn:Er.
      * rewrite rel_move_angle0 in Hex by exact Hang.
        inversion Hex; subst. clear Hex.
        eexists; eexists. split; [reflexivity|].
        pose proof (move_facts st fl false (scaled (d_scale st) (x, y))) as [F1 F2].
        cbn zeta in F1, F2. repeat split; auto.
      * unfold raise_ifc in Hex. inversion Hex; subst. eexists; eexists. split; [reflexivity|]. cbn. auto 10.
    + (* MAbs *)
      cbn [exec plan1] in *. change draw_range_x with (-9999, 9999) in Hex. change draw_range_y with (-9999, 9999) in Hex.
      destruct (in_range (-9999, 9999) x && in_range (-9999, 9999) y) eqn:Er.
      * unfold step in Hex. inversion Hex; subst. clear Hex.
        eexists; eexists. split; [reflexivity|].
        pose proof (move_facts st fl true (x, y)) as [F1 F2].
        cbn zeta in F1, F2. repeat split; auto.
      * unfold raise_ifc in Hex. inversion Hex; subst. eexists; eexists. split; [reflexivity|]. cbn. auto 10.
    + (* B *) cbn in Hex. inversion Hex; subst. eexists; eexists. split; [reflexivity|]. cbn. auto 10.
    + (* N *) cbn in Hex. inversion Hex; subst. eexists; eexists. split; [reflexivity|]. cbn. auto 10.
    + (* S *)
      cbn [exec plan1] in *. change draw_range_scale with (1, 255) in Hex. destruct (in_range (1, 255) n) eqn:Er.
      * inversion Hex; subst. eexists; eexists. split; [reflexivity|]. cbn. auto 10.
      * unfold raise_ifc in Hex. inversion Hex; subst. eexists; eexists. split; [reflexivity|]. cbn. auto 10.
    + (* C *)
      cbn [exec plan1] in *. change draw_range_attr with (-99999, 99999) in Hex. destruct (in_range (-99999, 99999) n) eqn:Er.
      * inversion Hex; subst. eexists; eexists. split; [reflexivity|]. cbn. auto 10.
      * unfold raise_ifc in Hex. inversion Hex; subst. eexists; eexists. split; [reflexivity|]. cbn. auto 10.
    + (* Fail *) cbn in Hex. inversion Hex; subst. eexists; eexists. split; [reflexivity|]. cbn. auto 10.
    + (* Unsupported *) cbn in Hex. inversion Hex; subst. eexists; eexists. split; [reflexivity|]. cbn. auto 10.
  - intros n body Hbody. unfold exec_ok. intros Haf fl st Hang fl' st' sg stat Hex.
    rewrite angle_free1_sub in Haf. rewrite exec_sub in Hex. rewrite plan1_sub.
    destruct (run body fresh st) as [[st1 sg1] stat1] eqn:E1.
    destruct (run_ok_of_Forall body Hbody Haf fresh st Hang _ _ _ E1)
      as (ps1 & ms1 & Hp1 & Hps1 & Hang1 & Hw1 & Hpen1 & Hsg1).
    rewrite Hp1. exists ps1, ms1.
    destruct stat1; inversion Hex; subst; clear Hex; repeat split; auto.
    + unfold finish, pst_of. destruct (d_window st1); reflexivity.
    + unfold finish. destruct (d_window st1); exact Hang1.
    + unfold finish. destruct (d_window st1) eqn:Ew; cbn [d_window]; congruence.
    + unfold finish. destruct (d_window st1); exact Hpen1.
Qed.

Theorem run_plan : forall l, run_ok l.
Proof.
  intros l. apply run_ok_of_Forall. apply Forall_forall. intros c _. apply exec_ok_all.
Qed.

(* ------------------------------------------------------------------------------------------------ *)
(** * The last point (the position other graphics statements continue from) *)

Definition last_inv (w : bool) (l0 : pt) (st : dstate) : Prop :=
  d_window st = w /\ (w = true -> d_last st = l0).

Definition exec_last (c : cmd) : Prop :=
  forall fl st w l0, last_inv w l0 st ->
  last_inv w l0 (snd (fst (fst (exec c fl st)))).

Lemma last_inv_set st w l0 p sc an at_ na :
  last_inv w l0 st -> last_inv w l0 (mkD p (d_last st) (d_window st) sc an at_ na).
Proof. intros [H1 H2]. split; cbn; auto. Qed.

Lemma last_inv_finish st w l0 : last_inv w l0 st -> last_inv w l0 (finish st).
Proof.
  intros [H1 H2]. unfold finish. destruct (d_window st) eqn:E.
  - split; [rewrite E; exact H1 | exact H2].
  - split; cbn [d_window d_last]; [exact H1|]. intros Hw. congruence.
Qed.

Lemma run_last_of_Forall l : Forall exec_last l ->
  forall fl st w l0, last_inv w l0 st -> last_inv w l0 (fst (fst (run l fl st))).
Proof.
  induction 1 as [|c l Hc Hl IH]; intros fl st w l0 Hinv; cbn [run]; [exact Hinv|].
  specialize (Hc fl st w l0 Hinv).
  destruct (exec c fl st) as [[[fl1 st1] sg1] stat1]. cbn [fst snd] in Hc.
  destruct stat1; cbn [fst]; auto.
  specialize (IH fl1 st1 w l0 Hc). destruct (run l fl1 st1) as [[st2 sg2] stat2]. exact IH.
Qed.

Lemma exec_last_all : forall c, exec_last c.
Proof.
  apply cmd_ind_nested.
  - intros c Hns fl st w l0 Hinv.
    destruct c; try (exfalso; eapply Hns; reflexivity); cbn [exec];
      unfold raise_ifc, rel_move, step, set_pen, set_scale, set_angle, set_attr;
      repeat match goal with
             | |- context [if ?b then _ else _] => destruct b
             | |- context [match offset ?s ?v with _ => _ end] => destruct (offset s v)
             end; cbn [fst snd]; try exact Hinv; apply last_inv_set; exact Hinv.
  - intros n body Hbody fl st w l0 Hinv. rewrite exec_sub.
    pose proof (run_last_of_Forall body Hbody fresh st w l0 Hinv) as H.
    destruct (run body fresh st) as [[st1 sg1] stat1]. cbn [fst] in H.
    destruct stat1; cbn [fst snd]; auto using last_inv_finish.
Qed.

Lemma run_last l fl st w l0 : last_inv w l0 st -> last_inv w l0 (fst (fst (run l fl st))).
Proof.
  apply run_last_of_Forall. apply Forall_forall. intros c _. apply exec_last_all.
Qed.

(* ------------------------------------------------------------------------------------------------ *)
(** * The DRAW statement *)

Lemma current_mk p l w sc an at_ b na : current (mkG (Some p) l w sc an at_ b na) = p.
Proof. reflexivity. Qed.

Theorem draw_plan g cmds :
  g_text g = false -> g_angle g = 0 -> angle_free cmds = true ->
  let r := draw g cmds in
  let pl := plan cmds fresh (mkP (g_scale g) (g_attr g) (g_nattr g)) in
  dr_status r = pl_status pl
  /\ current (dr_state r) = pen_after (current g) (pl_moves pl)
  /\ dr_segs r = segs_of (current g) (pl_moves pl)
  /\ g_scale (dr_state r) = p_scale (pl_pst pl) /\ g_attr (dr_state r) = p_attr (pl_pst pl)
  /\ g_angle (dr_state r) = 0.
Proof.
  intros Ht Ha Haf. cbn zeta. unfold draw. rewrite Ht.
  set (st0 := mkD (current g) (g_last g) (g_window g) (g_scale g) (g_angle g) (g_attr g) (g_nattr g)).
  destruct (run cmds fresh st0) as [[st sg] stat] eqn:E.
  destruct (run_plan cmds Haf fresh st0 Ha _ _ _ E) as (ps & ms & Hp & Hps & Hang & Hw & Hpen & Hsg).
  unfold pst_of in Hp. cbn [d_scale d_attr d_nattr st0] in Hp. rewrite Hp.
  subst st0. cbn [d_pen d_window] in Hpen, Hsg, Hw.
  unfold dr_status, dr_state, dr_segs, pl_status, pl_moves, pl_pst. cbn [fst snd].
  rewrite current_mk. cbn [g_scale g_attr g_angle].
  assert (Hfin : forall s, d_pen (finish s) = d_pen s /\ d_scale (finish s) = d_scale s
                           /\ d_attr (finish s) = d_attr s /\ d_angle (finish s) = d_angle s).
  { intros s. unfold finish. destruct (d_window s); cbn; auto. }
  subst ps. unfold pst_of. cbn [p_scale p_attr].
  destruct stat; repeat split; auto;
    try (destruct (Hfin st) as (F1 & F2 & F3 & F4); congruence).
Qed.

(* POINT(0) / POINT(1) after the statement are the pen; the last point follows unless WINDOW is active *)
Theorem draw_point_fn g cmds :
  g_text g = false ->
  let g' := dr_state (draw g cmds) in
  point_fn g' 0 = fst (current g') /\ point_fn g' 1 = snd (current g')
  /\ g_cur g' = Some (current g')
  /\ g_window g' = g_window g
  /\ (g_window g = true -> g_last g' = g_last g)
  /\ (g_window g = false -> dr_status (draw g cmds) = Done -> g_last g' = current g').
Proof.
  intros Ht. cbn zeta. unfold draw. rewrite Ht.
  set (st0 := mkD (current g) (g_last g) (g_window g) (g_scale g) (g_angle g) (g_attr g) (g_nattr g)).
  assert (Hinv0 : last_inv (g_window g) (g_last g) st0) by (split; auto).
  pose proof (run_last cmds fresh st0 _ _ Hinv0) as Hinv.
  destruct (run cmds fresh st0) as [[st sg] stat]. cbn [fst] in Hinv.
  unfold dr_state, dr_status, point_fn, current. cbn [fst snd g_cur g_last g_window].
  assert (Hinv' : last_inv (g_window g) (g_last g) (match stat with Done => finish st | _ => st end)).
  { destruct stat; auto using last_inv_finish. }
  destruct Hinv' as [Hw Hl].
  repeat split; auto.
  intros Hnw Hd. subst stat. destruct Hinv as [Hw0 _]. unfold finish. rewrite Hw0, Hnw. reflexivity.
Qed.

(* range errors: Illegal function call, nothing drawn, nothing moved *)
Theorem range_errors fl st :
  (forall d n, in_range (-99999, 99999) n = false -> exec (Move d n) fl st = (fl, st, [], Raised 5))
  /\ (forall x y, in_range (-9999, 9999) x && in_range (-9999, 9999) y = false ->
        exec (MRel x y) fl st = (fl, st, [], Raised 5) /\ exec (MAbs x y) fl st = (fl, st, [], Raised 5))
  /\ (forall n, in_range (1, 255) n = false -> exec (SetScale n) fl st = (fl, st, [], Raised 5))
  /\ (forall n, in_range (-99999, 99999) n = false -> exec (SetColour n) fl st = (fl, st, [], Raised 5)).
Proof.
  repeat split; intros; cbn [exec];
    change draw_range_step with (-99999, 99999); change draw_range_x with (-9999, 9999);
    change draw_range_y with (-9999, 9999); change draw_range_scale with (1, 255);
    change draw_range_attr with (-99999, 99999); change draw_IFC with 5; unfold raise_ifc;
    rewrite H; reflexivity.
Qed.

(* the scale stays within 1..255, so the products of `scaled` stay exactly representable *)
Definition scale_inv (st : dstate) : Prop := 1 <= d_scale st <= 255.

Definition exec_scale (c : cmd) : Prop :=
  forall fl st, scale_inv st -> scale_inv (snd (fst (fst (exec c fl st)))).

Lemma run_scale_of_Forall l : Forall exec_scale l ->
  forall fl st, scale_inv st -> scale_inv (fst (fst (run l fl st))).
Proof.
  induction 1 as [|c l Hc Hl IH]; intros fl st Hinv; cbn [run]; [exact Hinv|].
  specialize (Hc fl st Hinv).
  destruct (exec c fl st) as [[[fl1 st1] sg1] stat1]. cbn [fst snd] in Hc.
  destruct stat1; cbn [fst]; auto.
  specialize (IH fl1 st1 Hc). destruct (run l fl1 st1) as [[st2 sg2] stat2]. exact IH.
Qed.

Lemma exec_scale_all : forall c, exec_scale c.
Proof.
  apply cmd_ind_nested.
  - intros c Hns fl st Hinv.
    destruct c; try (exfalso; eapply Hns; reflexivity); cbn [exec];
      unfold raise_ifc, rel_move, step, set_pen, set_angle, set_attr;
      try (destruct (in_range draw_range_scale n) eqn:Er;
           [unfold scale_inv, set_scale; cbn [fst snd d_scale];
            unfold in_range in Er; cbn [draw_range_scale fst snd] in Er; lia | exact Hinv]);
      repeat match goal with
             | |- context [if ?b then _ else _] => destruct b
             | |- context [match offset ?s ?v with _ => _ end] => destruct (offset s v)
             end; cbn [fst snd]; exact Hinv.
  - intros n body Hbody fl st Hinv. rewrite exec_sub.
    pose proof (run_scale_of_Forall body Hbody fresh st Hinv) as H.
    destruct (run body fresh st) as [[st1 sg1] stat1]. cbn [fst] in H.
    destruct stat1; cbn [fst snd]; auto.
    unfold scale_inv, finish in *. destruct (d_window st1); exact H.
Qed.

Lemma run_scale l fl st : scale_inv st -> scale_inv (fst (fst (run l fl st))).
Proof.
  apply run_scale_of_Forall. apply Forall_forall. intros c _. apply exec_scale_all.
Qed.

(* ------------------------------------------------------------------------------------------------ *)
(** * Reading the plan: what each command contributes *)

Lemma plan_cons_done c l fl ps fl' ps' ms :
  plan1 c fl ps = (fl', ps', ms, Done) ->
  plan (c :: l) fl ps = (pl_pst (plan l fl' ps'), ms ++ pl_moves (plan l fl' ps'), pl_status (plan l fl' ps')).
Proof.
  intros H. cbn [plan]. rewrite H. destruct (plan l fl' ps') as [[ps2 ms2] st2]. reflexivity.
Qed.

(* a one-letter move: the offset is count * unit vector * scale, divided by four and truncated toward zero;
   it draws unless B came before, stays unless N came before, and the prefixes are used up *)
Lemma plan_move d n l fl ps : in_range (-99999, 99999) n = true ->
  plan (Move d n :: l) fl ps =
  (pl_pst (plan l fresh ps),
   mkmove false (Z.quot (p_scale ps * (n * fst (unit d))) 4, Z.quot (p_scale ps * (n * snd (unit d))) 4)
          (fst fl) (snd fl) (p_attr ps) :: pl_moves (plan l fresh ps),
   pl_status (plan l fresh ps)).
Proof.
  intros H. erewrite plan_cons_done by (cbn [plan1]; rewrite H; reflexivity). reflexivity.
Qed.

Lemma plan_mrel x y l fl ps : in_range (-9999, 9999) x && in_range (-9999, 9999) y = true ->
  plan (MRel x y :: l) fl ps =
  (pl_pst (plan l fresh ps),
   mkmove false (Z.quot (p_scale ps * x) 4, Z.quot (p_scale ps * y) 4) (fst fl) (snd fl) (p_attr ps)
     :: pl_moves (plan l fresh ps),
   pl_status (plan l fresh ps)).
Proof.
  intros H. erewrite plan_cons_done by (cbn [plan1]; rewrite H; reflexivity). reflexivity.
Qed.

Lemma plan_mabs x y l fl ps : in_range (-9999, 9999) x && in_range (-9999, 9999) y = true ->
  plan (MAbs x y :: l) fl ps =
  (pl_pst (plan l fresh ps),
   mkmove true (x, y) (fst fl) (snd fl) (p_attr ps) :: pl_moves (plan l fresh ps),
   pl_status (plan l fresh ps)).
Proof.
  intros H. erewrite plan_cons_done by (cbn [plan1]; rewrite H; reflexivity). reflexivity.
Qed.

Lemma plan_prefix_B l fl ps : plan (PreB :: l) fl ps = plan l (false, snd fl) ps.
Proof. erewrite plan_cons_done; [|reflexivity]. destruct (plan l (false, snd fl) ps) as [[a b] c]. reflexivity. Qed.

Lemma plan_prefix_N l fl ps : plan (PreN :: l) fl ps = plan l (fst fl, true) ps.
Proof. erewrite plan_cons_done; [|reflexivity]. destruct (plan l (fst fl, true) ps) as [[a b] c]. reflexivity. Qed.

Lemma plan_scale n l fl ps : in_range (1, 255) n = true ->
  plan (SetScale n :: l) fl ps = plan l fl (mkP n (p_attr ps) (p_nattr ps)).
Proof.
  intros H. erewrite plan_cons_done; [|cbn [plan1]; rewrite H; reflexivity].
  destruct (plan l fl (mkP n (p_attr ps) (p_nattr ps))) as [[a b] c]. reflexivity.
Qed.

Lemma plan_colour n l fl ps : in_range (-99999, 99999) n = true ->
  plan (SetColour n :: l) fl ps = plan l fl (mkP (p_scale ps) (clamp_attr (p_nattr ps) n) (p_nattr ps)).
Proof.
  intros H. erewrite plan_cons_done; [|cbn [plan1]; rewrite H; reflexivity].
  destruct (plan l fl (mkP (p_scale ps) (clamp_attr (p_nattr ps) n) (p_nattr ps))) as [[a b] c]. reflexivity.
Qed.

(* X: the substring runs with fresh prefixes of its own; the caller's pending prefixes survive it *)
Lemma plan_sub name body l fl ps : pl_status (plan body fresh ps) = Done ->
  plan (Sub name body :: l) fl ps =
  (pl_pst (plan l fl (pl_pst (plan body fresh ps))),
   pl_moves (plan body fresh ps) ++ pl_moves (plan l fl (pl_pst (plan body fresh ps))),
   pl_status (plan l fl (pl_pst (plan body fresh ps)))).
Proof.
  intros H. destruct (plan body fresh ps) as [[a b] c] eqn:E. cbn in H. subst c.
  erewrite plan_cons_done by (rewrite plan1_sub, E; reflexivity). reflexivity.
Qed.

(* ------------------------------------------------------------------------------------------------ *)
(** * Colours: what C stores is an attribute of the mode, so every requested segment has one *)

Lemma draw_colour_spec na n : draw_colour na n = clamp_attr na n.
Proof. reflexivity. Qed.

Lemma clamp_attr_range na n : 1 <= na -> 0 <= clamp_attr na n < na.
Proof. unfold clamp_attr. lia. Qed.

Lemma clamp_attr_id na n : 0 <= n < na -> clamp_attr na n = n.
Proof. unfold clamp_attr. lia. Qed.

Definition attr_inv (na : Z) (st : dstate) : Prop := d_nattr st = na /\ 0 <= d_attr st < na.
Definition segs_attr_ok (na : Z) (sg : list seg) : Prop := Forall (fun s => 0 <= s_attr s < na) sg.

Definition exec_attr (c : cmd) : Prop :=
  forall fl st na, attr_inv na st ->
  attr_inv na (snd (fst (fst (exec c fl st)))) /\ segs_attr_ok na (snd (fst (exec c fl st))).

Lemma run_attr_of_Forall l : Forall exec_attr l ->
  forall fl st na, attr_inv na st ->
  attr_inv na (fst (fst (run l fl st))) /\ segs_attr_ok na (snd (fst (run l fl st))).
Proof.
  induction 1 as [|c l Hc Hl IH]; intros fl st na Hinv; cbn [run]; [split; [exact Hinv|constructor]|].
  specialize (Hc fl st na Hinv).
  destruct (exec c fl st) as [[[fl1 st1] sg1] stat1]. cbn [fst snd] in Hc. destruct Hc as [Hi1 Hs1].
  destruct stat1; cbn [fst snd]; auto.
  specialize (IH fl1 st1 na Hi1). destruct (run l fl1 st1) as [[st2 sg2] stat2]. cbn [fst snd] in *.
  destruct IH as [Hi2 Hs2]. split; [exact Hi2|]. apply Forall_app. split; assumption.
Qed.

Lemma step_attr st fl p1 na : attr_inv na st ->
  attr_inv na (fst (step st fl p1)) /\ segs_attr_ok na (snd (step st fl p1)).
Proof.
  intros [H1 H2]. unfold step, set_pen. cbn [fst snd]. split; [split; cbn; assumption|].
  destruct (fst fl); constructor; [cbn; exact H2 | constructor].
Qed.

Lemma exec_attr_all : forall c, exec_attr c.
Proof.
  apply cmd_ind_nested.
  - intros c Hns fl st na Hinv.
    assert (Hnone : attr_inv na st /\ segs_attr_ok na []) by (split; [exact Hinv|constructor]).
    destruct c; try (exfalso; eapply Hns; reflexivity); cbn [exec]; unfold raise_ifc.
    + destruct (in_range draw_range_step n); [|exact Hnone]. unfold rel_move.
      destruct (offset st (dir_offset d n)) as [o|]; [|exact Hnone].
      pose proof (step_attr st fl (draw_endpoint (fst (d_pen st)) (snd (d_pen st)) (fst o) (snd o)) na Hinv) as H.
      destruct (step st fl _) as [st' sg]. exact H.
    + destruct (in_range draw_range_x x && in_range draw_range_y y); [|exact Hnone]. unfold rel_move.
      destruct (offset st (x, y)) as [o|]; [|exact Hnone].
      pose proof (step_attr st fl (draw_endpoint (fst (d_pen st)) (snd (d_pen st)) (fst o) (snd o)) na Hinv) as H.
      destruct (step st fl _) as [st' sg]. exact H.
    + destruct (in_range draw_range_x x && in_range draw_range_y y); [|exact Hnone].
      pose proof (step_attr st fl (x, y) na Hinv) as H. destruct (step st fl (x, y)) as [st' sg]. exact H.
    + exact Hnone.
    + exact Hnone.
    + destruct (in_range draw_range_scale n); [|exact Hnone]. cbn [fst snd]. split; [|constructor].
      destruct Hinv as [H1 H2]. split; cbn; assumption.
    + destruct (in_range draw_range_attr n); [|exact Hnone]. cbn [fst snd]. split; [|constructor].
      destruct Hinv as [H1 H2]. split; [exact H1|]. cbn [set_attr d_attr]. rewrite draw_colour_spec, H1.
      apply clamp_attr_range. lia.
    + destruct (in_range draw_range_angle_a n); [|exact Hnone]. cbn [fst snd]. split; [|constructor].
      destruct Hinv as [H1 H2]. split; cbn; assumption.
    + destruct (in_range draw_range_angle_ta n); [|exact Hnone]. cbn [fst snd]. split; [|constructor].
      destruct Hinv as [H1 H2]. split; cbn; assumption.
    + exact Hnone.
    + exact Hnone.
  - intros n body Hbody fl st na Hinv. rewrite exec_sub.
    pose proof (run_attr_of_Forall body Hbody fresh st na Hinv) as H.
    destruct (run body fresh st) as [[st1 sg1] stat1]. cbn [fst snd] in H. destruct H as [Hi Hs].
    destruct stat1; cbn [fst snd]; split; auto.
    destruct Hi as [H1 H2]. unfold finish. destruct (d_window st1); split; cbn; assumption.
Qed.

(* the DRAW statement: if the colour in force is an attribute of the mode (every statement that sets it
   clamps), it stays one and every requested segment carries one: the pixel write cannot be out of range *)
Theorem draw_attr g cmds :
  0 <= g_attr g < g_nattr g ->
  0 <= g_attr (dr_state (draw g cmds)) < g_nattr g
  /\ g_nattr (dr_state (draw g cmds)) = g_nattr g
  /\ Forall (fun s => 0 <= s_attr s < g_nattr g) (dr_segs (draw g cmds)).
Proof.
  intros Ha. unfold draw. destruct (g_text g).
  - unfold dr_state, dr_segs. cbn [fst snd]. repeat split; try lia. constructor.
  - set (st0 := mkD (current g) (g_last g) (g_window g) (g_scale g) (g_angle g) (g_attr g) (g_nattr g)).
    assert (H0 : attr_inv (g_nattr g) st0) by (split; [reflexivity|exact Ha]).
    assert (Hall : Forall exec_attr cmds) by (apply Forall_forall; intros c _; apply exec_attr_all).
    pose proof (run_attr_of_Forall cmds Hall fresh st0 _ H0) as H.
    destruct (run cmds fresh st0) as [[st sg] stat]. cbn [fst snd] in H. destruct H as [[H1 H2] Hs].
    unfold dr_state, dr_segs. cbn [fst snd g_attr g_nattr].
    assert (Hf : d_attr (finish st) = d_attr st /\ d_nattr (finish st) = d_nattr st).
    { unfold finish. destruct (d_window st); split; reflexivity. }
    destruct Hf as [F1 F2]. destruct stat; rewrite ?F1, ?F2; repeat split; try lia; exact Hs.
Qed.
